(* Tier 5, preservation of Inv5. *)
From Coq Require Import NArith List Lia ZifyBool ZifyN ZifyNat Bool Arith.
From Mtbl Require Import model.Bytes model.Pool proofs.PoolBase proofs.PoolSched proofs.PoolInv proofs.PoolLife proofs.PoolStep2 proofs.PoolAbort proofs.PoolDelivery proofs.PoolExact proofs.PoolLive proofs.PoolLive1.
Import ListNotations.

(* ---------- what Inv5 reads; states that agree on it ---------- *)
Record same5 (st st' : pstate) : Prop := {
  s5_len : length (ps_threads st') = length (ps_threads st);
  s5_lab : forall x, t_lab (gett st' x) = t_lab (gett st x);
  s5_op : forall x, t_op (gett st' x) = t_op (gett st x);
  s5_obj : forall x, t_obj (gett st' x) = t_obj (gett st x);
  s5_done_mono : forall x, t_done (gett st x) = true -> t_done (gett st' x) = true;
  s5_done_sig : forall x, t_op (gett st x) = KSignal -> t_done (gett st' x) = t_done (gett st x);
  s5_blocked : forall x c, t_blocked (gett st' x) = Some c -> t_blocked (gett st x) = Some c;
  s5_idle : ps_idle st' = ps_idle st;
  s5_count : ps_count st' = ps_count st;
  s5_max : ps_max st' = ps_max st;
  s5_workers : ps_workers st' = ps_workers st;
  s5_queues : ps_queues st' = ps_queues st;
  s5_prog : ps_prog st' = ps_prog st;
}.

Lemma same5_sig st st' l : same5 st st' -> sig_pending st l -> sig_pending st' l.
Proof.
  intros S (y & D & O & B). exists y. rewrite (s5_done_sig _ _ S y O), (s5_op _ _ S), (s5_lab _ _ S). auto.
Qed.

Lemma same5_selfn st st' q : same5 st st' -> selfn st' q = selfn st q.
Proof.
  intros S. unfold selfn. rewrite (s5_workers _ _ S). f_equal.
  apply (sumf_pointwise _ _ _ _ dummy_t dummy_t); try reflexivity.
  intros x. fold (gett st' x). fold (gett st x). rewrite (s5_lab _ _ S). reflexivity.
Qed.

Lemma inv5_same5 st st' : same5 st st' -> Inv5 st -> Inv5 st'.
Proof.
  intros S I.
  assert (Gw : forall i, getw st' i = getw st i) by (intros; unfold getw; rewrite (s5_workers _ _ S); reflexivity).
  assert (Gq : forall i, getq st' i = getq st i) by (intros; unfold getq; rewrite (s5_queues _ _ S); reflexivity).
  assert (L := s5_lab _ _ S). assert (O := s5_obj _ _ S). assert (D := s5_done_mono _ _ S).
  assert (Pn : forall q, pendn st' q = pendn st q) by (intros; unfold pendn; rewrite L; reflexivity).
  constructor.
  - intros x c H. rewrite L. apply (l_cond _ I). apply (s5_blocked _ _ S). exact H.
  - intros x W. rewrite L.
    assert (W' : waiting (gett st x)).
    { destruct W as [W|W]; [left|right; rewrite <- (s5_op _ _ S); exact W].
      destruct (t_blocked (gett st' x)) eqn:E; [|congruence]. rewrite (s5_blocked _ _ S x o E). discriminate. }
    pose proof (l_wake _ I x W') as P. destruct (t_lab (gett st x)); cbn [wpred] in *; try exact Logic.I;
      rewrite ?Gw, ?Gq, ?(s5_idle _ _ S), ?(s5_count _ _ S), ?(s5_max _ _ S);
      (destruct P as [P|P]; [left; exact P|right; apply (same5_sig st); assumption]).
  - intros q. rewrite (s5_queues _ _ S), Gq, Pn, (same5_selfn _ _ q S). apply (l_nthreads _ I).
  - unfold nondying. rewrite (s5_count _ _ S), (s5_max _ _ S), (s5_workers _ _ S), L. apply (l_count _ I).
  - intros q. rewrite (s5_queues _ _ S), Gq, L, Pn, (same5_selfn _ _ q S). apply (l_drained _ I).
  - intros q. rewrite (s5_queues _ _ S), Gq, L, O. intros Hq Hf. destruct (l_joined _ I q Hq Hf) as [P|[P|P]]; [auto|auto|right; right; apply D; exact P].
  - intros q. rewrite (s5_queues _ _ S), Gq, L. apply (l_finishing _ I).
  - rewrite L, O, (s5_queues _ _ S). intros H. destruct (l_f3 _ I H) as (q & H1 & H2 & H3). exists q. rewrite Gq. auto.
  - rewrite L, (s5_queues _ _ S). intros H q Hq. rewrite Gq. destruct (l_pphase _ I H q Hq) as [P1 P2]. split; [exact P1|apply D; exact P2].
  - unfold finl. rewrite (s5_queues _ _ S), (s5_prog _ _ S), L.
    assert (E : filter (fun q => q_finished (getq st' q) || is_F1 (t_lab (gett st 0)) q) (seq 0 (length (ps_queues st))) = finl st).
    { unfold finl. apply filter_ext. intros q. rewrite Gq. reflexivity. }
    rewrite E. apply (l_prog _ I).
  - rewrite (s5_prog _ _ S), L, (s5_count _ _ S). apply (l_destroy _ I).
  - rewrite L, O, (s5_workers _ _ S). intros H. destruct (l_p5 _ I H) as (i & H1 & H2 & H3). exists i. rewrite Gw. auto.
  - intros i. rewrite L, (s5_workers _ _ S), Gw. apply (l_p34 _ I).
  - intros i. rewrite (s5_workers _ _ S), Gw, L. apply (l_nodying _ I).
  - rewrite L, (s5_count _ _ S). intros H W. apply (l_p1 _ I H).
    destruct W as [W|W]; [left|right; rewrite <- (s5_op _ _ S); exact W].
    destruct (t_blocked (gett st' 0)) eqn:E; [|congruence]. rewrite (s5_blocked _ _ S 0%nat o E). discriminate.
  - intros q. rewrite (s5_queues _ _ S), Gq, (s5_len _ _ S), L. apply (l_handler _ I).
  - rewrite L. apply (l_caller _ I).
  - rewrite L, (s5_prog _ _ S). apply (l_done0 _ I).
  - intros q. rewrite L, (s5_queues _ _ S). apply (l_f1 _ I).
  - rewrite L, (s5_count _ _ S). apply (l_p6 _ I).
  - rewrite L, (s5_prog _ _ S). apply (l_pprog _ I).
  - intros q i. rewrite L, Gq, Gw. apply (l_d5s _ I).
Qed.

(* ---------- the bookkeeping part of a step (owner, wake-up, stash) ---------- *)
Definition pre_state (st : pstate) (t : nat) (wake : option nat) (stash : list (nat * N)) : pstate :=
  snd (stash_deliver (wake_step (st1_of st t) (t_op (gett st t)) wake) t (t_lab (gett st t)) stash).

Lemma stash_deliver_other_fields st t l stash :
  let s' := snd (stash_deliver st t l stash) in
  ps_threads s' = ps_threads st /\ ps_idle s' = ps_idle st /\ ps_count s' = ps_count st /\ ps_max s' = ps_max st /\
  ps_workers s' = ps_workers st /\ ps_queues s' = ps_queues st /\ ps_prog s' = ps_prog st.
Proof.
  destruct l; cbn [stash_deliver snd]; try (repeat split; reflexivity).
  - destruct (wk_running _); [repeat split; reflexivity|]. destruct (wk_res _); repeat split; reflexivity.
  - destruct (find _ stash) as [[a r0]|]; repeat split; reflexivity.
Qed.

Lemma stash_deliver_gett st t l stash x : gett (snd (stash_deliver st t l stash)) x = gett st x.
Proof. unfold gett. destruct (stash_deliver_other_fields st t l stash) as (E & _). rewrite E. reflexivity. Qed.

Lemma pre_state_gett st t wake stash x : Inv1 st -> wake_ok st t wake ->
  gett (pre_state st t wake stash) x = gett st x \/
  (t_op (gett st t) = KSignal /\ wake = Some x /\ t_blocked (gett st x) <> None /\
   gett (pre_state st t wake stash) x = woken (gett st x)).
Proof.
  intros I W. unfold pre_state. rewrite stash_deliver_gett.
  assert (E1 : forall y, gett (st1_of st t) y = gett st y) by (intros; unfold st1_of; destruct (t_op (gett st t)); reflexivity).
  assert (L1 : length (ps_threads (st1_of st t)) = length (ps_threads st)) by (unfold st1_of; destruct (t_op (gett st t)); reflexivity).
  destruct (wake_step_frame (st1_of st t) (t_op (gett st t)) wake) as (_ & _ & Wt).
  destruct (Wt x) as [->|(u & Eo & Ew & -> & Hu & ->)]; [left; apply E1|].
  right. rewrite E1. split; [exact Eo|]. split; [exact Ew|]. split; [|reflexivity].
  unfold wake_ok in W. rewrite Ew in W. apply W; [exact Eo|rewrite <- L1; exact Hu].
Qed.

Lemma pre_state_same5 st t wake stash : Inv1 st -> wake_ok st t wake -> same5 st (pre_state st t wake stash).
Proof.
  intros I W.
  assert (G := fun x => pre_state_gett st t wake stash x I W).
  assert (F : ps_idle (pre_state st t wake stash) = ps_idle st /\ ps_count (pre_state st t wake stash) = ps_count st /\
              ps_max (pre_state st t wake stash) = ps_max st /\ ps_workers (pre_state st t wake stash) = ps_workers st /\
              ps_queues (pre_state st t wake stash) = ps_queues st /\ ps_prog (pre_state st t wake stash) = ps_prog st /\
              length (ps_threads (pre_state st t wake stash)) = length (ps_threads st)).
  { unfold pre_state.
    destruct (stash_deliver_other_fields (wake_step (st1_of st t) (t_op (gett st t)) wake) t (t_lab (gett st t)) stash)
      as (E0 & E1 & E2 & E3 & E4 & E5 & E6). rewrite E0, E1, E2, E3, E4, E5, E6.
    destruct (wake_step_frame (st1_of st t) (t_op (gett st t)) wake) as (_ & Wl & _). rewrite Wl.
    assert (V : same_view st (wake_step (st1_of st t) (t_op (gett st t)) wake)).
    { apply (same_view_trans st (st1_of st t)).
      - unfold st1_of. destruct (t_op (gett st t)); try apply same_view_refl; apply set_owner_view.
      - apply wake_step_view. intros u -> Hop Hu. unfold st1_of in *. rewrite Hop in *.
        apply (blocked_obj st u I). unfold wake_ok in W. apply W; assumption. }
    rewrite (sv_idle _ _ V), (sv_workers _ _ V), (sv_queues _ _ V), (sv_prog _ _ V).
    assert (ps_count (wake_step (st1_of st t) (t_op (gett st t)) wake) = ps_count st /\
            ps_max (wake_step (st1_of st t) (t_op (gett st t)) wake) = ps_max st) as [-> ->].
    { unfold wake_step, st1_of. destruct (t_op (gett st t)), wake; split; reflexivity. }
    repeat split. unfold st1_of. destruct (t_op (gett st t)); reflexivity. }
  destruct F as (F1 & F2 & F3 & F4 & F5 & F6 & F7).
  assert (Wk : forall x, t_blocked (gett st x) <> None -> t_op (gett st x) = KReacq /\ t_wmutex (gett st x) = t_obj (gett st x) /\ t_done (gett st x) = false).
  { intros x H. split; [|split; [apply blocked_obj; assumption|]].
    - pose proof (i1_shape _ I x) as S. unfold shape in S. destruct (t_blocked (gett st x)); [|congruence].
      apply andb_prop in S. destruct S as [_ S]. apply andb_prop in S. destruct S as [S _]. destruct (t_op (gett st x)); try discriminate; reflexivity.
    - pose proof (i1_shape _ I x) as S. unfold shape in S. destruct (t_done (gett st x)); [|reflexivity].
      apply andb_prop in S. destruct S as [S _]. apply andb_prop in S. destruct S as [_ S]. apply andb_prop in S. destruct S as [_ S].
      destruct (t_blocked (gett st x)); [discriminate|congruence]. }
  constructor; try assumption.
  - intros x. destruct (G x) as [->|(_ & _ & _ & ->)]; reflexivity.
  - intros x. destruct (G x) as [->|(_ & _ & Hb & ->)]; [reflexivity|]. destruct (Wk x Hb) as (-> & _). reflexivity.
  - intros x. destruct (G x) as [->|(_ & _ & Hb & ->)]; [reflexivity|]. destruct (Wk x Hb) as (_ & E & _). exact E.
  - intros x. destruct (G x) as [->|(_ & _ & Hb & ->)]; [auto|]. destruct (Wk x Hb) as (_ & _ & E). rewrite E. discriminate.
  - intros x _. destruct (G x) as [->|(_ & _ & Hb & ->)]; [reflexivity|]. destruct (Wk x Hb) as (_ & _ & E). rewrite E. reflexivity.
  - intros x c. destruct (G x) as [->|(_ & _ & _ & ->)]; [auto|discriminate].
Qed.

(* ---------- thread records after the code of a label has run ---------- *)
Lemma continue_new s t l :
  ps_threads (fst (continue s t l)) = ps_threads s \/
  exists l0, ((exists i, l0 = W0 i) \/ l0 = H0 (length (ps_queues s))) /\
             ps_threads (fst (continue s t l)) = ps_threads s ++ [pend KStart ONone l0].
Proof.
  destruct l; cbn [continue];
    try (unfold caller_next; destruct (ps_prog s) as [|[]]; cbn [fst ps_threads]; try (left; reflexivity);
         right; eexists; split; [right; reflexivity|reflexivity]);
    repeat break_match_goal; cbn [fst ps_threads set_pool set_workers set_queues set_abort]; try (left; reflexivity);
    right; eexists; split; [left; eexists; reflexivity|reflexivity].
Qed.

Lemma after_gett s t l x : (t < length (ps_threads s))%nat ->
  (x = t /\ gett (after s t l) x = snd (continue s t l)) \/
  (x <> t /\ gett (after s t l) x = gett s x) \/
  (x <> t /\ x = length (ps_threads s) /\ gett s x = dummy_t /\
   exists l0, ((exists i, l0 = W0 i) \/ l0 = H0 (length (ps_queues s))) /\ gett (after s t l) x = pend KStart ONone l0).
Proof.
  intros Ht. unfold after.
  pose proof (continue_new s t l) as HN. set (s' := fst (continue s t l)) in *. set (th' := snd (continue s t l)).
  assert (Lt : (t < length (ps_threads s'))%nat).
  { destruct HN as [E|(l0 & _ & E)]; rewrite E; [|rewrite app_length]; lia. }
  assert (G : gett (set_thread s' t th') x = if Nat.eqb x t then th' else gett s' x).
  { rewrite gett_set_thread. destruct (Nat.eqb_spec x t); cbn [andb]; [|reflexivity].
    destruct (Nat.ltb_spec t (length (ps_threads s'))); [reflexivity|lia]. }
  rewrite G. destruct (Nat.eqb_spec x t) as [->|Hne]; [left; split; reflexivity|right].
  assert (G2 : gett s' x = gett s x \/ (x = length (ps_threads s) /\ gett s x = dummy_t /\
               exists l0, ((exists i, l0 = W0 i) \/ l0 = H0 (length (ps_queues s))) /\ gett s' x = pend KStart ONone l0)).
  { unfold gett at 1 4. destruct HN as [E|(l0 & Hl & E)]; rewrite E; [left; reflexivity|].
    rewrite nth_app_snoc. destruct (Nat.ltb_spec x (length (ps_threads s))); [left; reflexivity|].
    destruct (Nat.eqb_spec x (length (ps_threads s))) as [Ex|Ex].
    - right. split; [exact Ex|]. split; [apply gett_oob; lia|]. exists l0. split; [exact Hl|reflexivity].
    - left. fold (gett s x). rewrite gett_oob by lia. reflexivity. }
  destruct G2 as [E|(E1 & E2 & l0 & Hl & E3)]; [left; split; [exact Hne|exact E]|].
  right. split; [exact Hne|]. split; [exact E1|]. split; [exact E2|]. exists l0. split; [exact Hl|exact E3].
Qed.

(* the variables a waiting thread's predicate reads *)
Definition varfree (s : pstate) (l : label) : bool :=
  match l with
  | D1 _ | D5 _ _ | D7 _ _ | F1 _ | P1 | P3 _ | P5 | W4u _ _ | W4o _ | H7 _ _ => false
  | W3 i => negb (wk_hasjob (getw s i)) || is_none (wk_rq (getw s i))
  | H1 j => match q_list (getq s j) with [] => true | _ => false end
  | _ => true
  end.

Lemma continue_vars5 s t l : varfree s l = true ->
  let s' := fst (continue s t l) in
  (forall i, wk_running (getw s' i) = wk_running (getw s i)) /\
  (forall q, q_list (getq s' q) = q_list (getq s q) /\ q_finished (getq s' q) = q_finished (getq s q) /\
             q_nthreads (getq s' q) = q_nthreads (getq s q)) /\
  ps_idle s' = ps_idle s /\ ps_count s' = ps_count s /\ ps_max s' = ps_max s.
Proof.
  intros VF. cbn zeta.
  assert (Base : (forall i, wk_running (getw s i) = wk_running (getw s i)) /\
                 (forall q, q_list (getq s q) = q_list (getq s q) /\ q_finished (getq s q) = q_finished (getq s q) /\
                            q_nthreads (getq s q) = q_nthreads (getq s q)) /\
                 ps_idle s = ps_idle s /\ ps_count s = ps_count s /\ ps_max s = ps_max s) by (repeat split).
  assert (Wapp : forall w0, wk_running w0 = false -> forall i, wk_running (nth i (ps_workers s ++ [w0]) dummy_w) = wk_running (getw s i)).
  { intros w0 Hw i. rewrite nth_app_snoc. unfold getw. destruct (Nat.ltb_spec i (length (ps_workers s))); [reflexivity|].
    rewrite (nth_overflow (ps_workers s)) by lia. destruct (Nat.eqb i (length (ps_workers s))); [exact Hw|reflexivity]. }
  assert (Wupd : forall i0 w', wk_running w' = wk_running (getw s i0) -> forall i, wk_running (nth i (upd_nth (ps_workers s) i0 w') dummy_w) = wk_running (getw s i)).
  { intros i0 w' Hw i. rewrite nth_upd_nth. unfold getw in *. destruct (Nat.eqb_spec i i0) as [->|]; cbn [andb]; [|reflexivity].
    destruct (Nat.ltb i0 (length (ps_workers s))); [exact Hw|reflexivity]. }
  destruct l; cbn [varfree] in VF; try discriminate; cbn [continue];
    try exact Base;
    try (unfold caller_next; destruct (ps_prog s) as [|[]]; cbn [fst]; try exact Base).
  all: repeat break_match_goal; try discriminate; cbn [fst]; try exact Base.
  all: unfold getw, getq; cbn [ps_workers ps_queues ps_idle ps_count ps_max set_workers set_queues set_pool set_abort];
       repeat split; try reflexivity.
  all: try (apply Wapp; reflexivity); try (apply Wupd; reflexivity).
  all: try (rewrite nth_app_snoc; destruct (Nat.ltb_spec q (length (ps_queues s))); [reflexivity|];
            rewrite (nth_overflow (ps_queues s)) by lia; destruct (Nat.eqb q (length (ps_queues s))); reflexivity).
  all: try (apply Wupd; cbn [wk_running]; unfold getw in *; symmetry; assumption).
Qed.

Lemma wpred_ext s s' l :
  (forall i, wk_running (getw s' i) = wk_running (getw s i)) ->
  (forall q, q_list (getq s' q) = q_list (getq s q) /\ q_finished (getq s' q) = q_finished (getq s q) /\
             q_nthreads (getq s' q) = q_nthreads (getq s q)) ->
  ps_idle s' = ps_idle s -> ps_count s' = ps_count s -> ps_max s' = ps_max s ->
  (sig_pending s l -> sig_pending s' l) ->
  wpred s l -> wpred s' l.
Proof.
  intros R Q I C M S W. destruct l; cbn [wpred] in *; try exact Logic.I; rewrite ?R, ?I, ?C, ?M;
    try (destruct W as [W|W]; [left; exact W|right; exact (S W)]).
  destruct (Q j) as (-> & -> & ->). destruct W as [W|W]; [left; exact W|right; exact (S W)].
Qed.

Lemma continue_unblocked s t l : t_blocked (snd (continue s t l)) = None.
Proof.
  destruct l; cbn [continue]; try (unfold caller_next; destruct (ps_prog s) as [|[]]; reflexivity);
    repeat break_match_goal; reflexivity.
Qed.

(* the wake-up clauses across the code of a label that does not touch the watched variables *)
Lemma wake_varfree s t l :
  (forall x c, t_blocked (gett s x) = Some c -> c = lab_cond (t_lab (gett s x))) ->
  (forall x, waiting (gett s x) -> wpred s (t_lab (gett s x))) ->
  (t < length (ps_threads s))%nat -> t_done (gett s t) = false ->
  varfree s l = true ->
  (t_op (gett s t) = KSignal -> forall x, x <> t -> waiting (gett s x) -> serves (t_lab (gett s t)) (t_lab (gett s x)) = false) ->
  (t_op (snd (continue s t l)) = KWait -> wpred (after s t l) (t_lab (snd (continue s t l)))) ->
  (forall x c, t_blocked (gett (after s t l) x) = Some c -> c = lab_cond (t_lab (gett (after s t l) x))) /\
  (forall x, waiting (gett (after s t l) x) -> wpred (after s t l) (t_lab (gett (after s t l) x))).
Proof.
  intros LC LW Ht Hd VF X1 Hnew.
  destruct (continue_vars5 s t l VF) as (R & Q & Ei & Ec & Em). cbn zeta in *.
  assert (Sg : forall c, (t_op (gett s t) = KSignal -> serves (t_lab (gett s t)) c = false) -> sig_pending s c -> sig_pending (after s t l) c).
  { intros c Hc (y & D & O & B). destruct (Nat.eq_dec y t) as [->|Hne]; [exfalso; rewrite (Hc O) in B; discriminate|].
    exists y. destruct (after_gett s t l y Ht) as [[E _]|[[_ E]|(_ & Ey & Ed & _)]]; [congruence|rewrite E; auto|].
    rewrite Ed in D. discriminate. }
  split.
  - intros x c. destruct (after_gett s t l x Ht) as [[-> E]|[[Hne E]|(Hne & _ & _ & l0 & _ & E)]]; rewrite E.
    + rewrite continue_unblocked. discriminate.
    + apply LC.
    + discriminate.
  - intros x. destruct (after_gett s t l x Ht) as [[-> E]|[[Hne E]|(Hne & _ & _ & l0 & _ & E)]]; rewrite E.
    + intros [W|W]; [rewrite continue_unblocked in W; congruence|]. apply Hnew. exact W.
    + intros W. apply (wpred_ext s); try assumption; [|apply LW; exact W].
      apply Sg. intros Ho. exact (X1 Ho x Hne W).
    + intros [W|W]; [cbn in W; congruence|discriminate].
Qed.

Lemma sig_new s t l c : (t < length (ps_threads s))%nat ->
  t_op (snd (continue s t l)) = KSignal -> serves (t_lab (snd (continue s t l))) c = true -> t_done (snd (continue s t l)) = false ->
  sig_pending (after s t l) c.
Proof.
  intros Ht H1 H2 H3. exists t. destruct (after_gett s t l t Ht) as [[_ E]|[[Hne _]|(Hne & _)]]; try congruence.
  rewrite E. auto.
Qed.

Lemma sig_keep s t l c : (t < length (ps_threads s))%nat -> t_op (gett s t) <> KSignal ->
  sig_pending s c -> sig_pending (after s t l) c.
Proof.
  intros Ht Ho (y & D & O & B). destruct (Nat.eq_dec y t) as [->|Hne]; [congruence|].
  exists y. destruct (after_gett s t l y Ht) as [[E _]|[[_ E]|(_ & Ey & Ed & _)]]; [congruence|rewrite E; auto|].
  rewrite Ed in D. discriminate.
Qed.

(* the wake-up clauses across the code of a label that changes watched variables *)
Lemma wake_changed s t l :
  (forall x c, t_blocked (gett s x) = Some c -> c = lab_cond (t_lab (gett s x))) ->
  (forall x, waiting (gett s x) -> wpred s (t_lab (gett s x))) ->
  (t < length (ps_threads s))%nat ->
  (forall x, x <> t -> waiting (gett s x) -> wpred s (t_lab (gett s x)) -> wpred (after s t l) (t_lab (gett s x))) ->
  (t_op (snd (continue s t l)) = KWait -> wpred (after s t l) (t_lab (snd (continue s t l)))) ->
  (forall x c, t_blocked (gett (after s t l) x) = Some c -> c = lab_cond (t_lab (gett (after s t l) x))) /\
  (forall x, waiting (gett (after s t l) x) -> wpred (after s t l) (t_lab (gett (after s t l) x))).
Proof.
  intros LC LW Ht Hx Hnew. split.
  - intros x c. destruct (after_gett s t l x Ht) as [[-> E]|[[Hne E]|(Hne & _ & _ & l0 & _ & E)]]; rewrite E.
    + rewrite continue_unblocked. discriminate.
    + apply LC.
    + discriminate.
  - intros x. destruct (after_gett s t l x Ht) as [[-> E]|[[Hne E]|(Hne & _ & _ & l0 & _ & E)]]; rewrite E.
    + intros [W|W]; [rewrite continue_unblocked in W; congruence|]. apply Hnew. exact W.
    + intros W. apply (Hx x Hne W). apply LW. exact W.
    + intros [W|W]; [cbn in W; congruence|discriminate].
Qed.

Section WakeChanged.
Variable s : pstate.
Variable t : nat.
Variable stash : list (nat * N).
Hypothesis I2 : Inv2 s.
Hypothesis K : Inv3 s stash.
Hypothesis LC : forall x c, t_blocked (gett s x) = Some c -> c = lab_cond (t_lab (gett s x)).
Hypothesis LW : forall x, waiting (gett s x) -> wpred s (t_lab (gett s x)).
Hypothesis Ht : (t < length (ps_threads s))%nat.
Hypothesis Hop : t_op (gett s t) <> KSignal.
Let Tt := i2_threads s I2 t.

Definition wake_goal (l : label) : Prop :=
  (forall x c, t_blocked (gett (after s t l) x) = Some c -> c = lab_cond (t_lab (gett (after s t l) x))) /\
  (forall x, waiting (gett (after s t l) x) -> wpred (after s t l) (t_lab (gett (after s t l) x))).

(* a worker's running flag changes and the thread announces it on the worker's condition *)
Lemma wake_worker_sig l i0 (b : bool) :
  (forall i, i <> i0 -> wk_running (getw (after s t l) i) = wk_running (getw s i)) ->
  wk_running (getw (after s t l) i0) = b ->
  (forall q, q_list (getq (after s t l) q) = q_list (getq s q) /\ q_finished (getq (after s t l) q) = q_finished (getq s q) /\
             q_nthreads (getq (after s t l) q) = q_nthreads (getq s q)) ->
  ps_idle (after s t l) = ps_idle s -> ps_count (after s t l) = ps_count s -> ps_max (after s t l) = ps_max s ->
  t_op (snd (continue s t l)) = KSignal -> t_done (snd (continue s t l)) = false ->
  (if b then serves (t_lab (snd (continue s t l))) (W1 i0) = true else forall j, serves (t_lab (snd (continue s t l))) (H4 j i0) = true) ->
  wake_goal l.
Proof.
  intros R Rb Q Ei Ec Em O1 O3 Sv. apply (wake_changed s t l LC LW Ht).
  - intros x Hne W P.
    destruct (t_lab (gett s x)) eqn:El; cbn [wpred] in *; try exact Logic.I; rewrite ?Ei, ?Ec, ?Em.
    + destruct P as [P|P]; [left; exact P|right; apply sig_keep; assumption].
    + destruct P as [P|P]; [left; exact P|right; apply sig_keep; assumption].
    + destruct (Nat.eq_dec i i0) as [->|Hi].
      * rewrite Rb. destruct b; [right; apply (sig_new s t l _ Ht O1 Sv O3)|left; reflexivity].
      * rewrite (R i Hi). destruct P as [P|P]; [left; exact P|right; apply sig_keep; assumption].
    + destruct (Q j) as (-> & -> & ->). destruct P as [P|P]; [left; exact P|right; apply sig_keep; assumption].
    + destruct (Nat.eq_dec w i0) as [->|Hi].
      * rewrite Rb. destruct b; [left; reflexivity|right; apply (sig_new s t l _ Ht O1 (Sv j) O3)].
      * rewrite (R w Hi). destruct P as [P|P]; [left; exact P|right; apply sig_keep; assumption].
  - rewrite O1. discriminate.
Qed.

(* a queue changes and the thread announces it on the queue's condition *)
Lemma wake_queue_sig l q0 :
  (forall i, wk_running (getw (after s t l) i) = wk_running (getw s i)) ->
  (forall q, q <> q0 -> q_list (getq (after s t l) q) = q_list (getq s q) /\ q_finished (getq (after s t l) q) = q_finished (getq s q) /\
             q_nthreads (getq (after s t l) q) = q_nthreads (getq s q)) ->
  ps_idle (after s t l) = ps_idle s -> ps_count (after s t l) = ps_count s -> ps_max (after s t l) = ps_max s ->
  t_op (snd (continue s t l)) = KSignal -> serves (t_lab (snd (continue s t l))) (H1 q0) = true -> t_done (snd (continue s t l)) = false ->
  wake_goal l.
Proof.
  intros R Q Ei Ec Em O1 O2 O3. apply (wake_changed s t l LC LW Ht).
  - intros x Hne W P. pose proof (sig_new s t l (H1 q0) Ht O1 O2 O3) as SN.
    destruct (t_lab (gett s x)) eqn:El; cbn [wpred] in *; try exact Logic.I; rewrite ?Ei, ?Ec, ?Em, ?R.
    + destruct P as [P|P]; [left; exact P|right; apply sig_keep; assumption].
    + destruct P as [P|P]; [left; exact P|right; apply sig_keep; assumption].
    + destruct P as [P|P]; [left; exact P|right; apply sig_keep; assumption].
    + destruct (Nat.eq_dec j q0) as [->|Hj]; [right; exact SN|]. destruct (Q j Hj) as (-> & -> & ->).
      destruct P as [P|P]; [left; exact P|right; apply sig_keep; assumption].
    + destruct P as [P|P]; [left; exact P|right; apply sig_keep; assumption].
  - rewrite O1. discriminate.
Qed.

Lemma getw_after_upd l i w' : (i < length (ps_workers s))%nat ->
  ps_workers (after s t l) = upd_nth (ps_workers s) i w' -> getw (after s t l) i = w'.
Proof. intros Hi E. unfold getw. rewrite E. apply nth_upd_nth_same. exact Hi. Qed.

Lemma wake_D5 q i : t_lab (gett s t) = D5 q i -> wake_goal (D5 q i).
Proof.
  intros Hlab.
  assert (Hone : ttok (ord_of s) (t_lab (gett s t)) i = 1%nat) by (rewrite Hlab; cbn; rewrite Nat.eqb_refl; reflexivity).
  destruct (sole_thread s t i I2 Hone) as (Hi & _).
  apply (wake_worker_sig (D5 q i) i true); try reflexivity.
  - intros i' Hne. unfold after. cbn [continue fst snd]. unfold getw at 1. cbn [ps_workers set_thread set_workers].
    rewrite nth_upd_nth_other by exact Hne. reflexivity.
  - erewrite getw_after_upd; [|exact Hi|reflexivity]. reflexivity.
  - intros q0. repeat split.
  - cbn [continue snd t_lab pend serves]. apply Nat.eqb_refl.
Qed.

Lemma wake_P3 i : t_lab (gett s t) = P3 i -> wake_goal (P3 i).
Proof.
  intros Hlab.
  assert (Hone : ttok (ord_of s) (t_lab (gett s t)) i = 1%nat) by (rewrite Hlab; cbn; rewrite Nat.eqb_refl; reflexivity).
  destruct (sole_thread s t i I2 Hone) as (Hi & _).
  apply (wake_worker_sig (P3 i) i true); try reflexivity.
  - intros i' Hne. unfold after. cbn [continue fst snd]. unfold getw at 1. cbn [ps_workers set_thread set_workers].
    rewrite nth_upd_nth_other by exact Hne. reflexivity.
  - erewrite getw_after_upd; [|exact Hi|reflexivity]. reflexivity.
  - intros q0. repeat split.
  - cbn [continue snd t_lab pend serves]. apply Nat.eqb_refl.
Qed.

Lemma wake_W4o i : t_lab (gett s t) = W4o i -> wake_goal (W4o i).
Proof.
  intros Hlab.
  destruct (tk_worker _ _ _ Tt i) as [Hi _]; [rewrite Hlab; reflexivity|].
  apply (wake_worker_sig (W4o i) i false); try reflexivity.
  - intros i' Hne. unfold after. cbn [continue fst snd]. unfold getw at 1. cbn [ps_workers set_thread set_workers].
    rewrite nth_upd_nth_other by exact Hne. reflexivity.
  - erewrite getw_after_upd; [|exact Hi|reflexivity]. reflexivity.
  - intros q0. repeat split.
  - intros j. cbn [continue snd t_lab pend serves]. apply Nat.eqb_refl.
Qed.

Lemma wake_F1 q : wake_goal (F1 q).
Proof.
  apply (wake_queue_sig (F1 q) q); try reflexivity; try (cbn [continue snd t_lab pend serves]; apply Nat.eqb_refl).
  intros q0 Hne. assert (E : getq (after s t (F1 q)) q0 = getq s q0).
  { unfold after. cbn [continue fst snd]. unfold getq. cbn [ps_queues set_thread set_queues]. apply nth_upd_nth_other. exact Hne. }
  rewrite E. repeat split.
Qed.

Lemma wake_W4u i q : wake_goal (W4u i q).
Proof.
  apply (wake_queue_sig (W4u i q) q); try reflexivity; try (cbn [continue snd t_lab pend serves]; apply Nat.eqb_refl).
  intros q0 Hne. assert (E : getq (after s t (W4u i q)) q0 = getq s q0).
  { unfold after. cbn [continue fst snd]. unfold getq. cbn [ps_queues set_thread set_queues]. apply nth_upd_nth_other. exact Hne. }
  rewrite E. repeat split.
Qed.

(* only the pool variables change, and the thread is the caller (the only one watching them) *)
Lemma wake_pool_caller l :
  caller_lab (t_lab (gett s t)) = true ->
  (forall i, wk_running (getw (after s t l) i) = wk_running (getw s i)) ->
  (forall q, q_list (getq (after s t l) q) = q_list (getq s q) /\ q_finished (getq (after s t l) q) = q_finished (getq s q) /\
             q_nthreads (getq (after s t l) q) = q_nthreads (getq s q)) ->
  (t_op (snd (continue s t l)) = KWait -> wpred (after s t l) (t_lab (snd (continue s t l)))) ->
  wake_goal l.
Proof.
  intros Hc R Q Hnew. apply (wake_changed s t l LC LW Ht); [|exact Hnew].
  intros x Hne W P.
  assert (Ht0 : t = 0%nat) by (apply (tk_caller _ _ _ Tt); exact Hc).
  assert (NC : caller_lab (t_lab (gett s x)) = false).
  { destruct (caller_lab (t_lab (gett s x))) eqn:E; [|reflexivity]. exfalso. apply Hne. rewrite Ht0.
    apply (tk_caller _ _ _ (i2_threads _ I2 x)). exact E. }
  destruct (t_lab (gett s x)) eqn:El; cbn in NC; try discriminate; cbn [wpred] in *; try exact Logic.I; rewrite ?R.
  - destruct P as [P|P]; [left; exact P|right; apply sig_keep; assumption].
  - destruct (Q j) as (-> & -> & ->). destruct P as [P|P]; [left; exact P|right; apply sig_keep; assumption].
  - destruct P as [P|P]; [left; exact P|right; apply sig_keep; assumption].
Qed.

Lemma wake_D1 q : t_lab (gett s t) = D1 q -> wake_goal (D1 q).
Proof.
  intros Hlab. apply wake_pool_caller; [rewrite Hlab; reflexivity| | |].
  - intros i. unfold after. cbn [continue]. repeat break_match_goal; reflexivity.
  - intros q0. unfold after. cbn [continue]. repeat break_match_goal; repeat split.
  - unfold after. cbn [continue]. destruct (ps_idle s) eqn:Ei; [|discriminate].
    destruct (ps_count s =? ps_max s)%N eqn:Ec; [|discriminate]. intros _. cbn [fst snd t_lab pend wpred].
    left. split; [exact Ei|]. apply N.eqb_eq. exact Ec.
Qed.

Lemma wake_P1 : t_lab (gett s t) = P1 -> wake_goal P1.
Proof.
  intros Hlab. apply wake_pool_caller; [rewrite Hlab; reflexivity| | |].
  - intros i. unfold after. cbn [continue]. repeat break_match_goal; reflexivity.
  - intros q0. unfold after. cbn [continue]. repeat break_match_goal; repeat split.
  - unfold after. cbn [continue]. destruct (0 <? ps_count s)%N; [|discriminate].
    destruct (ps_idle s) eqn:Ei; [|discriminate]. intros _. cbn [fst snd t_lab pend wpred]. left. exact Ei.
Qed.

Lemma wake_P5 : t_lab (gett s t) = P5 -> wake_goal P5.
Proof.
  intros Hlab. apply wake_pool_caller; [rewrite Hlab; reflexivity| | |].
  - intros i. unfold after. cbn [continue]. repeat break_match_goal; reflexivity.
  - intros q0. unfold after. cbn [continue]. repeat break_match_goal; repeat split.
  - unfold after. cbn [continue]. cbn [ps_count ps_idle set_pool]. destruct (0 <? ps_count s - 1)%N; [|discriminate].
    destruct (ps_idle s) eqn:Ei; [|discriminate]. intros _. cbn [fst snd t_lab pend wpred ps_idle set_thread set_pool]. left. reflexivity.
Qed.

Lemma wake_H7 j i : wake_goal (H7 j i).
Proof.
  apply (wake_changed s t (H7 j i) LC LW Ht); [|discriminate].
  intros x Hne W P.
  assert (SN : forall l0, serves (H7s j i) l0 = true -> sig_pending (after s t (H7 j i)) l0) by (intros l0 Hs; apply sig_new; try reflexivity; [exact Ht|exact Hs]).
  destruct (t_lab (gett s x)) eqn:El; cbn [wpred] in *; try exact Logic.I; try (right; apply SN; reflexivity).
  - destruct P as [P|P]; [left; exact P|right; apply sig_keep; assumption].
  - destruct P as [P|P]; [left; exact P|right; apply sig_keep; assumption].
  - destruct P as [P|P]; [left; exact P|right; apply sig_keep; assumption].
Qed.

Lemma wake_D7 q i : t_lab (gett s t) = D7 q i -> wake_goal (D7 q i).
Proof.
  intros Hlab.
  destruct (tk_dispatch _ _ _ Tt q) as [Dq Df]; [rewrite Hlab; reflexivity|].
  assert (Eq : forall q0, q0 <> q -> getq (after s t (D7 q i)) q0 = getq s q0).
  { intros q0 Hne. unfold after. cbn [continue]. rewrite Df. destruct (q_ordered (getq s q)); cbn [fst snd];
      unfold getq; cbn [ps_queues set_thread set_queues]; apply nth_upd_nth_other; exact Hne. }
  destruct (q_ordered (getq s q)) eqn:Eo.
  - apply (wake_queue_sig (D7 q i) q).
    + intros i0. unfold after. cbn [continue]. rewrite Df, Eo. reflexivity.
    + intros q0 Hne. rewrite (Eq q0 Hne). repeat split.
    + unfold after. cbn [continue]. rewrite Df, Eo. reflexivity.
    + unfold after. cbn [continue]. rewrite Df, Eo. reflexivity.
    + unfold after. cbn [continue]. rewrite Df, Eo. reflexivity.
    + cbn [continue]. rewrite Df, Eo. reflexivity.
    + cbn [continue]. rewrite Df, Eo. cbn [snd t_lab pend serves]. apply Nat.eqb_refl.
    + cbn [continue]. rewrite Df, Eo. reflexivity.
  - apply (wake_changed s t (D7 q i) LC LW Ht).
    + intros x Hne W P.
      assert (Eqq : q_list (getq (after s t (D7 q i)) q) = q_list (getq s q) /\ q_finished (getq (after s t (D7 q i)) q) = false).
      { assert (Gq : exists nt, getq (after s t (D7 q i)) q = mkq false (q_tid (getq s q)) false nt (q_list (getq s q))).
        { eexists. unfold after. cbn [continue]. rewrite Df, Eo. cbn [fst snd]. unfold getq at 1. cbn [ps_queues set_thread set_queues].
          apply nth_upd_nth_same. exact Dq. }
        destruct Gq as [nt0 ->]. split; reflexivity. }
      assert (Ew : forall i0, getw (after s t (D7 q i)) i0 = getw s i0).
      { intros i0. unfold after. cbn [continue]. rewrite Df, Eo. reflexivity. }
      assert (Ep : ps_idle (after s t (D7 q i)) = ps_idle s /\ ps_count (after s t (D7 q i)) = ps_count s /\ ps_max (after s t (D7 q i)) = ps_max s).
      { unfold after. cbn [continue]. rewrite Df, Eo. repeat split. }
      destruct Ep as (E1 & E2 & E3).
      destruct (t_lab (gett s x)) eqn:El; cbn [wpred] in *; try exact Logic.I; rewrite ?Ew, ?E1, ?E2, ?E3;
        try (destruct P as [P|P]; [left; exact P|right; apply sig_keep; assumption]).
      destruct (Nat.eq_dec j q) as [->|Hj].
      * destruct Eqq as [A1 A2]. rewrite A1, A2. cbn [andb].
        destruct P as [[P1 P2]|P]; [left; split; [exact P1|reflexivity]|right; apply sig_keep; assumption].
      * rewrite (Eq j Hj). destruct P as [P|P]; [left; exact P|right; apply sig_keep; assumption].
    + cbn [continue]. rewrite Df, Eo. discriminate.
Qed.

Lemma wake_W3u i q : t_lab (gett s t) = W3 i -> wk_hasjob (getw s i) = true -> wk_rq (getw s i) = Some q -> wake_goal (W3 i).
Proof.
  intros Hlab Hj Hr.
  assert (Hft : (1 <= ftok (getw s i))%nat) by (unfold ftok; rewrite Hr; cbn; lia).
  destruct (sole_ftok s i I2 Hft) as (Hi & S1 & S2 & S3).
  destruct (tk_worker _ _ _ Tt i) as [_ Etid]; [rewrite Hlab; reflexivity|].
  apply (wake_changed s t (W3 i) LC LW Ht).
  - intros x Hne W P.
    assert (Ew : forall i0, i0 <> i -> getw (after s t (W3 i)) i0 = getw s i0).
    { intros i0 Hn. unfold after. cbn [continue]. rewrite Hj, Hr. cbn [negb fst snd]. unfold getw. cbn [ps_workers set_thread set_workers].
      apply nth_upd_nth_other. exact Hn. }
    assert (Eo : (forall q0, getq (after s t (W3 i)) q0 = getq s q0) /\ ps_idle (after s t (W3 i)) = ps_idle s /\
                 ps_count (after s t (W3 i)) = ps_count s /\ ps_max (after s t (W3 i)) = ps_max s).
    { unfold after. cbn [continue]. rewrite Hj, Hr. repeat split. }
    destruct Eo as (Eq & E1 & E2 & E3).
    destruct (t_lab (gett s x)) eqn:El; cbn [wpred] in *; try exact Logic.I; rewrite ?Eq, ?E1, ?E2, ?E3;
      try (destruct P as [P|P]; [left; exact P|right; apply sig_keep; assumption]).
    + destruct (Nat.eq_dec i0 i) as [->|Hi0].
      * exfalso. apply Hne. destruct (tk_worker _ _ _ (i2_threads _ I2 x) i) as [_ E]; [rewrite El; reflexivity|]. congruence.
      * rewrite (Ew i0 Hi0). destruct P as [P|P]; [left; exact P|right; apply sig_keep; assumption].
    + destruct (Nat.eq_dec w i) as [->|Hi0].
      * exfalso. pose proof (S2 x) as Z. rewrite El in Z. cbn [ttok] in Z. rewrite Nat.eqb_refl in Z. discriminate.
      * rewrite (Ew w Hi0). destruct P as [P|P]; [left; exact P|right; apply sig_keep; assumption].
  - cbn [continue]. rewrite Hj, Hr. discriminate.
Qed.

Lemma wake_H1pop j i rest : t_lab (gett s t) = H1 j -> q_list (getq s j) = i :: rest -> wake_goal (H1 j).
Proof.
  intros Hlab El.
  destruct (k_handler _ _ K t j) as [Dq Etid]; [rewrite Hlab; reflexivity|].
  apply (wake_changed s t (H1 j) LC LW Ht).
  - intros x Hne W P.
    assert (Eq : forall q0, q0 <> j -> getq (after s t (H1 j)) q0 = getq s q0).
    { intros q0 Hn. unfold after. cbn [continue]. rewrite El. cbn [fst snd]. unfold getq. cbn [ps_queues set_thread set_queues].
      apply nth_upd_nth_other. exact Hn. }
    assert (Eo : (forall i0, getw (after s t (H1 j)) i0 = getw s i0) /\ ps_idle (after s t (H1 j)) = ps_idle s /\
                 ps_count (after s t (H1 j)) = ps_count s /\ ps_max (after s t (H1 j)) = ps_max s).
    { unfold after. cbn [continue]. rewrite El. repeat split. }
    destruct Eo as (Ew & E1 & E2 & E3).
    destruct (t_lab (gett s x)) eqn:Elx; cbn [wpred] in *; try exact Logic.I; rewrite ?Ew, ?E1, ?E2, ?E3;
      try (destruct P as [P|P]; [left; exact P|right; apply sig_keep; assumption]).
    destruct (Nat.eq_dec j0 j) as [->|Hj].
    + exfalso. apply Hne. destruct (k_handler _ _ K x j) as [_ E]; [rewrite Elx; reflexivity|]. congruence.
    + rewrite (Eq j0 Hj). destruct P as [P|P]; [left; exact P|right; apply sig_keep; assumption].
  - cbn [continue]. rewrite El. discriminate.
Qed.

End WakeChanged.

Lemma varfree_new_wait s t l : varfree s l = true -> t_op (snd (continue s t l)) = KWait ->
  wpred (after s t l) (t_lab (snd (continue s t l))).
Proof.
  destruct l; cbn [varfree]; try discriminate; intros VF; unfold after; cbn [continue];
    try (unfold caller_next; destruct (ps_prog s) as [|[]]; discriminate).
  all: repeat break_match_goal; try discriminate; intros _; cbn [fst snd t_lab pend wpred].
  - left. assumption.
  - left. split; [assumption|]. assumption.
  - left. assumption.
Qed.

Lemma changed_not_signal s l op o : allowed l op o = true -> varfree s l = false -> op <> KSignal.
Proof.
  destruct l; cbn [varfree allowed]; try discriminate; unfold lwr, is_op; intros A _ E; subst op; cbn in A; discriminate.
Qed.

(* Group C across the code of any label *)
Lemma cwake s t stash l :
  Inv2 s -> Inv3 s stash ->
  (forall x c, t_blocked (gett s x) = Some c -> c = lab_cond (t_lab (gett s x))) ->
  (forall x, waiting (gett s x) -> wpred s (t_lab (gett s x))) ->
  (t < length (ps_threads s))%nat -> t_lab (gett s t) = l -> t_done (gett s t) = false ->
  (varfree s l = false -> t_op (gett s t) <> KSignal) ->
  (t_op (gett s t) = KSignal -> forall x, x <> t -> waiting (gett s x) -> serves (t_lab (gett s t)) (t_lab (gett s x)) = false) ->
  wake_goal s t l.
Proof.
  intros I2 K LC LW Ht Hl Hd Al X1. unfold wake_goal.
  destruct (varfree s l) eqn:VF.
  - apply (wake_varfree s t l LC LW Ht Hd VF X1). apply varfree_new_wait. exact VF.
  - pose proof (Al eq_refl) as Hop.
    destruct l; cbn [varfree] in VF; try discriminate.
    + apply (wake_D1 s t I2 LC LW Ht Hop); exact Hl.
    + apply (wake_D5 s t I2 LC LW Ht Hop); exact Hl.
    + apply (wake_D7 s t I2 LC LW Ht Hop); exact Hl.
    + apply (wake_F1 s t LC LW Ht Hop).
    + apply (wake_P1 s t I2 LC LW Ht Hop); exact Hl.
    + apply (wake_P3 s t I2 LC LW Ht Hop); exact Hl.
    + apply (wake_P5 s t I2 LC LW Ht Hop); exact Hl.
    + apply orb_false_iff in VF. destruct VF as [V1 V2]. apply negb_false_iff in V1.
      destruct (wk_rq (getw s i)) as [q|] eqn:Er; [|discriminate].
      apply (wake_W3u s t I2 LC LW Ht Hop i q); assumption.
    + apply (wake_W4u s t LC LW Ht Hop).
    + apply (wake_W4o s t I2 LC LW Ht Hop); exact Hl.
    + destruct (q_list (getq s j)) as [|i rest] eqn:El; [discriminate|].
      apply (wake_H1pop s t stash K LC LW Ht Hop j i rest); assumption.
    + apply (wake_H7 s t LC LW Ht Hop).
Qed.

(* ---------- accounting (Group B) ---------- *)
Definition acctfree (s : pstate) (l : label) : bool :=
  match l with
  | D1 _ | D3 _ _ true | D5 _ _ | D7 _ _ | P3 _ | P5 | W4u _ _ | W4o _ | H3 _ None | LDone => false
  | W3 i => negb (wk_hasjob (getw s i)) || is_none (wk_rq (getw s i))
  | H1 j => match q_list (getq s j) with [] => true | _ => false end
  | CNext | D8 | F3 | P6 => match ps_prog s with NewHandler _ :: _ => false | _ => true end
  | _ => true
  end.

Definition qacct (qq : queue) : N * list nat * bool * nat := (q_nthreads qq, q_list qq, q_ordered qq, q_tid qq).

Lemma continue_acct s t l : acctfree s l = true ->
  let s' := fst (continue s t l) in let th' := snd (continue s t l) in
  (forall q, qacct (getq s' q) = qacct (getq s q) /\ (q_finished (getq s q) = true -> q_finished (getq s' q) = true)) /\ length (ps_queues s') = length (ps_queues s) /\
  (forall i, wk_rq (getw s' i) = wk_rq (getw s i) /\ dying (getw s' i) = dying (getw s i)) /\
  length (ps_workers s') = length (ps_workers s) /\
  ps_count s' = ps_count s /\ ps_max s' = ps_max s /\
  lab_w4u (t_lab th') = None /\ lab_w4u l = None /\
  lab_pending (t_lab th') = lab_pending l /\ count_extra (t_lab th') = count_extra l /\
  (t_lab th' = LDone -> lab_handler l = None) /\
  ps_threads s' = ps_threads s.
Proof.
  intros AF. cbn zeta.
  assert (Wupd : forall i0 w', wk_rq w' = wk_rq (getw s i0) -> dying w' = dying (getw s i0) ->
             forall i, wk_rq (nth i (upd_nth (ps_workers s) i0 w') dummy_w) = wk_rq (getw s i) /\
                       dying (nth i (upd_nth (ps_workers s) i0 w') dummy_w) = dying (getw s i)).
  { intros i0 w' H1 H2 i. rewrite nth_upd_nth. unfold getw in *. destruct (Nat.eqb_spec i i0) as [->|]; cbn [andb]; [|split; reflexivity].
    destruct (Nat.ltb i0 (length (ps_workers s))); [split; assumption|split; reflexivity]. }
  assert (Qupd : forall q0 qq', qacct qq' = qacct (getq s q0) -> (q_finished (getq s q0) = true -> q_finished qq' = true) ->
             forall q, qacct (nth q (upd_nth (ps_queues s) q0 qq') dummy_q) = qacct (getq s q) /\
                       (q_finished (getq s q) = true -> q_finished (nth q (upd_nth (ps_queues s) q0 qq') dummy_q) = true)).
  { intros q0 qq' H H' q. rewrite nth_upd_nth. unfold getq in *. destruct (Nat.eqb_spec q q0) as [->|]; cbn [andb]; [|split; auto].
    destruct (Nat.ltb q0 (length (ps_queues s))); [split; assumption|split; auto]. }
  destruct l; cbn [acctfree] in AF; try discriminate; cbn [continue];
    try (revert AF; unfold caller_next; destruct (ps_prog s) as [|[]] eqn:Ep; intros AF; try discriminate; cbn [fst snd];
         repeat split; cbn [t_lab pend]; try reflexivity; try (intros; auto; discriminate); auto).
  all: repeat break_match_goal; try discriminate; cbn [fst snd t_lab pend lab_w4u lab_pending count_extra caller_lab];
       unfold getw, getq; cbn [ps_workers ps_queues ps_count ps_max ps_threads set_workers set_queues set_pool set_abort];
       repeat split; try reflexivity; try (intros; discriminate); try (intros; reflexivity);
       try (rewrite upd_nth_length; reflexivity).
  all: try (apply Wupd; [first [reflexivity|symmetry; assumption|unfold getw in *; symmetry; assumption]|]); try (apply Qupd; [reflexivity|intros; first [reflexivity|assumption]]).
  all: try (unfold dying; cbn [wk_running wk_hasjob wk_res]; unfold getw in *; 
            repeat match goal with H : _ = _ |- _ => rewrite H end; reflexivity).
  all: try (intros H; exact H).
  all: try (unfold dying, getw in *; cbn [wk_running wk_hasjob wk_res is_none]; rewrite ?andb_false_r;
            match goal with H : negb (wk_hasjob ?w) = false |- _ => apply negb_false_iff in H; rewrite H end;
            cbn [negb]; rewrite ?andb_false_r; reflexivity).
Qed.

Lemma sumf_pointwise_len {A B} (f : A -> nat) (g : B -> nat) l l' d d' : length l = length l' ->
  (forall x, (x < length l)%nat -> f (nth x l d) = g (nth x l' d')) -> sumf f l = sumf g l'.
Proof.
  revert l'. induction l as [|a l IH]; intros [|b l'] HL H; cbn [length] in HL; try discriminate; [reflexivity|].
  rewrite !sumf_cons. f_equal.
  - apply (H 0%nat). cbn. lia.
  - apply IH; [lia|]. intros x Hx. apply (H (S x)). cbn. lia.
Qed.

Lemma w4u_none l q : lab_w4u l = None -> w4u_is_q l q = false.
Proof. destruct l; cbn; try reflexivity. discriminate. Qed.

Definition nth_clause (st : pstate) (q : nat) : Prop :=
  (q_nthreads (getq st q) < two64)%N /\
  if q_ordered (getq st q) then q_nthreads (getq st q) = (N.of_nat (length (q_list (getq st q))) mod two64)%N
  else ((q_nthreads (getq st q) + N.of_nat (pendn st q)) mod two64 =
        N.of_nat (length (q_list (getq st q)) + selfn st q) mod two64)%N.
Definition count_clause (st : pstate) : Prop :=
  ps_count st = N.of_nat (nondying st + count_extra (t_lab (gett st 0))) /\ (ps_count st <= ps_max st)%N.
Definition drained_clause (st : pstate) (q : nat) : Prop :=
  t_lab (gett st (q_tid (getq st q))) = LDone ->
  q_finished (getq st q) = true /\ q_list (getq st q) = [] /\ selfn st q = 0%nat /\ pendn st q = 0%nat.
Definition accB (st : pstate) : Prop :=
  (forall q, (q < length (ps_queues st))%nat -> nth_clause st q) /\ count_clause st /\
  (forall q, (q < length (ps_queues st))%nat -> drained_clause st q).

Lemma inv5_accB st : Inv5 st -> accB st.
Proof. intros I. split; [exact (l_nthreads _ I)|]. split; [exact (l_count _ I)|exact (l_drained _ I)]. Qed.

(* pending / self counters and the like after a step that does not touch them *)
Lemma acct_free s t l :
  Inv2 s -> accB s ->
  (forall q, (q < length (ps_queues s))%nat -> lab_handler (t_lab (gett s (q_tid (getq s q)))) = Some q \/ t_lab (gett s (q_tid (getq s q))) = LDone) ->
  (t < length (ps_threads s))%nat -> t_lab (gett s t) = l -> acctfree s l = true -> accB (after s t l).
Proof.
  intros I2 (Bn & Bc & Bd) LH Ht Hl AF.
  destruct (continue_acct s t l AF) as (Q & Lq & Wk & Lw & Ec & Em & W1 & W2 & Pn & Ce & Ld & Eth). cbn zeta in *.
  set (st' := after s t l).
  assert (G : forall x, gett st' x = if Nat.eqb x t then snd (continue s t l) else gett s x).
  { intros x. unfold st', after. rewrite gett_set_thread, Eth. destruct (Nat.eqb_spec x t); cbn [andb].
    - destruct (Nat.ltb_spec t (length (ps_threads s))); [reflexivity|lia].
    - unfold gett. rewrite Eth. reflexivity. }
  assert (L0p : lab_pending (t_lab (gett st' 0)) = lab_pending (t_lab (gett s 0)) /\ count_extra (t_lab (gett st' 0)) = count_extra (t_lab (gett s 0))).
  { rewrite G. destruct (Nat.eqb_spec 0 t) as [<-|]; [rewrite Pn, Ce, Hl; split; reflexivity|split; reflexivity]. }
  destruct L0p as [L0p L0c].
  assert (Pe : forall q, pendn st' q = pendn s q) by (intros; unfold pendn; rewrite L0p; reflexivity).
  assert (Se : forall q, selfn st' q = selfn s q).
  { intros q. unfold selfn. f_equal.
    - apply (sumf_pointwise _ _ _ _ dummy_w dummy_w); try reflexivity. intros i.
      destruct (Wk i) as [E _]. unfold getw in E. cbv beta. unfold rq_is_q. change (ps_workers st') with (ps_workers (fst (continue s t l))). rewrite E. reflexivity.
    - apply (sumf_pointwise _ _ _ _ dummy_t dummy_t); try reflexivity. intros x. fold (gett st' x). fold (gett s x). rewrite G.
      destruct (Nat.eqb_spec x t) as [->|]; [|reflexivity]. rewrite Hl, (w4u_none _ q W1), (w4u_none _ q W2). reflexivity. }
  assert (Gq : forall q, qacct (getq st' q) = qacct (getq s q)) by (intros q; apply (Q q)).
  assert (Nq : length (ps_queues st') = length (ps_queues s)) by exact Lq.
  split; [|split].
  - intros q Hq. rewrite Nq in Hq. specialize (Bn q Hq). unfold nth_clause in *. rewrite Pe, Se.
    pose proof (Gq q) as E. unfold qacct in E. inversion E as [[E1 E2 E3 E4]]. rewrite E1, E2, E3. exact Bn.
  - unfold count_clause in *. change (ps_count st') with (ps_count (fst (continue s t l))). change (ps_max st') with (ps_max (fst (continue s t l))).
    rewrite Ec, Em, L0c.
    assert (Nd : nondying st' = nondying s).
    { unfold nondying. apply (sumf_pointwise_len _ _ _ _ dummy_w dummy_w); [exact Lw|]. intros i _.
      destruct (Wk i) as [_ E]. unfold getw in E. change (ps_workers st') with (ps_workers (fst (continue s t l))). rewrite E. reflexivity. }
    rewrite Nd. exact Bc.
  - intros q Hq. rewrite Nq in Hq. specialize (Bd q Hq). unfold drained_clause in *. rewrite Pe, Se.
    pose proof (Gq q) as E. unfold qacct in E. inversion E as [[E1 E2 E3 E4]]. rewrite E2, E4, G.
    destruct (Nat.eqb_spec (q_tid (getq s q)) t) as [Et|Et].
    + intros Hd. exfalso. pose proof (Ld Hd) as Hn. destruct (LH q Hq) as [H|H]; rewrite Et, Hl in H; [congruence|].
      rewrite H in AF. discriminate.
    + intros Hd. destruct (Bd Hd) as (A1 & A2 & A3 & A4). split; [apply (Q q); exact A1|auto].
Qed.

(* counters under a single worker / thread update *)
Lemma selfn_upd_wt s st' t th' i w' q :
  ps_threads st' = upd_nth (ps_threads s) t th' -> (t < length (ps_threads s))%nat ->
  ps_workers st' = upd_nth (ps_workers s) i w' -> (i < length (ps_workers s))%nat ->
  (selfn st' q + b2n (rq_is_q (getw s i) q) + b2n (w4u_is_q (t_lab (gett s t)) q) =
   selfn s q + b2n (rq_is_q w' q) + b2n (w4u_is_q (t_lab th') q))%nat.
Proof.
  intros Et Ht Ew Hi. unfold selfn. rewrite Et, Ew.
  pose proof (sumf_upd_nth (fun w => b2n (rq_is_q w q)) (ps_workers s) i w' dummy_w Hi) as A. fold (getw s i) in A.
  pose proof (sumf_upd_nth (fun th => b2n (w4u_is_q (t_lab th) q)) (ps_threads s) t th' dummy_t Ht) as B. fold (gett s t) in B.
  cbv beta in A, B. lia.
Qed.

Lemma selfn_upd_t s st' t th' q :
  ps_threads st' = upd_nth (ps_threads s) t th' -> (t < length (ps_threads s))%nat ->
  ps_workers st' = ps_workers s ->
  (selfn st' q + b2n (w4u_is_q (t_lab (gett s t)) q) = selfn s q + b2n (w4u_is_q (t_lab th') q))%nat.
Proof.
  intros Et Ht Ew. unfold selfn. rewrite Et, Ew.
  pose proof (sumf_upd_nth (fun th => b2n (w4u_is_q (t_lab th) q)) (ps_threads s) t th' dummy_t Ht) as B. fold (gett s t) in B.
  cbv beta in B. lia.
Qed.

Lemma nondying_upd s st' i w' : ps_workers st' = upd_nth (ps_workers s) i w' -> (i < length (ps_workers s))%nat ->
  (nondying st' + b2n (negb (dying (getw s i))) = nondying s + b2n (negb (dying w')))%nat.
Proof.
  intros Ew Hi. unfold nondying. rewrite Ew.
  pose proof (sumf_upd_nth (fun w => b2n (negb (dying w))) (ps_workers s) i w' dummy_w Hi) as A. fold (getw s i) in A. cbv beta in A. lia.
Qed.

Lemma gett0_upd s st' t th' : ps_threads st' = upd_nth (ps_threads s) t th' -> (t < length (ps_threads s))%nat ->
  gett st' 0 = if Nat.eqb 0 t then th' else gett s 0.
Proof. intros E H. apply (gett_upd s st' t th' 0 E H). Qed.

Lemma nth_clause_same s st' q : qacct (getq st' q) = qacct (getq s q) -> pendn st' q = pendn s q -> selfn st' q = selfn s q ->
  nth_clause s q -> nth_clause st' q.
Proof.
  intros E P S H. unfold nth_clause in *. unfold qacct in E. inversion E as [[E1 E2 E3 E4]]. rewrite E1, E2, E3, P, S. exact H.
Qed.

Lemma drained_clause_same s st' q : qacct (getq st' q) = qacct (getq s q) ->
  (q_finished (getq s q) = true -> q_finished (getq st' q) = true) ->
  pendn st' q = pendn s q -> selfn st' q = selfn s q ->
  (t_lab (gett st' (q_tid (getq s q))) = LDone -> t_lab (gett s (q_tid (getq s q))) = LDone) ->
  drained_clause s q -> drained_clause st' q.
Proof.
  intros E F P S L H. unfold drained_clause in *. unfold qacct in E. inversion E as [[E1 E2 E3 E4]]. rewrite E2, E4, P, S.
  intros Hd. destruct (H (L Hd)) as (A1 & A2 & A3 & A4). auto.
Qed.

(* a queue whose handler has exited is not touched any more *)
Lemma drained_not_target s q : Inv2 s -> (q < length (ps_queues s))%nat -> drained_clause s q ->
  t_lab (gett s (q_tid (getq s q))) = LDone ->
  (forall x, lab_dispatch (t_lab (gett s x)) <> Some q) /\
  (forall i, wk_rq (getw s i) <> Some q) /\ (forall x i, t_lab (gett s x) <> W4u i q).
Proof.
  intros I2 Hq D L. destruct (D L) as (A1 & A2 & A3 & A4). split; [|split].
  - intros x H. destruct (tk_dispatch _ _ _ (i2_threads _ I2 x) q H) as [_ F]. congruence.
  - intros i H. unfold selfn in A3.
    destruct (Nat.lt_ge_cases i (length (ps_workers s))) as [Hi|Hi]; [|rewrite getw_oob in H by exact Hi; discriminate].
    pose proof (sumf_nth_le (fun w => b2n (rq_is_q w q)) (ps_workers s) i dummy_w Hi) as Le. cbv beta in Le. fold (getw s i) in Le.
    unfold rq_is_q at 1 in Le. rewrite H, Nat.eqb_refl in Le. cbn [b2n] in Le. lia.
  - intros x i H. unfold selfn in A3.
    destruct (Nat.lt_ge_cases x (length (ps_threads s))) as [Hx|Hx]; [|rewrite gett_oob in H by exact Hx; discriminate].
    pose proof (sumf_nth_le (fun th => b2n (w4u_is_q (t_lab th) q)) (ps_threads s) x dummy_t Hx) as Le. cbv beta in Le. fold (gett s x) in Le.
    rewrite H in Le. cbn [w4u_is_q] in Le. rewrite Nat.eqb_refl in Le. cbn [b2n] in Le. lia.
Qed.

Lemma mod_cancel (n p p' L S S' : N) :
  ((n + p) mod 18446744073709551616 = (L + S) mod 18446744073709551616 -> p' + S = p + S' ->
   (n + p') mod 18446744073709551616 = (L + S') mod 18446744073709551616)%N.
Proof.
  intros H E.
  pose proof (N.div_mod (n + p) 18446744073709551616 ltac:(lia)).
  pose proof (N.div_mod (L + S) 18446744073709551616 ltac:(lia)).
  pose proof (N.div_mod (n + p') 18446744073709551616 ltac:(lia)).
  pose proof (N.div_mod (L + S') 18446744073709551616 ltac:(lia)).
  pose proof (N.mod_upper_bound (n + p) 18446744073709551616 ltac:(lia)).
  pose proof (N.mod_upper_bound (L + S) 18446744073709551616 ltac:(lia)).
  pose proof (N.mod_upper_bound (n + p') 18446744073709551616 ltac:(lia)).
  pose proof (N.mod_upper_bound (L + S') 18446744073709551616 ltac:(lia)).
  lia.
Qed.

Ltac modfacts a := pose proof (N.div_mod a 18446744073709551616 ltac:(lia)); pose proof (N.mod_upper_bound a 18446744073709551616 ltac:(lia)).
Lemma mod_inc (n L : N) : (n = L mod 18446744073709551616 -> (n + 1) mod 18446744073709551616 = (L + 1) mod 18446744073709551616)%N.
Proof. intros H. modfacts L. modfacts (n + 1)%N. modfacts (L + 1)%N. lia. Qed.
Lemma mod_dec_o (n L : N) : (n = (L + 1) mod 18446744073709551616 -> (n + 18446744073709551616 - 1) mod 18446744073709551616 = L mod 18446744073709551616)%N.
Proof. intros H. modfacts L. modfacts (L + 1)%N. modfacts (n + 18446744073709551616 - 1)%N. lia. Qed.
Lemma mod_dec_u (n p L S : N) : ((n + p) mod 18446744073709551616 = (L + 1 + S) mod 18446744073709551616 ->
  ((n + 18446744073709551616 - 1) mod 18446744073709551616 + p) mod 18446744073709551616 = (L + S) mod 18446744073709551616)%N.
Proof. intros H. modfacts (n + p)%N. modfacts (L + 1 + S)%N. modfacts (n + 18446744073709551616 - 1)%N. modfacts (L + S)%N.
  modfacts ((n + 18446744073709551616 - 1) mod 18446744073709551616 + p)%N. lia. Qed.

Section AcctSteps.
Variable s : pstate.
Variable t : nat.
Variable stash : list (nat * N).
Hypothesis I2 : Inv2 s.
Hypothesis K : Inv3 s stash.
Hypothesis B : accB s.
Hypothesis LH : forall q, (q < length (ps_queues s))%nat ->
  lab_handler (t_lab (gett s (q_tid (getq s q)))) = Some q \/ t_lab (gett s (q_tid (getq s q))) = LDone.
Hypothesis Ht : (t < length (ps_threads s))%nat.
Let Tt := i2_threads s I2 t.

(* thread t (not a handler about to exit) relabels; queues and workers unchanged; the count may change *)
Lemma acct_relabel_count (st' : pstate) th' :
  ps_threads st' = upd_nth (ps_threads s) t th' -> ps_workers st' = ps_workers s -> ps_queues st' = ps_queues s ->
  ps_max st' = ps_max s ->
  lab_pending (t_lab th') = lab_pending (t_lab (gett s t)) ->
  lab_w4u (t_lab th') = None -> lab_w4u (t_lab (gett s t)) = None ->
  (t_lab th' = LDone -> lab_handler (t_lab (gett s t)) = None /\ t_lab (gett s t) <> LDone) ->
  (ps_count st' = N.of_nat (nondying s + count_extra (t_lab (if Nat.eqb 0 t then th' else gett s 0))) /\ (ps_count st' <= ps_max s)%N) ->
  accB st'.
Proof.
  intros Eth Ew Eq Em Pn W1 W2 Ld Cc. destruct B as (Bn & Bc & Bd).
  assert (G : forall x, gett st' x = if Nat.eqb x t then th' else gett s x) by (intros; apply (gett_upd s st' t th' x Eth Ht)).
  assert (Gq : forall q, getq st' q = getq s q) by (intros; unfold getq; rewrite Eq; reflexivity).
  assert (Pe : forall q, pendn st' q = pendn s q).
  { intros q. unfold pendn. rewrite G. destruct (Nat.eqb_spec 0 t) as [<-|]; [rewrite Pn|]; reflexivity. }
  assert (Se : forall q, selfn st' q = selfn s q).
  { intros q. pose proof (selfn_upd_t s st' t th' q Eth Ht Ew) as E. rewrite (w4u_none _ q W1), (w4u_none _ q W2) in E. lia. }
  split; [|split].
  - intros q Hq. rewrite Eq in Hq. apply (nth_clause_same s); [rewrite Gq; reflexivity|apply Pe|apply Se|apply Bn; exact Hq].
  - unfold count_clause. rewrite Em, G. unfold nondying. rewrite Ew. exact Cc.
  - intros q Hq. rewrite Eq in Hq. apply (drained_clause_same s); [rewrite Gq; reflexivity|rewrite Gq; auto|apply Pe|apply Se| |apply Bd; exact Hq].
    rewrite G. destruct (Nat.eqb_spec (q_tid (getq s q)) t) as [E|E]; [|auto].
    intros Hd. exfalso. destruct (Ld Hd) as [H1 H2]. destruct (LH q Hq) as [H|H]; rewrite E in H; congruence.
Qed.

Lemma acct_D1 q : t_lab (gett s t) = D1 q -> accB (after s t (D1 q)).
Proof.
  intros Hlab. assert (Ht0 : t = 0%nat) by (apply (tk_caller _ _ _ Tt); rewrite Hlab; reflexivity).
  destruct B as (_ & [Bc1 Bc2] & _). rewrite <- Ht0, Hlab in Bc1. cbn [count_extra] in Bc1.
  unfold after. cbn [continue]. destruct (ps_idle s) as [|i rest] eqn:Ei.
  - destruct (ps_count s =? ps_max s)%N eqn:Ec; cbn [fst snd].
    + apply (acct_relabel_count _ (pend KWait OPoolC (D1 q))); try reflexivity; rewrite ?Hlab; try reflexivity; try discriminate.
      rewrite <- Ht0, Nat.eqb_refl. cbn [t_lab pend count_extra set_thread ps_count]. split; [exact Bc1|exact Bc2].
    + apply (acct_relabel_count _ (pend KUnlock OPoolM (D3 q (length (ps_workers s)) true))); try reflexivity; rewrite ?Hlab; try reflexivity; try discriminate.
      rewrite <- Ht0, Nat.eqb_refl. cbn [t_lab pend count_extra set_thread set_pool ps_count]. apply N.eqb_neq in Ec. split; lia.
  - match goal with |- context [set_pool ?S rest _] => assert (Ec : ps_count S = ps_count s) by (destruct (_ || _); reflexivity) end.
    cbn [fst snd].
    apply (acct_relabel_count _ (pend KUnlock OPoolM (D3 q i false))); try reflexivity; rewrite ?Hlab; try reflexivity; try discriminate;
      try (destruct (_ || _); reflexivity).
    rewrite <- Ht0, Nat.eqb_refl. cbn [t_lab pend count_extra set_thread set_pool ps_count]. rewrite Ec. split; [exact Bc1|exact Bc2].
Qed.

Lemma acct_P5 : t_lab (gett s t) = P5 -> accB (after s t P5).
Proof.
  intros Hlab. assert (Ht0 : t = 0%nat) by (apply (tk_caller _ _ _ Tt); rewrite Hlab; reflexivity).
  destruct B as (_ & [Bc1 Bc2] & _). rewrite <- Ht0, Hlab in Bc1. cbn [count_extra] in Bc1.
  unfold after. cbn [continue]. cbn [ps_count ps_idle set_pool].
  destruct (0 <? ps_count s - 1)%N.
  2:{ cbn [fst snd]. apply (acct_relabel_count _ (pend KUnlock OPoolM P6)); try reflexivity; rewrite ?Hlab; try reflexivity; try discriminate.
      rewrite <- Ht0, Nat.eqb_refl. cbn [t_lab pend count_extra set_thread set_pool ps_count]. split; lia. }
  destruct (ps_idle s) as [|i rest] eqn:Ei; cbn [fst snd].
  - apply (acct_relabel_count _ (pend KWait OPoolC P1)); try reflexivity; rewrite ?Hlab; try reflexivity; try discriminate.
    rewrite <- Ht0, Nat.eqb_refl. cbn [t_lab pend count_extra set_thread set_pool ps_count]. split; lia.
  - match goal with |- context [set_pool ?S rest _] => assert (Ec : ps_count S = (ps_count s - 1)%N) by (destruct (wk_hasjob _); reflexivity) end.
    apply (acct_relabel_count _ (pend KLock (OWm i) (P3 i))); try reflexivity; rewrite ?Hlab; try reflexivity; try discriminate;
      try (destruct (wk_hasjob _); reflexivity).
    rewrite <- Ht0, Nat.eqb_refl. cbn [t_lab pend count_extra set_thread set_pool ps_count]. rewrite Ec. split; lia.
Qed.

(* thread t relabels and worker i changes; queues unchanged.  The counters of every queue are given. *)
Lemma acct_worker (st' : pstate) th' i w' :
  ps_threads st' = upd_nth (ps_threads s) t th' -> ps_workers st' = upd_nth (ps_workers s) i w' -> (i < length (ps_workers s))%nat ->
  ps_queues st' = ps_queues s -> ps_count st' = ps_count s -> ps_max st' = ps_max s ->
  (forall q, (q < length (ps_queues s))%nat -> q_ordered (getq s q) = false ->
     (pendn st' q + selfn s q = pendn s q + selfn st' q)%nat) ->
  (forall q, (q < length (ps_queues s))%nat -> t_lab (gett s (q_tid (getq s q))) = LDone ->
     pendn st' q = pendn s q /\ selfn st' q = selfn s q) ->
  (t_lab th' = LDone -> lab_handler (t_lab (gett s t)) = None /\ t_lab (gett s t) <> LDone) ->
  (nondying st' + count_extra (t_lab (gett st' 0)) = nondying s + count_extra (t_lab (gett s 0)))%nat ->
  accB st'.
Proof.
  intros Eth Ew Hi Eq Ec Em Bal Dr Ld Cn. destruct B as (Bn & Bc & Bd).
  assert (G : forall x, gett st' x = if Nat.eqb x t then th' else gett s x) by (intros; apply (gett_upd s st' t th' x Eth Ht)).
  assert (Gq : forall q, getq st' q = getq s q) by (intros; unfold getq; rewrite Eq; reflexivity).
  split; [|split].
  - intros q Hq. rewrite Eq in Hq. specialize (Bn q Hq). unfold nth_clause in *. rewrite Gq.
    destruct Bn as [R Bn]. split; [exact R|]. destruct (q_ordered (getq s q)) eqn:Eo; [exact Bn|].
    specialize (Bal q Hq Eo). unfold two64 in *.
    rewrite !Nat2N.inj_add in *.
    apply (mod_cancel _ (N.of_nat (pendn s q)) _ _ (N.of_nat (selfn s q))); [exact Bn|lia].
  - unfold count_clause in *. rewrite Ec, Em. destruct Bc as [Bc1 Bc2]. split; [|exact Bc2]. rewrite Bc1. f_equal. lia.
  - intros q Hq. rewrite Eq in Hq. specialize (Bd q Hq). unfold drained_clause in *. rewrite Gq, G.
    destruct (Nat.eqb_spec (q_tid (getq s q)) t) as [E|E].
    + intros Hd. exfalso. destruct (Ld Hd) as [H1 H2]. destruct (LH q Hq) as [H|H]; rewrite E in H; congruence.
    + intros Hd. destruct (Bd Hd) as (A1 & A2 & A3 & A4). destruct (Dr q Hq Hd) as [D1 D2]. rewrite D1, D2. auto.
Qed.

Lemma pendn_after (st' : pstate) th' q :
  ps_threads st' = upd_nth (ps_threads s) t th' ->
  pendn st' q = match lab_pending (t_lab (if Nat.eqb 0 t then th' else gett s 0)) with Some (q', _) => b2n (Nat.eqb q' q) | None => 0%nat end.
Proof. intros E. unfold pendn. rewrite (gett0_upd s st' t th' E Ht). reflexivity. Qed.

Lemma acct_D5 q0 i : t_lab (gett s t) = D5 q0 i -> accB (after s t (D5 q0 i)).
Proof.
  intros Hlab. assert (Ht0 : t = 0%nat) by (apply (tk_caller _ _ _ Tt); rewrite Hlab; reflexivity).
  assert (Hf : free_w (getw s i) = true) by (apply (tk_free _ _ _ Tt); rewrite Hlab; reflexivity).
  destruct (free_fields _ Hf) as (F1 & F2 & F3 & F4).
  assert (Hone : ttok (ord_of s) (t_lab (gett s t)) i = 1%nat) by (rewrite Hlab; cbn; rewrite Nat.eqb_refl; reflexivity).
  destruct (sole_thread s t i I2 Hone) as (Hi & _).
  unfold after. cbn [continue fst snd].
  set (w' := mkw (wk_tid (getw s i)) true true (ps_njobs s) (wk_res (getw s i)) (if q_ordered (getq s q0) then None else Some q0)).
  set (th' := pend KSignal (OWc i) (D5s q0 i)).
  match goal with |- accB ?S => set (st' := S) end.
  assert (Pn : forall q, pendn st' q = b2n (Nat.eqb q0 q)).
  { intros q. rewrite (pendn_after st' th' q eq_refl). rewrite <- Ht0, Nat.eqb_refl. reflexivity. }
  assert (P0 : forall q, pendn s q = 0%nat) by (intros q; unfold pendn; rewrite <- Ht0, Hlab; reflexivity).
  assert (Sn : forall q, selfn st' q = (selfn s q + b2n (rq_is_q w' q))%nat).
  { intros q. pose proof (selfn_upd_wt s st' t th' i w' q eq_refl Ht eq_refl Hi) as E.
    unfold rq_is_q at 1 in E. rewrite F4, Hlab in E. cbn [w4u_is_q th' t_lab pend b2n] in E. lia. }
  apply (acct_worker st' th' i w'); try reflexivity; try assumption.
  - intros q Hq Eo. rewrite Pn, P0, Sn. unfold rq_is_q, w'. cbn [wk_rq].
    destruct (Nat.eqb_spec q0 q) as [->|Hne].
    + rewrite Eo. rewrite Nat.eqb_refl. cbn. lia.
    + destruct (q_ordered (getq s q0)); cbn [b2n]; [lia|]. destruct (Nat.eqb_spec q0 q); [contradiction|]. cbn. lia.
  - intros q Hq Hd. destruct B as (_ & _ & Bd).
    destruct (drained_not_target s q I2 Hq (Bd q Hq) Hd) as (N1 & _).
    assert (Hne : q0 <> q) by (intros ->; apply (N1 t); rewrite Hlab; reflexivity).
    rewrite Pn, P0, Sn. unfold rq_is_q, w'. cbn [wk_rq]. destruct (Nat.eqb_spec q0 q); [contradiction|].
    destruct (q_ordered (getq s q0)); cbn [b2n]; [split; lia|]. destruct (Nat.eqb_spec q0 q); [contradiction|]. cbn. split; lia.
  - discriminate.
  - pose proof (nondying_upd s st' i w' eq_refl Hi) as E.
    assert (D1 : dying (getw s i) = false) by (unfold dying; rewrite F1; reflexivity).
    assert (D2 : dying w' = false) by reflexivity. rewrite D1, D2 in E. cbn [negb b2n] in E.
    rewrite (gett0_upd s st' t th' eq_refl Ht). rewrite <- Ht0, Nat.eqb_refl, Hlab. cbn [th' t_lab pend count_extra]. lia.
Qed.

Lemma acct_P3 i : t_lab (gett s t) = P3 i -> accB (after s t (P3 i)).
Proof.
  intros Hlab. assert (Ht0 : t = 0%nat) by (apply (tk_caller _ _ _ Tt); rewrite Hlab; reflexivity).
  assert (Hf : free_w (getw s i) = true) by (apply (tk_free _ _ _ Tt); rewrite Hlab; reflexivity).
  destruct (free_fields _ Hf) as (F1 & F2 & F3 & F4).
  assert (Hone : ttok (ord_of s) (t_lab (gett s t)) i = 1%nat) by (rewrite Hlab; cbn; rewrite Nat.eqb_refl; reflexivity).
  destruct (sole_thread s t i I2 Hone) as (Hi & _).
  unfold after. cbn [continue fst snd]. rewrite F2, F3, F4.
  set (w' := mkw (wk_tid (getw s i)) true false (wk_job (getw s i)) None None).
  set (th' := pend KSignal (OWc i) (P3s i)).
  match goal with |- accB ?S => set (st' := S) end.
  assert (Pn : forall q, pendn st' q = pendn s q).
  { intros q. rewrite (pendn_after st' th' q eq_refl). unfold pendn. rewrite <- Ht0, Nat.eqb_refl, Hlab. reflexivity. }
  assert (Sn : forall q, selfn st' q = selfn s q).
  { intros q. pose proof (selfn_upd_wt s st' t th' i w' q eq_refl Ht eq_refl Hi) as E.
    unfold rq_is_q in E. rewrite F4, Hlab in E. cbn [w' wk_rq w4u_is_q th' t_lab pend b2n] in E. lia. }
  apply (acct_worker st' th' i w'); try reflexivity; try assumption.
  - intros q Hq Eo. rewrite Pn, Sn. lia.
  - intros q Hq Hd. rewrite Pn, Sn. split; reflexivity.
  - discriminate.
  - pose proof (nondying_upd s st' i w' eq_refl Hi) as E.
    assert (D1 : dying (getw s i) = false) by (unfold dying; rewrite F1; reflexivity).
    assert (D2 : dying w' = true) by reflexivity. rewrite D1, D2 in E. cbn [negb b2n] in E.
    rewrite (gett0_upd s st' t th' eq_refl Ht). rewrite <- Ht0, Nat.eqb_refl, Hlab. cbn [th' t_lab pend count_extra]. lia.
Qed.

Lemma count_extra_noncaller l : caller_lab l = false -> count_extra l = 0%nat.
Proof. destruct l; cbn; try discriminate; reflexivity. Qed.

Lemma extra_same_noncaller (st' : pstate) th' :
  ps_threads st' = upd_nth (ps_threads s) t th' -> caller_lab (t_lab (gett s t)) = false -> caller_lab (t_lab th') = false ->
  count_extra (t_lab (gett st' 0)) = count_extra (t_lab (gett s 0)).
Proof.
  intros E C1 C2. rewrite (gett0_upd s st' t th' E Ht). destruct (Nat.eqb_spec 0 t) as [<-|]; [|reflexivity].
  rewrite (count_extra_noncaller _ C1), (count_extra_noncaller _ C2). reflexivity.
Qed.

Lemma pendn_same_noncaller (st' : pstate) th' q :
  ps_threads st' = upd_nth (ps_threads s) t th' -> lab_pending (t_lab (gett s t)) = None -> lab_pending (t_lab th') = None ->
  pendn st' q = pendn s q.
Proof.
  intros E C1 C2. rewrite (pendn_after st' th' q E). unfold pendn. destruct (Nat.eqb_spec 0 t) as [<-|]; [rewrite C1, C2|]; reflexivity.
Qed.

Lemma acct_W3u i q0 : t_lab (gett s t) = W3 i -> wk_hasjob (getw s i) = true -> wk_rq (getw s i) = Some q0 ->
  accB (after s t (W3 i)).
Proof.
  intros Hlab Hj Hr.
  destruct (tk_worker _ _ _ Tt i) as [Hi _]; [rewrite Hlab; reflexivity|].
  unfold after. cbn [continue]. rewrite Hj, Hr. cbn [negb fst snd].
  set (w' := mkw (wk_tid (getw s i)) false false 0 (Some (wk_job (getw s i))) None).
  set (th' := pend KLock (OQm q0) (W4u i q0)).
  match goal with |- accB ?S => set (st' := S) end.
  assert (Pn : forall q, pendn st' q = pendn s q).
  { intros q. apply (pendn_same_noncaller st' th' q eq_refl); [rewrite Hlab|]; reflexivity. }
  assert (Sn : forall q, selfn st' q = selfn s q).
  { intros q. pose proof (selfn_upd_wt s st' t th' i w' q eq_refl Ht eq_refl Hi) as E.
    unfold rq_is_q in E. rewrite Hr, Hlab in E. cbn [w' wk_rq w4u_is_q th' t_lab pend] in E. lia. }
  apply (acct_worker st' th' i w'); try reflexivity; try assumption.
  - intros q Hq Eo. rewrite Pn, Sn. lia.
  - intros q Hq Hd. rewrite Pn, Sn. split; reflexivity.
  - discriminate.
  - pose proof (nondying_upd s st' i w' eq_refl Hi) as E.
    assert (D1 : dying (getw s i) = false) by (unfold dying; rewrite Hj; cbn [negb]; rewrite andb_false_r; reflexivity).
    assert (D2 : dying w' = false) by reflexivity. rewrite D1, D2 in E. cbn [negb b2n] in E.
    rewrite (extra_same_noncaller st' th' eq_refl) by (rewrite ?Hlab; reflexivity). lia.
Qed.

Lemma acct_W4o i : t_lab (gett s t) = W4o i -> accB (after s t (W4o i)).
Proof.
  intros Hlab.
  destruct (wthread_self s t i I2) as (Hi & W2 & W3 & W4); [rewrite Hlab; reflexivity|].
  rewrite Hlab in W3. unfold after. cbn [continue fst snd].
  assert (Ph : wk_res (getw s i) <> None /\ wk_rq (getw s i) = None).
  { revert W3. unfold wphase_ok. cbn [wloop].
    destruct (wk_running (getw s i)), (wk_hasjob (getw s i)), (wk_res (getw s i)), (wk_rq (getw s i)); cbn; intros; try discriminate; split; congruence. }
  destruct Ph as [P1 P2].
  set (w' := mkw (wk_tid (getw s i)) false (wk_hasjob (getw s i)) (wk_job (getw s i)) (wk_res (getw s i)) (wk_rq (getw s i))).
  set (th' := pend KSignal (OWc i) (W4os i)).
  match goal with |- accB ?S => set (st' := S) end.
  assert (Pn : forall q, pendn st' q = pendn s q).
  { intros q. apply (pendn_same_noncaller st' th' q eq_refl); [rewrite Hlab|]; reflexivity. }
  assert (Sn : forall q, selfn st' q = selfn s q).
  { intros q. pose proof (selfn_upd_wt s st' t th' i w' q eq_refl Ht eq_refl Hi) as E.
    unfold rq_is_q in E. rewrite Hlab in E. cbn [w' wk_rq w4u_is_q th' t_lab pend] in E. lia. }
  apply (acct_worker st' th' i w'); try reflexivity; try assumption.
  - intros q Hq Eo. rewrite Pn, Sn. lia.
  - intros q Hq Hd. rewrite Pn, Sn. split; reflexivity.
  - discriminate.
  - pose proof (nondying_upd s st' i w' eq_refl Hi) as E.
    assert (D1 : dying (getw s i) = false).
    { unfold dying. destruct (wk_res (getw s i)); [cbn [is_none]; apply andb_false_r|congruence]. }
    assert (D2 : dying w' = false) by reflexivity. rewrite D1, D2 in E. cbn [negb b2n] in E.
    rewrite (extra_same_noncaller st' th' eq_refl) by (rewrite ?Hlab; reflexivity). lia.
Qed.

(* thread t relabels and queue q0 changes; workers unchanged *)
Lemma acct_queue (st' : pstate) th' q0 qq' :
  ps_threads st' = upd_nth (ps_threads s) t th' -> ps_queues st' = upd_nth (ps_queues s) q0 qq' -> (q0 < length (ps_queues s))%nat ->
  ps_workers st' = ps_workers s -> ps_count st' = ps_count s -> ps_max st' = ps_max s ->
  q_tid qq' = q_tid (getq s q0) ->
  (forall q, q <> q0 -> pendn st' q = pendn s q /\ selfn st' q = selfn s q) ->
  nth_clause st' q0 ->
  t_lab (gett s (q_tid (getq s q0))) <> LDone ->
  (t_lab th' = LDone -> lab_handler (t_lab (gett s t)) = None /\ t_lab (gett s t) <> LDone) ->
  (t_lab th' <> LDone \/ q_tid (getq s q0) <> t) ->
  count_extra (t_lab (gett st' 0)) = count_extra (t_lab (gett s 0)) ->
  accB st'.
Proof.
  intros Eth Eq Hq0 Ew Ec Em Etid Hoth Hn0 Hnd Ld Ld0 Ce. destruct B as (Bn & Bc & Bd).
  assert (G : forall x, gett st' x = if Nat.eqb x t then th' else gett s x) by (intros; apply (gett_upd s st' t th' x Eth Ht)).
  assert (Gq : forall q, getq st' q = if Nat.eqb q q0 then qq' else getq s q) by (intros; apply (getq_upd s st' q0 qq' q Eq Hq0)).
  assert (Lq : length (ps_queues st') = length (ps_queues s)) by (rewrite Eq; apply upd_nth_length).
  split; [|split].
  - intros q Hq. rewrite Lq in Hq. destruct (Nat.eq_dec q q0) as [->|Hne]; [exact Hn0|].
    destruct (Hoth q Hne) as [P S]. apply (nth_clause_same s); try assumption; [|apply Bn; exact Hq].
    rewrite Gq. destruct (Nat.eqb_spec q q0); [contradiction|reflexivity].
  - unfold count_clause in *. rewrite Ec, Em, Ce. unfold nondying. rewrite Ew. exact Bc.
  - intros q Hq. rewrite Lq in Hq. destruct (Nat.eq_dec q q0) as [->|Hne].
    + unfold drained_clause. rewrite Gq, Nat.eqb_refl, Etid, G. intros Hd. exfalso.
      destruct (Nat.eqb_spec (q_tid (getq s q0)) t) as [E|E]; [|exact (Hnd Hd)].
      destruct Ld0 as [H|H]; [exact (H Hd)|exact (H E)].
    + destruct (Hoth q Hne) as [P S]. apply (drained_clause_same s); try assumption; [| | |apply Bd; exact Hq].
      * rewrite Gq. destruct (Nat.eqb_spec q q0); [contradiction|reflexivity].
      * rewrite Gq. destruct (Nat.eqb_spec q q0); [contradiction|auto].
      * rewrite G. destruct (Nat.eqb_spec (q_tid (getq s q)) t) as [E|E]; [|auto].
        intros Hd. exfalso. destruct (Ld Hd) as [H1 H2]. destruct (LH q Hq) as [H|H]; rewrite E in H; congruence.
Qed.

Lemma acct_D7 q0 i : t_lab (gett s t) = D7 q0 i -> accB (after s t (D7 q0 i)).
Proof.
  intros Hlab. assert (Ht0 : t = 0%nat) by (apply (tk_caller _ _ _ Tt); rewrite Hlab; reflexivity).
  destruct (tk_dispatch _ _ _ Tt q0) as [Dq Df]; [rewrite Hlab; reflexivity|].
  pose proof B as (Bn & Bc & Bd).
  assert (Hnd : t_lab (gett s (q_tid (getq s q0))) <> LDone).
  { intros Hd. destruct (Bd q0 Dq Hd) as (A1 & _). congruence. }
  assert (L0 : t_lab (gett s 0) = D7 q0 i) by (rewrite <- Ht0 at 1; exact Hlab).
  assert (P1 : pendn s q0 = 1%nat) by (unfold pendn; rewrite L0; cbn [lab_pending]; rewrite Nat.eqb_refl; reflexivity).
  assert (Poth : forall q, q <> q0 -> pendn s q = 0%nat).
  { intros q Hne. unfold pendn. rewrite L0. cbn [lab_pending]. destruct (Nat.eqb_spec q0 q); [congruence|reflexivity]. }
  destruct (Bn q0 Dq) as [R Cl].
  unfold after. cbn [continue]. rewrite Df.
  destruct (q_ordered (getq s q0)) eqn:Eo; cbn [fst snd].
  - match goal with |- accB (set_thread (set_queues s (upd_nth _ q0 ?Q)) t ?T) => set (qq' := Q); set (th' := T) end.
    match goal with |- accB ?S => set (st' := S) end.
    assert (Pn : forall q, pendn st' q = 0%nat).
    { intros q. rewrite (pendn_after st' th' q eq_refl). rewrite <- Ht0, Nat.eqb_refl. reflexivity. }
    assert (Sn : forall q, selfn st' q = selfn s q).
    { intros q. pose proof (selfn_upd_t s st' t th' q eq_refl Ht eq_refl) as E. rewrite Hlab in E. cbn [w4u_is_q th' t_lab pend b2n] in E. lia. }
    apply (acct_queue st' th' q0 qq'); try reflexivity; try assumption.
    + intros q Hne. rewrite Pn, (Poth q Hne), Sn. split; reflexivity.
    + unfold nth_clause. rewrite (getq_same s st' q0 qq' eq_refl Dq). cbn [qq' q_nthreads q_ordered q_list]. unfold two64 in *.
      split; [apply N.mod_upper_bound; lia|]. rewrite app_length. cbn [length]. rewrite Nat2N.inj_add. apply mod_inc. exact Cl.
    + discriminate.
    + left. discriminate.
    + rewrite (gett0_upd s st' t th' eq_refl Ht). rewrite <- Ht0, Nat.eqb_refl, Hlab. reflexivity.
  - match goal with |- accB (set_thread (set_queues s (upd_nth _ q0 ?Q)) t ?T) => set (qq' := Q); set (th' := T) end.
    match goal with |- accB ?S => set (st' := S) end.
    assert (Pn : forall q, pendn st' q = 0%nat).
    { intros q. rewrite (pendn_after st' th' q eq_refl). rewrite <- Ht0, Nat.eqb_refl. reflexivity. }
    assert (Sn : forall q, selfn st' q = selfn s q).
    { intros q. pose proof (selfn_upd_t s st' t th' q eq_refl Ht eq_refl) as E. rewrite Hlab in E. cbn [w4u_is_q th' t_lab pend b2n] in E. lia. }
    apply (acct_queue st' th' q0 qq'); try reflexivity; try assumption.
    + intros q Hne. rewrite Pn, (Poth q Hne), Sn. split; reflexivity.
    + unfold nth_clause. rewrite (getq_same s st' q0 qq' eq_refl Dq). cbn [qq' q_nthreads q_ordered q_list]. unfold two64 in *.
      split; [apply N.mod_upper_bound; lia|]. rewrite Pn, Sn. rewrite P1 in Cl. cbn [N.of_nat] in *.
      rewrite N.add_0_r, N.mod_mod by lia. exact Cl.
    + discriminate.
    + left. discriminate.
    + rewrite (gett0_upd s st' t th' eq_refl Ht). rewrite <- Ht0, Nat.eqb_refl, Hlab. reflexivity.
Qed.

Lemma acct_W4u i q0 : t_lab (gett s t) = W4u i q0 -> accB (after s t (W4u i q0)).
Proof.
  intros Hlab.
  pose proof (tk_w4u _ _ _ Tt i q0 Hlab) as Dq.
  pose proof (k_w4u _ _ K t i q0 Hlab) as Eo.
  pose proof B as (Bn & Bc & Bd).
  assert (Hnd : t_lab (gett s (q_tid (getq s q0))) <> LDone).
  { intros Hd. destruct (drained_not_target s q0 I2 Dq (Bd q0 Dq) Hd) as (_ & _ & N3). exact (N3 t i Hlab). }
  destruct (Bn q0 Dq) as [R Cl]. rewrite Eo in Cl.
  unfold after. cbn [continue fst snd].
  match goal with |- accB (set_thread (set_queues s (upd_nth _ q0 ?Q)) t ?T) => set (qq' := Q); set (th' := T) end.
  match goal with |- accB ?S => set (st' := S) end.
  assert (Pn : forall q, pendn st' q = pendn s q).
  { intros q. apply (pendn_same_noncaller st' th' q eq_refl); [rewrite Hlab|]; reflexivity. }
  assert (Sn : forall q, (selfn st' q + b2n (Nat.eqb q0 q) = selfn s q)%nat).
  { intros q. pose proof (selfn_upd_t s st' t th' q eq_refl Ht eq_refl) as E. rewrite Hlab in E. cbn [w4u_is_q th' t_lab pend b2n] in E. lia. }
  apply (acct_queue st' th' q0 qq'); try reflexivity; try assumption.
  - intros q Hne. rewrite Pn. split; [reflexivity|]. specialize (Sn q). destruct (Nat.eqb_spec q0 q); [congruence|]. cbn [b2n] in Sn. lia.
  - unfold nth_clause. rewrite (getq_same s st' q0 qq' eq_refl Dq). cbn [qq' q_nthreads q_ordered q_list]. rewrite Eo.
    split; [exact R|]. rewrite Pn. specialize (Sn q0). rewrite Nat.eqb_refl in Sn. cbn [b2n] in Sn.
    rewrite app_length. cbn [length]. replace (length (q_list (getq s q0)) + 1 + selfn st' q0)%nat with (length (q_list (getq s q0)) + selfn s q0)%nat by lia.
    exact Cl.
  - discriminate.
  - left. discriminate.
  - apply (extra_same_noncaller st' th' eq_refl); rewrite ?Hlab; reflexivity.
Qed.

Lemma acct_H1pop j i rest : t_lab (gett s t) = H1 j -> q_list (getq s j) = i :: rest -> accB (after s t (H1 j)).
Proof.
  intros Hlab El.
  destruct (k_handler _ _ K t j) as [Dq Etid]; [rewrite Hlab; reflexivity|].
  pose proof B as (Bn & Bc & Bd).
  assert (Hnd : t_lab (gett s (q_tid (getq s j))) <> LDone) by (rewrite Etid, Hlab; discriminate).
  destruct (Bn j Dq) as [R Cl]. rewrite El in Cl. cbn [length] in Cl.
  unfold after. cbn [continue]. rewrite El. cbn [fst snd].
  match goal with |- accB (set_thread (set_queues s (upd_nth _ j ?Q)) t ?T) => set (qq' := Q); set (th' := T) end.
  match goal with |- accB ?S => set (st' := S) end.
  assert (Pn : forall q, pendn st' q = pendn s q).
  { intros q. apply (pendn_same_noncaller st' th' q eq_refl); [rewrite Hlab|]; reflexivity. }
  assert (Sn : forall q, selfn st' q = selfn s q).
  { intros q. pose proof (selfn_upd_t s st' t th' q eq_refl Ht eq_refl) as E. rewrite Hlab in E. cbn [w4u_is_q th' t_lab pend b2n] in E. lia. }
  apply (acct_queue st' th' j qq'); try reflexivity; try assumption.
  - intros q Hne. rewrite Pn, Sn. split; reflexivity.
  - unfold nth_clause. rewrite (getq_same s st' j qq' eq_refl Dq). cbn [qq' q_nthreads q_ordered q_list]. unfold two64 in *.
    split; [apply N.mod_upper_bound; lia|]. rewrite Pn, Sn.
    destruct (q_ordered (getq s j)).
    + apply mod_dec_o. rewrite Cl. f_equal. lia.
    + rewrite Nat2N.inj_add. apply mod_dec_u. rewrite Cl. f_equal. lia.
  - discriminate.
  - left. discriminate.
  - apply (extra_same_noncaller st' th' eq_refl); rewrite ?Hlab; reflexivity.
Qed.

End AcctSteps.

(* ---------- the number of travelling workers is bounded by the number of workers ---------- *)
Lemma sumf_le {A} (f g : A -> nat) l : (forall a, In a l -> (f a <= g a)%nat) -> (sumf f l <= sumf g l)%nat.
Proof.
  induction l as [|a l IH]; intros H; [reflexivity|]. rewrite !sumf_cons.
  pose proof (H a (or_introl eq_refl)). specialize (IH (fun b Hb => H b (or_intror Hb))). lia.
Qed.

Lemma sumf_swap {A B} (f : A -> B -> nat) la lb :
  sumf (fun a => sumf (fun b => f a b) lb) la = sumf (fun b => sumf (fun a => f a b) la) lb.
Proof.
  induction la as [|a la IH].
  - rewrite sumf_nil. induction lb as [|b lb IHb]; [reflexivity|]. rewrite sumf_cons, sumf_nil, <- IHb. reflexivity.
  - rewrite sumf_cons, IH. clear IH. induction lb as [|b lb IHb]; [reflexivity|].
    rewrite !sumf_cons, <- IHb. lia.
Qed.

Lemma sumf_add {A} (f g : A -> nat) l : sumf (fun a => (f a + g a)%nat) l = (sumf f l + sumf g l)%nat.
Proof. induction l as [|a l IH]; [reflexivity|]. rewrite !sumf_cons, IH. lia. Qed.

Lemma sumf_const1 {A} (l : list A) : sumf (fun _ => 1%nat) l = length l.
Proof. induction l as [|a l IH]; [reflexivity|]. rewrite sumf_cons, IH. reflexivity. Qed.

Lemma sumf_in_le {A} (f : A -> nat) l a : In a l -> (f a <= sumf f l)%nat.
Proof.
  induction l as [|b l IH]; intros H; [destruct H|]. rewrite sumf_cons. destruct H as [->|H]; [lia|]. specialize (IH H). lia.
Qed.

Lemma selfn_le_nw s q : Inv2 s -> (selfn s q <= length (ps_workers s))%nat.
Proof.
  intros I2. set (nw := length (ps_workers s)).
  assert (A : (sumf (fun w => b2n (rq_is_q w q)) (ps_workers s) <= sumf (fun i => ftok (getw s i)) (seq 0 nw))%nat).
  { rewrite (sumf_seq (fun w => b2n (rq_is_q w q)) (ps_workers s) dummy_w eq_refl nw (Nat.le_refl _)).
    apply sumf_le. intros i _. fold (getw s i). unfold rq_is_q, ftok. destruct (wk_rq (getw s i)); cbn; [destruct (Nat.eqb n q); cbn; lia|lia]. }
  assert (Bq : (sumf (fun th => b2n (w4u_is_q (t_lab th) q)) (ps_threads s) <= sumf (fun i => tok_t s i) (seq 0 nw))%nat).
  { unfold tok_t. rewrite <- (sumf_swap (fun th i => ttok (ord_of s) (t_lab th) i)).
    apply sumf_le. intros th Hin. destruct (In_nth _ _ dummy_t Hin) as (x & Hx & <-). fold (gett s x).
    destruct (t_lab (gett s x)) eqn:El; cbn [w4u_is_q b2n]; try lia.
    destruct (tk_worker _ _ _ (i2_threads _ I2 x) i) as [Hi _]; [rewrite El; reflexivity|].
    assert (Hin' : In i (seq 0 nw)) by (apply in_seq; fold nw in Hi; lia).
    pose proof (sumf_in_le (fun b => ttok (ord_of s) (W4u i q0) b) (seq 0 nw) i Hin') as Le. cbv beta in Le.
    assert (E1 : ttok (ord_of s) (W4u i q0) i = 1%nat) by (cbn [ttok]; rewrite Nat.eqb_refl; reflexivity). rewrite E1 in Le.
    destruct (Nat.eqb q0 q); cbn [b2n]; lia. }
  assert (C : (sumf (fun i => (ftok (getw s i) + tok_t s i)%nat) (seq 0 nw) <= sumf (fun _ => 1%nat) (seq 0 nw))%nat).
  { apply sumf_le. intros i Hin. apply in_seq in Hin. pose proof (i2_tokens _ I2 i) as Tk. fold nw in Tk.
    assert (E : Nat.ltb i nw = true) by (apply Nat.ltb_lt; lia). rewrite E in Tk. unfold tokens in Tk. lia. }
  rewrite sumf_add, sumf_const1, seq_length in C. unfold selfn. unfold nw in *.
  change (sumf (fun i : nat => tok_t s i) (seq 0 (length (ps_workers s)))) with (sumf (tok_t s) (seq 0 (length (ps_workers s)))) in Bq. lia.
Qed.

Lemma nondying_all s : (forall i, (i < length (ps_workers s))%nat -> dying (getw s i) = false) -> nondying s = length (ps_workers s).
Proof.
  intros H. unfold nondying. rewrite <- (sumf_const1 (ps_workers s)). apply (sumf_ext_nth _ _ _ dummy_w).
  intros i Hi. fold (getw s i). rewrite (H i Hi). reflexivity.
Qed.

Section AcctSteps2.
Variable s : pstate.
Variable t : nat.
Variable stash : list (nat * N).
Hypothesis I2 : Inv2 s.
Hypothesis K : Inv3 s stash.
Hypothesis I5 : Inv5 s.
Hypothesis Ht : (t < length (ps_threads s))%nat.
Hypothesis Hmax : (ps_max s < two64)%N.
Let Tt := i2_threads s I2 t.
Let B := inv5_accB s I5.

Lemma LH5 : forall q, (q < length (ps_queues s))%nat ->
  lab_handler (t_lab (gett s (q_tid (getq s q)))) = Some q \/ t_lab (gett s (q_tid (getq s q))) = LDone.
Proof. intros q Hq. apply (l_handler _ I5 q Hq). Qed.

(* the handler of queue j leaves: nothing is on its way to the queue any more *)
Lemma acct_H3n j : t_lab (gett s t) = H3 j None -> t_done (gett s t) = false -> accB (after s t (H3 j None)).
Proof.
  intros Hlab Hnd.
  destruct (tk_h3none _ _ _ Tt j Hlab) as (E1 & E2 & E3).
  destruct (k_handler _ _ K t j) as [Dq Etid]; [rewrite Hlab; reflexivity|].
  pose proof B as (Bn & Bc & Bd).
  unfold after. cbn [continue]. rewrite E1, E2, E3. cbn [negb orb N.eqb fst snd].
  set (th' := pend KExit ONone LDone). set (st' := set_thread s t th').
  assert (G : forall x, gett st' x = if Nat.eqb x t then th' else gett s x) by (intros; apply (gett_upd s st' t th' x eq_refl Ht)).
  assert (Pe : forall q, pendn st' q = pendn s q).
  { intros q. apply (pendn_same_noncaller s t I2 Ht st' th' q eq_refl); [rewrite Hlab|]; reflexivity. }
  assert (Se : forall q, selfn st' q = selfn s q).
  { intros q. pose proof (selfn_upd_t s st' t th' q eq_refl Ht eq_refl) as E. rewrite Hlab in E. cbn [w4u_is_q th' t_lab pend b2n] in E. lia. }
  (* the queue is drained *)
  assert (Pj : pendn s j = 0%nat).
  { unfold pendn. destruct (lab_pending (t_lab (gett s 0))) as [[q' i']|] eqn:Ep; [|reflexivity].
    destruct (Nat.eqb_spec q' j) as [->|]; [|reflexivity]. exfalso.
    assert (Hd : lab_dispatch (t_lab (gett s 0)) = Some j) by (destruct (t_lab (gett s 0)); cbn in Ep; try discriminate; inversion Ep; subst; reflexivity).
    destruct (tk_dispatch _ _ _ (i2_threads _ I2 0%nat) j Hd) as [_ F]. congruence. }
  assert (Sj : selfn s j = 0%nat).
  { destruct (Bn j Dq) as [_ Cl]. rewrite E1, E3, Pj in Cl. cbn [length] in Cl.
    destruct (q_ordered (getq s j)) eqn:Eo.
    - unfold selfn.
      assert (Z1 : sumf (fun w => b2n (rq_is_q w j)) (ps_workers s) = sumf (fun _ => 0%nat) (ps_workers s)).
      { apply (sumf_ext_nth _ _ _ dummy_w). intros i Hi. fold (getw s i). unfold rq_is_q. destruct (wk_rq (getw s i)) as [q'|] eqn:Er; [|reflexivity].
        destruct (Nat.eqb_spec q' j) as [->|]; [|reflexivity]. pose proof (k_rq _ _ K i j Er). congruence. }
      assert (Z2 : sumf (fun th => b2n (w4u_is_q (t_lab th) j)) (ps_threads s) = sumf (fun _ => 0%nat) (ps_threads s)).
      { apply (sumf_ext_nth _ _ _ dummy_t). intros x Hx. fold (gett s x). destruct (t_lab (gett s x)) eqn:El; try reflexivity.
        cbn [w4u_is_q]. destruct (Nat.eqb_spec q j) as [->|]; [|reflexivity]. pose proof (k_w4u _ _ K x i j El). congruence. }
      rewrite Z1, Z2. clear. assert (Z : forall A (l : list A), sumf (fun _ => 0%nat) l = 0%nat) by (induction l; [reflexivity|rewrite sumf_cons; assumption]).
      rewrite !Z. reflexivity.
    - (* bounded by the number of workers, itself bounded by max < 2^64 *)
      pose proof (selfn_le_nw s j I2) as Le.
      assert (NP : ~ (plabel (t_lab (gett s 0)) = true \/ t_lab (gett s 0) = LDone)).
      { intros H. destruct (l_pphase _ I5 H j Dq) as [_ Dd]. rewrite Etid in Dd. congruence. }
      assert (Nd : nondying s = length (ps_workers s)).
      { apply nondying_all. intros i Hi. destruct (dying (getw s i)) eqn:Ed; [|reflexivity]. exfalso. apply NP. apply (l_nodying _ I5 i Hi Ed). }
      destruct Bc as [Bc1 Bc2]. unfold two64 in *.
      cbn [N.of_nat Nat.add] in Cl. rewrite N.add_0_r in Cl. cbn in Cl.
      rewrite N.mod_small in Cl by lia. lia. }
  split; [|split].
  - intros q Hq. change (length (ps_queues st')) with (length (ps_queues s)) in Hq.
    apply (nth_clause_same s); [reflexivity|apply Pe|apply Se|apply Bn; exact Hq].
  - unfold count_clause in *. change (ps_count st') with (ps_count s). change (ps_max st') with (ps_max s).
    change (nondying st') with (nondying s).
    rewrite (extra_same_noncaller s t I2 Ht st' th' eq_refl) by (rewrite ?Hlab; reflexivity). exact Bc.
  - intros q Hq. change (length (ps_queues st')) with (length (ps_queues s)) in Hq.
    unfold drained_clause. change (getq st' q) with (getq s q). rewrite Pe, Se, G.
    destruct (Nat.eqb_spec (q_tid (getq s q)) t) as [E|E].
    + intros _. assert (q = j).
      { destruct (LH5 q Hq) as [H|H]; rewrite E, Hlab in H; [cbn in H; congruence|discriminate]. }
      subst q. auto.
    + apply Bd. exact Hq.
Qed.

(* threads and workers / queues are appended; thread t relabels *)
Lemma selfn_app (st' : pstate) th' nth w0 q :
  ps_threads st' = upd_nth (ps_threads s ++ [nth]) t th' -> ps_workers st' = ps_workers s ++ w0 ->
  lab_w4u (t_lab th') = None -> lab_w4u (t_lab (gett s t)) = None -> lab_w4u (t_lab nth) = None ->
  (forall w, In w w0 -> wk_rq w = None) ->
  selfn st' q = selfn s q.
Proof.
  intros Eth Ew W1 W2 W3 W4. unfold selfn. rewrite Eth, Ew, sumf_app.
  assert (Z : sumf (fun w => b2n (rq_is_q w q)) w0 = 0%nat).
  { clear - W4. induction w0 as [|a l IH]; [reflexivity|]. rewrite sumf_cons, IH by (intros; apply W4; right; assumption).
    unfold rq_is_q. rewrite (W4 a (or_introl eq_refl)). reflexivity. }
  pose proof (sumf_upd_nth (fun th => b2n (w4u_is_q (t_lab th) q)) (ps_threads s ++ [nth]) t th' dummy_t) as E.
  rewrite app_length in E. specialize (E ltac:(lia)). rewrite app_nth1 in E by exact Ht. fold (gett s t) in E.
  rewrite sumf_app, sumf_cons, sumf_nil in E. cbv beta in E.
  rewrite (w4u_none _ q W1), (w4u_none _ q W2), (w4u_none _ q W3) in E. cbn [b2n] in E. lia.
Qed.

Lemma acct_D3t q i : t_lab (gett s t) = D3 q i true -> accB (after s t (D3 q i true)).
Proof.
  intros Hlab. assert (Ht0 : t = 0%nat) by (apply (tk_caller _ _ _ Tt); rewrite Hlab; reflexivity).
  pose proof (tk_fresh _ _ _ Tt q i Hlab) as Ei. subst i.
  pose proof B as (Bn & Bc & Bd).
  assert (L0 : t_lab (gett s 0) = D3 q (length (ps_workers s)) true) by (rewrite <- Ht0 at 1; exact Hlab).
  unfold after. cbn [continue fst snd].
  set (nth := pend KStart ONone (W0 (length (ps_workers s)))).
  set (w0 := mkw (length (ps_threads s)) false false 0 None None).
  set (th' := pend KCreate (OThread (length (ps_threads s))) (D4 q (length (ps_workers s)))).
  match goal with |- accB ?S => set (st' := S) end.
  assert (G := fun x => gett_app_upd s st' t th' nth x eq_refl Ht).
  assert (G0 : gett st' 0 = th') by (rewrite G, <- Ht0, Nat.eqb_refl; reflexivity).
  assert (Pe : forall q', pendn st' q' = pendn s q') by (intros; unfold pendn; rewrite G0, L0; reflexivity).
  assert (Se : forall q', selfn st' q' = selfn s q').
  { intros q'. apply (selfn_app st' th' nth [w0] q' eq_refl eq_refl); try reflexivity; [rewrite Hlab; reflexivity|].
    intros w [<-|[]]. reflexivity. }
  split; [|split].
  - intros q' Hq. change (length (ps_queues st')) with (length (ps_queues s)) in Hq.
    apply (nth_clause_same s); [reflexivity|apply Pe|apply Se|apply Bn; exact Hq].
  - unfold count_clause in *. change (ps_count st') with (ps_count s). change (ps_max st') with (ps_max s).
    rewrite G0. cbn [th' t_lab pend count_extra]. rewrite L0 in Bc. cbn [count_extra] in Bc.
    assert (Nd : nondying st' = (nondying s + 1)%nat).
    { unfold nondying. change (ps_workers st') with (ps_workers s ++ [w0]). rewrite sumf_app, sumf_cons, sumf_nil. reflexivity. }
    rewrite Nd. destruct Bc as [Bc1 Bc2]. split; [rewrite Bc1; f_equal; lia|exact Bc2].
  - intros q' Hq. change (length (ps_queues st')) with (length (ps_queues s)) in Hq.
    apply (drained_clause_same s); [reflexivity|auto|apply Pe|apply Se| |apply Bd; exact Hq].
    rewrite G. destruct (Nat.eqb_spec (q_tid (getq s q')) t) as [E|E]; [cbn; discriminate|].
    destruct (l_handler _ I5 q' Hq) as [Hx _]. destruct (Nat.ltb_spec (q_tid (getq s q')) (length (ps_threads s))); [auto|lia].
Qed.

Lemma selfn_fresh_queue : selfn s (length (ps_queues s)) = 0%nat.
Proof.
  unfold selfn.
  assert (Z1 : sumf (fun w => b2n (rq_is_q w (length (ps_queues s)))) (ps_workers s) = sumf (fun _ => 0%nat) (ps_workers s)).
  { apply (sumf_ext_nth _ _ _ dummy_w). intros i Hi. fold (getw s i). unfold rq_is_q. destruct (wk_rq (getw s i)) as [q'|] eqn:Er; [|reflexivity].
    pose proof (i2_rq _ I2 i q' Er). destruct (Nat.eqb_spec q' (length (ps_queues s))); [lia|reflexivity]. }
  assert (Z2 : sumf (fun th => b2n (w4u_is_q (t_lab th) (length (ps_queues s)))) (ps_threads s) = sumf (fun _ => 0%nat) (ps_threads s)).
  { apply (sumf_ext_nth _ _ _ dummy_t). intros x Hx. fold (gett s x). destruct (t_lab (gett s x)) eqn:El; try reflexivity.
    cbn [w4u_is_q]. pose proof (tk_w4u _ _ _ (i2_threads _ I2 x) i q El). destruct (Nat.eqb_spec q (length (ps_queues s))); [lia|reflexivity]. }
  rewrite Z1, Z2. assert (Z : forall A (l : list A), sumf (fun _ => 0%nat) l = 0%nat) by (induction l; [reflexivity|rewrite sumf_cons; assumption]).
  rewrite !Z. reflexivity.
Qed.

Lemma acct_newhandler ord r : t = 0%nat -> ps_prog s = NewHandler ord :: r ->
  lab_pending (t_lab (gett s t)) = None -> lab_w4u (t_lab (gett s t)) = None -> count_extra (t_lab (gett s t)) = 0%nat ->
  accB (set_thread (fst (caller_next s)) t (snd (caller_next s))).
Proof.
  intros Ht0 Ep A1 A2 A3. pose proof B as (Bn & Bc & Bd).
  assert (L0 : t_lab (gett s 0) = t_lab (gett s t)) by (rewrite <- Ht0 at 1; reflexivity).
  unfold caller_next. rewrite Ep. cbn [fst snd].
  set (nq := length (ps_queues s)). set (nt := length (ps_threads s)).
  set (q0 := mkq ord nt false 0 []). set (th' := pend KCreate (OThread nt) CNext). set (nth := pend KStart ONone (H0 nq)).
  match goal with |- accB ?S => set (st' := S) end.
  assert (G := fun x => gett_app_upd s st' t th' nth x eq_refl Ht). fold nt in G.
  assert (Gq := fun q => getq_app s st' q0 q eq_refl). fold nq in Gq.
  assert (G0 : gett st' 0 = th') by (rewrite G, <- Ht0, Nat.eqb_refl; reflexivity).
  assert (Pe : forall q', pendn st' q' = pendn s q') by (intros; unfold pendn; rewrite G0, L0, A1; reflexivity).
  assert (Se : forall q', selfn st' q' = selfn s q').
  { intros q'. apply (selfn_app st' th' nth [] q' eq_refl); try reflexivity; try assumption.
    - unfold st'. cbn [ps_workers set_thread]. rewrite app_nil_r. reflexivity.
    - intros w []. }
  assert (Lq : length (ps_queues st') = S nq) by (unfold st'; cbn [ps_queues set_thread]; rewrite app_length; cbn; fold nq; lia).
  split; [|split].
  - intros q' Hq. rewrite Lq in Hq. destruct (Nat.lt_ge_cases q' nq) as [Hl|Hl].
    + apply (nth_clause_same s); [rewrite Gq; destruct (Nat.ltb_spec q' nq); [reflexivity|lia]|apply Pe|apply Se|apply Bn; exact Hl].
    + assert (q' = nq) by lia. subst q'. unfold nth_clause. rewrite Gq. destruct (Nat.ltb_spec nq nq); [lia|]. rewrite Nat.eqb_refl.
      cbn [q0 q_nthreads q_ordered q_list length]. split; [unfold two64; lia|].
      rewrite Pe, Se. unfold nq. rewrite selfn_fresh_queue. unfold pendn. rewrite L0, A1. destruct ord; reflexivity.
  - unfold count_clause in *. change (ps_count st') with (ps_count s). change (ps_max st') with (ps_max s).
    change (nondying st') with (nondying s). rewrite G0. cbn [th' t_lab pend count_extra]. rewrite L0, A3 in Bc. exact Bc.
  - intros q' Hq. rewrite Lq in Hq. destruct (Nat.lt_ge_cases q' nq) as [Hl|Hl].
    + apply (drained_clause_same s); [rewrite Gq; destruct (Nat.ltb_spec q' nq); [reflexivity|lia]| |apply Pe|apply Se| |apply Bd; exact Hl].
      * rewrite Gq. destruct (Nat.ltb_spec q' nq); [auto|lia].
      * rewrite G. destruct (Nat.eqb_spec (q_tid (getq s q')) t) as [E|E]; [cbn; discriminate|].
        destruct (l_handler _ I5 q' Hl) as [Hx _]. fold nt in Hx. destruct (Nat.ltb_spec (q_tid (getq s q')) nt); [auto|lia].
    + assert (q' = nq) by lia. subst q'. unfold drained_clause. rewrite Gq. destruct (Nat.ltb_spec nq nq); [lia|]. rewrite Nat.eqb_refl.
      cbn [q0 q_tid]. rewrite G. destruct (Nat.eqb_spec nt t); [lia|]. destruct (Nat.ltb_spec nt nt); [lia|]. rewrite Nat.eqb_refl. cbn. discriminate.
Qed.

End AcctSteps2.

(* Group B across the code of any label *)
Lemma cacct s t stash l :
  Inv2 s -> Inv3 s stash -> Inv5 s -> (t < length (ps_threads s))%nat -> t_lab (gett s t) = l ->
  t_done (gett s t) = false -> l <> LDone -> (ps_max s < two64)%N ->
  accB (after s t l).
Proof.
  intros I2 K I5 Ht Hl Hd Hld Hmax.
  pose proof (inv5_accB s I5) as B. pose proof (LH5 s I5) as LH.
  destruct (acctfree s l) eqn:AF; [apply (acct_free s t l I2 B LH Ht Hl AF)|].
  assert (Hnext : forall l', l = l' -> (l' = CNext \/ l' = D8 \/ l' = F3 \/ l' = P6) -> acctfree s l' = false ->
                  continue s t l' = caller_next s -> accB (after s t l')).
  { intros l' E Hc AF' Hcn.
    assert (exists ord r, ps_prog s = NewHandler ord :: r) as (ord & r & Ep).
    { destruct Hc as [->|[->|[->| ->]]]; cbn in AF'; destruct (ps_prog s) as [|[]]; try discriminate; eauto. }
    assert (Ht0 : t = 0%nat).
    { apply (tk_caller _ _ _ (i2_threads _ I2 t)). rewrite Hl, E. destruct Hc as [->|[->|[->| ->]]]; reflexivity. }
    unfold after. rewrite Hcn. apply (acct_newhandler s t I2 I5 Ht Hmax ord r Ht0 Ep); rewrite Hl, E;
      destruct Hc as [->|[->|[->| ->]]]; reflexivity. }
  destruct l; cbn [acctfree] in AF; try discriminate.
  - apply Hnext; auto.
  - apply (acct_D1 s t I2 B LH Ht); exact Hl.
  - destruct fresh; [|discriminate]. apply (acct_D3t s t I2 I5 Ht Hmax); exact Hl.
  - apply (acct_D5 s t I2 B LH Ht); exact Hl.
  - apply (acct_D7 s t I2 B LH Ht); exact Hl.
  - apply Hnext; auto.
  - apply Hnext; auto.
  - apply (acct_P3 s t I2 B LH Ht); exact Hl.
  - apply (acct_P5 s t I2 B LH Ht); exact Hl.
  - apply Hnext; auto.
  - apply orb_false_iff in AF. destruct AF as [V1 V2]. apply negb_false_iff in V1.
    destruct (wk_rq (getw s i)) as [q|] eqn:Er; [|discriminate].
    apply (acct_W3u s t I2 B LH Ht i q); assumption.
  - apply (acct_W4u s t stash I2 K B LH Ht); exact Hl.
  - apply (acct_W4o s t I2 B LH Ht); exact Hl.
  - destruct (q_list (getq s j)) as [|i rest] eqn:El; [discriminate|].
    apply (acct_H1pop s t stash I2 K B LH Ht j i rest); assumption.
  - destruct w; [discriminate|]. apply (acct_H3n s t stash I2 K I5 Ht Hmax j); assumption.
  - congruence.
Qed.

(* ---------- the caller's phase (Group A) ---------- *)
Record InvA (st : pstate) : Prop := {
  a_joined : forall q, (q < length (ps_queues st))%nat -> q_finished (getq st q) = true ->
     is_F1sF2 (t_lab (gett st 0)) q = true \/
     (t_lab (gett st 0) = F3 /\ t_obj (gett st 0) = OThread (q_tid (getq st q))) \/
     t_done (gett st (q_tid (getq st q))) = true;
  a_finishing : forall q, is_F1sF2 (t_lab (gett st 0)) q = true -> (q < length (ps_queues st))%nat /\ q_finished (getq st q) = true;
  a_f3 : t_lab (gett st 0) = F3 -> exists q, (q < length (ps_queues st))%nat /\
     t_obj (gett st 0) = OThread (q_tid (getq st q)) /\ q_finished (getq st q) = true;
  a_pphase : plabel (t_lab (gett st 0)) = true \/ t_lab (gett st 0) = LDone -> forall q, (q < length (ps_queues st))%nat ->
     q_finished (getq st q) = true /\ t_done (gett st (q_tid (getq st q))) = true;
  a_prog : pwf_full (length (ps_queues st)) (finl st) (ps_prog st) = true;
  a_destroy : has_destroy (ps_prog st) = true \/ plabel (t_lab (gett st 0)) = true \/
              (t_lab (gett st 0) = LDone /\ ps_count st = 0%N);
  a_p5 : t_lab (gett st 0) = P5 -> exists i, (i < length (ps_workers st))%nat /\
     t_obj (gett st 0) = OThread (wk_tid (getw st i)) /\ dying (getw st i) = true;
  a_p34 : forall i, is_P3sP4 (t_lab (gett st 0)) i = true -> (i < length (ps_workers st))%nat /\ dying (getw st i) = true;
  a_nodying : forall i, (i < length (ps_workers st))%nat -> dying (getw st i) = true ->
     plabel (t_lab (gett st 0)) = true \/ t_lab (gett st 0) = LDone;
  a_p1 : t_lab (gett st 0) = P1 -> waiting (gett st 0) -> (0 < ps_count st)%N;
  a_handler : forall q, (q < length (ps_queues st))%nat ->
     (q_tid (getq st q) < length (ps_threads st))%nat /\
     (lab_handler (t_lab (gett st (q_tid (getq st q)))) = Some q \/ t_lab (gett st (q_tid (getq st q))) = LDone);
  a_caller : caller_lab (t_lab (gett st 0)) = true \/ t_lab (gett st 0) = LDone;
  a_done0 : t_lab (gett st 0) = LDone -> ps_prog st = [];
  a_f1 : forall q, t_lab (gett st 0) = F1 q -> (q < length (ps_queues st))%nat;
  a_p6 : t_lab (gett st 0) = P6 -> ps_count st = 0%N;
  a_pprog : plabel (t_lab (gett st 0)) = true -> ps_prog st = [];
}.

Lemma inv5_invA st : Inv5 st -> InvA st.
Proof.
  intros I. constructor; [apply (l_joined _ I)|apply (l_finishing _ I)|apply (l_f3 _ I)|apply (l_pphase _ I)|apply (l_prog _ I)|
    apply (l_destroy _ I)|apply (l_p5 _ I)|apply (l_p34 _ I)|apply (l_nodying _ I)|apply (l_p1 _ I)|apply (l_handler _ I)|
    apply (l_caller _ I)|apply (l_done0 _ I)|apply (l_f1 _ I)|apply (l_p6 _ I)|apply (l_pprog _ I)].
Qed.

Lemma mk_inv5 st :
  (forall x c, t_blocked (gett st x) = Some c -> c = lab_cond (t_lab (gett st x))) ->
  (forall x, waiting (gett st x) -> wpred st (t_lab (gett st x))) ->
  accB st -> InvA st ->
  (forall q i, t_lab (gett st 0) = D5s q i -> q_ordered (getq st q) = false -> wk_rq (getw st i) = Some q) ->
  Inv5 st.
Proof.
  intros C1 C2 (B1 & B2 & B3) A D. constructor; try assumption; apply A.
Qed.

Lemma continue_noncaller s t l : caller_lab l = false ->
  let s' := fst (continue s t l) in let th' := snd (continue s t l) in
  ps_prog s' = ps_prog s /\ ps_count s' = ps_count s /\
  (forall q, q_finished (getq s' q) = q_finished (getq s q) /\ q_tid (getq s' q) = q_tid (getq s q)) /\
  length (ps_queues s') = length (ps_queues s) /\ length (ps_workers s') = length (ps_workers s) /\
  (forall i, wk_tid (getw s' i) = wk_tid (getw s i)) /\
  ps_threads s' = ps_threads s /\
  (l <> LDone -> t_done th' = false) /\ caller_lab (t_lab th') = false /\
  (forall j, lab_handler l = Some j -> lab_handler (t_lab th') = Some j \/ t_lab th' = LDone).
Proof.
  intros NC. cbn zeta.
  assert (Wupd : forall i0 w', wk_tid w' = wk_tid (getw s i0) -> forall i, wk_tid (nth i (upd_nth (ps_workers s) i0 w') dummy_w) = wk_tid (getw s i)).
  { intros i0 w' H i. rewrite nth_upd_nth. unfold getw in *. destruct (Nat.eqb_spec i i0) as [->|]; cbn [andb]; [|reflexivity].
    destruct (Nat.ltb i0 (length (ps_workers s))); [assumption|reflexivity]. }
  assert (Qupd : forall q0 qq', q_finished qq' = q_finished (getq s q0) -> q_tid qq' = q_tid (getq s q0) ->
             forall q, q_finished (nth q (upd_nth (ps_queues s) q0 qq') dummy_q) = q_finished (getq s q) /\
                       q_tid (nth q (upd_nth (ps_queues s) q0 qq') dummy_q) = q_tid (getq s q)).
  { intros q0 qq' H1 H2 q. rewrite nth_upd_nth. unfold getq in *. destruct (Nat.eqb_spec q q0) as [->|]; cbn [andb]; [|split; reflexivity].
    destruct (Nat.ltb q0 (length (ps_queues s))); [split; assumption|split; reflexivity]. }
  destruct l; cbn [caller_lab] in NC; try discriminate; cbn [continue].
  all: repeat break_match_goal; cbn [fst snd t_lab pend t_done caller_lab lab_handler];
       unfold getw, getq; cbn [ps_workers ps_queues ps_count ps_prog ps_threads set_workers set_queues set_pool set_abort];
       repeat split; try reflexivity; try (rewrite upd_nth_length; reflexivity);
       try (intros; congruence); try (intros ? H; left; exact H); try (intros; right; reflexivity); try (intros; discriminate).
  all: try (apply Wupd; reflexivity); try (apply Qupd; reflexivity).
Qed.

Lemma noncaller_dying s t l : Inv2 s -> (t < length (ps_threads s))%nat -> t_lab (gett s t) = l -> caller_lab l = false ->
  forall i, dying (getw (fst (continue s t l)) i) = dying (getw s i).
Proof.
  intros I2 Ht Hl NC.
  destruct (acctfree s l) eqn:AF.
  - intros i. apply (continue_acct s t l AF).
  - assert (Dupd : forall i0 w', dying w' = dying (getw s i0) -> forall i, dying (nth i (upd_nth (ps_workers s) i0 w') dummy_w) = dying (getw s i)).
    { intros i0 w' H i. rewrite nth_upd_nth. unfold getw in *. destruct (Nat.eqb_spec i i0) as [->|]; cbn [andb]; [|reflexivity].
      destruct (Nat.ltb i0 (length (ps_workers s))); [assumption|reflexivity]. }
    destruct l; cbn [caller_lab] in NC; try discriminate; cbn [acctfree] in AF; try discriminate; cbn [continue].
    + (* W3 with a job, unordered *)
      apply orb_false_iff in AF. destruct AF as [V1 V2]. apply negb_false_iff in V1. rewrite V1. cbn [negb].
      destruct (wk_rq (getw s i)) eqn:Er; [|discriminate]. cbn [fst]. unfold getw at 1. cbn [ps_workers set_workers].
      apply Dupd. unfold dying. rewrite V1. cbn. rewrite andb_false_r. reflexivity.
    + reflexivity.
    + (* W4o *)
      destruct (wthread_self s t i I2) as (Hi & W2 & W3 & W4); [rewrite Hl; reflexivity|]. rewrite Hl in W3.
      cbn [fst]. unfold getw at 1. cbn [ps_workers set_workers]. apply Dupd.
      revert W3. unfold wphase_ok, dying. cbn [wloop wk_running wk_hasjob wk_res].
      destruct (wk_running (getw s i)), (wk_hasjob (getw s i)), (wk_res (getw s i)), (wk_rq (getw s i)); cbn; intros; try discriminate; reflexivity.
    + destruct (q_list (getq s j)); [discriminate|]. reflexivity.
    + destruct w; [discriminate|]. repeat break_match_goal; reflexivity.
    + reflexivity.
Qed.

Lemma invA_noncaller s t l : Inv2 s -> InvA s -> (t < length (ps_threads s))%nat -> t_lab (gett s t) = l ->
  caller_lab l = false -> t_done (gett s t) = false -> l <> LDone -> InvA (after s t l).
Proof.
  intros I2 A Ht Hl NC Hd Hld.
  destruct (continue_noncaller s t l NC) as (Ep & Ec & Q & Lq & Lw & Wt & Eth & Dn & NC' & Hh). cbn zeta in *.
  pose proof (noncaller_dying s t l I2 Ht Hl NC) as Dy.
  set (st' := after s t l). set (th' := snd (continue s t l)) in *.
  assert (G : forall x, gett st' x = if Nat.eqb x t then th' else gett s x).
  { intros x. unfold st', after. rewrite gett_set_thread, Eth. destruct (Nat.eqb_spec x t); cbn [andb].
    - destruct (Nat.ltb_spec t (length (ps_threads s))); [reflexivity|lia].
    - unfold gett. rewrite Eth. reflexivity. }
  assert (Ht0 : t <> 0%nat).
  { intros ->. destruct (a_caller _ A) as [H|H]; rewrite Hl in H; congruence. }
  assert (G0 : gett st' 0 = gett s 0) by (rewrite G; destruct (Nat.eqb_spec 0 t); [congruence|reflexivity]).
  assert (Dd : forall x, t_done (gett st' x) = t_done (gett s x)).
  { intros x. rewrite G. destruct (Nat.eqb_spec x t) as [->|]; [|reflexivity]. rewrite (Dn Hld), Hd. reflexivity. }
  assert (Fq : forall q, q_finished (getq st' q) = q_finished (getq s q)) by (intros q; apply (Q q)).
  assert (Tq : forall q, q_tid (getq st' q) = q_tid (getq s q)) by (intros q; apply (Q q)).
  assert (Nq : length (ps_queues st') = length (ps_queues s)) by exact Lq.
  assert (Nw : length (ps_workers st') = length (ps_workers s)) by exact Lw.
  assert (Dw : forall i, dying (getw st' i) = dying (getw s i)) by exact Dy.
  assert (Tw : forall i, wk_tid (getw st' i) = wk_tid (getw s i)) by exact Wt.
  assert (Nt : length (ps_threads st') = length (ps_threads s)) by (unfold st', after; cbn [ps_threads set_thread]; rewrite upd_nth_length, Eth; reflexivity).
  assert (Pr : ps_prog st' = ps_prog s) by exact Ep.
  assert (Cn : ps_count st' = ps_count s) by exact Ec.
  constructor.
  - intros q. rewrite Nq, Fq, G0, Tq, Dd. apply (a_joined _ A).
  - intros q. rewrite Nq, Fq, G0. apply (a_finishing _ A).
  - rewrite G0, Nq. intros H. destruct (a_f3 _ A H) as (q & H1 & H2 & H3). exists q. rewrite Tq, Fq. auto.
  - rewrite G0, Nq. intros H q Hq. rewrite Fq, Tq, Dd. apply (a_pphase _ A H q Hq).
  - unfold finl. rewrite Nq, Pr, G0.
    assert (E : filter (fun q => q_finished (getq st' q) || is_F1 (t_lab (gett s 0)) q) (seq 0 (length (ps_queues s))) = finl s).
    { unfold finl. apply filter_ext. intros q. rewrite Fq. reflexivity. }
    rewrite E. apply (a_prog _ A).
  - rewrite Pr, G0, Cn. apply (a_destroy _ A).
  - rewrite G0, Nw. intros H. destruct (a_p5 _ A H) as (i & H1 & H2 & H3). exists i. rewrite Tw, Dw. auto.
  - intros i. rewrite G0, Nw, Dw. apply (a_p34 _ A).
  - intros i. rewrite Nw, Dw, G0. apply (a_nodying _ A).
  - rewrite G0, Cn. apply (a_p1 _ A).
  - intros q. rewrite Nq, Tq, Nt. intros Hq. destruct (a_handler _ A q Hq) as [H1 H2]. split; [exact H1|].
    rewrite G. destruct (Nat.eqb_spec (q_tid (getq s q)) t) as [E|E]; [|exact H2].
    rewrite E, Hl in H2. destruct H2 as [H2|H2]; [apply Hh; exact H2|congruence].
  - rewrite G0. apply (a_caller _ A).
  - rewrite G0, Pr. apply (a_done0 _ A).
  - intros q. rewrite G0, Nq. apply (a_f1 _ A).
  - rewrite G0, Cn. apply (a_p6 _ A).
  - rewrite G0, Pr. apply (a_pprog _ A).
Qed.

(* caller labels that no clause of InvA mentions *)
Definition neutral (l : label) : bool :=
  match l with
  | CNext | D1 _ | D3 _ _ _ | D4 _ _ | D5 _ _ | D5s _ _ | D6 _ _ | D7 _ _ | D7s _ | D8 => true
  | _ => false
  end.

Lemma continue_neutral s t l : neutral l = true -> l <> CNext -> l <> D8 ->
  let s' := fst (continue s t l) in let th' := snd (continue s t l) in
  neutral (t_lab th') = true /\ ps_prog s' = ps_prog s /\
  (forall q, q_finished (getq s' q) = q_finished (getq s q) /\ q_tid (getq s' q) = q_tid (getq s q)) /\
  length (ps_queues s') = length (ps_queues s) /\
  (forall i, dying (getw s' i) = true -> (i < length (ps_workers s))%nat /\ dying (getw s i) = true) /\
  (exists new, ps_threads s' = ps_threads s ++ new).
Proof.
  intros N H1 H2. cbn zeta.
  assert (Qupd : forall q0 qq', q_finished qq' = q_finished (getq s q0) -> q_tid qq' = q_tid (getq s q0) ->
             forall q, q_finished (nth q (upd_nth (ps_queues s) q0 qq') dummy_q) = q_finished (getq s q) /\
                       q_tid (nth q (upd_nth (ps_queues s) q0 qq') dummy_q) = q_tid (getq s q)).
  { intros q0 qq' E1 E2 q. rewrite nth_upd_nth. unfold getq in *. destruct (Nat.eqb_spec q q0) as [->|]; cbn [andb]; [|split; reflexivity].
    destruct (Nat.ltb q0 (length (ps_queues s))); [split; assumption|split; reflexivity]. }
  assert (Dbase : forall i, dying (getw s i) = true -> (i < length (ps_workers s))%nat /\ dying (getw s i) = true).
  { intros i H. split; [|exact H]. destruct (Nat.lt_ge_cases i (length (ps_workers s))) as [|Hge]; [assumption|].
    rewrite getw_oob in H by exact Hge. discriminate. }
  destruct l; cbn [neutral] in N; try discriminate; try congruence; cbn [continue].
  all: repeat break_match_goal; cbn [fst snd t_lab pend neutral];
       unfold getq; cbn [ps_queues ps_prog ps_threads set_workers set_queues set_pool set_abort];
       (split; [reflexivity|]); (split; [reflexivity|]); (split; [first [intros; split; reflexivity | apply Qupd; [first [reflexivity|symmetry; assumption|unfold getq in *; symmetry; assumption]|reflexivity]]|]);
       (split; [try reflexivity; try (rewrite upd_nth_length; reflexivity)|]);
       (split; [|first [exists []; rewrite app_nil_r; reflexivity|eexists; reflexivity]]);
       try exact Dbase.
  - (* D3 fresh: one more worker, not dying *)
    intros i. unfold getw at 1. cbn [ps_workers]. rewrite nth_app_snoc. destruct (Nat.ltb_spec i (length (ps_workers s))); [apply Dbase|].
    destruct (Nat.eqb i (length (ps_workers s))); cbn; discriminate.
  - (* D5: the worker gets a job *)
    intros i0. unfold getw at 1. cbn [ps_workers set_workers]. rewrite nth_upd_nth.
    destruct (Nat.eqb_spec i0 w) as [->|]; cbn [andb]; [|apply Dbase].
    destruct (Nat.ltb w (length (ps_workers s))); [cbn; discriminate|apply Dbase].
  - intros i0. unfold getw at 1. cbn [ps_workers set_workers]. rewrite nth_upd_nth.
    destruct (Nat.eqb_spec i0 w) as [->|]; cbn [andb]; [|apply Dbase].
    destruct (Nat.ltb w (length (ps_workers s))); [cbn; discriminate|apply Dbase].
Qed.

Lemma neutral_facts l : neutral l = true ->
  caller_lab l = true /\ (forall q, is_F1sF2 l q = false) /\ l <> F3 /\ plabel l = false /\ l <> LDone /\ l <> P5 /\
  (forall i, is_P3sP4 l i = false) /\ l <> P1 /\ (forall q, l <> F1 q) /\ l <> P6 /\ (forall q, is_F1 l q = false).
Proof. destruct l; cbn; try discriminate; intros _; repeat split; try discriminate; intros; discriminate. Qed.

Lemma invA_neutral s t l : InvA s -> (t < length (ps_threads s))%nat -> t_lab (gett s t) = l -> t = 0%nat ->
  neutral l = true -> l <> CNext -> l <> D8 -> InvA (after s t l).
Proof.
  intros A Ht Hl Ht0 N H1 H2.
  destruct (continue_neutral s t l N H1 H2) as (N' & Ep & Q & Lq & Dy & (new & Eth)). cbn zeta in *.
  destruct (neutral_facts l N) as (F1 & F2 & F3 & F4 & F5 & F6 & F7 & F8 & F9 & F10 & F11).
  destruct (neutral_facts _ N') as (G1 & G2 & G3 & G4 & G5 & G6 & G7 & G8 & G9 & G10 & G11).
  set (st' := after s t l). set (th' := snd (continue s t l)) in *.
  assert (L0 : t_lab (gett s 0) = l) by (rewrite <- Ht0 at 1; exact Hl).
  assert (G0 : gett st' 0 = th').
  { destruct (after_gett s t l 0%nat Ht) as [[_ E]|[[Hne _]|(Hne & _)]]; [exact E|congruence|congruence]. }
  assert (Gx : forall x, x <> 0%nat -> (x < length (ps_threads s))%nat -> gett st' x = gett s x).
  { intros x Hx Hlt. destruct (after_gett s t l x Ht) as [[E _]|[[_ E]|(_ & E & _)]]; [congruence|exact E|lia]. }
  assert (Nt : (length (ps_threads s) <= length (ps_threads st'))%nat).
  { unfold st', after. cbn [ps_threads set_thread]. rewrite upd_nth_length, Eth, app_length. lia. }
  assert (Fq : forall q, q_finished (getq st' q) = q_finished (getq s q)) by (intros q; apply (Q q)).
  assert (Tq : forall q, q_tid (getq st' q) = q_tid (getq s q)) by (intros q; apply (Q q)).
  assert (Nq : length (ps_queues st') = length (ps_queues s)) by exact Lq.
  assert (Pr : ps_prog st' = ps_prog s) by exact Ep.
  assert (Hq0 : forall q, (q < length (ps_queues s))%nat -> q_tid (getq s q) <> 0%nat /\ (q_tid (getq s q) < length (ps_threads s))%nat).
  { intros q Hq. destruct (a_handler _ A q Hq) as [Hlt Hh]. split; [|exact Hlt]. intros E. rewrite E, L0 in Hh.
    destruct Hh as [Hh|Hh]; [destruct l; cbn in N; try discriminate; cbn in Hh; discriminate|congruence]. }
  assert (Nd : forall i, dying (getw st' i) = true -> False).
  { intros i H. destruct (Dy i H) as [Hi Hd]. destruct (a_nodying _ A i Hi Hd) as [P|P]; rewrite L0 in P; congruence. }
  constructor; rewrite ?G0.
  - intros q. rewrite Nq, Fq, Tq. intros Hq Hf. right. right. destruct (Hq0 q Hq) as [Hn Hlt]. rewrite (Gx _ Hn Hlt).
    destruct (a_joined _ A q Hq Hf) as [P|[[P _]|P]]; rewrite ?L0 in P; [rewrite F2 in P; discriminate|congruence|exact P].
  - intros q H. rewrite G2 in H. discriminate.
  - intros H. congruence.
  - intros [H|H]; congruence.
  - unfold finl. rewrite Nq, Pr, G0.
    assert (E : filter (fun q => q_finished (getq st' q) || is_F1 (t_lab th') q) (seq 0 (length (ps_queues s))) = finl s).
    { unfold finl. apply filter_ext. intros q. rewrite Fq, L0, G11, F11. reflexivity. }
    rewrite E. apply (a_prog _ A).
  - left. rewrite Pr. destruct (a_destroy _ A) as [P|[P|[P _]]]; rewrite ?L0 in P; [exact P|congruence|congruence].
  - intros H. congruence.
  - intros i H. rewrite G7 in H. discriminate.
  - intros i _ H. exfalso. exact (Nd i H).
  - intros H. congruence.
  - intros q. rewrite Nq, Tq. intros Hq. destruct (Hq0 q Hq) as [Hn Hlt]. rewrite (Gx _ Hn Hlt).
    destruct (a_handler _ A q Hq) as [_ Hh]. split; [lia|exact Hh].
  - left. exact G1.
  - intros H. congruence.
  - intros q H. exfalso. exact (G9 q H).
  - intros H. congruence.
  - intros H. congruence.
Qed.

(* the caller (thread 0) relabels; queues' finished flags / thread ids, workers' dying flags / thread ids and the
   program are given; obligations are stated on the old state and the new record *)
Lemma invA_relabel0 s (st' : pstate) th' c' :
  InvA s -> (0 < length (ps_threads s))%nat -> t_lab (gett s 0) <> LDone ->
  ps_threads st' = upd_nth (ps_threads s) 0 th' -> ps_queues st' = ps_queues s -> ps_workers st' = ps_workers s ->
  ps_prog st' = ps_prog s -> ps_count st' = c' ->
  (forall q, (q < length (ps_queues s))%nat -> q_finished (getq s q) = true ->
     is_F1sF2 (t_lab th') q = true \/ (t_lab th' = F3 /\ t_obj th' = OThread (q_tid (getq s q))) \/ t_done (gett s (q_tid (getq s q))) = true) ->
  (forall q, is_F1sF2 (t_lab th') q = true -> (q < length (ps_queues s))%nat /\ q_finished (getq s q) = true) ->
  (t_lab th' = F3 -> exists q, (q < length (ps_queues s))%nat /\ t_obj th' = OThread (q_tid (getq s q)) /\ q_finished (getq s q) = true) ->
  (plabel (t_lab th') = true \/ t_lab th' = LDone -> forall q, (q < length (ps_queues s))%nat ->
     q_finished (getq s q) = true /\ t_done (gett s (q_tid (getq s q))) = true) ->
  (forall q, is_F1 (t_lab th') q = is_F1 (t_lab (gett s 0)) q) ->
  (has_destroy (ps_prog s) = true \/ plabel (t_lab th') = true \/ (t_lab th' = LDone /\ c' = 0%N)) ->
  (t_lab th' = P5 -> exists i, (i < length (ps_workers s))%nat /\ t_obj th' = OThread (wk_tid (getw s i)) /\ dying (getw s i) = true) ->
  (forall i, is_P3sP4 (t_lab th') i = true -> (i < length (ps_workers s))%nat /\ dying (getw s i) = true) ->
  (forall i, (i < length (ps_workers s))%nat -> dying (getw s i) = true -> plabel (t_lab th') = true \/ t_lab th' = LDone) ->
  (t_lab th' = P1 -> waiting th' -> (0 < c')%N) ->
  (caller_lab (t_lab th') = true \/ t_lab th' = LDone) ->
  (t_lab th' = LDone -> ps_prog s = []) ->
  (forall q, t_lab th' = F1 q -> (q < length (ps_queues s))%nat) ->
  (t_lab th' = P6 -> c' = 0%N) ->
  (plabel (t_lab th') = true -> ps_prog s = []) ->
  InvA st'.
Proof.
  intros A Ht Hld Eth Eq Ew Ep Ec O1 O2 O3 O4 O5 O6 O7 O8 O9 O10 O11 O12 O13 O14 O15.
  assert (G : forall x, gett st' x = if Nat.eqb x 0 then th' else gett s x) by (intros; apply (gett_upd s st' 0 th' x Eth Ht)).
  assert (G0 : gett st' 0 = th') by (rewrite G; reflexivity).
  assert (Gq : forall q, getq st' q = getq s q) by (intros; unfold getq; rewrite Eq; reflexivity).
  assert (Gw : forall i, getw st' i = getw s i) by (intros; unfold getw; rewrite Ew; reflexivity).
  assert (Nt : length (ps_threads st') = length (ps_threads s)) by (rewrite Eth; apply upd_nth_length).
  assert (Hq0 : forall q, (q < length (ps_queues s))%nat -> q_tid (getq s q) <> 0%nat).
  { intros q Hq E. destruct (a_handler _ A q Hq) as [_ Hh]. rewrite E in Hh.
    destruct (a_caller _ A) as [Hc|Hc]; [|congruence]. destruct Hh as [Hh|Hh]; [|congruence].
    destruct (t_lab (gett s 0)); cbn in Hc, Hh; discriminate. }
  assert (Gh : forall q, (q < length (ps_queues s))%nat -> gett st' (q_tid (getq s q)) = gett s (q_tid (getq s q))).
  { intros q Hq. rewrite G. destruct (Nat.eqb_spec (q_tid (getq s q)) 0) as [E|]; [exfalso; exact (Hq0 q Hq E)|reflexivity]. }
  constructor; rewrite ?G0, ?Eq, ?Ew, ?Ep, ?Ec.
  - intros q Hq. rewrite Gq, (Gh q Hq). apply O1. exact Hq.
  - intros q. rewrite Gq. apply O2.
  - intros H. destruct (O3 H) as (q & H1 & H2 & H3). exists q. rewrite Gq. auto.
  - intros H q Hq. rewrite Gq, (Gh q Hq). apply (O4 H q Hq).
  - unfold finl. rewrite Eq, G0.
    assert (E : filter (fun q => q_finished (getq st' q) || is_F1 (t_lab th') q) (seq 0 (length (ps_queues s))) = finl s).
    { unfold finl. apply filter_ext. intros q. rewrite Gq, O5. reflexivity. }
    rewrite E. apply (a_prog _ A).
  - exact O6.
  - intros H. destruct (O7 H) as (i & H1 & H2 & H3). exists i. rewrite Gw. auto.
  - intros i. rewrite Gw. apply O8.
  - intros i. rewrite Gw. apply O9.
  - exact O10.
  - intros q Hq. rewrite Gq, Nt, (Gh q Hq). apply (a_handler _ A q Hq).
  - exact O11.
  - exact O12.
  - exact O13.
  - exact O14.
  - exact O15.
Qed.



Lemma pwf_full_ext p : forall nq fin fin', (forall q, existsb (Nat.eqb q) fin = existsb (Nat.eqb q) fin') ->
  pwf_full nq fin p = pwf_full nq fin' p.
Proof.
  induction p as [|c r IH]; intros nq fin fin' H; [reflexivity|]. destruct c as [o|q|q|]; cbn [pwf_full].
  - apply IH. exact H.
  - rewrite (H q), (IH nq fin fin' H). reflexivity.
  - rewrite (H q). f_equal. apply IH. intros q0. cbn [existsb]. rewrite (H q0). reflexivity.
  - f_equal. induction (seq 0 nq) as [|a l IHl]; [reflexivity|]. cbn [forallb]. rewrite (H a), IHl. reflexivity.
Qed.

Lemma finl_mem st q : existsb (Nat.eqb q) (finl st) = Nat.ltb q (length (ps_queues st)) && (q_finished (getq st q) || is_F1 (t_lab (gett st 0)) q).
Proof.
  unfold finl. destruct (existsb (Nat.eqb q) _) eqn:E.
  - apply existsb_exists in E. destruct E as (x & Hin & Hx). apply Nat.eqb_eq in Hx. subst x. apply filter_In in Hin. destruct Hin as [H1 H2].
    apply in_seq in H1. rewrite H2. destruct (Nat.ltb_spec q (length (ps_queues st))); [reflexivity|lia].
  - destruct (Nat.ltb_spec q (length (ps_queues st))) as [Hq|Hq]; [|reflexivity]. cbn [andb].
    destruct (q_finished (getq st q) || is_F1 (t_lab (gett st 0)) q) eqn:F; [|reflexivity]. exfalso.
    assert (Ex : existsb (Nat.eqb q) (filter (fun q0 => q_finished (getq st q0) || is_F1 (t_lab (gett st 0)) q0) (seq 0 (length (ps_queues st)))) = true).
    { apply existsb_exists. exists q. split; [|apply Nat.eqb_refl]. apply filter_In. split; [apply in_seq; lia|exact F]. }
    congruence.
Qed.

Lemma invA_relabel0p s (st' : pstate) th' c' p' :
  InvA s -> (0 < length (ps_threads s))%nat -> t_lab (gett s 0) <> LDone ->
  ps_threads st' = upd_nth (ps_threads s) 0 th' -> ps_queues st' = ps_queues s -> ps_workers st' = ps_workers s ->
  ps_prog st' = p' -> ps_count st' = c' ->
  (forall q, (q < length (ps_queues s))%nat -> q_finished (getq s q) = true ->
     is_F1sF2 (t_lab th') q = true \/ (t_lab th' = F3 /\ t_obj th' = OThread (q_tid (getq s q))) \/ t_done (gett s (q_tid (getq s q))) = true) ->
  (forall q, is_F1sF2 (t_lab th') q = true -> (q < length (ps_queues s))%nat /\ q_finished (getq s q) = true) ->
  (t_lab th' = F3 -> exists q, (q < length (ps_queues s))%nat /\ t_obj th' = OThread (q_tid (getq s q)) /\ q_finished (getq s q) = true) ->
  (plabel (t_lab th') = true \/ t_lab th' = LDone -> forall q, (q < length (ps_queues s))%nat ->
     q_finished (getq s q) = true /\ t_done (gett s (q_tid (getq s q))) = true) ->
  (forall fin', (forall q, existsb (Nat.eqb q) fin' = Nat.ltb q (length (ps_queues s)) && (q_finished (getq s q) || is_F1 (t_lab th') q)) ->
     pwf_full (length (ps_queues s)) fin' p' = true) ->
  (has_destroy p' = true \/ plabel (t_lab th') = true \/ (t_lab th' = LDone /\ c' = 0%N)) ->
  (t_lab th' = P5 -> exists i, (i < length (ps_workers s))%nat /\ t_obj th' = OThread (wk_tid (getw s i)) /\ dying (getw s i) = true) ->
  (forall i, is_P3sP4 (t_lab th') i = true -> (i < length (ps_workers s))%nat /\ dying (getw s i) = true) ->
  (forall i, (i < length (ps_workers s))%nat -> dying (getw s i) = true -> plabel (t_lab th') = true \/ t_lab th' = LDone) ->
  (t_lab th' = P1 -> waiting th' -> (0 < c')%N) ->
  (caller_lab (t_lab th') = true \/ t_lab th' = LDone) ->
  (t_lab th' = LDone -> p' = []) ->
  (forall q, t_lab th' = F1 q -> (q < length (ps_queues s))%nat) ->
  (t_lab th' = P6 -> c' = 0%N) ->
  (plabel (t_lab th') = true -> p' = []) ->
  InvA st'.
Proof.
  intros A Ht Hld Eth Eq Ew Ep Ec O1 O2 O3 O4 O5 O6 O7 O8 O9 O10 O11 O12 O13 O14 O15.
  assert (G : forall x, gett st' x = if Nat.eqb x 0 then th' else gett s x) by (intros; apply (gett_upd s st' 0 th' x Eth Ht)).
  assert (G0 : gett st' 0 = th') by (rewrite G; reflexivity).
  assert (Gq : forall q, getq st' q = getq s q) by (intros; unfold getq; rewrite Eq; reflexivity).
  assert (Gw : forall i, getw st' i = getw s i) by (intros; unfold getw; rewrite Ew; reflexivity).
  assert (Nt : length (ps_threads st') = length (ps_threads s)) by (rewrite Eth; apply upd_nth_length).
  assert (Hq0 : forall q, (q < length (ps_queues s))%nat -> q_tid (getq s q) <> 0%nat).
  { intros q Hq E. destruct (a_handler _ A q Hq) as [_ Hh]. rewrite E in Hh.
    destruct (a_caller _ A) as [Hc|Hc]; [|congruence]. destruct Hh as [Hh|Hh]; [|congruence].
    destruct (t_lab (gett s 0)); cbn in Hc, Hh; discriminate. }
  assert (Gh : forall q, (q < length (ps_queues s))%nat -> gett st' (q_tid (getq s q)) = gett s (q_tid (getq s q))).
  { intros q Hq. rewrite G. destruct (Nat.eqb_spec (q_tid (getq s q)) 0) as [E|]; [exfalso; exact (Hq0 q Hq E)|reflexivity]. }
  constructor; rewrite ?G0, ?Eq, ?Ew, ?Ep, ?Ec.
  - intros q Hq. rewrite Gq, (Gh q Hq). apply O1. exact Hq.
  - intros q. rewrite Gq. apply O2.
  - intros H. destruct (O3 H) as (q & H1 & H2 & H3). exists q. rewrite Gq. auto.
  - intros H q Hq. rewrite Gq, (Gh q Hq). apply (O4 H q Hq).
  - apply O5. intros q. rewrite finl_mem, Eq, Gq, G0. reflexivity.
  - exact O6.
  - intros H. destruct (O7 H) as (i & H1 & H2 & H3). exists i. rewrite Gw. auto.
  - intros i. rewrite Gw. apply O8.
  - intros i. rewrite Gw. apply O9.
  - exact O10.
  - intros q Hq. rewrite Gq, Nt, (Gh q Hq). apply (a_handler _ A q Hq).
  - exact O11.
  - exact O12.
  - exact O13.
  - exact O14.
  - exact O15.
Qed.

Lemma continue_unblocked_pend op o l : t_blocked (pend op o l) = None.
Proof. reflexivity. Qed.

Section InvASteps.
Variable s : pstate.
Hypothesis I2 : Inv2 s.
Hypothesis A : InvA s.
Hypothesis H0 : (0 < length (ps_threads s))%nat.

Ltac oblig := cbn [t_lab t_obj pend is_F1sF2 plabel is_F1 is_P3sP4 caller_lab]; intros; try discriminate; try congruence;
  try (match goal with H : _ \/ _ |- _ => destruct H; [discriminate|discriminate] end);
  try (apply (a_pprog _ A); match goal with H : t_lab (gett s 0) = _ |- _ => rewrite H end; reflexivity).

(* F1s -> F2 *)
Lemma invA_F1s q : t_lab (gett s 0) = F1s q -> InvA (after s 0 (F1s q)).
Proof.
  intros Hlab. assert (Hld : t_lab (gett s 0) <> LDone) by (rewrite Hlab; discriminate).
  unfold after. cbn [continue fst snd].
  apply (invA_relabel0 s _ (pend KUnlock (OQm q) (F2 q)) (ps_count s) A H0 Hld); try reflexivity; oblig.
  - destruct (a_joined _ A q0 H H1) as [P|[[P _]|P]]; rewrite ?Hlab in P; [left; exact P|discriminate|right; right; exact P].
  - apply (a_finishing _ A q0). rewrite Hlab. exact H.
  - rewrite Hlab. reflexivity.
  - destruct (a_destroy _ A) as [P|[P|[P _]]]; rewrite ?Hlab in P; [left; exact P|discriminate|discriminate].
  - destruct (a_nodying _ A i H H1) as [P|P]; rewrite Hlab in P; discriminate.
  - left. reflexivity.
Qed.

(* F2 -> F3: the caller joins the handler thread *)
Lemma invA_F2 q : t_lab (gett s 0) = F2 q -> InvA (after s 0 (F2 q)).
Proof.
  intros Hlab. assert (Hld : t_lab (gett s 0) <> LDone) by (rewrite Hlab; discriminate).
  destruct (a_finishing _ A q) as [Hq Hf]; [rewrite Hlab; cbn; apply Nat.eqb_refl|].
  unfold after. cbn [continue fst snd].
  apply (invA_relabel0 s _ (pend KJoin (OThread (q_tid (getq s q))) F3) (ps_count s) A H0 Hld); try reflexivity; oblig.
  - destruct (a_joined _ A q0 H H1) as [P|[[P _]|P]]; rewrite ?Hlab in P; [|discriminate|right; right; exact P].
    cbn in P. apply Nat.eqb_eq in P. subst q0. right. left. split; reflexivity.
  - exists q. auto.
  - rewrite Hlab. reflexivity.
  - destruct (a_destroy _ A) as [P|[P|[P _]]]; rewrite ?Hlab in P; [left; exact P|discriminate|discriminate].
  - destruct (a_nodying _ A i H H1) as [P|P]; rewrite Hlab in P; discriminate.
  - left. reflexivity.
Qed.

(* P3s -> P4 *)
Lemma invA_P3s i : t_lab (gett s 0) = P3s i -> InvA (after s 0 (P3s i)).
Proof.
  intros Hlab. assert (Hld : t_lab (gett s 0) <> LDone) by (rewrite Hlab; discriminate).
  assert (Pp : forall q, (q < length (ps_queues s))%nat -> q_finished (getq s q) = true /\ t_done (gett s (q_tid (getq s q))) = true).
  { apply (a_pphase _ A). left. rewrite Hlab. reflexivity. }
  unfold after. cbn [continue fst snd].
  apply (invA_relabel0 s _ (pend KUnlock (OWm i) (P4 i)) (ps_count s) A H0 Hld); try reflexivity; oblig.
  - right. right. apply (Pp q H).
  - apply (Pp q H1).
  - rewrite Hlab. reflexivity.
  - right. left. reflexivity.
  - apply (a_p34 _ A i0). rewrite Hlab. exact H.
  - left. reflexivity.
  - left. reflexivity.
Qed.

(* P4 -> P5: the caller joins the worker thread *)
Lemma invA_P4 i : t_lab (gett s 0) = P4 i -> InvA (after s 0 (P4 i)).
Proof.
  intros Hlab. assert (Hld : t_lab (gett s 0) <> LDone) by (rewrite Hlab; discriminate).
  assert (Pp : forall q, (q < length (ps_queues s))%nat -> q_finished (getq s q) = true /\ t_done (gett s (q_tid (getq s q))) = true).
  { apply (a_pphase _ A). left. rewrite Hlab. reflexivity. }
  destruct (a_p34 _ A i) as [Hi Hd]; [rewrite Hlab; cbn; apply Nat.eqb_refl|].
  unfold after. cbn [continue fst snd].
  apply (invA_relabel0 s _ (pend KJoin (OThread (wk_tid (getw s i))) P5) (ps_count s) A H0 Hld); try reflexivity; oblig.
  - right. right. apply (Pp q H).
  - apply (Pp q H1).
  - rewrite Hlab. reflexivity.
  - right. left. reflexivity.
  - exists i. auto.
  - left. reflexivity.
  - left. reflexivity.
Qed.

Lemma pphase_all : plabel (t_lab (gett s 0)) = true ->
  forall q, (q < length (ps_queues s))%nat -> q_finished (getq s q) = true /\ t_done (gett s (q_tid (getq s q))) = true.
Proof. intros H. apply (a_pphase _ A). left. exact H. Qed.

(* obligations of invA_relabel0 when both labels are in the destroy phase *)
Ltac pphase_oblig Pp :=
  oblig;
  try (right; right; apply Pp; assumption);
  try (apply Pp; assumption);
  try (right; left; reflexivity);
  try (left; reflexivity).

Lemma invA_P1 : t_lab (gett s 0) = P1 -> InvA (after s 0 P1).
Proof.
  intros Hlab. assert (Hld : t_lab (gett s 0) <> LDone) by (rewrite Hlab; discriminate).
  assert (Pp := pphase_all ltac:(rewrite Hlab; reflexivity)).
  unfold after. cbn [continue].
  destruct (0 <? ps_count s)%N eqn:Ec.
  - destruct (ps_idle s) as [|i rest] eqn:Ei; cbn [fst snd].
    + apply (invA_relabel0 s _ (pend KWait OPoolC P1) (ps_count s) A H0 Hld); try reflexivity; pphase_oblig Pp.
      * rewrite Hlab. reflexivity.
      * apply N.ltb_lt. exact Ec.
    + apply (invA_relabel0 s _ (pend KLock (OWm i) (P3 i)) (ps_count s) A H0 Hld); try reflexivity; try (destruct (wk_hasjob _); reflexivity); pphase_oblig Pp.
      rewrite Hlab. reflexivity.
  - cbn [fst snd]. apply (invA_relabel0 s _ (pend KUnlock OPoolM P6) (ps_count s) A H0 Hld); try reflexivity; pphase_oblig Pp.
    + rewrite Hlab. reflexivity.
    + apply N.ltb_ge in Ec. lia.
Qed.

Lemma invA_P5 : t_lab (gett s 0) = P5 -> InvA (after s 0 P5).
Proof.
  intros Hlab. assert (Hld : t_lab (gett s 0) <> LDone) by (rewrite Hlab; discriminate).
  assert (Pp := pphase_all ltac:(rewrite Hlab; reflexivity)).
  unfold after. cbn [continue]. cbn [ps_count ps_idle set_pool].
  destruct (0 <? ps_count s - 1)%N eqn:Ec.
  - destruct (ps_idle s) as [|i rest] eqn:Ei; cbn [fst snd].
    + apply (invA_relabel0 s _ (pend KWait OPoolC P1) (ps_count s - 1)%N A H0 Hld); try reflexivity; pphase_oblig Pp.
      * rewrite Hlab. reflexivity.
      * apply N.ltb_lt. exact Ec.
    + apply (invA_relabel0 s _ (pend KLock (OWm i) (P3 i)) (ps_count s - 1)%N A H0 Hld); try reflexivity; try (destruct (wk_hasjob _); reflexivity); pphase_oblig Pp.
      rewrite Hlab. reflexivity.
  - cbn [fst snd]. apply (invA_relabel0 s _ (pend KUnlock OPoolM P6) (ps_count s - 1)%N A H0 Hld); try reflexivity; pphase_oblig Pp.
    + rewrite Hlab. reflexivity.
    + apply N.ltb_ge in Ec. lia.
Qed.

Lemma q_tid_not0 : t_lab (gett s 0) <> LDone -> forall q, (q < length (ps_queues s))%nat -> q_tid (getq s q) <> 0%nat.
Proof.
  intros Hld q Hq E. destruct (a_handler _ A q Hq) as [_ Hh]. rewrite E in Hh.
  destruct (a_caller _ A) as [Hc|Hc]; [|congruence]. destruct Hh as [Hh|Hh]; [|congruence].
  destruct (t_lab (gett s 0)); cbn in Hc, Hh; discriminate.
Qed.

(* P3: the worker is told to exit *)
Lemma invA_P3 i : t_lab (gett s 0) = P3 i -> InvA (after s 0 (P3 i)).
Proof.
  intros Hlab. assert (Hld : t_lab (gett s 0) <> LDone) by (rewrite Hlab; discriminate).
  assert (Pp := pphase_all ltac:(rewrite Hlab; reflexivity)).
  assert (Hf : free_w (getw s i) = true) by (apply (tk_free _ _ _ (i2_threads _ I2 0%nat)); rewrite Hlab; reflexivity).
  destruct (free_fields _ Hf) as (F1 & F2 & F3 & F4).
  assert (Hone : ttok (ord_of s) (t_lab (gett s 0)) i = 1%nat) by (rewrite Hlab; cbn; rewrite Nat.eqb_refl; reflexivity).
  destruct (sole_thread s 0 i I2 Hone) as (Hi & _).
  unfold after. cbn [continue fst snd]. rewrite F2, F3, F4.
  set (w' := mkw (wk_tid (getw s i)) true false (wk_job (getw s i)) None None).
  set (th' := pend KSignal (OWc i) (P3s i)).
  match goal with |- InvA ?S => set (st' := S) end.
  assert (G : forall x, gett st' x = if Nat.eqb x 0 then th' else gett s x) by (intros; apply (gett_upd s st' 0 th' x eq_refl H0)).
  assert (G0 : gett st' 0 = th') by (rewrite G; reflexivity).
  assert (Gw : forall k, getw st' k = if Nat.eqb k i then w' else getw s k) by (intros; apply (getw_upd s st' i w' k eq_refl Hi)).
  assert (Gq : forall q, getq st' q = getq s q) by reflexivity.
  assert (Gh : forall q, (q < length (ps_queues s))%nat -> gett st' (q_tid (getq s q)) = gett s (q_tid (getq s q))).
  { intros q Hq. rewrite G. destruct (Nat.eqb_spec (q_tid (getq s q)) 0) as [E|]; [exfalso; exact (q_tid_not0 Hld q Hq E)|reflexivity]. }
  assert (Nw : length (ps_workers st') = length (ps_workers s)) by (unfold st'; cbn [ps_workers set_thread set_workers]; apply upd_nth_length).
  constructor; rewrite ?G0; cbn [th' t_lab t_obj pend is_F1sF2 plabel is_P3sP4 caller_lab].
  - intros q Hq _. right. right. rewrite Gq, (Gh q Hq). apply (Pp q Hq).
  - intros; discriminate.
  - intros; discriminate.
  - intros _ q Hq. rewrite Gq, (Gh q Hq). apply (Pp q Hq).
  - unfold finl. change (ps_queues st') with (ps_queues s). change (ps_prog st') with (ps_prog s). rewrite G0.
    assert (E : filter (fun q => q_finished (getq st' q) || is_F1 (t_lab th') q) (seq 0 (length (ps_queues s))) = finl s).
    { unfold finl. apply filter_ext. intros q. rewrite Hlab. reflexivity. }
    rewrite E. apply (a_prog _ A).
  - right. left. reflexivity.
  - intros; discriminate.
  - intros i0 H. apply Nat.eqb_eq in H. subst i0. rewrite Nw, Gw, Nat.eqb_refl. split; [exact Hi|reflexivity].
  - intros. left. reflexivity.
  - intros; discriminate.
  - intros q Hq. change (length (ps_queues st')) with (length (ps_queues s)) in Hq. rewrite Gq, (Gh q Hq).
    unfold st'. cbn [ps_threads set_thread set_workers]. rewrite upd_nth_length. apply (a_handler _ A q Hq).
  - left. reflexivity.
  - intros; discriminate.
  - intros; discriminate.
  - intros; discriminate.
  - intros _. change (ps_prog st') with (ps_prog s). apply (a_pprog _ A). rewrite Hlab. reflexivity.
Qed.

(* F1: the finished flag is set *)
Lemma invA_F1 q : t_lab (gett s 0) = F1 q -> InvA (after s 0 (F1 q)).
Proof.
  intros Hlab. assert (Hld : t_lab (gett s 0) <> LDone) by (rewrite Hlab; discriminate).
  pose proof (a_f1 _ A q Hlab) as Dq.
  unfold after. cbn [continue fst snd].
  match goal with |- InvA (set_thread (set_queues s (upd_nth _ q ?Q)) 0 ?T) => set (qq' := Q); set (th' := T) end.
  match goal with |- InvA ?S => set (st' := S) end.
  assert (G : forall x, gett st' x = if Nat.eqb x 0 then th' else gett s x) by (intros; apply (gett_upd s st' 0 th' x eq_refl H0)).
  assert (G0 : gett st' 0 = th') by (rewrite G; reflexivity).
  assert (Gq : forall k, getq st' k = if Nat.eqb k q then qq' else getq s k) by (intros; apply (getq_upd s st' q qq' k eq_refl Dq)).
  assert (Gw : forall i, getw st' i = getw s i) by reflexivity.
  assert (Tq : forall k, q_tid (getq st' k) = q_tid (getq s k)) by (intros k; rewrite Gq; destruct (Nat.eqb_spec k q) as [->|]; reflexivity).
  assert (Fq : forall k, q_finished (getq st' k) = if Nat.eqb k q then true else q_finished (getq s k)).
  { intros k. rewrite Gq. destruct (Nat.eqb_spec k q); reflexivity. }
  assert (Nq : length (ps_queues st') = length (ps_queues s)) by (unfold st'; cbn [ps_queues set_thread set_queues]; apply upd_nth_length).
  assert (Gh : forall k, (k < length (ps_queues s))%nat -> gett st' (q_tid (getq s k)) = gett s (q_tid (getq s k))).
  { intros k Hk. rewrite G. destruct (Nat.eqb_spec (q_tid (getq s k)) 0) as [E|]; [exfalso; exact (q_tid_not0 Hld k Hk E)|reflexivity]. }
  assert (Nd : forall i, (i < length (ps_workers s))%nat -> dying (getw s i) = true -> False).
  { intros i Hi Hd. destruct (a_nodying _ A i Hi Hd) as [P|P]; rewrite Hlab in P; discriminate. }
  constructor; rewrite ?G0; cbn [th' t_lab t_obj pend is_F1sF2 plabel is_P3sP4 caller_lab].
  - intros k. rewrite Nq, Fq, Tq. intros Hk Hf. destruct (Nat.eqb_spec k q) as [->|Hne].
    + left. apply Nat.eqb_refl.
    + right. right. rewrite (Gh k Hk). destruct (a_joined _ A k Hk Hf) as [P|[[P _]|P]]; rewrite ?Hlab in P; [discriminate|discriminate|exact P].
  - intros k H. apply Nat.eqb_eq in H. subst k. rewrite Nq, Fq, Nat.eqb_refl. split; [exact Dq|reflexivity].
  - intros; discriminate.
  - intros [H|H]; discriminate.
  - rewrite Nq. change (ps_prog st') with (ps_prog s). rewrite (pwf_full_ext _ _ (finl st') (finl s)); [apply (a_prog _ A)|].
    intros k. rewrite !finl_mem, Nq, G0, Fq, Hlab. cbn [th' t_lab pend is_F1].
    destruct (Nat.eqb_spec k q) as [->|Hne]; [rewrite Nat.eqb_refl, orb_true_r; reflexivity|].
    destruct (Nat.eqb_spec q k); [congruence|]. rewrite orb_false_r. reflexivity.
  - left. change (ps_prog st') with (ps_prog s). destruct (a_destroy _ A) as [P|[P|[P _]]]; rewrite ?Hlab in P; [exact P|discriminate|discriminate].
  - intros; discriminate.
  - intros; discriminate.
  - intros i Hi Hd. exfalso. exact (Nd i Hi Hd).
  - intros; discriminate.
  - intros k. rewrite Nq, Tq. intros Hk. rewrite (Gh k Hk).
    unfold st'. cbn [ps_threads set_thread set_queues]. rewrite upd_nth_length. apply (a_handler _ A k Hk).
  - left. reflexivity.
  - intros; discriminate.
  - intros; discriminate.
  - intros; discriminate.
  - intros; discriminate.
Qed.

(* the caller fetches its next command *)
Section Next.
Hypothesis Hc : t_lab (gett s 0) = CNext \/ t_lab (gett s 0) = D8 \/ t_lab (gett s 0) = F3 \/ t_lab (gett s 0) = P6.
Hypothesis Hjoin : t_lab (gett s 0) = F3 -> forall x, t_obj (gett s 0) = OThread x -> t_done (gett s x) = true.

Lemma next_ld : t_lab (gett s 0) <> LDone.
Proof. destruct Hc as [H|[H|[H|H]]]; rewrite H; discriminate. Qed.

Lemma next_fd q : (q < length (ps_queues s))%nat -> q_finished (getq s q) = true -> t_done (gett s (q_tid (getq s q))) = true.
Proof.
  intros Hq Hf. destruct (a_joined _ A q Hq Hf) as [P|[[P1 P2]|P]]; [|apply (Hjoin P1 _ P2)|exact P].
  destruct Hc as [H|[H|[H|H]]]; rewrite H in P; discriminate.
Qed.

Lemma next_is_f1 q : is_F1 (t_lab (gett s 0)) q = false.
Proof. destruct Hc as [H|[H|[H|H]]]; rewrite H; reflexivity. Qed.

Lemma next_fin_mem q : existsb (Nat.eqb q) (finl s) = Nat.ltb q (length (ps_queues s)) && q_finished (getq s q).
Proof. rewrite finl_mem, next_is_f1, orb_false_r. reflexivity. Qed.

Lemma next_p6 : plabel (t_lab (gett s 0)) = true -> t_lab (gett s 0) = P6.
Proof. destruct Hc as [H|[H|[H|H]]]; rewrite H; try discriminate; reflexivity. Qed.

Lemma next_nodying i : (i < length (ps_workers s))%nat -> dying (getw s i) = true -> t_lab (gett s 0) = P6.
Proof. intros Hi Hd. destruct (a_nodying _ A i Hi Hd) as [P|P]; [apply next_p6; exact P|exfalso; exact (next_ld P)]. Qed.

Lemma invA_next_nil : ps_prog s = [] -> InvA (set_thread s 0 (mkt KExit ONone LDone None ONone true)).
Proof.
  intros Ep.
  assert (L6 : t_lab (gett s 0) = P6).
  { destruct (a_destroy _ A) as [P|[P|[P _]]]; [rewrite Ep in P; discriminate|apply next_p6; exact P|exfalso; exact (next_ld P)]. }
  assert (Pp := pphase_all ltac:(rewrite L6; reflexivity)).
  apply (invA_relabel0 s _ (mkt KExit ONone LDone None ONone true) (ps_count s) A H0 next_ld); try reflexivity;
    cbn [t_lab t_obj is_F1sF2 plabel is_F1 is_P3sP4 caller_lab]; intros; try discriminate.
  - right. right. apply Pp. assumption.
  - apply Pp. assumption.
  - rewrite next_is_f1. reflexivity.
  - right. right. split; [reflexivity|]. apply (a_p6 _ A L6).
  - right. reflexivity.
  - right. reflexivity.
  - exact Ep.
Qed.

Lemma next_not_p r c : ps_prog s = c :: r -> plabel (t_lab (gett s 0)) = false.
Proof. intros Ep. destruct (plabel (t_lab (gett s 0))) eqn:E; [|reflexivity]. rewrite (a_pprog _ A E) in Ep. discriminate. Qed.

Lemma invA_next_dispatch q r : ps_prog s = Dispatch q :: r ->
  InvA (set_thread (mkp (ps_threads s) (ps_owner s) (ps_idle s) (ps_count s) (ps_max s) (ps_workers s) (ps_queues s) r
                        (ps_njobs s) (ps_delivered s) (ps_abort s)) 0 (pend KLock OPoolM (D1 q))).
Proof.
  intros Ep. pose proof (next_not_p r _ Ep) as NP.
  pose proof (a_prog _ A) as Pw. rewrite Ep in Pw. cbn [pwf_full] in Pw.
  apply andb_prop in Pw. destruct Pw as [Pw P3]. apply andb_prop in Pw. destruct Pw as [P1 P2].
  apply (invA_relabel0p s _ (pend KLock OPoolM (D1 q)) (ps_count s) r A H0 next_ld); try reflexivity;
    cbn [t_lab t_obj pend is_F1sF2 plabel is_F1 is_P3sP4 caller_lab]; intros; try discriminate.
  - right. right. apply next_fd; assumption.
  - destruct H as [H|H]; discriminate.
  - rewrite (pwf_full_ext r _ fin' (finl s)); [exact P3|]. intros q0. rewrite H, next_fin_mem, orb_false_r. reflexivity.
  - left. destruct (a_destroy _ A) as [P|[P|[P _]]]; [rewrite Ep in P; exact P|congruence|exfalso; exact (next_ld P)].
  - exfalso. pose proof (next_nodying i H H1) as L6. rewrite L6 in NP. discriminate.
  - left. reflexivity.
Qed.

Lemma invA_next_finish q r : ps_prog s = Finish q :: r ->
  InvA (set_thread (mkp (ps_threads s) (ps_owner s) (ps_idle s) (ps_count s) (ps_max s) (ps_workers s) (ps_queues s) r
                        (ps_njobs s) (ps_delivered s) (ps_abort s)) 0 (pend KLock (OQm q) (F1 q))).
Proof.
  intros Ep. pose proof (next_not_p r _ Ep) as NP.
  pose proof (a_prog _ A) as Pw. rewrite Ep in Pw. cbn [pwf_full] in Pw.
  apply andb_prop in Pw. destruct Pw as [Pw P3]. apply andb_prop in Pw. destruct Pw as [P1 P2]. apply Nat.ltb_lt in P1.
  apply (invA_relabel0p s _ (pend KLock (OQm q) (F1 q)) (ps_count s) r A H0 next_ld); try reflexivity;
    cbn [t_lab t_obj pend is_F1sF2 plabel is_F1 is_P3sP4 caller_lab]; intros; try discriminate.
  - right. right. apply next_fd; assumption.
  - destruct H as [H|H]; discriminate.
  - rewrite (pwf_full_ext r _ fin' (q :: finl s)); [exact P3|]. intros q0. rewrite H. cbn [existsb]. rewrite next_fin_mem.
    destruct (Nat.eqb_spec q0 q) as [->|Hne].
    + rewrite Nat.eqb_refl, orb_true_r, andb_true_r. cbn [orb]. apply Nat.ltb_lt. exact P1.
    + destruct (Nat.eqb_spec q q0); [congruence|]. rewrite orb_false_r. reflexivity.
  - left. destruct (a_destroy _ A) as [P|[P|[P _]]]; [rewrite Ep in P; exact P|congruence|exfalso; exact (next_ld P)].
  - exfalso. pose proof (next_nodying i H H1) as L6. rewrite L6 in NP. discriminate.
  - left. reflexivity.
  - inversion H. subst. exact P1.
Qed.

Lemma invA_next_destroy r : ps_prog s = DestroyPool :: r ->
  InvA (set_thread (mkp (ps_threads s) (ps_owner s) (ps_idle s) (ps_count s) (ps_max s) (ps_workers s) (ps_queues s) r
                        (ps_njobs s) (ps_delivered s) (ps_abort s)) 0 (pend KLock OPoolM P1)).
Proof.
  intros Ep. pose proof (next_not_p r _ Ep) as NP.
  pose proof (a_prog _ A) as Pw. rewrite Ep in Pw. cbn [pwf_full] in Pw.
  apply andb_prop in Pw. destruct Pw as [Pa Pb]. assert (Er : r = []) by (destruct r; [reflexivity|discriminate]).
  assert (Pp : forall q, (q < length (ps_queues s))%nat -> q_finished (getq s q) = true /\ t_done (gett s (q_tid (getq s q))) = true).
  { intros q Hq. rewrite forallb_forall in Pa. specialize (Pa q ltac:(apply in_seq; lia)). rewrite next_fin_mem in Pa.
    apply andb_prop in Pa. destruct Pa as [_ Hf]. split; [exact Hf|apply next_fd; assumption]. }
  apply (invA_relabel0p s _ (pend KLock OPoolM P1) (ps_count s) r A H0 next_ld); try reflexivity;
    cbn [t_lab t_obj pend is_F1sF2 plabel is_F1 is_P3sP4 caller_lab]; intros; try discriminate.
  - right. right. apply Pp. assumption.
  - apply Pp. assumption.
  - subst r. reflexivity.
  - right. left. reflexivity.
  - left. reflexivity.
  - destruct H1 as [H1|H1]; [rewrite continue_unblocked_pend in H1; congruence|discriminate].
  - left. reflexivity.
  - exact Er.
Qed.

Lemma invA_next_newhandler ord r : ps_prog s = NewHandler ord :: r ->
  InvA (set_thread (fst (caller_next s)) 0 (snd (caller_next s))).
Proof.
  intros Ep. pose proof (next_not_p r _ Ep) as NP.
  pose proof (a_prog _ A) as Pw. rewrite Ep in Pw. cbn [pwf_full] in Pw.
  unfold caller_next. rewrite Ep. cbn [fst snd].
  set (nq := length (ps_queues s)) in *. set (nt := length (ps_threads s)).
  set (q0 := mkq ord nt false 0 []). set (th' := pend KCreate (OThread nt) CNext). set (nth := pend KStart ONone (Pool.H0 nq)).
  match goal with |- InvA ?S => set (st' := S) end.
  assert (G := fun x => gett_app_upd s st' 0 th' nth x eq_refl H0). fold nt in G.
  assert (G0 : gett st' 0 = th') by (rewrite G; reflexivity).
  assert (Gq := fun q => getq_app s st' q0 q eq_refl). fold nq in Gq.
  assert (Gw : forall i, getw st' i = getw s i) by reflexivity.
  assert (Lq : length (ps_queues st') = S nq) by (unfold st'; cbn [ps_queues set_thread]; rewrite app_length; cbn; fold nq; lia).
  assert (Lt : length (ps_threads st') = S nt) by (unfold st'; cbn [ps_threads set_thread]; rewrite upd_nth_length, app_length; cbn; fold nt; lia).
  assert (Gq1 : forall q, (q < nq)%nat -> getq st' q = getq s q).
  { intros q Hq. rewrite Gq. destruct (Nat.ltb_spec q nq); [reflexivity|lia]. }
  assert (Gqn : getq st' nq = q0) by (rewrite Gq; destruct (Nat.ltb_spec nq nq); [lia|]; rewrite Nat.eqb_refl; reflexivity).
  assert (Gh : forall q, (q < nq)%nat -> gett st' (q_tid (getq s q)) = gett s (q_tid (getq s q))).
  { intros q Hq. destruct (a_handler _ A q Hq) as [Hlt _]. fold nt in Hlt. rewrite G.
    destruct (Nat.eqb_spec (q_tid (getq s q)) 0) as [E|]; [exfalso; exact (q_tid_not0 next_ld q Hq E)|].
    destruct (Nat.ltb_spec (q_tid (getq s q)) nt); [reflexivity|lia]. }
  assert (Nd : forall i, (i < length (ps_workers s))%nat -> dying (getw s i) = true -> False).
  { intros i Hi Hd. pose proof (next_nodying i Hi Hd) as L6. rewrite L6 in NP. discriminate. }
  constructor; rewrite ?G0; cbn [th' t_lab t_obj pend is_F1sF2 plabel is_P3sP4 caller_lab].
  - intros q. rewrite Lq. intros Hq Hf. right. right. destruct (Nat.lt_ge_cases q nq) as [Hl|Hl].
    + rewrite (Gq1 q Hl) in *. rewrite (Gh q Hl). apply next_fd; assumption.
    + assert (q = nq) by lia. subst q. rewrite Gqn in Hf. discriminate.
  - intros; discriminate.
  - intros; discriminate.
  - intros [H|H]; discriminate.
  - rewrite Lq. change (ps_prog st') with r. rewrite (pwf_full_ext r _ (finl st') (finl s)); [exact Pw|].
    intros q. rewrite finl_mem, next_fin_mem, Lq, G0. cbn [th' t_lab pend is_F1]. rewrite orb_false_r. fold nq.
    destruct (Nat.lt_ge_cases q nq) as [Hl|Hl].
    + rewrite (Gq1 q Hl). destruct (Nat.ltb_spec q (S nq)); [|lia]. destruct (Nat.ltb_spec q nq); [reflexivity|lia].
    + destruct (Nat.ltb_spec q nq); [lia|]. cbn [andb]. destruct (Nat.eq_dec q nq) as [->|Hne].
      * rewrite Gqn. cbn. apply andb_false_r.
      * destruct (Nat.ltb_spec q (S nq)); [lia|reflexivity].
  - left. change (ps_prog st') with r. destruct (a_destroy _ A) as [P|[P|[P _]]]; [rewrite Ep in P; exact P|congruence|exfalso; exact (next_ld P)].
  - intros; discriminate.
  - intros; discriminate.
  - intros i Hi Hd. exfalso. exact (Nd i Hi Hd).
  - intros; discriminate.
  - intros q. rewrite Lq, Lt. intros Hq. destruct (Nat.lt_ge_cases q nq) as [Hl|Hl].
    + rewrite (Gq1 q Hl), (Gh q Hl). destruct (a_handler _ A q Hl) as [H1 H2]. fold nt in H1. split; [lia|exact H2].
    + assert (q = nq) by lia. subst q. rewrite Gqn. cbn [q0 q_tid]. split; [lia|]. rewrite G.
      destruct (Nat.eqb_spec nt 0); [lia|]. destruct (Nat.ltb_spec nt nt); [lia|]. rewrite Nat.eqb_refl. left. reflexivity.
  - left. reflexivity.
  - intros; discriminate.
  - intros; discriminate.
  - intros; discriminate.
  - intros; discriminate.
Qed.

End Next.

End InvASteps.

(* Group A across the code of any label *)
Lemma cinvA s t l :
  Inv2 s -> InvA s -> (t < length (ps_threads s))%nat -> t_lab (gett s t) = l ->
  t_done (gett s t) = false -> l <> LDone ->
  (t = 0%nat -> t_lab (gett s 0) = F3 -> forall x, t_obj (gett s 0) = OThread x -> t_done (gett s x) = true) ->
  InvA (after s t l).
Proof.
  intros I2 A Ht Hl Hd Hld Hjoin0.
  destruct (caller_lab l) eqn:Hc; [|apply (invA_noncaller s t l I2 A Ht Hl Hc Hd Hld)].
  assert (Ht0 : t = 0%nat) by (apply (tk_caller _ _ _ (i2_threads _ I2 t)); rewrite Hl; exact Hc). subst t.
  pose proof (Hjoin0 eq_refl) as Hjoin.
  assert (Hnext : forall l', l = l' -> (l' = CNext \/ l' = D8 \/ l' = F3 \/ l' = P6) ->
                  continue s 0 l' = caller_next s -> InvA (after s 0 l')).
  { intros l' E Hc' Hcn. unfold after. rewrite Hcn.
    assert (Hc0 : t_lab (gett s 0) = CNext \/ t_lab (gett s 0) = D8 \/ t_lab (gett s 0) = F3 \/ t_lab (gett s 0) = P6) by (rewrite Hl, E; exact Hc').
    destruct (ps_prog s) as [|c r] eqn:Ep.
    - unfold caller_next. rewrite Ep. cbn [fst snd]. apply (invA_next_nil s A Ht Hc0 Ep).
    - destruct c as [ord|q|q|].
      + apply (invA_next_newhandler s A Ht Hc0 Hjoin ord r Ep).
      + unfold caller_next. rewrite Ep. cbn [fst snd]. apply (invA_next_dispatch s A Ht Hc0 Hjoin q r Ep).
      + unfold caller_next. rewrite Ep. cbn [fst snd]. apply (invA_next_finish s A Ht Hc0 Hjoin q r Ep).
      + unfold caller_next. rewrite Ep. cbn [fst snd]. apply (invA_next_destroy s A Ht Hc0 Hjoin r Ep). }
  destruct l; cbn [caller_lab] in Hc; try discriminate.
  - apply Hnext; auto.
  - apply (invA_neutral s 0 _ A Ht Hl eq_refl); [reflexivity|discriminate|discriminate].
  - apply (invA_neutral s 0 _ A Ht Hl eq_refl); [reflexivity|discriminate|discriminate].
  - apply (invA_neutral s 0 _ A Ht Hl eq_refl); [reflexivity|discriminate|discriminate].
  - apply (invA_neutral s 0 _ A Ht Hl eq_refl); [reflexivity|discriminate|discriminate].
  - apply (invA_neutral s 0 _ A Ht Hl eq_refl); [reflexivity|discriminate|discriminate].
  - apply (invA_neutral s 0 _ A Ht Hl eq_refl); [reflexivity|discriminate|discriminate].
  - apply (invA_neutral s 0 _ A Ht Hl eq_refl); [reflexivity|discriminate|discriminate].
  - apply (invA_neutral s 0 _ A Ht Hl eq_refl); [reflexivity|discriminate|discriminate].
  - apply Hnext; auto.
  - apply (invA_F1 s A Ht); exact Hl.
  - apply (invA_F1s s A Ht); exact Hl.
  - apply (invA_F2 s A Ht); exact Hl.
  - apply Hnext; auto.
  - apply (invA_P1 s A Ht); exact Hl.
  - apply (invA_P3 s I2 A Ht); exact Hl.
  - apply (invA_P3s s A Ht); exact Hl.
  - apply (invA_P4 s A Ht); exact Hl.
  - apply (invA_P5 s A Ht); exact Hl.
  - apply Hnext; auto.
Qed.
