(* C14, invariants (part E): facts needed for the unlocked accesses of resultq_destroy by an
   exiting handler (threadpool.c:353-356).  A handler leaves its loop when it sees, under rq->m,
   finished && nthreads == 0 && head == NULL.  From then on nobody touches the queue:
     - nthreads counts (modulo 2^64: it can transiently wrap below zero, threadpool.c:229/308)
       the workers that are on the queue or will still put themselves on it (e_count), so no
       worker will append;
     - the caller has finished the handler: no dispatch to it (contract), Finish is over. *)
From Coq Require Import NArith ZArith List Lia ZifyBool ZifyN ZifyNat Bool Arith.
From Mtbl Require Import model.Bytes model.Pool proofs.PoolBase proofs.PoolSched proofs.PoolGuard proofs.PoolInv proofs.PoolLife
  proofs.PoolStep2 proofs.PoolAbort proofs.PoolRaceDefs proofs.PoolRaceStep proofs.PoolRaceInv proofs.PoolRace proofs.PoolRaceInvB.
Import ListNotations.

(* ---------- programs: Finish q at most once ---------- *)
Definition no_finish (q : nat) (p : list cmd) : bool :=
  forallb (fun c => match c with Finish q' => negb (Nat.eqb q q') | _ => true end) p.
Fixpoint fin_once (p : list cmd) : bool :=
  match p with
  | [] => true
  | Finish q :: r => no_finish q r && fin_once r
  | _ :: r => fin_once r
  end.

Lemma no_finish_tl q p : no_finish q p = true -> no_finish q (tl p) = true.
Proof. destruct p as [|c r]; [auto|]. unfold no_finish. cbn [forallb tl]. intros H. apply andb_prop in H. tauto. Qed.
Lemma fin_once_tl p : fin_once p = true -> fin_once (tl p) = true.
Proof. destruct p as [|[| | |] r]; cbn [fin_once tl]; auto. intros H. apply andb_prop in H. tauto. Qed.

Lemma no_finish_of_full q : forall p nq fin, pwf_full nq fin p = true -> existsb (Nat.eqb q) fin = true -> no_finish q p = true.
Proof.
  induction p as [|c r IH]; intros nq fin H Hin; [reflexivity|].
  destruct c as [o|q'|q'|]; cbn [pwf_full] in H; unfold no_finish; cbn [forallb]; fold (no_finish q r).
  - apply (IH _ _ H Hin).
  - apply andb_prop in H. destruct H as [H H3]. apply (IH _ _ H3 Hin).
  - apply andb_prop in H. destruct H as [H H3]. apply andb_prop in H. destruct H as [H1 H2].
    rewrite (IH _ (q' :: fin) H3) by (cbn [existsb]; rewrite Hin; apply orb_true_r). rewrite andb_true_r.
    destruct (Nat.eqb_spec q q') as [->|]; [|reflexivity]. rewrite Hin in H2. discriminate.
  - apply andb_prop in H. destruct H as [_ H]. destruct r; [reflexivity|discriminate].
Qed.
Lemma fin_once_of_full : forall p nq fin, pwf_full nq fin p = true -> fin_once p = true.
Proof.
  induction p as [|c r IH]; intros nq fin H; [reflexivity|].
  destruct c as [o|q|q|]; cbn [pwf_full] in H; cbn [fin_once].
  - apply (IH _ _ H).
  - apply andb_prop in H. destruct H as [H H3]. apply (IH _ _ H3).
  - apply andb_prop in H. destruct H as [H H3]. rewrite (IH _ _ H3), andb_true_r.
    apply (no_finish_of_full q r nq (q :: fin) H3). cbn [existsb]. rewrite Nat.eqb_refl. reflexivity.
  - apply andb_prop in H. destruct H as [_ H]. destruct r; [reflexivity|discriminate].
Qed.

(* ---------- counting ---------- *)
Definition rqis (j : nat) (w : worker) : bool := match wk_rq w with Some q => Nat.eqb q j | None => false end.
Definition w4uis (j : nat) (l : label) : bool := match l with W4u _ q => Nat.eqb q j | _ => false end.
Definition out1 (st : pstate) (j : nat) : nat := sumf (fun w => b2n (rqis j w)) (ps_workers st).
Definition out2 (st : pstate) (j : nat) : nat := sumf (fun th => b2n (w4uis j (t_lab th))) (ps_threads st).
(* a dispatch in progress to an unordered queue: rq set (D5), nthreads not yet incremented (D7) *)
Definition pdl (ord : nat -> bool) (l : label) (j : nat) : nat :=
  match l with D5s q _ | D6 q _ | D7 q _ => b2n (Nat.eqb q j && negb (ord q)) | _ => 0%nat end.
Definition pd (st : pstate) (j : nat) : nat := pdl (ord_of st) (t_lab (gett st 0)) j.
Definition count_eq (st : pstate) (j : nat) : Prop :=
  ((q_nthreads (getq st j) + N.of_nat (pd st j)) mod two64 =
   N.of_nat (length (q_list (getq st j)) + out1 st j + out2 st j) mod two64)%N.
(* a dispatch that may still create a worker (and its thread) *)
Definition delta (st : pstate) : nat := match t_lab (gett st 0) with D1 _ | D3 _ _ true => 1%nat | _ => 0%nat end.

Definition qdead (st : pstate) (j : nat) : Prop :=
  t_lab (gett st (q_tid (getq st j))) = H3 j None \/ t_lab (gett st (q_tid (getq st j))) = LDone.

Record InvE (B : nat) (st : pstate) : Prop := {
  e_hth : forall j, (j < length (ps_queues st))%nat ->
     (q_tid (getq st j) < length (ps_threads st))%nat /\
     (lab_handler (t_lab (gett st (q_tid (getq st j)))) = Some j \/ t_lab (gett st (q_tid (getq st j))) = LDone);
  e_dead : forall j, (j < length (ps_queues st))%nat -> qdead st j ->
     q_finished (getq st j) = true /\ q_list (getq st j) = [] /\
     (forall i, rqis j (getw st i) = false) /\ (forall y, w4uis j (t_lab (gett st y)) = false) /\
     (forall y, t_lab (gett st y) <> F1 j /\ t_lab (gett st y) <> F1s j);
  e_f1 : forall y j, t_lab (gett st y) = F1 j -> q_finished (getq st j) = false /\ no_finish j (ps_prog st) = true;
  e_nofin : forall j, q_finished (getq st j) = true -> no_finish j (ps_prog st) = true;
  e_once : fin_once (ps_prog st) = true;
  e_d7s : forall y q, t_lab (gett st y) = D7s q \/ (t_lab (gett st y) = D8 /\ t_obj (gett st y) = OQm q) ->
     q_finished (getq st q) = false;
  e_count : forall j, (j < length (ps_queues st))%nat -> count_eq st j;
  e_bound : (length (ps_workers st) + length (ps_threads st) + 2 * length (ps_prog st) + 2 * delta st <= B)%nat;
}.

(* ---------- sums ---------- *)
Lemma sumf_le_len {A} (f : A -> bool) l : (sumf (fun a => b2n (f a)) l <= length l)%nat.
Proof. induction l as [|a l IH]; [cbn; lia|]. rewrite sumf_cons. cbn [length]. destruct (f a); cbn [b2n]; lia. Qed.
Lemma sumf_zero_nth {A} (f : A -> bool) l d : sumf (fun a => b2n (f a)) l = 0%nat -> f d = false -> forall x, f (nth x l d) = false.
Proof.
  intros H Hd x. destruct (Nat.lt_ge_cases x (length l)) as [Hx|Hx]; [|rewrite nth_overflow by exact Hx; exact Hd].
  pose proof (sumf_nth_le (fun a => b2n (f a)) l x d Hx) as L. cbv beta in L. destruct (f (nth x l d)); [cbn in L; lia|reflexivity].
Qed.
Lemma sumf_all_zero {A} (f : A -> bool) l : (forall a, In a l -> f a = false) -> sumf (fun a => b2n (f a)) l = 0%nat.
Proof.
  induction l as [|a l IH]; intros H; [reflexivity|]. rewrite sumf_cons, IH; [|intros b Hb; apply H; right; exact Hb].
  rewrite (H a) by (left; reflexivity). reflexivity.
Qed.
Lemma sumf_pointwise {A} (f : A -> nat) l l' d : length l = length l' ->
  (forall x, (x < length l)%nat -> f (nth x l d) = f (nth x l' d)) -> sumf f l = sumf f l'.
Proof.
  revert l'. induction l as [|a l IH]; intros [|a' l'] L H; cbn [length] in L; try lia.
  rewrite !sumf_cons.
  assert (E : sumf f l = sumf f l').
  { apply IH; [lia|]. intros x Hx. apply (H (S x)). cbn [length]. lia. }
  specialize (H 0%nat ltac:(cbn [length]; lia)). cbn [nth] in H. lia.
Qed.

Lemma out1_keq a b j : keq a b -> out1 a j = out1 b j.
Proof. intros K. unfold out1. rewrite (keq_workers _ _ K). reflexivity. Qed.
Lemma out2_keq a b j : keq a b -> out2 a j = out2 b j.
Proof.
  intros K. unfold out2.
  assert (E : forall l, sumf (fun th => b2n (w4uis j (t_lab th))) l = sumf (fun k : opk * obj * label * bool => b2n (w4uis j (snd (fst k)))) (map key l)).
  { intros l. rewrite sumf_map. reflexivity. }
  rewrite !E, (ke_key _ _ K). reflexivity.
Qed.
Lemma pd_keq a b j : keq a b -> pd a j = pd b j.
Proof.
  intros K. unfold pd. rewrite (keq_lab _ _ 0 K).
  assert (O : forall q, ord_of a q = ord_of b q) by (intros q; unfold ord_of; rewrite (keq_getq _ _ q K); reflexivity).
  unfold pdl. destruct (t_lab (gett b 0)); try reflexivity; rewrite O; reflexivity.
Qed.
Lemma delta_keq a b : keq a b -> delta a = delta b.
Proof. intros K. unfold delta. rewrite (keq_lab _ _ 0 K). reflexivity. Qed.

Lemma invE_keq B a b : keq a b -> InvE B b -> InvE B a.
Proof.
  intros K [E1 E2 E3 E4 E5 E6 E7 E8].
  assert (Q : forall j, qdead a j <-> qdead b j).
  { intros j. unfold qdead. rewrite (keq_getq _ _ j K), (keq_lab _ _ _ K). reflexivity. }
  constructor.
  - intros j. rewrite (keq_queues _ _ K), (keq_getq _ _ j K), (keq_lab _ _ _ K), (keq_len _ _ K). apply E1.
  - intros j. rewrite (keq_queues _ _ K), (keq_getq _ _ j K), Q. intros Hj Hd.
    destruct (E2 j Hj Hd) as (H1 & H2 & H3 & H4 & H5). repeat split; try assumption.
    + intros i. rewrite (keq_getw _ _ i K). apply H3.
    + intros y. rewrite (keq_lab _ _ y K). apply H4.
    + rewrite (keq_lab _ _ y K). apply H5.
    + rewrite (keq_lab _ _ y K). apply H5.
  - intros y j. rewrite (keq_lab _ _ y K), (keq_getq _ _ j K), (keq_prog _ _ K). apply E3.
  - intros j. rewrite (keq_getq _ _ j K), (keq_prog _ _ K). apply E4.
  - rewrite (keq_prog _ _ K). exact E5.
  - intros y q. rewrite (keq_lab _ _ y K), (keq_obj _ _ y K), (keq_getq _ _ q K). apply E6.
  - intros j. rewrite (keq_queues _ _ K). intros Hj. unfold count_eq.
    rewrite (keq_getq _ _ j K), (pd_keq _ _ j K), (out1_keq _ _ j K), (out2_keq _ _ j K). apply E7. exact Hj.
  - rewrite (keq_workers _ _ K), (keq_len _ _ K), (keq_prog _ _ K), (delta_keq _ _ K). exact E8.
Qed.

(* a thread record changes but keeps its label (cond_wait release, exit) *)
Lemma invE_set B st t th : t_lab th = t_lab (gett st t) -> t_lab th <> D8 -> InvE B st -> InvE B (set_thread st t th).
Proof.
  intros El Hd [E1 E2 E3 E4 E5 E6 E7 E8].
  set (st' := set_thread st t th).
  assert (L : forall y, t_lab (gett st' y) = t_lab (gett st y)).
  { intros y. unfold st'. rewrite gett_set_thread. destruct (Nat.eqb_spec y t) as [->|]; cbn [andb]; [|reflexivity].
    destruct (Nat.ltb _ _); [exact El|reflexivity]. }
  assert (O : forall y, t_lab (gett st y) = D8 -> t_obj (gett st' y) = t_obj (gett st y)).
  { intros y Hy. unfold st'. rewrite gett_set_thread. destruct (Nat.eqb_spec y t) as [->|]; cbn [andb]; [|reflexivity].
    destruct (Nat.ltb _ _); [|reflexivity]. exfalso. apply Hd. rewrite El. exact Hy. }
  assert (ML : map t_lab (ps_threads st') = map t_lab (ps_threads st)).
  { unfold st', set_thread. cbn [ps_threads]. apply (map_upd_nth_same t_lab _ t th dummy_t). exact El. }
  assert (O2 : forall j, out2 st' j = out2 st j).
  { intros j. unfold out2.
    assert (E : forall l, sumf (fun th0 => b2n (w4uis j (t_lab th0))) l = sumf (fun l0 => b2n (w4uis j l0)) (map t_lab l)).
    { intros l. rewrite sumf_map. reflexivity. }
    rewrite !E, ML. reflexivity. }
  assert (Q : forall j, qdead st' j <-> qdead st j).
  { intros j. unfold qdead. change (getq st' j) with (getq st j). rewrite L. reflexivity. }
  constructor.
  - intros j. change (ps_queues st') with (ps_queues st). change (getq st' j) with (getq st j). rewrite L.
    unfold st', set_thread. cbn [ps_threads]. rewrite upd_nth_length. apply E1.
  - intros j. change (ps_queues st') with (ps_queues st). change (getq st' j) with (getq st j). rewrite Q. intros Hj Hq.
    destruct (E2 j Hj Hq) as (H1 & H2 & H3 & H4 & H5). repeat split; try assumption.
    + intros y. rewrite L. apply H4.
    + rewrite L. apply H5.
    + rewrite L. apply H5.
  - intros y j. rewrite L. apply E3.
  - exact E4.
  - exact E5.
  - intros y q. rewrite L. intros [H|[H1 H2]]; [apply (E6 y q); left; exact H|].
    apply (E6 y q). right. split; [exact H1|]. rewrite <- (O y H1). exact H2.
  - intros j Hj. unfold count_eq. rewrite O2. change (getq st' j) with (getq st j). change (out1 st' j) with (out1 st j).
    replace (pd st' j) with (pd st j); [apply E7; exact Hj|]. unfold pd. rewrite L. reflexivity.
  - change (ps_workers st') with (ps_workers st). change (ps_prog st') with (ps_prog st).
    replace (delta st') with (delta st) by (unfold delta; rewrite L; reflexivity).
    unfold st', set_thread. cbn [ps_threads]. rewrite upd_nth_length. exact E8.
Qed.

Lemma invE_wait B st t : Inv1 st -> t_op (gett st t) = KWait -> InvE B st -> InvE B (set_thread st t (waiting (gett st t))).
Proof.
  intros I1 Hop IE. pose proof (shape_allowed _ (i1_shape _ I1 t)) as Ha. rewrite Hop in Ha.
  apply invE_set; [reflexivity| |exact IE]. cbn [waiting t_lab]. intros E. rewrite E in Ha. discriminate.
Qed.
Lemma invE_exit B st t : Inv1 st -> t_op (gett st t) = KExit -> InvE B st -> InvE B (set_thread st t exited).
Proof.
  intros I1 Hop IE. pose proof (shape_allowed _ (i1_shape _ I1 t)) as Ha. rewrite Hop in Ha. apply exit_lab in Ha. destruct Ha as [El _].
  apply invE_set; [rewrite El; reflexivity|discriminate|exact IE].
Qed.

(* ---------- what a step does to a queue's fields ---------- *)
Lemma after_q_finished st t l j :
  q_finished (getq (after st t l) j) =
  q_finished (getq st j) || match l with F1 q => Nat.eqb j q && Nat.ltb q (length (ps_queues st)) | _ => false end.
Proof.
  rewrite after_getq. destruct (is_next l) eqn:En.
  - replace (match l with F1 _ => _ | _ => false end) with false by (destruct l; try reflexivity; discriminate En).
    rewrite orb_false_r. destruct (ps_prog st) as [|[ord| | |] r]; try reflexivity.
    destruct (Nat.ltb_spec j (length (ps_queues st))); [reflexivity|]. rewrite (getq_oob _ _ H).
    destruct (Nat.eqb j (length (ps_queues st))); reflexivity.
  - destruct l; try discriminate En; rewrite ?orb_false_r; try reflexivity; cbv zeta.
    + apply (upd_q_field q_finished). reflexivity.
    + unfold upd_q. destruct (Nat.eqb j q && Nat.ltb q (length (ps_queues st))) eqn:E; [cbn [q_finished]; rewrite orb_true_r; reflexivity|rewrite orb_false_r; reflexivity].
    + apply (upd_q_field q_finished). reflexivity.
    + destruct (q_list (getq st j0)); [reflexivity|]. apply (upd_q_field q_finished). reflexivity.
Qed.

Lemma after_q_ordered st t l j : (j < length (ps_queues st))%nat -> q_ordered (getq (after st t l) j) = q_ordered (getq st j).
Proof.
  intros Hj. rewrite after_getq. destruct (is_next l).
  - destruct (ps_prog st) as [|[ord| | |] r]; try reflexivity. destruct (Nat.ltb_spec j (length (ps_queues st))); [reflexivity|lia].
  - destruct l; try reflexivity; cbv zeta; try (apply (upd_q_field q_ordered); reflexivity).
    destruct (q_list (getq st j0)); [reflexivity|]. apply (upd_q_field q_ordered). reflexivity.
Qed.

(* the new label of the stepping thread, when it is a handler *)
Lemma cont_handler_fwd st t l j : lab_handler l = Some j ->
  lab_handler (t_lab (snd (continue st t l))) = Some j \/ (l = H3 j None /\ t_lab (snd (continue st t l)) = LDone).
Proof.
  intros H. destruct l; cbn [lab_handler] in H; try discriminate H; inversion H; subst; cbn [continue];
    repeat match goal with
           | |- context [if ?c then _ else _] => destruct c
           | |- context [match ?x with _ => _ end] => destruct x
           end; cbn [snd t_lab pend lab_handler]; auto.
Qed.

Lemma lab_next_cases st : let l' := t_lab (snd (caller_next st)) in
  (ps_prog st = [] /\ l' = LDone) \/ (exists o r, ps_prog st = NewHandler o :: r /\ l' = CNext) \/
  (exists q r, ps_prog st = Dispatch q :: r /\ l' = D1 q) \/ (exists q r, ps_prog st = Finish q :: r /\ l' = F1 q) \/
  (exists r, ps_prog st = DestroyPool :: r /\ l' = P1).
Proof.
  unfold caller_next. destruct (ps_prog st) as [|[o|q|q|] r]; cbn; eauto 10.
Qed.

Lemma cont_next st t l : is_next l = true -> snd (continue st t l) = snd (caller_next st).
Proof. destruct l; try discriminate; reflexivity. Qed.

Lemma not_next_lab st t l : is_next l = false ->
  let l' := t_lab (snd (continue st t l)) in l' <> CNext /\ (forall q, l' <> F1 q) /\ (forall q, l' <> D1 q \/ exists q', l = D1 q').
Proof.
  intros H. destruct l; try discriminate H; cbn [continue];
    repeat match goal with
           | |- context [if ?c then _ else _] => destruct c
           | |- context [match ?x with _ => _ end] => destruct x
           end; cbn [snd t_lab pend]; repeat split; try discriminate; intros; try (left; discriminate); right; eauto.
Qed.

Section CodeE.
Variable B : nat.
Variable st : pstate.
Variable t : nat.
Hypothesis I1 : Inv1 st.
Hypothesis I2 : Inv2 st.
Hypothesis IB : InvB st.
Hypothesis IE : InvE B st.
Hypothesis En : enabled st t = true.
Hypothesis Hw : t_op (gett st t) <> KWait.
Hypothesis He : t_op (gett st t) <> KExit.
Let l := t_lab (gett st t).
Let st' := after st t l.
Let Ht : (t < length (ps_threads st))%nat := proj1 (enabled_live _ _ En).
Let Tt := i2_threads st I2 t.

Lemma l_not_done : l <> LDone.
Proof.
  intros E. pose proof (shape_allowed _ (i1_shape _ I1 t)) as Ha. fold l in Ha. rewrite E in Ha.
  cbn [allowed] in Ha. unfold is_op in Ha. destruct (t_op (gett st t)); try discriminate. congruence.
Qed.

Lemma caller_t0 : caller_lab l = true -> t = 0%nat.
Proof. apply (tk_caller _ _ _ Tt). Qed.

(* labels in the new state *)
Lemma lab_other y : y <> t -> t_lab (gett st' y) = t_lab (gett st y) \/
  (length (ps_threads st) <= y)%nat /\ (t_lab (gett st' y) = LDone \/ (exists i, t_lab (gett st' y) = W0 i) \/ (exists j, t_lab (gett st' y) = H0 j)).
Proof. intros Hne. apply after_other_lab; assumption. Qed.

Lemma codeE_hth : forall j, (j < length (ps_queues st'))%nat ->
  (q_tid (getq st' j) < length (ps_threads st'))%nat /\
  (lab_handler (t_lab (gett st' (q_tid (getq st' j)))) = Some j \/ t_lab (gett st' (q_tid (getq st' j))) = LDone).
Proof.
  intros j Hj. unfold st' in *. rewrite after_len.
  destruct (Nat.lt_ge_cases j (length (ps_queues st))) as [Hlt|Hge].
  - rewrite after_q_tid by exact Hlt. destruct (e_hth _ _ IE j Hlt) as [Hb Hl]. split; [lia|].
    set (h := q_tid (getq st j)) in *.
    destruct (Nat.eq_dec h t) as [Eh|Hne].
    + rewrite Eh in *. rewrite after_gett_self by exact Ht. fold l in Hl. destruct Hl as [Hl|Hl]; [|exfalso; exact (l_not_done Hl)].
      destruct (cont_handler_fwd st t l j Hl) as [H|[_ H]]; auto.
    + destruct (after_lab_other st t l h Ht Hne) as [[_ E]|[Hx _]]; [rewrite E; exact Hl|lia].
  - rewrite after_nqueues in Hj. rewrite after_getq.
    destruct (is_next l) eqn:Hn; [|lia]. destruct (ps_prog st) as [|[ord| | |] r] eqn:Hp; try lia.
    assert (j = length (ps_queues st)) by lia. subst j.
    destruct (Nat.ltb_spec (length (ps_queues st)) (length (ps_queues st))); [lia|]. rewrite Nat.eqb_refl. cbn [q_tid].
    assert (Hnt : new_threads st l = [pend KStart ONone (H0 (length (ps_queues st)))]).
    { destruct l; try discriminate Hn; cbn [new_threads]; rewrite Hp; reflexivity. }
    rewrite Hnt. cbn [length]. split; [lia|]. left.
    rewrite after_gett by exact Ht. destruct (Nat.eqb_spec (length (ps_threads st)) t); [lia|].
    destruct (Nat.ltb_spec (length (ps_threads st)) (length (ps_threads st))); [lia|]. rewrite Nat.sub_diag, Hnt. reflexivity.
Qed.

Lemma codeE_once : fin_once (ps_prog st') = true.
Proof. unfold st'. rewrite after_prog. destruct (is_next l); [apply fin_once_tl|]; apply (e_once _ _ IE). Qed.

Lemma codeE_nofin : forall j, q_finished (getq st' j) = true -> no_finish j (ps_prog st') = true.
Proof.
  intros j. unfold st'. rewrite after_q_finished, after_prog. intros H. apply orb_prop in H.
  assert (G : no_finish j (ps_prog st) = true).
  { destruct H as [H|H]; [apply (e_nofin _ _ IE); exact H|].
    destruct l eqn:El; try discriminate H. apply andb_prop in H. destruct H as [H _]. apply Nat.eqb_eq in H. subst j.
    apply (e_f1 _ _ IE t q). exact El. }
  destruct (is_next l); [apply no_finish_tl|]; exact G.
Qed.

Lemma codeE_f1 : forall y j, t_lab (gett st' y) = F1 j -> q_finished (getq st' j) = false /\ no_finish j (ps_prog st') = true.
Proof.
  intros y j Hy. unfold st' in *. rewrite after_q_finished, after_prog.
  destruct (Nat.eq_dec y t) as [->|Hne].
  - rewrite after_gett_self in Hy by exact Ht.
    destruct (is_next l) eqn:Hn.
    + rewrite (cont_next st t l Hn) in Hy.
      destruct (lab_next_cases st) as [[_ E]|[(o & r & _ & E)|[(q & r & _ & E)|[(q & r & Hp & E)|(r & _ & E)]]]]; cbv zeta in E; rewrite E in Hy; try discriminate.
      inversion Hy; subst q. rewrite Hp. cbn [tl].
      replace (match l with F1 _ => _ | _ => false end) with false by (destruct l; try reflexivity; discriminate Hn).
      rewrite orb_false_r. pose proof (e_once _ _ IE) as Ho. rewrite Hp in Ho. cbn [fin_once] in Ho. apply andb_prop in Ho. destruct Ho as [Ho _].
      split; [|exact Ho]. destruct (q_finished (getq st j)) eqn:Ef; [|reflexivity].
      pose proof (e_nofin _ _ IE j Ef) as Hnf. rewrite Hp in Hnf. unfold no_finish in Hnf. cbn [forallb] in Hnf. rewrite Nat.eqb_refl in Hnf. discriminate.
    + exfalso. destruct (not_next_lab st t l Hn) as (_ & H & _). exact (H j Hy).
  - destruct (lab_other y Hne) as [E|[_ [E|[[? E]|[? E]]]]]; fold st' in Hy; rewrite E in Hy; try discriminate.
    destruct (e_f1 _ _ IE y j Hy) as [F1 F2].
    assert (Hnc : caller_lab l = false).
    { destruct (caller_lab l) eqn:Ec; [|reflexivity]. exfalso. apply Hne. apply (caller_unique st y t I2); [rewrite Hy; reflexivity|exact Ec]. }
    replace (is_next l) with false by (destruct l; try reflexivity; discriminate Hnc).
    replace (match l with F1 _ => _ | _ => false end) with false by (destruct l; try reflexivity; discriminate Hnc).
    rewrite orb_false_r. split; assumption.
Qed.

Lemma codeE_d7s : forall y q, t_lab (gett st' y) = D7s q \/ (t_lab (gett st' y) = D8 /\ t_obj (gett st' y) = OQm q) ->
  q_finished (getq st' q) = false.
Proof.
  intros y q Hy. unfold st' in *. rewrite after_q_finished.
  destruct (Nat.eq_dec y t) as [->|Hne].
  - rewrite after_gett_self in Hy by exact Ht.
    assert (H : (exists i, l = D7 q i) \/ l = D7s q).
    { destruct Hy as [Hy|[Hy Ho]]; destruct l eqn:El; cont_lab Hy; cbn [continue snd t_obj pend] in *;
        try (inversion Hy; subst); try (inversion Ho; subst); eauto;
        repeat match type of Ho with context [if ?c then _ else _] => destruct c end; cbn [snd t_obj pend] in Ho; inversion Ho; subst; eauto. }
    destruct H as [[i El]|El]; rewrite El; rewrite orb_false_r.
    + apply (tk_dispatch _ _ _ Tt q). fold l. rewrite El. reflexivity.
    + apply (e_d7s _ _ IE t q). left. exact El.
  - assert (Hy' : t_lab (gett st y) = D7s q \/ (t_lab (gett st y) = D8 /\ t_obj (gett st y) = OQm q)).
    { destruct (after_lab_other st t l y Ht Hne) as [[_ E]|[_ [E|[_ [(q' & i' & _ & E)|(ord & r & _ & _ & E)]]]]]; rewrite E in Hy;
        [exact Hy| | |]; destruct Hy as [Hy|[Hy _]]; discriminate. }
    assert (Hnc : caller_lab l = false).
    { destruct (caller_lab l) eqn:Ec; [|reflexivity]. exfalso. apply Hne. apply (caller_unique st y t I2); [|exact Ec].
      destruct Hy' as [E|[E _]]; rewrite E; reflexivity. }
    replace (match l with F1 _ => _ | _ => false end) with false by (destruct l; try reflexivity; discriminate Hnc).
    rewrite orb_false_r. apply (e_d7s _ _ IE y q Hy').
Qed.

Definition deltal (l0 : label) : nat := match l0 with D1 _ | D3 _ _ true => 1%nat | _ => 0%nat end.

Lemma delta_after : delta st' = if Nat.eqb t 0 then deltal (t_lab (snd (continue st t l))) else delta st.
Proof.
  unfold delta, st'. fold (deltal (t_lab (gett (after st t l) 0))). fold (deltal (t_lab (gett st 0))).
  rewrite after_gett by exact Ht. destruct (Nat.eqb_spec 0 t) as [<-|Hne]; [reflexivity|].
  destruct (Nat.eqb_spec t 0); [lia|]. destruct (Nat.ltb_spec 0 (length (ps_threads st))); [reflexivity|lia].
Qed.

Lemma codeE_bound : (length (ps_workers st') + length (ps_threads st') + 2 * length (ps_prog st') + 2 * delta st' <= B)%nat.
Proof.
  pose proof (e_bound _ _ IE) as E8. rewrite delta_after. unfold st'. rewrite after_nworkers, after_len, after_prog.
  destruct (Nat.eqb_spec t 0) as [E0|Hne].
  - assert (Ed : delta st = deltal l) by (unfold delta, l; rewrite E0; reflexivity). rewrite Ed in E8. clear Ed.
    destruct l eqn:El; cbn [is_next new_threads continue deltal] in *; unfold caller_next;
      repeat match goal with
             | |- context [if ?c then _ else _] => destruct c eqn:?
             | |- context [match ?x with _ => _ end] => destruct x eqn:?
             end; cbn [snd t_lab pend deltal length tl dummy_t] in *; try lia.
  - assert (Hnc : caller_lab l = false).
    { destruct (caller_lab l) eqn:Ec; [|reflexivity]. exfalso. apply Hne. apply caller_t0. exact Ec. }
    destruct l; try discriminate Hnc; cbn [is_next new_threads length]; lia.
Qed.

Hypothesis HB : (N.of_nat B < two64)%N.

Lemma pd_zero_fin j : q_finished (getq st j) = true -> pd st j = 0%nat.
Proof.
  intros Hf. unfold pd, pdl. destruct (t_lab (gett st 0)) eqn:E0; try reflexivity;
    (destruct (Nat.eqb_spec q j) as [->|]; [|reflexivity]);
    exfalso; pose proof (tk_dispatch _ _ _ (i2_threads st I2 0) j) as H; rewrite E0 in H; destruct (H eq_refl) as [_ H']; congruence.
Qed.

(* the exit decision of a handler: nobody will put a worker on its queue any more *)
Lemma dead_establish j : (j < length (ps_queues st))%nat ->
  q_list (getq st j) = [] -> q_finished (getq st j) = true -> q_nthreads (getq st j) = 0%N ->
  (forall i, rqis j (getw st i) = false) /\ (forall y, w4uis j (t_lab (gett st y)) = false).
Proof.
  intros Hj Hl Hf Hn. pose proof (e_count _ _ IE j Hj) as C. unfold count_eq in C.
  rewrite Hl, Hn, (pd_zero_fin j Hf) in C. cbn [length N.of_nat N.add] in C.
  pose proof (sumf_le_len (rqis j) (ps_workers st)) as L1. fold (out1 st j) in L1.
  assert (L2 : (out2 st j <= length (ps_threads st))%nat) by apply (sumf_le_len (fun th => w4uis j (t_lab th))).
  pose proof (e_bound _ _ IE) as E8.
  assert (Z : (out1 st j + out2 st j = 0)%nat).
  { unfold two64 in *. rewrite N.mod_0_l in C by lia. symmetry in C. rewrite N.mod_small in C by lia. lia. }
  split.
  - intros i. unfold getw. apply (sumf_zero_nth (rqis j)); [unfold out1 in Z; lia|reflexivity].
  - intros y. unfold gett. apply (sumf_zero_nth (fun th => w4uis j (t_lab th))); [unfold out2 in Z; lia|reflexivity].
Qed.

Lemma codeE_dead : forall j, (j < length (ps_queues st'))%nat -> qdead st' j ->
  q_finished (getq st' j) = true /\ q_list (getq st' j) = [] /\
  (forall i, rqis j (getw st' i) = false) /\ (forall y, w4uis j (t_lab (gett st' y)) = false) /\
  (forall y, t_lab (gett st' y) <> F1 j /\ t_lab (gett st' y) <> F1s j).
Proof.
  intros j Hj Hq.
  destruct (Nat.lt_ge_cases j (length (ps_queues st))) as [Hlt|Hge].
  2:{ (* a queue just created: its handler has not even started *)
      exfalso. destruct (codeE_hth j Hj) as [_ Hh]. unfold qdead in Hq. fold st' in Hh.
      unfold st' in Hj. rewrite after_nqueues in Hj.
      destruct (is_next l) eqn:Hn; [|lia]. destruct (ps_prog st) as [|[ord| | |] r] eqn:Hp; try lia.
      assert (j = length (ps_queues st)) by lia. subst j.
      assert (Eh : q_tid (getq st' (length (ps_queues st))) = length (ps_threads st)).
      { unfold st'. rewrite after_getq, Hn, Hp. destruct (Nat.ltb_spec (length (ps_queues st)) (length (ps_queues st))); [lia|].
        rewrite Nat.eqb_refl. reflexivity. }
      rewrite Eh in Hq.
      assert (El' : t_lab (gett st' (length (ps_threads st))) = H0 (length (ps_queues st))).
      { unfold st'. rewrite after_gett by exact Ht. destruct (Nat.eqb_spec (length (ps_threads st)) t); [lia|].
        destruct (Nat.ltb_spec (length (ps_threads st)) (length (ps_threads st))); [lia|]. rewrite Nat.sub_diag.
        destruct l; try discriminate Hn; cbn [new_threads]; rewrite Hp; reflexivity. }
      rewrite El' in Hq. destruct Hq; discriminate. }
  assert (Eh : q_tid (getq st' j) = q_tid (getq st j)) by (unfold st'; apply after_q_tid; exact Hlt).
  unfold qdead in Hq. rewrite Eh in Hq. set (h := q_tid (getq st j)) in *.
  destruct (e_hth _ _ IE j Hlt) as [Hhb Hhl]. fold h in Hhb, Hhl.
  (* the facts in the old state *)
  assert (Old : q_finished (getq st j) = true /\ q_list (getq st j) = [] /\
                (forall i, rqis j (getw st i) = false) /\ (forall y, w4uis j (t_lab (gett st y)) = false) /\
                (forall y, y <> t -> t_lab (gett st y) <> F1 j /\ t_lab (gett st y) <> F1s j) /\
                (l <> F1 j) /\ (h = t -> l = H1 j \/ l = H3 j None)).
  { destruct (Nat.eq_dec h t) as [Eht|Hne].
    - rewrite Eht in Hq, Hhl. fold l in Hhl. unfold st' in Hq. rewrite after_gett_self in Hq by exact Ht.
      destruct Hhl as [Hhl|Hhl]; [|exfalso; exact (l_not_done Hhl)].
      assert (Hc : (l = H1 j /\ q_list (getq st j) = [] /\ q_finished (getq st j) = true /\ q_nthreads (getq st j) = 0%N) \/ l = H3 j None).
      { destruct l eqn:El; cbn [lab_handler] in Hhl; try discriminate Hhl; inversion Hhl; subst;
          destruct Hq as [Hq|Hq]; cont_lab Hq; try (inversion Hq; subst); auto.
        left. repeat split; try assumption.
        - match goal with H : _ && _ = true |- _ => apply andb_prop in H; tauto end.
        - match goal with H : _ && _ = true |- _ => apply andb_prop in H; destruct H as [_ H]; apply N.eqb_eq in H; exact H end. }
      destruct Hc as [(El & Hl & Hf & Hn)|El].
      + destruct (dead_establish j Hlt Hl Hf Hn) as [R1 R2].
        repeat split; try assumption; try (rewrite El; discriminate); auto.
        * intros E. destruct (e_f1 _ _ IE y j E) as [F _]. congruence.
        * intros E. apply (code_guard_excl st t y (OQm j) I1 En Hw); [fold l; rewrite El; reflexivity|].
          apply lab_holds; [exact I1|]. rewrite E. left. reflexivity.
      + assert (Hd : qdead st j) by (left; fold h; rewrite Eht; exact El).
        destruct (e_dead _ _ IE j Hlt Hd) as (H1 & H2 & H3 & H4 & H5).
        repeat split; try assumption; try (rewrite El; discriminate); try apply H5; auto.
    - assert (Hd : qdead st j).
      { unfold qdead. fold h. destruct (after_lab_other st t l h Ht Hne) as [[_ E]|[Hx _]]; [|lia]. fold st' in E. rewrite E in Hq. exact Hq. }
      destruct (e_dead _ _ IE j Hlt Hd) as (H1 & H2 & H3 & H4 & H5).
      repeat split; try assumption; try apply H5; try contradiction. }
  destruct Old as (O1 & O2 & O3 & O4 & O5 & O6 & O7).
  assert (Nd : forall q0, lab_dispatch l = Some q0 -> q0 <> j).
  { intros q0 Hd ->. destruct (tk_dispatch _ _ _ Tt j Hd) as [_ F]. congruence. }
  split; [unfold st'; rewrite after_q_finished, O1; reflexivity|].
  split.
  { unfold st'. rewrite after_getq. destruct (is_next l) eqn:Hn.
    - destruct (ps_prog st) as [|[ord| | |] r]; try exact O2. destruct (Nat.ltb_spec j (length (ps_queues st))); [exact O2|lia].
    - destruct l eqn:El; try exact O2; cbv zeta.
      + unfold upd_q. destruct (Nat.eqb_spec j q) as [<-|]; cbn [andb]; [|exact O2]. exfalso. apply (Nd j); reflexivity.
      + rewrite (upd_q_field q_list); [exact O2|reflexivity].
      + unfold upd_q. destruct (Nat.eqb_spec j q) as [<-|]; cbn [andb]; [|exact O2].
        exfalso. pose proof (O4 t) as H. fold l in H. rewrite El in H. cbn in H. rewrite Nat.eqb_refl in H. discriminate.
      + destruct (q_list (getq st j0)) as [|i0 rest] eqn:Elist; [exact O2|].
        unfold upd_q. destruct (Nat.eqb_spec j j0) as [<-|]; cbn [andb]; [|exact O2]. rewrite O2 in Elist. discriminate. }
  split.
  { intros i. unfold st'. rewrite after_getw.
    destruct l eqn:El; try apply O3; cbv zeta.
    - destruct fresh; [|apply O3]. destruct (Nat.ltb i (length (ps_workers st))); [apply O3|]. destruct (Nat.eqb i (length (ps_workers st))); reflexivity.
    - match goal with |- context [upd_w st w ?w' i] => destruct (upd_w_cases st w w' i) as [->|[_ ->]] end; [apply O3|].
      unfold rqis. cbn [wk_rq]. destruct (q_ordered (getq st q)); [reflexivity|].
      destruct (Nat.eqb_spec q j) as [->|]; [|reflexivity]. exfalso. apply (Nd j); reflexivity.
    - rewrite (upd_w_field (rqis j)); [apply O3|reflexivity].
    - destruct (negb (wk_hasjob (getw st i0))); [apply O3|].
      destruct (wk_rq (getw st i0)); match goal with |- context [upd_w st i0 ?w' i] => destruct (upd_w_cases st i0 w' i) as [->|[_ ->]] end;
        first [apply O3|reflexivity].
    - rewrite (upd_w_field (rqis j)); [apply O3|reflexivity].
    - destruct (wk_running (getw st w)); [apply O3|]. rewrite (upd_w_field (rqis j)); [apply O3|reflexivity]. }
  split.
  { intros y. destruct (Nat.eq_dec y t) as [->|Hne].
    - unfold st'. rewrite after_gett_self by exact Ht.
      destruct (w4uis j (t_lab (snd (continue st t l)))) eqn:Ew; [exfalso|reflexivity].
      destruct l eqn:El; cbn [continue] in Ew; unfold caller_next in Ew;
        repeat match type of Ew with
               | context [if ?c then _ else _] => destruct c eqn:?
               | context [match ?x with _ => _ end] => destruct x eqn:?
               end; cbn [snd t_lab pend w4uis dummy_t] in Ew; try discriminate Ew.
      pose proof (O3 i) as H. unfold rqis in H. match goal with H' : wk_rq _ = Some _ |- _ => rewrite H' in H end. congruence.
    - destruct (lab_other y Hne) as [E|[_ [E|[[? E]|[? E]]]]]; rewrite E; try reflexivity. apply O4. }
  intros y. destruct (Nat.eq_dec y t) as [->|Hne].
  - unfold st'. rewrite after_gett_self by exact Ht. split; intros E.
    + destruct (is_next l) eqn:Hn.
      * rewrite (cont_next st t l Hn) in E.
        destruct (lab_next_cases st) as [[_ E']|[(o & r & _ & E')|[(q & r & _ & E')|[(q & r & Hp & E')|(r & _ & E')]]]]; cbv zeta in E'; rewrite E' in E; try discriminate.
        inversion E; subst q. pose proof (e_nofin _ _ IE j O1) as Hnf. rewrite Hp in Hnf. unfold no_finish in Hnf. cbn [forallb] in Hnf.
        rewrite Nat.eqb_refl in Hnf. discriminate.
      * destruct (not_next_lab st t l Hn) as (_ & H & _). exact (H j E).
    + destruct l eqn:El; cont_lab E. inversion E; subst. apply O6. reflexivity.
  - destruct (lab_other y Hne) as [E|[_ [E|[[? E]|[? E]]]]]; rewrite E; try (split; discriminate). apply O5. exact Hne.
Qed.

(* ---------- the counter nthreads ---------- *)
Lemma workers_upd i0 w' : (forall i, getw st' i = upd_w st i0 w' i) -> length (ps_workers st') = length (ps_workers st) ->
  ps_workers st' = upd_nth (ps_workers st) i0 w'.
Proof.
  intros G L. apply (nth_ext _ _ dummy_w dummy_w); [rewrite upd_nth_length; exact L|].
  intros x _. fold (getw st' x). rewrite G. unfold upd_w, getw. rewrite nth_upd_nth. reflexivity.
Qed.

Lemma out1_upd j i0 w' : (forall i, getw st' i = upd_w st i0 w' i) -> length (ps_workers st') = length (ps_workers st) ->
  (out1 st' j + (if Nat.ltb i0 (length (ps_workers st)) then b2n (rqis j (getw st i0)) else 0) =
   out1 st j + (if Nat.ltb i0 (length (ps_workers st)) then b2n (rqis j w') else 0))%nat.
Proof.
  intros G L. unfold out1. rewrite (workers_upd i0 w' G L).
  destruct (Nat.ltb_spec i0 (length (ps_workers st))) as [Hi|Hi].
  - apply (sumf_upd_nth (fun w => b2n (rqis j w)) (ps_workers st) i0 w' dummy_w Hi).
  - rewrite upd_nth_oob by exact Hi. reflexivity.
Qed.

Lemma out1_same j : (forall i, rqis j (getw st' i) = rqis j (getw st i)) -> length (ps_workers st') = length (ps_workers st) ->
  out1 st' j = out1 st j.
Proof.
  intros G L. unfold out1. apply (sumf_pointwise _ _ _ dummy_w L). intros x _. fold (getw st' x) (getw st x). rewrite G. reflexivity.
Qed.

Lemma out2_after j : (out2 st' j + b2n (w4uis j l) = out2 st j + b2n (w4uis j (t_lab (snd (continue st t l)))))%nat.
Proof.
  unfold out2, st'. rewrite after_threads, continue_threads.
  pose proof (sumf_upd_nth (fun th => b2n (w4uis j (t_lab th))) (ps_threads st ++ new_threads st l) t (snd (continue st t l)) dummy_t) as E.
  rewrite app_length in E. specialize (E ltac:(lia)). rewrite app_nth1 in E by exact Ht. fold (gett st t) in E. fold l in E.
  rewrite sumf_app in E.
  assert (Z : sumf (fun th => b2n (w4uis j (t_lab th))) (new_threads st l) = 0%nat).
  { destruct l; cbn [new_threads]; try reflexivity; try (destruct (ps_prog st) as [|[| | |] r]; reflexivity). destruct fresh; reflexivity. }
  cbv beta in E. lia.
Qed.

Lemma pdl_ord o1 o2 l0 j : o1 j = o2 j -> pdl o1 l0 j = pdl o2 l0 j.
Proof. intros H. unfold pdl. destruct l0; try reflexivity; (destruct (Nat.eqb_spec q j) as [->|]; [rewrite H|]; reflexivity). Qed.

Lemma pd_after j : (j < length (ps_queues st))%nat ->
  pd st' j = if Nat.eqb t 0 then pdl (ord_of st) (t_lab (snd (continue st t l))) j else pd st j.
Proof.
  intros Hj. unfold pd. rewrite (pdl_ord (ord_of st') (ord_of st)) by (unfold ord_of, st'; apply after_q_ordered; exact Hj).
  unfold st'. rewrite after_gett by exact Ht. destruct (Nat.eqb_spec 0 t) as [<-|Hne]; [reflexivity|].
  destruct (Nat.eqb_spec t 0); [lia|]. destruct (Nat.ltb_spec 0 (length (ps_threads st))); [reflexivity|lia].
Qed.
Lemma pd_self j : t = 0%nat -> pd st j = pdl (ord_of st) l j.
Proof. intros E. unfold pd, l. rewrite E. reflexivity. Qed.

Lemma count_frame j : (j < length (ps_queues st))%nat ->
  q_nthreads (getq st' j) = q_nthreads (getq st j) -> q_list (getq st' j) = q_list (getq st j) ->
  out1 st' j = out1 st j -> w4uis j l = false -> w4uis j (t_lab (snd (continue st t l))) = false ->
  (t = 0%nat -> pdl (ord_of st) (t_lab (snd (continue st t l))) j = pdl (ord_of st) l j) ->
  count_eq st' j.
Proof.
  intros Hj E1 E2 E3 E4 E5 E6. pose proof (e_count _ _ IE j Hj) as C. pose proof (out2_after j) as R2.
  rewrite E4, E5 in R2. unfold count_eq in *. rewrite E1, E2, E3.
  replace (out2 st' j) with (out2 st j) by (cbn [b2n] in R2; lia).
  replace (pd st' j) with (pd st j); [exact C|].
  rewrite (pd_after j Hj). destruct (Nat.eqb_spec t 0) as [E0|]; [|reflexivity]. rewrite (E6 E0). apply pd_self. exact E0.
Qed.

Lemma out1_app j w0 : ps_workers st' = ps_workers st ++ [w0] -> rqis j w0 = false -> out1 st' j = out1 st j.
Proof. intros E H. unfold out1. rewrite E, sumf_app, sumf_cons, sumf_nil, H. cbn [b2n]. lia. Qed.

Lemma workers_app q i : l = D3 q i true ->
  ps_workers st' = ps_workers st ++ [mkw (length (ps_threads st)) false false 0 None None].
Proof.
  intros El. apply (nth_ext _ _ dummy_w dummy_w).
  - unfold st'. rewrite after_nworkers, El, app_length. cbn [length]. lia.
  - intros x _. fold (getw st' x). unfold st'. rewrite after_getw, El. rewrite nth_app_snoc. reflexivity.
Qed.

Lemma getq_frame j : (j < length (ps_queues st))%nat ->
  match l with D7 _ _ | F1 _ | W4u _ _ | H1 _ => False | _ => True end -> getq st' j = getq st j.
Proof.
  intros Hj Hl. unfold st'. rewrite after_getq. destruct (is_next l) eqn:Hn.
  - destruct (ps_prog st) as [|[ord| | |] r]; try reflexivity. destruct (Nat.ltb_spec j (length (ps_queues st))); [reflexivity|lia].
  - destruct l; try reflexivity; try contradiction.
Qed.

Lemma out1_frame j :
  match l with D3 _ _ true | D5 _ _ | W3 _ => False | _ => True end -> out1 st' j = out1 st j.
Proof.
  intros Hl. apply out1_same.
  - intros i. unfold st'. rewrite after_getw. destruct l; try reflexivity; try contradiction; cbv zeta.
    + destruct fresh; [contradiction|reflexivity].
    + apply (upd_w_field (rqis j)). reflexivity.
    + apply (upd_w_field (rqis j)). reflexivity.
    + destruct (wk_running (getw st w)); [reflexivity|]. apply (upd_w_field (rqis j)). reflexivity.
  - unfold st'. rewrite after_nworkers. destruct l; try reflexivity. destruct fresh; [contradiction|reflexivity].
Qed.

Lemma pd_same j : (j < length (ps_queues st))%nat ->
  (t = 0%nat -> pdl (ord_of st) (t_lab (snd (continue st t l))) j = pdl (ord_of st) l j) -> pd st' j = pd st j.
Proof.
  intros Hj E6. rewrite (pd_after j Hj). destruct (Nat.eqb_spec t 0) as [E0|]; [|reflexivity]. rewrite (E6 E0). symmetry. apply pd_self. exact E0.
Qed.

Ltac Zify.zify_post_hook ::= Z.to_euclidean_division_equations.

Ltac lab_branches :=
  cbn [continue]; unfold caller_next;
  repeat match goal with
         | |- context [if ?c then _ else _] => destruct c
         | |- context [match ?x with _ => _ end] => destruct x
         end; cbn [snd t_lab pend w4uis pdl dummy_t]; try reflexivity.

Lemma codeE_count : forall j, (j < length (ps_queues st'))%nat -> count_eq st' j.
Proof.
  intros j Hj. destruct (Nat.lt_ge_cases j (length (ps_queues st))) as [Hlt|Hge].
  2:{ (* a queue just created *)
      unfold st' in Hj. rewrite after_nqueues in Hj.
      destruct (is_next l) eqn:Hn; [|lia]. destruct (ps_prog st) as [|[ord| | |] r] eqn:Hp; try lia.
      assert (j = length (ps_queues st)) by lia. subst j. clear Hj Hge.
      assert (Et : t = 0%nat) by (apply caller_t0; apply is_next_caller; exact Hn).
      assert (El' : t_lab (snd (continue st t l)) = CNext).
      { rewrite (cont_next st t l Hn). unfold caller_next. rewrite Hp. reflexivity. }
      assert (Eq : getq st' (length (ps_queues st)) = mkq ord (length (ps_threads st)) false 0 []).
      { unfold st'. rewrite after_getq, Hn, Hp. destruct (Nat.ltb_spec (length (ps_queues st)) (length (ps_queues st))); [lia|].
        rewrite Nat.eqb_refl. reflexivity. }
      assert (Ep : pd st' (length (ps_queues st)) = 0%nat).
      { unfold pd. replace (t_lab (gett st' 0)) with CNext; [reflexivity|]. unfold st'. rewrite after_gett by exact Ht. destruct (Nat.eqb_spec 0 t); [symmetry; exact El'|lia]. }
      assert (E1 : out1 st' (length (ps_queues st)) = 0%nat).
      { unfold out1. apply sumf_all_zero. intros w Hin. destruct (In_nth _ _ dummy_w Hin) as (i & Hi & <-). fold (getw st' i).
        replace (getw st' i) with (getw st i) by (unfold st'; rewrite after_getw; destruct l; try discriminate Hn; reflexivity).
        unfold rqis. destruct (wk_rq (getw st i)) as [q|] eqn:Er; [|reflexivity]. pose proof (i2_rq _ I2 i q Er).
        destruct (Nat.eqb_spec q (length (ps_queues st))); [lia|reflexivity]. }
      assert (E2 : out2 st' (length (ps_queues st)) = 0%nat).
      { pose proof (out2_after (length (ps_queues st))) as R2. rewrite El' in R2.
        replace (w4uis (length (ps_queues st)) l) with false in R2 by (destruct l; try discriminate Hn; reflexivity).
        cbn [w4uis b2n] in R2.
        assert (Z : out2 st (length (ps_queues st)) = 0%nat); [|lia].
        unfold out2. apply (sumf_all_zero (fun th => w4uis (length (ps_queues st)) (t_lab th))). intros th Hin.
        destruct (In_nth _ _ dummy_t Hin) as (y & Hy & <-). fold (gett st y).
        destruct (t_lab (gett st y)) eqn:Ey; try reflexivity. cbn [w4uis].
        pose proof (tk_w4u _ _ _ (i2_threads _ I2 y) _ _ Ey). destruct (Nat.eqb_spec q (length (ps_queues st))); [lia|reflexivity]. }
      unfold count_eq. rewrite Eq, Ep, E1, E2. reflexivity. }
  destruct (ex_intro (fun l0 => l = l0) l eq_refl) as [l0 El]. destruct l0.
  all: try (apply (count_frame j Hlt);
            [ rewrite getq_frame by (try exact Hlt; rewrite El; exact I); reflexivity
            | rewrite getq_frame by (try exact Hlt; rewrite El; exact I); reflexivity
            | apply out1_frame; rewrite El; exact I
            | rewrite El; reflexivity
            | rewrite El; lab_branches
            | intros _; rewrite El; lab_branches ]; fail).
  - (* D3 *)
    destruct fresh.
    + apply (count_frame j Hlt).
      * rewrite getq_frame by (try exact Hlt; rewrite El; exact I); reflexivity.
      * rewrite getq_frame by (try exact Hlt; rewrite El; exact I); reflexivity.
      * eapply out1_app; [eapply workers_app; exact El|reflexivity].
      * rewrite El; reflexivity.
      * rewrite El; lab_branches.
      * intros _; rewrite El; lab_branches.
    + apply (count_frame j Hlt).
      * rewrite getq_frame by (try exact Hlt; rewrite El; exact I); reflexivity.
      * rewrite getq_frame by (try exact Hlt; rewrite El; exact I); reflexivity.
      * apply out1_frame; rewrite El; exact I.
      * rewrite El; reflexivity.
      * rewrite El; lab_branches.
      * intros _; rewrite El; lab_branches.
  - (* D5: rq is set, the pending-dispatch flag is raised *)
    assert (Et : t = 0%nat) by (apply caller_t0; rewrite El; reflexivity).
    pose proof (e_count _ _ IE j Hlt) as C. pose proof (out2_after j) as R2. rewrite El in R2. cbn [continue snd t_lab pend w4uis b2n] in R2.
    assert (Hi : (w < length (ps_workers st))%nat).
    { apply (tok_range st t w I2). fold l. rewrite El. cbn. rewrite Nat.eqb_refl. reflexivity. }
    assert (Hf : free_w (getw st w) = true) by (apply (tk_free _ _ _ Tt); fold l; rewrite El; reflexivity).
    destruct (free_fields _ Hf) as (_ & _ & _ & F4).
    pose proof (out1_upd j w (mkw (wk_tid (getw st w)) true true (ps_njobs st) (wk_res (getw st w)) (if q_ordered (getq st q) then None else Some q))) as R1.
    specialize (R1 ltac:(intros i; unfold st'; rewrite after_getw, El; reflexivity) ltac:(unfold st'; rewrite after_nworkers, El; reflexivity)).
    destruct (Nat.ltb_spec w (length (ps_workers st))); [|lia]. unfold rqis at 1 2 in R1. rewrite F4 in R1. cbn [wk_rq b2n] in R1.
    unfold count_eq in *. rewrite getq_frame by (try exact Hlt; rewrite El; exact I).
    rewrite (pd_after j Hlt). destruct (Nat.eqb_spec t 0); [|contradiction]. rewrite El. cbn [continue snd t_lab pend pdl].
    rewrite (pd_self j Et), El in C. cbn [pdl] in C. unfold ord_of.
    destruct (q_ordered (getq st q)); destruct (Nat.eqb q j); cbn [andb negb b2n] in *; unfold two64 in *; lia.
  - (* D7: nthreads++ (and the worker queued, ordered mode); the flag is lowered *)
    assert (Et : t = 0%nat) by (apply caller_t0; rewrite El; reflexivity).
    destruct (tk_dispatch _ _ _ Tt q) as [Dq Df]; [fold l; rewrite El; reflexivity|].
    pose proof (e_count _ _ IE j Hlt) as C. pose proof (out2_after j) as R2. rewrite El in R2.
    assert (R2' : out2 st' j = out2 st j).
    { revert R2. lab_branches; unfold b2n; lia. }
    assert (R1 : out1 st' j = out1 st j) by (apply out1_frame; rewrite El; exact I).
    assert (P' : pd st' j = 0%nat).
    { rewrite (pd_after j Hlt). destruct (Nat.eqb_spec t 0); [|contradiction]. rewrite El. lab_branches. }
    unfold count_eq in *. rewrite P', R1, R2'. rewrite (pd_self j Et), El in C. cbn [pdl] in C. unfold ord_of in C.
    unfold st'. rewrite after_getq, El. cbn [is_next]. cbv zeta. unfold upd_q.
    destruct (Nat.eqb_spec j q) as [->|Hne]; cbn [andb].
    + destruct (Nat.ltb_spec q (length (ps_queues st))); [|lia]. cbn [q_nthreads q_list]. rewrite Nat.eqb_refl in C.
      destruct (q_ordered (getq st q)); cbn [andb negb b2n] in C; rewrite ?app_length; cbn [length]; unfold two64 in *; lia.
    + destruct (Nat.eqb_spec q j); [congruence|]. cbn [andb b2n] in C. exact C.
  - (* F1 *)
    apply (count_frame j Hlt).
    + unfold st'. rewrite after_getq, El. cbn [is_next]. apply (upd_q_field q_nthreads). reflexivity.
    + unfold st'. rewrite after_getq, El. cbn [is_next]. apply (upd_q_field q_list). reflexivity.
    + apply out1_frame; rewrite El; exact I.
    + rewrite El; reflexivity.
    + rewrite El; lab_branches.
    + intros _; rewrite El; lab_branches.
  - (* W3: rq is taken, the worker will queue itself *)
    pose proof (e_count _ _ IE j Hlt) as C. pose proof (out2_after j) as R2. rewrite El in R2.
    assert (Hi : (i < length (ps_workers st))%nat) by (apply (tk_worker _ _ _ Tt); fold l; rewrite El; reflexivity).
    assert (P' : pd st' j = pd st j) by (apply (pd_same j Hlt); intros _; rewrite El; lab_branches).
    unfold count_eq in *. rewrite getq_frame by (try exact Hlt; rewrite El; exact I). rewrite P'.
    cbn [continue] in R2.
    destruct (negb (wk_hasjob (getw st i))) eqn:Ej.
    + cbn [snd t_lab pend w4uis b2n] in R2.
      replace (out1 st' j) with (out1 st j); [replace (out2 st' j) with (out2 st j) by lia; exact C|].
      symmetry. apply out1_same; [|unfold st'; rewrite after_nworkers, El; reflexivity].
      intros i0. unfold st'. rewrite after_getw, El. cbv zeta. rewrite Ej. reflexivity.
    + destruct (wk_rq (getw st i)) as [q0|] eqn:Er.
      * pose proof (out1_upd j i (mkw (wk_tid (getw st i)) false false 0 (Some (wk_job (getw st i))) None)) as R1.
        specialize (R1 ltac:(intros i0; unfold st'; rewrite after_getw, El; cbv zeta; rewrite Ej, Er; reflexivity)
                       ltac:(unfold st'; rewrite after_nworkers, El; reflexivity)).
        destruct (Nat.ltb_spec i (length (ps_workers st))); [|lia]. unfold rqis at 1 2 in R1. rewrite Er in R1. cbn [wk_rq b2n] in R1.
        cbn [snd t_lab pend w4uis b2n] in R2.
        destruct (Nat.eqb q0 j); cbn [b2n] in *; unfold two64 in *; lia.
      * pose proof (out1_upd j i (mkw (wk_tid (getw st i)) (wk_running (getw st i)) false 0 (Some (wk_job (getw st i))) None)) as R1.
        specialize (R1 ltac:(intros i0; unfold st'; rewrite after_getw, El; cbv zeta; rewrite Ej, Er; reflexivity)
                       ltac:(unfold st'; rewrite after_nworkers, El; reflexivity)).
        destruct (Nat.ltb_spec i (length (ps_workers st))); [|lia]. unfold rqis at 1 2 in R1. rewrite Er in R1. cbn [wk_rq b2n] in R1.
        cbn [snd t_lab pend w4uis b2n] in R2.
        replace (out1 st' j) with (out1 st j) by lia. replace (out2 st' j) with (out2 st j) by lia. exact C.
  - (* W4u: the worker is queued *)
    pose proof (e_count _ _ IE j Hlt) as C. pose proof (out2_after j) as R2. rewrite El in R2. cbn [continue snd t_lab pend w4uis b2n] in R2.
    pose proof (tk_w4u _ _ _ Tt i q) as Dq. fold l in Dq. specialize (Dq El).
    assert (R1 : out1 st' j = out1 st j) by (apply out1_frame; rewrite El; exact I).
    assert (P' : pd st' j = pd st j) by (apply (pd_same j Hlt); intros _; rewrite El; lab_branches).
    unfold count_eq in *. rewrite P', R1. set (o2' := out2 st' j) in *.
    unfold st'. rewrite after_getq, El. cbn [is_next]. cbv zeta. unfold upd_q.
    destruct (Nat.eqb_spec j q) as [->|Hne]; cbn [andb].
    + destruct (Nat.ltb_spec q (length (ps_queues st))); [|lia]. cbn [q_nthreads q_list]. rewrite Nat.eqb_refl in R2.
      rewrite app_length. cbn [length b2n] in *. unfold two64 in *. lia.
    + destruct (Nat.eqb_spec q j); [congruence|]. cbn [b2n] in R2. replace o2' with (out2 st j) by lia. exact C.
  - (* H1: a worker is taken off the queue, nthreads-- *)
    pose proof (e_count _ _ IE j Hlt) as C. pose proof (out2_after j) as R2. rewrite El in R2.
    assert (R2' : out2 st' j = out2 st j).
    { revert R2. lab_branches; unfold b2n; lia. }
    assert (R1 : out1 st' j = out1 st j) by (apply out1_frame; rewrite El; exact I).
    assert (P' : pd st' j = pd st j) by (apply (pd_same j Hlt); intros _; rewrite El; lab_branches).
    unfold count_eq in *. rewrite P', R1, R2'.
    unfold st'. rewrite after_getq, El. cbn [is_next]. cbv zeta.
    destruct (q_list (getq st j0)) as [|i0 rest] eqn:Elist; [exact C|]. unfold upd_q.
    destruct (Nat.eqb_spec j j0) as [->|Hne]; cbn [andb]; [|exact C].
    destruct (Nat.ltb_spec j0 (length (ps_queues st))); [|lia]. cbn [q_nthreads q_list]. rewrite Elist in C. cbn [length] in C.
    unfold two64 in *. lia.
Qed.
End CodeE.

Lemma codeE B st t : Inv1 st -> Inv2 st -> InvB st -> InvE B st -> enabled st t = true ->
  t_op (gett st t) <> KWait -> t_op (gett st t) <> KExit -> (N.of_nat B < two64)%N ->
  InvE B (after st t (t_lab (gett st t))).
Proof.
  intros I1 I2 IB IE En Hw He HB. constructor.
  - eapply codeE_hth; eassumption.
  - eapply codeE_dead; eassumption.
  - eapply codeE_f1; eassumption.
  - eapply codeE_nofin; eassumption.
  - eapply codeE_once; eassumption.
  - eapply codeE_d7s; eassumption.
  - eapply codeE_count; eassumption.
  - eapply codeE_bound; eassumption.
Qed.

(* ---------- initial state ---------- *)
Lemma invE_init maxt prog : fin_once prog = true -> InvE (2 * length prog + 1) (pool_init maxt prog).
Proof.
  intros Ho. unfold pool_init, caller_next. cbn [ps_prog].
  destruct prog as [|[ord|q|q|] r]; constructor; unfold qdead, count_eq, pd, out1, out2, delta, gett, getw, getq; cbn;
    try (intros x; destruct x as [|[|x]]; cbn; intros;
         repeat match goal with H : context [match ?v with 0 => _ | S _ => _ end] |- _ => destruct v; cbn in H end;
         try discriminate; try lia); try exact Ho; try lia; try reflexivity.
  all: try (match goal with |- q_finished (match ?v with _ => _ end) = false => destruct v as [|[|?]]; reflexivity end).
  all: cbn [fin_once] in Ho; try (apply andb_prop in Ho; destruct Ho as [Ho1 Ho2]); try assumption.
  - split; [lia|left; reflexivity].
  - match goal with H : _ \/ _ |- _ => destruct H; discriminate end.
  - match goal with H : F1 _ = F1 _ |- _ => inversion H; subst end. split; [destruct j as [|[|?]]; reflexivity|exact Ho1].
Qed.

(* ---------- reachable states ---------- *)
Definition InvBE (B : nat) (st : pstate) : Prop := InvB st /\ InvE B st.

Theorem invBE_reachable maxt prog st stash : prog_wf prog = true -> (N.of_nat (2 * length prog + 1) < two64)%N ->
  reachable maxt prog st stash -> Inv1 st /\ Inv2 st /\ InvBE (2 * length prog + 1) st.
Proof.
  intros Hp HB (s & W & E). set (B := (2 * length prog + 1)%nat) in *.
  assert (Hp' : prog_wf_weak prog = true) by (apply prog_wf_weaken; exact Hp).
  apply (prun_P (InvBE B) false) with (s := s) (st0 := pool_init maxt prog) (stash0 := []) (stash := stash); try assumption.
  - intros a b K [H1 H2]. split; [eapply invB_keq|eapply invE_keq]; eassumption.
  - intros st0 t I1 I2 [IB IE] En Hw He _ _. split; [apply codeB|apply codeE]; assumption.
  - intros st0 t I1 I2 [IB IE] En Hw. split; [apply invB_wait|apply invE_wait]; assumption.
  - intros st0 t I1 I2 [IB IE] En Hw. split; [apply invB_exit|apply invE_exit]; assumption.
  - apply pool_init_inv1.
  - apply pool_init_inv2. exact Hp'.
  - split; [apply invB_init|apply invE_init]. unfold prog_wf in Hp. eapply fin_once_of_full. exact Hp.
  - discriminate.
Qed.
