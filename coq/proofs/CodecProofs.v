From Coq Require Import NArith ZArith List Lia ZifyBool ZifyN ZifyNat.
From Mtbl Require Import gen.Consts model.Bytes model.Codec spec.Leb128 proofs.BytesLemmas.
Local Open Scope N_scope.
Ltac Zify.zify_post_hook ::= Z.div_mod_to_equations.

(* ---------- the LEB128 spec itself ---------------------------------------- *)

Lemma pow2_succ (f : nat) : 2 ^ N.of_nat (S f) = 2 * 2 ^ N.of_nat f.
Proof. rewrite Nat2N.inj_succ, N.pow_succ_r'. reflexivity. Qed.

Lemma leb128_f_irrel : forall f1 f2 v,
  v < 2 ^ N.of_nat f1 -> v < 2 ^ N.of_nat f2 -> leb128_f (S f1) v = leb128_f (S f2) v.
Proof.
  induction f1 as [|f1 IH]; intros f2 v H1 H2.
  - cbn in H1. assert (v = 0) by lia. subst. reflexivity.
  - cbn [leb128_f]. destruct (v <? 128) eqn:E; [reflexivity|].
    destruct f2 as [|f2].
    + cbn in H2. lia.
    + f_equal. rewrite pow2_succ in H1, H2.
      set (p1 := 2 ^ N.of_nat f1) in *. set (p2 := 2 ^ N.of_nat f2) in *.
      apply (IH f2); lia.
Qed.

Lemma leb128_unfold v :
  leb128 v = if v <? 128 then [v] else (v mod 128 + 128) :: leb128 (v / 128).
Proof.
  unfold leb128 at 1. cbn [leb128_f]. destruct (v <? 128) eqn:E; [reflexivity|].
  f_equal. unfold leb128.
  pose proof (N.size_gt v) as Hv. pose proof (N.size_gt (v / 128)) as Hq.
  destruct (N.to_nat (N.size v)) as [|f] eqn:Ef.
  - assert (N.size v = 0) by lia. rewrite H in Hv. cbn in Hv. lia.
  - apply leb128_f_irrel.
    + assert (Hs : N.size v = N.of_nat (S f)) by lia. rewrite Hs, pow2_succ in Hv.
      set (p := 2 ^ N.of_nat f) in *. lia.
    + rewrite N2Nat.id. exact Hq.
Qed.

(* strong induction on v along v -> v / 128 *)
Lemma div128_ind (P : N -> Prop) :
  (forall v, v < 128 -> P v) ->
  (forall v, 128 <= v -> P (v / 128) -> P v) ->
  forall v, P v.
Proof.
  intros Hb Hs v. induction v as [v IH] using (well_founded_induction N.lt_wf_0).
  destruct (N.lt_ge_cases v 128) as [H|H]; [apply Hb, H|].
  apply Hs; [exact H|]. apply IH. lia.
Qed.

Lemma leb128_value v : leb_value (leb128 v) = v.
Proof.
  induction v as [v H|v H IH] using div128_ind; rewrite leb128_unfold.
  - replace (v <? 128) with true by lia. cbn [leb_value]. lia.
  - replace (v <? 128) with false by lia. cbn [leb_value]. rewrite IH. lia.
Qed.

Lemma leb128_wf v : leb_wf (leb128 v).
Proof.
  induction v as [v H|v H IH] using div128_ind; rewrite leb128_unfold.
  - replace (v <? 128) with true by lia. cbn. exact H.
  - replace (v <? 128) with false by lia.
    destruct (leb128 (v / 128)) as [|b tl] eqn:E; [exact (False_ind _ IH)|].
    cbn [leb_wf]. split; [lia|exact IH].
Qed.

Lemma leb128_wf_bytes v : wf_bytes (leb128 v).
Proof.
  induction v as [v H|v H IH] using div128_ind; rewrite leb128_unfold.
  - replace (v <? 128) with true by lia. constructor; [unfold wf_byte; lia|constructor].
  - replace (v <? 128) with false by lia. constructor; [unfold wf_byte; lia|exact IH].
Qed.

Lemma leb128_nonempty v : leb128 v <> [].
Proof. rewrite leb128_unfold. destruct (v <? 128); discriminate. Qed.

(* number of digits: |leb128 v| <= k  <->  v < 128^k  (k >= 1) *)
Lemma leb128_len_bound : forall k v, v < 128 ^ N.of_nat (S k) -> (length (leb128 v) <= S k)%nat.
Proof.
  induction k as [|k IH]; intros v Hv; rewrite leb128_unfold.
  - change (128 ^ N.of_nat 1) with 128 in Hv. replace (v <? 128) with true by lia. cbn. lia.
  - destruct (v <? 128) eqn:E; [cbn; lia|]. cbn [length]. apply le_n_S, IH.
    rewrite Nat2N.inj_succ, N.pow_succ_r' in Hv.
    set (p := 128 ^ N.of_nat (S k)) in *. lia.
Qed.

(* ---------- mtbl_varint_length -------------------------------------------- *)

Lemma varint_length_loop_spec : forall fuel v n,
  v < 2 ^ N.of_nat fuel ->
  varint_length_loop fuel v n = n - 1 + len (leb128 v) \/ n = 0.
Proof.
  unfold VARINT_LEN_BOUND, VARINT_LEN_SHIFT.
  induction fuel as [|f IH]; intros v n Hv.
  - cbn in Hv. assert (v = 0) by lia. subst. cbn. destruct n; [right; reflexivity|left; lia].
  - destruct (N.eq_dec n 0) as [->|Hn]; [right; reflexivity|left].
    cbn [varint_length_loop]. unfold VARINT_LEN_BOUND, VARINT_LEN_SHIFT.
    rewrite leb128_unfold. destruct (128 <=? v) eqn:E.
    + replace (v <? 128) with false by lia. rewrite shiftr7, len_cons.
      rewrite pow2_succ in Hv. set (p := 2 ^ N.of_nat f) in *.
      destruct (IH (v / 128) (n + 1)) as [->|]; [lia| |lia]. lia.
    + replace (v <? 128) with true by lia. unfold len. cbn. lia.
Qed.

Lemma varint_length_spec v : v < 2 ^ 64 -> varint_length v = len (leb128 v).
Proof.
  intros Hv. unfold varint_length.
  destruct (varint_length_loop_spec 64 v 1) as [->|]; [exact Hv| |]; lia.
Qed.

(* ---------- mtbl_varint_length_packed ------------------------------------- *)

Lemma vlp_loop_leb : forall v rest i, vlp_loop (leb128 v ++ rest) i = i + len (leb128 v) - 1.
Proof.
  intros v. induction v as [v H|v H IH] using div128_ind; intros rest i; rewrite leb128_unfold.
  - replace (v <? 128) with true by lia. cbn [app vlp_loop].
    rewrite land128_zero_iff by lia. replace (v <? 128) with true by lia. unfold len. cbn. lia.
  - replace (v <? 128) with false by lia. cbn [app vlp_loop].
    rewrite land128_zero_iff by lia. replace (v mod 128 + 128 <? 128) with false by lia.
    rewrite IH, len_cons. pose proof (leb128_nonempty (v / 128)).
    destruct (leb128 (v / 128)); [congruence|]. rewrite len_cons. lia.
Qed.

Lemma varint_length_packed_leb v rest :
  varint_length_packed (leb128 v ++ rest) = len (leb128 v).
Proof.
  unfold varint_length_packed. rewrite vlp_loop_leb, len_app.
  pose proof (leb128_nonempty v). destruct (leb128 v) eqn:E; [congruence|].
  rewrite len_cons. replace (0 + (len b + 1) - 1 =? len b + 1 + len rest) with false by lia. lia.
Qed.

(* all bytes carry the continuation bit: the count is 0 *)
Lemma vlp_loop_allcont : forall l i, Forall (fun b => 128 <= b < 256) l -> vlp_loop l i = i + len l.
Proof.
  induction l as [|b l IH]; intros i H; cbn [vlp_loop].
  - unfold len; cbn; lia.
  - inversion H as [|? ? Hb Hl]; subst. rewrite land128_zero_iff by lia.
    replace (b <? 128) with false by lia. rewrite IH by exact Hl. rewrite len_cons. lia.
Qed.
Lemma varint_length_packed_allcont l :
  Forall (fun b => 128 <= b < 256) l -> varint_length_packed l = 0.
Proof.
  intros H. unfold varint_length_packed. rewrite vlp_loop_allcont by exact H.
  replace (0 + len l =? len l) with true by lia. reflexivity.
Qed.

(* ---------- mtbl_varint_encode64 ------------------------------------------ *)

Lemma varint_encode64_loop_spec : forall fuel v,
  v < 2 ^ N.of_nat fuel -> varint_encode64_loop fuel v = leb128 v.
Proof.
  induction fuel as [|f IH]; intros v Hv.
  - cbn in Hv. assert (v = 0) by lia. subst. reflexivity.
  - cbn [varint_encode64_loop]. unfold VARINT_B64, VARINT_ENC64_SHIFT.
    rewrite leb128_unfold. destruct (128 <=? v) eqn:E.
    + replace (v <? 128) with false by lia.
      rewrite lor128_u8. change (128 - 1) with 127. rewrite land127, shiftr7.
      rewrite pow2_succ in Hv. set (p := 2 ^ N.of_nat f) in *.
      rewrite IH by lia. f_equal. lia.
    + replace (v <? 128) with true by lia. unfold u8. f_equal. lia.
Qed.

Lemma varint_encode64_spec v : v < 2 ^ 64 -> varint_encode64 v = leb128 v.
Proof.
  intros Hv. unfold varint_encode64, u64. rewrite N.mod_small by exact Hv.
  apply (varint_encode64_loop_spec 64). exact Hv.
Qed.

(* ---------- mtbl_varint_encode32 ------------------------------------------ *)

Lemma enc_byte_cont v sh : enc_byte v (sh, true) = (v / 2 ^ sh) mod 128 + 128.
Proof. unfold enc_byte, VARINT_B. rewrite lor128_u8, shiftr_div. reflexivity. Qed.
Lemma enc_byte_last v sh : v / 2 ^ sh < 128 -> enc_byte v (sh, false) = v / 2 ^ sh.
Proof. intros H. unfold enc_byte, u8. rewrite shiftr_div. apply N.mod_small. lia. Qed.

Lemma varint_encode32_spec v : v < 2 ^ 32 -> varint_encode32 v = leb128 v.
Proof.
  intros Hv. unfold varint_encode32, u32. rewrite N.mod_small by exact Hv.
  unfold VARINT_ENC32_THRESH_BITS, VARINT_ENC32_BRANCHES. cbn [enc32_select].
  change (2 ^ 32) with 4294967296 in Hv.
  change (2 ^ 7) with 128. change (2 ^ 14) with 16384. change (2 ^ 21) with 2097152.
  change (2 ^ 28) with 268435456.
  destruct (v <? 128) eqn:E1.
  { cbn [map]. rewrite enc_byte_last by (change (2 ^ 0) with 1; lia).
    rewrite leb128_unfold, E1. f_equal. change (2 ^ 0) with 1. lia. }
  rewrite leb128_unfold, E1.
  destruct (v <? 16384) eqn:E2.
  { cbn [map]. rewrite enc_byte_cont, enc_byte_last by (change (2 ^ 7) with 128; lia).
    rewrite leb128_unfold. replace (v / 128 <? 128) with true by lia.
    change (2 ^ 0) with 1. change (2 ^ 7) with 128. repeat (f_equal; try lia). }
  replace (v / 128 <? 128) with false by lia.
  rewrite (leb128_unfold (v / 128)). replace (v / 128 <? 128) with false by lia.
  destruct (v <? 2097152) eqn:E3.
  { cbn [map]. rewrite !enc_byte_cont, enc_byte_last by (change (2 ^ 14) with 16384; lia).
    rewrite leb128_unfold. replace (v / 128 / 128 <? 128) with true by lia.
    change (2 ^ 0) with 1. change (2 ^ 7) with 128. change (2 ^ 14) with 16384.
    repeat (f_equal; try lia). }
  rewrite (leb128_unfold (v / 128 / 128)). replace (v / 128 / 128 <? 128) with false by lia.
  destruct (v <? 268435456) eqn:E4.
  { cbn [map]. rewrite !enc_byte_cont, enc_byte_last by (change (2 ^ 21) with 2097152; lia).
    rewrite leb128_unfold. replace (v / 128 / 128 / 128 <? 128) with true by lia.
    change (2 ^ 0) with 1. change (2 ^ 7) with 128. change (2 ^ 14) with 16384.
    change (2 ^ 21) with 2097152.
    repeat (f_equal; try lia). }
  rewrite (leb128_unfold (v / 128 / 128 / 128)). replace (v / 128 / 128 / 128 <? 128) with false by lia.
  cbn [map]. rewrite !enc_byte_cont, enc_byte_last by (change (2 ^ 28) with 268435456; lia).
  rewrite leb128_unfold. replace (v / 128 / 128 / 128 / 128 <? 128) with true by lia.
  change (2 ^ 0) with 1. change (2 ^ 7) with 128. change (2 ^ 14) with 16384.
  change (2 ^ 21) with 2097152. change (2 ^ 28) with 268435456.
  repeat (f_equal; try lia).
Qed.

(* ---------- _varint_decode -------------------------------------------------- *)

Lemma leb128_cons_facts v :
  exists b tl, leb128 v = b :: tl /\ b < 256 /\ b mod 128 = v mod 128 /\
    ((v < 128 /\ b < 128 /\ tl = []) \/ (128 <= v /\ 128 <= b /\ tl = leb128 (v / 128))).
Proof.
  rewrite leb128_unfold. destruct (v <? 128) eqn:E.
  - exists v, []. repeat split; try lia. left. repeat split; lia.
  - exists (v mod 128 + 128), (leb128 (v / 128)). repeat split; try lia. right. repeat split; lia.
Qed.

Lemma varint_decode_loop_leb : forall v fuel max_shift shift val n rest,
  val < 2 ^ shift ->
  v * 2 ^ shift < 2 ^ 64 ->
  7 * (len (leb128 v) - 1) + shift < max_shift ->
  (length (leb128 v) <= fuel)%nat ->
  varint_decode_loop fuel max_shift shift val n (leb128 v ++ rest)
  = Ok (val + v * 2 ^ shift, n + len (leb128 v)).
Proof.
  intros v. induction v as [v Hv|v Hv IH] using div128_ind;
    intros fuel max_shift shift val n rest Hval Hno Hms Hfuel;
    destruct (leb128_cons_facts v) as (b & tl & Eb & Hb & Hbm & Hcase);
    rewrite Eb in *; (destruct fuel as [|fuel]; [cbn in Hfuel; lia|]);
    cbn [app varint_decode_loop]; unfold VARINT_DEC_MASK, VARINT_DEC_CONT, VARINT_DEC_STEP;
    rewrite len_cons in *; (replace (shift <? max_shift) with true by lia);
    rewrite land127, shiftl_mul, land128_zero_iff by exact Hb; rewrite Hbm;
    set (p := 2 ^ shift) in *;
    assert (Hp : 0 < p) by (apply N.neq_0_lt_0, N.pow_nonzero; lia);
    pose proof (N.div_mod v 128 ltac:(lia)) as Hdm;
    set (q := v / 128) in *; set (r := v mod 128) in *;
    assert (Hr : r < 128) by (apply N.mod_lt; lia);
    assert (Hrp : r * p <= 127 * p) by (apply N.mul_le_mono_r; lia);
    assert (Hrv : r * p <= v * p) by (apply N.mul_le_mono_r; lia);
    (assert (Hu : u64 (r * p) = r * p) by (unfold u64; apply N.mod_small; change (2 ^ 64) with 18446744073709551616 in Hno; lia));
    rewrite Hu, (lor_disjoint_add' val r p shift eq_refl Hval).
  - destruct Hcase as [(_ & Hb128 & Htl)|(Hge & _)]; [|lia].
    replace (b <? 128) with true by lia. subst tl.
    replace (len []) with 0 by reflexivity.
    assert (Er : r = v) by (unfold r; apply N.mod_small; lia).
    rewrite Er. repeat (f_equal; try lia).
  - destruct Hcase as [(Hlt & _)|(_ & Hb128 & Htl)]; [lia|].
    replace (b <? 128) with false by lia. subst tl.
    assert (Epow : 2 ^ (shift + 7) = 128 * p) by (rewrite N.pow_add_r; fold p; change (2 ^ 7) with 128; lia).
    assert (Evp : v * p = 128 * (q * p) + r * p).
    { transitivity ((128 * q + r) * p); [f_equal; exact Hdm|lia]. }
    rewrite IH.
    + rewrite Epow, Evp. repeat (f_equal; try lia).
    + rewrite Epow. lia.
    + rewrite Epow. lia.
    + pose proof (leb128_nonempty q) as Hne. fold q in Hms. destruct (leb128 q) eqn:Eq; [congruence|].
      rewrite len_cons in *. lia.
    + fold q in Hfuel. cbn [length] in Hfuel. lia.
Qed.

Lemma leb128_len_le v k : v < 128 ^ N.of_nat (S k) -> len (leb128 v) <= N.of_nat (S k).
Proof. intros H. pose proof (leb128_len_bound k v H). unfold len. lia. Qed.

Lemma varint_decode64_leb v rest :
  v < 2 ^ 64 -> varint_decode64 (leb128 v ++ rest) = Ok (v, len (leb128 v)).
Proof.
  intros Hv. unfold varint_decode64, VARINT_DEC64_MAX_SHIFT.
  pose proof (leb128_len_le v 9) as Hl.
  assert (Hl' : len (leb128 v) <= 10).
  { apply Hl. change (128 ^ N.of_nat 10) with 1180591620717411303424.
    change (2 ^ 64) with 18446744073709551616 in Hv. lia. }
  rewrite varint_decode_loop_leb.
  - change (2 ^ 0) with 1. f_equal. f_equal; lia.
  - change (2 ^ 0) with 1. lia.
  - change (2 ^ 0) with 1. lia.
  - lia.
  - unfold len in Hl'. lia.
Qed.

Lemma varint_decode32_leb v rest :
  v < 2 ^ 35 -> varint_decode32 (leb128 v ++ rest) = Ok (v mod 2 ^ 32, len (leb128 v)).
Proof.
  intros Hv. unfold varint_decode32, VARINT_DEC32_MAX_SHIFT.
  pose proof (leb128_len_le v 4) as Hl.
  assert (Hl' : len (leb128 v) <= 5).
  { apply Hl. change (128 ^ N.of_nat 5) with 34359738368.
    change (2 ^ 35) with 34359738368 in Hv. lia. }
  rewrite varint_decode_loop_leb.
  - change (2 ^ 0) with 1. unfold u32. change (2 ^ 32) with 4294967296. repeat (f_equal; try lia).
  - change (2 ^ 0) with 1. lia.
  - change (2 ^ 0) with 1. change (2 ^ 64) with 18446744073709551616.
    change (2 ^ 35) with 34359738368 in Hv. lia.
  - lia.
  - unfold len in Hl'. lia.
Qed.

(* over-long input: if every byte the loop may look at has the continuation bit,
   the decoder reports (0, 0) *)
Lemma varint_decode_loop_allcont : forall l fuel max_shift shift val n,
  Forall (fun b => 128 <= b < 256) l ->
  max_shift <= shift + 7 * len l ->
  (length l < fuel)%nat ->
  varint_decode_loop fuel max_shift shift val n l = Ok (0, 0).
Proof.
  induction l as [|b l IH]; intros fuel max_shift shift val n Hall Hms Hfuel;
    (destruct fuel as [|fuel]; [cbn in Hfuel; lia|]); cbn [varint_decode_loop].
  - rewrite len_nil in Hms. replace (shift <? max_shift) with false by lia. reflexivity.
  - destruct (shift <? max_shift) eqn:E; [|reflexivity].
    inversion Hall as [|? ? Hb Hl]; subst. unfold VARINT_DEC_CONT, VARINT_DEC_STEP.
    rewrite land128_zero_iff by lia. replace (b <? 128) with false by lia.
    apply IH; [exact Hl| |cbn [length] in Hfuel; lia]. rewrite len_cons in Hms. lia.
Qed.

(* truncated input: the bytes end while the continuation bit is still set and
   the loop has iterations left: the C code would read past the buffer *)
Lemma varint_decode_loop_trunc : forall l fuel max_shift shift val n,
  Forall (fun b => 128 <= b < 256) l ->
  shift + 7 * len l < max_shift ->
  (length l < fuel)%nat ->
  varint_decode_loop fuel max_shift shift val n l = Oob.
Proof.
  induction l as [|b l IH]; intros fuel max_shift shift val n Hall Hms Hfuel;
    (destruct fuel as [|fuel]; [cbn in Hfuel; lia|]); cbn [varint_decode_loop].
  - rewrite len_nil in Hms. replace (shift <? max_shift) with true by lia. reflexivity.
  - rewrite len_cons in Hms. replace (shift <? max_shift) with true by lia.
    inversion Hall as [|? ? Hb Hl]; subst. unfold VARINT_DEC_CONT, VARINT_DEC_STEP.
    rewrite land128_zero_iff by lia. replace (b <? 128) with false by lia.
    apply IH; [exact Hl| |cbn [length] in Hfuel; lia]. lia.
Qed.

(* ---------- fixed.c ---------------------------------------------------------- *)

Lemma le_encode_length n v : length (le_encode n v) = n.
Proof. revert v. induction n as [|n IH]; intros v; cbn; [reflexivity|rewrite IH; reflexivity]. Qed.

Lemma le_encode_wf n v : wf_bytes (le_encode n v).
Proof.
  revert v. induction n as [|n IH]; intros v; cbn; constructor; [|apply IH].
  unfold wf_byte. apply N.mod_lt. lia.
Qed.

Lemma le_encode_value n v : le_value (le_encode n v) = v mod 256 ^ N.of_nat n.
Proof.
  revert v. induction n as [|n IH]; intros v.
  - cbn. rewrite N.mod_1_r. reflexivity.
  - cbn [le_encode le_value]. rewrite IH, Nat2N.inj_succ, N.pow_succ_r'.
    set (p := 256 ^ N.of_nat n). assert (0 < p) by (apply N.neq_0_lt_0, N.pow_nonzero; lia).
    rewrite N.mod_mul_r by lia. reflexivity.
Qed.

Lemma le_decode_encode n v rest : le_decode n (le_encode n v ++ rest) = Some (v mod 256 ^ N.of_nat n).
Proof.
  revert v. induction n as [|n IH]; intros v.
  - cbn. rewrite N.mod_1_r. reflexivity.
  - cbn [le_encode app le_decode]. rewrite IH, Nat2N.inj_succ, N.pow_succ_r'.
    set (p := 256 ^ N.of_nat n). assert (0 < p) by (apply N.neq_0_lt_0, N.pow_nonzero; lia).
    rewrite N.mod_mul_r by lia. reflexivity.
Qed.

Lemma le_decode_value : forall n l, (n <= length l)%nat -> le_decode n l = Some (le_value (firstn n l)).
Proof.
  induction n as [|n IH]; intros l H; [reflexivity|].
  destruct l as [|b l]; [cbn in H; lia|]. cbn [le_decode firstn le_value].
  rewrite IH by (cbn in H; lia). reflexivity.
Qed.

Lemma fixed32_roundtrip v rest : v < 2 ^ 32 -> fixed_decode32 (fixed_encode32 v ++ rest) = Some v.
Proof.
  intros H. unfold fixed_decode32, fixed_encode32, u32. rewrite le_decode_encode.
  change (256 ^ N.of_nat 4) with 4294967296. change (2 ^ 32) with 4294967296 in H.
  f_equal. rewrite !N.mod_small; lia.
Qed.
Lemma fixed64_roundtrip v rest : v < 2 ^ 64 -> fixed_decode64 (fixed_encode64 v ++ rest) = Some v.
Proof.
  intros H. unfold fixed_decode64, fixed_encode64, u64. rewrite le_decode_encode.
  change (256 ^ N.of_nat 8) with 18446744073709551616. change (2 ^ 64) with 18446744073709551616 in H.
  f_equal. rewrite !N.mod_small; lia.
Qed.
Lemma fixed_encode32_le v : v < 2 ^ 32 ->
  length (fixed_encode32 v) = 4%nat /\ le_value (fixed_encode32 v) = v /\ wf_bytes (fixed_encode32 v).
Proof.
  intros H. unfold fixed_encode32, u32. rewrite le_encode_length, le_encode_value.
  change (256 ^ N.of_nat 4) with 4294967296. change (2 ^ 32) with 4294967296 in H.
  repeat split; [rewrite !N.mod_small; lia|apply le_encode_wf].
Qed.
Lemma fixed_encode64_le v : v < 2 ^ 64 ->
  length (fixed_encode64 v) = 8%nat /\ le_value (fixed_encode64 v) = v /\ wf_bytes (fixed_encode64 v).
Proof.
  intros H. unfold fixed_encode64, u64. rewrite le_encode_length, le_encode_value.
  change (256 ^ N.of_nat 8) with 18446744073709551616. change (2 ^ 64) with 18446744073709551616 in H.
  repeat split; [rewrite !N.mod_small; lia|apply le_encode_wf].
Qed.
