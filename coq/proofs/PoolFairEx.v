(* An executable checker for the schedule condition of Tier 5 (sched_fair: every signal wakes a waiter of
   that condition variable when there is one) with its soundness lemma, and a complete concrete run that
   meets every hypothesis of T13d_fair (non-vacuity).  Engine pl evaluates the same checker - extracted -
   on the schedules it observes from the real threadpool.c. *)
From Coq Require Import NArith Arith List Lia Bool.
From Mtbl Require Import model.Bytes model.Pool proofs.PoolBase proofs.PoolSched proofs.PoolInv proofs.PoolLife
  proofs.PoolStep2 proofs.PoolAbort proofs.PoolDelivery proofs.PoolCex proofs.PoolLive proofs.PoolLive1 proofs.PoolLive4.
Import ListNotations.

Definition blocked_on (o : obj) (th : thread) : bool :=
  match t_blocked th with Some o' => obj_eqb o' o | None => false end.

Definition wake_fairb (st : pstate) (t : nat) (wake : option nat) : bool :=
  match t_op (gett st t) with
  | KSignal =>
      match wake with
      | Some u => blocked_on (t_obj (gett st t)) (gett st u)
      | None => forallb (fun th => negb (blocked_on (t_obj (gett st t)) th)) (ps_threads st)
      end
  | _ => true
  end.

Fixpoint sched_fairb (st : pstate) (stash : list (nat * N)) (s : list sched_step) : bool :=
  match s with
  | [] => true
  | SRun t w :: tl => wake_fairb st t w &&
                      match pstep st t w stash with
                      | Some (st', _, _, stash') => sched_fairb st' stash' tl
                      | None => true
                      end
  | SSpurious t :: tl => match pspurious st t with Some st' => sched_fairb st' stash tl | None => true end
  end.

Lemma blocked_on_true o th : blocked_on o th = true <-> t_blocked th = Some o.
Proof.
  unfold blocked_on. destruct (t_blocked th) as [o'|]; [|split; discriminate].
  destruct (obj_eqb_spec o' o) as [->|Hne]; split; intros H; try reflexivity; try discriminate.
  inversion H. contradiction.
Qed.

Lemma wake_fairb_sound st t w : wake_fairb st t w = true -> wake_ok st t w /\ wake_fair st t w.
Proof.
  unfold wake_fairb, wake_ok, wake_fair. intros H.
  destruct (t_op (gett st t)) eqn:Eop; try (split; [destruct w; [intros; discriminate|exact I]|intros; discriminate]).
  destruct w as [u|].
  - apply blocked_on_true in H. split; [intros _ _; rewrite H; discriminate|intros _; exact H].
  - split; [exact I|]. intros _ u Hu.
    destruct (Nat.lt_ge_cases u (length (ps_threads st))) as [Hlt|Hge].
    + rewrite forallb_forall in H. specialize (H (gett st u)).
      assert (Hin : In (gett st u) (ps_threads st)) by (unfold gett; apply nth_In; exact Hlt).
      specialize (H Hin). apply negb_true_iff in H.
      apply blocked_on_true in Hu. congruence.
    + unfold gett in Hu. rewrite nth_overflow in Hu by exact Hge. discriminate.
Qed.

Lemma sched_fairb_sound : forall s st stash, sched_fairb st stash s = true -> sched_fair st stash s.
Proof.
  induction s as [|[t w|t] tl IH]; intros st stash H; cbn [sched_fairb sched_fair] in *; [exact I| |].
  - apply andb_true_iff in H. destruct H as [Hw Hr]. destruct (wake_fairb_sound _ _ _ Hw) as [Ho Hf].
    split; [exact Ho|]. split; [exact Hf|].
    destruct (pstep st t w stash) as [[[[st' ?] ?] stash']|]; [apply IH; exact Hr|exact I].
  - destruct (pspurious st t) as [st'|]; [apply IH; exact H|exact I].
Qed.

Definition terminalb (st : pstate) : bool := forallb (fun t => negb (enabled st t)) (seq 0 (length (ps_threads st))).

(* non-vacuity of T13d_fair: the complete run of PoolCex (2 workers, an ordered and an unordered handler,
   3 jobs, pool destroyed) is a fair schedule of a well-formed program that ends with DestroyPool; its
   last state is terminal, and - as the theorem says - every thread has exited without a failed assert *)
Example full_sched_fairb : sched_fairb (pool_init 2 full_prog) [] full_sched = true.
Proof. vm_compute. reflexivity. Qed.

Example T13d_fair_hypotheses_met :
  (1 <= 2)%N /\ (2 < two64)%N /\ prog_wf full_prog = true /\ has_destroy full_prog = true /\
  sched_fair (pool_init 2 full_prog) [] full_sched /\
  match prun (pool_init 2 full_prog) [] full_sched with
  | Some (st, _) => terminalb st = true /\ forallb t_done (ps_threads st) = true /\ ps_abort st = false
  | None => False
  end.
Proof.
  split; [lia|]. split; [reflexivity|]. split; [reflexivity|]. split; [reflexivity|].
  split; [apply sched_fairb_sound; exact full_sched_fairb|]. vm_compute. repeat split.
Qed.
