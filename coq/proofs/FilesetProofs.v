(* fileset.c / my_fileset.c: no history of setfile changes, file creations and deletions, clock
   advances, reloads (through any handle), dups, iterator opens/closes and destroys ever makes a
   handle build an iterator over a reader that a reload has unloaded.
   Invariant: readers that are loaded and readers that were unloaded are disjoint; a handle whose
   generation stamp equals the shared one has a merger over loaded readers only; every stamp is a
   past reading of the clock, and every clock reading is later than the previous one. *)
From Coq Require Import NArith ZArith List Lia Permutation ZifyBool ZifyN ZifyNat.
From Mtbl Require Import gen.Consts model.Bytes model.Fileset.
Local Open Scope N_scope.
Ltac Zify.zify_post_hook ::= Z.div_mod_to_equations.
Ltac splits := repeat match goal with |- _ /\ _ => split end.

Definition rdr (e : fentry) : list N := match fe_reader e with Some r => [r] | None => [] end.
Definition live_of (l : list fentry) : list N := flat_map rdr l.
Definition live (s : shared) : list N := live_of (sh_entries s).
Definition names_of (l : list fentry) : list fname := map fe_name l.

(* ---- insert_sorted is a permutation of cons ----------------------------------------------------- *)
Lemma insert_sorted_perm e : forall l, Permutation (insert_sorted e l) (e :: l).
Proof.
  induction l as [|x l IH]; [reflexivity|]. cbn [insert_sorted]. destruct (fe_name e <=? fe_name x); [reflexivity|].
  eapply Permutation_trans; [apply perm_skip, IH|]. apply perm_swap.
Qed.
Lemma live_of_perm l l' : Permutation l l' -> Permutation (live_of l) (live_of l').
Proof.
  induction 1 as [|x l l' _ IH|x y l|l l' l'' _ IH1 _ IH2]; cbn [live_of flat_map].
  - constructor.
  - apply Permutation_app_head, IH.
  - rewrite !app_assoc. apply Permutation_app_tail, Permutation_app_comm.
  - eapply Permutation_trans; eassumption.
Qed.
Lemma live_insert e l : Permutation (live_of (insert_sorted e l)) (rdr e ++ live_of l).
Proof. exact (live_of_perm _ _ (insert_sorted_perm e l)). Qed.
Lemma names_insert e l : Permutation (names_of (insert_sorted e l)) (fe_name e :: names_of l).
Proof. exact (Permutation_map fe_name (insert_sorted_perm e l)). Qed.
Lemma in_insert x e l : In x (insert_sorted e l) <-> x = e \/ In x l.
Proof.
  split; intros H.
  - apply (Permutation_in _ (insert_sorted_perm e l)) in H. destruct H as [<-|H]; [left; reflexivity|right; exact H].
  - apply (Permutation_in _ (Permutation_sym (insert_sorted_perm e l))). destruct H as [->|H]; [left; reflexivity|right; exact H].
Qed.

Lemma in_live l r : In r (live_of l) <-> exists e, In e l /\ fe_reader e = Some r.
Proof.
  unfold live_of. rewrite in_flat_map. split.
  - intros (e & He & Hr). exists e. split; [exact He|]. unfold rdr in Hr. destruct (fe_reader e) as [r0|]; [destruct Hr as [<-|[]]; reflexivity|contradiction].
  - intros (e & He & Hr). exists e. split; [exact He|]. unfold rdr. rewrite Hr. left. reflexivity.
Qed.

Lemma NoDup_app_inv {A} : forall (a b : list A), NoDup (a ++ b) -> NoDup a /\ NoDup b /\ (forall x, In x a -> ~ In x b).
Proof.
  induction a as [|x a IH]; intros b H; [splits; [constructor|exact H|intros x []]|].
  cbn [app] in H. inversion H as [|? ? Hni Hnd]; subst. destruct (IH b Hnd) as (Ha & Hb & Hd). splits.
  - constructor; [intros Hin; apply Hni, in_or_app; left; exact Hin|exact Ha].
  - exact Hb.
  - intros y [<-|Hy] Hyb; [apply Hni, in_or_app; right; exact Hyb|exact (Hd y Hy Hyb)].
Qed.
Lemma NoDup_app_intro {A} : forall (a b : list A), NoDup a -> NoDup b -> (forall x, In x a -> ~ In x b) -> NoDup (a ++ b).
Proof.
  induction a as [|x a IH]; intros b Ha Hb Hd; [exact Hb|]. inversion Ha as [|? ? Hni Ha']; subst. cbn [app]. constructor.
  - intros Hin. apply in_app_or in Hin. destruct Hin as [Hin|Hin]; [contradiction|]. exact (Hd x (or_introl eq_refl) Hin).
  - apply IH; [exact Ha'|exact Hb|]. intros y Hy. apply Hd. right. exact Hy.
Qed.

(* two entries of a list with distinct names cannot hold the same reader when the readers are distinct *)
Lemma live_names_inj : forall l e1 e2 r, NoDup (live_of l) -> In e1 l -> In e2 l ->
  fe_reader e1 = Some r -> fe_reader e2 = Some r -> fe_name e1 <> fe_name e2 -> False.
Proof.
  induction l as [|x l IH]; intros e1 e2 r Hnd H1 H2 R1 R2 Hne; [contradiction|].
  cbn [live_of flat_map] in Hnd. fold (live_of l) in Hnd. destruct (NoDup_app_inv _ _ Hnd) as (_ & Hnd' & _).
  assert (Hx : forall e, In e l -> fe_reader e = Some r -> fe_reader x = Some r -> False).
  { intros e He Re Rx. unfold rdr in Hnd. rewrite Rx in Hnd. cbn [app] in Hnd. inversion Hnd as [|? ? Hni _]; subst.
    apply Hni. apply in_live. exists e. split; assumption. }
  destruct H1 as [->|H1], H2 as [->|H2].
  - congruence.
  - exact (Hx e2 H2 R2 R1).
  - exact (Hx e1 H1 R1 R2).
  - exact (IH e1 e2 r Hnd' H1 H2 R1 R2 Hne).
Qed.

Lemma NoDup_names_eq : forall l a b, NoDup (names_of l) -> In a l -> In b l -> fe_name a = fe_name b -> a = b.
Proof.
  induction l as [|x l IH]; intros a b Hnd Ha Hb E; [contradiction|]. cbn [names_of map] in Hnd. inversion Hnd as [|? ? Hni Hnd']; subst.
  destruct Ha as [->|Ha], Hb as [->|Hb].
  - reflexivity.
  - exfalso. apply Hni. rewrite E. apply in_map, Hb.
  - exfalso. apply Hni. rewrite <- E. apply in_map, Ha.
  - apply IH; assumption.
Qed.

(* ---- my_fileset_reload --------------------------------------------------------------------------- *)
Notation racc := (list fentry * N * N * list fname)%type.
Definition rstep (w : world) (old : list fentry) (acc : racc) (line : fname) : racc :=
  let '(ents, next, loaded, kept) := acc in
  match lookup_file w line with
  | None => acc
  | Some k =>
    match find (fun e => fe_name e =? line) old with
    | Some e => (insert_sorted (mkfe line (fe_reader e) (fe_table e)) ents, next, loaded, line :: kept)
    | None =>
      match k with
      | FTable t => (insert_sorted (mkfe line (Some next) t) ents, next + 1, loaded + 1, kept)
      | FNotTable => (insert_sorted (mkfe line None 0) ents, next, loaded + 1, kept)
      end
    end
  end.

Section Reload.
Variable w : world.
Variable old : list fentry.
Variable next0 : N.
Hypothesis Hold_names : NoDup (names_of old).
Hypothesis Hold_live : NoDup (live_of old).
Hypothesis Hold_lt : forall r, In r (live_of old) -> r < next0.

Definition J (P : list fname) (acc : racc) : Prop :=
  let '(ents, next, loaded, kept) := acc in
  next0 <= next /\
  (forall e, In e ents -> In (fe_name e) P) /\
  NoDup (names_of ents) /\
  (forall n, In n kept -> In n P /\ exists e0, In e0 old /\ fe_name e0 = n) /\
  (forall e r, In e ents -> fe_reader e = Some r ->
     (exists e0, In e0 old /\ fe_name e0 = fe_name e /\ fe_reader e0 = Some r /\ In (fe_name e) kept) \/ (next0 <= r < next)) /\
  NoDup (live_of ents) /\
  (forall e0, In e0 old -> In (fe_name e0) kept -> exists e, In e ents /\ fe_name e = fe_name e0 /\ fe_reader e = fe_reader e0) /\
  (loaded = 0 -> next = next0).

Lemma J_step P acc line : J P acc -> ~ In line P -> J (P ++ [line]) (rstep w old acc line).
Proof.
  destruct acc as [[[ents next] loaded] kept]. intros (J1 & J2 & J2' & J3 & J4 & J5 & J6 & J7) Hni.
  assert (HP : forall n, In n P -> In n (P ++ [line])) by (intros n Hn; apply in_or_app; left; exact Hn).
  assert (Hl : In line (P ++ [line])) by (apply in_or_app; right; left; reflexivity).
  assert (Hfresh_name : ~ In line (names_of ents)).
  { intros Hin. apply in_map_iff in Hin. destruct Hin as (e & <- & He). apply Hni, J2, He. }
  unfold rstep. destruct (lookup_file w line) as [k|].
  2:{ unfold J. splits; try assumption.
      - intros e He. apply HP, J2, He.
      - intros n Hn. destruct (J3 n Hn) as [H1 H2]. split; [apply HP, H1|exact H2]. }
  destruct (find (fun e => fe_name e =? line) old) as [e0|] eqn:Ef.
  - (* the file is already loaded: the reader is carried over *)
    apply find_some in Ef. destruct Ef as [He0 Hn0]. apply N.eqb_eq in Hn0.
    set (ne := mkfe line (fe_reader e0) (fe_table e0)).
    unfold J. splits.
    + exact J1.
    + intros e He. apply in_insert in He. destruct He as [->|He]; [exact Hl|apply HP, J2, He].
    + eapply Permutation_NoDup; [apply Permutation_sym, names_insert|]. cbn [fe_name ne]. constructor; assumption.
    + intros n [<-|Hn]; [split; [exact Hl|exists e0; split; assumption]|]. destruct (J3 n Hn) as [H1 H2]. split; [apply HP, H1|exact H2].
    + intros e r He Hr. apply in_insert in He. destruct He as [->|He].
      * left. exists e0. cbn [fe_name fe_reader ne] in *. splits; try assumption. left. reflexivity.
      * destruct (J4 e r He Hr) as [(e1 & H1 & H2 & H3 & H4)|Hf]; [left; exists e1; splits; try assumption; right; exact H4|right; exact Hf].
    + eapply Permutation_NoDup; [apply Permutation_sym, live_insert|]. unfold rdr. cbn [fe_reader ne].
      destruct (fe_reader e0) as [r|] eqn:Er; [|exact J5]. cbn [app]. constructor; [|exact J5].
      intros Hin. apply in_live in Hin. destruct Hin as (e & He & Hr).
      destruct (J4 e r He Hr) as [(e1 & H1 & H2 & H3 & H4)|Hf].
      * apply (live_names_inj old e0 e1 r Hold_live He0 H1 Er H3). rewrite Hn0, H2. intros E. apply Hni. rewrite E. apply J2, He.
      * assert (r < next0) by (apply Hold_lt, in_live; exists e0; split; assumption). lia.
    + intros e1 He1 Hk. destruct Hk as [Hk|Hk].
      * assert (e1 = e0) by (apply (NoDup_names_eq old); try assumption; congruence). subst e1.
        exists ne. splits; [apply in_insert; left; reflexivity|cbn; congruence|reflexivity].
      * destruct (J6 e1 He1 Hk) as (e & He & H1 & H2). exists e. splits; try assumption. apply in_insert. right. exact He.
    + exact J7.
  - destruct k as [t|].
    + (* a new table: a fresh reader *)
      set (ne := mkfe line (Some next) t). unfold J. splits.
      * lia.
      * intros e He. apply in_insert in He. destruct He as [->|He]; [exact Hl|apply HP, J2, He].
      * eapply Permutation_NoDup; [apply Permutation_sym, names_insert|]. cbn [fe_name ne]. constructor; assumption.
      * intros n Hn. destruct (J3 n Hn) as [H1 H2]. split; [apply HP, H1|exact H2].
      * intros e r He Hr. apply in_insert in He. destruct He as [->|He].
        -- right. cbn [fe_reader ne] in Hr. inversion Hr; subst. lia.
        -- destruct (J4 e r He Hr) as [Hl'|Hf]; [left; exact Hl'|right; lia].
      * eapply Permutation_NoDup; [apply Permutation_sym, live_insert|]. unfold rdr. cbn [fe_reader ne app]. constructor; [|exact J5].
        intros Hin. apply in_live in Hin. destruct Hin as (e & He & Hr).
        destruct (J4 e next He Hr) as [(e1 & H1 & H2 & H3 & H4)|Hf]; [|lia].
        assert (next < next0) by (apply Hold_lt, in_live; exists e1; split; assumption). lia.
      * intros e1 He1 Hk. destruct (J6 e1 He1 Hk) as (e & He & H1 & H2). exists e. splits; try assumption. apply in_insert. right. exact He.
      * lia.
    + (* a file that is not a table: an entry without a reader *)
      set (ne := mkfe line None 0). unfold J. splits.
      * exact J1.
      * intros e He. apply in_insert in He. destruct He as [->|He]; [exact Hl|apply HP, J2, He].
      * eapply Permutation_NoDup; [apply Permutation_sym, names_insert|]. cbn [fe_name ne]. constructor; assumption.
      * intros n Hn. destruct (J3 n Hn) as [H1 H2]. split; [apply HP, H1|exact H2].
      * intros e r He Hr. apply in_insert in He. destruct He as [->|He]; [discriminate|exact (J4 e r He Hr)].
      * eapply Permutation_NoDup; [apply Permutation_sym, live_insert|]. exact J5.
      * intros e1 He1 Hk. destruct (J6 e1 He1 Hk) as (e & He & H1 & H2). exists e. splits; try assumption. apply in_insert. right. exact He.
      * lia.
Qed.

Lemma J_fold : forall lines P acc, J P acc -> NoDup (P ++ lines) -> J (P ++ lines) (fold_left (rstep w old) lines acc).
Proof.
  induction lines as [|line lines IH]; intros P acc HJ Hnd; [rewrite app_nil_r; exact HJ|].
  cbn [fold_left]. replace (P ++ line :: lines) with ((P ++ [line]) ++ lines) in * by (rewrite <- app_assoc; reflexivity).
  apply IH; [|exact Hnd]. apply J_step; [exact HJ|].
  rewrite <- app_assoc in Hnd. cbn [app] in Hnd. apply NoDup_remove_2 in Hnd. intros Hin. apply Hnd, in_or_app. left. exact Hin.
Qed.
End Reload.

Lemma dead_fold : forall (dropped : list fentry) dead r,
  In r (fold_left (fun d e => match fe_reader e with Some r => r :: d | None => d end) dropped dead) <->
  In r dead \/ exists e, In e dropped /\ fe_reader e = Some r.
Proof.
  induction dropped as [|x l IH]; intros dead r; cbn [fold_left].
  - split; [intros H; left; exact H|intros [H|(e & [] & _)]; exact H].
  - rewrite IH. split.
    + intros [H|(e & He & Hr)].
      * destruct (fe_reader x) as [rx|] eqn:Ex; [destruct H as [<-|H]; [right; exists x; split; [left; reflexivity|exact Ex]|left; exact H]|left; exact H].
      * right. exists e. split; [right; exact He|exact Hr].
    + intros [H|(e & [<-|He] & Hr)].
      * left. destruct (fe_reader x); [right; exact H|exact H].
      * left. rewrite Hr. left. reflexivity.
      * right. exists e. split; assumption.
Qed.

Record sinv (s : shared) : Prop := {
  si_names : NoDup (names_of (sh_entries s));
  si_live : NoDup (live s);
  si_live_lt : forall r, In r (live s) -> r < sh_next_reader s;
  si_dead_lt : forall r, In r (sh_dead s) -> r < sh_next_reader s;
  si_disj : forall r, In r (live s) -> ~ In r (sh_dead s);
}.

Lemma reload_sinv w s : sinv s -> NoDup (w_set_lines w) ->
  let '(s1, loaded, unloaded) := my_fileset_reload w s in
  sinv s1 /\
  sh_n_iters s1 = sh_n_iters s /\ sh_reload_needed s1 = sh_reload_needed s /\ sh_last_sec s1 = sh_last_sec s /\ sh_last_nsec s1 = sh_last_nsec s /\
  (loaded = 0 -> unloaded = 0 -> forall r, In r (live s) -> In r (live s1)).
Proof.
  intros [Hn Hl Hlt Hdlt Hdisj] Hlines. unfold my_fileset_reload.
  destruct ((sh_last_ino s =? w_set_ino w) && (sh_last_mtime s =? w_set_mtime w)).
  { splits; try reflexivity; [constructor; assumption|intros _ _ r Hr; exact Hr]. }
  cbv zeta.
  match goal with |- context [fold_left ?f (w_set_lines w) ?a] => change f with (rstep w (sh_entries s)) end.
  assert (HJ0 : J (sh_entries s) (sh_next_reader s) [] ([], sh_next_reader s, 0, [])).
  { unfold J. splits; try (intros; contradiction); try constructor; try lia; try (intros _; reflexivity). }
  match goal with |- context [fold_left (rstep w (sh_entries s)) ?l ?a] => set (res := fold_left (rstep w (sh_entries s)) l a) end.
  assert (HJ : J (sh_entries s) (sh_next_reader s) (w_set_lines w) res)
    by exact (J_fold w (sh_entries s) (sh_next_reader s) Hn Hl Hlt (w_set_lines w) [] _ HJ0 Hlines).
  clearbody res. destruct res as [[[ents next] loaded] kept].
  destruct HJ as (J1 & J2 & J2' & J3 & J4 & J5 & J6 & J7).
  set (dropped := filter (fun e => negb (existsb (fun n => n =? fe_name e) kept)) (sh_entries s)).
  assert (Hdrop : forall e, In e dropped <-> In e (sh_entries s) /\ ~ In (fe_name e) kept).
  { intros e. unfold dropped. rewrite filter_In. split; intros [H1 H2]; (split; [exact H1|]).
    - intros Hk. apply Bool.negb_true_iff in H2. assert (existsb (fun n => n =? fe_name e) kept = true) by (apply existsb_exists; exists (fe_name e); split; [exact Hk|apply N.eqb_refl]). congruence.
    - apply Bool.negb_true_iff. destruct (existsb (fun n => n =? fe_name e) kept) eqn:E; [|reflexivity]. exfalso. apply existsb_exists in E. destruct E as (n & Hn' & En). apply N.eqb_eq in En. subst n. exact (H2 Hn'). }
  fold dropped. cbv iota beta. unfold live. cbn [sh_entries sh_next_reader sh_dead sh_n_iters sh_reload_needed sh_last_sec sh_last_nsec].
  splits; try reflexivity.
  - constructor; unfold live; cbn [sh_entries sh_next_reader sh_dead].
    + exact J2'.
    + exact J5.
    + intros r Hr. apply in_live in Hr. destruct Hr as (e & He & Hr). destruct (J4 e r He Hr) as [(e0 & H1 & _ & H3 & _)|Hf]; [|lia].
      assert (r < sh_next_reader s) by (apply Hlt, in_live; exists e0; split; assumption). lia.
    + intros r Hr. apply dead_fold in Hr. destruct Hr as [Hr|(e & He & Hr)].
      * specialize (Hdlt r Hr). lia.
      * apply Hdrop in He. assert (r < sh_next_reader s) by (apply Hlt, in_live; exists e; split; [exact (proj1 He)|exact Hr]). lia.
    + intros r Hr Hd. apply in_live in Hr. destruct Hr as (e & He & Hr). apply dead_fold in Hd.
      destruct (J4 e r He Hr) as [(e0 & H1 & H2 & H3 & H4)|Hf].
      * destruct Hd as [Hd|(d & Hd & Hrd)].
        -- apply (Hdisj r); [apply in_live; exists e0; split; assumption|exact Hd].
        -- apply Hdrop in Hd. destruct Hd as [Hd1 Hd2].
           apply (live_names_inj (sh_entries s) e0 d r Hl H1 Hd1 H3 Hrd). intros E. apply Hd2. rewrite <- E, H2. exact H4.
      * destruct Hd as [Hd|(d & Hd & Hrd)].
        -- specialize (Hdlt r Hd). lia.
        -- apply Hdrop in Hd. assert (r < sh_next_reader s) by (apply Hlt, in_live; exists d; split; [exact (proj1 Hd)|exact Hrd]). lia.
  - intros Hl0 Hu0 r Hr. apply in_live in Hr. destruct Hr as (e0 & He0 & Hr0).
    assert (Hdn : dropped = []) by (destruct dropped; [reflexivity|cbn in Hu0; lia]).
    assert (Hk : In (fe_name e0) kept).
    { destruct (in_dec N.eq_dec (fe_name e0) kept) as [H|H]; [exact H|]. exfalso.
      assert (In e0 dropped) by (apply Hdrop; split; assumption). rewrite Hdn in H0. contradiction. }
    destruct (J6 e0 He0 Hk) as (e & He & _ & Hre). apply in_live. exists e. split; [exact He|congruence].
Qed.

(* ---- stamps and handles ---------------------------------------------------------------------------- *)
Definition T (w : world) : N := w_sec w * 1000000000 + w_nsec w.
Definition stS (s : shared) : N := sh_last_sec s * 1000000000 + sh_last_nsec s.
Definition stH (h : handle) : N := h_last_sec h * 1000000000 + h_last_nsec h.
Definition in_sync (s : shared) (h : handle) : Prop := h_last_sec h = sh_last_sec s /\ h_last_nsec h = sh_last_nsec s.
Definition hok (w : world) (s : shared) (h : handle) : Prop :=
  stH h <= T w /\ (in_sync s h -> forall p, In p (h_merger h) -> In (fst p) (live s)).

Lemma tick_T w : T (tick w) = T w + 1.
Proof. unfold T, tick. cbn [w_sec w_nsec]. lia. Qed.
Lemma tick_lines w : w_set_lines (tick w) = w_set_lines w.
Proof. reflexivity. Qed.

Lemma reinit_sub s h : forall p, In p (reinit_merger s h) -> In (fst p) (live s).
Proof.
  unfold reinit_merger, live. induction (sh_entries s) as [|e l IH]; intros p Hp; [contradiction|].
  cbn [fold_right] in Hp. cbn [live_of flat_map]. fold (live_of l). apply in_or_app. unfold rdr at 1.
  destruct (fe_reader e) as [r|]; [|right; apply IH, Hp].
  match type of Hp with In _ (if ?c then _ else _) => destruct c end.
  - destruct Hp as [<-|Hp]; [left; left; reflexivity|right; apply IH, Hp].
  - right. apply IH, Hp.
Qed.

Lemma hok_dummy w s : hok w s dummy_handle.
Proof. unfold hok, stH, dummy_handle. cbn. split; [lia|intros _ p []]. Qed.

Lemma sync_ok w s h : stS s <= T w -> hok w s h -> hok w s (sync_handle s h) /\ in_sync s (sync_handle s h).
Proof.
  intros Hs [H1 H2]. unfold sync_handle.
  destruct ((h_last_sec h =? sh_last_sec s) && (h_last_nsec h =? sh_last_nsec s)) eqn:E.
  - assert (Hin : in_sync s h) by (unfold in_sync; lia). split; [split; [exact H1|exact H2]|exact Hin].
  - split; [|split; reflexivity]. unfold hok, set_merger, stH, in_sync. cbn [h_last_sec h_last_nsec h_merger].
    split; [exact Hs|]. intros _ p Hp. apply reinit_sub in Hp. exact Hp.
Qed.

Lemma sinv_ext s s' : sinv s -> sh_entries s' = sh_entries s -> sh_next_reader s' = sh_next_reader s -> sh_dead s' = sh_dead s -> sinv s'.
Proof.
  intros [H1 H2 H3 H4 H5] E1 E2 E3. constructor; unfold live in *; rewrite ?E1, ?E2, ?E3; assumption.
Qed.

(* do_reload through a handle that is in sync *)
Lemma do_reload_ok w1 s h0 : sinv s -> NoDup (w_set_lines w1) -> in_sync s h0 ->
  (forall p, In p (h_merger h0) -> In (fst p) (live s)) ->
  let '(s', h') := do_reload w1 s h0 in
  sinv s' /\ stS s' = T w1 /\ stH h' = T w1 /\ in_sync s' h' /\ (forall p, In p (h_merger h') -> In (fst p) (live s')).
Proof.
  intros Hs Hl Hsync Hm. unfold do_reload. pose proof (reload_sinv w1 s Hs Hl) as Hr.
  destruct (my_fileset_reload w1 s) as [[s1 loaded] unloaded]. destruct Hr as (Hs1 & _ & _ & _ & _ & Hkeep).
  cbn zeta. unfold set_merger, stS, stH, T, in_sync, live. cbn [sh_last_sec sh_last_nsec h_last_sec h_last_nsec h_merger sh_entries].
  splits; try reflexivity.
  - eapply sinv_ext; [exact Hs1| | |]; reflexivity.
  - intros p Hp. destruct ((0 <? loaded) || (0 <? unloaded)) eqn:E; cbn [h_merger] in Hp.
    + apply reinit_sub in Hp. exact Hp.
    + assert (loaded = 0 /\ unloaded = 0) as [-> ->] by lia. apply (Hkeep eq_refl eq_refl), Hm, Hp.
Qed.

Lemma hok_other_after_reload w w1 s s' h : T w < T w1 -> stS s' = T w1 -> hok w s h -> hok w1 s' h.
Proof.
  intros Ht Hst [H1 _]. split; [lia|]. intros [E1 E2]. exfalso. unfold stH, stS in *. rewrite E1, E2 in H1. lia.
Qed.
Lemma hok_time w w' s h : T w <= T w' -> hok w s h -> hok w' s h.
Proof. intros Ht [H1 H2]. split; [lia|exact H2]. Qed.
Lemma hok_ext w s s' h : sh_entries s' = sh_entries s -> sh_last_sec s' = sh_last_sec s -> sh_last_nsec s' = sh_last_nsec s -> hok w s h -> hok w s' h.
Proof. intros E1 E2 E3 [H1 H2]. split; [exact H1|]. unfold in_sync, live in *. rewrite E1, E2, E3. exact H2. Qed.

(* what a reload call (either kind) guarantees for the calling handle and for every other handle *)
Definition reload_post (w : world) (s : shared) (others : list handle) (res : world * shared * handle) : Prop :=
  let '(w', s', h') := res in
  sinv s' /\ stS s' <= T w' /\ T w <= T w' /\ w_set_lines w' = w_set_lines w /\
  hok w' s' h' /\ in_sync s' h' /\ Forall (hok w' s') others.

Lemma fileset_reload_ok w s h others : sinv s -> stS s <= T w -> NoDup (w_set_lines w) -> hok w s h -> Forall (hok w s) others ->
  reload_post w s others (fileset_reload w s h).
Proof.
  intros Hs Hst Hl Hh Ho. destruct (sync_ok w s h Hst Hh) as [Hh0 Hsync]. unfold fileset_reload. set (h0 := sync_handle s h) in *.
  destruct (negb (sh_reload_needed s) && (h_interval h0 =? FILESET_RELOAD_INTERVAL_NEVER)); [unfold reload_post; splits; try assumption; try reflexivity; lia|].
  destruct (0 <? sh_n_iters s); [unfold reload_post; splits; try assumption; try reflexivity; lia|].
  pose proof (tick_T w) as Ht.
  destruct (sh_reload_needed s || (h_interval h0 <? w_sec (tick w) - sh_last_sec s)).
  - pose proof (do_reload_ok (tick w) s h0 Hs Hl Hsync (proj2 Hh0 Hsync)) as Hr.
    destruct (do_reload (tick w) s h0) as [s' h']. destruct Hr as (Hs' & Hst' & Hsh' & Hsync' & Hm').
    unfold reload_post. splits; try assumption; try reflexivity; try lia.
    + split; [lia|intros _; exact Hm'].
    + eapply Forall_impl; [|exact Ho]. intros x Hx. eapply hok_other_after_reload; [|exact Hst'|exact Hx]. lia.
  - unfold reload_post. splits; try assumption; try reflexivity; try lia.
    + apply (hok_time w); [lia|exact Hh0].
    + eapply Forall_impl; [|exact Ho]. intros x Hx. apply (hok_time w); [lia|exact Hx].
Qed.

Lemma fileset_reload_now_ok w s h others : sinv s -> stS s <= T w -> NoDup (w_set_lines w) -> hok w s h -> Forall (hok w s) others ->
  reload_post w s others (fileset_reload_now w s h).
Proof.
  intros Hs Hst Hl Hh Ho. destruct (sync_ok w s h Hst Hh) as [Hh0 Hsync]. unfold fileset_reload_now. set (h0 := sync_handle s h) in *.
  destruct (0 <? sh_n_iters s).
  - unfold reload_post. splits; try reflexivity; try lia.
    + eapply sinv_ext; [exact Hs| | |]; reflexivity.
    + exact Hst.
    + eapply hok_ext; [| | |exact Hh0]; reflexivity.
    + exact Hsync.
    + eapply Forall_impl; [|exact Ho]. intros x Hx. eapply hok_ext; [| | |exact Hx]; reflexivity.
  - pose proof (tick_T w) as Ht.
    pose proof (do_reload_ok (tick w) s h0 Hs Hl Hsync (proj2 Hh0 Hsync)) as Hr.
    destruct (do_reload (tick w) s h0) as [s' h']. destruct Hr as (Hs' & Hst' & Hsh' & Hsync' & Hm').
    unfold reload_post. splits; try assumption; try reflexivity; try lia.
    + split; [lia|intros _; exact Hm'].
    + eapply Forall_impl; [|exact Ho]. intros x Hx. eapply hok_other_after_reload; [|exact Hst'|exact Hx]. lia.
Qed.

(* ---- the state machine ------------------------------------------------------------------------------ *)
Definition finv (st : fstate) : Prop :=
  sinv (fs_shared st) /\ stS (fs_shared st) <= T (fs_world st) /\ NoDup (w_set_lines (fs_world st)) /\
  Forall (hok (fs_world st) (fs_shared st)) (fs_handles st).

Lemma Forall_upd {A} (P : A -> Prop) : forall l i x, Forall P l -> P x -> Forall P (upd l i x).
Proof.
  intros l i x Hl Hx. unfold upd. rewrite <- (firstn_skipn i l) in Hl. apply Forall_app in Hl. destruct Hl as [H1 H2].
  apply Forall_app. split; [exact H1|]. destruct (skipn i l) as [|y tl]; [constructor|].
  inversion H2; subst. constructor; assumption.
Qed.

Lemma hok_nth w s l i : Forall (hok w s) l -> hok w s (nth i l dummy_handle).
Proof.
  intros H. destruct (Nat.lt_ge_cases i (length l)) as [Hi|Hi]; [rewrite Forall_forall in H; apply H, nth_In, Hi|].
  rewrite nth_overflow by exact Hi. apply hok_dummy.
Qed.

Lemma no_uaf s h : sinv s -> in_sync s h -> (in_sync s h -> forall p, In p (h_merger h) -> In (fst p) (live s)) ->
  existsb (fun p => existsb (fun d => d =? fst p) (sh_dead s)) (h_merger h) = false.
Proof.
  intros Hs Hsync Hm. destruct (existsb _ (h_merger h)) eqn:E; [|reflexivity]. exfalso.
  apply existsb_exists in E. destruct E as (p & Hp & Hd). apply existsb_exists in Hd. destruct Hd as (d & Hd & Ed).
  apply N.eqb_eq in Ed. subst d. exact (si_disj s Hs (fst p) (Hm Hsync p Hp) Hd).
Qed.

Lemma reload_post_finv w s hs i res iters : reload_post w s hs res ->
  NoDup (w_set_lines w) ->
  let '(w', s', h') := res in finv (mkfs w' s' (upd hs i h') iters).
Proof.
  destruct res as [[w' s'] h']. intros (Hs & Hst & _ & Hl & Hh & _ & Ho) Hnd. unfold finv. cbn [fs_world fs_shared fs_handles].
  splits; try assumption; [rewrite Hl; exact Hnd|apply Forall_upd; assumption].
Qed.

Theorem fstep_inv st op : finv st -> (forall lines, op = OpSetFile lines -> NoDup lines) ->
  finv (fst (fstep st op)) /\ snd (fstep st op) <> OutUAF.
Proof.
  intros (Hs & Hst & Hl & Hh) Hop. destruct st as [w s hs its]. cbn [fs_world fs_shared fs_handles fs_iters] in *.
  destruct op as [lines|n k|n|ds dn|hi|hi|hi|ii|hi interval nf rf|hi]; cbn [fstep fs_world fs_shared fs_handles fs_iters].
  - (* setfile *) split; [|discriminate]. unfold finv. cbn [fst fs_world fs_shared fs_handles w_set_lines].
    split; [exact Hs|]. split; [exact Hst|]. split; [exact (Hop lines eq_refl)|].
    eapply Forall_impl; [|exact Hh]. intros h Hx. exact Hx.
  - split; [|discriminate]. unfold finv. cbn [fst fs_world fs_shared fs_handles w_set_lines].
    split; [exact Hs|]. split; [exact Hst|]. split; [exact Hl|]. eapply Forall_impl; [|exact Hh]. intros h Hx. exact Hx.
  - split; [|discriminate]. unfold finv. cbn [fst fs_world fs_shared fs_handles w_set_lines].
    split; [exact Hs|]. split; [exact Hst|]. split; [exact Hl|]. eapply Forall_impl; [|exact Hh]. intros h Hx. exact Hx.
  - (* the clock advances *)
    split; [|discriminate]. unfold finv. cbn [fst fs_world fs_shared fs_handles w_set_lines].
    assert (Ht : T w <= T (mkworld (w_set_ino w) (w_set_mtime w) (w_set_lines w) (w_files w) (w_sec w + ds + (w_nsec w + dn) / 1000000000) ((w_nsec w + dn) mod 1000000000)))
      by (unfold T; cbn [w_sec w_nsec]; lia).
    splits; try assumption; [lia|]. eapply Forall_impl; [|exact Hh]. intros h Hx. eapply hok_time; [exact Ht|exact Hx].
  - (* reload *)
    pose proof (fileset_reload_ok w s (nth hi hs dummy_handle) hs Hs Hst Hl (hok_nth _ _ _ _ Hh) Hh) as Hr.
    pose proof (reload_post_finv w s hs hi _ its Hr Hl) as Hf.
    destruct (fileset_reload w s (nth hi hs dummy_handle)) as [[w' s'] h']. split; [exact Hf|discriminate].
  - pose proof (fileset_reload_now_ok w s (nth hi hs dummy_handle) hs Hs Hst Hl (hok_nth _ _ _ _ Hh) Hh) as Hr.
    pose proof (reload_post_finv w s hs hi _ its Hr Hl) as Hf.
    destruct (fileset_reload_now w s (nth hi hs dummy_handle)) as [[w' s'] h']. split; [exact Hf|discriminate].
  - (* an iterator is created *)
    pose proof (fileset_reload_ok w s (nth hi hs dummy_handle) hs Hs Hst Hl (hok_nth _ _ _ _ Hh) Hh) as Hr.
    destruct (fileset_reload w s (nth hi hs dummy_handle)) as [[w' s'] h']. destruct Hr as (Hs' & Hst' & _ & Hl' & Hh' & Hsync' & Ho').
    cbn [fst snd]. split.
    + unfold finv. cbn [fs_world fs_shared fs_handles]. splits.
      * eapply sinv_ext; [exact Hs'| | |]; reflexivity.
      * exact Hst'.
      * rewrite Hl'. exact Hl.
      * apply Forall_upd; [eapply Forall_impl; [|exact Ho']; intros x Hx|]; (eapply hok_ext; [| | |eassumption]; reflexivity).
    + rewrite (no_uaf s' h' Hs' Hsync' (proj2 Hh')). discriminate.
  - (* an iterator is closed *)
    destruct (nth_error its ii) as [[[hi snap] [|]]|]; try (split; [unfold finv; cbn; splits; assumption|discriminate]).
    assert (Hs1 : sinv (set_iters s (sh_n_iters s - 1))) by (eapply sinv_ext; [exact Hs| | |]; reflexivity).
    assert (Hh1 : Forall (hok w (set_iters s (sh_n_iters s - 1))) hs).
    { eapply Forall_impl; [|exact Hh]. intros x Hx. eapply hok_ext; [| | |exact Hx]; reflexivity. }
    pose proof (fileset_reload_ok w _ (nth hi hs dummy_handle) hs Hs1 Hst Hl (hok_nth _ _ _ _ Hh1) Hh1) as Hr.
    pose proof (reload_post_finv w _ hs hi _ (upd its ii (hi, snap, false)) Hr Hl) as Hf.
    destruct (fileset_reload w (set_iters s (sh_n_iters s - 1)) (nth hi hs dummy_handle)) as [[w' s'] h']. split; [exact Hf|discriminate].
  - (* dup *)
    split; [|discriminate]. unfold finv. cbn [fst fs_world fs_shared fs_handles]. splits; try assumption.
    + eapply sinv_ext; [exact Hs| | |]; reflexivity.
    + apply Forall_app. split.
      * eapply Forall_impl; [|exact Hh]. intros x Hx. eapply hok_ext; [| | |exact Hx]; reflexivity.
      * constructor; [|constructor]. unfold hok, stH. cbn [h_last_sec h_last_nsec h_merger]. split; [lia|intros _ p []].
  - (* destroy *)
    split; [|discriminate]. unfold finv. cbn [fst fs_world fs_shared fs_handles]. splits; try assumption.
    + eapply sinv_ext; [exact Hs| | |]; reflexivity.
    + apply Forall_upd.
      * eapply Forall_impl; [|exact Hh]. intros x Hx. eapply hok_ext; [| | |exact Hx]; reflexivity.
      * pose proof (hok_nth w s hs hi Hh) as [H1 _]. unfold hok, stH in *. cbn [h_last_sec h_last_nsec h_merger]. split; [exact H1|intros _ p []].
Qed.

Lemma finv_init w interval nf rf : NoDup (w_set_lines w) -> finv (fs_init w interval nf rf).
Proof.
  intros Hl. unfold finv, fs_init. cbn [fs_world fs_shared fs_handles]. splits.
  - constructor; unfold live; cbn; try constructor; intros r [].
  - unfold stS. cbn. lia.
  - exact Hl.
  - constructor; [|constructor]. unfold hok, stH. cbn. split; [lia|intros _ p []].
Qed.

(* T07a: no history makes a handle use a reader that a reload has destroyed *)
Theorem no_use_after_unload : forall ops st, finv st ->
  (forall lines, In (OpSetFile lines) ops -> NoDup lines) -> Forall (fun o => o <> OutUAF) (frun st ops).
Proof.
  induction ops as [|op ops IH]; intros st Hinv Hops; [constructor|]. cbn [frun].
  destruct (fstep_inv st op Hinv) as [Hinv' Hout].
  { intros lines ->. apply Hops. left. reflexivity. }
  destruct (fstep st op) as [st' o]. cbn [fst snd] in *. constructor; [exact Hout|].
  apply IH; [exact Hinv'|]. intros lines Hin. apply Hops. right. exact Hin.
Qed.
