(* C09 through the independent decoder, part 1: the pieces.
   - framing: parse_frame / parse_frames re-derive the frames the writer laid down;
   - trailer: parse_trailer (metadata_write m) is m (version 2 magic, zero padding);
   - blocks: parse_block (bb_finish b) gives back the ghost entries of the builder, and
     check_block (canonical varints, restart cadence, maximal prefix sharing, restart array)
     returns 0 on it;
   - byte well-formedness of everything the writer emits (needed for the checksum field to
     hold the CRC rather than its low 32 bits);
   - the add results and the trailer counters of a successful session, without assuming that
     compression is total.
   Part 2 (proofs/ParseTable.v) assembles them into parse_table / wf_validate. *)
From Coq Require Import NArith ZArith List Lia ZifyBool ZifyN ZifyNat.
From Mtbl Require Import gen.Consts model.Bytes model.Codec model.Order model.Block model.Crc model.Writer
  spec.Leb128 spec.Parse model.Reader
  proofs.BytesLemmas proofs.CodecProofs proofs.OrderProofs proofs.CrcProofs proofs.WriterProofs proofs.MetaProofs
  proofs.BlockProofs proofs.BlockRT proofs.TableRT.
Local Open Scope N_scope.
Ltac Zify.zify_post_hook ::= Z.div_mod_to_equations.
Ltac splits := repeat match goal with |- _ /\ _ => split end.

(* ---- framing ---------------------------------------------------------------------------- *)
Lemma crc32c_ref_lt32 s : wf_bytes s -> crc32c_ref s < 2 ^ 32.
Proof.
  intros Hs. unfold crc32c_ref. change (2 ^ 32) with 4294967296.
  apply lxor_lt32; [apply crc_update_lt32; [reflexivity|exact Hs]|reflexivity].
Qed.

Lemma leb128_len_pos v : 0 < len (leb128 v).
Proof. pose proof (leb128_nonempty v). destruct (leb128 v); [congruence|rewrite len_cons; lia]. Qed.

Lemma get_varint64_enc v rest : v < 2 ^ 64 -> get_varint64 (varint_encode64 v ++ rest) = Some (v, rest, true).
Proof.
  intros Hv. unfold get_varint64. rewrite varint64_roundtrip by exact Hv.
  rewrite varint_encode64_spec by exact Hv. pose proof (leb128_len_pos v).
  replace (len (leb128 v) =? 0) with false by lia.
  rewrite (drop_app_len _ _ _ eq_refl), N.eqb_refl. reflexivity.
Qed.

Lemma parse_frame_frame s rest : len s < 2 ^ 64 -> wf_bytes s ->
  parse_frame (frame s ++ rest) = Some (s, len (frame s), rest).
Proof.
  intros Hs Hwf. unfold parse_frame, frame. rewrite <- !app_assoc.
  rewrite get_varint64_enc by exact Hs. cbn [negb].
  rewrite fixed32_roundtrip by (apply crc32c_ref_lt32, Hwf).
  rewrite (drop_app_len (fixed_encode32 _) _ 4) by apply len_fixed32.
  rewrite len_app. replace (len s + len rest <? len s) with false by lia.
  rewrite (take_app_len s rest _ eq_refl), N.eqb_refl, (drop_app_len s rest _ eq_refl).
  f_equal. f_equal. f_equal. rewrite !len_app, len_fixed32. lia.
Qed.

Lemma parse_frames_step f off data : data <> [] ->
  parse_frames (S f) off data =
  match parse_frame data with
  | None => None
  | Some (stored, sz, rest) =>
    match parse_frames f (off + sz) rest with
    | None => None
    | Some tl => Some ((off, stored, sz) :: tl)
    end
  end.
Proof. destruct data; [congruence|reflexivity]. Qed.

Lemma frame_ne s : frame s <> [].
Proof. pose proof (frame_pos s) as H. intros E. rewrite E in H. cbn in H. lia. Qed.

Definition blk_frame (d : dblk) : N * bytes * N := (d_off d, d_stored d, len (frame (d_stored d))).

Lemma parse_frames_frames : forall ds fuel off, offs_ok off ds -> (length ds <= fuel)%nat ->
  Forall (fun d => len (d_stored d) < 2 ^ 64 /\ wf_bytes (d_stored d)) ds ->
  parse_frames fuel off (frames_of ds) = Some (map blk_frame ds).
Proof.
  induction ds as [|d ds IH]; intros fuel off Ho Hf Hall.
  - destruct fuel; reflexivity.
  - destruct fuel as [|fuel]; [cbn in Hf; lia|]. destruct Ho as [Hoff Ho].
    pose proof (Forall_inv Hall) as [Hlen Hwf]. pose proof (Forall_inv_tail Hall) as Hall'.
    unfold frames_of. cbn [map concat]. fold (frames_of ds).
    rewrite parse_frames_step by (intros E; apply app_eq_nil in E; destruct E as [E _]; exact (frame_ne _ E)).
    rewrite parse_frame_frame by assumption.
    rewrite (IH fuel _ Ho ltac:(cbn in Hf; lia) Hall'). unfold blk_frame at 2. rewrite Hoff. reflexivity.
Qed.

(* ---- trailer ------------------------------------------------------------------------------ *)
Definition tr_of (m : meta) : trailer :=
  mktr 1 (m_index_block_offset m) (m_data_block_size m) (m_compression_algorithm m) (m_count_entries m)
       (m_count_data_blocks m) (m_bytes_data_blocks m) (m_bytes_index_block m) (m_bytes_keys m) (m_bytes_values m).

Lemma forallb_repeat0 n : forallb (fun b => b =? 0) (repeat 0 n) = true.
Proof. induction n as [|n IH]; [reflexivity|]. cbn [repeat forallb]. rewrite IH. reflexivity. Qed.

Lemma drop_0 (l : bytes) : drop 0 l = l.
Proof. reflexivity. Qed.
Lemma drop_8_more k v r : drop (8 + k) (fixed_encode64 v ++ r) = drop k r.
Proof.
  unfold drop. replace (N.to_nat (8 + k)) with (8 + N.to_nat k)%nat by lia.
  rewrite <- skipn_skipn'. f_equal.
Qed.
Lemma le8_head v r : v < 2 ^ 64 -> le_decode 8 (fixed_encode64 v ++ r) = Some v.
Proof. intros H. apply (fixed64_roundtrip v r H). Qed.

Lemma parse_trailer_write m : meta_small m -> parse_trailer (metadata_write m) = Some (tr_of m).
Proof.
  intros (H0 & H1 & H2 & H3 & H4 & H5 & H6 & H7 & H8).
  unfold parse_trailer. rewrite metadata_write_len. cbn [N.eqb Pos.eqb negb].
  destruct m as [a0 a1 a2 a3 a4 a5 a6 a7 a8].
  cbn [m_index_block_offset m_data_block_size m_compression_algorithm m_count_entries m_count_data_blocks
       m_bytes_data_blocks m_bytes_index_block m_bytes_keys m_bytes_values] in *.
  unfold metadata_write, META_WRITE_ORDER, META_WRITE_MAGIC, MTBL_METADATA_SIZE.
  cbn [map concat meta_field m_index_block_offset m_data_block_size m_compression_algorithm m_count_entries m_count_data_blocks
       m_bytes_data_blocks m_bytes_index_block m_bytes_keys m_bytes_values]. rewrite app_nil_r.
  set (fields := fixed_encode64 a0 ++ _).
  assert (Hlen : len fields = 72) by (subst fields; rewrite !len_app, !len_fixed64; reflexivity).
  rewrite Hlen. change (512 - 72 - 4) with 436.
  set (pad := repeat 0 (N.to_nat 436)).
  assert (Hpad : len pad = 436) by (unfold pad; rewrite len_repeat; reflexivity).
  assert (Hdrop : drop 508 (fields ++ pad ++ fixed_encode32 1297367628) = fixed_encode32 1297367628).
  { rewrite app_assoc. apply drop_app_len. rewrite len_app, Hlen, Hpad. reflexivity. }
  rewrite Hdrop. rewrite <- (app_nil_r (fixed_encode32 1297367628)).
  pose proof (fixed32_roundtrip 1297367628 [] ltac:(cbn; lia)) as Hm. unfold fixed_decode32 in Hm. rewrite Hm.
  change (1297367628 =? 1297367628) with true. cbv iota.
  rewrite (drop_app_len fields _ 72 Hlen). change (508 - 72) with 436. rewrite (take_app_len pad _ 436 Hpad).
  unfold pad. rewrite forallb_repeat0. cbn [negb]. fold pad.
  unfold tr_of. cbn [m_index_block_offset m_data_block_size m_compression_algorithm m_count_entries m_count_data_blocks
       m_bytes_data_blocks m_bytes_index_block m_bytes_keys m_bytes_values].
  change (8 * 0) with 0. change (8 * 1) with (8 + 0). change (8 * 2) with (8 + (8 + 0)). change (8 * 3) with (8 + (8 + (8 + 0))).
  change (8 * 4) with (8 + (8 + (8 + (8 + 0)))). change (8 * 5) with (8 + (8 + (8 + (8 + (8 + 0))))).
  change (8 * 6) with (8 + (8 + (8 + (8 + (8 + (8 + 0)))))). change (8 * 7) with (8 + (8 + (8 + (8 + (8 + (8 + (8 + 0))))))).
  change (8 * 8) with (8 + (8 + (8 + (8 + (8 + (8 + (8 + (8 + 0)))))))).
  subst fields. rewrite <- !app_assoc. rewrite !drop_8_more, !drop_0.
  rewrite !le8_head by assumption. reflexivity.
Qed.

(* ---- blocks: the independent decoder on a finished block ------------------------------------ *)
Theorem parse_block_finish b ps ridx : bbinv b ps ridx -> len (bb_finish b) < 2 ^ 32 ->
  parse_block (bb_finish b) = Some (mkab ps (map (offset_of ps) ridx) (len (bb_finish b)) false).
Proof.
  intros Hb Hsz. destruct Hb as [Hok Hbuf Hleg Hlast Hres Hhd Hne Hinc Hbound Hsh Hc0 Hcr Hcc Hshare].
  assert (Hsmall : UINT32_MAX <? len (bb_buf b) = false).
  { unfold bb_finish in Hsz. rewrite len_app in Hsz. unfold UINT32_MAX. change (2 ^ 32) with 4294967296 in Hsz. lia. }
  unfold bb_finish in *. rewrite Hsmall in *. unfold nrestarts in *.
  set (rs := bb_restarts b) in *. set (nr := N.of_nat (length rs)) in *.
  set (buf := bb_buf b) in *. set (renc := concat (map (fun r => fixed_encode32 r) rs)) in *.
  assert (Hrl : len renc = 4 * nr) by apply len_concat_enc32.
  assert (Hnr : 1 <= nr) by (unfold nr; rewrite Hres, map_length; lia).
  assert (Hsize : len (buf ++ renc ++ fixed_encode32 nr) = len buf + 4 * nr + 4) by (rewrite !len_app, Hrl, len_fixed32; lia).
  rewrite Hsize in *. change (2 ^ 32) with 4294967296 in Hsz.
  unfold parse_block. rewrite Hsize.
  replace (len buf + 4 * nr + 4 <? 8) with false by lia.
  replace (drop (len buf + 4 * nr + 4 - 4) (buf ++ renc ++ fixed_encode32 nr)) with (fixed_encode32 nr ++ []).
  2:{ rewrite app_nil_r, app_assoc. symmetry. apply drop_app_len. rewrite len_app, Hrl. lia. }
  rewrite fixed32_roundtrip by (change (2 ^ 32) with 4294967296; lia).
  replace (nr =? 0) with false by lia.
  replace (len buf + 4 * nr + 4 <? 4 + 4 * nr) with false by lia.
  replace (len buf + 4 * nr + 4 - 4 - 4 * nr) with (len buf) by lia.
  replace (4294967295 <? len buf) with false by (unfold UINT32_MAX in Hsmall; lia). cbn [andb]. cbv iota.
  replace (drop (len buf) (buf ++ renc ++ fixed_encode32 nr)) with (renc ++ fixed_encode32 nr) by (symmetry; apply drop_app_len; reflexivity).
  unfold nr at 1. rewrite Nat2N.id. unfold renc.
  rewrite parse_array_enc32.
  2:{ rewrite Hres. apply Forall_forall. intros x Hx. apply in_map_iff in Hx. destruct Hx as (j & <- & _).
      pose proof (offset_of_le ps j) as H. rewrite <- Hbuf in H. change (2 ^ 32) with 4294967296. lia. }
  rewrite (take_app_len buf _ (len buf) eq_refl). rewrite Hbuf.
  rewrite <- (app_nil_r (enc_all ps)). rewrite (parse_entries_enc ps _ 0 [] [] Hleg); [|rewrite app_nil_r|reflexivity].
  - rewrite app_nil_r, Hres. reflexivity.
  - pose proof (enc_all_length ps _ _ Hleg). rewrite !app_length. lia.
Qed.

(* ---- blocks: cadence, sharing, restart array ---------------------------------------------- *)
Lemma list_eqb_refl l : list_eqb l l = true.
Proof.
  unfold list_eqb. rewrite Nat.eqb_refl. cbn [andb].
  induction l as [|a l IH]; [reflexivity|]. cbn [combine forallb fst snd]. rewrite N.eqb_refl. exact IH.
Qed.

Lemma filter_none {A} (f : A -> bool) l : (forall x, In x l -> f x = false) -> filter f l = [].
Proof.
  induction l as [|a l IH]; intros H; [reflexivity|]. cbn [filter]. rewrite (H a) by (left; reflexivity).
  apply IH. intros x Hx. apply H. right. exact Hx.
Qed.
Lemma filter_all {A} (f : A -> bool) l : (forall x, In x l -> f x = true) -> filter f l = l.
Proof.
  induction l as [|a l IH]; intros H; [reflexivity|]. cbn [filter]. rewrite (H a) by (left; reflexivity).
  f_equal. apply IH. intros x Hx. apply H. right. exact Hx.
Qed.

Definition sinc (l : list nat) : Prop := forall i j, (i < j < length l)%nat -> (nth i l 0 < nth j l 0)%nat.
Lemma sinc_cons a l : sinc (a :: l) -> sinc l /\ forall x, In x l -> (a < x)%nat.
Proof.
  intros H. split.
  - intros i j Hij. apply (H (S i) (S j)). cbn [length]. lia.
  - intros x Hx. destruct (In_nth l x 0%nat Hx) as (i & Hi & <-). apply (H 0%nat (S i)). cbn [length]. lia.
Qed.

Lemma filter_ge_sorted : forall l j, sinc l -> In j l ->
  filter (fun r => j <=? r)%nat l = j :: filter (fun r => S j <=? r)%nat l.
Proof.
  induction l as [|a l IH]; intros j Hs Hj; [destruct Hj|].
  destruct (sinc_cons a l Hs) as [Hs' Hgt]. cbn [filter]. destruct (Nat.eq_dec a j) as [->|Hne].
  - rewrite Nat.leb_refl. replace (S j <=? j)%nat with false by lia. f_equal.
    apply filter_ext_in. intros x Hx. specialize (Hgt x Hx). lia.
  - destruct Hj as [Hj|Hj]; [congruence|]. specialize (Hgt j Hj).
    replace (j <=? a)%nat with false by lia. replace (S j <=? a)%nat with false by lia. apply IH; assumption.
Qed.

Lemma skipn_nth_cons {A} (d : A) : forall l j, (j < length l)%nat -> skipn j l = nth j l d :: skipn (S j) l.
Proof.
  induction l as [|a l IH]; intros j Hj; [cbn in Hj; lia|]. destruct j as [|j]; [reflexivity|].
  cbn [skipn nth]. apply IH. cbn in Hj. lia.
Qed.

Lemma legal_canon : forall ps off prev i, legal off prev ps -> (i < length ps)%nat -> pe_canon (nth i ps dummy_pe) = true.
Proof.
  induction ps as [|q ps IH]; intros off prev i Hl Hi; [cbn in Hi; lia|].
  destruct Hl as (_ & _ & _ & _ & _ & _ & H7 & Hl). destruct i as [|i]; [exact H7|].
  cbn [nth]. apply (IH _ _ i Hl). cbn in Hi. lia.
Qed.

Lemma check_entries_step I i prev e tl :
  check_entries I i prev (e :: tl) =
  (pe_canon e && (if i mod I =? 0 then pe_shared e =? 0 else pe_shared e =? lcp prev (pe_key e))
     && fst (check_entries I (i + 1) (pe_key e) tl),
   if i mod I =? 0 then pe_off e :: snd (check_entries I (i + 1) (pe_key e) tl)
   else snd (check_entries I (i + 1) (pe_key e) tl)).
Proof. cbn [check_entries]. destruct (check_entries I (i + 1) (pe_key e) tl). reflexivity. Qed.

Section Cadence.
Variables (b : bb) (ps : list pentry) (ridx : list nat).
Hypothesis Hb : bbinv b ps ridx.
Hypothesis Hne : ps <> [].

Let In_ := N.to_nat (bb_interval b).

Lemma cad_In_pos : (1 <= In_)%nat.
Proof. destruct (bi_ok _ _ _ Hb) as (_ & _ & H). unfold In_. lia. Qed.

Lemma cad_ridx_lt j : In j ridx -> (j < length ps)%nat.
Proof. intros Hj. destruct (bi_ridx_bound _ _ _ Hb j Hj) as [H|[_ H]]; [exact H|contradiction]. Qed.

Lemma cad_ridx_mult j : In j ridx -> (j mod In_ = 0)%nat.
Proof.
  intros Hj. destruct (In_nth ridx j 0%nat Hj) as (i & Hi & <-). rewrite (bi_cad_ridx _ _ _ Hb i Hi).
  apply Nat.mod_mul. pose proof cad_In_pos. fold In_. lia.
Qed.

Lemma cad_mult_ridx j : (j < length ps)%nat -> (j mod In_ = 0)%nat -> In j ridx.
Proof.
  intros Hj Hm. pose proof cad_In_pos as Hp. destruct (bi_cad_cnt _ _ _ Hb Hne) as [Hcnt _].
  destruct (bi_ok _ _ _ Hb) as (Hc & _ & _). fold In_ in Hcnt.
  pose proof (bi_ridx_ne _ _ _ Hb) as Hm1.
  assert (Hq : (j = In_ * (j / In_))%nat) by (pose proof (Nat.div_mod j In_ ltac:(lia)); lia).
  assert (Hlt : (j / In_ < length ridx)%nat).
  { assert (Hn : (length ps <= In_ * length ridx)%nat).
    { replace (length ridx) with (S (length ridx - 1)) by lia. rewrite Nat.mul_succ_r. unfold In_ in *. lia. }
    apply (Nat.mul_lt_mono_pos_l In_); lia. }
  pose proof (bi_cad_ridx _ _ _ Hb _ Hlt) as Hnth. fold In_ in Hnth.
  rewrite Hq, Nat.mul_comm, <- Hnth. apply nth_In, Hlt.
Qed.

Lemma check_entries_bb : forall k, (k <= length ps)%nat -> forall prev,
  let j := (length ps - k)%nat in
  (j <> 0%nat -> prev = pe_key (nth (j - 1) ps dummy_pe)) ->
  check_entries (bb_interval b) (N.of_nat j) prev (skipn j ps) =
  (true, map (offset_of ps) (filter (fun r => j <=? r)%nat ridx)).
Proof.
  induction k as [|k IH]; intros Hk prev j Hprev.
  - unfold j. rewrite Nat.sub_0_r, skipn_all. cbn [check_entries]. rewrite filter_none; [reflexivity|].
    intros x Hx. pose proof (cad_ridx_lt x Hx). lia.
  - assert (Hj : (j < length ps)%nat) by (unfold j; lia).
    rewrite (skipn_nth_cons dummy_pe ps j Hj). set (e := nth j ps dummy_pe).
    rewrite check_entries_step.
    replace (N.of_nat j + 1) with (N.of_nat (length ps - k)) by (unfold j; lia).
    replace (S j) with (length ps - k)%nat by (unfold j; lia).
    rewrite (IH ltac:(lia) (pe_key e)).
    2:{ intros _. unfold e. f_equal. f_equal. unfold j. lia. }
    cbn [fst snd]. rewrite Bool.andb_true_r.
    pose proof (legal_canon ps 0 [] j (bi_legal _ _ _ Hb) Hj) as Hcan. fold e in Hcan. rewrite Hcan. cbn [andb].
    pose proof (bi_share _ _ _ Hb j Hj) as Hsh. fold e in Hsh. fold In_ in Hsh.
    pose proof cad_In_pos as Hp.
    assert (Emod : (N.of_nat j mod bb_interval b =? 0) = (j mod In_ =? 0)%nat).
    { rewrite <- (N2Nat.id (bb_interval b)) at 1. fold In_. rewrite <- Nat2N.inj_mod.
      destruct (j mod In_)%nat; [reflexivity|]. rewrite Nat2N.inj_succ. cbn [Nat.eqb]. apply N.eqb_neq. lia. }
    rewrite Emod. replace (length ps - k)%nat with (S j) by (unfold j; lia).
    destruct (j mod In_ =? 0)%nat eqn:Er.
    + rewrite Hsh, N.eqb_refl. f_equal.
      rewrite (filter_ge_sorted ridx j (bi_ridx_inc _ _ _ Hb)) by (apply cad_mult_ridx; [exact Hj|lia]).
      cbn [map]. f_equal. unfold e. rewrite (legal_off ps 0 [] j (bi_legal _ _ _ Hb) Hj). apply N.add_0_l.
    + rewrite Hsh. assert (Hj0 : j <> 0%nat) by (intros E; rewrite E in Er; rewrite Nat.mod_0_l in Er by lia; discriminate).
      rewrite (Hprev Hj0). fold e. rewrite N.eqb_refl. f_equal. f_equal.
      apply filter_ext_in. intros x Hx. pose proof (cad_ridx_mult x Hx). assert (x <> j) by (intros ->; lia). lia.
Qed.

Theorem check_block_bb sz w : check_block (bb_interval b) (mkab ps (map (offset_of ps) ridx) sz w) = 0.
Proof.
  unfold check_block. cbn [ab_entries ab_restarts]. destruct ps as [|p0 ps0] eqn:Eps; [congruence|]. rewrite <- Eps in *.
  pose proof (check_entries_bb (length ps) (Nat.le_refl _) []) as H. cbv zeta in H. rewrite Nat.sub_diag in H.
  cbn [skipn N.of_nat] in H. rewrite H by congruence.
  rewrite filter_all by (intros; reflexivity). cbn [negb]. rewrite list_eqb_refl. reflexivity.
Qed.
End Cadence.

(* ---- everything the writer emits is a string of bytes ------------------------------------- *)
Lemma wf_app (a c : bytes) : wf_bytes a -> wf_bytes c -> wf_bytes (a ++ c).
Proof. intros Ha Hc. apply Forall_app. split; assumption. Qed.
Lemma wf_concat (l : list bytes) : Forall wf_bytes l -> wf_bytes (concat l).
Proof. induction 1 as [|x l Hx Hl IH]; [constructor|]. cbn [concat]. apply wf_app; assumption. Qed.
Lemma wf_drop n (k : bytes) : wf_bytes k -> wf_bytes (drop n k).
Proof.
  intros H. unfold drop. rewrite <- (firstn_skipn (N.to_nat n) k) in H. apply Forall_app in H. exact (proj2 H).
Qed.
Lemma varint_encode32_wf v : wf_bytes (varint_encode32 v).
Proof.
  assert (H : u32 v < 2 ^ 32) by (unfold u32; change (2 ^ 32) with 4294967296; lia).
  assert (E : varint_encode32 v = varint_encode32 (u32 v)).
  { unfold varint_encode32. f_equal. unfold u32. rewrite N.mod_mod by lia. reflexivity. }
  rewrite E, (varint_encode32_spec _ H). apply leb128_wf_bytes.
Qed.
Lemma varint_encode64_wf v : wf_bytes (varint_encode64 v).
Proof. rewrite varint_encode64_u64. apply leb128_wf_bytes. Qed.
Lemma fixed_encode32_wf v : wf_bytes (fixed_encode32 v).
Proof. apply le_encode_wf. Qed.
Lemma fixed_encode64_wf v : wf_bytes (fixed_encode64 v).
Proof. apply le_encode_wf. Qed.

Lemma entry_encode_wf s k v : wf_bytes k -> wf_bytes v -> wf_bytes (entry_encode s k v).
Proof.
  intros Hk Hv. unfold entry_encode. repeat apply wf_app; try apply varint_encode32_wf; try assumption. apply wf_drop, Hk.
Qed.
Lemma bb_add_wf b k v b' : wf_bytes (bb_buf b) -> wf_bytes k -> wf_bytes v -> bb_add b k v = Ok b' -> wf_bytes (bb_buf b').
Proof.
  intros Hb Hk Hv H. unfold bb_add in H. destruct (negb (bb_counter b <=? bb_interval b) || bb_finished b); [discriminate|].
  inversion H; subst b'. cbn [bb_buf]. apply wf_app; [exact Hb|apply entry_encode_wf; assumption].
Qed.
Lemma bb_finish_wf b : wf_bytes (bb_buf b) -> wf_bytes (bb_finish b).
Proof.
  intros Hb. unfold bb_finish. apply wf_app; [exact Hb|]. apply wf_app; [|apply fixed_encode32_wf].
  apply wf_concat. apply Forall_forall. intros x Hx. apply in_map_iff in Hx. destruct Hx as (r & <- & _).
  destruct (UINT32_MAX <? len (bb_buf b)); [apply fixed_encode64_wf|apply fixed_encode32_wf].
Qed.
Lemma wf_repeat0 n : wf_bytes (repeat 0 n).
Proof. induction n; constructor; [unfold wf_byte; lia|assumption]. Qed.
Lemma metadata_write_wf m : wf_bytes (metadata_write m).
Proof.
  unfold metadata_write. apply wf_app; [|apply wf_app; [apply wf_repeat0|apply fixed_encode32_wf]].
  apply wf_concat. apply Forall_forall. intros x Hx. apply in_map_iff in Hx. destruct Hx as (r & <- & _). apply fixed_encode64_wf.
Qed.

Section WfOut.
Variable compress_default : N -> bytes -> res bytes.
Variable compress_level : N -> Z -> bytes -> res bytes.
(* the compressors return strings of bytes *)
Hypothesis compress_default_wf : forall a raw c, wf_bytes raw -> compress_default a raw = Ok c -> wf_bytes c.
Hypothesis compress_level_wf : forall a l raw c, wf_bytes raw -> compress_level a l raw = Ok c -> wf_bytes c.
Local Notation writer_add := (Writer.writer_add compress_default compress_level).
Local Notation writer_flush := (Writer.writer_flush compress_default compress_level).
Local Notation writer_finish := (Writer.writer_finish compress_default compress_level).
Local Notation writer_adds := (Writer.writer_adds compress_default compress_level).
Local Notation compress_block := (Writer.compress_block compress_default compress_level).

Lemma compress_block_wf o raw c : wf_bytes raw -> compress_block o raw = Ok c -> wf_bytes c.
Proof.
  intros Hr H. unfold Writer.compress_block in H. destruct (wo_comp o =? COMP_NONE); [inversion H; subst; exact Hr|].
  destruct (Z.eqb (wo_level o) DEFAULT_COMPRESSION_LEVEL).
  - destruct (compress_default (wo_comp o) raw) eqn:E; try discriminate. inversion H; subst. eapply compress_default_wf; eassumption.
  - destruct (compress_level (wo_comp o) (wo_level o) raw) eqn:E; try discriminate. inversion H; subst. eapply compress_level_wf; eassumption.
Qed.

Definition wfw (w : writer) : Prop :=
  wf_bytes (w_last_key w) /\ wf_bytes (bb_buf (w_data w)) /\ wf_bytes (bb_buf (w_index w)) /\ Forall wf_bytes (w_out w).

Lemma flush_wfw w w' : wfw w -> writer_flush w = Ok w' -> wfw w' /\ w_last_key w' = w_last_key w.
Proof.
  intros (Hlk & Hd & Hi & Ho) H. unfold Writer.writer_flush in H. destruct (w_closed w); [discriminate|].
  destruct (bb_empty (w_data w)); [inversion H; subst; split; [repeat split; assumption|reflexivity]|].
  destruct (compress_block (w_opt w) (bb_finish (w_data w))) as [st| | |] eqn:Ec; try discriminate.
  pose proof (compress_block_wf _ _ _ (bb_finish_wf _ Hd) Ec) as Hst.
  unfold write_data_block in H. cbn [w_index w_pending_offset w_m w_opt w_data w_last_key w_last_offset w_closed w_out] in H.
  destruct (bb_add (w_index w) (w_last_key w) (varint_encode64 (w_pending_offset w))) as [idx| | |] eqn:Ea; try discriminate.
  inversion H; subst w'; clear H. cbn [w_last_key]. split; [|reflexivity].
  unfold wfw. cbn [w_last_key w_data w_index w_out bb_reset bb_buf]. splits.
  - exact Hlk.
  - constructor.
  - eapply bb_add_wf; [exact Hi|exact Hlk|apply varint_encode64_wf|exact Ea].
  - cbn [block_chunks rev app]. constructor; [exact Hst|]. constructor; [apply fixed_encode32_wf|]. constructor; [apply varint_encode64_wf|exact Ho].
Qed.

Lemma add_wfw w k v w' r : wfw w -> wf_bytes k -> wf_bytes v -> writer_add w k v = Ok (w', r) -> wfw w'.
Proof.
  intros Hw Hk Hv H. pose proof Hw as (Hlk & Hd & Hi & Ho). unfold Writer.writer_add in H. destruct (w_closed w); [discriminate|].
  match type of H with (if ?c then _ else _) = _ => destruct c end; [inversion H; subst; exact Hw|].
  match type of H with context [if ?c then _ else Ok w] => destruct c end.
  - match type of H with context [if ?c then Abort else _] => destruct c end; [discriminate|].
    match type of H with context [Writer.writer_flush _ _ ?w0] =>
      destruct (Writer.writer_flush compress_default compress_level w0) as [w1| | |] eqn:Ef; try discriminate;
      assert (H0 : wfw w0) by (unfold wfw; cbn [w_last_key w_data w_index w_out]; splits; try assumption; apply sep_wf; assumption) end.
    destruct (flush_wfw _ _ H0 Ef) as [(Hlk1 & Hd1 & Hi1 & Ho1) _].
    destruct (bb_add (w_data w1) k v) as [d| | |] eqn:Ea; try discriminate. inversion H; subst; clear H.
    unfold wfw. cbn [w_last_key w_data w_index w_out]. splits; try assumption. eapply bb_add_wf; [exact Hd1| | |exact Ea]; assumption.
  - destruct (bb_add (w_data w) k v) as [d| | |] eqn:Ea; try discriminate. inversion H; subst; clear H.
    unfold wfw. cbn [w_last_key w_data w_index w_out]. splits; try assumption. eapply bb_add_wf; [exact Hd| | |exact Ea]; assumption.
Qed.

Lemma adds_wfw : forall ops w w' rs, wfw w -> Forall (fun kv => wf_bytes (fst kv) /\ wf_bytes (snd kv)) ops ->
  writer_adds w ops = Ok (w', rs) -> wfw w'.
Proof.
  induction ops as [|[k v] ops IH]; intros w w' rs Hw Hall H; cbn [Writer.writer_adds] in H.
  - inversion H; subst; exact Hw.
  - destruct (writer_add w k v) as [[w1 r]| | |] eqn:Ea; try discriminate.
    destruct (writer_adds w1 ops) as [[w2 rs2]| | |] eqn:Er; try discriminate. inversion H; subst.
    pose proof (Forall_inv Hall) as [Hk Hv]. cbn [fst snd] in Hk, Hv.
    eapply IH; [exact (add_wfw _ _ _ _ _ Hw Hk Hv Ea)|exact (Forall_inv_tail Hall)|exact Er].
Qed.

Lemma finish_wfw w w' : wfw w -> writer_finish w = Ok w' -> Forall wf_bytes (w_out w').
Proof.
  intros Hw H. unfold Writer.writer_finish in H.
  destruct (writer_flush w) as [w1| | |] eqn:Ef; try discriminate. inversion H; subst; clear H.
  destruct (flush_wfw _ _ Hw Ef) as [(Hlk1 & Hd1 & Hi1 & Ho1) _]. cbn [w_out block_chunks rev app].
  constructor; [apply metadata_write_wf|]. constructor; [apply bb_finish_wf, Hi1|].
  constructor; [apply fixed_encode32_wf|]. constructor; [apply varint_encode64_wf|exact Ho1].
Qed.

Theorem session_bytes_wf o off0 ops w' rs :
  Forall (fun kv => wf_bytes (fst kv) /\ wf_bytes (snd kv)) ops ->
  writer_session compress_default compress_level o off0 ops = Ok (w', rs) -> wf_bytes (writer_bytes w').
Proof.
  intros Hall H. unfold writer_session in H.
  destruct (writer_adds (writer_init o off0) ops) as [[w rs0]| | |] eqn:Eadds; try discriminate.
  destruct (writer_finish w) as [wf| | |] eqn:Efin; try discriminate. inversion H; subst wf rs0; clear H.
  assert (H0 : wfw (writer_init o off0)) by (unfold wfw; cbn; splits; constructor).
  pose proof (finish_wfw _ _ (adds_wfw _ _ _ _ H0 Hall Eadds) Efin) as Hout.
  unfold writer_bytes, writer_chunks. apply wf_concat. apply Forall_rev. exact Hout.
Qed.
End WfOut.

(* ---- add results and entry counters of a successful run (no totality assumption) ------------ *)
Definition sum_keys (es : list entry) : N := sumN (map (fun e => len (fst e)) es).
Definition sum_vals (es : list entry) : N := sumN (map (fun e => len (snd e)) es).

Section Results.
Variable compress_default : N -> bytes -> res bytes.
Variable compress_level : N -> Z -> bytes -> res bytes.
Local Notation writer_add := (Writer.writer_add compress_default compress_level).
Local Notation writer_flush := (Writer.writer_flush compress_default compress_level).
Local Notation writer_finish := (Writer.writer_finish compress_default compress_level).
Local Notation writer_adds := (Writer.writer_adds compress_default compress_level).

Lemma flush_keeps w w1 : writer_flush w = Ok w1 ->
  w_closed w1 = false /\ m_count_entries (w_m w1) = m_count_entries (w_m w) /\
  m_bytes_keys (w_m w1) = m_bytes_keys (w_m w) /\ m_bytes_values (w_m w1) = m_bytes_values (w_m w).
Proof.
  intros H. unfold Writer.writer_flush in H. destruct (w_closed w) eqn:Ec; [discriminate|].
  destruct (bb_empty (w_data w)); [inversion H; subst; splits; try reflexivity; exact Ec|].
  destruct (compress_block compress_default compress_level (w_opt w) (bb_finish (w_data w))) as [st| | |]; try discriminate.
  unfold write_data_block in H. cbn [w_index w_pending_offset w_m w_opt w_data w_last_key w_last_offset w_closed w_out] in H.
  destruct (bb_add (w_index w) (w_last_key w) (varint_encode64 (w_pending_offset w))) as [idx| | |]; try discriminate.
  inversion H; subst w1; clear H. cbn [w_closed w_m m_count_entries m_bytes_keys m_bytes_values]. splits; try reflexivity; try exact Ec.
Qed.

Definition gate (last : option bytes) (k : bytes) : bool :=
  match last with None => true | Some l => match bcmp k l with Gt => true | _ => false end end.

Lemma add_facts w k v w' r : w_closed w = false -> writer_add w k v = Ok (w', r) ->
  r = gate (wlast w) k /\ w_closed w' = false /\ wlast w' = (if r then Some k else wlast w) /\
  m_count_entries (w_m w') = m_count_entries (w_m w) + (if r then 1 else 0) /\
  m_bytes_keys (w_m w') = m_bytes_keys (w_m w) + (if r then len k else 0) /\
  m_bytes_values (w_m w') = m_bytes_values (w_m w) + (if r then len v else 0).
Proof.
  intros Hc H. unfold Writer.writer_add in H. rewrite Hc in H. unfold WRITER_GATE_IS_STRICT in H. cbn [negb] in H.
  assert (Hgate : ((0 <? m_count_entries (w_m w)) &&
                   negb match bcmp k (w_last_key w) with Gt => true | _ => false end) = negb (gate (wlast w) k)).
  { unfold gate, wlast. destruct (m_count_entries (w_m w) =? 0) eqn:E0.
    - replace (0 <? m_count_entries (w_m w)) with false by lia. reflexivity.
    - replace (0 <? m_count_entries (w_m w)) with true by lia. reflexivity. }
  rewrite Hgate in H. destruct (gate (wlast w) k) eqn:Eg; cbn [negb] in H.
  2:{ inversion H; subst w' r. splits; try reflexivity; try lia. exact Hc. }
  assert (Hfin : forall w1, w_closed w1 = false ->
            m_count_entries (w_m w1) = m_count_entries (w_m w) -> m_bytes_keys (w_m w1) = m_bytes_keys (w_m w) ->
            m_bytes_values (w_m w1) = m_bytes_values (w_m w) ->
            match bb_add (w_data w1) k v with
            | Ok d => Ok (mkwriter (w_opt w1)
                       (mkmeta (m_index_block_offset (w_m w1)) (m_data_block_size (w_m w1)) (m_compression_algorithm (w_m w1))
                          (m_count_entries (w_m w1) + 1) (m_count_data_blocks (w_m w1)) (m_bytes_data_blocks (w_m w1))
                          (m_bytes_index_block (w_m w1)) (m_bytes_keys (w_m w1) + len k) (m_bytes_values (w_m w1) + len v))
                       d (w_index w1) k (w_last_offset w1) (w_pending_offset w1) (w_closed w1) (w_out w1), true)
            | _ => Abort
            end = Ok (w', r) ->
            r = true /\ w_closed w' = false /\ wlast w' = (if r then Some k else wlast w) /\
            m_count_entries (w_m w') = m_count_entries (w_m w) + (if r then 1 else 0) /\
            m_bytes_keys (w_m w') = m_bytes_keys (w_m w) + (if r then len k else 0) /\
            m_bytes_values (w_m w') = m_bytes_values (w_m w) + (if r then len v else 0)).
  { intros w1 Hc1 E1 E2 E3 H1. destruct (bb_add (w_data w1) k v) as [d| | |]; try discriminate.
    inversion H1; subst w' r; clear H1. unfold wlast. cbn [w_closed w_m w_last_key m_count_entries m_bytes_keys m_bytes_values].
    replace (m_count_entries (w_m w1) + 1 =? 0) with false by lia. splits; try reflexivity; try assumption; lia. }
  match type of H with context [if ?c then _ else Ok w] => destruct c end.
  - match type of H with context [if ?c then Abort else _] => destruct c end; [discriminate|].
    match type of H with context [Writer.writer_flush _ _ ?w0] =>
      destruct (Writer.writer_flush compress_default compress_level w0) as [w1| | |] eqn:Ef; try discriminate end.
    destruct (flush_keeps _ _ Ef) as (Hc1 & E1 & E2 & E3). cbn [w_m] in E1, E2, E3.
    exact (Hfin w1 Hc1 E1 E2 E3 H).
  - exact (Hfin w Hc eq_refl eq_refl eq_refl H).
Qed.

Lemma kept_cons k v ops r rs : kept ((k, v) :: ops) (r :: rs) = (if r then [(k, v)] else []) ++ kept ops rs.
Proof. unfold kept. cbn [combine filter snd]. destruct r; reflexivity. Qed.

Lemma adds_facts : forall ops w w' rs, w_closed w = false -> writer_adds w ops = Ok (w', rs) ->
  rs = accept_spec (wlast w) ops /\ kept ops rs = accepted (wlast w) ops /\ w_closed w' = false /\
  m_count_entries (w_m w') = m_count_entries (w_m w) + N.of_nat (length (kept ops rs)) /\
  m_bytes_keys (w_m w') = m_bytes_keys (w_m w) + sum_keys (kept ops rs) /\
  m_bytes_values (w_m w') = m_bytes_values (w_m w) + sum_vals (kept ops rs).
Proof.
  induction ops as [|[k v] ops IH]; intros w w' rs Hc H; cbn [Writer.writer_adds] in H.
  - inversion H; subst. unfold kept, sum_keys, sum_vals. cbn. splits; try reflexivity; try assumption; lia.
  - destruct (writer_add w k v) as [[w1 r]| | |] eqn:Ea; try discriminate.
    destruct (writer_adds w1 ops) as [[w2 rs2]| | |] eqn:Er; try discriminate. inversion H; subst w' rs; clear H.
    destruct (add_facts _ _ _ _ _ Hc Ea) as (Hr & Hc1 & Hl1 & E1 & E2 & E3).
    destruct (IH _ _ _ Hc1 Er) as (Hrs & Hk & Hc2 & F1 & F2 & F3).
    rewrite kept_cons. cbn [accept_spec accepted]. fold (gate (wlast w) k). rewrite <- Hr. rewrite Hl1 in Hrs, Hk.
    destruct r; cbn [app].
    + rewrite <- Hrs, <- Hk. unfold sum_keys, sum_vals in *. cbn [map sumN fst snd length]. splits; try reflexivity; try assumption; lia.
    + rewrite <- Hrs, <- Hk. splits; try reflexivity; try assumption; lia.
Qed.
End Results.

Print Assumptions parse_frames_frames.
Print Assumptions parse_trailer_write.
Print Assumptions parse_block_finish.
Print Assumptions check_block_bb.
Print Assumptions session_bytes_wf.
Print Assumptions adds_facts.
