From Coq Require Import NArith ZArith List Lia ZifyBool ZifyN.
From Mtbl Require Import model.Bytes model.Order proofs.BytesLemmas.
Local Open Scope N_scope.
Ltac Zify.zify_post_hook ::= Z.div_mod_to_equations.

(* ---- bytes_compare is a strict total order: unsigned lexicographic, a proper
        prefix sorting first --------------------------------------------------- *)

Lemma bcmp_refl a : bcmp a a = Eq.
Proof. induction a as [|x a IH]; cbn; [reflexivity|]. rewrite N.compare_refl. exact IH. Qed.

Lemma bcmp_eq a b : bcmp a b = Eq -> a = b.
Proof.
  revert b. induction a as [|x a IH]; intros [|y b] H; cbn in H; try discriminate; [reflexivity|].
  destruct (N.compare_spec x y) as [->|Hlt|Hgt]; try discriminate. f_equal. apply IH, H.
Qed.

Lemma bcmp_eq_iff a b : bcmp a b = Eq <-> a = b.
Proof. split; [apply bcmp_eq|intros ->; apply bcmp_refl]. Qed.

Lemma bcmp_antisym a b : bcmp b a = CompOpp (bcmp a b).
Proof.
  revert b. induction a as [|x a IH]; intros [|y b]; cbn; try reflexivity.
  rewrite (N.compare_antisym x y). destruct (x ?= y); cbn; [apply IH|reflexivity|reflexivity].
Qed.

Lemma bcmp_lt_gt a b : bcmp a b = Lt <-> bcmp b a = Gt.
Proof. rewrite (bcmp_antisym a b). destruct (bcmp a b); cbn; split; congruence. Qed.

Lemma bcmp_lt_trans a b c : bcmp a b = Lt -> bcmp b c = Lt -> bcmp a c = Lt.
Proof.
  revert b c. induction a as [|x a IH]; intros [|y b] [|z c] H1 H2; cbn in *; try discriminate; try reflexivity.
  destruct (N.compare_spec x y) as [->|Hxy|Hxy]; try discriminate.
  - destruct (N.compare_spec y z) as [->|Hyz|Hyz]; try discriminate; [eapply IH; eassumption|reflexivity].
  - destruct (N.compare_spec y z) as [->|Hyz|Hyz]; try discriminate.
    + destruct (N.compare_spec x z); try lia; reflexivity.
    + destruct (N.compare_spec x z); try lia; reflexivity.
Qed.

Lemma bcmp_le_lt_trans a b c : bcmp a b <> Gt -> bcmp b c = Lt -> bcmp a c = Lt.
Proof.
  intros H1 H2. destruct (bcmp a b) eqn:E; [|eapply bcmp_lt_trans; eassumption|congruence].
  apply bcmp_eq in E. subst. exact H2.
Qed.
Lemma bcmp_lt_le_trans a b c : bcmp a b = Lt -> bcmp b c <> Gt -> bcmp a c = Lt.
Proof.
  intros H1 H2. destruct (bcmp b c) eqn:E; [|eapply bcmp_lt_trans; eassumption|congruence].
  apply bcmp_eq in E. subst. exact H1.
Qed.

(* characterisation: a < b iff a is a proper prefix of b, or they first differ at a
   position where a's byte is smaller *)
Lemma bcmp_lt_spec a b : bcmp a b = Lt <->
  (exists s, s <> [] /\ b = a ++ s) \/
  (exists p x y a' b', a = p ++ x :: a' /\ b = p ++ y :: b' /\ x < y).
Proof.
  split.
  - revert b. induction a as [|x a IH]; intros [|y b] H; cbn in H; try discriminate.
    + left. exists (y :: b). split; [discriminate|reflexivity].
    + destruct (N.compare_spec x y) as [->|Hlt|Hgt]; try discriminate.
      * destruct (IH b H) as [(s & Hs & ->)|(p & x' & y' & a' & b' & -> & -> & Hxy)].
        -- left. exists s. split; [exact Hs|reflexivity].
        -- right. exists (y :: p), x', y', a', b'. repeat split; assumption.
      * right. exists [], x, y, a, b. repeat split; assumption.
  - intros [(s & Hs & ->)|(p & x & y & a' & b' & -> & -> & Hxy)].
    + induction a as [|x a IH]; cbn; [destruct s; [congruence|reflexivity]|].
      rewrite N.compare_refl. exact IH.
    + induction p as [|z p IH]; cbn; [|rewrite N.compare_refl; exact IH].
      destruct (N.compare_spec x y); try lia; reflexivity.
Qed.

(* ---- longest common prefix ----------------------------------------------------- *)
Lemma lcp_le_l a b : lcp a b <= len a.
Proof.
  revert b. induction a as [|x a IH]; intros [|y b]; cbn [lcp]; try (unfold len; cbn; lia).
  destruct (x =? y); [|unfold len; cbn; lia]. rewrite len_cons. specialize (IH b). lia.
Qed.
Lemma lcp_le_r a b : lcp a b <= len b.
Proof.
  revert b. induction a as [|x a IH]; intros [|y b]; cbn [lcp]; try (unfold len; cbn; lia).
  destruct (x =? y); [|unfold len; cbn; lia]. rewrite len_cons. specialize (IH b). lia.
Qed.
Lemma lcp_take a b : take (lcp a b) a = take (lcp a b) b.
Proof.
  revert b. induction a as [|x a IH]; intros [|y b]; cbn [lcp]; try reflexivity.
  destruct (N.eqb_spec x y) as [->|Hne]; [|reflexivity].
  unfold take. replace (N.to_nat (1 + lcp a b)) with (S (N.to_nat (lcp a b))) by lia.
  cbn [firstn]. f_equal. apply IH.
Qed.

(* ---- bytes_shortest_separator --------------------------------------------------- *)

Lemma sep_early_prefix a b : sep_early a b = true -> sep a b = a.
Proof.
  revert b. induction a as [|x a IH]; intros [|y b] H; cbn in *; try reflexivity.
  destruct (x =? y); [|discriminate]. f_equal. apply IH, H.
Qed.

(* T09c: for a < b (both byte strings), a <= sep a b < b, and |sep a b| <= |a| *)
Theorem sep_between a b : wf_bytes a -> wf_bytes b -> bcmp a b = Lt ->
  bcmp a (sep a b) <> Gt /\ bcmp (sep a b) b = Lt /\ len (sep a b) <= len a.
Proof.
  revert b. induction a as [|x a IH]; intros [|y b] Ha Hb H; cbn in H; try discriminate.
  - cbn. repeat split; [discriminate|unfold len; cbn; lia].
  - inversion Ha as [|? ? Hx Ha']; inversion Hb as [|? ? Hy Hb']; subst. unfold wf_byte in *.
    cbn [sep]. destruct (N.eqb_spec x y) as [->|Hne].
    + rewrite N.compare_refl in H. destruct (IH b Ha' Hb' H) as (H1 & H2 & H3).
      cbn [bcmp]. rewrite N.compare_refl. repeat split; [exact H1|exact H2|rewrite !len_cons, ?len_nil; lia].
    + destruct (N.compare_spec x y) as [Heq|Hlt|Hgt]; try discriminate; [congruence|].
      destruct ((x <? 255) && (x + 1 <? y)) eqn:E1.
      * cbn [bcmp]. destruct (N.compare_spec x (x + 1)); try lia. destruct (N.compare_spec (x + 1) y); try lia.
        repeat split; [discriminate|rewrite len_cons; unfold len; cbn; lia].
      * assert (Hdef : bcmp (x :: a) (x :: a) <> Gt /\ bcmp (x :: a) (y :: b) = Lt /\ len (x :: a) <= len (x :: a)).
        { rewrite bcmp_refl. repeat split; [discriminate| |lia]. cbn [bcmp]. destruct (N.compare_spec x y); try lia; reflexivity. }
        destruct a as [|x1 [|x2 a]]; try exact Hdef.
        destruct b as [|y1 [|y2 b]]; try exact Hdef.
        match goal with |- context [if ?c then _ else _] => destruct c eqn:E2 end; [|exact Hdef].
        inversion Ha' as [|? ? Hx1 _]; inversion Hb' as [|? ? Hy1 _]; subst. unfold wf_byte in *.
        set (us := x * 256 + x1) in *. set (ul := y * 256 + y1) in *.
        set (ub := (us + 1) mod 65536) in *.
        assert (Hub : ub = us + 1) by (subst ub us; apply N.mod_small; lia).
        assert (Hle : ub <= ul) by lia.
        cbn [bcmp].
        assert (Hd : ub / 256 = x /\ ub mod 256 = x1 + 1 \/ ub / 256 = x + 1 /\ ub mod 256 = 0 /\ x1 = 255).
        { subst us. destruct (N.eq_dec x1 255) as [->|Hx1']; [right|left]; lia. }
        destruct Hd as [(Hq & Hr)|(Hq & Hr & Hx1')].
        -- rewrite Hq, Hr. rewrite N.compare_refl.
           destruct (N.compare_spec x1 (x1 + 1)); try lia.
           destruct (N.compare_spec x y); try lia.
           repeat split; [discriminate|rewrite !len_cons, ?len_nil; lia].
        -- rewrite Hq, Hr. destruct (N.compare_spec x (x + 1)); try lia.
           assert (x + 1 = y) by (subst us ul; lia). subst y.
           rewrite N.compare_refl.
           destruct (N.compare_spec 0 y1) as [Hy0|Hy0|Hy0]; try lia.
           ++ repeat split; [discriminate|rewrite !len_cons, ?len_nil; lia].
           ++ repeat split; [discriminate|rewrite !len_cons, ?len_nil; lia].
Qed.

(* the assert at the end of bytes_shortest_separator never fires for a < b *)
Lemma sep_assert_ok a b : wf_bytes a -> wf_bytes b -> bcmp a b = Lt -> blt (sep a b) b = true.
Proof. intros Ha Hb H. unfold blt. destruct (sep_between a b Ha Hb H) as (_ & -> & _). reflexivity. Qed.

Lemma sep_wf a b : wf_bytes a -> wf_bytes b -> wf_bytes (sep a b).
Proof.
  revert b. induction a as [|x a IH]; intros [|y b] Ha Hb; cbn [sep]; try exact Ha.
  inversion Ha as [|? ? Hx Ha']; inversion Hb as [|? ? Hy Hb']; subst. unfold wf_byte in *.
  destruct (x =? y); [constructor; [exact Hx|apply IH; assumption]|].
  destruct ((x <? 255) && (x + 1 <? y)) eqn:E; [constructor; [unfold wf_byte; lia|constructor]|].
  destruct a as [|x1 [|x2 a]]; try exact Ha. destruct b as [|y1 [|y2 b]]; try exact Ha.
  match goal with |- context [if ?c then _ else _] => destruct c end; [|exact Ha].
  constructor; [unfold wf_byte; lia|]. constructor; [unfold wf_byte; lia|constructor].
Qed.
