(* Memory-level reader iterators: the per-iterator invariant (ownership + coherence of the
   buffers with the functional state) and the specification of one call of
   mem_iter_next / _seek / _free / _make: same functional result as model/Reader.v, no
   fault, only owned or fresh buffers touched, invariant re-established, the addresses
   handed out dereference to the entry. *)
From Coq Require Import NArith ZArith List Lia ZifyBool ZifyN ZifyNat.
From Mtbl Require Import gen.Consts model.Bytes model.Codec model.Order spec.Parse model.Reader model.IterMem
  proofs.BytesLemmas proofs.IterMemBase.
Local Open Scope N_scope.

Definition nout_entry (o : nout) : option entry :=
  match o with NFail => None | NOk _ _ _ _ e => Some e end.

(* [frame own m m']: the call changed no pre-existing buffer outside [own], and not the file *)
Definition frame (own : list nat) (m m' : mem) : Prop :=
  m_file m' = m_file m /\ (m_next m <= m_next m')%nat /\
  (forall j, (j < m_next m)%nat -> ~ In j own -> hg m' j = hg m j).

(* every buffer in own' was in own or has been allocated since m *)
Definition fresh_or (own : list nat) (m : mem) (own' : list nat) : Prop :=
  forall j, In j own' -> In j own \/ (m_next m <= j)%nat.

(* the addresses handed out dereference to the entry and lie in owned buffers or the file *)
Definition nout_ok (m : mem) (own : list nat) (o : nout) : Prop :=
  match o with
  | NFail => True
  | NOk ka kl va vl e =>
    deref m ka kl = Some (fst e) /\ deref m va vl = Some (snd e) /\ addr_in ka own /\ addr_in va own
  end.

Section Step.
Variable decompress : N -> bytes -> res bytes.
Variable pol : mem -> nat -> bytes -> bool.
Variable r : reader.
Variable ib : ablock.
Hypothesis Hidx : r_index r = Some ib.

(* coherence of the data block part *)
Definition blk_coh (m : mem) (blk : option (N * ablock)) (bi : bstate) (lb : option (nat * addr * N)) : Prop :=
  match blk, lb with
  | Some (o, b), Some (bk, da, sz) =>
    (bs_valid bi = true -> live m bk = Some (bs_key b bi)) /\
    (exists raw, deref m da sz = Some raw /\ block_init raw = Some b) /\
    match da with AFile _ => True | AHeap _ off => off = 0 end
  | None, None => True
  | _, _ => False
  end.

Definition k_coh (m : mem) (kind : ikind) (k : bytes) (lk : option nat) : Prop :=
  match lk with Some kid => live m kid = Some k | None => kind = KIter end.

(* the invariant, on the components of the functional iterator that matter *)
Definition inv_c (m : mem) (idx : bstate) (blk : option (N * ablock)) (bi : bstate)
    (kind : ikind) (k : bytes) (L : mloc) : Prop :=
  NoDup (owns_loc L) /\
  (forall id, In id (owns_loc L) -> (id < m_next m)%nat /\ live m id <> None) /\
  (bs_valid idx = true -> live m (ml_ikey L) = Some (bs_key ib idx)) /\
  blk_coh m blk bi (ml_blk L) /\ k_coh m kind k (ml_k L).

Definition mi_inv (m : mem) (mi : miter) : Prop :=
  let it := mi_it mi in
  inv_c m (it_index it) (it_b it) (it_bi it) (it_kind it) (it_k it) (mi_loc mi).

(* what the functional model needs to hand out an entry: the block iterator stands on an entry *)
Definition bi_range (it : riter) : Prop :=
  match it_b it with
  | Some (_, b) => bs_valid (it_bi it) = true -> (bs_cur (it_bi it) < nentries b)%nat
  | None => True
  end.

(* tail of reader_iter_next in model/Reader.v *)
Definition fun_finish (it : riter) (blk : option (N * ablock)) (boff : N) (bi2 idx2 : bstate) (valid : bool)
  : res (riter * option entry) :=
  if negb valid then Ok (mkri (it_kind it) (it_k it) boff blk bi2 idx2 false false, None)
  else match blk with
       | Some (_, cb) =>
         let e := entry_at cb (bs_cur bi2) in
         let ok := bound_ok (it_kind it) (it_k it) (pe_key e) in
         Ok (mkri (it_kind it) (it_k it) boff blk bi2 idx2 false ok,
             if ok then Some (pe_key e, pe_val e) else None)
       | None => Abort
       end.

Lemma fun_finish_proj it blk boff bi2 idx2 valid it2 e :
  fun_finish it blk boff bi2 idx2 valid = Ok (it2, e) ->
  it_b it2 = blk /\ it_bi it2 = bi2 /\ it_index it2 = idx2 /\ it_kind it2 = it_kind it /\ it_k it2 = it_k it.
Proof.
  unfold fun_finish. destruct (negb valid).
  - intros H. inversion H. cbn. repeat split.
  - destruct blk as [[o cb]|]; [|discriminate]. intros H. inversion H. cbn. repeat split.
Qed.

Lemma read_bound_coh m it L : k_coh m (it_kind it) (it_k it) (ml_k L) -> read_bound m it L = Some (it_k it).
Proof.
  unfold k_coh, read_bound. destruct (ml_k L) as [kid|].
  - intros ->. destruct (it_kind it); reflexivity.
  - intros ->. reflexivity.
Qed.

Lemma next_finish_spec m it L blk lblk boff bi2 idx2 ik2 valid it2 e :
  fun_finish it blk boff bi2 idx2 valid = Ok (it2, e) ->
  k_coh m (it_kind it) (it_k it) (ml_k L) ->
  blk_coh m blk bi2 lblk ->
  (valid = true -> bs_valid bi2 = true) ->
  (valid = true -> match blk with Some (_, cb) => (bs_cur bi2 < nentries cb)%nat | None => True end) ->
  exists o, next_finish m it L blk lblk boff bi2 idx2 ik2 valid = MOk (m, mkmi it2 (mkml ik2 lblk (ml_k L)), o) /\
    nout_entry o = e /\ nout_ok m (blk_owned lblk) o.
Proof.
  unfold fun_finish, next_finish. intros Hf Hk Hb Hv Hr. destruct valid; cbn [negb] in *.
  2:{ inversion Hf; subst. exists NFail. repeat split. }
  destruct blk as [[o cb]|]; [|discriminate].
  destruct lblk as [[[cbk cda] csz]|]; [|destruct Hb].
  destruct Hb as (Hkey & (raw & Hraw & Hinit) & Hda).
  specialize (Hkey (Hv eq_refl)). specialize (Hr eq_refl).
  destruct (val_off_ok raw cb (bs_cur bi2) Hinit Hr) as (vo & Hvo & Hsl).
  unfold mem_block_get. rewrite Hraw, Hvo. cbn [of_opt mbind].
  rewrite (read_bound_coh m it L Hk). cbn [of_opt mbind].
  inversion Hf; subst. clear Hf.
  destruct (bound_ok (it_kind it) (it_k it) (pe_key (entry_at cb (bs_cur bi2)))).
  - eexists. split; [reflexivity|]. split; [reflexivity|]. cbn [nout_ok fst snd].
    split; [|split; [|split]].
    + cbn [deref]. rewrite Hkey. apply slice_full.
    + eapply deref_add; eassumption.
    + cbn. left. reflexivity.
    + apply addr_in_add. destruct cda; cbn; [exact I|]. right. left. reflexivity.
  - eexists. split; [reflexivity|]. split; [reflexivity|]. exact I.
Qed.

End Step.

(* ---------------------------------------------------------------- rewrites of a key ubuf *)
Definition synced (m : mem) (id : nat) (m1 : mem) (id1 : nat) (c1 : bytes) : Prop :=
  m_file m1 = m_file m /\ (m_next m <= m_next m1)%nat /\ (id1 < m_next m1)%nat /\
  (id1 = id \/ id1 = m_next m) /\
  (forall j, hg m1 j = if Nat.eqb id1 j then Some (Some c1) else if Nat.eqb id j then Some None else hg m j).

Lemma bkey_sync_spec pol m id b s old : live m id = Some old -> (id < m_next m)%nat ->
  exists m1 id1 c1, bkey_sync pol m id b s = Some (m1, id1) /\ synced m id m1 id1 c1 /\
                    (bs_valid s = true -> c1 = bs_key b s).
Proof.
  intros Hl Hlt. unfold bkey_sync.
  destruct (key_update_spec pol m id (fun old => if bs_valid s then bs_key b s else old) old Hl Hlt)
    as (m1 & id1 & -> & Hf & Hn & Hi & Hd & Hh).
  exists m1, id1, (if bs_valid s then bs_key b s else old). split; [reflexivity|]. split.
  - unfold synced. repeat split; assumption.
  - intros ->. reflexivity.
Qed.

(* no rewrite at all is a degenerate case of the same description *)
Lemma synced_refl m id old : live m id = Some old -> (id < m_next m)%nat -> synced m id m id old.
Proof.
  intros Hl Hlt. unfold synced. repeat split; try lia. intros j.
  destruct (Nat.eqb id j) eqn:E; [|reflexivity]. apply Nat.eqb_eq in E. subst j.
  rewrite live_hg in Hl. unfold hg in *. destruct (hget (m_heap m) id) as [[c|]|]; congruence.
Qed.

(* ---------------------------------------------------------------- block load / unload *)
Definition dfree (da : addr) (j : nat) : bool :=
  match da with AFile _ => false | AHeap d _ => Nat.eqb d j end.

Lemma mem_drop_blk_spec m bk da sz : live m bk <> None ->
  (forall id, In id (data_owned da) -> live m id <> None /\ id <> bk) ->
  exists m', mem_drop_blk m (Some (bk, da, sz)) = Some m' /\ m_file m' = m_file m /\ m_next m' = m_next m /\
    (forall j, hg m' j = if Nat.eqb bk j then Some None
                         else if dfree da j then Some None else hg m j).
Proof.
  intros Hb Hd. unfold mem_drop_blk, mem_block_destroy. destruct da as [fo|d off]; cbn [data_owned dfree] in *.
  - destruct (mfree_spec m bk Hb) as (m1 & -> & Hn & Hf & Hh). exists m1. repeat split; assumption.
  - destruct (Hd d (or_introl eq_refl)) as [Hld Hne].
    destruct (mfree_spec m d Hld) as (m1 & -> & Hn & Hf & Hh).
    assert (Hb1 : live m1 bk <> None).
    { rewrite live_hg, Hh. replace (Nat.eqb d bk) with false by lia. exact Hb. }
    destruct (mfree_spec m1 bk Hb1) as (m2 & -> & Hn2 & Hf2 & Hh2). exists m2.
    repeat split; try congruence. intros j. rewrite Hh2, Hh. reflexivity.
Qed.

Lemma mem_get_block_spec decompress r m off nb : get_block decompress r off = Ok nb -> m_file m = r_file r ->
  exists m' da raw, mem_get_block decompress r m off = MOk (m', nb, da, len raw) /\
    m_file m' = m_file m /\ block_init raw = Some nb /\
    ((exists fo, da = AFile fo /\ slice (m_file m) fo (len raw) = Some raw) /\ m' = m \/
     da = AHeap (m_next m) 0 /\ m_next m' = S (m_next m) /\
     (forall j, hg m' j = if Nat.eqb (m_next m) j then Some (Some raw) else hg m j)).
Proof.
  intros Hg Hfile. destruct (get_block_loc_spec decompress r off nb Hg) as (doff & raw & Hl & Hinit & Hsl).
  unfold mem_get_block. rewrite Hl. cbn [of_res mbind]. destruct (r_comp r =? COMP_NONE) eqn:Ec.
  - exists m, (AFile doff), raw. split; [reflexivity|]. repeat split; try assumption.
    left. split; [|reflexivity]. eexists; split; [reflexivity|]. rewrite Hfile. apply Hsl. reflexivity.
  - destruct (alloc m raw) as [m1 id] eqn:Ea. destruct (alloc_spec _ _ _ _ Ea) as (-> & Hn & Hf & Hh).
    exists m1, (AHeap (m_next m) 0), raw. split; [reflexivity|]. repeat split; try assumption.
    right. repeat split; assumption.
Qed.



(* ---------------------------------------------------------------- the invariant only reads owned buffers *)
Lemma live_same m m' id : hg m' id = hg m id -> live m' id = live m id.
Proof. intros H. rewrite !live_hg, H. reflexivity. Qed.

Lemma blk_coh_frame m m' blk bi lb : m_file m' = m_file m ->
  (forall id, In id (blk_owned lb) -> hg m' id = hg m id) ->
  blk_coh m blk bi lb -> blk_coh m' blk bi lb.
Proof.
  intros Hf Hh. unfold blk_coh. destruct blk as [[o b]|], lb as [[[bk da] sz]|]; try exact (fun x => x).
  intros (Hk & (raw & Hraw & Hinit) & Hda). split; [|split; [|exact Hda]].
  - intros Hv. rewrite (live_same m m' bk); [apply Hk, Hv|]. apply Hh. cbn. left. reflexivity.
  - exists raw. split; [|exact Hinit]. rewrite <- Hraw. apply (deref_frame m m' da sz (data_owned da) Hf).
    + intros id Hid. apply Hh. cbn. right. exact Hid.
    + destruct da; cbn; [exact I|left; reflexivity].
Qed.

Lemma inv_c_frame ib m m' idx blk bi kind k L : m_file m' = m_file m -> (m_next m <= m_next m')%nat ->
  (forall id, In id (owns_loc L) -> hg m' id = hg m id) ->
  inv_c ib m idx blk bi kind k L -> inv_c ib m' idx blk bi kind k L.
Proof.
  intros Hf Hn Hh (Hnd & Hlv & Hic & Hbc & Hkc). unfold inv_c. split; [exact Hnd|]. split; [|split; [|split]].
  - intros id Hid. destruct (Hlv id Hid) as [H1 H2]. split; [lia|]. rewrite (live_same m m' id (Hh id Hid)). exact H2.
  - intros Hv. rewrite (live_same m m'); [apply Hic, Hv|]. apply Hh. left. reflexivity.
  - apply (blk_coh_frame m m'); [exact Hf| |exact Hbc]. intros id Hid. apply Hh. unfold owns_loc. right.
    apply in_or_app. left. exact Hid.
  - unfold k_coh in *. destruct (ml_k L) as [kid|] eqn:Ek; [|exact Hkc].
    rewrite (live_same m m'); [exact Hkc|]. apply Hh. unfold owns_loc. rewrite Ek. right. apply in_or_app. right. left. reflexivity.
Qed.

(* mem_drop_blk on a possibly absent block *)
Definition bkfree (lb : option (nat * addr * N)) (j : nat) : bool :=
  match lb with Some (bk, _, _) => Nat.eqb bk j | None => false end.
Definition dafree (lb : option (nat * addr * N)) (j : nat) : bool :=
  match lb with Some (_, da, _) => dfree da j | None => false end.

Lemma mem_drop_blk_spec' m lb :
  (forall id, In id (blk_owned lb) -> live m id <> None) -> NoDup (blk_owned lb) ->
  exists m', mem_drop_blk m lb = Some m' /\ m_file m' = m_file m /\ m_next m' = m_next m /\
    (forall j, hg m' j = if bkfree lb j then Some None else if dafree lb j then Some None else hg m j).
Proof.
  intros Hl Hnd. destruct lb as [[[bk da] sz]|].
  - cbn [bkfree dafree]. apply mem_drop_blk_spec.
    + apply Hl. cbn. left. reflexivity.
    + intros id Hid. split; [apply Hl; cbn; right; exact Hid|]. cbn in Hnd. apply NoDup_cons_iff in Hnd.
      intros ->. apply (proj1 Hnd). exact Hid.
  - exists m. cbn. repeat split.
Qed.

Ltac hg_chain := repeat match goal with H : forall j, hg ?m j = _ |- context [hg ?m _] => rewrite H end.
Ltac eqb_solve := repeat match goal with
  | |- context [Nat.eqb ?a ?a] => rewrite (Nat.eqb_refl a)
  | |- context [Nat.eqb ?a ?b] =>
   first [ replace (Nat.eqb a b) with false by (symmetry; apply Nat.eqb_neq; lia)
         | replace (Nat.eqb a b) with true by (symmetry; apply Nat.eqb_eq; lia) ] end.
