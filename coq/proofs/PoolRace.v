(* C14, main theorem: in every reachable state of the thread-pool LTS no two distinct
   threads have conflicting in-flight code segments. *)
From Coq Require Import NArith List Lia ZifyBool ZifyN ZifyNat Bool Arith.
From Mtbl Require Import model.Bytes model.Pool proofs.PoolBase proofs.PoolSched proofs.PoolGuard proofs.PoolInv proofs.PoolLife
  proofs.PoolStep2 proofs.PoolAbort proofs.PoolRaceDefs proofs.PoolRaceStep proofs.PoolRaceInv.
Import ListNotations.

(* ---------- membership in the access lists ---------- *)
Lemma in_dead_frees st a : In a (dead_frees st) ->
  exists i, (i < length (ps_workers st))%nat /\ dying (getw st i) = true /\ t_done (gett st (wk_tid (getw st i))) = true /\
            (a = W (LBox i) \/ a = W (LRun i) \/ a = W (LNext i)).
Proof.
  unfold dead_frees. intros H. apply in_flat_map in H. destruct H as (i & Hi & H). apply in_seq in Hi.
  destruct (dying (getw st i)) eqn:Ed; [|destruct H]. destruct (t_done _) eqn:Et; [|destruct H]. cbn [andb] in H.
  exists i. split; [lia|]. split; [exact Ed|]. split; [exact Et|].
  destruct H as [H|[H|[H|[]]]]; subst; auto.
Qed.

Lemma in_links l a : In a (links l) -> exists p, In p l /\ a = W (LNext p).
Proof. unfold links. intros H. apply in_map_iff in H. destruct H as (p & E & H). exists p. split; [exact H|symmetry; exact E]. Qed.

Lemma in_exit_access ext st t a : In a (exit_access ext st t) ->
  (exists i, (i < length (ps_workers st))%nat /\ Nat.eqb (wk_tid (getw st i)) t = true /\ a = R (LBox i)) \/
  (ext = true /\ exists j, (j < length (ps_queues st))%nat /\ Nat.eqb (q_tid (getq st j)) t = true /\
     (a = R (LRh j) \/ a = R (LQueue j) \/ a = W (LQueue j) \/ a = W (LRh j))).
Proof.
  unfold exit_access. intros H. apply in_app_or in H. destruct H as [H|H].
  - left. apply in_flat_map in H. destruct H as (i & Hi & H). apply in_seq in Hi.
    destruct (Nat.eqb (wk_tid (getw st i)) t) eqn:E; [|destruct H]. destruct H as [H|[]]. exists i. repeat split; try lia; auto.
  - right. destruct ext; [|destruct H]. split; [reflexivity|].
    apply in_flat_map in H. destruct H as (j & Hj & H). apply in_seq in Hj.
    destruct (Nat.eqb (q_tid (getq st j)) t) eqn:E; [|destruct H]. exists j. split; [lia|]. split; [exact E|].
    destruct H as [H|[H|[H|[H|[]]]]]; subst; auto.
Qed.

Lemma in_rh_frees st a : In a (rh_frees st) ->
  exists j, (j < length (ps_queues st))%nat /\ q_finished (getq st j) = true /\ t_done (gett st (q_tid (getq st j))) = true /\ a = W (LRh j).
Proof.
  unfold rh_frees. intros H. apply in_flat_map in H. destruct H as (j & Hj & H). apply in_seq in Hj.
  destruct (q_finished (getq st j)) eqn:Ef; [|destruct H]. destruct (t_done _) eqn:Et; [|destruct H]. cbn [andb] in H.
  destruct H as [H|[]]. exists j. split; [lia|]. split; [exact Ef|]. split; [exact Et|]. symmetry. exact H.
Qed.

Ltac inv_in H :=
  lazymatch type of H with
  | In _ (_ ++ _) => apply in_app_or in H; destruct H as [H|H]; inv_in H
  | In _ (_ :: _) => destruct H as [H|H]; inv_in H
  | In _ [] => contradiction H
  | In _ (if ?c then _ else _) => destruct c eqn:?; inv_in H
  | In _ (match ?o with _ => _ end) => destruct o eqn:?; inv_in H
  | In _ (links _) => let p := fresh "p" in let Hp := fresh "Hp" in apply in_links in H; destruct H as (p & Hp & H); inv_in H
  | In _ (dead_frees _) =>
    let k := fresh "k" in let Hk := fresh "Hk" in let Hdy := fresh "Hdy" in let Hdn := fresh "Hdn" in
    apply in_dead_frees in H; destruct H as (k & Hk & Hdy & Hdn & [H|[H|H]]); inv_in H
  | In _ (exit_access _ _ _) =>
    let k := fresh "k" in let Hk := fresh "Hk" in let Hid := fresh "Hid" in let Hext := fresh "Hext" in
    apply in_exit_access in H; destruct H as [(k & Hk & Hid & H)|(Hext & k & Hk & Hid & [H|[H|[H|H]]])]; inv_in H
  | In _ (rh_frees _) =>
    let k := fresh "k" in let Hk := fresh "Hk" in let Hfin := fresh "Hfin" in let Hdn := fresh "Hdn" in
    apply in_rh_frees in H; destruct H as (k & Hk & Hfin & Hdn & H); inv_in H
  | _ = _ => unfold R, W in H; first [discriminate H | inversion H; subst; clear H]
  | _ => idtac
  end.

Lemma holds_wait th : t_op th = KWait -> In (wait_mutex (t_lab th)) (holds th).
Proof. intros H. unfold holds. rewrite H. left. reflexivity. Qed.
Lemma holds_unlock th : t_op th = KUnlock -> In (t_obj th) (holds th).
Proof. intros H. unfold holds. rewrite H. left. reflexivity. Qed.
Lemma holds_started th m : In m (holds th) -> t_op th <> KStart /\ t_op th <> KExit /\ t_op th <> KCreate.
Proof. unfold holds. destruct (t_op th); cbn; intros H; try contradiction; repeat split; discriminate. Qed.

Definition lab_handler (l : label) : option nat :=
  match l with H0 j | H1 j | H3 j _ | H4 j _ | H6 j _ | H7 j _ | H7s j _ | H8 j _ => Some j | _ => None end.

Definition dead (st : pstate) (i : nat) : Prop :=
  (i < length (ps_workers st))%nat /\ dying (getw st i) = true /\ t_done (gett st (wk_tid (getw st i))) = true.

Section Cases.
Variables cre ext : bool.
Variable st : pstate.
Hypothesis I1 : Inv1 st.

Ltac obj_of Ha :=
  cbn [allowed] in Ha; unfold lwr, is_op in Ha; cbn [opk_eqb andb orb] in Ha; rewrite ?orb_false_r in Ha;
  try match type of Ha with obj_eqb ?a ?b = true => destruct (obj_eqb_spec a b) as [Eo|]; [|discriminate Ha] end.

(* pool->head, pool->count *)
Lemma acc_pool y w : In (LPool, w) (inflight_gen cre ext st y) -> In OPoolM (holds (gett st y)).
Proof.
  intros H. unfold inflight_gen in H.
  destruct (t_done (gett st y)); [contradiction|].
  pose proof (shape_allowed _ (i1_shape _ I1 y)) as Ha.
  destruct (t_op (gett st y)) eqn:Eop; destruct (t_lab (gett st y)) eqn:El; try contradiction; inv_in H;
    first [ apply lab_holds; [exact I1|]; rewrite El; cbn [lab_held In]; auto; fail
          | pose proof (holds_wait _ Eop) as Hh; rewrite El in Hh; exact Hh ].
Qed.

(* a result queue *)
Inductive q_case (y q : nat) : Prop :=
| qc_cre : cre = true -> t_lab (gett st y) = CNext -> q = (length (ps_queues st) - 1)%nat -> q_case y q
| qc_caller : caller_lab (t_lab (gett st y)) = true -> In (OQm q) (holds (gett st y)) ->
    (t_lab (gett st y) = D7s q \/ (t_lab (gett st y) = D8 /\ t_obj (gett st y) = OQm q) \/ t_lab (gett st y) = F1s q) -> q_case y q
| qc_worker i : t_lab (gett st y) = W4us i q -> In (OQm q) (holds (gett st y)) -> q_case y q
| qc_handler : lab_handler (t_lab (gett st y)) = Some q -> In (OQm q) (holds (gett st y)) -> q_case y q
| qc_exit : ext = true -> t_op (gett st y) = KExit -> (q < length (ps_queues st))%nat -> q_tid (getq st q) = y -> q_case y q.

Lemma acc_queue y q w : In (LQueue q, w) (inflight_gen cre ext st y) -> t_done (gett st y) = false /\ q_case y q.
Proof.
  intros H. unfold inflight_gen in H.
  destruct (t_done (gett st y)); [contradiction|]. split; [reflexivity|].
  pose proof (shape_allowed _ (i1_shape _ I1 y)) as Ha.
  destruct (t_op (gett st y)) eqn:Eop; destruct (t_lab (gett st y)) eqn:El; try contradiction; inv_in H.
  all: try (apply qc_cre; [assumption|assumption|reflexivity]).
  all: try (apply qc_exit; try assumption; apply Nat.eqb_eq; assumption).
  all: try (apply qc_handler; [rewrite El; reflexivity|];
            first [ apply lab_holds; [exact I1|]; rewrite El; cbn [lab_held In]; auto; fail
                  | pose proof (holds_wait _ Eop) as Hh; rewrite El in Hh; exact Hh ]).
  all: try (eapply qc_worker; [eassumption|]; apply lab_holds; [exact I1|]; rewrite El; cbn [lab_held In]; auto).
  all: try (apply qc_caller; [rewrite El; reflexivity| |rewrite El; auto];
            first [ apply lab_holds; [exact I1|]; rewrite El; cbn [lab_held In]; auto; fail
                  | match goal with E : t_obj _ = OQm _ |- _ => rewrite <- E end; apply holds_unlock; exact Eop ]).
Qed.

Ltac holds_now El Eop :=
  first [ apply lab_holds; [exact I1|]; rewrite El; cbn [lab_held In]; auto; fail
        | match goal with |- In ?m (holds ?th) => let Hh := fresh in pose proof (holds_wait th Eop) as Hh; rewrite El in Hh; exact Hh end
        | match goal with E : t_obj _ = _ |- _ => rewrite <- E end; apply holds_unlock; exact Eop ].

(* thr->running *)
Inductive run_case (y i : nat) : bool -> Prop :=
| rc_free : caller_lab (t_lab (gett st y)) = true -> lab_free (t_lab (gett st y)) = Some i -> run_case y i false
| rc_cre q : cre = true -> t_lab (gett st y) = D4 q i -> run_case y i true
| rc_d5s q : t_lab (gett st y) = D5s q i -> run_case y i true
| rc_dead : caller_lab (t_lab (gett st y)) = true -> dead st i -> run_case y i true
| rc_p3s : t_lab (gett st y) = P3s i -> run_case y i true
| rc_wloop : lab_worker (t_lab (gett st y)) = Some i -> In (OWm i) (holds (gett st y)) -> run_case y i false
| rc_w4u q : t_lab (gett st y) = W4u i q -> run_case y i true
| rc_w4os : t_lab (gett st y) = W4os i -> run_case y i true
| rc_h4 j : t_lab (gett st y) = H4 j i -> In (OWm i) (holds (gett st y)) -> run_case y i false
| rc_h6 j : t_lab (gett st y) = H6 j i -> run_case y i false.

Lemma acc_run y i w : In (LRun i, w) (inflight_gen cre ext st y) -> t_done (gett st y) = false /\ run_case y i w.
Proof.
  intros H. unfold inflight_gen in H.
  destruct (t_done (gett st y)); [contradiction|]. split; [reflexivity|].
  pose proof (shape_allowed _ (i1_shape _ I1 y)) as Ha.
  destruct (t_op (gett st y)) eqn:Eop; destruct (t_lab (gett st y)) eqn:El; try contradiction; inv_in H.
  all: try (apply rc_dead; [rewrite El; reflexivity|repeat split; assumption]).
  all: try (apply rc_free; rewrite El; reflexivity).
  all: try (eapply rc_cre; [assumption|eassumption]).
  all: try (eapply rc_d5s; eassumption).
  all: try (apply rc_p3s; assumption).
  all: try (eapply rc_w4u; eassumption).
  all: try (apply rc_w4os; assumption).
  all: try (eapply rc_h6; eassumption).
  all: try (eapply rc_h4; [eassumption|holds_now El Eop]).
  all: try (apply rc_wloop; [rewrite El; reflexivity|holds_now El Eop]).
Qed.

(* thr->cb, arg, res, rq *)
Inductive box_case (y i : nat) : Prop :=
| bc_free : caller_lab (t_lab (gett st y)) = true -> lab_free (t_lab (gett st y)) = Some i -> box_case y i
| bc_d5s q : t_lab (gett st y) = D5s q i -> box_case y i
| bc_dead : caller_lab (t_lab (gett st y)) = true -> dead st i -> box_case y i
| bc_busy : (exists q, t_lab (gett st y) = W4u i q) \/ t_lab (gett st y) = W4o i -> box_case y i
| bc_h6 j : t_lab (gett st y) = H6 j i -> box_case y i
| bc_exit : t_op (gett st y) = KExit -> (i < length (ps_workers st))%nat -> wk_tid (getw st i) = y -> box_case y i.

Lemma acc_box y i w : In (LBox i, w) (inflight_gen cre ext st y) -> t_done (gett st y) = false /\ box_case y i.
Proof.
  intros H. unfold inflight_gen in H.
  destruct (t_done (gett st y)); [contradiction|]. split; [reflexivity|].
  pose proof (shape_allowed _ (i1_shape _ I1 y)) as Ha.
  destruct (t_op (gett st y)) eqn:Eop; destruct (t_lab (gett st y)) eqn:El; try contradiction; inv_in H.
  all: try (apply bc_dead; [rewrite El; reflexivity|repeat split; assumption]).
  all: try (apply bc_free; rewrite El; reflexivity).
  all: try (eapply bc_d5s; eassumption).
  all: try (eapply bc_h6; eassumption).
  all: try (apply bc_exit; try assumption; apply Nat.eqb_eq; assumption).
  all: try (apply bc_busy; first [left; eexists; eassumption|right; assumption]).
Qed.

(* thr->next *)
Inductive next_case (y i : nat) : Prop :=
| nc_free : caller_lab (t_lab (gett st y)) = true -> lab_free (t_lab (gett st y)) = Some i -> next_case y i
| nc_listed q : In (OQm q) (holds (gett st y)) -> In i (q_list (getq st q)) -> next_case y i
| nc_dead : caller_lab (t_lab (gett st y)) = true -> dead st i -> next_case y i
| nc_h3 j : t_lab (gett st y) = H3 j (Some i) -> next_case y i
| nc_h7s j : t_lab (gett st y) = H7s j i -> next_case y i.

Lemma acc_next y i w : In (LNext i, w) (inflight_gen cre ext st y) -> t_done (gett st y) = false /\ next_case y i.
Proof.
  intros H. unfold inflight_gen in H.
  destruct (t_done (gett st y)); [contradiction|]. split; [reflexivity|].
  pose proof (shape_allowed _ (i1_shape _ I1 y)) as Ha.
  destruct (t_op (gett st y)) eqn:Eop; destruct (t_lab (gett st y)) eqn:El; try contradiction; inv_in H.
  all: try (apply nc_dead; [rewrite El; reflexivity|repeat split; assumption]).
  all: try (apply nc_free; rewrite El; reflexivity).
  all: try (eapply nc_h3; eassumption).
  all: try (eapply nc_h7s; eassumption).
  all: try (eapply nc_listed; [|eassumption]; holds_now El Eop).
Qed.

(* struct result_handler *)
Inductive rh_case (y j : nat) : bool -> Prop :=
| hc_cre : cre = true -> t_lab (gett st y) = CNext -> j = (length (ps_queues st) - 1)%nat -> rh_case y j true
| hc_read : t_lab (gett st y) = D1 j \/ t_lab (gett st y) = F1 j -> rh_case y j false
| hc_free : caller_lab (t_lab (gett st y)) = true -> (j < length (ps_queues st))%nat ->
    t_done (gett st (q_tid (getq st j))) = true -> rh_case y j true
| hc_hread : lab_handler (t_lab (gett st y)) = Some j -> t_op (gett st y) = KLock -> rh_case y j false
| hc_exit w : ext = true -> t_op (gett st y) = KExit -> (j < length (ps_queues st))%nat -> q_tid (getq st j) = y -> rh_case y j w.

Lemma acc_rh y j w : In (LRh j, w) (inflight_gen cre ext st y) -> t_done (gett st y) = false /\ rh_case y j w.
Proof.
  intros H. unfold inflight_gen in H.
  destruct (t_done (gett st y)); [contradiction|]. split; [reflexivity|].
  pose proof (shape_allowed _ (i1_shape _ I1 y)) as Ha.
  destruct (t_op (gett st y)) eqn:Eop; destruct (t_lab (gett st y)) eqn:El; try contradiction; inv_in H.
  all: try (apply hc_free; [rewrite El; reflexivity|assumption|assumption]).
  all: try (apply hc_cre; [assumption|assumption|reflexivity]).
  all: try (apply hc_read; rewrite El; auto; fail).
  all: try (apply hc_hread; [rewrite El; reflexivity|assumption]).
  all: try (apply hc_exit; try assumption; apply Nat.eqb_eq; assumption).
Qed.
End Cases.

(* ---------- exclusion facts from the life-cycle invariant ---------- *)
Lemma tok2 st x y i : Inv2 st ->
  ttok (ord_of st) (t_lab (gett st x)) i = 1%nat -> ttok (ord_of st) (t_lab (gett st y)) i = 1%nat -> x = y.
Proof.
  intros I Hx Hy. destruct (Nat.eq_dec x y) as [|Hne]; [assumption|exfalso].
  pose proof (tok_t_ge2 st x y i Hne). pose proof (tokens_le1 st i I) as L. unfold tokens in L. lia.
Qed.

Lemma wphase_free i w l : free_w w = true -> wphase_ok i w l = true -> wloop i l = true.
Proof.
  intros Hf. destruct (free_fields _ Hf) as (F1 & F2 & F3 & F4). unfold wphase_ok. rewrite F1, F2, F3, F4. cbn. tauto.
Qed.
Lemma wphase_job i w l : wk_hasjob w = true -> wphase_ok i w l = true -> wloop i l = true \/ l = W3 i.
Proof.
  intros Hj. unfold wphase_ok. rewrite Hj. destruct (wk_running w), (wk_res w); try discriminate.
  intros H. apply orb_prop in H. destruct H as [H|H]; [left; exact H|right].
  destruct l; try discriminate. apply Nat.eqb_eq in H. subst. reflexivity.
Qed.
Lemma wphase_dying i w l : dying w = true -> wphase_ok i w l = true -> wloop i l = true \/ l = W3 i \/ l = LDone.
Proof.
  unfold dying, wphase_ok. destruct (wk_running w), (wk_hasjob w), (wk_res w); cbn; try discriminate. intros _ H.
  apply andb_prop in H. destruct H as [_ H]. apply orb_prop in H. destruct H as [H|H]; [left; exact H|right].
  destruct l; try discriminate; [left|right; reflexivity]. apply Nat.eqb_eq in H. subst. reflexivity.
Qed.
Lemma wphase_LDone i w : wphase_ok i w LDone = true -> dying w = true.
Proof.
  unfold dying, wphase_ok. destruct (wk_running w), (wk_hasjob w), (wk_res w); cbn; rewrite ?andb_false_r; try discriminate; reflexivity.
Qed.
Lemma wloop_lab i l : wloop i l = true -> l = W0 i \/ l = W1 i.
Proof. destruct l; cbn; try discriminate; intros H; apply Nat.eqb_eq in H; subst; auto. Qed.

Section Excl.
Variable crex : nat -> bool.   (* per thread: are its creation accesses counted? *)
Variable ext : bool.
Variable st : pstate.
Hypothesis I1 : Inv1 st.
Hypothesis I2 : Inv2 st.
Hypothesis IA : InvA st.
(* creation *)
Hypothesis HCw : forall x, crex x = true -> forall q i, t_lab (gett st x) = D4 q i -> t_obj (gett st x) = OThread (wk_tid (getw st i)).
Hypothesis HCq : forall x, crex x = true -> t_lab (gett st x) = CNext ->
  t_obj (gett st x) = OThread (q_tid (getq st (length (ps_queues st) - 1))) /\ q_list (getq st (length (ps_queues st) - 1)) = [].
Hypothesis HCc : forall x, crex x = true -> forall u, t_op (gett st x) = KCreate -> t_obj (gett st x) = OThread u -> t_op (gett st u) = KStart.
Hypothesis HHid : forall x j, lab_handler (t_lab (gett st x)) = Some j -> q_tid (getq st j) = x.
(* destruction of a queue *)
Hypothesis HEd : ext = true -> forall j, (j < length (ps_queues st))%nat -> t_lab (gett st (q_tid (getq st j))) = LDone ->
  q_finished (getq st j) = true /\ q_list (getq st j) = [] /\ forall y, t_lab (gett st y) <> F1 j /\ t_lab (gett st y) <> F1s j.
Hypothesis HEf : ext = true -> forall y q, t_lab (gett st y) = D7s q \/ (t_lab (gett st y) = D8 /\ t_obj (gett st y) = OQm q) ->
  q_finished (getq st q) = false.

Let Tk x := i2_threads st I2 x.

Lemma lab_op_exit y : t_op (gett st y) = KExit -> t_lab (gett st y) = LDone.
Proof.
  intros H. pose proof (shape_allowed _ (i1_shape _ I1 y)) as Ha. rewrite H in Ha. apply exit_lab in Ha. tauto.
Qed.
Lemma lab_op_create y : t_lab (gett st y) = CNext \/ (exists q i, t_lab (gett st y) = D4 q i) -> t_op (gett st y) = KCreate.
Proof.
  intros H. pose proof (shape_allowed _ (i1_shape _ I1 y)) as Ha.
  destruct H as [H|(q & i & H)]; rewrite H in Ha; cbn [allowed] in Ha; destruct (t_op (gett st y)); try discriminate; reflexivity.
Qed.

(* the thread of worker i *)
Lemma wthread y i : lab_worker (t_lab (gett st y)) = Some i ->
  (i < length (ps_workers st))%nat /\ wk_tid (getw st i) = y /\ wphase_ok i (getw st i) (t_lab (gett st y)) = true.
Proof.
  intros H. destruct (tk_worker _ _ _ (Tk y) i H) as [H1 H2]. split; [exact H1|]. split; [exact H2|].
  destruct (i2_wthread _ I2 i H1) as [_ H3]. rewrite H2 in H3. exact H3.
Qed.
Lemma wthread2 x y i : lab_worker (t_lab (gett st x)) = Some i -> lab_worker (t_lab (gett st y)) = Some i -> x = y.
Proof. intros Hx Hy. destruct (wthread x i Hx) as (_ & <- & _). destruct (wthread y i Hy) as (_ & <- & _). reflexivity. Qed.

Lemma free_tok x i : lab_free (t_lab (gett st x)) = Some i -> ttok (ord_of st) (t_lab (gett st x)) i = 1%nat.
Proof. apply lab_free_ttok. Qed.
Lemma free_w_of x i : lab_free (t_lab (gett st x)) = Some i -> free_w (getw st i) = true.
Proof. apply (tk_free _ _ _ (Tk x)). Qed.

(* a worker that is free is served by a thread in its wait loop *)
Lemma free_loop x y i : lab_free (t_lab (gett st x)) = Some i -> lab_worker (t_lab (gett st y)) = Some i ->
  t_lab (gett st y) = W0 i \/ t_lab (gett st y) = W1 i.
Proof.
  intros Hx Hy. destruct (wthread y i Hy) as (_ & _ & H). apply wloop_lab. eapply wphase_free; [apply (free_w_of x i Hx)|exact H].
Qed.

Lemma dead_thread y i : dead st i -> lab_worker (t_lab (gett st y)) = Some i -> t_done (gett st y) = true.
Proof. intros (_ & _ & H) Hy. destruct (wthread y i Hy) as (_ & E & _). rewrite E in H. exact H. Qed.

Lemma dying_sole i : dying (getw st i) = true ->
  ~ In i (ps_idle st) /\ (forall x, ttok (ord_of st) (t_lab (gett st x)) i = 0%nat) /\ (forall q, ~ In i (q_list (getq st q))).
Proof.
  intros H. assert (Hf : (1 <= ftok (getw st i))%nat) by (unfold ftok; rewrite H; cbn; lia).
  destruct (sole_ftok st i I2 Hf) as (_ & S1 & S2 & S3). auto.
Qed.

Lemma idle_listed i q : In i (ps_idle st) -> In i (q_list (getq st q)) -> False.
Proof.
  intros H1 H2. pose proof (tok_idle_ge st i H1). pose proof (tok_q_ge st q i). pose proof (count_occ_in1 _ _ H2).
  pose proof (tokens_le1 st i I2) as L. unfold tokens in L. lia.
Qed.
Lemma listed2 i q q' : In i (q_list (getq st q)) -> In i (q_list (getq st q')) -> q = q'.
Proof.
  intros H1 H2. destruct (Nat.eq_dec q q') as [|Hne]; [assumption|exfalso].
  pose proof (tok_q_ge2 st q q' i Hne). pose proof (count_occ_in1 _ _ H1). pose proof (count_occ_in1 _ _ H2).
  pose proof (tokens_le1 st i I2) as L. unfold tokens in L. lia.
Qed.
Lemma tok_sole x i : ttok (ord_of st) (t_lab (gett st x)) i = 1%nat ->
  ~ In i (ps_idle st) /\ (forall q, ~ In i (q_list (getq st q))) /\ ftok (getw st i) = 0%nat.
Proof. intros H. destruct (sole_thread st x i I2 H) as (_ & S1 & _ & S3 & S4). auto. Qed.

Lemma exit_dying y i : t_op (gett st y) = KExit -> (i < length (ps_workers st))%nat -> wk_tid (getw st i) = y -> dying (getw st i) = true.
Proof.
  intros Hop Hi E. destruct (i2_wthread _ I2 i Hi) as [_ H]. rewrite E, (lab_op_exit y Hop) in H. apply wphase_LDone in H. exact H.
Qed.
Lemma free_not_dying x i : lab_free (t_lab (gett st x)) = Some i -> dying (getw st i) = true -> False.
Proof.
  intros Hx Hd. destruct (free_fields _ (free_w_of x i Hx)) as (F1 & _). unfold dying in Hd. rewrite F1 in Hd. discriminate.
Qed.

(* ---------- a result queue: at most one thread has an access in flight ---------- *)
Lemma q_cre_worker x y i q : crex x = true -> t_lab (gett st x) = CNext -> q = (length (ps_queues st) - 1)%nat ->
  t_lab (gett st y) = W4us i q -> False.
Proof.
  intros Hc Hx -> Hy. destruct (HCq x Hc Hx) as [_ Hl].
  assert (H : In i (q_list (getq st (length (ps_queues st) - 1)))).
  { apply (tk_queued _ _ _ (Tk y)). unfold lab_queued. rewrite Hy. reflexivity. }
  rewrite Hl in H. destruct H.
Qed.
Lemma q_cre_thread x y q : crex x = true -> t_lab (gett st x) = CNext -> q = (length (ps_queues st) - 1)%nat ->
  q_tid (getq st q) = y -> t_op (gett st y) = KStart.
Proof.
  intros Hc Hx -> Hy. destruct (HCq x Hc Hx) as [Ho _]. rewrite Hy in Ho.
  apply (HCc x Hc y); [apply lab_op_create; left; exact Hx|exact Ho].
Qed.
Lemma q_exit_facts y q : ext = true -> t_op (gett st y) = KExit -> (q < length (ps_queues st))%nat -> q_tid (getq st q) = y ->
  q_finished (getq st q) = true /\ q_list (getq st q) = [] /\ forall z, t_lab (gett st z) <> F1 q /\ t_lab (gett st z) <> F1s q.
Proof. intros He Hop Hq E. apply (HEd He q Hq). rewrite E. apply lab_op_exit. exact Hop. Qed.

Lemma q_cre_started x y q : crex x = true -> t_lab (gett st x) = CNext -> q = (length (ps_queues st) - 1)%nat ->
  q_tid (getq st q) = y -> t_op (gett st y) <> KStart -> False.
Proof. intros Hc Hx Hq E Hn. apply Hn. eapply q_cre_thread; eassumption. Qed.

Lemma q_cre_handler x y q : crex x = true -> t_lab (gett st x) = CNext -> q = (length (ps_queues st) - 1)%nat ->
  lab_handler (t_lab (gett st y)) = Some q -> In (OQm q) (holds (gett st y)) -> False.
Proof.
  intros Hc Hx Hq Hy Hh. apply (q_cre_started x y q Hc Hx Hq).
  - apply HHid; exact Hy.
  - apply (holds_started _ _ Hh).
Qed.
Lemma q_cre_exit x y q : crex x = true -> t_lab (gett st x) = CNext -> q = (length (ps_queues st) - 1)%nat ->
  t_op (gett st y) = KExit -> q_tid (getq st q) = y -> False.
Proof. intros Hc Hx Hq Hop E. apply (q_cre_started x y q Hc Hx Hq E). rewrite Hop. discriminate. Qed.

Lemma q_caller_exit x y q : ext = true ->
  (t_lab (gett st x) = D7s q \/ (t_lab (gett st x) = D8 /\ t_obj (gett st x) = OQm q) \/ t_lab (gett st x) = F1s q) ->
  t_op (gett st y) = KExit -> (q < length (ps_queues st))%nat -> q_tid (getq st q) = y -> False.
Proof.
  intros He Hl Hop Hq E. destruct (q_exit_facts y q He Hop Hq E) as (F1 & F2 & F3).
  destruct Hl as [Hl|[Hl|Hl]].
  - rewrite (HEf He x q (or_introl Hl)) in F1. discriminate.
  - rewrite (HEf He x q (or_intror Hl)) in F1. discriminate.
  - exact (proj2 (F3 x) Hl).
Qed.
Lemma q_worker_exit x y i q : ext = true -> t_lab (gett st x) = W4us i q ->
  t_op (gett st y) = KExit -> (q < length (ps_queues st))%nat -> q_tid (getq st q) = y -> False.
Proof.
  intros He Hx Hop Hq E. destruct (q_exit_facts y q He Hop Hq E) as (F1 & F2 & F3).
  assert (Hin : In i (q_list (getq st q))) by (apply (tk_queued _ _ _ (Tk x)); unfold lab_queued; rewrite Hx; reflexivity).
  rewrite F2 in Hin. destruct Hin.
Qed.

Lemma excl_queue x y q : q_case (crex x) ext st x q -> q_case (crex y) ext st y q -> x = y.
Proof.
  intros Cx Cy.
  destruct Cx as [Hc Hx Hq|Hx Hh Hl|i Hx Hh|Hx Hh|He Hop Hq E]; destruct Cy as [Hc' Hy Hq'|Hy Hh' Hl'|i' Hy Hh'|Hy Hh'|He' Hop' Hq' E'];
    try (apply (holds_excl st x y (OQm q) I1); assumption);
    try (apply (caller_unique st x y I2); rewrite ?Hx, ?Hy; reflexivity).
  - exfalso. eapply q_cre_worker; eassumption.
  - exfalso. eapply (q_cre_handler x y); eassumption.
  - exfalso. eapply (q_cre_exit x y); eassumption.
  - exfalso. eapply (q_caller_exit x y); eassumption.
  - exfalso. eapply (q_cre_worker y x); eassumption.
  - exfalso. eapply (q_worker_exit x y); eassumption.
  - exfalso. eapply (q_cre_handler y x); eassumption.
  - rewrite <- E'. symmetry. apply HHid; exact Hx.
  - exfalso. eapply (q_cre_exit y x); eassumption.
  - exfalso. eapply (q_caller_exit y x); eassumption.
  - exfalso. eapply (q_worker_exit y x); eassumption.
  - rewrite <- E. apply HHid; exact Hy.
  - congruence.
Qed.

(* ---------- a worker's fields ---------- *)
(* facts that follow from a thread's label *)
Ltac lab_facts z L i :=
  try (assert (caller_lab (t_lab (gett st z)) = true) by (rewrite L; reflexivity));
  try (assert (lab_free (t_lab (gett st z)) = Some i) by (rewrite L; reflexivity));
  try (assert (lab_worker (t_lab (gett st z)) = Some i) by (rewrite L; reflexivity));
  try (assert (In (OWm i) (holds (gett st z))) by (apply lab_holds; [exact I1|]; rewrite L; cbn [lab_held In]; auto));
  try (assert (In OPoolM (holds (gett st z))) by (apply lab_holds; [exact I1|]; rewrite L; cbn [lab_held In]; auto));
  try (assert (ttok (ord_of st) (t_lab (gett st z)) i = 1%nat) by (rewrite L; cbn [ttok]; rewrite Nat.eqb_refl; reflexivity)).
Ltac free_facts z i :=
  try match goal with F : lab_free (t_lab (gett st z)) = Some i |- _ =>
        assert (ttok (ord_of st) (t_lab (gett st z)) i = 1%nat) by (apply free_tok; exact F) end.

Ltac close x y i :=
  first
  [ apply (caller_unique st x y I2); assumption
  | apply (holds_excl st x y (OWm i) I1); assumption
  | apply (holds_excl st x y OPoolM I1); assumption
  | apply (tok2 st x y i I2); assumption
  | apply (wthread2 x y i); assumption ].

Lemma d5s_not_busy x y q i : t_lab (gett st x) = D5s q i -> lab_worker (t_lab (gett st y)) = Some i ->
  t_lab (gett st y) = W0 i \/ t_lab (gett st y) = W1 i \/ t_lab (gett st y) = W3 i.
Proof.
  intros Hx Hy. destruct (wthread y i Hy) as (_ & _ & H).
  destruct (wphase_job _ _ _ (a_job _ IA x q i Hx) H) as [H'|H']; [apply wloop_lab in H'|]; tauto.
Qed.

Lemma dying_lab y i : dying (getw st i) = true -> lab_worker (t_lab (gett st y)) = Some i ->
  t_lab (gett st y) = W0 i \/ t_lab (gett st y) = W1 i \/ t_lab (gett st y) = W3 i.
Proof.
  intros Hd Hy. destruct (wthread y i Hy) as (_ & _ & H).
  destruct (wphase_dying _ _ _ Hd H) as [H'|[H'|H']]; [apply wloop_lab in H'; tauto|tauto|].
  rewrite H' in Hy. discriminate.
Qed.

Lemma cre_not_started x y q i : crex x = true -> t_lab (gett st x) = D4 q i -> lab_worker (t_lab (gett st y)) = Some i ->
  t_op (gett st y) = KStart.
Proof.
  intros Hc Hx Hy. destruct (wthread y i Hy) as (_ & E & _).
  apply (HCc x Hc y); [apply lab_op_create; right; eauto|]. rewrite (HCw x Hc q i Hx), E. reflexivity.
Qed.

Definition busy (y i : nat) : Prop := (exists q, t_lab (gett st y) = W4u i q) \/ t_lab (gett st y) = W4o i.
Lemma busy_worker y i : busy y i -> lab_worker (t_lab (gett st y)) = Some i.
Proof. intros [[q H]|H]; rewrite H; reflexivity. Qed.

Lemma box_free_busy x y i : lab_free (t_lab (gett st x)) = Some i -> busy y i -> False.
Proof.
  intros Fx By. destruct (free_loop x y i Fx (busy_worker y i By)) as [H|H]; destruct By as [[q H']|H']; congruence.
Qed.
Lemma box_free_exit x y i : lab_free (t_lab (gett st x)) = Some i ->
  t_op (gett st y) = KExit -> (i < length (ps_workers st))%nat -> wk_tid (getw st i) = y -> False.
Proof. intros Fx Oy Ry Ey. eapply free_not_dying; [exact Fx|]. eapply exit_dying; eassumption. Qed.
Lemma box_d5s_busy x y q i : t_lab (gett st x) = D5s q i -> busy y i -> False.
Proof.
  intros Lx By. destruct (d5s_not_busy x y q i Lx (busy_worker y i By)) as [H|[H|H]]; destruct By as [[q' H']|H']; congruence.
Qed.
Lemma box_d5s_exit x y q i : t_lab (gett st x) = D5s q i ->
  t_op (gett st y) = KExit -> (i < length (ps_workers st))%nat -> wk_tid (getw st i) = y -> False.
Proof.
  intros Lx Oy Ry Ey. pose proof (a_job _ IA x q i Lx) as Hj. pose proof (exit_dying y i Oy Ry Ey) as Hd.
  unfold dying in Hd. rewrite Hj in Hd. destruct (wk_running (getw st i)); discriminate.
Qed.
Lemma box_dead_worker y i : dead st i -> lab_worker (t_lab (gett st y)) = Some i -> t_done (gett st y) = false -> False.
Proof. intros Dx Wy Ly. rewrite (dead_thread y i Dx Wy) in Ly. discriminate. Qed.
Lemma box_dead_tok y i : dead st i -> ttok (ord_of st) (t_lab (gett st y)) i = 1%nat -> False.
Proof. intros (_ & Hd & _) Ty. destruct (dying_sole i Hd) as (_ & H & _). rewrite H in Ty. discriminate. Qed.
Lemma box_dead_exit y i : dead st i -> wk_tid (getw st i) = y -> t_done (gett st y) = false -> False.
Proof. intros (_ & _ & Hd) Ey Ly. rewrite Ey in Hd. congruence. Qed.
Lemma box_busy_exit x y i : busy x i -> wk_tid (getw st i) = y -> x = y.
Proof. intros Bx Ey. destruct (wthread x i (busy_worker x i Bx)) as (_ & E & _). congruence. Qed.

Lemma excl_box x y i : t_done (gett st x) = false -> t_done (gett st y) = false ->
  box_case st x i -> box_case st y i -> x = y.
Proof.
  intros Lvx Lvy Cx Cy.
  destruct Cx as [Cx Fx|qx Lx|Cx Dx|Bx|jx Lx|Ox Rx Ex]; destruct Cy as [Cy Fy|qy Ly|Cy Dy|By|jy Ly|Oy Ry Ey];
    try lab_facts x Lx i; try lab_facts y Ly i; free_facts x i; free_facts y i;
    try (pose proof (busy_worker x i Bx)); try (pose proof (busy_worker y i By));
    first
    [ close x y i
    | congruence
    | apply (box_busy_exit x y i); assumption
    | symmetry; apply (box_busy_exit y x i); assumption
    | exfalso;
      first
      [ eapply (box_free_busy x y); eassumption | eapply (box_free_busy y x); eassumption
      | eapply (box_free_exit x y); eassumption | eapply (box_free_exit y x); eassumption
      | eapply (box_d5s_busy x y); eassumption | eapply (box_d5s_busy y x); eassumption
      | eapply (box_d5s_exit x y); eassumption | eapply (box_d5s_exit y x); eassumption
      | eapply (box_dead_worker y); eassumption | eapply (box_dead_worker x); eassumption
      | eapply (box_dead_tok y); eassumption | eapply (box_dead_tok x); eassumption
      | eapply (box_dead_exit y); eassumption | eapply (box_dead_exit x); eassumption ] ].
Qed.

(* thr->next *)
Lemma next_tok_listed x i q : ttok (ord_of st) (t_lab (gett st x)) i = 1%nat -> In i (q_list (getq st q)) -> False.
Proof. intros Tx Hl. destruct (tok_sole x i Tx) as (_ & H & _). exact (H q Hl). Qed.
Lemma next_tok_h7s x y j i : ttok (ord_of st) (t_lab (gett st x)) i = 1%nat -> t_lab (gett st y) = H7s j i -> False.
Proof. intros Tx Ly. destruct (tok_sole x i Tx) as (H & _). apply H. eapply (a_idle _ IA); eassumption. Qed.
Lemma next_listed2 x y i q q' : In (OQm q) (holds (gett st x)) -> In i (q_list (getq st q)) ->
  In (OQm q') (holds (gett st y)) -> In i (q_list (getq st q')) -> x = y.
Proof. intros Mx Hx My Hy. pose proof (listed2 i q q' Hx Hy). subst q'. apply (holds_excl st x y (OQm q) I1); assumption. Qed.
Lemma next_dead_listed i q : dead st i -> In i (q_list (getq st q)) -> False.
Proof. intros (_ & Hd & _) Hl. destruct (dying_sole i Hd) as (_ & _ & H). exact (H q Hl). Qed.
Lemma next_listed_h7s y i q j : In i (q_list (getq st q)) -> t_lab (gett st y) = H7s j i -> False.
Proof. intros Hl Ly. eapply idle_listed; [|exact Hl]. eapply (a_idle _ IA); eassumption. Qed.
Lemma next_dead_h7s y i j : dead st i -> t_lab (gett st y) = H7s j i -> False.
Proof. intros (_ & Hd & _) Ly. destruct (dying_sole i Hd) as (H & _). apply H. eapply (a_idle _ IA); eassumption. Qed.

Lemma excl_next x y i : next_case st x i -> next_case st y i -> x = y.
Proof.
  intros Cx Cy.
  destruct Cx as [Cx Fx|qx Mx Hx|Cx Dx|jx Lx|jx Lx]; destruct Cy as [Cy Fy|qy My Hy|Cy Dy|jy Ly|jy Ly];
    try lab_facts x Lx i; try lab_facts y Ly i; free_facts x i; free_facts y i;
    first
    [ close x y i
    | eapply next_listed2; eassumption
    | exfalso;
      first
      [ eapply (next_tok_listed x); eassumption | eapply (next_tok_listed y); eassumption
      | eapply (next_tok_h7s x y); eassumption | eapply (next_tok_h7s y x); eassumption
      | eapply next_dead_listed; eassumption
      | eapply (next_listed_h7s y); eassumption | eapply (next_listed_h7s x); eassumption
      | eapply (box_dead_tok y); eassumption | eapply (box_dead_tok x); eassumption
      | eapply (next_dead_h7s y); eassumption | eapply (next_dead_h7s x); eassumption ] ].
Qed.

(* thr->running *)
Lemma run_cre_wloop x y q i : crex x = true -> t_lab (gett st x) = D4 q i -> lab_worker (t_lab (gett st y)) = Some i ->
  In (OWm i) (holds (gett st y)) -> False.
Proof. intros Hc Lx Wy My. destruct (holds_started _ _ My) as (H & _). apply H. eapply cre_not_started; eassumption. Qed.
Lemma run_free_w4os x y i : lab_free (t_lab (gett st x)) = Some i -> t_lab (gett st y) = W4os i -> False.
Proof. intros Fx Ly. destruct (free_loop x y i Fx) as [H|H]; [rewrite Ly; reflexivity| |]; congruence. Qed.
Lemma run_d5s_w4u x y q q' i : t_lab (gett st x) = D5s q i -> t_lab (gett st y) = W4u i q' -> False.
Proof. intros Lx Ly. destruct (d5s_not_busy x y q i Lx) as [H|[H|H]]; [rewrite Ly; reflexivity| | |]; congruence. Qed.
Lemma run_p3s_tok x y i : t_lab (gett st x) = P3s i -> ttok (ord_of st) (t_lab (gett st y)) i = 1%nat -> False.
Proof. intros Lx Ty. destruct (dying_sole i (a_die _ IA x i Lx)) as (_ & H & _). rewrite H in Ty. discriminate. Qed.

Lemma excl_run x y i w1 w2 : t_done (gett st x) = false -> t_done (gett st y) = false ->
  run_case (crex x) st x i w1 -> run_case (crex y) st y i w2 -> x = y \/ (w1 = false /\ w2 = false).
Proof.
  intros Lvx Lvy Cx Cy.
  destruct Cx as [Cx Fx|qx Hcx Lx|qx Lx|Cx Dx|Lx|Wx Mx|qx Lx|Lx|jx Lx Mx|jx Lx];
    destruct Cy as [Cy Fy|qy Hcy Ly|qy Ly|Cy Dy|Ly|Wy My|qy Ly|Ly|jy Ly My|jy Ly];
    try (right; split; reflexivity); left;
    try lab_facts x Lx i; try lab_facts y Ly i; free_facts x i; free_facts y i;
    first
    [ close x y i
    | exfalso;
      first
      [ eapply (run_cre_wloop x y); eassumption | eapply (run_cre_wloop y x); eassumption
      | eapply (run_free_w4os x y); eassumption | eapply (run_free_w4os y x); eassumption
      | eapply (run_d5s_w4u x y); eassumption | eapply (run_d5s_w4u y x); eassumption
      | eapply (run_p3s_tok x y); eassumption | eapply (run_p3s_tok y x); eassumption
      | eapply (box_dead_worker y); eassumption | eapply (box_dead_worker x); eassumption
      | eapply (box_dead_tok y); eassumption | eapply (box_dead_tok x); eassumption ] ].
Qed.

(* struct result_handler *)
Lemma rh_read_caller y j : t_lab (gett st y) = D1 j \/ t_lab (gett st y) = F1 j -> caller_lab (t_lab (gett st y)) = true.
Proof. intros [H|H]; rewrite H; reflexivity. Qed.
Lemma rh_read_exit x y j : ext = true -> t_lab (gett st x) = D1 j \/ t_lab (gett st x) = F1 j ->
  t_op (gett st y) = KExit -> (j < length (ps_queues st))%nat -> q_tid (getq st j) = y -> False.
Proof.
  intros He Hl Hop Hq E. destruct (q_exit_facts y j He Hop Hq E) as (F1 & F2 & F3). destruct Hl as [Hl|Hl].
  - destruct (tk_dispatch _ _ _ (Tk x) j) as [_ F]; [rewrite Hl; reflexivity|]. congruence.
  - exact (proj1 (F3 x) Hl).
Qed.
Lemma rh_free_thread y j : t_done (gett st (q_tid (getq st j))) = true -> q_tid (getq st j) = y -> t_done (gett st y) = false -> False.
Proof. intros Hd E Hl. rewrite E in Hd. congruence. Qed.

Lemma excl_rh x y j w1 w2 : t_done (gett st x) = false -> t_done (gett st y) = false ->
  rh_case (crex x) ext st x j w1 -> rh_case (crex y) ext st y j w2 -> x = y \/ (w1 = false /\ w2 = false).
Proof.
  intros Lvx Lvy Cx Cy.
  destruct Cx as [Hc Hx Hq|Hx|Hx Hq Hd|Hx Ho|w1 He Hop Hq E]; destruct Cy as [Hc' Hy Hq'|Hy|Hy Hq' Hd'|Hy Ho'|w2 He' Hop' Hq' E'];
    try (right; split; reflexivity); left;
    try (pose proof (rh_read_caller x j Hx)); try (pose proof (rh_read_caller y j Hy));
    try (apply (caller_unique st x y I2); rewrite ?Hx, ?Hy; first [reflexivity|assumption]).
  all: first
    [ congruence
    | rewrite <- (HHid x j Hx), <- (HHid y j Hy); reflexivity
    | rewrite <- (HHid x j Hx); exact E'
    | rewrite <- (HHid y j Hy); symmetry; exact E
    | exfalso;
      first
      [ apply (q_cre_started x y j Hc Hx Hq); [apply HHid; exact Hy|rewrite Ho'; discriminate]
      | apply (q_cre_started y x j Hc' Hy Hq'); [apply HHid; exact Hx|rewrite Ho; discriminate]
      | eapply (q_cre_exit x y); eassumption
      | eapply (q_cre_exit y x); eassumption
      | eapply (rh_read_exit x y); eassumption
      | eapply (rh_read_exit y x); eassumption
      | apply (rh_free_thread y j Hd); [apply HHid; exact Hy|exact Lvy]
      | apply (rh_free_thread x j Hd'); [apply HHid; exact Hx|exact Lvx]
      | apply (rh_free_thread y j Hd); assumption
      | apply (rh_free_thread x j Hd'); assumption ] ].
Qed.

(* ---------- no two distinct threads have conflicting accesses in flight ---------- *)
Theorem race_free_of_inv_gen : forall t1 t2, t1 <> t2 -> forall a1 a2,
  In a1 (inflight_gen (crex t1) ext st t1) -> In a2 (inflight_gen (crex t2) ext st t2) -> fst a1 = fst a2 ->
  snd a1 = false /\ snd a2 = false.
Proof.
  intros t1 t2 Hne [l1 w1] [l2 w2] H1 H2 E. cbn [fst snd] in *. subst l2.
  destruct l1 as [|q|i|i|i|j].
  - exfalso. apply Hne. apply (holds_excl st t1 t2 OPoolM I1); eapply acc_pool; eassumption.
  - exfalso. apply Hne. destruct (acc_queue _ ext st I1 _ _ _ H1) as [_ C1]. destruct (acc_queue _ ext st I1 _ _ _ H2) as [_ C2].
    eapply excl_queue; eassumption.
  - destruct (acc_run _ ext st I1 _ _ _ H1) as [L1 C1]. destruct (acc_run _ ext st I1 _ _ _ H2) as [L2 C2].
    destruct (excl_run t1 t2 i w1 w2 L1 L2 C1 C2) as [E|E]; [contradiction|exact E].
  - exfalso. apply Hne. destruct (acc_box _ ext st I1 _ _ _ H1) as [L1 C1]. destruct (acc_box _ ext st I1 _ _ _ H2) as [L2 C2].
    eapply excl_box; eassumption.
  - exfalso. apply Hne. destruct (acc_next _ ext st I1 _ _ _ H1) as [L1 C1]. destruct (acc_next _ ext st I1 _ _ _ H2) as [L2 C2].
    eapply excl_next; eassumption.
  - destruct (acc_rh _ ext st I1 _ _ _ H1) as [L1 C1]. destruct (acc_rh _ ext st I1 _ _ _ H2) as [L2 C2].
    destruct (excl_rh t1 t2 j w1 w2 L1 L2 C1 C2) as [E|E]; [contradiction|exact E].
Qed.
End Excl.

(* the same flag for all threads *)
Theorem race_free_of_inv cre ext st :
  Inv1 st -> Inv2 st -> InvA st ->
  (cre = true -> forall x q i, t_lab (gett st x) = D4 q i -> t_obj (gett st x) = OThread (wk_tid (getw st i))) ->
  (cre = true -> forall x, t_lab (gett st x) = CNext ->
     t_obj (gett st x) = OThread (q_tid (getq st (length (ps_queues st) - 1))) /\ q_list (getq st (length (ps_queues st) - 1)) = []) ->
  (cre = true -> forall x u, t_op (gett st x) = KCreate -> t_obj (gett st x) = OThread u -> t_op (gett st u) = KStart) ->
  (forall x j, lab_handler (t_lab (gett st x)) = Some j -> q_tid (getq st j) = x) ->
  (ext = true -> forall j, (j < length (ps_queues st))%nat -> t_lab (gett st (q_tid (getq st j))) = LDone ->
     q_finished (getq st j) = true /\ q_list (getq st j) = [] /\ forall y, t_lab (gett st y) <> F1 j /\ t_lab (gett st y) <> F1s j) ->
  (ext = true -> forall y q, t_lab (gett st y) = D7s q \/ (t_lab (gett st y) = D8 /\ t_obj (gett st y) = OQm q) ->
     q_finished (getq st q) = false) ->
  race_free_gen cre ext st.
Proof.
  intros I1 I2 IA HCw HCq HCc HHid HEd HEf.
  unfold race_free_gen. apply (race_free_of_inv_gen (fun _ => cre) ext st I1 I2 IA).
  - intros x Hc. apply (HCw Hc).
  - intros x Hc. apply (HCq Hc).
  - intros x Hc. apply (HCc Hc).
  - exact HHid.
  - exact HEd.
  - exact HEf.
Qed.
