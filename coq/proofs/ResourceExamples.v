(* C18 operational resource model: non-vacuity examples (vm_compute). *)
From Coq Require Import NArith List Bool.
From Mtbl Require Import model.ResCore model.ResT1 model.ResSorter model.ResFileset model.Resources.
Import ListNotations.
Local Open Scope N_scope.

Definition leaf (nn f : bool) := Ioc nn f [].

(* tier 1: a pooled writer, a writer whose open fails, a writer whose add is refused, readers
   (table, not a table, open fails), a merger, iterators drained / abandoned / NULL *)
Definition h1_build : list rop :=
  [ RPoolInit 100 2;
    RWriterInit 1 true (Some 100);
    RWriterAdd 1 false false false; RWriterAdd 1 false true false; RWriterAdd 1 false true true;
    RWriterAdd 1 true false false;                      (* refused *)
    RWriterInit 2 false None;                           (* open(O_EXCL) fails: NULL *)
    RReaderInit 3 true RdOk; RReaderInit 4 true RdBadMagic; RReaderInit 5 false RdOk;
    RReaderInit 9 true RdOk;
    RMergerInit 6; RMergerAddSource 6 3; RMergerAddSource 6 9;
    RSourceIter 7 6 QIter (Ioc true true [leaf true true; leaf false false]);
    RSourceIter 8 3 QGet (leaf false false);            (* NULL iterator *)
    RSourceIter 10 6 QPrefix (Ioc true true [leaf true false; leaf false false]);  (* no entry: NULL *)
    RSourceIter 11 3 QIter (leaf true true);
    RIterNext 7; RIterDrain 7; RIterSeek 7 ].
Definition h1_teardown : list rop :=
  [ RIterDestroy 11 (* abandoned before it is drained *); RIterDestroy 7; RIterDestroy 8; RIterDestroy 10;
    RMergerDestroy 6; RReaderDestroy 3; RReaderDestroy 9; RReaderDestroy 4; RReaderDestroy 5;
    RWriterDestroy 1 false; RPoolDestroy 100 ].

Example h1_wf : wf_history (h1_build ++ h1_teardown) = true.
Proof. vm_compute. reflexivity. Qed.
(* mid-way: 1 descriptor (the writer's dup), 2 mappings, no temp file, 1 handler thread *)
Example h1_mid : obs (rrun h1_build) = (1, 2, 0, 1) /\ heap_live (rrun h1_build) = 36.
Proof. vm_compute. split; reflexivity. Qed.
Example h1_end : all_destroyedb (rrun (h1_build ++ h1_teardown)) = true
  /\ live (rrun (h1_build ++ h1_teardown)) = [].
Proof. vm_compute. split; reflexivity. Qed.
(* the order matters to wf_history: a reader may not go before the merger that borrows it *)
Example h1_bad_order : wf_history (h1_build ++ [RReaderDestroy 3]) = false.
Proof. vm_compute. reflexivity. Qed.

(* tier 2: sorters - pooled with a job collected early and one collected at the join, iterated and
   drained; unpooled with a chunk whose merge callback fails, destroyed before iteration;
   one whose final flush fails inside mtbl_sorter_iter; mtbl_sorter_write; an iterator abandoned *)
Definition h2_build : list rop :=
  [ RPoolInit 100 2; RSorterInit 1 (Some 100);
    RSorterAdd 1 None false; RSorterAdd 1 (Some [CMerge; CWrite]) false; RSorterJob 1;
    RSorterAdd 1 None false; RSorterAdd 1 (Some [CWrite]) true;
    RSorterAdd 1 None false;
    RSorterIter 2 1 [CWrite] (Ioc true true [leaf true true; leaf true true; leaf true false]) true;
    RSorterInit 3 None; RSorterAdd 3 None false; RSorterAdd 3 None false;
    RSorterAdd 3 (Some [CWrite; CMergeFail]) false;        (* mtbl_sorter_add returns failure *)
    RSorterAdd 3 None false;
    RSorterInit 4 None; RSorterAdd 4 None false; RSorterAdd 4 None false;
    RSorterIter 5 4 [CMergeFail] oc_default false;          (* returns NULL *)
    RSorterInit 6 None; RSorterAdd 6 None false; RSorterAdd 6 (Some [CWrite]) false; RSorterAdd 6 None false;
    RWriterInit 7 true None ]
  ++ sorter_write_ops 8 6 7 [CWrite] (Ioc true true [leaf true true; leaf true true]) [false; true; true] false.
Definition h2_teardown : list rop :=
  [ RIterNext 2; RIterDrain 2; RIterDestroy 2; RSorterDestroy 1;
    RSorterDestroy 3; RIterDestroy 5; RSorterDestroy 4;
    RSorterDestroy 6; RWriterDestroy 7 false; RPoolDestroy 100 ].
Example h2_wf : wf_history (h2_build ++ h2_teardown) = true.
Proof. vm_compute. reflexivity. Qed.
(* 3 + 0 + 0 + 2 chunk mappings, the writer's descriptor; the pooled sorter's handler was joined by the iteration *)
Example h2_mid : obs (rrun h2_build) = (1, 5, 0, 0).
Proof. vm_compute. reflexivity. Qed.
Example h2_before_iter : obs (rrun (firstn 8 h2_build)) = (0, 1, 0, 1).
Proof. vm_compute. reflexivity. Qed.
Example h2_end : all_destroyedb (rrun (h2_build ++ h2_teardown)) = true
  /\ live (rrun (h2_build ++ h2_teardown)) = [].
Proof. vm_compute. split; reflexivity. Qed.
(* after a failed chunk mtbl_sorter_iter would hit assert(r != NULL): not a well-formed call *)
Example h2_abort : wf_history (firstn 14 h2_build ++ [RSorterIter 50 3 [CWrite] oc_default false]) = false.
Proof. vm_compute. reflexivity. Qed.

(* tier 3: a fileset with a dup; first reload loads 3 lines (one is not a table); an iterator keeps
   a later reload_now from happening (it is done when the iterator goes); a reload drops one file
   and adds one; handles destroyed in the order original, dup *)
Definition p_first : rl := mkrl false true [] [(true, RdOk); (true, RdBadMagic); (true, RdOk)].
Definition p_second : rl := mkrl false true [true; true; false] [(true, RdOk); (false, RdOk)].
Definition h3_build : list rop :=
  [ RFilesetInit 1 2;
    RFilesetDup 3 1;
    RFilesetReload 1 false p_first;
    RFilesetIter 4 3 QIter rl_none (Ioc true true [leaf true true; leaf true false]);
    RFilesetIter 5 1 QGet rl_none (Ioc true true [leaf false false; leaf false false]);   (* wraps a NULL iterator *)
    RFilesetReload 3 true p_second;       (* open iterators: only marks reload_needed *)
    RIterDrain 4 ].
Definition h3_teardown : list rop :=
  [ RFilesetIterDestroy 5 rl_none;
    RFilesetIterDestroy 4 p_second;       (* last iterator gone: mtbl_fileset_reload reloads now *)
    RFilesetDestroy 1; RFilesetReload 3 false rl_none; RFilesetDestroy 3 ].
Example h3_wf : wf_history (h3_build ++ h3_teardown) = true.
Proof. vm_compute. reflexivity. Qed.
Example h3_mid : obs (rrun h3_build) = (0, 2, 0, 0).
Proof. vm_compute. reflexivity. Qed.
(* after the deferred reload: one table dropped, one added, the unreadable new file adds none *)
Example h3_after_reload : obs (rrun (h3_build ++ firstn 2 h3_teardown)) = (0, 2, 0, 0)
  /\ get 2 (objs (rrun (h3_build ++ firstn 2 h3_teardown)))
     = OShared (mksh 2 0 false 2 [true; false; true; false]).
Proof. vm_compute. split; reflexivity. Qed.
Example h3_end : all_destroyedb (rrun (h3_build ++ h3_teardown)) = true
  /\ live (rrun (h3_build ++ h3_teardown)) = [].
Proof. vm_compute. split; reflexivity. Qed.
(* a handle may not be destroyed while one of its iterators is live *)
Example h3_bad : wf_history (h3_build ++ [RFilesetDestroy 3]) = false.
Proof. vm_compute. reflexivity. Qed.
