(* Relations between the lookup kinds, as corollaries of "lookup = filter of a strictly
   sorted entry list" (LookupProofs / ReaderProofs):
     - an exact-match lookup delivers at most one entry;
     - get k delivers what get_range k k delivers;
     - get_prefix of the empty prefix delivers every entry (what iter delivers);
     - the entries a prefix lookup delivers are among those of the range [p, k1] for every
       k1 that is >= each key with the prefix (the prefix keys form an interval that starts at p);
     - the result of every lookup is a strictly increasing list. *)
From Coq Require Import NArith List Lia Sorting.Sorted.
From Mtbl Require Import model.Bytes model.Order spec.Parse model.Reader proofs.OrderProofs proofs.BlockProofs proofs.LookupProofs proofs.ReaderProofs.
Import ListNotations.
Local Open Scope N_scope.

Lemma klt_not_eq a b k : klt a b -> pe_key a = k -> beq (pe_key b) k = false.
Proof.
  unfold klt, beq. intros H <-. rewrite (bcmp_antisym (pe_key a) (pe_key b)), H. reflexivity.
Qed.

(* on a strictly sorted list at most one entry has a given key *)
Lemma filter_eq_sorted k : forall l, StronglySorted klt l ->
  (length (filter (fun e => beq (pe_key e) k) l) <= 1)%nat.
Proof.
  induction 1 as [|x l Hs IH Hall]; [cbn; lia|]. cbn [filter].
  destruct (beq (pe_key x) k) eqn:E; [|exact IH].
  assert (Hk : pe_key x = k) by (unfold beq in E; destruct (bcmp (pe_key x) k) eqn:E1; try discriminate; apply bcmp_eq, E1).
  assert (Hnil : filter (fun e => beq (pe_key e) k) l = []).
  { clear IH Hs. induction l as [|y l IHl]; [reflexivity|]. inversion Hall as [|? ? Hy Hl]; subst.
    cbn [filter]. rewrite (klt_not_eq x y _ Hy eq_refl). apply IHl, Hl. }
  rewrite Hnil. cbn. lia.
Qed.

Lemma filter_sorted (f : pentry -> bool) : forall l, StronglySorted klt l -> StronglySorted klt (filter f l).
Proof.
  induction 1 as [|x l Hs IH Hall]; [constructor|]. cbn [filter]. destruct (f x); [|exact IH].
  constructor; [exact IH|]. apply Forall_forall. intros y Hy. apply filter_In in Hy.
  rewrite Forall_forall in Hall. apply Hall, Hy.
Qed.

(* get k = get_range k k, as predicates on keys *)
Lemma get_pred_is_range_pred k key : lookup_pred KGet k k key = lookup_pred KRange k k key.
Proof.
  unfold lookup_pred, beq, ble. rewrite (bcmp_antisym key k). destruct (bcmp key k); reflexivity.
Qed.

Lemma prefix_nil_pred k1 key : lookup_pred KPrefix [] k1 key = true.
Proof. reflexivity. Qed.

(* a key with prefix p lies in [p, k1] as soon as it is <= k1 *)
Lemma prefix_pred_in_range p k1 key : lookup_pred KPrefix p k1 key = true -> ble key k1 = true ->
  lookup_pred KRange p k1 key = true.
Proof.
  unfold lookup_pred. intros H1 H2. rewrite H2, Bool.andb_true_r. unfold ble.
  pose proof (prefix_ge p key H1) as Hge. rewrite (bcmp_antisym key p).
  destruct (bcmp key p); [reflexivity|congruence|reflexivity].
Qed.

Lemma filter_ext_in_eq {A} (f g : A -> bool) l : (forall x, f x = g x) -> filter f l = filter g l.
Proof. intros H. induction l as [|x l IH]; [reflexivity|]. cbn. rewrite H, IH. reflexivity. Qed.

Section OverTable.
Variable decompress : N -> bytes -> res bytes.
Variables (r : reader) (ib : ablock) (iridx : list nat) (nb : nat) (B : nat -> ablock) (Rr : nat -> list nat).
Hypothesis T : table_ok decompress r ib iridx nb B Rr.

Let result kind k0 k1 := filter (fun e : bytes * bytes => lookup_pred kind k0 k1 (fst e)) (table_entries_of nb B).

Lemma table_G_sorted : StronglySorted klt (G nb B).
Proof. destruct T. eapply G_sorted; eassumption. Qed.

Theorem table_get_at_most_one k0 k1 : (length (result KGet k0 k1) <= 1)%nat.
Proof.
  unfold result, table_entries_of. rewrite (filter_map_ent nb B (lookup_pred KGet k0 k1)), map_length.
  apply (filter_eq_sorted k0), table_G_sorted.
Qed.

Theorem table_get_is_range k : result KGet k k = result KRange k k.
Proof. unfold result. apply filter_ext_in_eq. intros e. apply get_pred_is_range_pred. Qed.

Theorem table_prefix_nil_is_all k1 : result KPrefix [] k1 = table_entries_of nb B.
Proof.
  unfold result. induction (table_entries_of nb B) as [|e l IH]; [reflexivity|].
  cbn [filter]. rewrite prefix_nil_pred, IH. reflexivity.
Qed.

Theorem table_prefix_within_range p k1 : forall e, In e (result KPrefix p k1) -> ble (fst e) k1 = true ->
  In e (result KRange p k1).
Proof.
  unfold result. intros e He Hle. apply filter_In in He. destruct He as [Hin Hp].
  apply filter_In. split; [exact Hin|]. apply prefix_pred_in_range; assumption.
Qed.

(* whatever a lookup delivers is strictly increasing (so: no key twice, whatever the kind) *)
Theorem table_result_sorted kind k0 k1 :
  exists l, result kind k0 k1 = map ent l /\ StronglySorted klt l.
Proof.
  exists (filter (fun e => lookup_pred kind k0 k1 (pe_key e)) (G nb B)). split.
  - unfold result, table_entries_of. apply (filter_map_ent nb B (lookup_pred kind k0 k1)).
  - apply filter_sorted, table_G_sorted.
Qed.

End OverTable.

(* ---- a seek forgets the history ---------------------------------------------------------
   On the cursor specification: whatever was done before a seek (and wherever the cursor
   started), what follows the seek is the same list of answers. *)
Lemma run_spec_seek_forgets nb B kind k key post : forall pre c,
  exists out, length out = length pre /\
    run_spec nb B kind k c (pre ++ RSeek key :: post) =
    out ++ None :: run_spec nb B kind k (Some (gfirst nb B key)) post.
Proof.
  induction pre as [|op pre IH]; intros c.
  - exists []. split; reflexivity.
  - destruct op as [|k'].
    + cbn [app run_spec]. destruct (spec_next nb B kind k c) as [c' e].
      destruct (IH c') as (out & Hl & Hr). exists (e :: out). split; [cbn; lia|]. rewrite Hr. reflexivity.
    + cbn [app run_spec]. destruct (IH (Some (gfirst nb B k'))) as (out & Hl & Hr).
      exists (None :: out). split; [cbn; lia|]. rewrite Hr. reflexivity.
Qed.
