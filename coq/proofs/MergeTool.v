(* src/mtbl_merge.c, end to end (C04 + C08 + C01, and C03 on the input side): the output of mtbl_merge is a
   table holding exactly the merge of its inputs.  model/ToolsMerge.v composes the merger model and the
   writer model the way main() / merge() do.
     MT1       - no assertion of merge() fails: the iterator exists, every mtbl_writer_add of the drained
                 sequence returns success, nothing aborts, destroy completes; the loop as written in C
                 (merge_tool_run: next, add, assert) computes the same finished writer.
     MT2       - the output file opens with the reader model and reading it from the start returns the merged
                 content: keys strictly ascending, = all_keys of the inputs, each value the fold of the merge
                 function over all the values the inputs hold for that key.
     MT2_total - MT2 with "compression succeeds" in place of "the session returned Ok".
     MT3       - inputs given as FILES written by the writer model: their reader iterators are the ideal
                 cursors the merger model takes (C01 + C03), for every writer configuration, the empty table
                 included.
     MT_example - a concrete run by vm_compute. *)
From Coq Require Import NArith ZArith List Lia Permutation Sorting.Sorted.
From Mtbl Require Import gen.Consts model.Bytes model.Order model.Heap model.Merger spec.MergeSpec
  model.Block model.Writer model.Reader spec.Parse model.ToolsMerge
  proofs.OrderProofs proofs.WriterProofs proofs.MetaProofs proofs.BlockProofs proofs.LookupProofs proofs.ReaderProofs
  proofs.BlockRT proofs.TableRT
  proofs.HeapProofs proofs.MergerProofs proofs.MergerClosed proofs.MergerHistory proofs.MergerBounded proofs.SorterMore proofs.SorterWrite.
(* the property theorems that are composed: T04_merge_sources, T08b_sequence, T01_any_input / T01_written_table_ok *)
From Mtbl Require props.Properties_C04 props.Properties_C08 props.Properties_C01.
Import ListNotations.
Local Open Scope N_scope.
Ltac splits := repeat match goal with |- _ /\ _ => split end.

(* ---- the drain of the tool model is the drain the C04 theorems are about ------------------------------- *)
Lemma merge_drain_mdrain mf : forall fuel it, merge_drain mf fuel it = mdrain mf fuel it.
Proof.
  induction fuel as [|fuel IH]; intros it; [reflexivity|]. cbn [merge_drain mdrain].
  destruct (merger_next (Some mf) None it) as [it' [e|]]; [rewrite IH|]; reflexivity.
Qed.

(* ---- C08 on a strictly ascending sequence: every add is accepted ---------------------------------------- *)
Lemma accept_spec_sorted : forall (ops : list entry) last,
  strictly_sorted (map fst ops) ->
  match last, ops with Some l, kv :: _ => bcmp (fst kv) l = Gt | _, _ => True end ->
  accept_spec last ops = map (fun _ => true) ops.
Proof.
  induction ops as [|[k v] ops IH]; intros last Hs Hl; [reflexivity|].
  cbn [accept_spec map].
  assert (Hok : match last with None => true | Some l => match bcmp k l with Gt => true | _ => false end end = true).
  { destruct last as [l|]; [|reflexivity]. cbn [fst] in Hl. rewrite Hl. reflexivity. }
  rewrite Hok. f_equal. apply IH.
  - destruct ops as [|[k2 v2] ops]; [exact I|]. cbn [map fst strictly_sorted] in Hs. cbn [map fst]. apply Hs.
  - destruct ops as [|[k2 v2] ops]; [exact I|]. cbn [map fst strictly_sorted] in *. apply bcmp_lt_gt. tauto.
Qed.

Lemma all_true_map {A} : forall l : list A, Forall (fun b => b = true) (map (fun _ => true) l).
Proof. induction l; constructor; [reflexivity|assumption]. Qed.

Lemma kept_map_true : forall es : list entry, kept es (map (fun _ => true) es) = es.
Proof. induction es as [|e es IH]; [reflexivity|]. unfold kept in *. cbn [map combine filter snd fst]. f_equal. exact IH. Qed.

(* ---- the iterator of the tool and what it delivers (C04) ------------------------------------------------- *)
Section Output.
Variable mf : bytes -> bytes -> bytes -> option bytes.
Hypothesis mf_total : forall k a b, mf k a b <> None.
Variable srcs : list (list entry).
Hypothesis srcs_sorted : Forall ssorted srcs.

Lemma tool_iter : exists it, merger_iter_make None (tool_sources srcs) false = Some it /\ api it /\
  (length (remaining it) < S (length (concat srcs)))%nat /\
  merge_output mf srcs = mdrain mf (S (length (concat srcs))) it.
Proof.
  assert (Hfresh : Forall fresh (tool_sources srcs)).
  { apply Forall_forall. intros s Hin. apply in_map_iff in Hin. destruct Hin as (es & <- & Hes).
    rewrite Forall_forall in srcs_sorted. unfold fresh. cbn. repeat split; try reflexivity. apply srcs_sorted, Hes. }
  destruct (merger_iter_make_spec mf hk K_nil K_push K_pop K_replace K_min K_mark _ Hfresh) as (it & Hmk & Hapi & Hperm & _).
  unfold tool_sources in Hperm. rewrite map_map in Hperm. cbn [sc_es] in Hperm. rewrite map_id in Hperm.
  exists it. splits; [exact Hmk|exact Hapi| |].
  - rewrite (Permutation_length Hperm). apply Nat.lt_succ_diag_r.
  - unfold merge_output. rewrite Hmk. apply merge_drain_mdrain.
Qed.

(* the conclusion of T04_merge_sources for merge_output, and the key list as a function of the inputs *)
Lemma merge_output_spec :
  StronglySorted (fun a b => bcmp (fst a) (fst b) = Lt) (merge_output mf srcs) /\
  (forall k, In k (map fst (merge_output mf srcs)) <-> In k (map fst (concat srcs))) /\
  Forall (fun e => merged_value_ok mf srcs (fst e) (snd e)) (merge_output mf srcs) /\
  map fst (merge_output mf srcs) = all_keys srcs.
Proof.
  destruct (Properties_C04.T04_merge_sources mf srcs srcs_sorted mf_total) as (it & Hmk & Hs & Hk & Hv).
  assert (E : merge_output mf srcs = mdrain mf (S (length (concat srcs))) it).
  { unfold merge_output, tool_sources. rewrite Hmk. apply merge_drain_mdrain. }
  rewrite E. splits; [exact Hs|exact Hk|exact Hv|].
  apply ksorted_unique; [apply sorted_keys_ksorted, Hs|apply all_keys_sorted|].
  intros x. rewrite Hk, all_keys_In. reflexivity.
Qed.
End Output.

(* ---- the loop of merge() as written = writer_adds over the drained sequence when every add succeeds -------- *)
Section Loop.
Variable mf : bytes -> bytes -> bytes -> option bytes.
Variable compress_default : N -> bytes -> res bytes.
Variable compress_level : N -> Z -> bytes -> res bytes.

Lemma merge_loop_spec : forall fuel it w w1 rs, api it -> (length (remaining it) < fuel)%nat ->
  writer_adds compress_default compress_level w (mdrain mf fuel it) = Ok (w1, rs) ->
  Forall (fun b => b = true) rs ->
  merge_loop compress_default compress_level mf fuel it w = Ok w1.
Proof.
  induction fuel as [|fuel IH]; intros it w w1 rs Hapi Hlen Hadds Hall; [lia|].
  cbn [merge_loop]. rewrite mdrain_S in Hadds. pose proof (merger_next_closed mf it Hapi) as Hstep.
  destruct (merger_next (Some mf) None it) as [it' [[k v]|]].
  - destruct Hstep as (first & rest & Hp & _ & _ & Hapi' & _). apply Permutation_length in Hp.
    cbn [length] in Hp. rewrite app_length in Hp. unfold entry in *.
    cbn [writer_adds] in Hadds.
    destruct (writer_add compress_default compress_level w k v) as [[w2 r]| | |]; try discriminate.
    destruct (writer_adds compress_default compress_level w2 (mdrain mf fuel it')) as [[w3 rs2]| | |] eqn:E2; try discriminate.
    inversion Hadds; subst w3 rs. inversion Hall as [|? ? Hr Hall2]; subst.
    apply (IH it' w2 w1 rs2 Hapi' ltac:(lia) E2 Hall2).
  - cbn [writer_adds] in Hadds. inversion Hadds; subst. reflexivity.
Qed.
End Loop.

(* ================= MT1: no assertion of merge() can fail ================================================== *)
Section SecMT1.
Variable compress_default : N -> bytes -> res bytes.
Variable compress_level : N -> Z -> bytes -> res bytes.
(* world assumption of C08: compressing a block succeeds (the writer asserts it) *)
Hypothesis compress_default_total : forall a raw, exists c, compress_default a raw = Ok c.
Hypothesis compress_level_total : forall a l raw, exists c, compress_level a l raw = Ok c.

Theorem MT1 : forall (mf : bytes -> bytes -> bytes -> option bytes) (o : wopts) (srcs : list (list entry)),
  1 <= wo_interval o ->
  Forall ssorted srcs -> (forall k a b, mf k a b <> None) ->
  Forall (fun e => wf_bytes (fst e)) (concat srcs) ->
  exists w,
    (* the iterator is not NULL, no add aborts, every add returns success, destroy completes *)
    merge_tool_model compress_default compress_level mf o srcs = Ok (w, map (fun _ => true) (merge_output mf srcs)) /\
    (* the loop with its assertions runs to the same finished writer *)
    merge_tool_run compress_default compress_level mf o srcs = Ok w.
Proof.
  intros mf o srcs Hi Hs Htot Hwf.
  destruct (tool_iter mf srcs Hs) as (it & Hmk & Hapi & Hlen & Hout).
  destruct (merge_output_spec mf Htot srcs Hs) as (Hsorted & Hkeys & _ & _).
  assert (Hwfo : Forall (fun kv : entry => wf_bytes (fst kv)) (merge_output mf srcs)).
  { rewrite Forall_forall in *. intros e He. assert (Hin : In (fst e) (map fst (concat srcs))) by (apply Hkeys, in_map, He).
    apply in_map_iff in Hin. destruct Hin as (e' & <- & He'). apply Hwf, He'. }
  destruct (Properties_C08.T08b_sequence compress_default compress_level compress_default_total compress_level_total o 0 (merge_output mf srcs) Hi Hwfo) as (w & Hsess).
  rewrite (accept_spec_sorted _ None (ssorted_keys_strict _ Hsorted) I) in Hsess.
  exists w. split.
  - unfold merge_tool_model. rewrite Hmk, merge_drain_mdrain, <- Hout. exact Hsess.
  - unfold merge_tool_run. rewrite Hmk. unfold writer_session in Hsess. rewrite Hout in Hsess.
    destruct (writer_adds compress_default compress_level (writer_init o 0) (mdrain mf (S (length (concat srcs))) it))
      as [[w0 rs0]| | |] eqn:Ea; try discriminate.
    destruct (writer_finish compress_default compress_level w0) as [wf| | |] eqn:Ef; try discriminate.
    inversion Hsess; subst wf rs0.
    rewrite (merge_loop_spec mf compress_default compress_level _ it _ w0 _ Hapi Hlen Ea (all_true_map _)). exact Ef.
Qed.
End SecMT1.

(* ================= MT2: the output file holds exactly the merge of the inputs ============================== *)
Section SecMT2.
Variable compress_default : N -> bytes -> res bytes.
Variable compress_level : N -> Z -> bytes -> res bytes.
Variable decompress : N -> bytes -> res bytes.
Hypothesis decompress_compress_default : forall a raw c, compress_default a raw = Ok c -> decompress a c = Ok raw.
Hypothesis decompress_compress_level : forall a l raw c, compress_level a l raw = Ok c -> decompress a c = Ok raw.

(* what "the table holds exactly the merge of srcs under mf" means for an entry list *)
Definition is_merge_of (mf : bytes -> bytes -> bytes -> option bytes) (srcs : list (list entry)) (out : list entry) : Prop :=
  StronglySorted (fun a b => bcmp (fst a) (fst b) = Lt) out /\
  (forall k, In k (map fst out) <-> In k (map fst (concat srcs))) /\
  map fst out = all_keys srcs /\
  Forall (fun e => merged_value_ok mf srcs (fst e) (snd e)) out.

Theorem MT2 : forall (mf : bytes -> bytes -> bytes -> option bytes) (o : wopts) (srcs : list (list entry)) w rs,
  1 <= wo_interval o ->
  Forall ssorted srcs -> (forall k a b, mf k a b <> None) ->
  merge_tool_model compress_default compress_level mf o srcs = Ok (w, rs) ->
  Properties_C01.fits o [] (merge_output mf srcs) w ->
  Forall (fun b => b = true) rs /\
  (exists r, fst (reader_open (writer_bytes w) false) = Ok (Some r)) /\
  exists out, is_merge_of mf srcs out /\
    forall fuel, (length (all_keys srcs) < fuel)%nat -> read_all decompress fuel (writer_bytes w) = Ok out.
Proof.
  intros mf o srcs w rs Hi Hs Htot Hrun Hfits.
  destruct (tool_iter mf srcs Hs) as (it & Hmk & _ & _ & Hout).
  destruct (merge_output_spec mf Htot srcs Hs) as (Hsorted & Hkeys & Hvals & Hall).
  unfold merge_tool_model in Hrun. rewrite Hmk, merge_drain_mdrain, <- Hout in Hrun. change 0 with (len []) in Hrun.
  pose proof Hfits as (Hf & _).
  pose proof (roundtrip_sorted compress_default compress_level o [] _ w rs Hi Hf (ssorted_keys_strict _ Hsorted) Hrun) as Hkept.
  splits.
  - unfold writer_session in Hrun.
    destruct (writer_adds compress_default compress_level (writer_init o (len [])) (merge_output mf srcs)) as [[w0 rs0]| | |] eqn:Ea; try discriminate.
    destruct (writer_finish compress_default compress_level w0); try discriminate. inversion Hrun; subst.
    apply (kept_all_true _ _ (writer_adds_length _ _ _ _ _ _ Ea) Hkept).
  - destruct (Properties_C01.T01_written_table_ok compress_default compress_level decompress decompress_compress_default
                decompress_compress_level o [] _ w rs Hi Hrun Hfits) as (r & Hopen & _). exists r. exact Hopen.
  - exists (merge_output mf srcs). split; [unfold is_merge_of; splits; assumption|]. intros fuel Hfuel.
    pose proof (Properties_C01.T01_any_input compress_default compress_level decompress decompress_compress_default
                  decompress_compress_level o [] _ w rs Hi Hrun Hfits fuel) as Hr.
    rewrite Hkept in Hr. apply Hr. rewrite <- Hall, map_length in Hfuel. exact Hfuel.
Qed.

(* with "compression succeeds" (C08) instead of "the session returned Ok": the run exists *)
Theorem MT2_total : forall (mf : bytes -> bytes -> bytes -> option bytes) (o : wopts) (srcs : list (list entry)),
  (forall a raw, exists c, compress_default a raw = Ok c) -> (forall a l raw, exists c, compress_level a l raw = Ok c) ->
  1 <= wo_interval o ->
  Forall ssorted srcs -> (forall k a b, mf k a b <> None) ->
  Forall (fun e => wf_bytes (fst e)) (concat srcs) ->
  exists w, merge_tool_run compress_default compress_level mf o srcs = Ok w /\
    (Properties_C01.fits o [] (merge_output mf srcs) w ->
     (exists r, fst (reader_open (writer_bytes w) false) = Ok (Some r)) /\
     exists out, is_merge_of mf srcs out /\
       forall fuel, (length (all_keys srcs) < fuel)%nat -> read_all decompress fuel (writer_bytes w) = Ok out).
Proof.
  intros mf o srcs Hcd Hcl Hi Hs Htot Hwf.
  destruct (MT1 compress_default compress_level Hcd Hcl mf o srcs Hi Hs Htot Hwf) as (w & Hm & Hr).
  exists w. split; [exact Hr|]. intros Hfits.
  destruct (MT2 mf o srcs w _ Hi Hs Htot Hm Hfits) as (_ & Hopen & Hread). split; assumption.
Qed.
End SecMT2.


(* ================= MT3: the inputs as FILES written by the writer model ===================================== *)
Lemma strict_head : forall (r : list entry) (a : entry), strictly_sorted (fst a :: map fst r) ->
  forall b, In b r -> bcmp (fst a) (fst b) = Lt.
Proof.
  induction r as [|c r IH]; intros a H b Hb; [contradiction|]. cbn [map strictly_sorted] in H. destruct H as [H1 H2].
  destruct Hb as [<-|Hb]; [exact H1|]. eapply bcmp_lt_trans; [exact H1|]. apply (IH c H2 b Hb).
Qed.
Lemma strict_ssorted : forall r : list entry, strictly_sorted (map fst r) -> ssorted r.
Proof.
  induction r as [|a r IH]; intros H; [apply ssorted_nil|].
  apply ssorted_cons; [|apply strict_head; exact H]. apply IH. destruct r as [|b r]; [exact I|]. exact (proj2 H).
Qed.

(* on a table without entries mtbl_reader_source's iterator is NULL (reader_iter = Ok None); the merger's
   entry_fill gets failure from it on every call - the history of the ideal cursor over the empty list *)
Lemma sc_run_empty : forall ops pos valid null,
  sc_run (mksc [] pos valid BAll null) ops = map (fun _ => None) ops.
Proof.
  induction ops as [|[|k] ops IH]; intros pos valid null; [reflexivity| |].
  - cbn [sc_run map]. unfold sc_next. cbn [sc_null sc_valid sc_es sc_pos sc_bound].
    destruct (null || negb valid)%bool; [rewrite IH; reflexivity|].
    replace (nth_error (@nil entry) pos) with (@None entry) by (destruct pos; reflexivity). rewrite IH. reflexivity.
  - cbn [sc_run map]. unfold sc_seek. cbn [sc_null sc_es sc_bound]. destruct null; rewrite IH; reflexivity.
Qed.

Section SecMT3.
Variable compress_default : N -> bytes -> res bytes.
Variable compress_level : N -> Z -> bytes -> res bytes.
Variable decompress : N -> bytes -> res bytes.
Hypothesis decompress_compress_default : forall a raw c, compress_default a raw = Ok c -> decompress a c = Ok raw.
Hypothesis decompress_compress_level : forall a l raw c, compress_level a l raw = Ok c -> decompress a c = Ok raw.

(* f is the file the writer model produces for the strictly ascending list es under options o (domain of C01) *)
Definition written_input (o : wopts) (es : list entry) (f : bytes) : Prop :=
  1 <= wo_interval o /\ strictly_sorted (map fst es) /\
  exists w rs, writer_session compress_default compress_level o 0 es = Ok (w, rs) /\
               Properties_C01.fits o [] es w /\ f = writer_bytes w.

(* what main() gets from such a file: the reader opens; reading it yields es; the iterator of
   mtbl_reader_source has, for every sequence of next / seek calls, the history of the ideal cursor
   mksc es 0 true BAll false  that merge_tool_model hands to the merger (NULL iterator when es = []) *)
Definition input_is_cursor (es : list entry) (f : bytes) : Prop :=
  ssorted es /\ read_all decompress (S (length es)) f = Ok es /\
  exists r, fst (reader_open f false) = Ok (Some r) /\
    ((es = [] /\ reader_iter decompress r = Ok None /\
      forall ops, sc_run null_cur ops = sc_run (mksc es 0 true BAll false) ops) \/
     (exists it, reader_iter decompress r = Ok (Some it) /\
        forall ops, run_model decompress r it ops = Ok (sc_run (mksc es 0 true BAll false) ops))).

Theorem MT3_input : forall o es f, written_input o es f -> input_is_cursor es f.
Proof.
  intros o es f (Hi & Hs & w & rs & Hsess & Hfits & ->). change 0 with (len []) in Hsess.
  pose proof Hfits as (Hf & _).
  pose proof (roundtrip_sorted compress_default compress_level o [] es w rs Hi Hf Hs Hsess) as Hkept.
  unfold input_is_cursor. splits.
  - apply strict_ssorted, Hs.
  - exact (Properties_C01.T01_roundtrip compress_default compress_level decompress decompress_compress_default
             decompress_compress_level o [] es w rs Hi Hs Hsess Hfits).
  - destruct (Properties_C01.T01_written_table_ok compress_default compress_level decompress decompress_compress_default
                decompress_compress_level o [] es w rs Hi Hsess Hfits) as (r & Hopen & Hcase).
    cbn [app] in Hopen. exists r. split; [exact Hopen|]. rewrite Hkept in Hcase.
    destruct Hcase as [(-> & ib & r0 & Hix & He & Hr)|(ib & iridx & ds & Htab & Hent)].
    + left. splits; [reflexivity|exact (empty_table_iter decompress r ib r0 Hix He Hr)|].
      intros ops. unfold null_cur. rewrite !sc_run_empty. reflexivity.
    + right. destruct (table_history_iter decompress r ib iridx (length ds) (Bof ds) (Rof ds) Htab) as (it & Hit & Hrun).
      exists it. split; [exact Hit|]. intros ops. rewrite Hrun. f_equal. apply spec_cursor_is_scur.
      unfold cur_rel. cbn [sc_es sc_bound sc_null sc_valid sc_pos].
      unfold table_entries_of in Hent. splits; try reflexivity. symmetry. exact Hent.
Qed.
End SecMT3.

Section SecMT3b.
Variable compress_default : N -> bytes -> res bytes.
Variable compress_level : N -> Z -> bytes -> res bytes.
Variable decompress : N -> bytes -> res bytes.
Hypothesis decompress_compress_default : forall a raw c, compress_default a raw = Ok c -> decompress a c = Ok raw.
Hypothesis decompress_compress_level : forall a l raw c, compress_level a l raw = Ok c -> decompress a c = Ok raw.

(* file to file: every input is a table written by the writer model (each with its own options); then main()'s
   readers are the ideal cursors of merge_tool_model, and the output file reads back as the merge of the
   CONTENTS of the input files *)
Theorem MT3 : forall (mf : bytes -> bytes -> bytes -> option bytes) (o : wopts)
    (ins : list (wopts * list entry)) (files : list bytes) w rs,
  Forall2 (fun i f => written_input compress_default compress_level (fst i) (snd i) f) ins files ->
  1 <= wo_interval o -> (forall k a b, mf k a b <> None) ->
  merge_tool_model compress_default compress_level mf o (map snd ins) = Ok (w, rs) ->
  Properties_C01.fits o [] (merge_output mf (map snd ins)) w ->
  Forall2 (fun i f => input_is_cursor decompress (snd i) f) ins files /\
  Forall (fun b => b = true) rs /\
  (exists r, fst (reader_open (writer_bytes w) false) = Ok (Some r)) /\
  exists out, is_merge_of mf (map snd ins) out /\
    forall fuel, (length (all_keys (map snd ins)) < fuel)%nat -> read_all decompress fuel (writer_bytes w) = Ok out.
Proof.
  intros mf o ins files w rs Hin Hi Htot Hrun Hfits.
  assert (Hcur : Forall2 (fun i f => input_is_cursor decompress (snd i) f) ins files).
  { clear Hrun Hfits. induction Hin as [|i f ins' files' H1 _ IH]; [constructor|]. constructor; [|exact IH].
    exact (MT3_input compress_default compress_level decompress decompress_compress_default decompress_compress_level _ _ _ H1). }
  assert (Hs : Forall ssorted (map snd ins)).
  { clear -Hcur. induction Hcur as [|i f ins' files' H1 _ IH]; cbn [map]; [constructor|]. constructor; [exact (proj1 H1)|exact IH]. }
  split; [exact Hcur|].
  exact (MT2 compress_default compress_level decompress decompress_compress_default decompress_compress_level
           mf o (map snd ins) w rs Hi Hs Htot Hrun Hfits).
Qed.
End SecMT3b.

(* ================= a concrete run ============================================================================ *)
(* three input tables with overlapping keys (the empty key, an empty table's worth of overlap), written by the
   writer model without compression (wo_comp = 0: the compress functions are never called), merged with the
   concatenating merge function of Properties_C04 ('|' between the values), small blocks so that the output
   has several data blocks; the output read back is the expected merged list; the loop with assertions
   (merge_tool_run) produces the same file *)
Definition ex_none_c : N -> bytes -> res bytes := fun _ _ => Fail.
Definition ex_none_l : N -> Z -> bytes -> res bytes := fun _ _ _ => Fail.
Definition ex_in1 : list entry := [([], [1]); ([97], [2]); ([99], [3]); ([100; 100], repeat 7 40)].
Definition ex_in2 : list entry := [([], [4]); ([98], [5]); ([99], [6])].
Definition ex_in3 : list entry := [([97], [8]); ([99], [9]); ([100], [10])].
Definition ex_expected : list entry :=
  (* the order of the values inside a key is the heap's: 8|2 for key "a", 6|3|9 for key "c" (MT2 quantifies over it) *)
  [([], [1; 124; 4]); ([97], [8; 124; 2]); ([98], [5]); ([99], [6; 124; 3; 124; 9]); ([100], [10]); ([100; 100], repeat 7 40)].

Example MT_example :
  let oin := mkwopts 0 (-10000)%Z 1024 16 in
  let o := mkwopts 0 (-10000)%Z 32 2 in
  match writer_session ex_none_c ex_none_l oin 0 ex_in1, writer_session ex_none_c ex_none_l oin 0 ex_in2,
        writer_session ex_none_c ex_none_l oin 0 ex_in3 with
  | Ok (w1, _), Ok (w2, _), Ok (w3, _) =>
    (* the input files hold the three lists *)
    match read_all ex_none_c 10 (writer_bytes w1), read_all ex_none_c 10 (writer_bytes w2), read_all ex_none_c 10 (writer_bytes w3) with
    | Ok s1, Ok s2, Ok s3 =>
      [s1; s2; s3] = [ex_in1; ex_in2; ex_in3] /\
      match merge_tool_model ex_none_c ex_none_l Properties_C04.cat o [s1; s2; s3],
            merge_tool_run ex_none_c ex_none_l Properties_C04.cat o [s1; s2; s3] with
      | Ok (w, rs), Ok w' =>
        rs = [true; true; true; true; true; true] /\
        writer_bytes w' = writer_bytes w /\
        (1 < m_count_data_blocks (w_m w)) /\
        read_all ex_none_c 10 (writer_bytes w) = Ok ex_expected /\
        map fst ex_expected = all_keys [ex_in1; ex_in2; ex_in3]
      | _, _ => False
      end
    | _, _, _ => False
    end
  | _, _, _ => False
  end.
Proof. vm_compute. repeat split. Qed.

Print Assumptions MT1.
Print Assumptions MT2.
Print Assumptions MT2_total.
Print Assumptions MT3_input.
Print Assumptions MT3.
