(* fileset.c / my_fileset.c, view and pinning clauses of C07, on model/Fileset.v.
   Tier 1: an iterator created by a live handle is over exactly the loaded entries that have a
           reader and pass the handle's two filters, in name order.
   Tier 2: the loaded entries are the setfile lines that exist, as of the most recent reload
           that re-read the setfile.
   Tier 3: open iterators pin their snapshot; no reload takes effect while one is open.
   Tier 4: reinit_merger as filter / map. *)
From Coq Require Import NArith ZArith List Lia Permutation ZifyBool ZifyN ZifyNat Sorted Bool.
From Mtbl Require Import gen.Consts model.Bytes model.Fileset proofs.FilesetProofs.
Import ListNotations.
Local Open Scope N_scope.

(* ================================================================================================ *)
(* A. entries sorted by name                                                                        *)
(* ================================================================================================ *)
Definition name_lt (a b : fentry) : Prop := fe_name a < fe_name b.
Definition sorted (l : list fentry) : Prop := StronglySorted name_lt l.

Lemma sorted_nil : sorted [].
Proof. constructor. Qed.

Lemma sorted_inv x l : sorted (x :: l) -> sorted l /\ forall e, In e l -> fe_name x < fe_name e.
Proof.
  intros H. apply StronglySorted_inv in H. destruct H as [H1 H2]. split; [exact H1|].
  rewrite Forall_forall in H2. exact H2.
Qed.

Lemma sorted_cons x l : sorted l -> (forall e, In e l -> fe_name x < fe_name e) -> sorted (x :: l).
Proof. intros H1 H2. constructor; [exact H1|]. apply Forall_forall. exact H2. Qed.

Lemma insert_sorted_sorted e : forall l, sorted l -> ~ In (fe_name e) (names_of l) -> sorted (insert_sorted e l).
Proof.
  induction l as [|x l IH]; intros Hs Hni; cbn [insert_sorted].
  - apply sorted_cons; [constructor|intros ? []].
  - apply sorted_inv in Hs. destruct Hs as [Hs Hx].
    assert (Hne : fe_name e <> fe_name x) by (intros E; apply Hni; left; symmetry; exact E).
    assert (Hni' : ~ In (fe_name e) (names_of l)) by (intros H; apply Hni; right; exact H).
    destruct (fe_name e <=? fe_name x) eqn:E.
    + apply sorted_cons; [apply sorted_cons; assumption|].
      intros y [<-|Hy]; [lia|]. specialize (Hx y Hy). lia.
    + apply sorted_cons; [apply IH; assumption|].
      intros y Hy. apply in_insert in Hy. destruct Hy as [->|Hy]; [lia|exact (Hx y Hy)].
Qed.

Lemma sorted_NoDup_names : forall l, sorted l -> NoDup (names_of l).
Proof.
  induction l as [|x l IH]; intros Hs; cbn [names_of map]; [constructor|].
  apply sorted_inv in Hs. destruct Hs as [Hs Hx]. constructor; [|apply IH, Hs].
  intros Hin. apply in_map_iff in Hin. destruct Hin as (e & E & He). specialize (Hx e He). lia.
Qed.

(* two lists sorted strictly by name with the same elements are the same list *)
Lemma sorted_ext : forall l l', sorted l -> sorted l' -> (forall e, In e l <-> In e l') -> l = l'.
Proof.
  induction l as [|x l IH]; intros [|y l'] Hs Hs' Hiff.
  - reflexivity.
  - exfalso. apply (proj2 (Hiff y)). left. reflexivity.
  - exfalso. apply (proj1 (Hiff x)). left. reflexivity.
  - apply sorted_inv in Hs. destruct Hs as [Hs Hx]. apply sorted_inv in Hs'. destruct Hs' as [Hs' Hy].
    assert (E : x = y).
    { destruct (proj1 (Hiff x) (or_introl eq_refl)) as [E|H1]; [symmetry; exact E|].
      destruct (proj2 (Hiff y) (or_introl eq_refl)) as [E|H2]; [exact E|].
      specialize (Hx y H2). specialize (Hy x H1). lia. }
    subst y. f_equal. apply IH; [exact Hs|exact Hs'|]. intros e. split; intros He.
    + destruct (proj1 (Hiff e) (or_intror He)) as [E|H]; [|exact H]. subst e. specialize (Hx x He). lia.
    + destruct (proj2 (Hiff e) (or_intror He)) as [E|H]; [|exact H]. subst e. specialize (Hy x He). lia.
Qed.

(* insertion of a list of entries, one after the other (what the reload loop does) *)
Definition insert_all (es ents : list fentry) : list fentry := fold_left (fun acc e => insert_sorted e acc) es ents.

Lemma insert_all_perm : forall es ents, Permutation (insert_all es ents) (es ++ ents).
Proof.
  induction es as [|e es IH]; intros ents; [reflexivity|]. cbn [insert_all fold_left app].
  eapply Permutation_trans; [apply IH|]. eapply Permutation_trans; [apply Permutation_app_head, insert_sorted_perm|].
  apply Permutation_sym, Permutation_middle.
Qed.

Lemma in_insert_all x es ents : In x (insert_all es ents) <-> In x es \/ In x ents.
Proof.
  split; intros H.
  - apply (Permutation_in _ (insert_all_perm es ents)) in H. apply in_app_or, H.
  - apply (Permutation_in _ (Permutation_sym (insert_all_perm es ents))). apply in_or_app, H.
Qed.

Lemma insert_all_sorted : forall es ents, sorted ents -> NoDup (names_of es ++ names_of ents) -> sorted (insert_all es ents).
Proof.
  induction es as [|e es IH]; intros ents Hs Hnd; [exact Hs|]. cbn [insert_all fold_left]. apply IH.
  - apply insert_sorted_sorted; [exact Hs|]. cbn [names_of map app] in Hnd. inversion Hnd as [|? ? Hni _]; subst.
    intros H. apply Hni, in_or_app. right. exact H.
  - cbn [names_of map app] in Hnd. eapply Permutation_NoDup; [|exact Hnd].
    eapply Permutation_trans; [apply Permutation_middle|]. apply Permutation_app_head. apply Permutation_sym, names_insert.
Qed.

(* ================================================================================================ *)
(* B. my_fileset_reload, functionally                                                               *)
(* ================================================================================================ *)
Definition file_exists (w : world) (n : fname) : bool := match lookup_file w n with Some _ => true | None => false end.
Definition find_entry (old : list fentry) (n : fname) : option fentry := find (fun e => fe_name e =? n) old.

(* the entries made for the lines of the setfile, in setfile order: a line whose path does not exist
   is skipped; a name that is loaded keeps its reader and table; a new name gets the next reader id
   (or no reader when the file is not a table) *)
Fixpoint raw_entries (w : world) (old : list fentry) (next : N) (lines : list fname) : list fentry :=
  match lines with
  | [] => []
  | line :: tl =>
    match lookup_file w line with
    | None => raw_entries w old next tl
    | Some k =>
      match find_entry old line with
      | Some e => mkfe line (fe_reader e) (fe_table e) :: raw_entries w old next tl
      | None =>
        match k with
        | FTable t => mkfe line (Some next) t :: raw_entries w old (next + 1) tl
        | FNotTable => mkfe line None 0 :: raw_entries w old next tl
        end
      end
    end
  end.

Definition is_new (w : world) (old : list fentry) (n : fname) : bool :=
  file_exists w n && match find_entry old n with Some _ => false | None => true end.
Definition is_new_table (w : world) (old : list fentry) (n : fname) : bool :=
  match lookup_file w n with Some (FTable _) => match find_entry old n with Some _ => false | None => true end | _ => false end.
Definition is_kept (w : world) (old : list fentry) (n : fname) : bool :=
  file_exists w n && match find_entry old n with Some _ => true | None => false end.

Definition count {A} (f : A -> bool) (l : list A) : N := N.of_nat (length (filter f l)).

Lemma count_cons {A} (f : A -> bool) x l : count f (x :: l) = (if f x then 1 else 0) + count f l.
Proof. unfold count. cbn [filter]. destruct (f x); cbn [length]; lia. Qed.

Lemma tup4_eq {A B C D} (a a' : A) (b b' : B) (c c' : C) (d d' : D) :
  a = a' -> b = b' -> c = c' -> d = d' -> (a, b, c, d) = (a', b', c', d').
Proof. intros -> -> -> ->. reflexivity. Qed.
Ltac tup4 := apply tup4_eq; try reflexivity; try lia.

Lemma fold_rstep_spec w old : forall lines ents next loaded kept,
  fold_left (rstep w old) lines (ents, next, loaded, kept) =
  (insert_all (raw_entries w old next lines) ents,
   next + count (is_new_table w old) lines,
   loaded + count (is_new w old) lines,
   rev (filter (is_kept w old) lines) ++ kept).
Proof.
  induction lines as [|line lines IH]; intros ents next loaded kept.
  - cbn [fold_left raw_entries insert_all filter rev app]. unfold count. cbn [filter length]. tup4.
  - cbn [fold_left raw_entries filter]. rewrite !count_cons. unfold rstep at 2.
    set (c1 := count (is_new_table w old) lines) in *. set (c2 := count (is_new w old) lines) in *.
    set (c3 := filter (is_kept w old) lines) in *.
    unfold is_new, is_new_table, is_kept, file_exists. fold (find_entry old line).
    destruct (lookup_file w line) as [k|]; [|rewrite IH; cbn [andb]; tup4].
    destruct (find_entry old line) as [e0|].
    + rewrite IH. cbn [andb insert_all fold_left rev]. rewrite <- app_assoc. cbn [app].
      destruct k; tup4.
    + destruct k as [t|]; rewrite IH; cbn [andb insert_all fold_left]; tup4.
Qed.

(* the loaded set after a reload that re-reads the setfile in world w, when [old] was loaded and
   [next] is the next reader id *)
Definition setfile_view (w : world) (old : list fentry) (next : N) : list fentry :=
  insert_all (raw_entries w old next (w_set_lines w)) [].

Definition stamp_same (w : world) (s : shared) : bool := (sh_last_ino s =? w_set_ino w) && (sh_last_mtime s =? w_set_mtime w).
Definition dropped_of (w : world) (old : list fentry) : list fentry :=
  filter (fun e => negb (existsb (fun n => n =? fe_name e) (rev (filter (is_kept w old) (w_set_lines w)) ++ []))) old.
Definition dead_after (w : world) (s : shared) : list N :=
  fold_left (fun d e => match fe_reader e with Some r => r :: d | None => d end) (dropped_of w (sh_entries s)) (sh_dead s).

Lemma my_fileset_reload_spec w s :
  my_fileset_reload w s =
  if stamp_same w s then (s, 0, 0) else
  (mkshared (sh_n_iters s) (sh_reload_needed s) (sh_last_sec s) (sh_last_nsec s) (w_set_ino w) (w_set_mtime w)
            (setfile_view w (sh_entries s) (sh_next_reader s))
            (sh_next_reader s + count (is_new_table w (sh_entries s)) (w_set_lines w))
            (dead_after w s) (sh_n_fs s),
   0 + count (is_new w (sh_entries s)) (w_set_lines w),
   N.of_nat (length (dropped_of w (sh_entries s)))).
Proof.
  unfold my_fileset_reload, stamp_same. destruct ((sh_last_ino s =? w_set_ino w) && (sh_last_mtime s =? w_set_mtime w)); [reflexivity|].
  cbv zeta.
  match goal with |- context [fold_left ?f (w_set_lines w) ?a] => change f with (rstep w (sh_entries s)) end.
  rewrite fold_rstep_spec. reflexivity.
Qed.

(* ---- what the entries of a reload are ------------------------------------------------------------ *)
Lemma raw_names w old : forall lines next, names_of (raw_entries w old next lines) = filter (file_exists w) lines.
Proof.
  induction lines as [|line lines IH]; intros next; [reflexivity|]. cbn [raw_entries filter]. unfold file_exists at 1.
  destruct (lookup_file w line) as [k|]; [|apply IH].
  destruct (find_entry old line); [|destruct k]; cbn [names_of map fe_name]; f_equal; apply IH.
Qed.

(* an entry of the new loaded set, by whether its name was loaded before: readers handed out by this
   reload are in [lo, hi) *)
Definition entry_ok (w : world) (old : list fentry) (lo hi : N) (e : fentry) : Prop :=
  match find_entry old (fe_name e) with
  | Some e0 => fe_reader e = fe_reader e0 /\ fe_table e = fe_table e0           (* not opened again *)
  | None =>
    match lookup_file w (fe_name e) with
    | Some (FTable t) => fe_table e = t /\ exists r, fe_reader e = Some r /\ lo <= r < hi
    | Some FNotTable => fe_reader e = None /\ fe_table e = 0
    | None => False
    end
  end.

Lemma entry_ok_mono w old lo hi lo' hi' e : lo' <= lo -> hi <= hi' -> entry_ok w old lo hi e -> entry_ok w old lo' hi' e.
Proof.
  intros H1 H2. unfold entry_ok. destruct (find_entry old (fe_name e)); [tauto|].
  destruct (lookup_file w (fe_name e)) as [[t|]|]; try tauto.
  intros [Ht (r & Hr & Hb)]. split; [exact Ht|]. exists r. split; [exact Hr|lia].
Qed.

Lemma raw_entry_ok w old : forall lines next e, In e (raw_entries w old next lines) ->
  entry_ok w old next (next + count (is_new_table w old) lines) e.
Proof.
  induction lines as [|line lines IH]; intros next e He; [contradiction|]. cbn [raw_entries] in He. rewrite count_cons.
  set (c := count (is_new_table w old) lines) in *.
  remember (is_new_table w old line) as b eqn:Hb. unfold is_new_table in Hb.
  assert (Hrec : forall nx, next <= nx -> nx + c <= next + ((if b then 1 else 0) + c) ->
                 In e (raw_entries w old nx lines) -> entry_ok w old next (next + ((if b then 1 else 0) + c)) e).
  { intros nx H1 H2 Hin. eapply entry_ok_mono; [exact H1|exact H2|]. apply IH, Hin. }
  destruct (lookup_file w line) as [k|] eqn:El; [|apply (Hrec next); [lia|subst b; lia|exact He]].
  destruct (find_entry old line) as [e0|] eqn:Ef.
  - destruct He as [<-|He]; [|apply (Hrec next); [lia|destruct k; subst b; lia|exact He]].
    unfold entry_ok. cbn [fe_name fe_reader fe_table]. rewrite Ef. split; reflexivity.
  - destruct k as [t|]; subst b.
    + destruct He as [<-|He]; [|apply (Hrec (next + 1)); [lia|lia|exact He]].
      unfold entry_ok. cbn [fe_name fe_reader fe_table]. rewrite Ef, El. split; [reflexivity|]. exists next. split; [reflexivity|lia].
    + destruct He as [<-|He]; [|apply (Hrec next); [lia|lia|exact He]].
      unfold entry_ok. cbn [fe_name fe_reader fe_table]. rewrite Ef, El. split; reflexivity.
Qed.

Lemma raw_in_kept w old line e0 : forall lines next, In line lines -> file_exists w line = true -> find_entry old line = Some e0 ->
  In (mkfe line (fe_reader e0) (fe_table e0)) (raw_entries w old next lines).
Proof.
  induction lines as [|x lines IH]; intros next Hin Hex Hf; [contradiction|]. cbn [raw_entries].
  destruct Hin as [->|Hin].
  - unfold file_exists in Hex. destruct (lookup_file w line); [|discriminate]. rewrite Hf. left. reflexivity.
  - destruct (lookup_file w x) as [k|]; [|apply IH; assumption].
    destruct (find_entry old x); [right; apply IH; assumption|]. destruct k; right; apply IH; assumption.
Qed.

Lemma find_entry_some old n e0 : find_entry old n = Some e0 -> In e0 old /\ fe_name e0 = n.
Proof. intros H. apply find_some in H. destruct H as [H1 H2]. apply N.eqb_eq in H2. split; assumption. Qed.

Lemma find_entry_in old e : NoDup (names_of old) -> In e old -> find_entry old (fe_name e) = Some e.
Proof.
  intros Hnd He. unfold find_entry. destruct (find (fun x => fe_name x =? fe_name e) old) as [e0|] eqn:Ef.
  - apply find_some in Ef. destruct Ef as [H1 H2]. apply N.eqb_eq in H2. f_equal. apply (NoDup_names_eq old); assumption.
  - exfalso. pose proof (find_none _ _ Ef e He) as H. cbn beta in H. rewrite N.eqb_refl in H. discriminate.
Qed.

Lemma find_entry_none old n : find_entry old n = None -> ~ In n (names_of old).
Proof.
  intros Hf Hin. apply in_map_iff in Hin. destruct Hin as (e & E & He).
  pose proof (find_none _ _ Hf e He) as H. cbn beta in H. rewrite E, N.eqb_refl in H. discriminate.
Qed.

Lemma raw_all_old w old : forall lines next, count (is_new w old) lines = 0 -> forall e, In e (raw_entries w old next lines) -> In e old.
Proof.
  induction lines as [|line lines IH]; intros next Hc e He; [contradiction|]. rewrite count_cons in Hc. cbn [raw_entries] in He.
  set (c := count (is_new w old) lines) in *. unfold is_new, file_exists in Hc.
  destruct (lookup_file w line) as [k|]; [|apply (IH next); [cbn [andb] in Hc; lia|exact He]].
  destruct (find_entry old line) as [e0|] eqn:Ef; [|cbn [andb] in Hc; lia].
  destruct He as [<-|He]; [|apply (IH next); [cbn [andb] in Hc; lia|exact He]].
  apply find_entry_some in Ef. destruct Ef as [H1 H2]. destruct e0 as [n r t]. cbn [fe_name fe_reader fe_table] in *. subst n. exact H1.
Qed.

Theorem setfile_view_spec w old next : NoDup (w_set_lines w) ->
  sorted (setfile_view w old next) /\
  (forall n, In n (names_of (setfile_view w old next)) <-> In n (w_set_lines w) /\ lookup_file w n <> None) /\
  (forall e, In e (setfile_view w old next) -> entry_ok w old next (next + count (is_new_table w old) (w_set_lines w)) e).
Proof.
  intros Hnd. unfold setfile_view. splits.
  - apply insert_all_sorted; [constructor|]. rewrite app_nil_r, raw_names. apply NoDup_filter, Hnd.
  - intros n. unfold names_of. rewrite in_map_iff. split.
    + intros (e & <- & He). apply in_insert_all in He. destruct He as [He|[]].
      assert (H : In (fe_name e) (names_of (raw_entries w old next (w_set_lines w)))) by (apply in_map, He).
      rewrite raw_names in H. apply filter_In in H. destruct H as [H1 H2]. split; [exact H1|].
      unfold file_exists in H2. destruct (lookup_file w (fe_name e)); [discriminate|discriminate].
    + intros [H1 H2]. assert (H : In n (names_of (raw_entries w old next (w_set_lines w)))).
      { rewrite raw_names. apply filter_In. split; [exact H1|]. unfold file_exists. destruct (lookup_file w n); [reflexivity|contradiction]. }
      apply in_map_iff in H. destruct H as (e & E & He). exists e. split; [exact E|]. apply in_insert_all. left. exact He.
  - intros e He. apply in_insert_all in He. destruct He as [He|[]]. apply raw_entry_ok, He.
Qed.

(* a reload that opened nothing and closed nothing leaves the loaded set as it was *)
Lemma setfile_view_nochange w old next : NoDup (w_set_lines w) -> sorted old ->
  count (is_new w old) (w_set_lines w) = 0 -> dropped_of w old = [] -> setfile_view w old next = old.
Proof.
  intros Hnd Hs Hc Hd. destruct (setfile_view_spec w old next Hnd) as (Hsv & _ & _).
  apply sorted_ext; [exact Hsv|exact Hs|]. intros e. unfold setfile_view. rewrite in_insert_all. split.
  - intros [He|[]]. exact (raw_all_old w old _ next Hc e He).
  - intros He. left. pose proof (sorted_NoDup_names old Hs) as Hnn.
    assert (Hk : In (fe_name e) (filter (is_kept w old) (w_set_lines w))).
    { assert (Hf : ~ In e (dropped_of w old)) by (rewrite Hd; intros []). unfold dropped_of in Hf. rewrite filter_In in Hf.
      destruct (existsb (fun n => n =? fe_name e) (rev (filter (is_kept w old) (w_set_lines w)) ++ [])) eqn:E.
      - apply existsb_exists in E. destruct E as (n & Hn & En). apply N.eqb_eq in En. subst n. rewrite app_nil_r in Hn. apply in_rev in Hn. exact Hn.
      - exfalso. apply Hf. split; [exact He|reflexivity]. }
    apply filter_In in Hk. destruct Hk as [Hl Hk]. unfold is_kept in Hk. apply andb_true_iff in Hk. destruct Hk as [Hex _].
    pose proof (raw_in_kept w old (fe_name e) e (w_set_lines w) next Hl Hex (find_entry_in old e Hnn He)) as H.
    destruct e as [n r t]. exact H.
Qed.

(* ================================================================================================ *)
(* C. the view invariant                                                                            *)
(* ================================================================================================ *)
(* a live handle whose stamp equals the shared stamp has a merger over exactly the loaded entries
   that pass its filters *)
Definition hview (s : shared) (h : handle) : Prop := h_alive h = true -> in_sync s h -> h_merger h = reinit_merger s h.

Lemma reinit_ext s s' h h' : sh_entries s' = sh_entries s -> h_name_filter h' = h_name_filter h -> h_reader_filter h' = h_reader_filter h ->
  reinit_merger s' h' = reinit_merger s h.
Proof. intros E1 E2 E3. unfold reinit_merger. rewrite E1, E2, E3. reflexivity. Qed.

Lemma sync_view s h : hview s h ->
  in_sync s (sync_handle s h) /\ (h_alive h = true -> h_merger (sync_handle s h) = reinit_merger s (sync_handle s h)) /\
  h_alive (sync_handle s h) = h_alive h /\ h_name_filter (sync_handle s h) = h_name_filter h /\
  h_reader_filter (sync_handle s h) = h_reader_filter h /\ h_interval (sync_handle s h) = h_interval h.
Proof.
  intros Hv. unfold sync_handle. destruct ((h_last_sec h =? sh_last_sec s) && (h_last_nsec h =? sh_last_nsec s)) eqn:E.
  - assert (Hin : in_sync s h) by (unfold in_sync; lia). splits; try reflexivity; [exact Hin|]. intros Ha. exact (Hv Ha Hin).
  - unfold set_merger, in_sync. cbn [h_last_sec h_last_nsec h_merger h_alive h_name_filter h_reader_filter h_interval].
    splits; reflexivity.
Qed.

Lemma do_reload_view w1 s h0 : sinv s -> sorted (sh_entries s) -> NoDup (w_set_lines w1) -> in_sync s h0 ->
  (h_alive h0 = true -> h_merger h0 = reinit_merger s h0) ->
  forall s' h', do_reload w1 s h0 = (s', h') ->
  sorted (sh_entries s') /\
  sh_entries s' = (if stamp_same w1 s then sh_entries s else setfile_view w1 (sh_entries s) (sh_next_reader s)) /\
  sh_dead s' = (if stamp_same w1 s then sh_dead s else dead_after w1 s) /\
  sh_next_reader s' = (if stamp_same w1 s then sh_next_reader s else sh_next_reader s + count (is_new_table w1 (sh_entries s)) (w_set_lines w1)) /\
  (h_alive h0 = true -> h_merger h' = reinit_merger s' h') /\
  h_alive h' = h_alive h0 /\ h_name_filter h' = h_name_filter h0 /\ h_reader_filter h' = h_reader_filter h0 /\ h_interval h' = h_interval h0 /\
  h_last_sec h' = w_sec w1 /\ h_last_nsec h' = w_nsec w1 /\
  sh_last_sec s' = w_sec w1 /\ sh_last_nsec s' = w_nsec w1 /\ sh_n_iters s' = sh_n_iters s /\ sh_n_fs s' = sh_n_fs s /\ sh_reload_needed s' = false /\
  sh_last_ino s' = w_set_ino w1 /\ sh_last_mtime s' = w_set_mtime w1.
Proof.
  intros Hs Hso Hnd Hsync Hm s' h' E. unfold do_reload in E. rewrite my_fileset_reload_spec in E.
  destruct (stamp_same w1 s) eqn:Est.
  - cbn zeta in E. change ((0 <? 0) || (0 <? 0)) with false in E. cbn iota in E. inversion E; subst s' h'; clear E.
    unfold set_merger. cbn [sh_entries sh_dead sh_next_reader h_merger h_alive h_name_filter h_reader_filter h_interval h_last_sec h_last_nsec
                               sh_last_sec sh_last_nsec sh_n_iters sh_n_fs sh_reload_needed sh_last_ino sh_last_mtime].
    unfold stamp_same in Est. splits; try reflexivity; try lia; [exact Hso|].
    intros Ha. rewrite (Hm Ha). apply reinit_ext; reflexivity.
  - cbn zeta in E.
    destruct (setfile_view_spec w1 (sh_entries s) (sh_next_reader s) Hnd) as (Hsv & _ & _).
    destruct ((0 <? 0 + count (is_new w1 (sh_entries s)) (w_set_lines w1)) || (0 <? N.of_nat (length (dropped_of w1 (sh_entries s))))) eqn:Ec;
      inversion E; subst s' h'; clear E;
      unfold set_merger; cbn [sh_entries sh_dead sh_next_reader h_merger h_alive h_name_filter h_reader_filter h_interval h_last_sec h_last_nsec
                               sh_last_sec sh_last_nsec sh_n_iters sh_n_fs sh_reload_needed sh_last_ino sh_last_mtime];
      splits; try reflexivity; try exact Hsv.
    intros Ha. rewrite (Hm Ha). apply reinit_ext; try reflexivity. cbn [sh_entries]. symmetry.
      apply setfile_view_nochange; [exact Hnd|exact Hso|lia|].
      destruct (dropped_of w1 (sh_entries s)); [reflexivity|cbn [length] in Ec; lia].
Qed.

(* the shared state is the same up to the iterator count, the reload request and the handle count *)
Definition shared_same (s s' : shared) : Prop :=
  sh_last_sec s' = sh_last_sec s /\ sh_last_nsec s' = sh_last_nsec s /\ sh_last_ino s' = sh_last_ino s /\ sh_last_mtime s' = sh_last_mtime s /\
  sh_entries s' = sh_entries s /\ sh_next_reader s' = sh_next_reader s /\ sh_dead s' = sh_dead s.

Lemma shared_same_refl s : shared_same s s.
Proof. unfold shared_same. splits; reflexivity. Qed.

Lemma hview_same s s' h : shared_same s s' -> hview s h -> hview s' h.
Proof.
  intros (E1 & E2 & _ & _ & E3 & _) Hv Ha Hsync. unfold in_sync in *. rewrite E1, E2 in Hsync. rewrite (Hv Ha Hsync).
  symmetry. apply reinit_ext; [exact E3|reflexivity|reflexivity].
Qed.

(* the outcomes of a reload call *)
Inductive reload_out (w : world) (s : shared) (h : handle) : world * shared * handle -> Prop :=
| RO_none w' s' : (w' = w \/ (w' = tick w /\ sh_n_iters s = 0)) -> shared_same s s' -> sh_n_iters s' = sh_n_iters s -> sh_n_fs s' = sh_n_fs s ->
    (sh_reload_needed s' = sh_reload_needed s \/ (0 < sh_n_iters s /\ sh_reload_needed s' = true)) ->
    (sh_n_iters s = 0 -> sh_reload_needed s' = false) ->
    reload_out w s h (w', s', sync_handle s h)
| RO_reload s' h' : sh_n_iters s = 0 -> do_reload (tick w) s (sync_handle s h) = (s', h') -> reload_out w s h (tick w, s', h').

Lemma fileset_reload_out w s h : reload_out w s h (fileset_reload w s h).
Proof.
  unfold fileset_reload.
  destruct (negb (sh_reload_needed s) && (h_interval (sync_handle s h) =? FILESET_RELOAD_INTERVAL_NEVER)) eqn:E1.
  { apply RO_none; try reflexivity; [left; reflexivity|apply shared_same_refl|left; reflexivity|intros _; destruct (sh_reload_needed s); [discriminate|reflexivity]]. }
  destruct (0 <? sh_n_iters s) eqn:E2.
  { apply RO_none; try reflexivity; [left; reflexivity|apply shared_same_refl|left; reflexivity|intros; lia]. }
  destruct (sh_reload_needed s || (h_interval (sync_handle s h) <? w_sec (tick w) - sh_last_sec s)) eqn:E3.
  - destruct (do_reload (tick w) s (sync_handle s h)) as [s' h'] eqn:E. apply RO_reload; [lia|exact E].
  - apply RO_none; try reflexivity; [right; split; [reflexivity|lia]|apply shared_same_refl|left; reflexivity|intros _; destruct (sh_reload_needed s); [discriminate|reflexivity]].
Qed.

Lemma fileset_reload_now_out w s h : reload_out w s h (fileset_reload_now w s h).
Proof.
  unfold fileset_reload_now. destruct (0 <? sh_n_iters s) eqn:E2.
  - apply RO_none; try reflexivity; [left; reflexivity|unfold shared_same; splits; reflexivity|right; split; [lia|reflexivity]|intros; lia].
  - destruct (do_reload (tick w) s (sync_handle s h)) as [s' h'] eqn:E. apply RO_reload; [lia|exact E].
Qed.

(* what every reload call guarantees *)
Definition view_post (w : world) (s : shared) (h : handle) (others : list handle) (res : world * shared * handle) : Prop :=
  let '(w', s', h') := res in
  sorted (sh_entries s') /\ (stS s' = 0 -> sh_entries s' = []) /\
  in_sync s' h' /\ (h_alive h = true -> h_merger h' = reinit_merger s' h') /\
  h_alive h' = h_alive h /\ h_name_filter h' = h_name_filter h /\ h_reader_filter h' = h_reader_filter h /\ h_interval h' = h_interval h /\
  Forall (hview s') others /\
  sh_n_iters s' = sh_n_iters s /\ sh_n_fs s' = sh_n_fs s /\
  (0 < sh_n_iters s -> sh_entries s' = sh_entries s /\ sh_dead s' = sh_dead s /\ sh_next_reader s' = sh_next_reader s /\ w' = w).

Lemma reload_out_view w s h others res : reload_out w s h res ->
  sinv s -> sorted (sh_entries s) -> (stS s = 0 -> sh_entries s = []) -> NoDup (w_set_lines w) ->
  hview s h -> Forall (hview s) others -> Forall (hok w s) others ->
  view_post w s h others res.
Proof.
  intros Hout Hs Hso Hz Hnd Hv Hvo Hoko. destruct (sync_view s h Hv) as (Hsync & Hm & Ha & Hnf & Hrf & Hiv).
  destruct Hout as [w' s' Hw Hsame Hni Hnf' Hrn _|s' h' Hni E].
  - unfold view_post. pose proof Hsame as (E1 & E2 & _ & _ & E3 & E4 & E5). splits; try assumption.
    + rewrite E3. exact Hso.
    + unfold stS. rewrite E1, E2, E3. exact Hz.
    + unfold in_sync in *. rewrite E1, E2. exact Hsync.
    + intros Hal. rewrite (Hm Hal). symmetry. apply reinit_ext; [exact E3|reflexivity|reflexivity].
    + eapply Forall_impl; [|exact Hvo]. intros x Hx. exact (hview_same s s' x Hsame Hx).
    + intros Hpos. splits; try assumption. destruct Hw as [Hw|[_ Hw]]; [exact Hw|lia].
  - pose proof (do_reload_view (tick w) s (sync_handle s h) Hs Hso Hnd Hsync) as Hr.
    rewrite Ha in Hr. specialize (Hr Hm s' h' E).
    destruct Hr as (R1 & R2 & R3 & R3' & R4 & R5 & R6 & R7 & R8 & R9 & R10 & R11 & R12 & R13 & R13' & R14 & _).
    unfold view_post. splits; try assumption; try congruence.
    + intros Hst. exfalso. pose proof (tick_T w) as Ht. unfold stS in Hst. unfold T in Ht. rewrite R11, R12 in Hst. lia.
    + unfold in_sync. split; congruence.
    + apply Forall_forall. intros x Hx Hax Hsx. exfalso. rewrite Forall_forall in Hoko. destruct (Hoko x Hx) as [Hlt _].
      pose proof (tick_T w) as Ht. unfold in_sync in Hsx. unfold stH, T in *. destruct Hsx as [Hs1 Hs2]. rewrite Hs1, Hs2, R11, R12 in Hlt. lia.
    + intros Hpos. lia.
Qed.

(* ---- lists: upd, open iterators ----------------------------------------------------------------- *)
Lemma upd_app {A} (a : list A) y b x : upd (a ++ y :: b) (length a) x = a ++ x :: b.
Proof. unfold upd. induction a as [|z a IH]; [reflexivity|]. cbn [length firstn skipn app]. f_equal. exact IH. Qed.

Lemma upd_overflow {A} (l : list A) i x : (length l <= i)%nat -> upd l i x = l.
Proof. intros H. unfold upd. rewrite firstn_all2 by exact H. rewrite skipn_all2 by exact H. apply app_nil_r. Qed.

Lemma upd_length {A} (l : list A) i x : length (upd l i x) = length l.
Proof.
  destruct (Nat.lt_ge_cases i (length l)) as [Hi|Hi]; [|rewrite upd_overflow by exact Hi; reflexivity].
  destruct (nth_error l i) as [y|] eqn:E; [|apply nth_error_None in E; lia].
  apply nth_error_split in E. destruct E as (a & b & -> & <-). rewrite upd_app, !app_length. reflexivity.
Qed.

Lemma nth_upd_same {A} (l : list A) i x d : (i < length l)%nat -> nth i (upd l i x) d = x.
Proof.
  intros Hi. destruct (nth_error l i) as [y|] eqn:E; [|apply nth_error_None in E; lia].
  apply nth_error_split in E. destruct E as (a & b & -> & <-). rewrite upd_app. rewrite app_nth2 by lia. rewrite Nat.sub_diag. reflexivity.
Qed.

Lemma nth_error_upd {A} (l : list A) i x j :
  nth_error (upd l i x) j = if Nat.eqb j i then (match nth_error l i with Some _ => Some x | None => None end) else nth_error l j.
Proof.
  destruct (nth_error l i) as [y|] eqn:E.
  - apply nth_error_split in E. destruct E as (a & b & -> & <-). rewrite upd_app.
    destruct (Nat.eqb j (length a)) eqn:Ej.
    + apply Nat.eqb_eq in Ej. subst j. rewrite nth_error_app2 by lia. rewrite Nat.sub_diag. reflexivity.
    + apply Nat.eqb_neq in Ej. destruct (Nat.lt_ge_cases j (length a)) as [Hj|Hj].
      * rewrite !nth_error_app1 by exact Hj. reflexivity.
      * rewrite !nth_error_app2 by exact Hj. destruct (j - length a)%nat as [|k] eqn:Ek; [lia|reflexivity].
  - apply nth_error_None in E. rewrite upd_overflow by exact E. destruct (Nat.eqb j i) eqn:Ej; [|reflexivity].
    apply Nat.eqb_eq in Ej. subst j. apply nth_error_None. exact E.
Qed.

Lemma in_upd {A} (l : list A) i x y : In y (upd l i x) -> y = x \/ In y l.
Proof.
  destruct (nth_error l i) as [z|] eqn:E.
  - apply nth_error_split in E. destruct E as (a & b & -> & <-). rewrite upd_app. intros H. apply in_app_or in H.
    destruct H as [H|[H|H]]; [right; apply in_or_app; left; exact H|left; symmetry; exact H|right; apply in_or_app; right; right; exact H].
  - apply nth_error_None in E. rewrite upd_overflow by exact E. intros H. right. exact H.
Qed.

Notation iter := (nat * list (N * N) * bool)%type.
Definition is_open (it : iter) : bool := snd it.
Definition nopen (its : list iter) : nat := length (filter is_open its).

Lemma nopen_app a b : nopen (a ++ b) = (nopen a + nopen b)%nat.
Proof. unfold nopen. rewrite filter_app, app_length. reflexivity. Qed.

Lemma nopen_pos its hi snap : In (hi, snap, true) its -> (0 < nopen its)%nat.
Proof.
  intros H. unfold nopen. assert (Hin : In (hi, snap, true) (filter is_open its)) by (apply filter_In; split; [exact H|reflexivity]).
  destruct (filter is_open its); [contradiction|cbn [length]; lia].
Qed.

Lemma nopen_close its ii hi snap : nth_error its ii = Some (hi, snap, true) ->
  S (nopen (upd its ii (hi, snap, false))) = nopen its.
Proof.
  intros E. apply nth_error_split in E. destruct E as (a & b & -> & <-). rewrite upd_app, !nopen_app.
  change ((hi, snap, true) :: b) with ([(hi, snap, true)] ++ b). change ((hi, snap, false) :: b) with ([(hi, snap, false)] ++ b).
  rewrite !nopen_app. unfold nopen at 2 5. cbn [filter is_open snd length]. lia.
Qed.

(* ---- the invariant ---------------------------------------------------------------------------------- *)
(* every open iterator is over loaded readers only *)
Definition pinned (s : shared) (its : list iter) : Prop :=
  forall hi snap, In (hi, snap, true) its -> forall p, In p snap -> In (fst p) (live s).

Definition vinv (st : fstate) : Prop :=
  finv st /\ sorted (sh_entries (fs_shared st)) /\ (stS (fs_shared st) = 0 -> sh_entries (fs_shared st) = []) /\
  Forall (hview (fs_shared st)) (fs_handles st) /\
  sh_n_iters (fs_shared st) = N.of_nat (nopen (fs_iters st)) /\
  pinned (fs_shared st) (fs_iters st).

Lemma hview_dummy s : hview s dummy_handle.
Proof. intros H. discriminate. Qed.

Lemma hview_nth s l i : Forall (hview s) l -> hview s (nth i l dummy_handle).
Proof.
  intros H. destruct (Nat.lt_ge_cases i (length l)) as [Hi|Hi]; [rewrite Forall_forall in H; apply H, nth_In, Hi|].
  rewrite nth_overflow by exact Hi. apply hview_dummy.
Qed.

Lemma pinned_keep s s' its : sh_n_iters s = N.of_nat (nopen its) -> (0 < sh_n_iters s -> sh_entries s' = sh_entries s) ->
  pinned s its -> pinned s' its.
Proof.
  intros Hn He Hp hi snap Hin p Hpin. pose proof (nopen_pos its hi snap Hin) as Hpos.
  unfold live. rewrite He by lia. exact (Hp hi snap Hin p Hpin).
Qed.

Lemma view_post_handles w s hs hi res : view_post w s (nth hi hs dummy_handle) hs res -> Forall (hview s) hs ->
  let '(w', s', h') := res in Forall (hview s') (upd hs hi h').
Proof.
  destruct res as [[w' s'] h']. intros (_ & _ & Hsync & Hm & Ha & _ & _ & _ & Ho & _) Hv. apply Forall_upd; [exact Ho|].
  intros Hal _. apply Hm. rewrite <- Ha. exact Hal.
Qed.

Theorem vinv_step st op : vinv st -> (forall lines, op = OpSetFile lines -> NoDup lines) -> vinv (fst (fstep st op)).
Proof.
  intros (Hf & Hso & Hz & Hv & Hn & Hp) Hop. pose proof (proj1 (fstep_inv st op Hf Hop)) as Hf'. revert Hf'.
  pose proof Hf as (Hs & Hst & Hl & Hh). destruct st as [w s hs its]. cbn [fs_world fs_shared fs_handles fs_iters] in *.
  destruct op as [lines|n k|n|ds dn|hi|hi|hi|ii|hi interval nf rf|hi]; cbn [fstep fs_world fs_shared fs_handles fs_iters].
  - intros Hf'. unfold vinv. cbn [fst fs_world fs_shared fs_handles fs_iters]. splits; assumption.
  - intros Hf'. unfold vinv. cbn [fst fs_world fs_shared fs_handles fs_iters]. splits; assumption.
  - intros Hf'. unfold vinv. cbn [fst fs_world fs_shared fs_handles fs_iters]. splits; assumption.
  - intros Hf'. unfold vinv. cbn [fst fs_world fs_shared fs_handles fs_iters]. splits; assumption.
  - (* reload *)
    pose proof (reload_out_view w s _ hs _ (fileset_reload_out w s (nth hi hs dummy_handle)) Hs Hso Hz Hl (hview_nth _ _ _ Hv) Hv Hh) as Hvp.
    pose proof (view_post_handles w s hs hi _ Hvp Hv) as Hvh.
    destruct (fileset_reload w s (nth hi hs dummy_handle)) as [[w' s'] h']. intros Hf'.
    destruct Hvp as (V1 & V2 & V3 & V4 & V5 & V6 & V7 & V8 & V9 & V10 & V11 & V12).
    unfold vinv. cbn [fst fs_world fs_shared fs_handles fs_iters]. splits; try assumption; [congruence|].
    apply (pinned_keep s); [exact Hn|intros H; apply V12, H|exact Hp].
  - (* reload_now *)
    pose proof (reload_out_view w s _ hs _ (fileset_reload_now_out w s (nth hi hs dummy_handle)) Hs Hso Hz Hl (hview_nth _ _ _ Hv) Hv Hh) as Hvp.
    pose proof (view_post_handles w s hs hi _ Hvp Hv) as Hvh.
    destruct (fileset_reload_now w s (nth hi hs dummy_handle)) as [[w' s'] h']. intros Hf'.
    destruct Hvp as (V1 & V2 & V3 & V4 & V5 & V6 & V7 & V8 & V9 & V10 & V11 & V12).
    unfold vinv. cbn [fst fs_world fs_shared fs_handles fs_iters]. splits; try assumption; [congruence|].
    apply (pinned_keep s); [exact Hn|intros H; apply V12, H|exact Hp].
  - (* an iterator is created *)
    pose proof (reload_out_view w s _ hs _ (fileset_reload_out w s (nth hi hs dummy_handle)) Hs Hso Hz Hl (hview_nth _ _ _ Hv) Hv Hh) as Hvp.
    pose proof (view_post_handles w s hs hi _ Hvp Hv) as Hvh.
    pose proof (fileset_reload_ok w s (nth hi hs dummy_handle) hs Hs Hst Hl (hok_nth _ _ _ _ Hh) Hh) as Hr.
    destruct (fileset_reload w s (nth hi hs dummy_handle)) as [[w' s'] h']. intros Hf'.
    destruct Hvp as (V1 & V2 & V3 & V4 & V5 & V6 & V7 & V8 & V9 & V10 & V11 & V12).
    destruct Hr as (_ & _ & _ & _ & Hh' & Hsync' & _).
    unfold vinv. cbn [fst fs_world fs_shared fs_handles fs_iters]. unfold set_iters. cbn [sh_entries sh_n_iters].
    splits; try assumption.
    + rewrite nopen_app. unfold nopen at 2. cbn [filter is_open snd length]. lia.
    + intros hj snap Hin p Hpin. apply in_app_or in Hin. destruct Hin as [Hin|[Hin|[]]].
      * refine (pinned_keep s s' its Hn _ Hp hj snap Hin p Hpin). intros H. apply V12, H.
      * inversion Hin; subst hj snap. exact (proj2 Hh' Hsync' p Hpin).
  - (* an iterator is closed *)
    destruct (nth_error its ii) as [[[hi snap] [|]]|] eqn:Eii; try (intros Hf'; unfold vinv; cbn [fst fs_world fs_shared fs_handles fs_iters]; splits; assumption).
    set (s1 := set_iters s (sh_n_iters s - 1)) in *.
    assert (Hsame : shared_same s s1) by (unfold shared_same; splits; reflexivity).
    assert (Hs1 : sinv s1) by (eapply sinv_ext; [exact Hs| | |]; reflexivity).
    assert (Hh1 : Forall (hok w s1) hs) by (eapply Forall_impl; [|exact Hh]; intros x Hx; eapply hok_ext; [| | |exact Hx]; reflexivity).
    assert (Hv1 : Forall (hview s1) hs) by (eapply Forall_impl; [|exact Hv]; intros x Hx; exact (hview_same s s1 x Hsame Hx)).
    pose proof (reload_out_view w s1 _ hs _ (fileset_reload_out w s1 (nth hi hs dummy_handle)) Hs1 Hso Hz Hl (hview_nth _ _ _ Hv1) Hv1 Hh1) as Hvp.
    pose proof (view_post_handles w s1 hs hi _ Hvp Hv1) as Hvh.
    destruct (fileset_reload w s1 (nth hi hs dummy_handle)) as [[w' s'] h']. intros Hf'.
    destruct Hvp as (V1 & V2 & V3 & V4 & V5 & V6 & V7 & V8 & V9 & V10 & V11 & V12).
    pose proof (nopen_close its ii hi snap Eii) as Hc.
    assert (Hn1 : sh_n_iters s1 = N.of_nat (nopen (upd its ii (hi, snap, false)))) by (unfold s1, set_iters; cbn [sh_n_iters]; lia).
    unfold vinv. cbn [fst fs_world fs_shared fs_handles fs_iters]. splits; try assumption; [congruence|].
    intros hj sn Hin p Hpin. pose proof (nopen_pos _ hj sn Hin) as Hpos.
    apply in_upd in Hin. destruct Hin as [Hin|Hin]; [discriminate|].
    unfold live. rewrite (proj1 (V12 ltac:(lia))). exact (Hp hj sn Hin p Hpin).
  - (* dup *)
    intros Hf'. unfold vinv. cbn [fst fs_world fs_shared fs_handles fs_iters sh_entries sh_n_iters]. splits; try assumption.
    apply Forall_app. split.
    + eapply Forall_impl; [|exact Hv]. intros x Hx. eapply hview_same; [|exact Hx]. unfold shared_same. splits; reflexivity.
    + constructor; [|constructor]. intros _ [E1 E2]. cbn [h_last_sec h_last_nsec sh_last_sec sh_last_nsec h_merger] in *.
      unfold reinit_merger. cbn [sh_entries]. rewrite Hz; [reflexivity|]. unfold stS. rewrite <- E1, <- E2. reflexivity.
  - (* destroy *)
    intros Hf'. unfold vinv. cbn [fst fs_world fs_shared fs_handles fs_iters sh_entries sh_n_iters]. splits; try assumption.
    apply Forall_upd.
    + eapply Forall_impl; [|exact Hv]. intros x Hx. eapply hview_same; [|exact Hx]. unfold shared_same. splits; reflexivity.
    + intros H. discriminate.
Qed.

Lemma vinv_init w interval nf rf : NoDup (w_set_lines w) -> vinv (fs_init w interval nf rf).
Proof.
  intros Hl. unfold vinv. split; [apply finv_init, Hl|]. unfold fs_init. cbn [fs_shared fs_handles fs_iters sh_entries sh_n_iters].
  splits; try reflexivity.
  - constructor.
  - constructor; [|constructor]. intros _ _. reflexivity.
  - intros hi snap [].
Qed.

(* ================================================================================================ *)
(* D. histories                                                                                     *)
(* ================================================================================================ *)
Definition fexec (st : fstate) (ops : list fop) : fstate := fold_left (fun st op => fst (fstep st op)) ops st.
(* hypothesis on histories: the lines of a setfile are distinct names *)
Definition lines_ok (ops : list fop) : Prop := forall lines, In (OpSetFile lines) ops -> NoDup lines.

Lemma fexec_app st a b : fexec st (a ++ b) = fexec (fexec st a) b.
Proof. unfold fexec. apply fold_left_app. Qed.

Lemma lines_ok_app a b : lines_ok (a ++ b) -> lines_ok a /\ lines_ok b.
Proof. intros H. split; intros l Hl; apply H, in_or_app; [left|right]; exact Hl. Qed.

Lemma vinv_exec : forall ops st, vinv st -> lines_ok ops -> vinv (fexec st ops).
Proof.
  induction ops as [|op ops IH]; intros st Hv Hl; [exact Hv|]. cbn [fexec fold_left]. apply IH.
  - apply vinv_step; [exact Hv|]. intros lines ->. apply Hl. left. reflexivity.
  - intros lines Hin. apply Hl. right. exact Hin.
Qed.

Lemma frun_app : forall a st b, frun st (a ++ b) = frun st a ++ frun (fexec st a) b.
Proof.
  induction a as [|op a IH]; intros st b; [reflexivity|]. cbn [app frun fexec fold_left].
  destruct (fstep st op) as [st' o] eqn:E. cbn [fst app]. f_equal. apply IH.
Qed.

(* reachable states *)
Definition reachable (st : fstate) : Prop :=
  exists w interval nf rf ops, NoDup (w_set_lines w) /\ lines_ok ops /\ st = fexec (fs_init w interval nf rf) ops.

Lemma reachable_vinv st : reachable st -> vinv st.
Proof. intros (w & iv & nf & rf & ops & Hw & Hl & ->). apply vinv_exec; [apply vinv_init, Hw|exact Hl]. Qed.

(* ---- Tier 4: the merger of a handle as a filter over the loaded entries ----------------------------- *)
Definition passes (h : handle) (e : fentry) : bool :=
  match fe_reader e with
  | None => false
  | Some _ =>
    (match h_name_filter h with None => true | Some m => (fe_name e) mod 2 =? m end) &&
    (match h_reader_filter h with None => true | Some m => (fe_table e) mod 2 =? m end)
  end.
Definition source_of (e : fentry) : N * N := (match fe_reader e with Some r => r | None => 0 end, fe_table e).

Theorem reinit_merger_filter s h : reinit_merger s h = map source_of (filter (passes h) (sh_entries s)).
Proof.
  unfold reinit_merger. induction (sh_entries s) as [|e l IH]; [reflexivity|]. cbn [fold_right filter]. rewrite IH.
  clear IH. assert (Hp : passes h e = match fe_reader e with None => false | Some _ =>
    (match h_name_filter h with None => true | Some m => (fe_name e) mod 2 =? m end) &&
    (match h_reader_filter h with None => true | Some m => (fe_table e) mod 2 =? m end) end) by reflexivity.
  destruct (passes h e) eqn:Ep; cbn [map]; destruct (fe_reader e) as [r|] eqn:Er; try discriminate.
  - rewrite <- Hp. unfold source_of at 2. rewrite Er. reflexivity.
  - rewrite <- Hp. reflexivity.
  - reflexivity.
Qed.

Corollary view_tables s h : map snd (reinit_merger s h) = map fe_table (filter (passes h) (sh_entries s)).
Proof. rewrite reinit_merger_filter, map_map. reflexivity. Qed.

(* ---- Tier 1: the view of a new iterator --------------------------------------------------------------- *)
Theorem open_view st hi : vinv st -> (hi < length (fs_handles st))%nat -> h_alive (nth hi (fs_handles st) dummy_handle) = true ->
  let st' := fst (fstep st (OpOpen hi)) in
  let h' := nth hi (fs_handles st') dummy_handle in
  snd (fstep st (OpOpen hi)) = OutView (map snd (reinit_merger (fs_shared st') h')) /\
  fs_iters st' = fs_iters st ++ [(hi, reinit_merger (fs_shared st') h', true)] /\
  h_alive h' = true /\ h_name_filter h' = h_name_filter (nth hi (fs_handles st) dummy_handle) /\
  h_reader_filter h' = h_reader_filter (nth hi (fs_handles st) dummy_handle).
Proof.
  intros Hvi Hhi Hal. pose proof Hvi as (Hf & Hso & Hz & Hv & Hn & Hp).
  pose proof (proj2 (fstep_inv st (OpOpen hi) Hf ltac:(intros; discriminate))) as Hnu. revert Hnu.
  pose proof Hf as (Hs & Hst & Hl & Hh). destruct st as [w s hs its]. cbn [fs_world fs_shared fs_handles fs_iters] in *.
  cbn [fstep fs_world fs_shared fs_handles fs_iters].
  pose proof (reload_out_view w s _ hs _ (fileset_reload_out w s (nth hi hs dummy_handle)) Hs Hso Hz Hl (hview_nth _ _ _ Hv) Hv Hh) as Hvp.
  destruct (fileset_reload w s (nth hi hs dummy_handle)) as [[w' s'] h'].
  destruct Hvp as (V1 & V2 & V3 & V4 & V5 & V6 & V7 & V8 & V9 & V10 & V11 & V12).
  cbn [fst snd fs_shared fs_handles fs_iters]. rewrite nth_upd_same by exact Hhi.
  assert (E : reinit_merger (set_iters s' (sh_n_iters s' + 1)) h' = h_merger h') by (rewrite (V4 Hal); apply reinit_ext; reflexivity).
  rewrite E. intros Hnu. splits; try assumption; try reflexivity; [|congruence].
  destruct (existsb _ (h_merger h')); [contradiction|reflexivity].
Qed.

(* ---- the effect of one step on the shared fileset ---------------------------------------------------- *)
(* the call of mtbl_fileset_reload / mtbl_fileset_reload_now made by an operation: (now?, shared state
   at the call, handle) *)
Definition reload_call (st : fstate) (op : fop) : option (bool * shared * nat) :=
  match op with
  | OpReload hi | OpOpen hi => Some (false, fs_shared st, hi)
  | OpReloadNow hi => Some (true, fs_shared st, hi)
  | OpClose ii =>
    match nth_error (fs_iters st) ii with
    | Some (hi, _, true) => Some (false, set_iters (fs_shared st) (sh_n_iters (fs_shared st) - 1), hi)
    | _ => None
    end
  | _ => None
  end.

(* nothing loaded or unloaded, stamps kept; a pending reload request stays pending *)
Definition unchanged (st st' : fstate) : Prop :=
  shared_same (fs_shared st) (fs_shared st') /\
  (sh_reload_needed (fs_shared st) = true -> sh_reload_needed (fs_shared st') = true).

(* my_fileset_reload ran (do_reload), at the clock reading tick (fs_world st) *)
Definition reloaded (st st' : fstate) : Prop :=
  let w1 := tick (fs_world st) in let s := fs_shared st in let s' := fs_shared st' in
  fs_world st' = w1 /\
  sh_entries s' = (if stamp_same w1 s then sh_entries s else setfile_view w1 (sh_entries s) (sh_next_reader s)) /\
  sh_dead s' = (if stamp_same w1 s then sh_dead s else dead_after w1 s) /\
  sh_next_reader s' = (if stamp_same w1 s then sh_next_reader s else sh_next_reader s + count (is_new_table w1 (sh_entries s)) (w_set_lines w1)) /\
  sh_last_ino s' = w_set_ino w1 /\ sh_last_mtime s' = w_set_mtime w1 /\
  sh_last_sec s' = w_sec w1 /\ sh_last_nsec s' = w_nsec w1 /\
  sh_reload_needed s' = false /\
  (nopen (fs_iters st) = 0%nat \/ nopen (fs_iters st') = 0%nat).

Lemma reload_out_cases w s1 h res : reload_out w s1 h res ->
  sinv s1 -> sorted (sh_entries s1) -> NoDup (w_set_lines w) -> hview s1 h ->
  let '(w', s2, h') := res in
  (shared_same s1 s2 /\ (sh_reload_needed s1 = true -> sh_reload_needed s2 = true) /\ (sh_n_iters s1 = 0 -> sh_reload_needed s2 = false)) \/
  (sh_n_iters s1 = 0 /\ w' = tick w /\
   sh_entries s2 = (if stamp_same (tick w) s1 then sh_entries s1 else setfile_view (tick w) (sh_entries s1) (sh_next_reader s1)) /\
   sh_dead s2 = (if stamp_same (tick w) s1 then sh_dead s1 else dead_after (tick w) s1) /\
   sh_next_reader s2 = (if stamp_same (tick w) s1 then sh_next_reader s1 else sh_next_reader s1 + count (is_new_table (tick w) (sh_entries s1)) (w_set_lines (tick w))) /\
   sh_last_ino s2 = w_set_ino (tick w) /\ sh_last_mtime s2 = w_set_mtime (tick w) /\
   sh_last_sec s2 = w_sec (tick w) /\ sh_last_nsec s2 = w_nsec (tick w) /\ sh_reload_needed s2 = false).
Proof.
  intros Hout Hs Hso Hnd Hv. destruct (sync_view s1 h Hv) as (Hsync & Hm & Ha & _).
  destruct Hout as [w' s' Hw Hsame Hni Hnf' Hrn Hz|s' h' Hni E].
  - left. splits; [exact Hsame| |exact Hz]. intros Ht. destruct Hrn as [Hrn|[_ Hrn]]; congruence.
  - right. pose proof (do_reload_view (tick w) s1 (sync_handle s1 h) Hs Hso Hnd Hsync) as Hr.
    rewrite Ha in Hr. specialize (Hr Hm s' h' E).
    destruct Hr as (R1 & R2 & R3 & R3' & R4 & R5 & R6 & R7 & R8 & R9 & R10 & R11 & R12 & R13 & R13' & R14 & R15 & R16).
    splits; try assumption; reflexivity.
Qed.

Lemma shared_same_trans a b c : shared_same a b -> shared_same b c -> shared_same a c.
Proof. unfold shared_same. intros (A1 & A2 & A3 & A4 & A5 & A6 & A7) (B1 & B2 & B3 & B4 & B5 & B6 & B7). splits; congruence. Qed.

Lemma reloaded_transport st st' s1 s2 :
  shared_same (fs_shared st) s1 -> shared_same s2 (fs_shared st') -> sh_reload_needed (fs_shared st') = sh_reload_needed s2 ->
  fs_world st' = tick (fs_world st) ->
  (nopen (fs_iters st) = 0%nat \/ nopen (fs_iters st') = 0%nat) ->
  (let w := fs_world st in
   sh_entries s2 = (if stamp_same (tick w) s1 then sh_entries s1 else setfile_view (tick w) (sh_entries s1) (sh_next_reader s1)) /\
   sh_dead s2 = (if stamp_same (tick w) s1 then sh_dead s1 else dead_after (tick w) s1) /\
   sh_next_reader s2 = (if stamp_same (tick w) s1 then sh_next_reader s1 else sh_next_reader s1 + count (is_new_table (tick w) (sh_entries s1)) (w_set_lines (tick w))) /\
   sh_last_ino s2 = w_set_ino (tick w) /\ sh_last_mtime s2 = w_set_mtime (tick w) /\
   sh_last_sec s2 = w_sec (tick w) /\ sh_last_nsec s2 = w_nsec (tick w) /\ sh_reload_needed s2 = false) ->
  reloaded st st'.
Proof.
  intros (A1 & A2 & A3 & A4 & A5 & A6 & A7) (B1 & B2 & B3 & B4 & B5 & B6 & B7) Hrn Hw Hno.
  cbv zeta. intros (C1 & C2 & C3 & C4 & C5 & C6 & C7 & C8).
  assert (Est : stamp_same (tick (fs_world st)) s1 = stamp_same (tick (fs_world st)) (fs_shared st)) by (unfold stamp_same; rewrite A3, A4; reflexivity).
  assert (Ed : dead_after (tick (fs_world st)) s1 = dead_after (tick (fs_world st)) (fs_shared st)) by (unfold dead_after; rewrite A5, A7; reflexivity).
  rewrite Est, Ed, A5, A6, ?A7 in *.
  unfold reloaded. cbv zeta. splits; try assumption; congruence.
Qed.

Lemma step_cases st op : vinv st -> (forall lines, op = OpSetFile lines -> NoDup lines) ->
  let st' := fst (fstep st op) in
  (unchanged st st' /\
   (forall c, reload_call st op = Some c -> sh_n_iters (snd (fst c)) = 0 -> sh_reload_needed (fs_shared st') = false)) \/
  (reloaded st st' /\ exists c, reload_call st op = Some c /\ sh_n_iters (snd (fst c)) = 0).
Proof.
  intros (Hf & Hso & Hz & Hv & Hn & Hp) Hop. pose proof Hf as (Hs & Hst & Hl & Hh).
  destruct st as [w s hs its]. cbn [fs_world fs_shared fs_handles fs_iters] in *.
  assert (Hsame0 : forall w' nfs hs' , 
    unchanged (mkfs w s hs its) (mkfs w' (mkshared (sh_n_iters s) (sh_reload_needed s) (sh_last_sec s) (sh_last_nsec s) (sh_last_ino s) (sh_last_mtime s)
                                                      (sh_entries s) (sh_next_reader s) (sh_dead s) nfs) hs' its)).
  { intros. unfold unchanged, shared_same. cbn. splits; try reflexivity. intros H; exact H. }
  assert (Hsame1 : forall w' hs', unchanged (mkfs w s hs its) (mkfs w' s hs' its)).
  { intros. unfold unchanged. cbn [fs_shared]. split; [apply shared_same_refl|intros H; exact H]. }
  (* a call of reload through handle hi with shared state s1, the result wrapped as s3 *)
  assert (Hcall : forall (now : bool) s1 hi, shared_same s s1 -> sh_reload_needed s1 = sh_reload_needed s ->
            forall res, reload_out w s1 (nth hi hs dummy_handle) res ->
            let '(w', s2, h') := res in
            forall s3 its', shared_same s2 s3 -> sh_reload_needed s3 = sh_reload_needed s2 ->
              (sh_n_iters s1 = 0 -> nopen its = 0%nat \/ nopen its' = 0%nat) ->
              (unchanged (mkfs w s hs its) (mkfs w' s3 (upd hs hi h') its') /\ (sh_n_iters s1 = 0 -> sh_reload_needed s3 = false)) \/
              (reloaded (mkfs w s hs its) (mkfs w' s3 (upd hs hi h') its') /\ sh_n_iters s1 = 0)).
  { intros now s1 hi Hsame Hrn1 res Hout.
    assert (Hs1 : sinv s1) by (destruct Hsame as (_ & _ & _ & _ & E5 & E6 & E7); eapply sinv_ext; [exact Hs| | |]; assumption).
    assert (Hso1 : sorted (sh_entries s1)) by (destruct Hsame as (_ & _ & _ & _ & E5 & _); rewrite E5; exact Hso).
    assert (Hv1 : hview s1 (nth hi hs dummy_handle)) by (apply (hview_same s s1); [exact Hsame|apply hview_nth, Hv]).
    pose proof (reload_out_cases w s1 _ res Hout Hs1 Hso1 Hl Hv1) as Hc. destruct res as [[w' s2] h'].
    intros s3 its' Hsame3 Hrn3 Hno. destruct Hc as [(C1 & C2 & C3)|(C0 & C1 & C2)].
    - left. split; [|intros H0; rewrite Hrn3; apply C3, H0]. unfold unchanged. cbn [fs_shared]. split.
      + eapply shared_same_trans; [exact Hsame|]. eapply shared_same_trans; [exact C1|exact Hsame3].
      + intros Ht. rewrite Hrn3. apply C2. rewrite Hrn1. exact Ht.
    - right. split; [|exact C0]. apply (reloaded_transport _ _ s1 s2); cbn [fs_shared fs_world fs_iters]; try assumption.
      apply Hno, C0. }
  destruct op as [lines|n k|n|ds dn|hi|hi|hi|ii|hi interval nf rf|hi]; cbn [fstep fs_world fs_shared fs_handles fs_iters reload_call];
    try (left; split; [cbn [fst]; first [apply Hsame1|apply Hsame0]|intros c Hc; discriminate]).
  - (* reload *)
    pose proof (Hcall false s hi (shared_same_refl s) eq_refl _ (fileset_reload_out w s (nth hi hs dummy_handle))) as Hc.
    destruct (fileset_reload w s (nth hi hs dummy_handle)) as [[w' s'] h']. cbn [fst].
    specialize (Hc s' its (shared_same_refl s') eq_refl ltac:(intros H0; left; lia)).
    destruct Hc as [[C1 C2]|[C1 C2]]; [left; split; [exact C1|intros c Hc; inversion Hc; subst c; exact C2]|right; split; [exact C1|eexists; split; [reflexivity|exact C2]]].
  - (* reload_now *)
    pose proof (Hcall true s hi (shared_same_refl s) eq_refl _ (fileset_reload_now_out w s (nth hi hs dummy_handle))) as Hc.
    destruct (fileset_reload_now w s (nth hi hs dummy_handle)) as [[w' s'] h']. cbn [fst].
    specialize (Hc s' its (shared_same_refl s') eq_refl ltac:(intros H0; left; lia)).
    destruct Hc as [[C1 C2]|[C1 C2]]; [left; split; [exact C1|intros c Hc; inversion Hc; subst c; exact C2]|right; split; [exact C1|eexists; split; [reflexivity|exact C2]]].
  - (* open *)
    pose proof (Hcall false s hi (shared_same_refl s) eq_refl _ (fileset_reload_out w s (nth hi hs dummy_handle))) as Hc.
    destruct (fileset_reload w s (nth hi hs dummy_handle)) as [[w' s'] h']. cbn [fst].
    specialize (Hc (set_iters s' (sh_n_iters s' + 1)) (its ++ [(hi, h_merger h', true)]) ltac:(unfold shared_same; splits; reflexivity) eq_refl ltac:(intros H0; left; lia)).
    destruct Hc as [[C1 C2]|[C1 C2]]; [left; split; [exact C1|intros c Hc; inversion Hc; subst c; exact C2]|right; split; [exact C1|eexists; split; [reflexivity|exact C2]]].
  - (* close *)
    destruct (nth_error its ii) as [[[hi snap] [|]]|] eqn:Eii;
      try (left; split; [cbn [fst]; apply Hsame1|intros c Hc; discriminate]).
    set (s1 := set_iters s (sh_n_iters s - 1)) in *.
    pose proof (Hcall false s1 hi ltac:(unfold shared_same; splits; reflexivity) eq_refl _ (fileset_reload_out w s1 (nth hi hs dummy_handle))) as Hc.
    destruct (fileset_reload w s1 (nth hi hs dummy_handle)) as [[w' s'] h']. cbn [fst].
    pose proof (nopen_close its ii hi snap Eii) as Hcl.
    specialize (Hc s' (upd its ii (hi, snap, false)) (shared_same_refl s') eq_refl ltac:(intros H0; right; unfold s1, set_iters in H0; cbn [sh_n_iters] in H0; lia)).
    destruct Hc as [[C1 C2]|[C1 C2]]; [left; split; [exact C1|intros c Hc; inversion Hc; subst c; exact C2]|right; split; [exact C1|eexists; split; [reflexivity|exact C2]]].
Qed.

(* ---- Tier 2: the loaded set is the setfile as of the most recent reload that re-read it ------------- *)
(* a step re-read the setfile iff the (ino, mtime) recorded by my_fileset (setfile_updated) changed *)
Definition reread (st : fstate) (op : fop) : bool :=
  let s := fs_shared st in let s' := fs_shared (fst (fstep st op)) in
  negb ((sh_last_ino s =? sh_last_ino s') && (sh_last_mtime s =? sh_last_mtime s')).

Lemma raw_entries_tick w old : forall lines next, raw_entries (tick w) old next lines = raw_entries w old next lines.
Proof.
  induction lines as [|line lines IH]; intros next; [reflexivity|]. cbn [raw_entries].
  change (lookup_file (tick w) line) with (lookup_file w line).
  destruct (lookup_file w line) as [k|]; [|apply IH]. destruct (find_entry old line); [|destruct k]; f_equal; apply IH.
Qed.

Lemma setfile_view_tick w old next : setfile_view (tick w) old next = setfile_view w old next.
Proof. unfold setfile_view. change (w_set_lines (tick w)) with (w_set_lines w). rewrite raw_entries_tick. reflexivity. Qed.

Lemma reread_spec st op : vinv st -> (forall lines, op = OpSetFile lines -> NoDup lines) ->
  let st' := fst (fstep st op) in
  (reread st op = true <-> reloaded st st' /\ stamp_same (tick (fs_world st)) (fs_shared st) = false) /\
  sh_entries (fs_shared st') =
    (if reread st op then setfile_view (fs_world st) (sh_entries (fs_shared st)) (sh_next_reader (fs_shared st))
     else sh_entries (fs_shared st)).
Proof.
  intros Hv Hop. cbv zeta. destruct (step_cases st op Hv Hop) as [[[Hsame _] _]|[Hr _]].
  - assert (E : reread st op = false).
    { unfold reread. cbv zeta. destruct Hsame as (_ & _ & E3 & E4 & _). rewrite E3, E4, !N.eqb_refl. reflexivity. }
    rewrite E. split; [|exact (proj1 (proj2 (proj2 (proj2 (proj2 Hsame)))))]. split; [discriminate|].
    intros [(_ & _ & _ & _ & R5 & R6 & _) Hst]. exfalso. destruct Hsame as (_ & _ & E3 & E4 & _).
    unfold stamp_same in Hst. rewrite <- E3, <- E4, R5, R6, !N.eqb_refl in Hst. discriminate.
  - assert (E : reread st op = negb (stamp_same (tick (fs_world st)) (fs_shared st))).
    { unfold reread, stamp_same. cbv zeta. destruct Hr as (_ & _ & _ & _ & R5 & R6 & _). rewrite R5, R6. reflexivity. }
    rewrite E. split.
    + split; [intros H; split; [exact Hr|destruct (stamp_same _ _); [discriminate|reflexivity]]|intros [_ ->]; reflexivity].
    + destruct Hr as (_ & R2 & _). rewrite R2. destruct (stamp_same _ _); cbn [negb]; [reflexivity|apply setfile_view_tick].
Qed.

(* the ghost: the world, the loaded set and the reader counter at the most recent step that re-read
   the setfile *)
Record reload_ghost := mkghost { g_world : world; g_old : list fentry; g_next : N }.

Fixpoint last_reread (st : fstate) (ops : list fop) (g : option reload_ghost) : option reload_ghost :=
  match ops with
  | [] => g
  | op :: tl =>
    last_reread (fst (fstep st op)) tl
      (if reread st op then Some (mkghost (fs_world st) (sh_entries (fs_shared st)) (sh_next_reader (fs_shared st))) else g)
  end.

(* the files named in the setfile as of the most recent reload *)
Definition expected_entries (g : option reload_ghost) : list fentry :=
  match g with None => [] | Some g => setfile_view (g_world g) (g_old g) (g_next g) end.

Definition ghost_ok (g : option reload_ghost) : Prop := match g with None => True | Some g => NoDup (w_set_lines (g_world g)) end.

Lemma loaded_set_gen : forall ops st g, vinv st -> lines_ok ops -> ghost_ok g ->
  sh_entries (fs_shared st) = expected_entries g ->
  sh_entries (fs_shared (fexec st ops)) = expected_entries (last_reread st ops g) /\ ghost_ok (last_reread st ops g).
Proof.
  induction ops as [|op ops IH]; intros st g Hv Hl Hg He; [split; assumption|]. cbn [fexec fold_left last_reread].
  assert (Hop : forall lines, op = OpSetFile lines -> NoDup lines) by (intros lines ->; apply Hl; left; reflexivity).
  apply IH.
  - apply vinv_step; assumption.
  - intros lines Hin. apply Hl. right. exact Hin.
  - destruct (reread st op); [|exact Hg]. cbn [ghost_ok g_world]. destruct Hv as ((_ & _ & Hnd & _) & _). exact Hnd.
  - destruct (reread_spec st op Hv Hop) as [_ E]. rewrite E. destruct (reread st op); [reflexivity|exact He].
Qed.

(* ---- Tier 3: pinning ------------------------------------------------------------------------------------ *)
(* (b) an iterator keeps its handle and its snapshot; it can only go from open to closed *)
Lemma iter_step st op ii hi snap b : nth_error (fs_iters st) ii = Some (hi, snap, b) ->
  exists b', nth_error (fs_iters (fst (fstep st op))) ii = Some (hi, snap, b') /\ (b' = true -> b = true).
Proof.
  intros E. destruct st as [w s hs its]. cbn [fs_iters] in E.
  destruct op as [lines|n k|n|ds dn|hj|hj|hj|jj|hj interval nf rf|hj]; cbn [fstep fs_world fs_shared fs_handles fs_iters];
    try (exists b; split; [exact E|intros H; exact H]).
  - destruct (fileset_reload w s (nth hj hs dummy_handle)) as [[w' s'] h']. exists b. split; [exact E|intros H; exact H].
  - destruct (fileset_reload_now w s (nth hj hs dummy_handle)) as [[w' s'] h']. exists b. split; [exact E|intros H; exact H].
  - destruct (fileset_reload w s (nth hj hs dummy_handle)) as [[w' s'] h']. exists b. cbn [fst fs_iters]. split; [|intros H; exact H].
    rewrite nth_error_app1; [exact E|]. apply nth_error_Some. rewrite E. discriminate.
  - destruct (nth_error its jj) as [[[hk sn] [|]]|] eqn:Ej; try (exists b; split; [exact E|intros H; exact H]).
    destruct (fileset_reload w (set_iters s (sh_n_iters s - 1)) (nth hk hs dummy_handle)) as [[w' s'] h']. cbn [fst fs_iters].
    rewrite nth_error_upd, Ej. destruct (Nat.eqb ii jj) eqn:Eij.
    + apply Nat.eqb_eq in Eij. subst jj. rewrite E in Ej. inversion Ej; subst hk sn b. exists false. split; [reflexivity|discriminate].
    + exists b. split; [exact E|intros H; exact H].
Qed.

Lemma iter_exec : forall ops st ii hi snap b, nth_error (fs_iters st) ii = Some (hi, snap, b) ->
  exists b', nth_error (fs_iters (fexec st ops)) ii = Some (hi, snap, b') /\ (b' = true -> b = true).
Proof.
  induction ops as [|op ops IH]; intros st ii hi snap b E; [exists b; split; [exact E|intros H; exact H]|].
  cbn [fexec fold_left]. destruct (iter_step st op ii hi snap b E) as (b1 & E1 & H1).
  destruct (IH _ ii hi snap b1 E1) as (b2 & E2 & H2). exists b2. split; [exact E2|intros H; apply H1, H2, H].
Qed.

(* (c) a step before and after which some iterator is open loads and unloads nothing *)
Lemma pinned_step st op ii hi snap : vinv st -> (forall lines, op = OpSetFile lines -> NoDup lines) ->
  nth_error (fs_iters st) ii = Some (hi, snap, true) ->
  nth_error (fs_iters (fst (fstep st op))) ii = Some (hi, snap, true) ->
  unchanged st (fst (fstep st op)).
Proof.
  intros Hv Hop E E'. destruct (step_cases st op Hv Hop) as [[Hu _]|[Hr _]]; [exact Hu|]. exfalso.
  destruct Hr as (_ & _ & _ & _ & _ & _ & _ & _ & _ & [H|H]).
  - pose proof (nopen_pos _ hi snap (nth_error_In _ _ E)). lia.
  - pose proof (nopen_pos _ hi snap (nth_error_In _ _ E')). lia.
Qed.

Lemma pinned_exec : forall ops st ii hi snap, vinv st -> lines_ok ops ->
  nth_error (fs_iters st) ii = Some (hi, snap, true) ->
  nth_error (fs_iters (fexec st ops)) ii = Some (hi, snap, true) ->
  shared_same (fs_shared st) (fs_shared (fexec st ops)).
Proof.
  induction ops as [|op ops IH]; intros st ii hi snap Hv Hl E E'; [apply shared_same_refl|]. cbn [fexec fold_left] in *.
  assert (Hop : forall lines, op = OpSetFile lines -> NoDup lines) by (intros lines ->; apply Hl; left; reflexivity).
  destruct (iter_step st op ii hi snap true E) as (b1 & E1 & _).
  assert (b1 = true).
  { destruct (iter_exec ops _ ii hi snap b1 E1) as (b2 & E2 & H2). unfold fexec in E2. rewrite E' in E2. inversion E2; subst b2. apply H2. reflexivity. }
  subst b1. eapply shared_same_trans; [exact (proj1 (pinned_step st op ii hi snap Hv Hop E E1))|].
  apply (IH _ ii hi snap); [apply vinv_step; assumption|intros lines Hin; apply Hl; right; exact Hin|exact E1|exact E'].
Qed.

(* a reload requested while an iterator is open is only recorded ... *)
Lemma reload_now_deferred st hi : 0 < sh_n_iters (fs_shared st) ->
  let st' := fst (fstep st (OpReloadNow hi)) in
  unchanged st st' /\ sh_reload_needed (fs_shared st') = true /\ fs_world st' = fs_world st /\ fs_iters st' = fs_iters st.
Proof.
  intros Hpos. destruct st as [w s hs its]. cbn [fs_shared] in Hpos. cbn [fstep fs_world fs_shared fs_handles fs_iters].
  unfold fileset_reload_now. rewrite (proj2 (N.ltb_lt _ _) Hpos). cbn [fst fs_shared fs_world fs_iters sh_reload_needed].
  unfold unchanged, shared_same. cbn. splits; reflexivity.
Qed.

(* ... a pending request stays pending until a reload runs ... *)
Lemma pending_step st op : vinv st -> (forall lines, op = OpSetFile lines -> NoDup lines) ->
  sh_reload_needed (fs_shared st) = true ->
  let st' := fst (fstep st op) in
  (unchanged st st' /\ sh_reload_needed (fs_shared st') = true /\
   forall c, reload_call st op = Some c -> 0 < sh_n_iters (snd (fst c))) \/
  reloaded st st'.
Proof.
  intros Hv Hop Hn. cbv zeta. destruct (step_cases st op Hv Hop) as [[Hu Hc]|[Hr _]]; [left|right; exact Hr].
  splits; [exact Hu|exact (proj2 Hu Hn)|]. intros c Ec.
  destruct (N.eq_dec (sh_n_iters (snd (fst c))) 0) as [H0|H0]; [|lia].
  specialize (Hc c Ec H0). rewrite (proj2 Hu Hn) in Hc. discriminate.
Qed.

(* ... and runs at the first reload call made with no iterator open (for OpClose: after the count
   has been decremented) *)
Lemma pending_performed st op c : vinv st -> reload_call st op = Some c -> sh_n_iters (snd (fst c)) = 0 ->
  sh_reload_needed (fs_shared st) = true -> reloaded st (fst (fstep st op)).
Proof.
  intros Hv Ec H0 Hn.
  assert (Hop : forall lines, op = OpSetFile lines -> NoDup lines) by (intros lines ->; discriminate).
  destruct (pending_step st op Hv Hop Hn) as [(_ & _ & Hc)|Hr]; [|exact Hr]. specialize (Hc c Ec). lia.
Qed.

(* ---- the ghost, read back: which step it refers to ----------------------------------------------------- *)
Fixpoint no_reread (st : fstate) (ops : list fop) : Prop :=
  match ops with [] => True | op :: tl => reread st op = false /\ no_reread (fst (fstep st op)) tl end.

Lemma last_reread_split : forall ops st g0 g, last_reread st ops g0 = Some g ->
  (no_reread st ops /\ g0 = Some g) \/
  (exists pre op post, ops = pre ++ op :: post /\ reread (fexec st pre) op = true /\
     g = mkghost (fs_world (fexec st pre)) (sh_entries (fs_shared (fexec st pre))) (sh_next_reader (fs_shared (fexec st pre))) /\
     no_reread (fexec st (pre ++ [op])) post).
Proof.
  induction ops as [|op ops IH]; intros st g0 g E; cbn [last_reread] in E; [left; split; [exact I|exact E]|].
  destruct (IH _ _ _ E) as [[Hn Hg]|(pre & op' & post & -> & Hr & Hg & Hn)].
  - destruct (reread st op) eqn:Er.
    + right. exists [], op, ops. inversion Hg; subst g. splits; try reflexivity; [exact Er|exact Hn].
    + left. split; [split; assumption|exact Hg].
  - right. exists (op :: pre), op', post. splits; try assumption. reflexivity.
Qed.

Lemma last_reread_none : forall ops st, last_reread st ops None = None -> no_reread st ops.
Proof.
  induction ops as [|op ops IH]; intros st E; cbn [last_reread] in E; [exact I|]. cbn [no_reread].
  destruct (reread st op) eqn:Er.
  - exfalso. clear IH Er. revert E. generalize (fst (fstep st op)). generalize (mkghost (fs_world st) (sh_entries (fs_shared st)) (sh_next_reader (fs_shared st))).
    induction ops as [|op' ops IH']; intros g' st' E; cbn [last_reread] in E; [discriminate|].
    destruct (reread st' op'); eapply IH'; exact E.
  - split; [reflexivity|apply IH, E].
Qed.

(* ---- handles keep their options ----------------------------------------------------------------------------- *)
Definition same_opts (h h' : handle) : Prop :=
  h_name_filter h' = h_name_filter h /\ h_reader_filter h' = h_reader_filter h /\ h_interval h' = h_interval h.

Lemma passes_opts h h' : same_opts h h' -> forall l, filter (passes h') l = filter (passes h) l.
Proof. intros (E1 & E2 & _) l. apply filter_ext. intros e. unfold passes. rewrite E1, E2. reflexivity. Qed.

Lemma sync_opts s h : same_opts h (sync_handle s h).
Proof. unfold sync_handle, same_opts. destruct (_ && _); splits; reflexivity. Qed.

Lemma do_reload_opts w s h : same_opts h (snd (do_reload w s h)).
Proof.
  unfold do_reload. destruct (my_fileset_reload w s) as [[s1 loaded] unloaded]. cbn [snd].
  unfold same_opts, set_merger. destruct ((0 <? loaded) || (0 <? unloaded)); splits; reflexivity.
Qed.

Lemma same_opts_trans a b c : same_opts a b -> same_opts b c -> same_opts a c.
Proof. unfold same_opts. intros (A1 & A2 & A3) (B1 & B2 & B3). splits; congruence. Qed.

Lemma reload_out_opts w s h res : reload_out w s h res -> same_opts h (snd res).
Proof.
  intros [w' s' _ _ _ _ _ _|s' h' _ E]; cbn [snd]; [apply sync_opts|].
  eapply same_opts_trans; [apply sync_opts|]. pose proof (do_reload_opts (tick w) s (sync_handle s h)) as H. rewrite E in H. exact H.
Qed.

Lemma handle_opts_step st op hi : (hi < length (fs_handles st))%nat ->
  (hi < length (fs_handles (fst (fstep st op))))%nat /\
  same_opts (nth hi (fs_handles st) dummy_handle) (nth hi (fs_handles (fst (fstep st op))) dummy_handle).
Proof.
  intros Hhi. assert (Hrefl : forall h, same_opts h h) by (intros h; unfold same_opts; splits; reflexivity).
  assert (Hupd : forall hs hj h', (hi < length hs)%nat -> same_opts (nth hj hs dummy_handle) h' ->
            (hi < length (upd hs hj h'))%nat /\ same_opts (nth hi hs dummy_handle) (nth hi (upd hs hj h') dummy_handle)).
  { intros hs hj h' Hlt Hso. rewrite upd_length. split; [exact Hlt|].
    destruct (Nat.eq_dec hi hj) as [->|Hne]; [rewrite nth_upd_same by exact Hlt; exact Hso|].
    assert (E : nth_error (upd hs hj h') hi = nth_error hs hi) by (rewrite nth_error_upd; apply Nat.eqb_neq in Hne; rewrite Hne; reflexivity).
    rewrite (nth_error_nth' _ dummy_handle Hlt) in E. rewrite (nth_error_nth' (upd hs hj h') dummy_handle) in E by (rewrite upd_length; exact Hlt).
    inversion E as [E']. rewrite E'. apply Hrefl. }
  destruct st as [w s hs its]. cbn [fs_handles] in Hhi.
  destruct op as [lines|n k|n|ds dn|hj|hj|hj|jj|hj interval nf rf|hj]; cbn [fstep fs_world fs_shared fs_handles fs_iters];
    try (split; [exact Hhi|apply Hrefl]).
  - pose proof (reload_out_opts _ _ _ _ (fileset_reload_out w s (nth hj hs dummy_handle))) as Ho.
    destruct (fileset_reload w s (nth hj hs dummy_handle)) as [[w' s'] h']. cbn [fst snd fs_handles] in *. apply Hupd; assumption.
  - pose proof (reload_out_opts _ _ _ _ (fileset_reload_now_out w s (nth hj hs dummy_handle))) as Ho.
    destruct (fileset_reload_now w s (nth hj hs dummy_handle)) as [[w' s'] h']. cbn [fst snd fs_handles] in *. apply Hupd; assumption.
  - pose proof (reload_out_opts _ _ _ _ (fileset_reload_out w s (nth hj hs dummy_handle))) as Ho.
    destruct (fileset_reload w s (nth hj hs dummy_handle)) as [[w' s'] h']. cbn [fst snd fs_handles] in *. apply Hupd; assumption.
  - destruct (nth_error its jj) as [[[hk sn] [|]]|]; try (split; [exact Hhi|apply Hrefl]).
    pose proof (reload_out_opts _ _ _ _ (fileset_reload_out w (set_iters s (sh_n_iters s - 1)) (nth hk hs dummy_handle))) as Ho.
    destruct (fileset_reload w (set_iters s (sh_n_iters s - 1)) (nth hk hs dummy_handle)) as [[w' s'] h']. cbn [fst snd fs_handles] in *. apply Hupd; assumption.
  - cbn [fst fs_handles]. rewrite app_length. split; [lia|]. rewrite app_nth1 by exact Hhi. apply Hrefl.
  - cbn [fst fs_handles]. apply Hupd; [exact Hhi|]. unfold same_opts. splits; reflexivity.
Qed.

Lemma handle_opts_exec : forall ops st hi, (hi < length (fs_handles st))%nat ->
  (hi < length (fs_handles (fexec st ops)))%nat /\
  same_opts (nth hi (fs_handles st) dummy_handle) (nth hi (fs_handles (fexec st ops)) dummy_handle).
Proof.
  induction ops as [|op ops IH]; intros st hi Hhi; [split; [exact Hhi|unfold same_opts; splits; reflexivity]|].
  cbn [fexec fold_left]. destruct (handle_opts_step st op hi Hhi) as [H1 H2]. destruct (IH _ hi H1) as [H3 H4].
  split; [exact H3|]. eapply same_opts_trans; eassumption.
Qed.

(* the handle made by dup *)
Lemma dup_handle st hi interval nf rf :
  let st' := fst (fstep st (OpDup hi interval nf rf)) in
  let h := nth (length (fs_handles st)) (fs_handles st') dummy_handle in
  length (fs_handles st') = S (length (fs_handles st)) /\
  h_name_filter h = nf /\ h_reader_filter h = rf /\ h_interval h = interval /\ h_alive h = true.
Proof.
  destruct st as [w s hs its]. cbn [fstep fst fs_handles]. rewrite app_length, app_nth2, Nat.sub_diag by lia. cbn [length nth].
  splits; try reflexivity. lia.
Qed.

(* ---- executable well-formedness of histories ---------------------------------------------------------------- *)
Fixpoint nodupb (l : list N) : bool :=
  match l with [] => true | x :: tl => negb (existsb (N.eqb x) tl) && nodupb tl end.

Lemma nodupb_NoDup l : nodupb l = true -> NoDup l.
Proof.
  induction l as [|x l IH]; intros H; [constructor|]. cbn [nodupb] in H. apply andb_true_iff in H. destruct H as [H1 H2].
  constructor; [|apply IH, H2]. intros Hin. apply negb_true_iff in H1.
  assert (existsb (N.eqb x) l = true) by (apply existsb_exists; exists x; split; [exact Hin|apply N.eqb_refl]). congruence.
Qed.

(* hi names an existing handle that has not been destroyed *)
Definition live_handle (st : fstate) (hi : nat) : bool :=
  Nat.ltb hi (length (fs_handles st)) && h_alive (nth hi (fs_handles st) dummy_handle).

Definition wf_op (st : fstate) (op : fop) : bool :=
  match op with
  | OpSetFile lines => nodupb lines                                   (* the lines of a setfile are distinct names *)
  | OpReload hi | OpReloadNow hi | OpOpen hi | OpDup hi _ _ _ => live_handle st hi
  | OpClose ii => match nth_error (fs_iters st) ii with Some (_, _, true) => true | _ => false end   (* an open iterator *)
  | OpDestroy hi => live_handle st hi && negb (existsb (fun it : iter => Nat.eqb (fst (fst it)) hi && snd it) (fs_iters st))
  | _ => true
  end.

Fixpoint wf_hist (st : fstate) (ops : list fop) : bool :=
  match ops with [] => true | op :: tl => wf_op st op && wf_hist (fst (fstep st op)) tl end.

Lemma wf_hist_lines_ok : forall ops st, wf_hist st ops = true -> lines_ok ops.
Proof.
  induction ops as [|op ops IH]; intros st H lines Hin; [contradiction|]. cbn [wf_hist] in H. apply andb_true_iff in H.
  destruct H as [H1 H2]. destruct Hin as [->|Hin]; [apply nodupb_NoDup, H1|exact (IH _ H2 lines Hin)].
Qed.

Lemma wf_hist_app : forall a st b, wf_hist st (a ++ b) = wf_hist st a && wf_hist (fexec st a) b.
Proof.
  induction a as [|op a IH]; intros st b; [reflexivity|]. cbn [app wf_hist fexec fold_left]. rewrite IH, andb_assoc. reflexivity.
Qed.

(* a request pending over a history: it runs at the first reload call made with the iterator count at 0 *)
Fixpoint calls_blocked (st : fstate) (ops : list fop) : Prop :=
  match ops with
  | [] => True
  | op :: tl => (forall c, reload_call st op = Some c -> 0 < sh_n_iters (snd (fst c))) /\ calls_blocked (fst (fstep st op)) tl
  end.

Lemma pending_exec : forall ops st, vinv st -> lines_ok ops -> sh_reload_needed (fs_shared st) = true ->
  (shared_same (fs_shared st) (fs_shared (fexec st ops)) /\ sh_reload_needed (fs_shared (fexec st ops)) = true /\ calls_blocked st ops) \/
  (exists pre op post c, ops = pre ++ op :: post /\
     shared_same (fs_shared st) (fs_shared (fexec st pre)) /\ sh_reload_needed (fs_shared (fexec st pre)) = true /\ calls_blocked st pre /\
     reload_call (fexec st pre) op = Some c /\ sh_n_iters (snd (fst c)) = 0 /\
     reloaded (fexec st pre) (fexec st (pre ++ [op]))).
Proof.
  induction ops as [|op ops IH]; intros st Hv Hl Hn.
  - left. splits; [apply shared_same_refl|exact Hn|exact I].
  - assert (Hop : forall lines, op = OpSetFile lines -> NoDup lines) by (intros lines ->; apply Hl; left; reflexivity).
    assert (Hl' : lines_ok ops) by (intros lines Hin; apply Hl; right; exact Hin).
    destruct (step_cases st op Hv Hop) as [[Hu Hc]|[Hr (c & Ec & H0)]].
    + assert (Hn' : sh_reload_needed (fs_shared (fst (fstep st op))) = true) by exact (proj2 Hu Hn).
      assert (Hb : forall c, reload_call st op = Some c -> 0 < sh_n_iters (snd (fst c))).
      { intros c Ec. destruct (N.eq_dec (sh_n_iters (snd (fst c))) 0) as [H0|H0]; [|lia]. specialize (Hc c Ec H0). congruence. }
      destruct (IH _ (vinv_step st op Hv Hop) Hl' Hn') as [(I1 & I2 & I3)|(pre & op' & post & c & -> & I1 & I2 & I3 & I4 & I5 & I6)].
      * left. cbn [fexec fold_left calls_blocked]. splits; try assumption. eapply shared_same_trans; [exact (proj1 Hu)|exact I1].
      * right. exists (op :: pre), op', post, c. cbn [fexec fold_left calls_blocked app]. splits; try assumption; try reflexivity.
        eapply shared_same_trans; [exact (proj1 Hu)|exact I1].
    + right. exists [], op, ops, c. cbn [fexec fold_left calls_blocked app]. splits; try assumption; try reflexivity. apply shared_same_refl.
Qed.

(* a step with an iterator open before it and an iterator open after it loads and unloads nothing *)
Lemma open_step_unchanged st op : vinv st -> (forall lines, op = OpSetFile lines -> NoDup lines) ->
  (0 < nopen (fs_iters st))%nat -> (0 < nopen (fs_iters (fst (fstep st op))))%nat -> unchanged st (fst (fstep st op)).
Proof.
  intros Hv Hop H1 H2. destruct (step_cases st op Hv Hop) as [[Hu _]|[Hr _]]; [exact Hu|]. exfalso.
  destruct Hr as (_ & _ & _ & _ & _ & _ & _ & _ & _ & [H|H]); lia.
Qed.

(* ---- what a reload unloads ------------------------------------------------------------------------------------ *)
Lemma in_dropped w old e : NoDup (names_of old) ->
  (In e (dropped_of w old) <-> In e old /\ ~ (In (fe_name e) (w_set_lines w) /\ lookup_file w (fe_name e) <> None)).
Proof.
  intros Hnd. unfold dropped_of. rewrite filter_In, app_nil_r.
  assert (Hk : forall n, In n (rev (filter (is_kept w old) (w_set_lines w))) <-> In n (w_set_lines w) /\ is_kept w old n = true).
  { intros n. rewrite <- in_rev, filter_In. reflexivity. }
  assert (Hex : forall n, file_exists w n = true <-> lookup_file w n <> None).
  { intros n. unfold file_exists. destruct (lookup_file w n); split; intros H; try reflexivity; try discriminate; contradiction. }
  split; intros [He H]; (split; [exact He|]).
  - intros [H1 H2]. apply negb_true_iff in H.
    assert (existsb (fun n => n =? fe_name e) (rev (filter (is_kept w old) (w_set_lines w))) = true); [|congruence].
    apply existsb_exists. exists (fe_name e). split; [|apply N.eqb_refl]. apply Hk. split; [exact H1|].
    unfold is_kept. rewrite (find_entry_in old e Hnd He). rewrite (proj2 (Hex _) H2). reflexivity.
  - apply negb_true_iff. destruct (existsb _ _) eqn:E; [|reflexivity]. exfalso. apply H.
    apply existsb_exists in E. destruct E as (n & Hn & En). apply N.eqb_eq in En. subst n. apply Hk in Hn. destruct Hn as [H1 H2].
    split; [exact H1|]. apply Hex. unfold is_kept in H2. apply andb_true_iff in H2. exact (proj1 H2).
Qed.

Lemma in_dead_after w s r : NoDup (names_of (sh_entries s)) ->
  (In r (dead_after w s) <->
   In r (sh_dead s) \/
   exists e, In e (sh_entries s) /\ fe_reader e = Some r /\ ~ (In (fe_name e) (w_set_lines w) /\ lookup_file w (fe_name e) <> None)).
Proof.
  intros Hnd. unfold dead_after. rewrite dead_fold. split; (intros [H|(e & He & Hr)]; [left; exact H|right; exists e]).
  - apply (in_dropped w _ e Hnd) in He. destruct He as [H1 H2]. splits; assumption.
  - destruct Hr as [Hr Hn]. split; [apply (in_dropped w _ e Hnd); split; assumption|exact Hr].
Qed.

Print Assumptions setfile_view_spec.
Print Assumptions vinv_step.
Print Assumptions open_view.
Print Assumptions reinit_merger_filter.
Print Assumptions step_cases.
Print Assumptions loaded_set_gen.
Print Assumptions pinned_exec.
Print Assumptions pending_performed.
Print Assumptions pending_exec.
Print Assumptions in_dead_after.
