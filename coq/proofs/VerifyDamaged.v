(* C12, file level, damaged data block: the iterator-level consequences.
   VerifyFile.damaged_data gives, for the file with data block i damaged, a verify_checksums reader r'
   whose get_block aborts at block i's offset and loads every other block as the intact file's reader
   does; VerifyIter turns that into statements about reader_iter / get* / seek / next and iteration. *)
From Coq Require Import NArith ZArith List Lia ZifyBool ZifyN ZifyNat.
From Mtbl Require Import gen.Consts model.Bytes model.Codec model.Order model.Block model.Crc model.Writer
  spec.Leb128 spec.Parse model.Reader model.Verify
  proofs.BytesLemmas proofs.CodecProofs proofs.OrderProofs proofs.WriterProofs proofs.MetaProofs
  proofs.BlockProofs proofs.LookupProofs proofs.ReaderProofs proofs.BlockRT proofs.VerifyProofs proofs.TableRT
  proofs.VerifyFile proofs.VerifyIter.
Local Open Scope N_scope.
Local Ltac splits := repeat match goal with |- _ /\ _ => split end.

(* ---- the entries of the first i blocks ---------------------------------------------------------------- *)
Lemma firstn_S_nth {A} (d : A) : forall l i, (i < length l)%nat -> firstn (S i) l = firstn i l ++ [nth i l d].
Proof.
  induction l as [|x l IH]; intros i Hi; [cbn in Hi; lia|]. destruct i as [|i]; [reflexivity|].
  cbn [firstn nth app]. f_equal. apply IH. cbn in Hi. lia.
Qed.

Lemma G_upto_firstn ds : forall i, (i <= length ds)%nat -> G_upto (Bof ds) i = concat (map d_ps (firstn i ds)).
Proof.
  induction i as [|i IH]; intros Hi; [reflexivity|]. rewrite G_upto_S, IH by lia.
  rewrite (firstn_S_nth dummy_d) by lia. rewrite map_app, concat_app. cbn [map concat]. rewrite app_nil_r. reflexivity.
Qed.

Lemma entries_before ds i : (i <= length ds)%nat ->
  firstn (base (Bof ds) i) (Gents (length ds) (Bof ds)) = all_entries (firstn i ds) [].
Proof.
  intros Hi. unfold Gents, G, base. destruct (G_upto_prefix (Bof ds) i (length ds) Hi) as [rest ->].
  rewrite map_app, firstn_app, map_length, Nat.sub_diag. cbn [firstn]. rewrite app_nil_r.
  rewrite firstn_all2 by (rewrite map_length; lia).
  rewrite (G_upto_firstn ds i Hi). unfold all_entries. cbn [map]. rewrite app_nil_r. first [rewrite concat_map|rewrite <- concat_map]. rewrite map_map. reflexivity.
Qed.

Lemma base_entries ds i : (i <= length ds)%nat -> base (Bof ds) i = length (all_entries (firstn i ds) []).
Proof.
  intros Hi. unfold base. rewrite (G_upto_firstn ds i Hi). unfold all_entries. cbn [map]. rewrite app_nil_r.
  rewrite <- (map_map d_ps (map ent_of)). first [rewrite <- concat_map|rewrite concat_map]. rewrite map_length. reflexivity.
Qed.

Section DamagedFile.
Variable compress_default : N -> bytes -> res bytes.
Variable compress_level : N -> Z -> bytes -> res bytes.
Variable decompress : N -> bytes -> res bytes.
Hypothesis Hrt_default : forall a raw c, compress_default a raw = Ok c -> decompress a c = Ok raw.
Hypothesis Hrt_level : forall a l raw c, compress_level a l raw = Ok c -> decompress a c = Ok raw.
Variables (o : wopts) (prefix : bytes) (ops : list entry) (w' : writer) (rs : list bool)
          (ds : list dblk) (ib : bb) (ips : list pentry) (iridx : list nat).
Hypothesis L : layout compress_default compress_level o prefix ops w' rs ds ib ips iridx.
Hypothesis Hm : meta_small (w_m w').
Hypothesis Hidxsz : m_bytes_index_block (w_m w') < 2 ^ 32.
Hypothesis Hlen : len (prefix ++ writer_bytes w') < 2 ^ 64.
Variables (i : nat) (c : N) (s' : bytes).
Hypothesis Hi : (i < length ds)%nat.
Hypothesis Hs : len s' = len (stored_of ds i).
Hypothesis Hc : c < 2 ^ 32.
Hypothesis Hne : c <> crc32c_ref s'.

(* the damaged file and the two verify_checksums readers *)
Definition dfile : bytes := pre_of prefix ds i ++ fr c s' ++ post_of w' ds ib i.
Definition rd_intact : reader :=
  mkreader (prefix ++ writer_bytes w') FORMAT_V2 (wo_comp o) true (block_init (bb_finish ib)) (w_m w').
Definition rd_damaged : reader :=
  mkreader dfile FORMAT_V2 (wo_comp o) true (block_init (bb_finish ib)) (w_m w').
Local Notation iab := (iab_of ib ips iridx).

Lemma ds_ne : ds <> [].
Proof using All. intros E. rewrite E in Hi. cbn in Hi. lia. Qed.

Lemma intact_table :
  fst (reader_open (prefix ++ writer_bytes w') true) = Ok (Some rd_intact) /\
  table_ok decompress rd_intact iab iridx (length ds) (Bof ds) (Rof ds) /\
  table_entries_of (length ds) (Bof ds) = kept ops rs.
Proof using All.
  destruct (intact_reader compress_default compress_level decompress Hrt_default Hrt_level o prefix ops w' rs ds ib ips iridx L Hm Hidxsz Hlen true)
    as (Hopen & _ & [(E & _)|(Htab & Hent)]); [exfalso; exact (ds_ne E)|].
  splits; assumption.
Qed.

Lemma damaged_facts :
  len dfile = len (prefix ++ writer_bytes w') /\
  verify_file dfile = VFailed /\
  fst (reader_open dfile true) = Ok (Some rd_damaged) /\
  get_block decompress rd_damaged (ioff iab i) = Abort /\
  (forall j, (j < length ds)%nat -> j <> i -> get_block decompress rd_damaged (ioff iab j) = Ok (Bof ds j)).
Proof using All.
  destruct (damaged_data compress_default compress_level decompress Hrt_default Hrt_level o prefix ops w' rs ds ib ips iridx L Hm Hlen
              i c s' Hi Hs Hc Hne) as (H1 & H2 & H3 & H4 & H5).
    splits; try assumption.
  - rewrite (ioff_block compress_default compress_level o prefix ops w' rs ds ib ips iridx L Hlen i Hi). exact H4.
  - intros j Hj Hji. rewrite (ioff_block compress_default compress_level o prefix ops w' rs ds ib ips iridx L Hlen j Hj). apply H5; assumption.
Qed.

(* every operation of the verifying reader on the damaged file: the result on the intact file, or
   Abort - and Abort exactly when the operation has to load block i *)
Theorem damaged_ops :
  outcome iab i (iter_loads iab) (reader_iter decompress rd_damaged) (reader_iter decompress rd_intact) /\
  (forall kind key bound, outcome iab i (init_loads iab key) (reader_iter_init decompress rd_damaged kind key bound)
                                                            (reader_iter_init decompress rd_intact kind key bound)) /\
  (forall it key, it_ok iab iridx (length ds) (Bof ds) (Rof ds) it ->
     outcome iab i (seek_loads iab it key) (reader_iter_seek decompress rd_damaged it key) (reader_iter_seek decompress rd_intact it key)) /\
  (forall it, it_ok iab iridx (length ds) (Bof ds) (Rof ds) it ->
     outcome iab i (next_loads iab it) (reader_iter_next decompress rd_damaged it) (reader_iter_next decompress rd_intact it)).
Proof using All.
  destruct intact_table as (_ & T & _). destruct damaged_facts as (_ & _ & _ & Hbad & Hsame).
  splits.
  - apply (table_iter_outcome decompress rd_intact rd_damaged iab iridx (length ds) (Bof ds) (Rof ds) T eq_refl i Hi Hsame Hbad).
  - intros. apply (table_init_outcome decompress rd_intact rd_damaged iab iridx (length ds) (Bof ds) (Rof ds) T eq_refl i Hi Hsame Hbad).
  - intros. apply (table_seek_outcome decompress rd_intact rd_damaged iab iridx (length ds) (Bof ds) (Rof ds) T eq_refl i Hi Hsame Hbad); assumption.
  - intros. apply (table_next_outcome decompress rd_intact rd_damaged iab iridx (length ds) (Bof ds) (Rof ds) T eq_refl i Hi Hsame Hbad); assumption.
Qed.

(* iterating the damaged file from the start: exactly the entries of the blocks before block i, then
   the reader stops; no entry of block i (or of a later block) is returned *)
Theorem damaged_iteration :
  let before := all_entries (firstn i ds) [] in
  (i = 0%nat -> reader_iter decompress rd_damaged = Abort) /\
  ((0 < i)%nat -> exists it, reader_iter decompress rd_damaged = Ok (Some it) /\
     forall fuel, (length before < fuel)%nat -> drain_log decompress fuel rd_damaged it = (before, Abort)) /\
  (forall fuel, (length before < fuel)%nat -> read_all_v decompress true fuel dfile = Abort).
Proof using All.
  intros before. destruct intact_table as (_ & T & _). destruct damaged_facts as (_ & _ & Hopen & Hbad & Hsame).
  destruct (table_iterate_damaged decompress rd_intact rd_damaged iab iridx (length ds) (Bof ds) (Rof ds) T eq_refl i Hi Hsame Hbad) as [H0 Hpos].
  assert (Hb : base (Bof ds) i = length before) by (apply base_entries; lia).
  assert (Hbe : firstn (base (Bof ds) i) (Gents (length ds) (Bof ds)) = before) by (apply entries_before; lia).
  splits.
  - exact H0.
  - intros Hp. destruct (Hpos Hp) as (it & Hit & _ & Hd). exists it. split; [exact Hit|].
    intros fuel Hf. rewrite <- Hbe. apply Hd. lia.
  - intros fuel Hf. unfold read_all_v. rewrite Hopen. destruct (Nat.eq_dec i 0) as [E|E].
    + rewrite (H0 E). reflexivity.
    + destruct (Hpos ltac:(lia)) as (it & -> & _ & Hd). apply Hd. lia.
Qed.
End DamagedFile.

Print Assumptions damaged_ops.
Print Assumptions damaged_iteration.
