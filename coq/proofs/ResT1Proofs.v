(* C18 operational resource model, tier 1 proofs: for every operation of writer, reader,
   iterators and merger, the events of the code change the owner's live resources exactly
   by the change of footprint ([sound]). *)
From Coq Require Import NArith List Bool Lia ZifyBool ZifyN ZifyNat.
From Mtbl Require Import model.ResCore model.ResT1 proofs.ResProofCore.
Import ListNotations.
Local Open Scope N_scope.

(* ---------- algebra of [sound] ---------- *)
Lemma sound_nil : forall a, sound a [] a.
Proof. intros a k n. reflexivity. Qed.
Lemma sound_equiv : forall a a' e b b',
  (forall k, cnt k a = cnt k a') -> (forall k, cnt k b = cnt k b') -> sound a e b -> sound a' e b'.
Proof. intros a a' e b b' Ha Hb H k n. rewrite <- Ha, <- Hb. apply H. Qed.
Lemma sound_frame : forall x a e b, sound a e b -> sound (x ++ a) e (x ++ b).
Proof.
  intros x a e b H k n. rewrite !cnt_app.
  replace (cnt k x + cnt k a + n) with (cnt k a + (cnt k x + n)) by lia. rewrite H. lia.
Qed.
Lemma sound_app : forall a e1 b a' e2 b', sound a e1 b -> sound a' e2 b' -> sound (a ++ a') (e1 ++ e2) (b ++ b').
Proof.
  intros a e1 b a' e2 b' H1 H2 k n. rewrite runT_app, !cnt_app.
  replace (cnt k a + cnt k a' + n) with (cnt k a + (cnt k a' + n)) by lia. rewrite H1.
  replace (cnt k b + (cnt k a' + n)) with (cnt k a' + (cnt k b + n)) by lia. rewrite H2. lia.
Qed.
Lemma sound_trans : forall a e1 b e2 c, sound a e1 b -> sound b e2 c -> sound a (e1 ++ e2) c.
Proof. intros a e1 b e2 c H1 H2 k n. rewrite runT_app, H1, H2. reflexivity. Qed.
Lemma sound_flat_map : forall (A : Type) (f g : A -> list rkind) (c : A -> list ev) l,
  (forall a, In a l -> sound (f a) (c a) (g a)) -> sound (flat_map f l) (flat_map c l) (flat_map g l).
Proof.
  induction l as [|x t IH]; intros H; cbn [flat_map]; [apply sound_nil|].
  apply sound_app; [apply H; left; reflexivity | apply IH; intros; apply H; right; assumption].
Qed.
Lemma adds_sound : forall e b, adds e b -> sound [] e b.
Proof. intros e b H k n. rewrite H. cbn [cnt]. lia. Qed.
Lemma subs_sound : forall e a, subs e a -> sound a e [].
Proof. intros e a H k n. rewrite H. cbn [cnt]. lia. Qed.
Lemma flat_map_map : forall (A B C : Type) (f : B -> list C) (h : A -> B) l,
  flat_map f (map h l) = flat_map (fun a => f (h a)) l.
Proof. induction l; cbn [map flat_map]; [reflexivity | rewrite IHl; reflexivity]. Qed.

(* normalisation of a goal about [runT] over explicit event lists and [cnt] over explicit footprints *)
Ltac rnorm :=
  repeat (rewrite ?runT_app, ?runT_acq, ?runT_rel, ?runT_nil, ?runT_cons_acq, ?runT_cons_rel,
                  ?runT_ntimes_rel, ?runT_ntimes_acq, ?cnt_app, ?cnt_cons, ?cnt_nil, ?cnt_ncopies).
Ltac rsolve := intros; rnorm; lia.

(* ---------- result handler ---------- *)
Lemma handler_init_adds : adds handler_init_code [HHandler; HResultQ; KThread].
Proof. intros k m. unfold handler_init_code. rsolve. Qed.

(* ---------- writer ---------- *)
Lemma writer_init_fd_sound : forall m, sound [] (writer_init_fd_code m) (fp_writer (writer_init_st m)).
Proof.
  intros m k n. unfold writer_init_fd_code, fp_writer, writer_init_st, handler_init_code. cbn [w_mode].
  destruct m; cbn [when has_handler]; rsolve.
Qed.
Lemma writer_init_sound : forall ok m,
  sound [] (writer_init_code ok m) (if ok then fp_writer (writer_init_st m) else []).
Proof.
  intros ok m k n. unfold writer_init_code. destruct ok; [|reflexivity].
  unfold writer_init_fd_code, fp_writer, writer_init_st, handler_init_code. cbn [w_mode].
  destruct m; cbn [when has_handler]; rsolve.
Qed.
Lemma writer_add_sound : forall w r f,
  sound (fp_writer w) (fst (writer_add_code w r f)) (fp_writer (snd (writer_add_code w r f))).
Proof.
  intros [m p] r f k n. unfold writer_add_code, writer_flush_code. cbn [w_mode w_pending].
  destruct r; [reflexivity|]. destruct f; [|reflexivity].
  destruct p; [|reflexivity]. destruct m; cbn [fst snd]; unfold fp_writer; cbn [w_mode]; rsolve.
Qed.
Lemma writer_destroy_sound : forall w, sound (fp_writer w) (writer_destroy_code w) [].
Proof.
  intros [m p] k n. unfold writer_destroy_code, writer_flush_code, handler_destroy_code, fp_writer.
  cbn [w_mode w_pending].
  destruct p, m; cbn [when has_handler]; rsolve.
Qed.

(* ---------- reader ---------- *)
Lemma reader_init_fd_sound : forall o, sound [] (reader_init_fd_code o) (fp_reader (reader_init_st o)).
Proof. intros o k n. destruct o; unfold reader_init_fd_code, reader_destroy_partial; cbn [reader_init_st fp_reader]; rsolve. Qed.
Lemma reader_init_sound : forall ok o,
  sound [] (reader_init_code ok o) (if ok then fp_reader (reader_init_st o) else []).
Proof.
  intros ok o k n. unfold reader_init_code. destruct ok; [|reflexivity].
  destruct o; unfold reader_init_fd_code, reader_destroy_partial; cbn [reader_init_st fp_reader]; rsolve.
Qed.
Lemma reader_destroy_sound : forall r, sound (fp_reader r) (reader_destroy_code r) [].
Proof. intros r k n. destruct r; cbn [reader_destroy_code fp_reader]; rsolve. Qed.

(* ---------- merger object ---------- *)
Lemma merger_init_sound : sound [] merger_init_code fp_merger.
Proof. intros k n. unfold merger_init_code, fp_merger. rsolve. Qed.
Lemma merger_destroy_sound : sound fp_merger merger_destroy_code [].
Proof. intros k n. unfold merger_destroy_code, fp_merger. rsolve. Qed.
Lemma merger_destroy_subs : subs merger_destroy_code [HMerger; HSourceVec; HSource].
Proof. intros k m. unfold merger_destroy_code. rsolve. Qed.

(* ---------- iterators ---------- *)
Lemma iterst_ind' : forall P : iterst -> Prop,
  P ItNull -> (forall hb, P (ItReader hb)) ->
  (forall e l, (forall i, In i l -> P i) -> P (ItMerger e l)) ->
  (forall i, P i -> P (ItSorter i)) -> (forall i, P i -> P (ItFileset i)) ->
  forall it, P it.
Proof.
  intros P HN HR HM HS HF. fix IH 1. intros [|hb|e l|i|i].
  - exact HN.
  - apply HR.
  - apply HM. induction l as [|x t IHl]; intros i Hi; [destruct Hi|].
    destruct Hi as [<-|Hi]; [apply IH | apply IHl, Hi].
  - apply HS, IH.
  - apply HF, IH.
Qed.

Lemma iter_destroy_subs : forall it, subs (iter_destroy_code it) (fp_iter it).
Proof.
  induction it as [|hb|e l IH|i IH|i IH] using iterst_ind'; intros k m; cbn [iter_destroy_code fp_iter].
  - rsolve.
  - destruct hb; cbn [when]; rsolve.
  - rnorm. rewrite (subs_flat_map _ _ _ _ IH). rnorm. lia.
  - rnorm. rewrite IH, merger_destroy_subs. rnorm. lia.
  - rnorm. rewrite IH. rnorm. lia.
Qed.
Lemma iter_destroy_sound : forall it, sound (fp_iter it) (iter_destroy_code it) [].
Proof. intros. apply subs_sound, iter_destroy_subs. Qed.

Lemma iter_drain_sound : forall it, sound (fp_iter it) (iter_drain_code it) (fp_iter (iter_drain_st it)).
Proof.
  induction it as [|hb|e l IH|i IH|i IH] using iterst_ind'; cbn [iter_drain_code iter_drain_st fp_iter].
  - apply sound_nil.
  - intros k n. destruct hb; cbn [when]; rsolve.
  - apply sound_frame, sound_frame. rewrite flat_map_map. apply sound_flat_map, IH.
  - apply sound_frame, IH.
  - apply sound_frame, IH.
Qed.
Lemma iter_seek_sound : forall it, sound (fp_iter it) (iter_seek_code it) (fp_iter (iter_seek_st it)).
Proof.
  induction it as [|hb|e l IH|i IH|i IH] using iterst_ind'; cbn [iter_seek_code iter_seek_st fp_iter].
  - apply sound_nil.
  - intros k n. destruct hb; cbn [when]; rsolve.
  - apply sound_frame, sound_frame. rewrite flat_map_map. apply sound_flat_map, IH.
  - apply sound_frame, IH.
  - apply sound_frame, IH.
Qed.
Lemma iter_next_sound : forall it, sound (fp_iter it) (iter_next_code it) (fp_iter it).
Proof.
  induction it as [|hb|e l IH|i IH|i IH] using iterst_ind'; cbn [iter_next_code fp_iter].
  - apply sound_nil.
  - intros k n. destruct hb; cbn [when]; rsolve.
  - apply sound_frame, sound_frame. apply sound_flat_map, IH.
  - apply sound_frame, IH.
  - apply sound_frame, IH.
Qed.

(* ---------- creating iterators ---------- *)
Lemma reader_iter_adds : forall nn, adds (fst (reader_iter_code nn)) (fp_iter (snd (reader_iter_code nn))).
Proof. intros nn k m. destruct nn; cbn [reader_iter_code fst snd fp_iter]; rsolve. Qed.

Definition sub_ok (s : list ev * iterst * bool) : Prop := adds (fst (fst s)) (fp_iter (snd (fst s))).

Lemma fp_iter_null : forall it, is_null it = true -> fp_iter it = [].
Proof. destruct it; cbn; congruence. Qed.

Lemma merger_loop_adds : forall q l, (forall s, In s l -> sub_ok s) ->
  adds (fst (fst (merger_loop q l)))
       (ncopies (snd (fst (merger_loop q l))) [HMEntry] ++ flat_map fp_iter (snd (merger_loop q l))).
Proof.
  induction l as [|[[e it] filled] t IH]; intros H; cbn [merger_loop].
  - intros k m. cbn. lia.
  - assert (He : adds e (fp_iter it)) by (apply (H (e, it, filled)); left; reflexivity).
    specialize (IH (fun s Hs => H s (or_intror Hs))).
    destruct (merger_loop q t) as [[et n] its]. cbn [fst snd] in IH.
    destruct (is_null it) eqn:En.
    + rewrite (fp_iter_null _ En) in He.
      destruct (is_qiter q); cbn [fst snd]; intros k m; rnorm; rewrite He, ?IH; rnorm; try rewrite IH; rnorm; lia.
    + destruct filled; cbn [fst snd flat_map]; intros k m; rnorm; rewrite He; rnorm; rewrite IH; rnorm; lia.
Qed.

Lemma merger_iter_adds : forall q l, (forall s, In s l -> sub_ok s) ->
  adds (fst (merger_iter_code q l)) (fp_iter (snd (merger_iter_code q l))).
Proof.
  intros q l H. unfold merger_iter_code. pose proof (merger_loop_adds q l H) as HL.
  destruct (merger_loop q l) as [[el n] its]. cbn [fst snd] in HL.
  destruct (negb (is_qiter q) && (n =? 0)) eqn:E; cbn [fst snd fp_iter]; intros k m.
  - apply andb_true_iff in E. destruct E as [_ E]. apply N.eqb_eq in E. subst n.
    rnorm. rewrite HL. rnorm. rewrite (subs_flat_map _ _ _ _ (fun a _ => iter_destroy_subs a)). rnorm. lia.
  - rnorm. rewrite HL. rnorm. lia.
Qed.

Lemma mk_iter_adds : forall fuel look q src oc,
  adds (fst (mk_iter fuel look q src oc)) (fp_iter (snd (mk_iter fuel look q src oc))).
Proof.
  induction fuel as [|f IH]; intros look q src oc; cbn [mk_iter].
  - intros k m. cbn. lia.
  - destruct (look src) as [| |srcs].
    + intros k m. cbn. lia.
    + apply reader_iter_adds.
    + apply merger_iter_adds. intros s Hs. apply in_map_iff in Hs. destruct Hs as [so [<- _]].
      unfold sub_ok. cbn [fst snd]. apply IH.
Qed.
Lemma mk_iter_sound : forall fuel look q src oc,
  sound [] (fst (mk_iter fuel look q src oc)) (fp_iter (snd (mk_iter fuel look q src oc))).
Proof. intros. apply adds_sound, mk_iter_adds. Qed.

Lemma subs_times : forall e f n, subs e f -> subs (times n e) (copies n f).
Proof.
  intros e f n H. induction n as [|c IH]; intros k m; cbn [times copies]; [rewrite runT_nil; cbn; lia|].
  rewrite runT_app, cnt_app, H, IH. lia.
Qed.
Lemma subs_ntimes : forall e f n, subs e f -> subs (ntimes n e) (ncopies n f).
Proof. intros. apply subs_times. assumption. Qed.

