(* merger.c over bounded source iterators (mtbl_source_get / get_prefix / get_range on a merger):
   a merger whose sources are cursors with a bound, positioned at the start of their range, behaves
   in every next / seek history whose seek targets lie at or after the range start exactly like a
   merger over unbounded cursors on the filtered content; hence (proofs/MergerHistory.v) like a
   cursor over the merged filtered content. *)
From Coq Require Import NArith List Arith Lia Permutation.
From Mtbl Require Import model.Bytes model.Order model.Heap model.Merger spec.MergeSpec proofs.OrderProofs
  proofs.HeapProofs proofs.MergerProofs proofs.MergerClosed proofs.MergerSeek proofs.MergerHistory.
Import ListNotations.

(* ---- sorted lists ------------------------------------------------------------------------------------ *)
Lemma ssorted_cons a l : ssorted l -> (forall b, In b l -> bcmp (fst a) (fst b) = Lt) -> ssorted (a :: l).
Proof.
  intros Hs Hlt i j x y Hij Hi Hj. destruct j as [|j]; [lia|]. cbn [nth_error] in Hj. destruct i as [|i].
  - cbn [nth_error] in Hi. inversion Hi; subst x. apply Hlt. eapply nth_error_In; exact Hj.
  - cbn [nth_error] in Hi. apply (Hs i j x y); [lia|exact Hi|exact Hj].
Qed.
Lemma ssorted_nil : ssorted [].
Proof. intros i j a b _ Hi. destruct i; discriminate. Qed.
Lemma ssorted_filter (f : entry -> bool) : forall l, ssorted l -> ssorted (filter f l).
Proof.
  induction l as [|a l IH]; intros Hs; [exact ssorted_nil|]. destruct (ssorted_cons_inv _ _ Hs) as [Hs' Hlt].
  cbn [filter]. destruct (f a); [|apply IH, Hs']. apply ssorted_cons; [apply IH, Hs'|].
  intros b Hb. apply filter_In in Hb. apply Hlt, (proj1 Hb).
Qed.
Lemma ssorted_skipn : forall n l, ssorted l -> ssorted (skipn n l).
Proof.
  induction n as [|n IH]; intros l Hs; [exact Hs|]. destruct l as [|a l]; [exact Hs|]. cbn [skipn].
  apply IH. exact (proj1 (ssorted_cons_inv _ _ Hs)).
Qed.

Lemma nth_error_of_skipn {A} : forall n (l : list A) x r, skipn n l = x :: r -> nth_error l n = Some x /\ skipn (S n) l = r.
Proof.
  induction n as [|n IH]; intros l x r H.
  - destruct l as [|a l]; [discriminate|]. cbn [skipn] in H. inversion H. split; reflexivity.
  - destruct l as [|a l]; [discriminate|]. cbn [skipn nth_error] in *. apply IH, H.
Qed.
Lemma nth_error_of_skipn_nil {A} n (l : list A) : skipn n l = [] -> nth_error l n = None.
Proof.
  intros H. apply nth_error_None. pose proof (skipn_length n l) as L. rewrite H in L. cbn [length] in L. lia.
Qed.
Lemma filter_comm {A} (f g : A -> bool) l : filter f (filter g l) = filter g (filter f l).
Proof.
  induction l as [|a l IH]; [reflexivity|]. cbn [filter]. destruct (g a) eqn:Eg, (f a) eqn:Ef; cbn [filter]; rewrite ?Eg, ?Ef, IH; reflexivity.
Qed.

(* ---- bounds -------------------------------------------------------------------------------------------- *)
Definition bok (b : sbound) (e : entry) : bool := sbound_ok b (fst e).
(* the range of a bounded cursor: from [lo] on, while the bound holds *)
Definition inr (lo : bytes) (b : sbound) (e : entry) : bool := geb lo e && bok b e.
(* from [lo] on, the bound, once violated, stays violated *)
Definition bound_mono (lo : bytes) (b : sbound) : Prop :=
  forall x y, bcmp lo x <> Gt -> bcmp x y <> Gt -> sbound_ok b y = true -> sbound_ok b x = true.

Lemma bound_mono_all lo : bound_mono lo BAll.
Proof. intros x y _ _ _. reflexivity. Qed.
Lemma bound_mono_get k : bound_mono k (BGet k).
Proof.
  intros x y Hx Hxy Hy. cbn [sbound_ok] in *. unfold beq in *. destruct (bcmp y k) eqn:E; try discriminate.
  apply bcmp_eq in E. subst y. rewrite (bcmp_antisym k x). destruct (bcmp k x) eqn:E1; cbn [CompOpp]; try reflexivity; try congruence.
  apply bcmp_lt_gt in E1. contradiction.
Qed.
Lemma bound_mono_range lo k1 : bound_mono lo (BRange k1).
Proof.
  intros x y _ Hxy Hy. cbn [sbound_ok] in *. unfold ble in *. destruct (bcmp y k1) eqn:E; try discriminate.
  - apply bcmp_eq in E. subst y. destruct (bcmp x k1); congruence.
  - destruct (bcmp x k1) eqn:E1; try reflexivity. exfalso. apply bcmp_lt_gt in E1.
    pose proof (bcmp_lt_trans _ _ _ E E1) as H. apply bcmp_lt_gt in H. contradiction.
Qed.
Lemma is_prefix_between : forall p x y, bcmp p x <> Gt -> bcmp x y <> Gt -> is_prefix p y = true -> is_prefix p x = true.
Proof.
  induction p as [|a p IH]; intros x y Hpx Hxy Hy; [reflexivity|].
  destruct y as [|b y]; [discriminate|]. cbn [is_prefix] in Hy. apply andb_true_iff in Hy. destruct Hy as [Hab Hy].
  apply N.eqb_eq in Hab. subst b. destruct x as [|c x]; [cbn in Hpx; congruence|].
  cbn [bcmp] in Hpx, Hxy. cbn [is_prefix].
  destruct (N.compare_spec a c) as [E|E|E]; [subst c| |congruence].
  - rewrite N.compare_refl in Hxy. rewrite N.eqb_refl. cbn [andb]. apply (IH x y); assumption.
  - exfalso. destruct (N.compare_spec c a) as [E'|E'|E']; [subst c; lia|lia|congruence].
Qed.
Lemma bound_mono_prefix p : bound_mono p (BPrefix p).
Proof. intros x y Hx Hxy Hy. cbn [sbound_ok] in *. exact (is_prefix_between p x y Hx Hxy Hy). Qed.

(* ---- a bounded cursor and its ideal counterpart ---------------------------------------------------- *)
Section Bounded.
Variable lo : bytes.

(* [s]: the cursor of the model, with a bound; [s']: an unbounded cursor over the filtered entries *)
Definition crel (s s' : scur) : Prop :=
  (sc_null s = true /\ s' = s) \/
  (sc_null s = false /\ sc_null s' = false /\ sc_bound s' = BAll /\ bound_mono lo (sc_bound s) /\ ssorted (sc_es s) /\
   sc_es s' = filter (inr lo (sc_bound s)) (sc_es s) /\ sc_valid s' = sc_valid s /\
   (sc_valid s = true ->
    (forall x, In x (skipn (sc_pos s) (sc_es s)) -> bcmp lo (fst x) <> Gt) /\
    skipn (sc_pos s') (sc_es s') = filter (bok (sc_bound s)) (skipn (sc_pos s) (sc_es s)))).

Lemma crel_null s s' : crel s s' -> sc_null s' = sc_null s.
Proof. intros [[_ ->]|(H1 & H2 & _)]; [reflexivity|congruence]. Qed.

Lemma crel_next s s' : crel s s' -> crel (fst (sc_next s)) (fst (sc_next s')) /\ snd (sc_next s') = snd (sc_next s).
Proof.
  intros [[Hn ->]|(Hn & Hn' & Hb' & Hmono & Hs & Hes & Hv & Hpos)].
  { unfold sc_next. rewrite Hn. cbn [orb fst snd]. split; [left; split; [exact Hn|reflexivity]|reflexivity]. }
  unfold sc_next. rewrite Hn, Hn', Hv. cbn [orb]. destruct (sc_valid s) eqn:Eval; cbn [negb fst snd].
  2:{ split; [|reflexivity]. right. rewrite Eval. do 7 (split; [solve [assumption|reflexivity]|]). discriminate. }
  destruct (Hpos eq_refl) as [Hlo Hsk]. rewrite Hb'.
  destruct (nth_error (sc_es s) (sc_pos s)) as [[k v]|] eqn:En.
  - rewrite (skipn_nth_error _ _ _ En) in Hsk, Hlo. cbn [filter] in Hsk. unfold bok at 1 in Hsk. cbn [fst] in Hsk.
    destruct (sbound_ok (sc_bound s) k) eqn:Ek.
    + destruct (nth_error_of_skipn _ _ _ _ Hsk) as [En' Hsk']. rewrite En'. cbn [sbound_ok fst snd]. split; [|reflexivity].
      right. cbn [sc_null sc_bound sc_es sc_valid sc_pos]. do 7 (split; [solve [assumption|reflexivity]|]).
      intros _. split; [|exact Hsk']. intros x Hx. apply Hlo. right. exact Hx.
    + (* the bound is passed: nothing further is in range *)
      assert (Hnone : filter (bok (sc_bound s)) (skipn (S (sc_pos s)) (sc_es s)) = []).
      { apply filter_false_all. intros y Hy. unfold bok. destruct (sbound_ok (sc_bound s) (fst y)) eqn:Ey; [|reflexivity].
        pose proof (ssorted_skipn (sc_pos s) _ Hs) as Hss. rewrite (skipn_nth_error _ _ _ En) in Hss.
        destruct (ssorted_cons_inv _ _ Hss) as [_ Hlt]. specialize (Hlt y Hy). cbn [fst] in Hlt.
        assert (Hk : sbound_ok (sc_bound s) k = true).
        { apply (Hmono k (fst y)); [exact (Hlo (k, v) (or_introl eq_refl))|rewrite Hlt; discriminate|exact Ey]. }
        congruence. }
      rewrite Hnone in Hsk. rewrite (nth_error_of_skipn_nil _ _ Hsk). cbn [fst snd]. split; [|reflexivity].
      right. cbn [sc_null sc_bound sc_es sc_valid sc_pos]. do 7 (split; [solve [assumption|reflexivity]|]). discriminate.
  - rewrite (skipn_nth_error_none _ _ En) in Hsk. cbn [filter] in Hsk. rewrite (nth_error_of_skipn_nil _ _ Hsk). cbn [fst snd].
    split; [|reflexivity]. right. cbn [sc_null sc_bound sc_es sc_valid sc_pos]. do 7 (split; [solve [assumption|reflexivity]|]). discriminate.
Qed.

Lemma crel_seek s s' t : bcmp lo t <> Gt -> crel s s' ->
  crel (fst (sc_seek s t)) (fst (sc_seek s' t)) /\ snd (sc_seek s' t) = snd (sc_seek s t).
Proof.
  intros Ht [[Hn ->]|(Hn & Hn' & Hb' & Hmono & Hs & Hes & Hv & Hpos)].
  { unfold sc_seek. rewrite Hn. cbn [fst snd]. split; [left; split; [exact Hn|reflexivity]|reflexivity]. }
  unfold sc_seek. rewrite Hn, Hn'. cbn [fst snd]. split; [|reflexivity]. right.
  cbn [sc_null sc_bound sc_es sc_valid sc_pos]. do 7 (split; [solve [assumption|reflexivity]|]). intros _. split.
  - intros x Hx. rewrite (skipn_first_ge _ t Hs) in Hx. apply filter_In in Hx. destruct Hx as [_ Hx]. apply geb_true in Hx.
    eapply bcmp_le_trans; eassumption.
  - rewrite (skipn_first_ge _ t Hs). rewrite skipn_first_ge by (rewrite Hes; apply ssorted_filter, Hs).
    rewrite Hes, filter_comm. apply filter_ext_in. intros x Hx. apply filter_In in Hx. destruct Hx as [_ Hx]. apply geb_true in Hx.
    unfold inr. assert (Hg : geb lo x = true) by (apply geb_true; eapply bcmp_le_trans; eassumption). rewrite Hg. reflexivity.
Qed.

(* ---- lists of cursors ---------------------------------------------------------------------------------- *)
Definition lrel (a b : list scur) : Prop := Forall2 crel a b.

Lemma lrel_get a b i : lrel a b -> crel (get_src a i) (get_src b i).
Proof.
  intros H. revert i. induction H as [|x y a b Hxy _ IH]; intros i.
  - unfold get_src. destruct i; left; split; reflexivity.
  - destruct i; [exact Hxy|]. unfold get_src in *. cbn [nth]. apply IH.
Qed.
Lemma lrel_set a b i x y : lrel a b -> crel x y -> lrel (set_src a i x) (set_src b i y).
Proof.
  intros H Hxy. revert i. induction H as [|x0 y0 a b H0 Hab IH]; intros i; [destruct i; constructor|].
  destruct i; cbn [set_src]; constructor; try assumption. apply IH.
Qed.
Lemma lrel_length a b : lrel a b -> length b = length a.
Proof. induction 1 as [|x y a b _ _ IH]; [reflexivity|]. cbn [length]. rewrite IH. reflexivity. Qed.
Lemma lrel_total a b : lrel a b -> total_es b <= total_es a.
Proof.
  induction 1 as [|x y a b Hxy _ IH]; [cbn; lia|]. cbn [total_es fold_right]. fold (total_es a). fold (total_es b).
  assert (length (sc_es y) <= length (sc_es x)); [|lia].
  destruct Hxy as [[_ ->]|(_ & _ & _ & _ & _ & Hes & _)]; [lia|]. rewrite Hes. apply filter_len_le.
Qed.

Lemma fill_rel a b i : lrel a b -> lrel (fst (fill a i)) (fst (fill b i)) /\ snd (fill b i) = snd (fill a i).
Proof.
  intros H. unfold fill. destruct (crel_next _ _ (lrel_get a b i H)) as [Hc He].
  destruct (sc_next (get_src a i)) as [sa ea], (sc_next (get_src b i)) as [sb eb]. cbn [fst snd] in *.
  split; [apply lrel_set; assumption|exact He].
Qed.

(* ---- the merger functions respect the relation ------------------------------------------------------ *)
Definition itrel (ita itb : miter) : Prop :=
  lrel (mi_srcs ita) (mi_srcs itb) /\ mi_heap itb = mi_heap ita /\ mi_entries itb = mi_entries ita /\
  mi_cur_key itb = mi_cur_key ita /\ mi_cur_val itb = mi_cur_val ita /\ mi_finished itb = mi_finished ita /\
  mi_pending itb = mi_pending ita.

Lemma itrel_mk a b h e ck cv fin pd : lrel a b -> itrel (mkmi a h e ck cv fin pd) (mkmi b h e ck cv fin pd).
Proof. intros H. unfold itrel. cbn. repeat split; try reflexivity. exact H. Qed.

Lemma add_entries_rel : forall ids a b heap ents, lrel a b ->
  let '(a', ha, ea) := add_entries None a ids heap ents in
  let '(b', hb, eb) := add_entries None b ids heap ents in
  lrel a' b' /\ hb = ha /\ eb = ea.
Proof.
  induction ids as [|i ids IH]; intros a b heap ents H; cbn [add_entries].
  - split; [exact H|split; reflexivity].
  - destruct (fill_rel a b i H) as [Hl He]. destruct (fill a i) as [a1 e1], (fill b i) as [b1 e2]. cbn [fst snd] in *. subst e2.
    destruct e1 as [[k v]|]; apply IH; exact Hl.
Qed.

Lemma make_rel a b sn : lrel a b ->
  match merger_iter_make None a sn, merger_iter_make None b sn with
  | Some ita, Some itb => itrel ita itb
  | None, None => True
  | _, _ => False
  end.
Proof.
  intros H. unfold merger_iter_make. rewrite (lrel_length a b H).
  assert (Hf : forall l, filter (fun i => negb (sn && sc_null (get_src b i))) l = filter (fun i => negb (sn && sc_null (get_src a i))) l).
  { intros l. apply filter_ext. intros i. rewrite (crel_null _ _ (lrel_get a b i H)). reflexivity. }
  rewrite Hf. pose proof (add_entries_rel (filter (fun i => negb (sn && sc_null (get_src a i))) (seq 0 (length a))) a b [] [] H) as Hae.
  destruct (add_entries None a _ [] []) as [[a' ha] ea]. destruct (add_entries None b _ [] []) as [[b' hb] eb].
  destruct Hae as (Hl & -> & ->). destruct (sn && match ea with [] => true | _ :: _ => false end); [exact I|].
  apply itrel_mk, Hl.
Qed.

Lemma refill_root_rel a b h : lrel a b ->
  lrel (fst (refill_root None a h)) (fst (refill_root None b h)) /\ snd (refill_root None b h) = snd (refill_root None a h).
Proof.
  intros H. unfold refill_root. destruct h as [|e t]; [split; [exact H|reflexivity]|].
  destruct (fill_rel a b (he_src e) H) as [Hl He]. destruct (fill a (he_src e)) as [a1 e1], (fill b (he_src e)) as [b1 e2].
  cbn [fst snd] in *. subst e2. destruct e1 as [[k v]|]; split; try exact Hl; reflexivity.
Qed.

Lemma next_loop_rel mfo : forall f a b h e ck cv fin pd, lrel a b ->
  let '(ia, oa) := next_loop mfo None f (mkmi a h e ck cv fin pd) in
  let '(ib, ob) := next_loop mfo None f (mkmi b h e ck cv fin pd) in
  itrel ia ib /\ ob = oa.
Proof.
  induction f as [|f IH]; intros a b h e ck cv fin pd H; cbn [next_loop mi_srcs mi_heap mi_entries mi_cur_key mi_cur_val mi_finished mi_pending].
  { split; [apply itrel_mk, H|reflexivity]. }
  destruct (pop_finished None (S (length h)) h) as [|r t]; [split; [apply itrel_mk, H|reflexivity]|].
  assert (Hrec : forall ck' cv',
            let '(ia, oa) := (let '(srcs', heap') := refill_root None a (r :: t) in next_loop mfo None f (mkmi srcs' heap' e ck' cv' fin true)) in
            let '(ib, ob) := (let '(srcs', heap') := refill_root None b (r :: t) in next_loop mfo None f (mkmi srcs' heap' e ck' cv' fin true)) in
            itrel ia ib /\ ob = oa).
  { intros ck' cv'. destruct (refill_root_rel a b (r :: t) H) as [Hl Hh].
    destruct (refill_root None a (r :: t)) as [a1 h1], (refill_root None b (r :: t)) as [b1 h2]. cbn [fst snd] in *. subst h2.
    apply IH, Hl. }
  destruct (negb pd); [apply Hrec|]. destruct mfo as [mf|]; [|split; [apply itrel_mk, H|reflexivity]].
  destruct (beq ck (he_key r)); [|split; [apply itrel_mk, H|reflexivity]].
  destruct (mf ck cv (he_val r)) as [merged|]; [apply Hrec|split; [apply itrel_mk, H|reflexivity]].
Qed.

Lemma reseek_all_rel t : bcmp lo t <> Gt -> forall ids a b heap, lrel a b ->
  lrel (fst (reseek_all a ids t heap)) (fst (reseek_all b ids t heap)) /\
  snd (reseek_all b ids t heap) = snd (reseek_all a ids t heap).
Proof.
  intros Ht. induction ids as [|i ids IH]; intros a b heap H; cbn [reseek_all]; [split; [exact H|reflexivity]|].
  destruct (crel_seek _ _ t Ht (lrel_get a b i H)) as [Hc Hok].
  destruct (sc_seek (get_src a i) t) as [sa oka], (sc_seek (get_src b i) t) as [sb okb]. cbn [fst snd] in *. subst okb.
  pose proof (lrel_set a b i sa sb H Hc) as H1. destruct (negb oka); [apply IH, H1|].
  destruct (fill_rel _ _ i H1) as [Hl He]. destruct (fill (set_src a i sa) i) as [a2 e1], (fill (set_src b i sb) i) as [b2 e2].
  cbn [fst snd] in *. subst e2. destruct e1 as [[k v]|]; apply IH, Hl.
Qed.

Lemma forward_loop_rel t : bcmp lo t <> Gt -> forall f a b heap ch fin, lrel a b ->
  let '(a', ha, ca, fa) := forward_loop None f a heap t ch fin in
  let '(b', hb, cb, fb) := forward_loop None f b heap t ch fin in
  lrel a' b' /\ hb = ha /\ cb = ca /\ fb = fa.
Proof.
  intros Ht. induction f as [|f IH]; intros a b heap ch fin H; cbn [forward_loop]; [repeat split; try reflexivity; exact H|].
  destruct heap as [|e h]; [repeat split; try reflexivity; exact H|].
  destruct (bcmp t (he_key e)); try (repeat split; try reflexivity; exact H).
  destruct (crel_seek _ _ t Ht (lrel_get a b (he_src e) H)) as [Hc Hok].
  destruct (sc_seek (get_src a (he_src e)) t) as [sa oka], (sc_seek (get_src b (he_src e)) t) as [sb okb]. cbn [fst snd] in *. subst okb.
  pose proof (lrel_set a b (he_src e) sa sb H Hc) as H1.
  assert (H2 : let '(a2, ra) := (if oka then fill (set_src a (he_src e) sa) (he_src e) else (set_src a (he_src e) sa, None)) in
               let '(b2, rb) := (if oka then fill (set_src b (he_src e) sb) (he_src e) else (set_src b (he_src e) sb, None)) in
               lrel a2 b2 /\ rb = ra).
  { destruct oka; [|split; [exact H1|reflexivity]].
    destruct (fill_rel _ _ (he_src e) H1) as [Hl He]. destruct (fill (set_src a (he_src e) sa) (he_src e)) as [a2 e1], (fill (set_src b (he_src e) sb) (he_src e)) as [b2 e2].
    cbn [fst snd] in *. split; assumption. }
  destruct (if oka then fill (set_src a (he_src e) sa) (he_src e) else (set_src a (he_src e) sa, None)) as [a2 ra].
  destruct (if oka then fill (set_src b (he_src e) sb) (he_src e) else (set_src b (he_src e) sb, None)) as [b2 rb].
  destruct H2 as [Hl ->]. destruct ra as [[k v]|]; [apply IH, Hl|].
  destruct (heap_pop hent (mcmp None) dummy_he (e :: h)); [repeat split; try reflexivity; exact Hl|apply IH, Hl].
Qed.

Lemma merger_seek_rel t ita itb : bcmp lo t <> Gt -> itrel ita itb -> itrel (merger_seek None ita t) (merger_seek None itb t).
Proof.
  intros Ht (Hl & Hh & He & Hck & Hcv & Hfin & Hpd). unfold merger_seek. rewrite Hh, He, Hck, Hcv.
  destruct (match mi_heap ita with
            | [] => true
            | _ :: _ => (len (mi_cur_key ita) =? 0)%N || match bcmp t (mi_cur_key ita) with Gt => false | _ => true end
            end).
  - destruct (reseek_all_rel t Ht (mi_entries ita) _ _ [] Hl) as [Hl' Hh'].
    destruct (reseek_all (mi_srcs ita) (mi_entries ita) t []) as [a' ha], (reseek_all (mi_srcs itb) (mi_entries ita) t []) as [b' hb].
    cbn [fst snd] in *. subst hb. apply itrel_mk, Hl'.
  - pose proof (forward_loop_rel t Ht (S (length (mi_heap ita))) _ _ (mi_heap ita) false false Hl) as Hfw.
    destruct (forward_loop None (S (length (mi_heap ita))) (mi_srcs ita) (mi_heap ita) t false false) as [[[a' ha] ca] fa].
    destruct (forward_loop None (S (length (mi_heap ita))) (mi_srcs itb) (mi_heap ita) t false false) as [[[b' hb] cb] fb].
    destruct Hfw as (Hl' & -> & -> & ->). destruct ca; apply itrel_mk, Hl'.
Qed.

(* ---- merger_next: the fuel differs on the two sides ---------------------------------------------- *)
Lemma next_loop_fuel mf : forall f d it,
  inv hk (mi_srcs it) (mi_heap it) -> length (rem (mi_srcs it) (mi_heap it)) + length (mi_heap it) < f ->
  next_loop (Some mf) None f it = next_loop (Some mf) None (f + d) it.
Proof.
  induction f as [|f IH]; intros d it Hinv Hlt; [lia|]. cbn [Nat.add next_loop].
  destruct (pop_finished_spec hk K_push K_pop K_replace K_min K_mark (mi_srcs it) (mi_heap it) (length (mi_heap it)) Hinv)
    as (Hinv1 & Hnf1 & Hperm1 & Hlen1).
  set (heap1 := pop_finished None (S (length (mi_heap it))) (mi_heap it)) in *.
  destruct heap1 as [|e t] eqn:Eh; [reflexivity|].
  assert (Hrec : forall ck cv,
            (let '(srcs', heap') := refill_root None (mi_srcs it) (e :: t) in
             next_loop (Some mf) None f (mkmi srcs' heap' (mi_entries it) ck cv (mi_finished it) true)) =
            (let '(srcs', heap') := refill_root None (mi_srcs it) (e :: t) in
             next_loop (Some mf) None (f + d) (mkmi srcs' heap' (mi_entries it) ck cv (mi_finished it) true))).
  { intros ck cv. pose proof (refill_root_spec mf hk K_push K_pop K_replace K_min K_mark (mi_srcs it) e t Hinv1 Hnf1) as Hrf.
    destruct (refill_root None (mi_srcs it) (e :: t)) as [srcs' heap']. destruct Hrf as (Hinv2 & Hperm2 & Hlen2 & _).
    apply IH; cbn [mi_srcs mi_heap]; [exact Hinv2|].
    pose proof (Permutation_length Hperm2) as L2. pose proof (Permutation_length Hperm1) as L1.
    cbn [length] in L2, Hlen2, Hlen1. unfold entry in *. lia. }
  destruct (negb (mi_pending it)); [apply Hrec|].
  destruct (beq (mi_cur_key it) (he_key e)); [|reflexivity].
  destruct (mf (mi_cur_key it) (mi_cur_val it) (he_val e)); [apply Hrec|reflexivity].
Qed.

Lemma merger_next_rel mf ita itb : itrel ita itb -> api itb ->
  let '(ia, ra) := merger_next (Some mf) None ita in
  let '(ib, rb) := merger_next (Some mf) None itb in
  itrel ia ib /\ rb = ra.
Proof.
  intros Hrel (Hinv & Hnf & Hpend & Hfinb & Hbound). pose proof Hrel as (Hl & Hh & He & Hck & Hcv & Hfin & Hpd).
  unfold merger_next. rewrite Hfin. destruct (mi_finished ita) eqn:Ef; [split; [exact Hrel|reflexivity]|].
  rewrite Hh, He.
  change (total_remaining ita) with (total_es (mi_srcs ita)). change (total_remaining itb) with (total_es (mi_srcs itb)).
  rewrite (lrel_length _ _ Hl). pose proof (lrel_total _ _ Hl) as Htot.
  set (fb := S (S (total_es (mi_srcs itb) + 2 * length (mi_srcs ita)))).
  set (fa := S (S (total_es (mi_srcs ita) + 2 * length (mi_srcs ita)))).
  assert (Hfa : fa = fb + (fa - fb)) by (unfold fa, fb; lia).
  rewrite (next_loop_fuel mf fb (fa - fb) (mkmi (mi_srcs itb) (mi_heap ita) (mi_entries ita) [] [] false false)).
  2:{ cbn [mi_srcs mi_heap]. rewrite <- Hh. exact Hinv. }
  2:{ cbn [mi_srcs mi_heap]. rewrite <- Hh. rewrite (lrel_length _ _ Hl) in Hbound. unfold fb. lia. }
  rewrite <- Hfa.
  pose proof (next_loop_rel (Some mf) fa (mi_srcs ita) (mi_srcs itb) (mi_heap ita) (mi_entries ita) [] [] false false Hl) as Hnl.
  destruct (next_loop (Some mf) None fa (mkmi (mi_srcs ita) (mi_heap ita) (mi_entries ita) [] [] false false)) as [ia oa].
  destruct (next_loop (Some mf) None fa (mkmi (mi_srcs itb) (mi_heap ita) (mi_entries ita) [] [] false false)) as [ib ob].
  destruct Hnl as [Hrel1 ->]. pose proof Hrel1 as (Hl1 & Hh1 & He1 & Hck1 & Hcv1 & Hfin1 & Hpd1).
  destruct oa; cbn [negb]; [|split; [exact Hrel1|reflexivity]].
  rewrite Hpd1. destruct (mi_pending ia); [|split; [exact Hrel1|reflexivity]].
  rewrite Hh1, He1, Hck1, Hcv1, Hfin1. split; [apply itrel_mk, Hl1|reflexivity].
Qed.

(* ---- histories -------------------------------------------------------------------------------------------- *)
Definition seek_from (op : mop) : Prop := match op with MSeek t => bcmp lo t <> Gt | MNext => True end.

Lemma mrun_rel mf : (forall k a b, mf k a b <> None) -> forall ops ita itb, itrel ita itb -> sinv itb -> Forall seek_from ops ->
  mrun (Some mf) ita ops = mrun (Some mf) itb ops.
Proof.
  intros Htot. induction ops as [|[|t] ops IH]; intros ita itb Hrel Hs Hops; [reflexivity| |].
  - inversion Hops as [|? ? _ Hops']; subst. cbn [mrun].
    pose proof (merger_next_rel mf ita itb Hrel (proj1 Hs)) as Hn. pose proof (merger_next_sinv mf itb Hs) as Hsi.
    destruct (merger_next (Some mf) None ita) as [ia ra], (merger_next (Some mf) None itb) as [ib rb].
    destruct Hn as [Hrel' ->]. f_equal. apply IH; [exact Hrel'| |exact Hops'].
    destruct ra as [[k v]|]; [exact (proj1 Hsi)|].
    destruct Hsi as [(_ & Hs' & _)|(k & first & rest & v0 & others & _ & _ & Hfail)]; [exact Hs'|].
    exfalso. exact (fold_merge_total mf k (Htot k) _ _ Hfail).
  - inversion Hops as [|? ? Ht Hops']; subst. cbn [mrun]. f_equal. apply IH; [|exact (proj1 (merger_seek_spec itb t Hs))|exact Hops'].
    apply merger_seek_rel; assumption.
Qed.

Lemma make_skip_null srcs : (forall s, In s srcs -> sc_null s = false) ->
  merger_iter_make None srcs true =
  match merger_iter_make None srcs false with
  | Some it => match mi_entries it with [] => None | _ => Some it end
  | None => None
  end.
Proof.
  intros Hnn. unfold merger_iter_make.
  assert (Hf : filter (fun i => negb (true && sc_null (get_src srcs i))) (seq 0 (length srcs)) =
               filter (fun i => negb (false && sc_null (get_src srcs i))) (seq 0 (length srcs))).
  { apply filter_ext_in. intros i Hi. apply in_seq in Hi. rewrite (Hnn (get_src srcs i)); [reflexivity|]. unfold get_src. apply nth_In. lia. }
  rewrite Hf. destruct (add_entries None srcs _ [] []) as [[srcs' heap] ents]. cbn [andb mi_entries]. destruct ents; reflexivity.
Qed.

(* the cursors of the model (bound, positioned at the first key >= lo) and their ideal counterparts *)
Definition real_cur (p : list entry * sbound) : scur := mksc (fst p) (first_ge_from (fst p) lo 0) true (snd p) false.
Definition in_range (p : list entry * sbound) : list entry := filter (inr lo (snd p)) (fst p).

Lemma real_ideal_rel p : ssorted (fst p) -> bound_mono lo (snd p) -> crel (real_cur p) (mksc (in_range p) 0 true BAll false).
Proof.
  intros Hs Hm. right. unfold real_cur, in_range. cbn [sc_null sc_bound sc_es sc_valid sc_pos].
  do 7 (split; [solve [assumption|reflexivity]|]). intros _. rewrite (skipn_first_ge _ lo Hs). split.
  - intros x Hx. apply filter_In in Hx. apply geb_true, (proj2 Hx).
  - cbn [skipn]. unfold inr. clear. induction (fst p) as [|a l IH]; [reflexivity|]. cbn [filter].
    destruct (geb lo a); cbn [andb filter]; [destruct (bok (snd p) a); rewrite IH; reflexivity|exact IH].
Qed.

Theorem merger_history_bounded mf (srcs : list (list entry * sbound)) ops sn :
  Forall (fun p => ssorted (fst p) /\ bound_mono lo (snd p)) srcs -> (forall k a b, mf k a b <> None) -> Forall seek_from ops ->
  let content := map in_range srcs in
  match merger_iter_make None (map real_cur srcs) sn with
  | Some it =>
    map (option_map fst) (mrun (Some mf) it ops) = krun (all_keys content) (Some 0) ops /\
    forall k v, In (Some (k, v)) (mrun (Some mf) it ops) -> merged_value_ok mf content k v
  | None => sn = true /\ all_keys content = []
  end.
Proof.
  intros Hsrcs Htot Hops. cbn zeta. set (content := map in_range srcs).
  set (ideal := map (fun es => mksc es 0 true BAll false) content).
  assert (Hl : lrel (map real_cur srcs) ideal).
  { unfold ideal, content. clear -Hsrcs. induction Hsrcs as [|p l [Hs Hm] _ IH]; [constructor|]. cbn [map]. constructor; [|exact IH].
    apply real_ideal_rel; assumption. }
  assert (Hsorted : Forall ssorted content).
  { unfold content. apply Forall_forall. intros es Hes. apply in_map_iff in Hes. destruct Hes as (p & <- & Hp).
    rewrite Forall_forall in Hsrcs. apply ssorted_filter, (proj1 (Hsrcs p Hp)). }
  destruct (R_init content Hsorted) as (itb & Hmk & HR). fold ideal in Hmk.
  assert (Hcommon : forall ita, itrel ita itb ->
            map (option_map fst) (mrun (Some mf) ita ops) = krun (all_keys content) (Some 0) ops /\
            forall k v, In (Some (k, v)) (mrun (Some mf) ita ops) -> merged_value_ok mf content k v).
  { intros ita Hrel. rewrite (mrun_rel mf Htot ops ita itb Hrel (proj1 HR) Hops). exact (R_run mf Htot content ops itb _ HR). }
  pose proof (make_rel _ _ sn Hl) as Hmr. destruct sn.
  - rewrite (make_skip_null ideal) in Hmr.
    2:{ intros s Hs. unfold ideal in Hs. apply in_map_iff in Hs. destruct Hs as (es & <- & _). reflexivity. }
    rewrite Hmk in Hmr. destruct (mi_entries itb) eqn:Ee.
    + destruct (merger_iter_make None (map real_cur srcs) true); [contradiction|]. split; [reflexivity|].
      destruct HR as (_ & Hall & _). unfold allof, regs in Hall. rewrite Ee in Hall. cbn [map concat] in Hall.
      apply Permutation_nil in Hall. unfold all_keys. rewrite Hall. reflexivity.
    + destruct (merger_iter_make None (map real_cur srcs) true) as [ita|]; [|contradiction]. apply Hcommon, Hmr.
  - rewrite Hmk in Hmr. destruct (merger_iter_make None (map real_cur srcs) false) as [ita|]; [|contradiction]. apply Hcommon, Hmr.
Qed.
End Bounded.

(* ---- the three bounded iterator kinds of mtbl ---------------------------------------------------------- *)
Lemma is_prefix_ge : forall p x, is_prefix p x = true -> bcmp p x <> Gt.
Proof.
  induction p as [|a p IH]; intros x H; [destruct x; discriminate|].
  destruct x as [|b x]; [discriminate|]. cbn [is_prefix] in H. apply andb_true_iff in H. destruct H as [Hab H].
  apply N.eqb_eq in Hab. subst b. cbn [bcmp]. rewrite N.compare_refl. apply IH, H.
Qed.
Lemma inr_get k e : inr k (BGet k) e = beq (fst e) k.
Proof.
  unfold inr, bok. cbn [sbound_ok]. destruct (beq (fst e) k) eqn:E; [|apply andb_false_r].
  unfold beq in E. destruct (bcmp (fst e) k) eqn:E1; try discriminate. apply bcmp_eq in E1.
  unfold geb, blt. rewrite E1, bcmp_refl. reflexivity.
Qed.
Lemma inr_prefix p e : inr p (BPrefix p) e = is_prefix p (fst e).
Proof.
  unfold inr, bok. cbn [sbound_ok]. destruct (is_prefix p (fst e)) eqn:E; [|apply andb_false_r].
  rewrite (proj2 (geb_true p e) (is_prefix_ge p (fst e) E)). reflexivity.
Qed.

Lemma bounded_uniform mf lo b (f : entry -> bool) (srcs : list (list entry)) ops sn :
  (forall e, inr lo b e = f e) -> bound_mono lo b ->
  Forall ssorted srcs -> (forall k a b, mf k a b <> None) -> Forall (seek_from lo) ops ->
  let content := map (filter f) srcs in
  match merger_iter_make None (map (fun es => mksc es (first_ge_from es lo 0) true b false) srcs) sn with
  | Some it =>
    map (option_map fst) (mrun (Some mf) it ops) = krun (all_keys content) (Some 0) ops /\
    forall k v, In (Some (k, v)) (mrun (Some mf) it ops) -> merged_value_ok mf content k v
  | None => sn = true /\ all_keys content = []
  end.
Proof.
  intros Hf Hm Hs Htot Hops.
  assert (Hsrcs : Forall (fun p => ssorted (fst p) /\ bound_mono lo (snd p)) (map (fun es => (es, b)) srcs)).
  { apply Forall_forall. intros p Hp. apply in_map_iff in Hp. destruct Hp as (es & <- & Hes). cbn [fst snd].
    rewrite Forall_forall in Hs. split; [apply Hs, Hes|exact Hm]. }
  pose proof (merger_history_bounded lo mf (map (fun es => (es, b)) srcs) ops sn Hsrcs Htot Hops) as H. cbn zeta in H.
  rewrite !map_map in H.
  assert (E1 : map (fun x => in_range lo (x, b)) srcs = map (filter f) srcs).
  { apply map_ext. intros es. unfold in_range. cbn [fst snd]. apply filter_ext. exact Hf. }
  rewrite E1 in H. exact H.
Qed.

(* mtbl_source_get on a merger *)
Theorem merger_get_history mf key (srcs : list (list entry)) ops sn :
  Forall ssorted srcs -> (forall k a b, mf k a b <> None) -> Forall (seek_from key) ops ->
  let content := map (filter (fun e => beq (fst e) key)) srcs in
  match merger_iter_make None (map (fun es => mksc es (first_ge_from es key 0) true (BGet key) false) srcs) sn with
  | Some it =>
    map (option_map fst) (mrun (Some mf) it ops) = krun (all_keys content) (Some 0) ops /\
    forall k v, In (Some (k, v)) (mrun (Some mf) it ops) -> merged_value_ok mf content k v
  | None => sn = true /\ all_keys content = []
  end.
Proof. apply bounded_uniform; [apply inr_get|apply bound_mono_get]. Qed.

(* mtbl_source_get_prefix on a merger *)
Theorem merger_get_prefix_history mf prefix (srcs : list (list entry)) ops sn :
  Forall ssorted srcs -> (forall k a b, mf k a b <> None) -> Forall (seek_from prefix) ops ->
  let content := map (filter (fun e => is_prefix prefix (fst e))) srcs in
  match merger_iter_make None (map (fun es => mksc es (first_ge_from es prefix 0) true (BPrefix prefix) false) srcs) sn with
  | Some it =>
    map (option_map fst) (mrun (Some mf) it ops) = krun (all_keys content) (Some 0) ops /\
    forall k v, In (Some (k, v)) (mrun (Some mf) it ops) -> merged_value_ok mf content k v
  | None => sn = true /\ all_keys content = []
  end.
Proof. apply bounded_uniform; [apply inr_prefix|apply bound_mono_prefix]. Qed.

(* mtbl_source_get_range on a merger *)
Theorem merger_get_range_history mf k0 k1 (srcs : list (list entry)) ops sn :
  Forall ssorted srcs -> (forall k a b, mf k a b <> None) -> Forall (seek_from k0) ops ->
  let content := map (filter (fun e => negb (blt (fst e) k0) && ble (fst e) k1)) srcs in
  match merger_iter_make None (map (fun es => mksc es (first_ge_from es k0 0) true (BRange k1) false) srcs) sn with
  | Some it =>
    map (option_map fst) (mrun (Some mf) it ops) = krun (all_keys content) (Some 0) ops /\
    forall k v, In (Some (k, v)) (mrun (Some mf) it ops) -> merged_value_ok mf content k v
  | None => sn = true /\ all_keys content = []
  end.
Proof. apply bounded_uniform; [intros e; reflexivity|apply bound_mono_range]. Qed.

(* the restriction on the seek targets is needed: a seek to a key before the range start of a
   bounded iterator ends the iteration at the first key outside the bound, although entries
   in range follow (here: prefix [3], seek to [2;9], the source holds [2;9;1] and [3]) *)
Example seek_before_range_start :
  let srcs := [[([2; 9; 1], [0]); ([3], [1])]]%N in
  let ops := [MSeek [2; 9]%N; MNext] in
  match merger_iter_make None (map (fun es => mksc es (first_ge_from es [3]%N 0) true (BPrefix [3]%N) false) srcs) true with
  | Some it => map (option_map fst) (mrun (Some (fun _ a _ => Some a)) it ops) = [None; None] /\
               krun (all_keys (map (filter (fun e => is_prefix [3]%N (fst e))) srcs)) (Some 0) ops = [None; Some [3]%N]
  | None => False
  end.
Proof. vm_compute. split; reflexivity. Qed.

Print Assumptions merger_history_bounded.
Print Assumptions merger_get_history.
Print Assumptions merger_get_prefix_history.
Print Assumptions merger_get_range_history.
