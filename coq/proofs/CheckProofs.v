(* Soundness of the executable table check (spec/TableCheck.v): whatever file passes
   [table_check] satisfies table_ok, so every theorem of ReaderProofs applies to it. *)
From Coq Require Import NArith ZArith List Lia ZifyBool ZifyN ZifyNat.
From Mtbl Require Import gen.Consts model.Bytes model.Codec model.Order spec.Parse model.Reader
  spec.TableCheck
  proofs.BytesLemmas proofs.OrderProofs proofs.BlockProofs proofs.LookupProofs proofs.ReaderProofs.
Local Open Scope N_scope.

Lemma chain_pairs {A} (R : A -> A -> Prop) (rb : A -> A -> bool) (d : A) :
  (forall a b, rb a b = true -> R a b) -> (forall a b c, R a b -> R b c -> R a c) ->
  forall l, chainb rb l = true -> forall i j, (i < j < length l)%nat -> R (nth i l d) (nth j l d).
Proof.
  intros Hrb Htr. induction l as [|a l IH]; intros Hc i j Hij; [cbn in Hij; lia|].
  destruct l as [|b l]; [cbn in Hij; lia|].
  cbn [chainb] in Hc. apply andb_prop in Hc. destruct Hc as [Hab Hc]. specialize (IH Hc).
  destruct j as [|j]; [lia|]. destruct i as [|i].
  - cbn [nth]. destruct j as [|j]; [cbn; apply Hrb, Hab|].
    apply (Htr _ b); [apply Hrb, Hab|]. apply (IH 0%nat (S j)). cbn [length] in *. lia.
  - change (R (nth i (b :: l) d) (nth j (b :: l) d)). apply IH. cbn [length] in *. lia.
Qed.

Lemma wfb_check_sound b ridx : wfb_check b ridx = true -> wfb b ridx.
Proof.
  unfold wfb_check. intros H.
  apply andb_prop in H; destruct H as [H H8]. apply andb_prop in H; destruct H as [H H7].
  apply andb_prop in H; destruct H as [H H6]. apply andb_prop in H; destruct H as [H H5].
  apply andb_prop in H; destruct H as [H H4]. apply andb_prop in H; destruct H as [H H3].
  apply andb_prop in H; destruct H as [H H2].
  constructor.
  - lia.
  - intros i j Hij. unfold off_at, entry_at.
    apply (chain_pairs (fun x y => pe_off x < pe_off y) (fun x y => pe_off x <? pe_off y) dummy_pe); try assumption.
    + intros a c Hac. lia.
    + intros a c e; lia.
  - intros i j Hij. unfold key_at, entry_at.
    apply (chain_pairs (fun x y => bcmp (pe_key x) (pe_key y) = Lt) (fun x y => blt (pe_key x) (pe_key y)) dummy_pe); try assumption.
    + intros a c Hac. unfold blt in Hac. destruct (bcmp (pe_key a) (pe_key c)); congruence.
    + intros a c e. apply bcmp_lt_trans.
  - lia.
  - lia.
  - intros i Hi. rewrite forallb_forall in H6. specialize (H6 i ltac:(apply in_seq; lia)).
    apply andb_prop in H6. destruct H6 as [H6 Hs]. apply andb_prop in H6. destruct H6 as [Hr Hl].
    repeat split; lia.
  - intros i j Hij. apply (chain_pairs lt Nat.ltb 0%nat); try assumption; intros; lia.
  - lia.
Qed.

(* ---- the whole table --------------------------------------------------------------------- *)
Section Table.
Variable decompress : N -> bytes -> res bytes.
Local Notation load_blocks := (TableCheck.load_blocks decompress).
Local Notation table_check := (TableCheck.table_check decompress).

Lemma load_blocks_spec r : forall ies bl, load_blocks r ies = Some bl ->
  length bl = length ies /\
  forall i, (i < length ies)%nat ->
    get_block decompress r (match varint_decode64 (pe_val (nth i ies dummy_pe)) with Ok (v, _) => v | _ => 0 end)
      = Ok (blk bl i) /\ wfb (blk bl i) (rdx bl i).
Proof.
  induction ies as [|ie ies IH]; intros bl H; cbn [load_blocks] in H.
  - inversion H. split; [reflexivity|]. intros i Hi. cbn in Hi. lia.
  - destruct (varint_decode64 (pe_val ie)) as [[off n]| | |] eqn:Ev; try discriminate.
    destruct (get_block decompress r off) as [b| | |] eqn:Eg; try discriminate.
    destruct (ridx_of b) as [ridx|]; try discriminate.
    destruct (wfb_check b ridx) eqn:Ew; try discriminate.
    destruct (load_blocks r ies) as [l|]; try discriminate. inversion H; subst bl.
    destruct (IH l eq_refl) as [Hlen Hall]. split; [cbn; lia|].
    intros i Hi. destruct i as [|i].
    + cbn [nth]. rewrite Ev. unfold blk, rdx. cbn [nth fst snd]. split; [exact Eg|apply wfb_check_sound, Ew].
    + cbn [nth]. unfold blk, rdx. cbn [nth]. apply Hall. cbn in Hi. lia.
Qed.

Lemma seps_check_spec : forall ies bl, length bl = length ies -> seps_check ies bl = true ->
  (forall i, (i < length ies)%nat ->
     bcmp (key_at (blk bl i) (nentries (blk bl i) - 1)) (pe_key (nth i ies dummy_pe)) <> Gt) /\
  (forall i, (S i < length ies)%nat ->
     bcmp (pe_key (nth i ies dummy_pe)) (key_at (blk bl (S i)) 0) = Lt).
Proof.
  induction ies as [|ie ies IH]; intros bl Hlen H; [split; intros i Hi; cbn in Hi; lia|].
  destruct bl as [|[b rx] bl]; [cbn in Hlen; lia|]. cbn [seps_check] in H.
  apply andb_prop in H. destruct H as [H H3]. apply andb_prop in H. destruct H as [H1 H2].
  destruct (IH bl ltac:(cbn in Hlen; lia) H3) as [IH1 IH2]. split.
  - intros i Hi. destruct i as [|i].
    + unfold blk. cbn [nth fst]. unfold ble in H1. destruct (bcmp _ _); congruence.
    + unfold blk. cbn [nth]. apply IH1. cbn in Hi. lia.
  - intros i Hi. destruct i as [|i].
    + destruct bl as [|[nb0 rx0] bl]; [cbn in Hlen, Hi; lia|]. unfold blk. cbn [nth fst].
      unfold blt in H2. destruct (bcmp _ _); congruence.
    + unfold blk. cbn [nth]. apply (IH2 i). cbn in Hi. lia.
Qed.

(* soundness: a table that passes the check satisfies table_ok *)
Theorem table_check_sound r ib iridx bl : table_check r = Some (ib, iridx, bl) ->
  table_ok decompress r ib iridx (length bl) (blk bl) (rdx bl).
Proof.
  unfold table_check. destruct (r_index r) as [ib0|] eqn:Ei; [|discriminate].
  destruct (ridx_of ib0) as [ir|]; [|discriminate].
  destruct (wfb_check ib0 ir) eqn:Ew; [|discriminate]. cbn [negb].
  destruct (load_blocks r (ab_entries ib0)) as [bl0|] eqn:El; [|discriminate].
  destruct (chainb N.ltb (offs_of ib0) && seps_check (ab_entries ib0) bl0) eqn:Ec; [|discriminate].
  intros H. inversion H; subst ib0 ir bl0. clear H.
  apply andb_prop in Ec. destruct Ec as [Eoffs Eseps].
  destruct (load_blocks_spec r _ _ El) as [Hlen Hall].
  destruct (seps_check_spec _ _ Hlen Eseps) as [Hs1 Hs2].
  assert (Hioff : forall i, ioff ib i = nth i (offs_of ib) 0).
  { intros i. unfold ioff, offs_of, entry_at.
    set (f := fun ie : pentry => match varint_decode64 (pe_val ie) with Ok (v, _) => v | _ => 0 end).
    change (f (nth i (ab_entries ib) dummy_pe) = nth i (map f (ab_entries ib)) 0).
    destruct (Nat.lt_ge_cases i (length (ab_entries ib))) as [Hl|Hg].
    - rewrite (nth_indep _ 0 (f dummy_pe)) by (rewrite map_length; exact Hl).
      rewrite map_nth. reflexivity.
    - rewrite !nth_overflow by (rewrite ?map_length; lia). reflexivity. }
  constructor.
  - exact Ei.
  - apply wfb_check_sound, Ew.
  - unfold nentries. lia.
  - intros i Hi. unfold ioff. exact (proj1 (Hall i ltac:(lia))).
  - intros i Hi. exact (proj2 (Hall i ltac:(lia))).
  - intros i j Hi Hj E. rewrite !Hioff in E.
    destruct (Nat.lt_trichotomy i j) as [Hlt|[->|Hgt]]; [|reflexivity|].
    + pose proof (chain_pairs N.lt N.ltb 0 ltac:(intros; lia) ltac:(intros; lia) _ Eoffs i j
                    ltac:(unfold offs_of; rewrite map_length; lia)). lia.
    + pose proof (chain_pairs N.lt N.ltb 0 ltac:(intros; lia) ltac:(intros; lia) _ Eoffs j i
                    ltac:(unfold offs_of; rewrite map_length; lia)). lia.
  - intros i Hi. apply Hs1. lia.
  - intros i Hi. apply Hs2. lia.
Qed.
End Table.
