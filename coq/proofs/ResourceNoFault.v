(* C18: along every history the current code never releases a resource that is not live
   (no double free / close / munmap / join in the model).  Derived from the same per-operation
   lemmas ([sound], quantified over every frame [n]). *)
From Coq Require Import NArith List Bool Lia ZifyBool ZifyN ZifyNat.
From Mtbl Require Import model.ResCore model.ResT1 model.ResSorter model.ResFileset model.Resources model.ResFaults
  proofs.ResProofCore proofs.ResourceProofs.
Import ListNotations.
Local Open Scope N_scope.

(* counting with an explicit failure when a release finds nothing *)
Fixpoint runO (k : rkind) (evs : list ev) (m : N) : option N :=
  match evs with
  | [] => Some m
  | Acq x :: t => runO k t (m + ind k x)
  | Rel x :: t => if (ind k x =? 1) && (m =? 0) then None else runO k t (m - ind k x)
  end.

Lemma ind_01 : forall k x, ind k x = 0 \/ ind k x = 1.
Proof. intros. unfold ind. destruct (rkind_beq k x); auto. Qed.

Lemma runO_none_shift : forall k evs m, runO k evs m = None -> runT k evs (m + 1) = runT k evs m.
Proof.
  induction evs as [|[x|x] t IH]; intros m H; cbn [runO] in H; [discriminate| |].
  - rewrite !runT_cons_acq. replace (m + 1 + ind k x) with (m + ind k x + 1) by lia. apply IH, H.
  - rewrite !runT_cons_rel. destruct (ind_01 k x) as [E|E]; rewrite E in H |- *; cbn [N.eqb andb] in H.
    + replace (m + 1 - 0) with (m - 0 + 1) by lia. apply IH, H.
    + destruct (N.eqb_spec m 0) as [Hm|Hm]; cbn [andb] in H.
      * subst m. reflexivity.
      * replace (m + 1 - 1) with (m - 1 + 1) by lia. apply IH, H.
Qed.
Lemma sound_runO : forall k evs c c', (forall n, runT k evs (c + n) = c' + n) -> runO k evs c <> None.
Proof.
  intros k evs c c' H E. pose proof (runO_none_shift k evs c E) as S.
  pose proof (H 0) as H0. pose proof (H 1) as H1. rewrite N.add_0_r in H0. lia.
Qed.

Lemma is_live_cntr : forall r l, cntr r l <> 0 -> is_live r l = true.
Proof.
  induction l as [|x t IH]; cbn [cntr is_live]; intros H; [congruence|].
  destruct (res_eqb r x); [reflexivity|]. apply IH. lia.
Qed.

Lemma evs_faults_zero : forall id evs l,
  (forall k, runO k evs (cntr (mkres id k) l) <> None) -> evs_faults id evs l = 0.
Proof.
  induction evs as [|e t IH]; intros l H; [reflexivity|]. cbn [evs_faults].
  assert (HT : evs_faults id t (apply_ev id l e) = 0).
  { apply IH. intros k. rewrite cntr_apply_ev_same. specialize (H k). destruct e as [x|x]; cbn [runO stepT] in *.
    - exact H.
    - destruct ((ind k x =? 1) && (cntr (mkres id k) l =? 0)) eqn:C; [exfalso; apply H; reflexivity | exact H]. }
  rewrite HT. destruct e as [x|x]; cbn [ev_faults]; [reflexivity|].
  rewrite is_live_cntr; [reflexivity|]. specialize (H x). cbn [runO] in H.
  assert (E : ind x x = 1) by (unfold ind; rewrite (proj2 (rkind_beq_eq x x) eq_refl); reflexivity).
  rewrite E in H. destruct (N.eqb_spec (cntr (mkres id x) l) 0) as [Z|Z]; [|exact Z].
  exfalso. apply H. rewrite Z. reflexivity.
Qed.

Lemma upd_faults_zero : forall s id evs o, Inv s -> upd_ok s (id, evs, o) -> evs_faults id evs (live s) = 0.
Proof.
  intros s id evs o HI Hok. apply evs_faults_zero. intros k. rewrite (HI id k).
  eapply sound_runO. intros n. apply (Hok k n).
Qed.
Lemma upds_faults_zero : forall us s, Inv s -> upds_ok s us -> upds_faults s us = 0.
Proof.
  induction us as [|[[id evs] o] t IH]; intros s HI Hok; [reflexivity|]. destruct Hok as [H1 H2].
  cbn [upds_faults fst snd]. rewrite (upd_faults_zero s id evs o HI H1), IH; [reflexivity | | exact H2].
  apply apply_upd_inv; assumption.
Qed.
Lemma run_faults_from_zero : forall ops s, Inv s -> run_faults_from v_current s ops = 0.
Proof.
  induction ops as [|op t IH]; intros s HI; [reflexivity|]. cbn [run_faults_from].
  change (decode_v v_current s op) with (decode s op). change (rstep_v v_current s op) with (rstep s op).
  rewrite (upds_faults_zero _ s HI (decode_ok s op)). rewrite IH; [reflexivity|]. apply (rstep_inv s op HI).
Qed.

Theorem no_release_of_dead_resource : forall ops, run_faults ops = 0.
Proof. intros. apply run_faults_from_zero, Inv_init. Qed.
Print Assumptions no_release_of_dead_resource.

(* non-vacuity: the instrumented run does count (a stray release on a fresh owner) *)
Example faults_counts : evs_faults 1 [Acq KFd; Rel KFd; Rel KFd] [] = 1.
Proof. vm_compute. reflexivity. Qed.
