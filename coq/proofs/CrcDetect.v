(* C12, detection power of CRC-32C: the generator has an even number of terms (x + 1
   divides it), so the register parity tracks the message parity and every error that
   flips an ODD number of bits (in stored bytes and checksum field together) is detected. *)
From Coq Require Import NArith ZArith List Lia Bool.
From Mtbl Require Import model.Bytes model.Crc proofs.CrcProofs.
Local Open Scope N_scope.

Fixpoint ppar (p : positive) : bool :=
  match p with xH => true | xO q => ppar q | xI q => negb (ppar q) end.
Definition npar (n : N) : bool := match n with 0 => false | Npos p => ppar p end.

Lemma npar_double n : npar (N.double n) = npar n.
Proof. destruct n; reflexivity. Qed.
Lemma npar_succ_double n : npar (N.succ_double n) = negb (npar n).
Proof. destruct n; reflexivity. Qed.

Lemma ppar_lxor : forall p q, npar (Pos.lxor p q) = xorb (ppar p) (ppar q).
Proof.
  induction p as [p IH|p IH|]; intros [q|q|]; cbn [Pos.lxor ppar];
    rewrite ?npar_double, ?npar_succ_double, ?IH; cbn [npar ppar];
    try (destruct (ppar p); reflexivity); try (destruct (ppar p), (ppar q); reflexivity).
  - destruct (ppar q); reflexivity.
  - destruct (ppar q); reflexivity.
  - reflexivity.
Qed.
Lemma npar_lxor a b : npar (N.lxor a b) = xorb (npar a) (npar b).
Proof.
  destruct a as [|p], b as [|q]; cbn [N.lxor npar]; try reflexivity; try apply ppar_lxor;
    try (destruct (ppar p); reflexivity); try (destruct (ppar q); reflexivity).
Qed.

Lemma npar_shiftr1 c : npar (N.shiftr c 1) = xorb (npar c) (N.odd c).
Proof.
  destruct c as [|[p|p|]]; cbn; try reflexivity.
  - destruct (ppar p); reflexivity.
  - destruct (ppar p); reflexivity.
Qed.

Lemma poly_parity : npar CRC_POLY_REFLECTED = true.
Proof. reflexivity. Qed.

(* one shift of the register preserves its parity *)
Lemma step_bit_parity c : npar (crc_step_bit c) = npar c.
Proof.
  unfold crc_step_bit. destruct (N.odd c) eqn:E.
  - rewrite npar_lxor, npar_shiftr1, E, poly_parity. destruct (npar c); reflexivity.
  - rewrite npar_shiftr1, E. destruct (npar c); reflexivity.
Qed.
Lemma step8_parity c : npar (crc_step8 c) = npar c.
Proof. unfold crc_step8. rewrite !step_bit_parity. reflexivity. Qed.

Fixpoint bytes_par (l : bytes) : bool :=
  match l with [] => false | b :: tl => xorb (npar b) (bytes_par tl) end.

Lemma crc_update_parity : forall l c, npar (crc_update c l) = xorb (npar c) (bytes_par l).
Proof.
  induction l as [|b l IH]; intros c; unfold crc_update; cbn [fold_left bytes_par].
  - destruct (npar c); reflexivity.
  - fold (crc_update (crc_byte c b) l). rewrite IH. unfold crc_byte. rewrite step8_parity, npar_lxor.
    destruct (npar c), (npar b), (bytes_par l); reflexivity.
Qed.

Lemma crc32c_ref_parity l : npar (crc32c_ref l) = bytes_par l.
Proof.
  unfold crc32c_ref. rewrite npar_lxor, crc_update_parity.
  change (npar CRC_MASK) with false. destruct (bytes_par l); reflexivity.
Qed.

(* bitwise difference of two byte strings of the same length *)
Fixpoint diff (a b : bytes) : bytes :=
  match a, b with
  | x :: a', y :: b' => N.lxor x y :: diff a' b'
  | _, _ => []
  end.
Lemma bytes_par_diff : forall a b, length a = length b ->
  bytes_par (diff a b) = xorb (bytes_par a) (bytes_par b).
Proof.
  induction a as [|x a IH]; intros [|y b] H; try discriminate; [reflexivity|].
  cbn [diff bytes_par]. rewrite npar_lxor, IH by (cbn in H; lia).
  destruct (npar x), (npar y), (bytes_par a), (bytes_par b); reflexivity.
Qed.

(* T12d: stored bytes s with correct checksum field f; damaged to s' / f' with an odd
   total number of flipped bits: the damaged pair is inconsistent *)
Theorem odd_errors_detected s s' f' : length s = length s' ->
  xorb (bytes_par (diff s s')) (npar (N.lxor (crc32c_ref s) f')) = true ->
  f' <> crc32c_ref s'.
Proof.
  intros Hlen Hodd Heq. subst f'.
  rewrite npar_lxor, !crc32c_ref_parity, bytes_par_diff in Hodd by exact Hlen.
  destruct (bytes_par s), (bytes_par s'); discriminate.
Qed.
