(* Block iterator (block.c): block_iter_seek positions at the first entry >= target
   from ANY reachable iterator state; seek_to_first / next walk the entries in order. *)
From Coq Require Import NArith ZArith List Lia ZifyBool ZifyN ZifyNat.
From Mtbl Require Import gen.Consts model.Bytes model.Codec model.Order spec.Parse model.Reader
  proofs.BytesLemmas proofs.OrderProofs.
Local Open Scope N_scope.
Ltac Zify.zify_post_hook ::= Z.div_mod_to_equations.
Ltac splits := repeat match goal with |- _ /\ _ => split end.


(* a well-formed non-empty block, with [ridx] = the entry index of each restart point *)
Record wfb (b : ablock) (ridx : list nat) : Prop := {
  wb_ne : (0 < nentries b)%nat;
  wb_off_inc : forall i j, (i < j < nentries b)%nat -> off_at b i < off_at b j;
  wb_key_inc : forall i j, (i < j < nentries b)%nat -> bcmp (key_at b i) (key_at b j) = Lt;
  wb_ridx_len : length ridx = length (ab_restarts b);
  wb_ridx_pos : (0 < length ridx)%nat;
  wb_ridx_val : forall i, (i < length ridx)%nat ->
      restart_at b (N.of_nat i) = off_at b (nth i ridx 0%nat) /\
      (nth i ridx 0%nat < nentries b)%nat /\
      pe_shared (entry_at b (nth i ridx 0%nat)) = 0;
  wb_ridx_inc : forall i j, (i < j < length ridx)%nat -> (nth i ridx 0 < nth j ridx 0)%nat;
  wb_ridx_0 : nth 0 ridx 0%nat = 0%nat;
}.

Section Block.
Variable b : ablock.
Variable ridx : list nat.
Hypothesis W : wfb b ridx.

Let n := nentries b.
Let nr := length ridx.

Lemma nrest_eq : nrest b = N.of_nat nr.
Proof. unfold nrest, nr. rewrite (wb_ridx_len _ _ W). reflexivity. Qed.

Lemma find_off_gen : forall es off i j,
  (forall a c, (a < c < length es)%nat -> pe_off (nth a es dummy_pe) < pe_off (nth c es dummy_pe)) ->
  (j < length es)%nat -> off = pe_off (nth j es dummy_pe) -> find_off es off i = Some (i + j)%nat.
Proof.
  induction es as [|e es IH]; intros off i j Hinc Hj Hoff; [cbn in Hj; lia|].
  cbn [find_off]. destruct j as [|j].
  - cbn in Hoff. subst. rewrite N.eqb_refl. f_equal. lia.
  - cbn [nth] in Hoff. assert (Hlt : pe_off e < off).
    { subst off. apply (Hinc 0%nat (S j)). cbn [length] in *. lia. }
    replace (pe_off e =? off) with false by lia.
    rewrite (IH off (S i) j); [f_equal; lia| |cbn in Hj; lia|exact Hoff].
    intros a c Hac. apply (Hinc (S a) (S c)). cbn [length]. lia.
Qed.

Lemma find_off_at j : (j < n)%nat -> find_off (ab_entries b) (off_at b j) 0 = Some j.
Proof.
  intros Hj. apply (find_off_gen (ab_entries b) (off_at b j) 0 j); [|exact Hj|reflexivity].
  intros a c Hac. apply (wb_off_inc _ _ W a c). exact Hac.
Qed.

Lemma restart_find i : (i < nr)%nat ->
  find_off (ab_entries b) (restart_at b (N.of_nat i)) 0 = Some (nth i ridx 0%nat).
Proof.
  intros Hi. destruct (wb_ridx_val _ _ W i Hi) as (-> & Hlt & _). apply find_off_at, Hlt.
Qed.

Lemma ridx_mono i j : (i <= j < nr)%nat -> (nth i ridx 0 <= nth j ridx 0)%nat.
Proof.
  intros H. destruct (Nat.eq_dec i j) as [->|Hne]; [lia|].
  pose proof (wb_ridx_inc _ _ W i j ltac:(unfold nr in *; lia)). lia.
Qed.

Lemma off_mono i j : (i <= j < n)%nat -> off_at b i <= off_at b j.
Proof.
  intros H. destruct (Nat.eq_dec i j) as [->|Hne]; [lia|].
  pose proof (wb_off_inc _ _ W i j ltac:(unfold n in *; lia)). lia.
Qed.

Lemma off_lt_inv i j : (i < n)%nat -> (j < n)%nat -> off_at b i < off_at b j -> (i < j)%nat.
Proof.
  intros Hi Hj H. destruct (Nat.lt_ge_cases i j) as [|Hge]; [assumption|].
  pose proof (off_mono j i ltac:(lia)). lia.
Qed.

Lemma key_lt i j : (i < j < n)%nat -> bcmp (key_at b i) (key_at b j) = Lt.
Proof. apply (wb_key_inc _ _ W). Qed.

(* ---- iterator states ---------------------------------------------------------- *)
Definition st_ok (s : bstate) : Prop :=
  if bs_valid s
  then (bs_cur s < n)%nat /\ bs_ri s < N.of_nat nr /\ (nth (N.to_nat (bs_ri s)) ridx 0 <= bs_cur s)%nat
  else bs_ri s = N.of_nat nr.

Lemma st_ok_invalid : st_ok (bs_invalid b).
Proof. unfold st_ok, bs_invalid; cbn. apply nrest_eq. Qed.

(* the while loop that advances restart_index keeps restart[ri] <= current *)
Lemma advance_ri_ok : forall fuel ri j, (j < n)%nat -> ri < N.of_nat nr ->
  (nth (N.to_nat ri) ridx 0 <= j)%nat ->
  let ri' := advance_ri fuel b ri (off_at b j) in
  ri' < N.of_nat nr /\ (nth (N.to_nat ri') ridx 0 <= j)%nat.
Proof.
  induction fuel as [|fuel IH]; intros ri j Hj Hri Hle; cbn [advance_ri]; [split; assumption|].
  rewrite nrest_eq.
  destruct ((ri + 1 <? N.of_nat nr) && (restart_at b (ri + 1) <? off_at b j)) eqn:E; [|split; assumption].
  apply andb_prop in E. destruct E as [E1 E2].
  apply IH; [exact Hj|lia|].
  assert (Hi : (N.to_nat (ri + 1) < nr)%nat) by lia.
  destruct (wb_ridx_val _ _ W _ Hi) as (Hr & Hlt & _). rewrite N2Nat.id in Hr.
  assert (off_at b (nth (N.to_nat (ri + 1)) ridx 0%nat) < off_at b j) by (rewrite <- Hr; lia).
  pose proof (off_lt_inv _ _ Hlt Hj H). lia.
Qed.

Lemma parse_at_ok j ri : ri < N.of_nat nr -> (j < n -> nth (N.to_nat ri) ridx 0 <= j)%nat ->
  st_ok (parse_at b j ri) /\
  (if (j <? n)%nat then bs_valid (parse_at b j ri) = true /\ bs_cur (parse_at b j ri) = j
   else bs_valid (parse_at b j ri) = false).
Proof.
  intros Hri Hle. unfold parse_at. fold n. destruct (j <? n)%nat eqn:E.
  - assert (Hj : (j < n)%nat) by lia.
    destruct (advance_ri_ok (length (ab_restarts b)) ri j Hj Hri (Hle Hj)) as [H1 H2].
    unfold st_ok. cbn [bs_valid bs_cur bs_ri]. fold (off_at b j). splits; try assumption; reflexivity.
  - split; [apply st_ok_invalid|reflexivity].
Qed.

(* ---- specification: index of the first entry with key >= target ------------------ *)
Fixpoint count_lt (es : list pentry) (target : bytes) : nat :=
  match es with
  | [] => 0
  | e :: tl => match bcmp (pe_key e) target with Lt => S (count_lt tl target) | _ => 0 end
  end.
Definition first_ge (target : bytes) : nat := count_lt (ab_entries b) target.

Definition positioned (s : bstate) (target : bytes) : Prop :=
  st_ok s /\
  (forall j, (j < n)%nat -> (j < (if bs_valid s then bs_cur s else n))%nat -> bcmp (key_at b j) target = Lt) /\
  (bs_valid s = true -> bcmp (key_at b (bs_cur s)) target <> Lt).

(* linear scan: from j0, every earlier entry being < target *)
Lemma scan_ok : forall fuel j0 ri target,
  (n - j0 < fuel)%nat -> ri < N.of_nat nr -> (j0 < n -> nth (N.to_nat ri) ridx 0 <= j0)%nat ->
  (forall j, (j < n)%nat -> (j < j0)%nat -> bcmp (key_at b j) target = Lt) ->
  positioned (scan fuel b target j0 ri) target.
Proof.
  induction fuel as [|fuel IH]; intros j0 ri target Hf Hri Hle Hbefore; [lia|].
  cbn [scan]. destruct (parse_at_ok j0 ri Hri Hle) as [Hok Hv].
  destruct (j0 <? n)%nat eqn:E.
  - destruct Hv as [Hval Hcur]. rewrite Hval. cbn [negb]. unfold bs_key. rewrite Hcur.
    fold (key_at b j0).
    destruct (bcmp (key_at b j0) target) eqn:Ec.
    + unfold positioned. rewrite Hval, Hcur. splits; [exact Hok|exact Hbefore|]. intros _. congruence.
    + unfold st_ok in Hok. rewrite Hval, Hcur in Hok. destruct Hok as (Hj & Hri' & Hle').
      apply IH; [lia|exact Hri'|intros; lia|].
      intros j Hj1 Hj2. destruct (Nat.eq_dec j j0) as [->|]; [exact Ec|apply Hbefore; lia].
    + unfold positioned. rewrite Hval, Hcur. splits; [exact Hok|exact Hbefore|]. intros _. congruence.
  - rewrite Hv. cbn [negb]. unfold positioned. rewrite Hv. splits; [exact Hok| |discriminate].
    intros j Hj _. apply Hbefore; [exact Hj|lia].
Qed.

(* ---- search over the restart points ---------------------------------------------- *)
Definition rkey (i : nat) : bytes := key_at b (nth i ridx 0%nat).
(* "every entry before restart point lo is < target" *)
Definition lo_ok (lo : N) (target : bytes) : Prop :=
  lo < N.of_nat nr /\ (lo = 0 \/ bcmp (rkey (N.to_nat lo)) target = Lt).

Lemma cmp_restart_eq i target : i < N.of_nat nr ->
  cmp_restart b i target = Ok (bcmp (rkey (N.to_nat i)) target).
Proof.
  intros Hi. unfold cmp_restart. rewrite nrest_eq. replace (i <? N.of_nat nr) with true by lia. cbn [negb].
  assert (Hi' : (N.to_nat i < nr)%nat) by lia.
  pose proof (restart_find _ Hi') as Hf. rewrite N2Nat.id in Hf. rewrite Hf.
  destruct (wb_ridx_val _ _ W _ Hi') as (_ & _ & Hs). rewrite Hs. reflexivity.
Qed.

Lemma lo_ok_before lo target j : lo_ok lo target -> (j < n)%nat ->
  (j < nth (N.to_nat lo) ridx 0)%nat -> bcmp (key_at b j) target = Lt.
Proof.
  intros [Hlt [->|Hk]] Hj Hjlt.
  - change (N.to_nat 0) with 0%nat in Hjlt. rewrite (wb_ridx_0 _ _ W) in Hjlt. lia.
  - assert (Hl : (N.to_nat lo < nr)%nat) by lia.
    destruct (wb_ridx_val _ _ W _ Hl) as (_ & Hrn & _).
    eapply bcmp_lt_trans; [|exact Hk]. apply key_lt. unfold rkey. lia.
Qed.

Lemma gallop_ok : forall fuel target i incr lo hi,
  i < N.of_nat nr -> lo_ok lo target -> (N.to_nat (N.of_nat nr - i) < fuel)%nat -> 0 < incr ->
  exists lo' hi', gallop fuel b target i incr lo hi = Ok (lo', hi') /\ lo_ok lo' target.
Proof.
  induction fuel as [|fuel IH]; intros target i incr lo hi Hi Hlo Hf Hincr; [lia|].
  cbn [gallop]. rewrite (cmp_restart_eq i target Hi).
  destruct (bcmp (rkey (N.to_nat i)) target) eqn:Ec; try (exists lo, hi; split; [reflexivity|exact Hlo]).
  rewrite nrest_eq.
  destruct (N.of_nat nr - 1 <? i + incr) eqn:E.
  - exists i, (N.of_nat nr - 1). split; [reflexivity|]. split; [exact Hi|right; exact Ec].
  - apply IH; [lia|split; [exact Hi|right; exact Ec]|lia|lia].
Qed.

Lemma binsearch_ok : forall fuel target lo hi,
  lo_ok lo target -> hi < N.of_nat nr -> (N.to_nat (hi - lo) < fuel)%nat ->
  exists lo', binsearch fuel b target lo hi = Ok lo' /\ lo_ok lo' target.
Proof.
  induction fuel as [|fuel IH]; intros target lo hi Hlo Hhi Hf; [lia|].
  cbn [binsearch]. destruct (lo <? hi) eqn:E; [|exists lo; split; [reflexivity|exact Hlo]].
  set (mid := (lo + hi + 1) / 2).
  assert (Hmid : lo < mid <= hi) by (subst mid; lia).
  rewrite (cmp_restart_eq mid target ltac:(lia)).
  destruct (bcmp (rkey (N.to_nat mid)) target) eqn:Ec.
  - apply IH; [exact Hlo|lia|lia].
  - apply IH; [split; [lia|right; exact Ec]|exact Hhi|lia].
  - apply IH; [exact Hlo|lia|lia].
Qed.

(* T03a: block_iter_seek from any state *)
Theorem block_seek_ok s target : st_ok s ->
  exists s', block_seek b s target = Ok s' /\ positioned s' target.
Proof.
  intros Hs. unfold block_seek. rewrite nrest_eq.
  pose proof (wb_ridx_pos _ _ W) as Hnr. fold nr in Hnr.
  replace (N.of_nat nr =? 0) with false by lia.
  assert (Hlo0 : lo_ok 0 target) by (split; [lia|left; reflexivity]).
  (* phase 1 *)
  assert (H1 : exists lo0 hi0,
    (if negb (N.of_nat nr =? bs_ri s) && negb (bs_ri s =? 0)
     then gallop (S (length (ab_restarts b))) b target (bs_ri s) 1 0 (bs_ri s)
     else Ok (0, N.of_nat nr - 1)) = Ok (lo0, hi0) /\ lo_ok lo0 target /\ hi0 < N.of_nat nr).
  { destruct (negb (N.of_nat nr =? bs_ri s) && negb (bs_ri s =? 0)) eqn:E.
    - assert (Hri : bs_ri s < N.of_nat nr).
      { unfold st_ok in Hs. destruct (bs_valid s); [tauto|]. lia. }
      destruct (gallop_ok (S (length (ab_restarts b))) target (bs_ri s) 1 0 (bs_ri s) Hri Hlo0
                  ltac:(rewrite <- (wb_ridx_len _ _ W); fold nr; lia) ltac:(lia)) as (lo' & hi' & Hg & Hl).
      (* the right end returned by gallop is either the start index or clipped to nr - 1 *)
      assert (Hhi : forall fuel i incr lo hi lo' hi', hi < N.of_nat nr -> i < N.of_nat nr ->
                gallop fuel b target i incr lo hi = Ok (lo', hi') -> hi' < N.of_nat nr).
      { induction fuel as [|fuel IHf]; intros i incr lo hi lo2 hi2 Hh Hi Hgg; cbn [gallop] in Hgg; [discriminate|].
        rewrite (cmp_restart_eq i target Hi) in Hgg.
        destruct (bcmp (rkey (N.to_nat i)) target); try (inversion Hgg; subst; exact Hh).
        rewrite nrest_eq in Hgg. destruct (N.of_nat nr - 1 <? i + incr) eqn:E2.
        - inversion Hgg; subst. lia.
        - eapply IHf; [| |exact Hgg]; lia. }
      exists lo', hi'. splits; [exact Hg|exact Hl|eapply Hhi; [| |exact Hg]; exact Hri].
    - exists 0, (N.of_nat nr - 1). splits; [reflexivity|exact Hlo0|lia]. }
  destruct H1 as (lo0 & hi0 & -> & Hl0 & Hh0).
  (* phase 2 *)
  assert (H2 : exists lo1,
    (if lo0 + 1 <? hi0 then binsearch (S (length (ab_restarts b))) b target lo0 hi0 else Ok lo0) = Ok lo1 /\
    lo_ok lo1 target).
  { destruct (lo0 + 1 <? hi0); [|exists lo0; split; [reflexivity|exact Hl0]].
    apply binsearch_ok; [exact Hl0|exact Hh0|rewrite <- (wb_ridx_len _ _ W); fold nr; lia]. }
  destruct H2 as (lo1 & -> & Hl1).
  destruct Hl1 as [Hlt1 Hk1].
  assert (Hl1 : lo_ok lo1 target) by (split; assumption).
  assert (Hi1 : (N.to_nat lo1 < nr)%nat) by lia.
  destruct (wb_ridx_val _ _ W _ Hi1) as (_ & Hrn & _).
  (* the scan from the start of restart run lo1 *)
  assert (Hscan_start : positioned (scan (S (nentries b)) b target (nth (N.to_nat lo1) ridx 0%nat) lo1) target).
  { apply scan_ok; [fold n; lia|exact Hlt1|intros; lia|].
    intros j Hj Hjlt. eapply lo_ok_before; eassumption. }
  pose proof (restart_find _ Hi1) as Hfind. rewrite N2Nat.id in Hfind.
  destruct (bs_ri s =? lo1) eqn:Esame; cbn [andb].
  - (* the current entry lies in restart run lo1 *)
    assert (Hv : bs_valid s = true).
    { unfold st_ok in Hs. destruct (bs_valid s); [reflexivity|]. lia. }
    unfold st_ok in Hs. rewrite Hv in Hs. destruct Hs as (Hcur & Hri & Hle).
    unfold bs_key. fold (key_at b (bs_cur s)).
    destruct (bcmp (key_at b (bs_cur s)) target) eqn:Ec.
    + (* equal: stay *)
      exists s. split; [reflexivity|]. unfold positioned. rewrite Hv. splits.
      * unfold st_ok. rewrite Hv. splits; assumption.
      * intros j Hj Hjc. apply bcmp_eq in Ec. rewrite <- Ec. apply key_lt. lia.
      * intros _. congruence.
    + (* current < target: continue from the next entry *)
      eexists. split; [reflexivity|]. apply scan_ok; [fold n; lia|exact Hri|intros; lia|].
      intros j Hj Hjc. destruct (Nat.eq_dec j (bs_cur s)) as [->|]; [exact Ec|].
      eapply bcmp_lt_trans; [apply key_lt|exact Ec]. lia.
    + replace (lo1 <? N.of_nat nr) with true by lia. cbn [negb]. rewrite Hfind.
      eexists. split; [reflexivity|exact Hscan_start].
  - replace (lo1 <? N.of_nat nr) with true by lia. cbn [negb]. rewrite Hfind.
    eexists. split; [reflexivity|exact Hscan_start].
Qed.

(* seek_to_first and next *)
Lemma seek_first_ok : exists s, block_seek_to_first b = Ok s /\ st_ok s /\ bs_valid s = true /\ bs_cur s = 0%nat.
Proof.
  unfold block_seek_to_first, seek_restart. rewrite nrest_eq.
  pose proof (wb_ridx_pos _ _ W) as Hnr. fold nr in Hnr.
  replace (0 <? N.of_nat nr) with true by lia. cbn [negb].
  pose proof (restart_find 0 Hnr) as Hf. cbn in Hf. rewrite Hf, (wb_ridx_0 _ _ W).
  destruct (parse_at_ok 0 0 ltac:(lia) ltac:(intros; change (N.to_nat 0) with 0%nat; rewrite (wb_ridx_0 _ _ W); lia)) as [Hok Hv].
  pose proof (wb_ne _ _ W) as Hne. fold n in Hne.
  replace (0 <? n)%nat with true in Hv by lia. destruct Hv as [Hv Hc].
  eexists. split; [reflexivity|]. splits; assumption.
Qed.

Lemma block_next_ok s : st_ok s -> bs_valid s = true ->
  st_ok (block_next b s) /\
  (if (S (bs_cur s) <? n)%nat then bs_valid (block_next b s) = true /\ bs_cur (block_next b s) = S (bs_cur s)
   else bs_valid (block_next b s) = false).
Proof.
  intros Hs Hv. unfold block_next. rewrite Hv. unfold st_ok in Hs. rewrite Hv in Hs.
  destruct Hs as (Hc & Hri & Hle). apply parse_at_ok; [exact Hri|intros; lia].
Qed.

End Block.
