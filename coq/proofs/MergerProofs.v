(* merger.c: one call of merger_iter_next delivers the least remaining key with the fold of the
   merge function over ALL values the sources still hold for it (each used once), and leaves a
   state of the same shape.  The heap (libmy/heap.c) enters through its contract - contents as
   a multiset, root minimal - which proofs/HeapProofs.v discharges for the array heap model. *)
From Coq Require Import NArith List Lia Permutation Sorting.Sorted.
From Mtbl Require Import model.Bytes model.Order model.Heap model.Merger spec.MergeSpec proofs.OrderProofs.
Local Open Scope N_scope.
Ltac splits := repeat match goal with |- _ /\ _ => split end.

(* ---- lists and permutations ------------------------------------------------------------------ *)
Lemma Permutation_concat_map {A B} (f : A -> list B) l l' :
  Permutation l l' -> Permutation (concat (map f l)) (concat (map f l')).
Proof.
  induction 1 as [|x l l' _ IH|x y l|l l' l'' _ IH1 _ IH2]; cbn [map concat].
  - constructor.
  - apply Permutation_app_head, IH.
  - rewrite !app_assoc. apply Permutation_app_tail, Permutation_app_comm.
  - eapply Permutation_trans; eassumption.
Qed.

Lemma Permutation_filter {A} (f : A -> bool) l l' : Permutation l l' -> Permutation (filter f l) (filter f l').
Proof.
  induction 1 as [|x l l' _ IH|x y l|l l' l'' _ IH1 _ IH2]; cbn [filter].
  - constructor.
  - destruct (f x); [constructor|]; exact IH.
  - destruct (f x), (f y); try reflexivity. constructor.
  - eapply Permutation_trans; eassumption.
Qed.

(* ---- source cursors ---------------------------------------------------------------------------- *)
Definition ssorted (es : list entry) : Prop :=
  forall i j a b, (i < j)%nat -> nth_error es i = Some a -> nth_error es j = Some b -> bcmp (fst a) (fst b) = Lt.

Lemma get_set_src_same : forall l i x, (i < length l)%nat -> get_src (set_src l i x) i = x.
Proof.
  induction l as [|h l IH]; intros i x Hi; [cbn in Hi; lia|]. destruct i; [reflexivity|].
  cbn [set_src]. unfold get_src in *. cbn [nth]. apply IH. cbn in Hi. lia.
Qed.
Lemma get_set_src_other : forall l i j x, i <> j -> get_src (set_src l i x) j = get_src l j.
Proof.
  induction l as [|h l IH]; intros i j x Hne; [destruct i; reflexivity|]. destruct i, j; try reflexivity; try congruence.
  cbn [set_src]. unfold get_src in *. cbn [nth]. apply IH. congruence.
Qed.
Lemma set_src_length : forall l i x, length (set_src l i x) = length l.
Proof. induction l as [|h l IH]; intros i x; [destruct i; reflexivity|]. destruct i; cbn; [reflexivity|]. rewrite IH. reflexivity. Qed.

Lemma map_es_set_src : forall l i x, (i < length l)%nat -> sc_es x = sc_es (get_src l i) -> map sc_es (set_src l i x) = map sc_es l.
Proof.
  induction l as [|h l IH]; intros i x Hi He; [cbn in Hi; lia|]. destruct i.
  - cbn [set_src map]. unfold get_src in He. cbn [nth] in He. rewrite He. reflexivity.
  - cbn [set_src map]. f_equal. apply IH; [cbn in Hi; lia|exact He].
Qed.

Lemma skipn_nth_error {A} : forall (l : list A) n x, nth_error l n = Some x -> skipn n l = x :: skipn (S n) l.
Proof.
  induction l as [|h l IH]; intros n x H; [destruct n; discriminate|]. destruct n; [cbn in H; inversion H; reflexivity|].
  cbn [nth_error] in H. cbn [skipn]. rewrite (IH n x H). reflexivity.
Qed.
Lemma skipn_nth_error_none {A} : forall (l : list A) n, nth_error l n = None -> skipn n l = [].
Proof. intros l n H. apply nth_error_None in H. apply skipn_all2, H. Qed.

Lemma In_skipn_nth {A} : forall (l : list A) n x, In x (skipn n l) -> exists j, (n <= j)%nat /\ nth_error l j = Some x.
Proof.
  induction l as [|h l IH]; intros n x H; [destruct n; contradiction|]. destruct n.
  - cbn [skipn] in H. apply In_nth_error in H. destruct H as [j Hj]. exists j. split; [lia|exact Hj].
  - cbn [skipn] in H. destruct (IH n x H) as (j & Hj & Hn). exists (S j). split; [lia|exact Hn].
Qed.

Lemma bcmp_le_trans a b c : bcmp a b <> Gt -> bcmp b c <> Gt -> bcmp a c <> Gt.
Proof.
  intros H1 H2. destruct (bcmp a b) eqn:E1; [apply bcmp_eq in E1; subst; exact H2| |congruence].
  rewrite (bcmp_lt_le_trans _ _ _ E1 H2). discriminate.
Qed.

(* ---- the merger over a heap that meets its contract -------------------------------------------- *)
Section Merge.
Variable mf : bytes -> bytes -> bytes -> option bytes.
Local Notation cmp := (mcmp None).
Local Notation hpush := (heap_push hent cmp dummy_he).
Local Notation hpop := (heap_pop hent cmp dummy_he).
Local Notation hreplace := (heap_replace hent cmp dummy_he).

Variable hok : list hent -> Prop.
Hypothesis H_nil : hok [].
Hypothesis H_push : forall h x, hok h -> hok (hpush h x) /\ Permutation (hpush h x) (x :: h).
Hypothesis H_pop : forall r t, hok (r :: t) -> hok (hpop (r :: t)) /\ Permutation (hpop (r :: t)) t.
Hypothesis H_replace : forall r t x, hok (r :: t) -> hok (hreplace (r :: t) x) /\ Permutation (hreplace (r :: t) x) (x :: t).
Hypothesis H_min : forall r t y, hok (r :: t) -> In y t -> cmp r y <> Gt.
Hypothesis H_mark : forall r t r', hok (r :: t) -> he_key r' = he_key r -> hok (r' :: t).

Lemma cmp_key a b : cmp a b <> Gt -> bcmp (he_key a) (he_key b) <> Gt.
Proof. unfold mcmp. destruct (bcmp (he_key a) (he_key b)); congruence. Qed.

Definition chunk (srcs : list scur) (e : hent) : list entry :=
  if he_fin e then []
  else (he_key e, he_val e) :: skipn (sc_pos (get_src srcs (he_src e))) (sc_es (get_src srcs (he_src e))).
Definition rem (srcs : list scur) (heap : list hent) : list entry := concat (map (chunk srcs) heap).

Definition ent_ok (srcs : list scur) (e : hent) : Prop :=
  (he_src e < length srcs)%nat /\
  let s := get_src srcs (he_src e) in
  sc_null s = false /\ sc_bound s = BAll /\ ssorted (sc_es s) /\
  (he_fin e = false -> sc_valid s = true /\ (0 < sc_pos s)%nat /\ nth_error (sc_es s) (sc_pos s - 1) = Some (he_key e, he_val e)).

Definition inv (srcs : list scur) (heap : list hent) : Prop :=
  hok heap /\ Forall (ent_ok srcs) heap /\ NoDup (map he_src heap) /\ (forall e, In e (tl heap) -> he_fin e = false).
Definition nofin (heap : list hent) : Prop := forall e, In e heap -> he_fin e = false.

Lemma chunk_min srcs e x : ent_ok srcs e -> he_fin e = false -> In x (chunk srcs e) -> bcmp (he_key e) (fst x) <> Gt.
Proof.
  intros (Hlt & Hnull & Hb & Hs & Hv) Hf Hx. unfold chunk in Hx. rewrite Hf in Hx. destruct (Hv Hf) as (Hval & Hpos & Hnth).
  destruct Hx as [<-|Hx]; [cbn; rewrite bcmp_refl; discriminate|].
  destruct (In_skipn_nth _ _ _ Hx) as (j & Hj & Hn).
  pose proof (Hs (sc_pos (get_src srcs (he_src e)) - 1)%nat j (he_key e, he_val e) x ltac:(lia) Hnth Hn) as Hlt'. cbn [fst] in Hlt'.
  rewrite Hlt'. discriminate.
Qed.

Lemma In_rem srcs heap x : In x (rem srcs heap) -> exists e, In e heap /\ In x (chunk srcs e).
Proof.
  unfold rem. intros H. apply in_concat in H. destruct H as (c & Hc & Hx). apply in_map_iff in Hc.
  destruct Hc as (e & <- & He). exists e. split; assumption.
Qed.

(* the root's key is the least remaining key *)
Lemma root_min srcs r t x : inv srcs (r :: t) -> nofin (r :: t) -> In x (rem srcs (r :: t)) -> bcmp (he_key r) (fst x) <> Gt.
Proof.
  intros (Hok & Hall & _ & _) Hnf Hx. destruct (In_rem _ _ _ Hx) as (e & He & Hxe).
  rewrite Forall_forall in Hall. pose proof (chunk_min srcs e x (Hall e He) (Hnf e He) Hxe) as Hle.
  destruct He as [<-|He]; [exact Hle|].
  eapply bcmp_le_trans; [apply cmp_key, (H_min r t e Hok He)|exact Hle].
Qed.

(* chunks of other sources do not change when one cursor moves *)
Lemma chunk_other srcs i s e : he_src e <> i -> chunk (set_src srcs i s) e = chunk srcs e.
Proof. intros H. unfold chunk. rewrite get_set_src_other by congruence. reflexivity. Qed.
Lemma ent_ok_other srcs i s e : he_src e <> i -> ent_ok srcs e -> ent_ok (set_src srcs i s) e.
Proof. intros H (Hlt & Hrest). unfold ent_ok. rewrite set_src_length, get_set_src_other by congruence. split; assumption. Qed.

Lemma rem_other srcs i s t : ~ In i (map he_src t) -> rem (set_src srcs i s) t = rem srcs t.
Proof.
  intros H. unfold rem. f_equal. apply map_ext_in. intros e He. apply chunk_other.
  intros E. apply H. apply in_map_iff. exists e. split; assumption.
Qed.
Lemma Forall_ent_ok_other srcs i s t : ~ In i (map he_src t) -> Forall (ent_ok srcs) t -> Forall (ent_ok (set_src srcs i s)) t.
Proof.
  intros H Hall. rewrite Forall_forall in *. intros e He. apply ent_ok_other; [|apply Hall, He].
  intros E. apply H. apply in_map_iff. exists e. split; assumption.
Qed.

(* refill_root: the root's entry leaves the remaining multiset; everything else stays *)
Lemma refill_root_spec srcs r t : inv srcs (r :: t) -> nofin (r :: t) ->
  let '(srcs', heap') := refill_root None srcs (r :: t) in
  inv srcs' heap' /\ Permutation ((he_key r, he_val r) :: rem srcs' heap') (rem srcs (r :: t)) /\
  length heap' = length (r :: t) /\ length srcs' = length srcs /\ map sc_es srcs' = map sc_es srcs.
Proof.
  intros (Hok & Hall & Hnd & Htl) Hnf. inversion Hall as [|? ? Hr Ht]; subst. inversion Hnd as [|? ? Hni Hnd']; subst.
  pose proof (Hnf r (or_introl eq_refl)) as Hrf. destruct Hr as (Hlt & Hnull & Hb & Hs & Hv). destruct (Hv Hrf) as (Hval & Hpos & Hnth).
  cbn [refill_root]. unfold fill, sc_next. set (s := get_src srcs (he_src r)) in *. rewrite Hnull, Hval. cbn [orb negb].
  assert (Hrem : rem srcs (r :: t) = (he_key r, he_val r) :: skipn (sc_pos s) (sc_es s) ++ rem srcs t).
  { unfold rem. cbn [map concat]. unfold chunk at 1. rewrite Hrf. reflexivity. }
  destruct (nth_error (sc_es s) (sc_pos s)) as [[k v]|] eqn:En.
  - (* the source has another entry *)
    rewrite Hb. cbn [sbound_ok].
    set (s' := mksc (sc_es s) (S (sc_pos s)) true BAll false). set (new := mkhe (he_src r) k v false).
    destruct (H_replace r t new Hok) as [Hok' Hperm]. splits.
    + unfold inv. splits.
      * exact Hok'.
      * eapply Permutation_Forall; [apply Permutation_sym, Hperm|]. constructor.
        -- unfold ent_ok. cbn [he_src new]. rewrite set_src_length, get_set_src_same by exact Hlt.
           split; [exact Hlt|]. cbn [s' sc_null sc_bound sc_es sc_valid sc_pos]. splits; try reflexivity; try assumption.
           intros _. splits; [reflexivity|lia|]. replace (S (sc_pos s) - 1)%nat with (sc_pos s) by lia. exact En.
        -- apply Forall_ent_ok_other; assumption.
      * eapply Permutation_NoDup; [apply Permutation_map, Permutation_sym, Hperm|]. cbn [map he_src new]. constructor; assumption.
      * intros e He. assert (Hin : In e (hreplace (r :: t) new)) by (destruct (hreplace (r :: t) new); [contradiction|right; exact He]).
        apply (Permutation_in _ Hperm) in Hin. destruct Hin as [<-|Hin]; [reflexivity|]. apply Hnf. right. exact Hin.
    + rewrite Hrem. apply perm_skip.
      eapply Permutation_trans; [apply (Permutation_concat_map (chunk (set_src srcs (he_src r) s')) _ _ Hperm)|].
      cbn [map concat]. fold (rem (set_src srcs (he_src r) s') t). rewrite rem_other by exact Hni.
      apply Permutation_app_tail. unfold chunk. cbn [he_fin he_src he_key he_val new]. rewrite get_set_src_same by exact Hlt.
      cbn [s' sc_pos sc_es]. rewrite (skipn_nth_error _ _ _ En). reflexivity.
    + rewrite (Permutation_length Hperm). reflexivity.
    + apply set_src_length.
    + apply map_es_set_src; [exact Hlt|reflexivity].
  - (* the source is exhausted: the root is marked finished *)
    set (s' := mksc (sc_es s) (sc_pos s) false (sc_bound s) false). set (r' := mkhe (he_src r) (he_key r) (he_val r) true).
    cbn [set_nth]. splits.
    + unfold inv. splits.
      * apply (H_mark r t r' Hok). reflexivity.
      * constructor.
        -- unfold ent_ok. cbn [he_src r']. rewrite set_src_length, get_set_src_same by exact Hlt.
           split; [exact Hlt|]. cbn [s' sc_null sc_bound sc_es]. splits; try reflexivity; try assumption. cbn [he_fin r']. discriminate.
        -- apply Forall_ent_ok_other; assumption.
      * cbn [map he_src r']. constructor; assumption.
      * intros e He. cbn [tl] in He. apply Hnf. right. exact He.
    + rewrite Hrem. apply perm_skip. unfold rem at 1. cbn [map concat]. fold (rem (set_src srcs (he_src r) s') t).
      unfold chunk at 1. cbn [he_fin r']. rewrite rem_other by exact Hni. rewrite (skipn_nth_error_none _ _ En). reflexivity.
    + reflexivity.
    + apply set_src_length.
    + apply map_es_set_src; [exact Hlt|reflexivity].
Qed.

Lemma pop_finished_nofin : forall f heap, nofin heap -> pop_finished None f heap = heap.
Proof.
  intros f heap H. destruct f; [reflexivity|]. cbn [pop_finished]. destruct heap as [|e t]; [reflexivity|].
  rewrite (H e (or_introl eq_refl)). reflexivity.
Qed.

Lemma pop_finished_spec srcs heap n :
  inv srcs heap ->
  let heap' := pop_finished None (S n) heap in
  inv srcs heap' /\ nofin heap' /\ Permutation (rem srcs heap') (rem srcs heap) /\ (length heap' <= length heap)%nat.
Proof.
  intros (Hok & Hall & Hnd & Htl). cbn zeta. cbn [pop_finished]. destruct heap as [|r t].
  - splits; [unfold inv; splits; try assumption|intros e []|reflexivity|lia].
  - destruct (he_fin r) eqn:Ef.
    + destruct (H_pop r t Hok) as [Hok' Hperm]. cbn [tl] in Htl.
      assert (Hnf : nofin (hpop (r :: t))).
      { intros e He. apply Htl. eapply Permutation_in; [exact Hperm|exact He]. }
      rewrite pop_finished_nofin by exact Hnf. inversion Hall; subst. inversion Hnd; subst. splits.
      * unfold inv. splits; [exact Hok'| | |].
        -- eapply Permutation_Forall; [apply Permutation_sym, Hperm|assumption].
        -- eapply Permutation_NoDup; [apply Permutation_map, Permutation_sym, Hperm|assumption].
        -- intros e He. apply Hnf. destruct (hpop (r :: t)); [contradiction|right; exact He].
      * exact Hnf.
      * change (rem srcs (r :: t)) with (chunk srcs r ++ rem srcs t). unfold chunk at 1. rewrite Ef. cbn [app].
        unfold rem. apply Permutation_concat_map, Hperm.
      * rewrite (Permutation_length Hperm). cbn. lia.
    + splits; [unfold inv; splits; assumption| |reflexivity|lia].
      intros e [<-|He]; [exact Ef|apply Htl, He].
Qed.

Lemma rem_nonempty srcs r t : nofin (r :: t) -> rem srcs (r :: t) <> [].
Proof. intros H. unfold rem. cbn [map concat]. unfold chunk at 1. rewrite (H r (or_introl eq_refl)). discriminate. Qed.

Definition set_heap (it : miter) (h : list hent) : miter :=
  mkmi (mi_srcs it) h (mi_entries it) (mi_cur_key it) (mi_cur_val it) (mi_finished it) (mi_pending it).

(* the loop while an entry is pending: values of the pending key are folded in until the root's key
   differs (or the heap runs dry) *)
Lemma loop_pending : forall fuel it k a,
  inv (mi_srcs it) (mi_heap it) -> mi_pending it = true -> mi_cur_key it = k -> mi_cur_val it = a ->
  (forall x, In x (rem (mi_srcs it) (mi_heap it)) -> bcmp k (fst x) <> Gt) ->
  (length (rem (mi_srcs it) (mi_heap it)) + length (mi_heap it) < fuel)%nat ->
  let '(it', ok) := next_loop (Some mf) None fuel it in
  exists vs,
    Permutation (map (pair k) vs ++ rem (mi_srcs it') (mi_heap it')) (rem (mi_srcs it) (mi_heap it)) /\
    inv (mi_srcs it') (mi_heap it') /\ nofin (mi_heap it') /\
    mi_pending it' = true /\ mi_cur_key it' = k /\ map sc_es (mi_srcs it') = map sc_es (mi_srcs it) /\
    (mi_finished it' = true -> mi_heap it' = [] \/ mi_finished it = true) /\
    (length (mi_heap it') <= length (mi_heap it))%nat /\
    if ok then fold_merge mf k a vs = Some (mi_cur_val it') /\
               (forall x, In x (rem (mi_srcs it') (mi_heap it')) -> bcmp k (fst x) = Lt)
    else exists v0, In (k, v0) (rem (mi_srcs it') (mi_heap it')) /\ fold_merge mf k a (vs ++ [v0]) = None.
Proof.
  induction fuel as [|fuel IH]; intros it k a Hinv Hp Hk Ha Hmin Hfuel; [lia|].
  cbn [next_loop].
  destruct (pop_finished_spec (mi_srcs it) (mi_heap it) (length (mi_heap it)) Hinv) as (Hinv1 & Hnf1 & Hperm1 & Hlen1).
  set (heap1 := pop_finished None (S (length (mi_heap it))) (mi_heap it)) in *.
  destruct heap1 as [|e t] eqn:Eh.
  - (* nothing left *)
    exists []. cbn [mi_srcs mi_heap mi_pending mi_cur_key mi_cur_val mi_finished map app].
    split; [exact Hperm1|]. split; [exact Hinv1|]. split; [exact Hnf1|]. split; [first [exact Hp|reflexivity]|]. split; [first [exact Hk|reflexivity]|]. split; [reflexivity|].
    split; [intros _; left; reflexivity|]. split; [exact Hlen1|]. split; [cbn [fold_merge]; rewrite ?Ha; reflexivity|intros x []].
  - rewrite Hp. cbn [negb].
    assert (Hmin1 : forall x, In x (rem (mi_srcs it) (e :: t)) -> bcmp k (fst x) <> Gt).
    { intros x Hx. apply Hmin. eapply Permutation_in; [exact Hperm1|exact Hx]. }
    destruct (beq (mi_cur_key it) (he_key e)) eqn:Ebeq.
    + (* same key: fold its value in *)
      assert (Eke : he_key e = k).
      { unfold beq in Ebeq. rewrite Hk in Ebeq. destruct (bcmp k (he_key e)) eqn:E; try discriminate. symmetry. apply bcmp_eq, E. }
      rewrite Hk, Ha.
      destruct (mf k a (he_val e)) as [merged|] eqn:Emf.
      * pose proof (refill_root_spec (mi_srcs it) e t Hinv1 Hnf1) as Hrf.
        destruct (refill_root None (mi_srcs it) (e :: t)) as [srcs' heap'] eqn:Erf.
        destruct Hrf as (Hinv2 & Hperm2 & Hlen2 & Hlens & Hes2).
        set (it2 := mkmi srcs' heap' (mi_entries it) k merged (mi_finished it) true).
        assert (Hrem2 : forall x, In x (rem srcs' heap') -> bcmp k (fst x) <> Gt).
        { intros x Hx. apply Hmin1. eapply Permutation_in; [exact Hperm2|right; exact Hx]. }
        assert (Hfuel2 : (length (rem srcs' heap') + length heap' < fuel)%nat).
        { pose proof (Permutation_length Hperm2) as L2. pose proof (Permutation_length Hperm1) as L1. cbn [length] in L2, Hlen2.
          rewrite Hlen2. cbn [length]. cbn [length] in Hlen1. unfold entry in *. lia. }
        specialize (IH it2 k merged Hinv2 eq_refl eq_refl eq_refl Hrem2 Hfuel2).
        destruct (next_loop (Some mf) None fuel it2) as [it' ok].
        destruct IH as (vs & HpermR & Hinv' & Hnf' & Hp' & Hk' & Hlen' & Hfin' & Hhl' & Hres).
        exists (he_val e :: vs). cbn [it2 mi_srcs mi_heap mi_finished] in *. splits; try assumption.
        -- cbn [map app]. eapply Permutation_trans; [|exact Hperm1]. eapply Permutation_trans; [|exact Hperm2].
           rewrite Eke. apply perm_skip. exact HpermR.
        -- congruence.
        -- cbn [length] in Hlen1, Hlen2. lia.
        -- destruct ok.
           ++ cbn [fold_merge]. rewrite Emf. exact Hres.
           ++ destruct Hres as (v0 & Hin & Hfail). exists v0. split; [exact Hin|]. cbn [app fold_merge]. rewrite Emf. exact Hfail.
      * (* the merge function fails *)
        exists []. cbn [mi_srcs mi_heap mi_pending mi_cur_key mi_cur_val mi_finished map app].
        split; [exact Hperm1|]. split; [exact Hinv1|]. split; [exact Hnf1|]. split; [first [exact Hp|reflexivity]|]. split; [first [exact Hk|reflexivity]|]. split; [reflexivity|].
        split; [intros H; right; exact H|]. split; [exact Hlen1|].
        exists (he_val e). split.
        -- unfold rem. cbn [map concat]. unfold chunk at 1. rewrite (Hnf1 e (or_introl eq_refl)), Eke. left. reflexivity.
        -- cbn [app fold_merge]. rewrite Emf. reflexivity.
    + (* a greater key: the pending entry is complete *)
      exists []. cbn [mi_srcs mi_heap mi_pending mi_cur_key mi_cur_val mi_finished map app].
      split; [exact Hperm1|]. split; [exact Hinv1|]. split; [exact Hnf1|]. split; [first [exact Hp|reflexivity]|]. split; [first [exact Hk|reflexivity]|]. split; [reflexivity|].
      split; [intros H; right; exact H|]. split; [exact Hlen1|]. split; [cbn [fold_merge]; rewrite ?Ha; reflexivity|].
      intros x Hx. pose proof (root_min (mi_srcs it) e t x Hinv1 Hnf1 Hx) as Hle.
      assert (Hke : bcmp k (he_key e) = Lt).
      { pose proof (Hmin1 (he_key e, he_val e)) as H0. cbn [fst] in H0.
        assert (Hin : In (he_key e, he_val e) (rem (mi_srcs it) (e :: t))).
        { unfold rem. cbn [map concat]. unfold chunk at 1. rewrite (Hnf1 e (or_introl eq_refl)). left. reflexivity. }
        specialize (H0 Hin). unfold beq in Ebeq. rewrite Hk in Ebeq. destruct (bcmp k (he_key e)); congruence. }
      eapply bcmp_lt_le_trans; eassumption.
Qed.

(* ---- one call of merger_iter_next ----------------------------------------------------------------- *)
Definition total_es (srcs : list scur) : nat := fold_right (fun s a => (length (sc_es s) + a)%nat) 0%nat srcs.
Lemma total_es_map : forall a b, map sc_es a = map sc_es b -> total_es a = total_es b.
Proof.
  induction a as [|x a IH]; intros b H; destruct b as [|y b]; try discriminate; [reflexivity|].
  cbn [map] in H. inversion H. cbn [total_es fold_right]. fold (total_es a). fold (total_es b). rewrite (IH b) by assumption. congruence.
Qed.

Definition api_inv (it : miter) : Prop :=
  inv (mi_srcs it) (mi_heap it) /\ nofin (mi_heap it) /\ mi_pending it = false /\
  (mi_finished it = true -> mi_heap it = []) /\
  (length (rem (mi_srcs it) (mi_heap it)) + length (mi_heap it) <= total_es (mi_srcs it) + 2 * length (mi_srcs it))%nat.

Definition remaining (it : miter) : list entry := rem (mi_srcs it) (mi_heap it).

Theorem merger_next_step it : api_inv it ->
  match merger_next (Some mf) None it with
  | (it', Some (k, v)) =>
    exists first rest,
      Permutation ((k, first) :: map (pair k) rest ++ remaining it') (remaining it) /\
      fold_merge mf k first rest = Some v /\
      (forall x, In x (remaining it') -> bcmp k (fst x) = Lt) /\
      api_inv it' /\ map sc_es (mi_srcs it') = map sc_es (mi_srcs it)
  | (it', None) =>
    (remaining it = [] /\ api_inv it' /\ remaining it' = []) \/
    (exists k first rest v0 others,
       Permutation ((k, first) :: map (pair k) rest ++ (k, v0) :: others) (remaining it) /\
       (forall x, In x others -> bcmp k (fst x) <> Gt) /\
       fold_merge mf k first (rest ++ [v0]) = None)
  end.
Proof.
  intros (Hinv & Hnf & Hp & Hfin & Hbound). unfold merger_next, remaining.
  destruct (mi_finished it) eqn:Ef.
  { left. rewrite (Hfin eq_refl). splits; try reflexivity. unfold api_inv. rewrite (Hfin eq_refl) in *. splits; try assumption. intros _. reflexivity. }
  unfold total_remaining. fold (total_es (mi_srcs it)). cbn [mi_srcs].
  set (N0 := (total_es (mi_srcs it) + 2 * length (mi_srcs it))%nat) in *.
  remember (S N0) as N1 eqn:EN1.
  cbn [next_loop mi_heap mi_srcs mi_pending mi_entries mi_cur_key mi_cur_val mi_finished]. subst N1.
  rewrite (pop_finished_nofin _ _ Hnf).
  destruct (mi_heap it) as [|e t] eqn:Eh.
  - (* no entry left *)
    cbn [negb mi_pending]. left. splits; try reflexivity.
    unfold api_inv. cbn [mi_srcs mi_heap mi_pending mi_finished]. splits; try assumption; try reflexivity.
  - cbn [negb].
    pose proof (refill_root_spec (mi_srcs it) e t Hinv Hnf) as Hrf.
    destruct (refill_root None (mi_srcs it) (e :: t)) as [srcs' heap'] eqn:Erf.
    destruct Hrf as (Hinv2 & Hperm2 & Hlen2 & Hlens & Hes2).
    set (it2 := mkmi srcs' heap' (mi_entries it) (he_key e) (he_val e) false true).
    assert (Hmin2 : forall x, In x (rem srcs' heap') -> bcmp (he_key e) (fst x) <> Gt).
    { intros x Hx. apply (root_min (mi_srcs it) e t x Hinv Hnf). eapply Permutation_in; [exact Hperm2|right; exact Hx]. }
    assert (Hfuel2 : (length (rem srcs' heap') + length heap' < S N0)%nat).
    { pose proof (Permutation_length Hperm2) as L2. cbn [length] in L2, Hlen2, Hbound. unfold entry in *. lia. }
    pose proof (loop_pending (S N0) it2 (he_key e) (he_val e) Hinv2 eq_refl eq_refl eq_refl Hmin2 Hfuel2) as Hloop.
    destruct (next_loop (Some mf) None (S N0) it2) as [it' ok].
    destruct Hloop as (vs & HpermR & Hinv' & Hnf' & Hp' & Hk' & Hes' & Hfin' & Hhl' & Hres).
    cbn [it2 mi_srcs mi_heap mi_finished] in *.
    destruct ok; cbn [negb].
    + rewrite Hp'. destruct Hres as [Hfold Hlt]. exists (he_val e), vs. cbn [mi_srcs mi_heap]. rewrite Hk'. splits.
      * eapply Permutation_trans; [|exact Hperm2]. apply perm_skip. exact HpermR.
      * exact Hfold.
      * exact Hlt.
      * unfold api_inv. cbn [mi_srcs mi_heap mi_pending mi_finished]. splits; try assumption; try reflexivity.
        -- intros H. destruct (Hfin' H) as [H0|H0]; [exact H0|discriminate].
        -- pose proof (Permutation_length HpermR) as L1. pose proof (Permutation_length Hperm2) as L2.
           rewrite app_length, map_length in L1. cbn [length] in L2, Hlen2, Hbound.
           rewrite (total_es_map _ _ (eq_trans Hes' Hes2)).
           assert (Hls : length (mi_srcs it') = length (mi_srcs it)).
           { rewrite <- (map_length sc_es (mi_srcs it')), <- (map_length sc_es (mi_srcs it)), Hes', Hes2. reflexivity. }
           rewrite Hls. unfold entry in *. lia.
      * congruence.
    + right. destruct Hres as (v0 & Hin & Hfail). apply in_split in Hin. destruct Hin as (l1 & l2 & Hsplit).
      exists (he_key e), (he_val e), vs, v0, (l1 ++ l2). splits.
      * eapply Permutation_trans; [|exact Hperm2]. apply perm_skip. eapply Permutation_trans; [|exact HpermR].
        apply Permutation_app_head. rewrite Hsplit. apply Permutation_middle.
      * intros x Hx. apply Hmin2. eapply Permutation_in; [exact HpermR|]. apply in_or_app. right. rewrite Hsplit.
        apply in_app_or in Hx. apply in_or_app. destruct Hx as [Hx|Hx]; [left; exact Hx|right; right; exact Hx].
      * exact Hfail.
Qed.

(* ---- construction ------------------------------------------------------------------------------------ *)
Definition fresh (s : scur) : Prop :=
  sc_pos s = 0%nat /\ sc_valid s = true /\ sc_bound s = BAll /\ sc_null s = false /\ ssorted (sc_es s).

Lemma add_entries_spec : forall ids srcs heap ents,
  inv srcs heap -> nofin heap -> NoDup ids ->
  (forall i, In i ids -> (i < length srcs)%nat /\ ~ In i (map he_src heap) /\ fresh (get_src srcs i)) ->
  let '(srcs', heap', ents') := add_entries None srcs ids heap ents in
  inv srcs' heap' /\ nofin heap' /\
  Permutation (rem srcs' heap') (rem srcs heap ++ concat (map (fun i => sc_es (get_src srcs i)) ids)) /\
  map sc_es srcs' = map sc_es srcs /\ (length heap' <= length heap + length ids)%nat.
Proof.
  induction ids as [|i ids IH]; intros srcs heap ents Hinv Hnf Hnd Hids.
  - cbn [add_entries map concat]. rewrite app_nil_r. splits; try assumption; try reflexivity. lia.
  - inversion Hnd as [|? ? Hni Hnd']; subst.
    destruct (Hids i (or_introl eq_refl)) as (Hlt & Hnh & (Hpos & Hval & Hb & Hnull & Hs)).
    destruct Hinv as (Hok & Hall & Hndh & Htl).
    cbn [add_entries]. unfold fill, sc_next. rewrite Hnull, Hval, Hpos. cbn [orb negb].
    assert (Hrest : forall s', sc_es s' = sc_es (get_src srcs i) -> forall j, In j ids ->
              (j < length (set_src srcs i s'))%nat /\ fresh (get_src (set_src srcs i s') j) /\
              sc_es (get_src (set_src srcs i s') j) = sc_es (get_src srcs j)).
    { intros s' _ j Hj. assert (i <> j) by (intros ->; contradiction).
      destruct (Hids j (or_intror Hj)) as (Hjl & _ & Hjf). rewrite set_src_length, get_set_src_other by assumption. splits; try assumption; reflexivity. }
    destruct (nth_error (sc_es (get_src srcs i)) 0) as [[k v]|] eqn:En.
    + rewrite Hb. cbn [sbound_ok].
      set (s' := mksc (sc_es (get_src srcs i)) 1 true BAll false). set (new := mkhe i k v false).
      destruct (H_push heap new Hok) as [Hok' Hperm].
      assert (Hinv1 : inv (set_src srcs i s') (hpush heap new)).
      { unfold inv. splits.
        - exact Hok'.
        - eapply Permutation_Forall; [apply Permutation_sym, Hperm|]. constructor.
          + unfold ent_ok. cbn [he_src new]. rewrite set_src_length, get_set_src_same by exact Hlt. split; [exact Hlt|].
            cbn [s' sc_null sc_bound sc_es sc_valid sc_pos]. splits; try reflexivity; try assumption. intros _. splits; [reflexivity|lia|exact En].
          + apply Forall_ent_ok_other; assumption.
        - eapply Permutation_NoDup; [apply Permutation_map, Permutation_sym, Hperm|]. cbn [map he_src new]. constructor; assumption.
        - intros e He. assert (Hin : In e (hpush heap new)) by (destruct (hpush heap new); [contradiction|right; exact He]).
          apply (Permutation_in _ Hperm) in Hin. destruct Hin as [<-|Hin]; [reflexivity|apply Hnf, Hin]. }
      assert (Hnf1 : nofin (hpush heap new)).
      { intros e He. apply (Permutation_in _ Hperm) in He. destruct He as [<-|He]; [reflexivity|apply Hnf, He]. }
      assert (Hids1 : forall j, In j ids -> (j < length (set_src srcs i s'))%nat /\ ~ In j (map he_src (hpush heap new)) /\ fresh (get_src (set_src srcs i s') j)).
      { intros j Hj. destruct (Hrest s' eq_refl j Hj) as (H1 & H2 & _). splits; try assumption.
        intros Hin. apply (Permutation_in _ (Permutation_map he_src Hperm)) in Hin. cbn [map he_src new] in Hin.
        destruct Hin as [<-|Hin]; [contradiction|]. destruct (Hids j (or_intror Hj)) as (_ & Hnj & _). contradiction. }
      specialize (IH (set_src srcs i s') (hpush heap new) (ents ++ [i]) Hinv1 Hnf1 Hnd' Hids1).
      destruct (add_entries None (set_src srcs i s') ids (hpush heap new) (ents ++ [i])) as [[srcs' heap'] ents'].
      destruct IH as (Hinv' & Hnf' & HpermR & Hes & Hlen). splits; try assumption.
      * eapply Permutation_trans; [exact HpermR|]. cbn [map concat].
        assert (Hrem1 : Permutation (rem (set_src srcs i s') (hpush heap new)) (sc_es (get_src srcs i) ++ rem srcs heap)).
        { eapply Permutation_trans; [apply (Permutation_concat_map (chunk (set_src srcs i s')) _ _ Hperm)|]. cbn [map concat].
          fold (rem (set_src srcs i s') heap). rewrite rem_other by exact Hnh. apply Permutation_app_tail.
          unfold chunk, new. cbn [he_fin he_src he_key he_val]. rewrite get_set_src_same by exact Hlt. unfold s'. cbn [sc_pos sc_es].
          pose proof (skipn_nth_error _ _ _ En) as Hsk. cbn [skipn] in Hsk. rewrite Hsk at 2. reflexivity. }
        assert (Hmap : map (fun j => sc_es (get_src (set_src srcs i s') j)) ids = map (fun j => sc_es (get_src srcs j)) ids).
        { apply map_ext_in. intros j Hj. exact (proj2 (proj2 (Hrest s' eq_refl j Hj))). }
        rewrite Hmap. eapply Permutation_trans; [apply Permutation_app_tail, Hrem1|].
        rewrite <- !app_assoc. eapply Permutation_trans; [apply Permutation_app_comm|]. rewrite <- !app_assoc.
        apply Permutation_app_head. apply Permutation_app_comm.
      * rewrite Hes. apply map_es_set_src; [exact Hlt|reflexivity].
      * rewrite (Permutation_length Hperm) in Hlen. cbn [length] in *. lia.
    + (* an empty source *)
      set (s' := mksc (sc_es (get_src srcs i)) 0 false (sc_bound (get_src srcs i)) false).
      assert (Hinv1 : inv (set_src srcs i s') heap).
      { unfold inv. splits; try assumption. apply Forall_ent_ok_other; assumption. }
      assert (Hids1 : forall j, In j ids -> (j < length (set_src srcs i s'))%nat /\ ~ In j (map he_src heap) /\ fresh (get_src (set_src srcs i s') j)).
      { intros j Hj. destruct (Hrest s' eq_refl j Hj) as (H1 & H2 & _). destruct (Hids j (or_intror Hj)) as (_ & Hnj & _). splits; assumption. }
      specialize (IH (set_src srcs i s') heap ents Hinv1 Hnf Hnd' Hids1).
      destruct (add_entries None (set_src srcs i s') ids heap ents) as [[srcs' heap'] ents'].
      destruct IH as (Hinv' & Hnf' & HpermR & Hes & Hlen). splits; try assumption.
      * eapply Permutation_trans; [exact HpermR|]. cbn [map concat]. rewrite rem_other by exact Hnh.
        assert (Hmap : map (fun j => sc_es (get_src (set_src srcs i s') j)) ids = map (fun j => sc_es (get_src srcs j)) ids).
        { apply map_ext_in. intros j Hj. exact (proj2 (proj2 (Hrest s' eq_refl j Hj))). }
        rewrite Hmap. assert (E0 : sc_es (get_src srcs i) = []) by (destruct (sc_es (get_src srcs i)); [reflexivity|discriminate]).
        rewrite E0. reflexivity.
      * rewrite Hes. apply map_es_set_src; [exact Hlt|reflexivity].
      * cbn [length]. lia.
Qed.

Lemma map_nth_seq' {A} (f : scur -> A) (l : list scur) : map (fun i => f (get_src l i)) (seq 0 (length l)) = map f l.
Proof.
  induction l as [|a l IH]; [reflexivity|]. cbn [length seq map]. f_equal.
  rewrite <- seq_shift, map_map. exact IH.
Qed.

Lemma length_concat_es srcs : length (concat (map sc_es srcs)) = total_es srcs.
Proof. induction srcs as [|s l IH]; [reflexivity|]. cbn [map concat total_es fold_right]. rewrite app_length, IH. reflexivity. Qed.

(* mtbl_source_iter on a merger: every source contributes its whole content *)
Theorem merger_iter_make_spec (srcs : list scur) :
  Forall fresh srcs ->
  exists it, merger_iter_make None srcs false = Some it /\ api_inv it /\
             Permutation (remaining it) (concat (map sc_es srcs)) /\ mi_finished it = false.
Proof.
  intros Hfresh. unfold merger_iter_make.
  assert (Hf : forall l : list nat, filter (fun i => negb (false && sc_null (get_src srcs i))) l = l).
  { induction l as [|x l IHl]; [reflexivity|]. cbn [filter andb negb]. f_equal. exact IHl. }
  rewrite Hf. cbn [andb].
  assert (Hinv0 : inv srcs []) by (unfold inv; splits; [exact H_nil|constructor|constructor|intros e []]).
  assert (Hids : forall i, In i (seq 0 (length srcs)) -> (i < length srcs)%nat /\ ~ In i (map he_src []) /\ fresh (get_src srcs i)).
  { intros i Hi. apply in_seq in Hi. splits; [lia|intros []|]. rewrite Forall_forall in Hfresh. apply Hfresh. unfold get_src. apply nth_In. lia. }
  pose proof (add_entries_spec (seq 0 (length srcs)) srcs [] [] Hinv0 ltac:(intros e []) (seq_NoDup _ _) Hids) as H.
  destruct (add_entries None srcs (seq 0 (length srcs)) [] []) as [[srcs' heap'] ents'].
  destruct H as (Hinv' & Hnf' & Hperm & Hes & Hlen). eexists. split; [reflexivity|].
  rewrite (map_nth_seq' sc_es srcs) in Hperm. cbn [rem map concat app] in Hperm.
  unfold remaining. cbn [mi_srcs mi_heap mi_finished]. splits; try reflexivity; try assumption.
  unfold api_inv. cbn [mi_srcs mi_heap mi_pending mi_finished]. splits; try assumption; try reflexivity; try discriminate.
  rewrite (Permutation_length Hperm), length_concat_es, (total_es_map _ _ Hes).
  assert (Hls : length srcs' = length srcs) by (rewrite <- (map_length sc_es srcs'), Hes, map_length; reflexivity).
  rewrite Hls, seq_length in *. cbn [length] in Hlen. lia.
Qed.

(* ---- the whole iteration ------------------------------------------------------------------------------ *)
Fixpoint mdrain (fuel : nat) (it : miter) : list entry :=
  match fuel with
  | O => []
  | S f => match merger_next (Some mf) None it with
           | (it', Some e) => e :: mdrain f it'
           | (_, None) => []
           end
  end.

Lemma mdrain_S f it : mdrain (S f) it =
  match merger_next (Some mf) None it with (it', Some e) => e :: mdrain f it' | (_, None) => [] end.
Proof. reflexivity. Qed.

Definition vals (k : bytes) (l : list entry) : list bytes := map snd (filter (fun e => beq (fst e) k) l).

Lemma vals_app k a b : vals k (a ++ b) = vals k a ++ vals k b.
Proof. unfold vals. rewrite filter_app, map_app. reflexivity. Qed.
Lemma vals_perm k a b : Permutation a b -> Permutation (vals k a) (vals k b).
Proof. intros H. unfold vals. apply Permutation_map, Permutation_filter, H. Qed.
Lemma vals_same k vs : vals k (map (pair k) vs) = vs.
Proof. induction vs as [|v vs IH]; [reflexivity|]. unfold vals in *. cbn [map filter fst]. unfold beq at 1. rewrite bcmp_refl. cbn [map snd]. rewrite IH. reflexivity. Qed.
Lemma vals_other k k' vs : k <> k' -> vals k' (map (pair k) vs) = [].
Proof.
  intros Hne. induction vs as [|v vs IH]; [reflexivity|]. unfold vals in *. cbn [map filter fst]. unfold beq at 1.
  destruct (bcmp k k') eqn:E; [apply bcmp_eq in E; contradiction| |]; exact IH.
Qed.
Lemma vals_none k l : (forall x, In x l -> bcmp k (fst x) = Lt) -> vals k l = [].
Proof.
  intros H. induction l as [|x l IH]; [reflexivity|]. unfold vals in *. cbn [filter]. unfold beq at 1.
  pose proof (H x (or_introl eq_refl)) as Hx. apply bcmp_lt_gt in Hx. rewrite Hx. apply IH. intros y Hy. apply H. right. exact Hy.
Qed.

Lemma fold_merge_total k : (forall a b, mf k a b <> None) -> forall vs a, fold_merge mf k a vs <> None.
Proof.
  intros Ht. induction vs as [|v vs IH]; intros a; cbn [fold_merge]; [discriminate|].
  destruct (mf k a v) eqn:E; [apply IH|exfalso; exact (Ht a v E)].
Qed.

Definition value_ok (l : list entry) (k v : bytes) : Prop :=
  exists first rest, Permutation (first :: rest) (vals k l) /\ fold_merge mf k first rest = Some v.

Theorem drain_spec : (forall k a b, mf k a b <> None) -> forall n it, api_inv it -> (length (remaining it) <= n)%nat ->
  let out := mdrain (S n) it in
  (forall k v, In (k, v) out -> value_ok (remaining it) k v) /\
  (forall k, In k (map fst out) <-> In k (map fst (remaining it))) /\
  StronglySorted (fun a b => bcmp (fst a) (fst b) = Lt) out.
Proof.
  intros Htot. induction n as [|n IH]; intros it Hapi Hlen; cbn zeta.
  - (* nothing remains *)
    cbn [mdrain]. pose proof (merger_next_step it Hapi) as Hstep.
    assert (Hnil : remaining it = []) by (destruct (remaining it); [reflexivity|cbn in Hlen; lia]).
    destruct (merger_next (Some mf) None it) as [it' [[k v]|]].
    + destruct Hstep as (first & rest & Hp & _). rewrite Hnil in Hp. apply Permutation_sym, Permutation_nil in Hp. discriminate.
    + rewrite Hnil. splits; [intros k v []|intros k; split; intros []|constructor].
  - rewrite mdrain_S. pose proof (merger_next_step it Hapi) as Hstep.
    destruct (merger_next (Some mf) None it) as [it' [[k v]|]].
    + destruct Hstep as (first & rest & Hp & Hfold & Hgt & Hapi' & _).
      assert (Hlen' : (length (remaining it') <= n)%nat).
      { pose proof (Permutation_length Hp) as L. cbn [length] in L. rewrite app_length in L. unfold entry in *. lia. }
      destruct (IH it' Hapi' Hlen') as (Hv & Hk & Hs). clear IH.
      assert (Hkeys' : forall x, In x (mdrain (S n) it') -> bcmp k (fst x) = Lt).
      { intros x Hx. assert (Hin : In (fst x) (map fst (remaining it'))) by (apply Hk, in_map, Hx).
        apply in_map_iff in Hin. destruct Hin as (y & Ey & Hy). rewrite <- Ey. apply Hgt, Hy. }
      splits.
      * intros k' v' [E|Hin].
        -- inversion E; subst k' v'. exists first, rest. split; [|exact Hfold].
           eapply Permutation_trans; [|apply vals_perm, Hp].
           change ((k, first) :: map (pair k) rest ++ remaining it') with (map (pair k) (first :: rest) ++ remaining it').
           rewrite vals_app, vals_same, (vals_none k _ Hgt), app_nil_r. reflexivity.
        -- destruct (Hv k' v' Hin) as (f' & r' & Hp' & Hf'). exists f', r'. split; [|exact Hf'].
           eapply Permutation_trans; [exact Hp'|]. eapply Permutation_trans; [|apply vals_perm, Hp].
           change ((k, first) :: map (pair k) rest ++ remaining it') with (map (pair k) (first :: rest) ++ remaining it').
           assert (Hne : k <> k').
           { intros ->. pose proof (Hkeys' (k', v') Hin) as H0. cbn [fst] in H0. rewrite bcmp_refl in H0. discriminate. }
           rewrite vals_app, (vals_other k k' _ Hne). reflexivity.
      * intros k'. cbn [map fst In]. rewrite Hk. split.
        -- intros [<-|Hin]; [|].
           ++ eapply Permutation_in; [apply Permutation_map, Hp|]. left. reflexivity.
           ++ eapply Permutation_in; [apply Permutation_map, Hp|]. cbn [map]. right. rewrite map_app. apply in_or_app. right. exact Hin.
        -- intros Hin. apply (Permutation_in _ (Permutation_map fst (Permutation_sym Hp))) in Hin. cbn [map fst] in Hin.
           destruct Hin as [E|Hin]; [left; exact E|]. rewrite map_app in Hin. apply in_app_or in Hin.
           destruct Hin as [Hin|Hin]; [|right; exact Hin]. left. rewrite map_map in Hin. cbn [fst] in Hin.
           apply in_map_iff in Hin. destruct Hin as (? & E & _). exact E.
      * constructor; [exact Hs|]. apply Forall_forall. exact Hkeys'.
    + destruct Hstep as [(Hnil & _)|(k & first & rest & v0 & others & _ & _ & Hfail)].
      * rewrite Hnil. splits; [intros k v []|intros k; split; intros []|constructor].
      * exfalso. exact (fold_merge_total k (Htot k) _ _ Hfail).
Qed.
End Merge.
