(* C12, bursts: CRC-32C as computed by the reference model detects every error pattern confined
   to 32 consecutive bits of a block's stored bytes followed by its checksum field.
   The register is a bit-serial machine: feeding a byte is feeding its eight bits, least
   significant first; feeding n <= 32 bits X into state d is n shifts of (d xor X); one shift is
   GF(2)-linear and injective on 32-bit states.  A consistent (bytes, field) pair drives the
   register to a fixed residue, so two consistent pairs differ by an input whose feed from state
   0 is 0 - and a non-zero burst never feeds to 0. *)
From Coq Require Import NArith ZArith List Lia Bool ZifyBool ZifyN ZifyNat.
From Mtbl Require Import model.Bytes model.Codec model.Crc spec.Leb128 proofs.BytesLemmas proofs.CodecProofs proofs.CrcProofs.
Local Open Scope N_scope.
Ltac Zify.zify_post_hook ::= Z.div_mod_to_equations.

Notation S1 := crc_step_bit.
Fixpoint Sn (n : nat) (c : N) : N := match n with O => c | S k => Sn k (S1 c) end.

Lemma Sn_add a b c : Sn (a + b) c = Sn b (Sn a c).
Proof. revert c. induction a as [|a IH]; intros c; [reflexivity|]. cbn [Nat.add Sn]. apply IH. Qed.
Lemma Sn_lxor n : forall a b, Sn n (N.lxor a b) = N.lxor (Sn n a) (Sn n b).
Proof. induction n as [|n IH]; intros a b; [reflexivity|]. cbn [Sn]. rewrite step_bit_lxor. apply IH. Qed.
Lemma Sn_0 n : Sn n 0 = 0.
Proof. induction n as [|n IH]; [reflexivity|]. cbn [Sn]. exact IH. Qed.
Lemma step8_Sn c : crc_step8 c = Sn 8 c.
Proof. reflexivity. Qed.

(* one shift keeps 32-bit states 32-bit and has a trivial kernel on them *)
Lemma S1_lt32 c : c < 4294967296 -> S1 c < 4294967296.
Proof.
  intros H. unfold crc_step_bit. assert (Hs : N.shiftr c 1 < 4294967296) by (rewrite N.shiftr_div_pow2; change (2 ^ 1) with 2; lia).
  destruct (N.odd c); [apply lxor_lt32; [exact Hs|reflexivity]|exact Hs].
Qed.
Lemma S1_inj0 c : c < 4294967296 -> S1 c = 0 -> c = 0.
Proof.
  intros H E. unfold crc_step_bit in E. rewrite <- N.div2_spec in E. pose proof (N.div2_odd c) as Hc.
  destruct (N.odd c) eqn:Eo; cbn [N.b2n] in Hc.
  - exfalso. apply N.lxor_eq in E. unfold CRC_POLY_REFLECTED in E. lia.
  - lia.
Qed.
Lemma Sn_lt32 n : forall c, c < 4294967296 -> Sn n c < 4294967296.
Proof. induction n as [|n IH]; intros c H; [exact H|]. cbn [Sn]. apply IH, S1_lt32, H. Qed.
Lemma Sn_inj0 n : forall c, c < 4294967296 -> Sn n c = 0 -> c = 0.
Proof. induction n as [|n IH]; intros c H E; [exact E|]. cbn [Sn] in E. apply S1_inj0; [exact H|]. apply IH; [apply S1_lt32, H|exact E]. Qed.

(* ---- feeding bits -------------------------------------------------------------------------------- *)
Fixpoint feed (n : nat) (d X : N) : N :=
  match n with
  | O => d
  | S k => feed k (S1 (N.lxor d (N.b2n (N.odd X)))) (N.div2 X)
  end.

Lemma split_low_bit X : X = N.lxor (N.b2n (N.odd X)) (2 * N.div2 X).
Proof.
  apply N.bits_inj_iff. intros i. rewrite N.lxor_spec. destruct (N.eq_dec i 0) as [->|Hi].
  - rewrite N.bit0_odd, N.testbit_even_0. rewrite N.bit0_odd. destruct (N.odd X); reflexivity.
  - rewrite <- (N.succ_pred i) by exact Hi. rewrite N.testbit_even_succ by lia.
    rewrite N.div2_spec, N.shiftr_spec by lia. rewrite N.add_1_r.
    assert (Hb : N.testbit (N.b2n (N.odd X)) (N.succ (N.pred i)) = false).
    { destruct (N.odd X); cbn [N.b2n]; [|apply N.bits_0]. change 1 with (2 * 0 + 1). rewrite N.testbit_odd_succ by lia. apply N.bits_0. }
    rewrite Hb. destruct (N.testbit X (N.succ (N.pred i))); reflexivity.
Qed.
Lemma lxor_b2n_odd d X : N.lxor d X = N.lxor (N.lxor d (N.b2n (N.odd X))) (2 * N.div2 X).
Proof. rewrite N.lxor_assoc. f_equal. apply split_low_bit. Qed.

Lemma feed_small : forall n d X, X < 2 ^ N.of_nat n -> feed n d X = Sn n (N.lxor d X).
Proof.
  induction n as [|n IH]; intros d X H.
  - cbn in H. assert (X = 0) by lia. subst. rewrite N.lxor_0_r. reflexivity.
  - cbn [feed Sn]. rewrite Nat2N.inj_succ, N.pow_succ_r' in H.
    rewrite IH by (rewrite N.div2_div; lia).
    f_equal. rewrite (lxor_b2n_odd d X) at 1. rewrite (step_bit_lxor (N.lxor d (N.b2n (N.odd X))) (2 * N.div2 X)), step_bit_double. reflexivity.
Qed.

Lemma feed_app : forall a b d X, feed (a + b) d X = feed b (feed a d X) (X / 2 ^ N.of_nat a).
Proof.
  induction a as [|a IH]; intros b d X; [cbn; rewrite N.div_1_r; reflexivity|].
  cbn [Nat.add feed]. rewrite IH. f_equal. rewrite Nat2N.inj_succ, N.pow_succ_r', N.div2_div, N.div_div by lia. reflexivity.
Qed.

Lemma div2_mod_pow2 X k : N.div2 (X mod 2 ^ N.succ k) = N.div2 X mod 2 ^ k.
Proof.
  apply N.bits_inj_iff. intros i. rewrite !N.div2_spec, N.shiftr_spec by lia.
  destruct (N.lt_ge_cases i k) as [Hi|Hi].
  - rewrite !N.mod_pow2_bits_low by lia. rewrite N.shiftr_spec by lia. reflexivity.
  - rewrite !N.mod_pow2_bits_high by lia. reflexivity.
Qed.
Lemma feed_mod : forall a d X, feed a d X = feed a d (X mod 2 ^ N.of_nat a).
Proof.
  induction a as [|a IH]; intros d X; [reflexivity|]. cbn [feed]. rewrite Nat2N.inj_succ.
  assert (Hodd : N.odd (X mod 2 ^ N.succ (N.of_nat a)) = N.odd X).
  { rewrite <- !N.bit0_odd. apply N.mod_pow2_bits_low. lia. }
  rewrite Hodd, div2_mod_pow2. apply IH.
Qed.

Lemma feed_lxor : forall n d d' X X', feed n (N.lxor d d') (N.lxor X X') = N.lxor (feed n d X) (feed n d' X').
Proof.
  induction n as [|n IH]; intros d d' X X'; [reflexivity|]. cbn [feed].
  rewrite odd_lxor, !N.div2_spec, N.shiftr_lxor, <- IH. f_equal. rewrite <- step_bit_lxor. f_equal.
  destruct (N.odd X), (N.odd X'); cbn [xorb N.b2n]; rewrite ?N.lxor_0_r.
  - symmetry. apply lxor_cancel_p.
  - apply lxor_move_p.
  - apply lxor_assoc_p.
  - reflexivity.
Qed.

Lemma feed_zero n d : feed n d 0 = Sn n d.
Proof. rewrite feed_small by (apply N.neq_0_lt_0, N.pow_nonzero; lia). rewrite N.lxor_0_r. reflexivity. Qed.

(* ---- bytes are bits ------------------------------------------------------------------------------- *)
Lemma crc_byte_feed c b : b < 256 -> crc_byte c b = feed 8 c b.
Proof. intros H. rewrite feed_small by exact H. reflexivity. Qed.

Lemma crc_update_feed : forall l c, wf_bytes l -> crc_update c l = feed (8 * length l) c (le_value l).
Proof.
  induction l as [|b l IH]; intros c H; [reflexivity|]. inversion H as [|? ? Hb Hl]; subst. unfold wf_byte in Hb.
  unfold crc_update. cbn [fold_left length le_value]. fold (crc_update (crc_byte c b) l).
  replace (8 * S (length l))%nat with (8 + 8 * length l)%nat by lia. rewrite feed_app.
  change (2 ^ N.of_nat 8) with 256. replace ((b + 256 * le_value l) / 256) with (le_value l) by lia.
  rewrite (feed_mod 8). change (2 ^ N.of_nat 8) with 256. replace ((b + 256 * le_value l) mod 256) with b by lia.
  rewrite <- crc_byte_feed by exact Hb. apply IH, Hl.
Qed.

Lemma le_value_bound : forall l, wf_bytes l -> le_value l < 2 ^ N.of_nat (8 * length l).
Proof.
  induction l as [|b l IH]; intros H; [cbn; lia|]. inversion H as [|? ? Hb Hl]; subst. unfold wf_byte in Hb. specialize (IH Hl).
  cbn [le_value length]. replace (8 * S (length l))%nat with (8 + 8 * length l)%nat by lia.
  rewrite Nat2N.inj_add, N.pow_add_r. change (2 ^ N.of_nat 8) with 256. lia.
Qed.

Lemma le_value_inj : forall a b, wf_bytes a -> wf_bytes b -> length a = length b -> le_value a = le_value b -> a = b.
Proof.
  induction a as [|x a IH]; intros [|y b] Ha Hb Hl E; try discriminate; [reflexivity|].
  inversion Ha as [|? ? Hx Ha']; inversion Hb as [|? ? Hy Hb']; subst. unfold wf_byte in *. cbn [le_value] in E.
  assert (x = y /\ le_value a = le_value b) as [-> E'] by lia. f_equal. apply IH; try assumption. cbn in Hl. lia.
Qed.

Lemma app_eq_len {A} : forall (a a' b b' : list A), length a = length a' -> a ++ b = a' ++ b' -> a = a' /\ b = b'.
Proof.
  induction a as [|x a IH]; intros [|y a'] b b' Hl E; try discriminate; [split; [reflexivity|exact E]|].
  cbn [app] in E. inversion E; subst. destruct (IH a' b b' ltac:(cbn in Hl; lia) H1) as [-> ->]. split; reflexivity.
Qed.

(* ---- the residue of a consistent (bytes, field) pair ---------------------------------------------- *)
Definition framed (s : bytes) (f : N) : bytes := s ++ fixed_encode32 f.

Lemma residue s f : wf_bytes s -> f < 2 ^ 32 ->
  crc_update CRC_MASK (framed s f) = Sn 32 (N.lxor (crc_update CRC_MASK s) f).
Proof.
  intros Hs Hf. unfold framed. rewrite crc_update_app.
  destruct (fixed_encode32_le f Hf) as (Hl & Hv & Hw).
  rewrite (crc_update_feed (fixed_encode32 f)) by exact Hw. rewrite Hl, Hv.
  apply feed_small. exact Hf.
Qed.

Lemma consistent_iff s f : wf_bytes s -> f < 2 ^ 32 ->
  (f = crc32c_ref s <-> crc_update CRC_MASK (framed s f) = Sn 32 CRC_MASK).
Proof.
  intros Hs Hf. rewrite (residue s f Hs Hf). unfold crc32c_ref.
  assert (Hc : crc_update CRC_MASK s < 4294967296) by (apply crc_update_lt32; [reflexivity|exact Hs]).
  split.
  - intros ->. f_equal. rewrite <- N.lxor_assoc, N.lxor_nilpotent, N.lxor_0_l. reflexivity.
  - intros E.
    assert (E0 : Sn 32 (N.lxor (N.lxor (crc_update CRC_MASK s) f) CRC_MASK) = 0) by (rewrite Sn_lxor, E; apply N.lxor_nilpotent).
    apply Sn_inj0 in E0; [|apply lxor_lt32; [apply lxor_lt32; [exact Hc|exact Hf]|reflexivity]].
    apply N.lxor_eq in E0. set (c := crc_update CRC_MASK s) in *. clearbody c. rewrite <- E0, <- N.lxor_assoc, N.lxor_nilpotent, N.lxor_0_l. reflexivity.
Qed.

Lemma lxor_lt_pow2 a b n : a < 2 ^ n -> b < 2 ^ n -> N.lxor a b < 2 ^ n.
Proof.
  intros Ha Hb. destruct (N.eq_dec (N.lxor a b) 0) as [->|Hne]; [apply N.neq_0_lt_0, N.pow_nonzero; lia|].
  assert (Hn : 0 < n).
  { destruct (N.eq_dec n 0) as [->|]; [|lia]. change (2 ^ 0) with 1 in *. assert (a = 0) by lia. assert (b = 0) by lia. subst. cbn in Hne. congruence. }
  apply N.log2_lt_pow2; [lia|]. eapply N.le_lt_trans; [apply N.log2_lxor|].
  apply N.max_lub_lt.
  - destruct (N.eq_dec a 0) as [->|Ha0]; [exact Hn|apply N.log2_lt_pow2; [lia|exact Ha]].
  - destruct (N.eq_dec b 0) as [->|Hb0]; [exact Hn|apply N.log2_lt_pow2; [lia|exact Hb]].
Qed.

(* ---- bursts ------------------------------------------------------------------------------------------ *)
(* E < 2^n, all its bits inside [lo, lo + 32): feeding it from state 0 gives 0 only for E = 0 *)
Lemma burst_feed n lo E : E < 2 ^ N.of_nat n ->
  (forall i, (i < N.of_nat lo \/ N.of_nat lo + 32 <= i) -> N.testbit E i = false) ->
  feed n 0 E = 0 -> E = 0.
Proof.
  intros Hb Hbits Hfeed.
  destruct (Nat.le_gt_cases n lo) as [Hge|Hlt].
  - (* the window lies beyond the end *)
    apply N.bits_inj_0. intros i. destruct (N.lt_ge_cases i (N.of_nat lo)) as [Hi|Hi]; [apply Hbits; left; exact Hi|].
    destruct (N.eq_dec E 0) as [->|Hne]; [apply N.bits_0|]. apply N.bits_above_log2. apply N.log2_lt_pow2 in Hb; lia.
  - set (W := E / 2 ^ N.of_nat lo).
    assert (Hlow : E mod 2 ^ N.of_nat lo = 0).
    { apply N.bits_inj_0. intros i. destruct (N.lt_ge_cases i (N.of_nat lo)) as [Hi|Hi].
      - rewrite N.mod_pow2_bits_low by exact Hi. apply Hbits. left. exact Hi.
      - apply N.mod_pow2_bits_high. exact Hi. }
    assert (HE : E = W * 2 ^ N.of_nat lo) by (unfold W; pose proof (N.div_mod E (2 ^ N.of_nat lo) ltac:(apply N.pow_nonzero; lia)); lia).
    assert (HW32 : W < 2 ^ 32).
    { destruct (N.eq_dec W 0) as [->|Hne]; [reflexivity|]. apply N.log2_lt_pow2; [lia|].
      destruct (N.lt_ge_cases (N.log2 W) 32) as [H|H]; [exact H|]. exfalso.
      pose proof (N.bit_log2 W Hne) as Hbit. unfold W in Hbit. rewrite N.div_pow2_bits in Hbit.
      rewrite Hbits in Hbit; [discriminate|]. right. fold W. lia. }
    assert (HWm : W < 2 ^ N.of_nat (n - lo)).
    { unfold W. apply N.div_lt_upper_bound; [apply N.pow_nonzero; lia|]. rewrite <- N.pow_add_r. replace (N.of_nat lo + N.of_nat (n - lo)) with (N.of_nat n) by lia. exact Hb. }
    replace n with (lo + (n - lo))%nat in Hfeed by lia. rewrite feed_app in Hfeed. fold W in Hfeed.
    rewrite (feed_mod lo), Hlow, feed_zero, Sn_0 in Hfeed.
    assert (HW0 : W = 0).
    { destruct (Nat.le_gt_cases (n - lo) 32) as [Hm|Hm].
      - rewrite feed_small in Hfeed by exact HWm. rewrite N.lxor_0_l in Hfeed. apply (Sn_inj0 (n - lo)); [exact HW32|exact Hfeed].
      - replace (n - lo)%nat with (32 + (n - lo - 32))%nat in Hfeed by lia. rewrite feed_app in Hfeed.
        rewrite (feed_small 32 0 W) in Hfeed by exact HW32. rewrite N.lxor_0_l in Hfeed.
        rewrite (N.div_small W) in Hfeed by exact HW32. rewrite feed_zero in Hfeed.
        apply (Sn_inj0 32); [exact HW32|]. apply (Sn_inj0 (n - lo - 32)); [apply Sn_lt32; exact HW32|exact Hfeed]. }
    rewrite HE, HW0. reflexivity.
Qed.

(* T12c: a consistent (stored bytes, checksum field) pair and a different pair of the same length whose
   bits - stored bytes followed by the little-endian field, read as one number - differ only inside
   some window of 32 consecutive bit positions: the second pair is not consistent *)
Theorem burst_detected s s' f' lo : wf_bytes s -> wf_bytes s' -> f' < 2 ^ 32 -> length s = length s' ->
  (s, crc32c_ref s) <> (s', f') ->
  (forall i, (i < N.of_nat lo \/ N.of_nat lo + 32 <= i) ->
     N.testbit (N.lxor (le_value (framed s (crc32c_ref s))) (le_value (framed s' f'))) i = false) ->
  f' <> crc32c_ref s'.
Proof.
  intros Hs Hs' Hf' Hlen Hne Hbits Hcons.
  assert (Hf : crc32c_ref s < 2 ^ 32).
  { unfold crc32c_ref. apply lxor_lt32; [apply crc_update_lt32; [reflexivity|exact Hs]|reflexivity]. }
  pose proof (proj1 (consistent_iff s _ Hs Hf) eq_refl) as R1.
  pose proof (proj1 (consistent_iff s' f' Hs' Hf') Hcons) as R2.
  destruct (fixed_encode32_le _ Hf) as (Hl1 & _ & Hw1). destruct (fixed_encode32_le _ Hf') as (Hl2 & _ & Hw2).
  assert (Hwt : wf_bytes (framed s (crc32c_ref s))) by (apply Forall_app; split; assumption).
  assert (Hwt' : wf_bytes (framed s' f')) by (apply Forall_app; split; assumption).
  assert (Hlt : length (framed s (crc32c_ref s)) = length (framed s' f')) by (unfold framed; rewrite !app_length, Hl1, Hl2, Hlen; reflexivity).
  rewrite (crc_update_feed _ CRC_MASK Hwt) in R1. rewrite (crc_update_feed _ CRC_MASK Hwt') in R2. rewrite <- Hlt in R2.
  set (n := (8 * length (framed s (crc32c_ref s)))%nat) in *.
  set (X := le_value (framed s (crc32c_ref s))) in *. set (X' := le_value (framed s' f')) in *.
  assert (Hfeed : feed n 0 (N.lxor X X') = 0).
  { rewrite <- (N.lxor_nilpotent CRC_MASK), feed_lxor, R1, R2. apply N.lxor_nilpotent. }
  assert (HXb : X < 2 ^ N.of_nat n) by (apply le_value_bound, Hwt).
  assert (HXb' : X' < 2 ^ N.of_nat n) by (unfold n; rewrite Hlt; apply le_value_bound, Hwt').
  assert (HEb : N.lxor X X' < 2 ^ N.of_nat n) by (apply lxor_lt_pow2; assumption).
  pose proof (burst_feed n lo _ HEb Hbits Hfeed) as E0. apply N.lxor_eq in E0.
  apply (le_value_inj _ _ Hwt Hwt' Hlt) in E0. unfold framed in E0.
  destruct (app_eq_len _ _ _ _ Hlen E0) as [Es Ef]. apply Hne. rewrite <- Es. f_equal.
  destruct (fixed_encode32_le _ Hf) as (_ & Hv1 & _). destruct (fixed_encode32_le _ Hf') as (_ & Hv2 & _).
  rewrite <- Hv1, <- Hv2, Ef. reflexivity.
Qed.
