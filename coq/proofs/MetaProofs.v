From Coq Require Import NArith ZArith List Lia ZifyBool ZifyN ZifyNat.
From Mtbl Require Import gen.Consts model.Bytes model.Codec model.Order model.Block model.Crc model.Writer
  spec.Leb128 proofs.BytesLemmas proofs.CodecProofs proofs.WriterProofs.
Local Open Scope N_scope.
Ltac Zify.zify_post_hook ::= Z.div_mod_to_equations.

(* ---------------- T10b: the trailer decodes to what was stored --------------------- *)
Definition meta_small (m : meta) : Prop :=
  m_index_block_offset m < 2 ^ 64 /\ m_data_block_size m < 2 ^ 64 /\ m_compression_algorithm m < 2 ^ 64 /\
  m_count_entries m < 2 ^ 64 /\ m_count_data_blocks m < 2 ^ 64 /\ m_bytes_data_blocks m < 2 ^ 64 /\
  m_bytes_index_block m < 2 ^ 64 /\ m_bytes_keys m < 2 ^ 64 /\ m_bytes_values m < 2 ^ 64.

Lemma fixed64_decode_app v rest : v < 2 ^ 64 ->
  fixed_decode64 (fixed_encode64 v ++ rest) = Some v /\ drop 8 (fixed_encode64 v ++ rest) = rest.
Proof.
  intros H. split; [apply fixed64_roundtrip, H|]. apply drop_app_len, len_fixed64.
Qed.

Lemma metadata_roundtrip m : meta_small m ->
  metadata_read (metadata_write m) = Some (FORMAT_V2, m) /\ len (metadata_write m) = MTBL_METADATA_SIZE.
Proof.
  intros (H0 & H1 & H2 & H3 & H4 & H5 & H6 & H7 & H8).
  destruct m as [a0 a1 a2 a3 a4 a5 a6 a7 a8].
  cbn [m_index_block_offset m_data_block_size m_compression_algorithm m_count_entries m_count_data_blocks
       m_bytes_data_blocks m_bytes_index_block m_bytes_keys m_bytes_values] in *.
  unfold metadata_write, META_WRITE_ORDER, META_WRITE_MAGIC, MTBL_METADATA_SIZE.
  cbn [map concat meta_field m_index_block_offset m_data_block_size m_compression_algorithm m_count_entries m_count_data_blocks
       m_bytes_data_blocks m_bytes_index_block m_bytes_keys m_bytes_values]. rewrite app_nil_r.
  set (fields := fixed_encode64 a0 ++ _).
  assert (Hlen : len fields = 72) by (subst fields; rewrite !len_app, !len_fixed64; reflexivity).
  rewrite Hlen. change (512 - 72 - 4) with 436.
  split.
  2:{ rewrite !len_app, Hlen, len_repeat, len_fixed32. reflexivity. }
  unfold metadata_read, MTBL_METADATA_SIZE. change (512 - 4) with 508.
  assert (Hdrop : drop 508 (fields ++ repeat 0 (N.to_nat 436) ++ fixed_encode32 1297367628) = fixed_encode32 1297367628).
  { rewrite app_assoc. apply drop_app_len. rewrite len_app, Hlen, len_repeat. reflexivity. }
  rewrite Hdrop. rewrite <- (app_nil_r (fixed_encode32 1297367628)), fixed32_roundtrip by (cbn; lia).
  unfold MTBL_MAGIC_V1, MTBL_MAGIC.
  change (1297367628 =? 2005165686) with false. change (1297367628 =? 1297367628) with true. cbv iota.
  unfold META_READ_ORDER.
  subst fields. rewrite <- !app_assoc.
  cbn [meta_read_fields].
  repeat (match goal with |- context [fixed_decode64 (fixed_encode64 ?v ++ ?r)] =>
            destruct (fixed64_decode_app v r ltac:(assumption)) as [-> Edrop]; try rewrite Edrop; clear Edrop end).
  cbv [meta_set meta_zero m_index_block_offset m_data_block_size m_compression_algorithm m_count_entries
       m_count_data_blocks m_bytes_data_blocks m_bytes_index_block m_bytes_keys m_bytes_values].
  reflexivity.
Qed.

Lemma metadata_write_len m : len (metadata_write m) = 512.
Proof.
  unfold metadata_write, META_WRITE_ORDER, META_WRITE_MAGIC, MTBL_METADATA_SIZE.
  cbn [map concat]. rewrite app_nil_r.
  set (fields := fixed_encode64 (meta_field m 0) ++ _).
  assert (Hlen : len fields = 72) by (subst fields; rewrite !len_app, !len_fixed64; reflexivity).
  rewrite Hlen. change (512 - 72 - 4) with 436.
  rewrite !len_app, Hlen, len_repeat, len_fixed32. reflexivity.
Qed.
