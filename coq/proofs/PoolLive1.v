(* Tier 5, definitions: the invariant behind deadlock freedom (for schedules in which a
   signal wakes a waiter whenever one exists). *)
From Coq Require Import NArith List Lia ZifyBool ZifyN ZifyNat Bool Arith.
From Mtbl Require Import model.Bytes model.Pool proofs.PoolBase proofs.PoolSched proofs.PoolInv proofs.PoolLife proofs.PoolStep2 proofs.PoolAbort proofs.PoolDelivery.
Import ListNotations.

(* a signal wakes a thread blocked on that very condition variable, if there is one *)
Definition wake_fair (st : pstate) (t : nat) (wake : option nat) : Prop :=
  t_op (gett st t) = KSignal ->
  match wake with
  | Some u => t_blocked (gett st u) = Some (t_obj (gett st t))
  | None => forall u, t_blocked (gett st u) <> Some (t_obj (gett st t))
  end.
Fixpoint sched_fair (st : pstate) (stash : list (nat * N)) (s : list sched_step) : Prop :=
  match s with
  | [] => True
  | SRun t w :: tl => wake_ok st t w /\ wake_fair st t w /\
                      match pstep st t w stash with
                      | Some (st', _, _, stash') => sched_fair st' stash' tl
                      | None => True
                      end
  | SSpurious t :: tl => match pspurious st t with Some st' => sched_fair st' stash tl | None => True end
  end.

Definition two64 : N := 18446744073709551616%N.

(* ---------- lost wake-ups ---------- *)
(* which pending signal serves which waiter: the worker's condition is used in both directions *)
Definition serves (ly l : label) : bool :=
  match l, ly with
  | W1 i, D5s _ i' | W1 i, P3s i' => Nat.eqb i i'
  | H4 _ i, W4os i' => Nat.eqb i i'
  | H1 j, D7s j' | H1 j, F1s j' | H1 j, W4us _ j' => Nat.eqb j j'
  | D1 _, H7s _ _ | P1, H7s _ _ => true
  | _, _ => false
  end.
Definition sig_pending (st : pstate) (l : label) : Prop :=
  exists y, t_done (gett st y) = false /\ t_op (gett st y) = KSignal /\ serves (t_lab (gett st y)) l = true.
Definition waiting (th : thread) : Prop := t_blocked th <> None \/ t_op th = KWait.
Definition wpred (st : pstate) (l : label) : Prop :=
  match l with
  | W1 i => wk_running (getw st i) = false \/ sig_pending st l
  | H4 _ i => wk_running (getw st i) = true \/ sig_pending st l
  | H1 j => (q_list (getq st j) = [] /\ (q_finished (getq st j) && (q_nthreads (getq st j) =? 0)%N) = false) \/ sig_pending st l
  | D1 _ => (ps_idle st = [] /\ ps_count st = ps_max st) \/ sig_pending st l
  | P1 => ps_idle st = [] \/ sig_pending st l
  | _ => True
  end.

(* the condition a blocked thread waits on is the one its label says *)
Definition lab_cond (l : label) : obj :=
  match l with D1 _ | P1 => OPoolC | W1 i | H4 _ i => OWc i | H1 j => OQc j | _ => ONone end.

(* ---------- accounting ---------- *)
Definition rq_is_q (w : worker) (q : nat) : bool := match wk_rq w with Some q' => Nat.eqb q' q | None => false end.
Definition w4u_is_q (l : label) (q : nat) : bool := match l with W4u _ q' => Nat.eqb q' q | _ => false end.
(* unordered workers dispatched to q that have not queued themselves yet *)
Definition selfn (st : pstate) (q : nat) : nat :=
  (sumf (fun w => b2n (rq_is_q w q)) (ps_workers st) + sumf (fun th => b2n (w4u_is_q (t_lab th) q)) (ps_threads st))%nat.
Definition pendn (st : pstate) (q : nat) : nat :=
  match lab_pending (t_lab (gett st 0)) with Some (q', _) => b2n (Nat.eqb q' q) | None => 0%nat end.
Definition nondying (st : pstate) : nat := sumf (fun w => b2n (negb (dying w))) (ps_workers st).
Definition count_extra (l : label) : nat := match l with D3 _ _ true | P3s _ | P4 _ | P5 => 1%nat | _ => 0%nat end.

Definition plabel (l : label) : bool := match l with P1 | P3 _ | P3s _ | P4 _ | P5 | P6 => true | _ => false end.
Definition is_F1 (l : label) (q : nat) : bool := match l with F1 q' => Nat.eqb q' q | _ => false end.
Definition is_F1sF2 (l : label) (q : nat) : bool := match l with F1s q' | F2 q' => Nat.eqb q' q | _ => false end.
Definition is_P3sP4 (l : label) (i : nat) : bool := match l with P3s i' | P4 i' => Nat.eqb i' i | _ => false end.
Definition finl (st : pstate) : list nat :=
  filter (fun q => q_finished (getq st q) || is_F1 (t_lab (gett st 0)) q) (seq 0 (length (ps_queues st))).
Definition has_destroy (p : list cmd) : bool := existsb (fun c => match c with DestroyPool => true | _ => false end) p.

Record Inv5 (st : pstate) : Prop := {
  l_cond : forall x c, t_blocked (gett st x) = Some c -> c = lab_cond (t_lab (gett st x));
  l_wake : forall x, waiting (gett st x) -> wpred st (t_lab (gett st x));
  l_nthreads : forall q, (q < length (ps_queues st))%nat ->
     (q_nthreads (getq st q) < two64)%N /\
     if q_ordered (getq st q) then q_nthreads (getq st q) = (N.of_nat (length (q_list (getq st q))) mod two64)%N
     else ((q_nthreads (getq st q) + N.of_nat (pendn st q)) mod two64 =
           N.of_nat (length (q_list (getq st q)) + selfn st q) mod two64)%N;
  l_count : ps_count st = N.of_nat (nondying st + count_extra (t_lab (gett st 0))) /\ (ps_count st <= ps_max st)%N;
  l_drained : forall q, (q < length (ps_queues st))%nat -> t_lab (gett st (q_tid (getq st q))) = LDone ->
     q_finished (getq st q) = true /\ q_list (getq st q) = [] /\ selfn st q = 0%nat /\ pendn st q = 0%nat;
  l_joined : forall q, (q < length (ps_queues st))%nat -> q_finished (getq st q) = true ->
     is_F1sF2 (t_lab (gett st 0)) q = true \/
     (t_lab (gett st 0) = F3 /\ t_obj (gett st 0) = OThread (q_tid (getq st q))) \/
     t_done (gett st (q_tid (getq st q))) = true;
  l_finishing : forall q, is_F1sF2 (t_lab (gett st 0)) q = true -> (q < length (ps_queues st))%nat /\ q_finished (getq st q) = true;
  l_f3 : t_lab (gett st 0) = F3 -> exists q, (q < length (ps_queues st))%nat /\
     t_obj (gett st 0) = OThread (q_tid (getq st q)) /\ q_finished (getq st q) = true;
  l_pphase : plabel (t_lab (gett st 0)) = true \/ t_lab (gett st 0) = LDone -> forall q, (q < length (ps_queues st))%nat ->
     q_finished (getq st q) = true /\ t_done (gett st (q_tid (getq st q))) = true;
  l_prog : pwf_full (length (ps_queues st)) (finl st) (ps_prog st) = true;
  l_destroy : has_destroy (ps_prog st) = true \/ plabel (t_lab (gett st 0)) = true \/
              (t_lab (gett st 0) = LDone /\ ps_count st = 0%N);
  l_p5 : t_lab (gett st 0) = P5 -> exists i, (i < length (ps_workers st))%nat /\
     t_obj (gett st 0) = OThread (wk_tid (getw st i)) /\ dying (getw st i) = true;
  l_p34 : forall i, is_P3sP4 (t_lab (gett st 0)) i = true -> (i < length (ps_workers st))%nat /\ dying (getw st i) = true;
  l_nodying : forall i, (i < length (ps_workers st))%nat -> dying (getw st i) = true ->
     plabel (t_lab (gett st 0)) = true \/ t_lab (gett st 0) = LDone;
  l_p1 : t_lab (gett st 0) = P1 -> waiting (gett st 0) -> (0 < ps_count st)%N;
  l_handler : forall q, (q < length (ps_queues st))%nat ->
     (q_tid (getq st q) < length (ps_threads st))%nat /\
     (lab_handler (t_lab (gett st (q_tid (getq st q)))) = Some q \/ t_lab (gett st (q_tid (getq st q))) = LDone);
  l_caller : caller_lab (t_lab (gett st 0)) = true \/ t_lab (gett st 0) = LDone;
  l_done0 : t_lab (gett st 0) = LDone -> ps_prog st = [];
  l_f1 : forall q, t_lab (gett st 0) = F1 q -> (q < length (ps_queues st))%nat;
  l_p6 : t_lab (gett st 0) = P6 -> ps_count st = 0%N;
  l_pprog : plabel (t_lab (gett st 0)) = true -> ps_prog st = [];
  l_d5s : forall q i, t_lab (gett st 0) = D5s q i -> q_ordered (getq st q) = false -> wk_rq (getw st i) = Some q;
}.
