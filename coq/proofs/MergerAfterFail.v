(* merger.c: the iterator state AFTER a call of merger_iter_next in which the user's merge function
   failed.  The C code returns failure at once and leaves the iterator as it is: pending = true,
   cur_key = k, cur_val = the partial fold, the heap root still holding the entry (k, v0) whose
   merge failed.  The caller may go on calling next(): the next call resets cur_key / cur_val /
   pending at its start.  MergerProofs.merger_next_step / MergerClosed.merger_next_closed say only
   what the failed call returns; here:
     merger_next_ignores_pending   - a call does not read pending / cur_key / cur_val;
     merger_next_failure_state     - after a failed call exactly the values already folded are gone,
                                     the entry whose merge failed and everything else is still there,
                                     and the state (pending / cur_* reset) is again a state `api`;
     merger_runs_exact / merger_after_failure_sound
                                   - over any number of calls, failures included, what is delivered
                                     are folds over DISJOINT sub-multisets of what the sources held. *)
From Coq Require Import NArith List Lia Permutation.
From Mtbl Require Import model.Bytes model.Order model.Heap model.Merger spec.MergeSpec proofs.OrderProofs
  proofs.HeapProofs proofs.MergerProofs proofs.MergerClosed.
Local Open Scope N_scope.

(* the state as the next call sees it: cur_key / cur_val / pending reset *)
Definition clear (it : miter) : miter :=
  mkmi (mi_srcs it) (mi_heap it) (mi_entries it) [] [] (mi_finished it) false.

Lemma remaining_clear it : remaining (clear it) = remaining it.
Proof. reflexivity. Qed.

(* ---- 1. a call does not depend on pending / cur_key / cur_val ------------------------------------ *)
Lemma merger_next_clear_eq mfo ds it :
  merger_next mfo ds it = if mi_finished it then (it, None) else merger_next mfo ds (clear it).
Proof.
  unfold merger_next. destruct (mi_finished it) eqn:Ef; [reflexivity|].
  unfold clear, total_remaining. cbn [mi_srcs mi_heap mi_entries mi_finished]. rewrite Ef. reflexivity.
Qed.

Theorem merger_next_ignores_pending mfo ds it : mi_finished it = false ->
  merger_next mfo ds it =
  merger_next mfo ds (mkmi (mi_srcs it) (mi_heap it) (mi_entries it) [] [] (mi_finished it) false).
Proof. intros Hf. fold (clear it). rewrite (merger_next_clear_eq mfo ds it), Hf. reflexivity. Qed.

(* a finished iterator: the call returns at once, state untouched *)
Lemma merger_next_finished mfo ds it : mi_finished it = true -> merger_next mfo ds it = (it, None).
Proof. intros Hf. unfold merger_next. rewrite Hf. reflexivity. Qed.

Lemma fold_merge_snoc mf k : forall vs a c v0,
  fold_merge mf k a vs = Some c -> mf k c v0 = None -> fold_merge mf k a (vs ++ [v0]) = None.
Proof.
  induction vs as [|v vs IH]; intros a c v0 Hf Hm; cbn [fold_merge app] in *.
  - inversion Hf; subst c. rewrite Hm. reflexivity.
  - destruct (mf k a v) as [a'|]; [exact (IH a' c v0 Hf Hm)|discriminate].
Qed.

(* ---- 2. the merger over a heap that meets its contract (the contract of MergerProofs) ------------ *)
Section Fail.
Variable mf : bytes -> bytes -> bytes -> option bytes.
Local Notation cmp := (mcmp None).
Local Notation hpush := (heap_push hent cmp dummy_he).
Local Notation hpop := (heap_pop hent cmp dummy_he).
Local Notation hreplace := (heap_replace hent cmp dummy_he).

Variable hok : list hent -> Prop.
Hypothesis H_push : forall h x, hok h -> hok (hpush h x) /\ Permutation (hpush h x) (x :: h).
Hypothesis H_pop : forall r t, hok (r :: t) -> hok (hpop (r :: t)) /\ Permutation (hpop (r :: t)) t.
Hypothesis H_replace : forall r t x, hok (r :: t) -> hok (hreplace (r :: t) x) /\ Permutation (hreplace (r :: t) x) (x :: t).
Hypothesis H_min : forall r t y, hok (r :: t) -> In y t -> cmp r y <> Gt.
Hypothesis H_mark : forall r t r', hok (r :: t) -> he_key r' = he_key r -> hok (r' :: t).

Local Notation inv := (inv hok).
Local Notation api_inv := (api_inv hok).
Local Notation pop_spec := (pop_finished_spec hok H_push H_pop H_replace H_min H_mark).
Local Notation refill_spec := (refill_root_spec mf hok H_push H_pop H_replace H_min H_mark).
Local Notation root_min := (root_min hok H_push H_pop H_replace H_min H_mark).

(* loop_pending of MergerProofs, with the state after a failure of the merge function: the heap
   root is the entry whose merge failed, cur_val the fold of the values consumed so far *)
Lemma loop_pending_strong : forall fuel it k a,
  inv (mi_srcs it) (mi_heap it) -> mi_pending it = true -> mi_cur_key it = k -> mi_cur_val it = a ->
  (forall x, In x (rem (mi_srcs it) (mi_heap it)) -> bcmp k (fst x) <> Gt) ->
  (length (rem (mi_srcs it) (mi_heap it)) + length (mi_heap it) < fuel)%nat ->
  let '(it', ok) := next_loop (Some mf) None fuel it in
  exists vs,
    Permutation (map (pair k) vs ++ rem (mi_srcs it') (mi_heap it')) (rem (mi_srcs it) (mi_heap it)) /\
    inv (mi_srcs it') (mi_heap it') /\ nofin (mi_heap it') /\
    mi_pending it' = true /\ mi_cur_key it' = k /\ map sc_es (mi_srcs it') = map sc_es (mi_srcs it) /\
    (mi_finished it' = true -> mi_heap it' = [] \/ mi_finished it = true) /\
    (length (mi_heap it') <= length (mi_heap it))%nat /\
    mi_entries it' = mi_entries it /\
    fold_merge mf k a vs = Some (mi_cur_val it') /\
    if ok then (forall x, In x (rem (mi_srcs it') (mi_heap it')) -> bcmp k (fst x) = Lt)
    else exists v0 e t, mi_heap it' = e :: t /\ he_key e = k /\ he_val e = v0 /\ he_fin e = false /\
                        In (k, v0) (rem (mi_srcs it') (mi_heap it')) /\ mf k (mi_cur_val it') v0 = None.
Proof.
  induction fuel as [|fuel IH]; intros it k a Hinv Hp Hk Ha Hmin Hfuel; [lia|].
  cbn [next_loop].
  destruct (pop_spec (mi_srcs it) (mi_heap it) (length (mi_heap it)) Hinv) as (Hinv1 & Hnf1 & Hperm1 & Hlen1).
  set (heap1 := pop_finished None (S (length (mi_heap it))) (mi_heap it)) in *.
  destruct heap1 as [|e t] eqn:Eh.
  - (* nothing left *)
    exists []. cbn [mi_srcs mi_heap mi_pending mi_cur_key mi_cur_val mi_finished mi_entries map app].
    split; [exact Hperm1|]. split; [exact Hinv1|]. split; [exact Hnf1|]. split; [first [exact Hp|reflexivity]|]. split; [first [exact Hk|reflexivity]|]. split; [reflexivity|].
    split; [intros _; left; reflexivity|]. split; [exact Hlen1|]. split; [reflexivity|].
    split; [cbn [fold_merge]; rewrite Ha; reflexivity|intros x []].
  - rewrite Hp. cbn [negb].
    assert (Hmin1 : forall x, In x (rem (mi_srcs it) (e :: t)) -> bcmp k (fst x) <> Gt).
    { intros x Hx. apply Hmin. eapply Permutation_in; [exact Hperm1|exact Hx]. }
    destruct (beq (mi_cur_key it) (he_key e)) eqn:Ebeq.
    + (* same key: fold its value in *)
      assert (Eke : he_key e = k).
      { unfold beq in Ebeq. rewrite Hk in Ebeq. destruct (bcmp k (he_key e)) eqn:E; try discriminate. symmetry. apply bcmp_eq, E. }
      rewrite Hk, Ha.
      destruct (mf k a (he_val e)) as [merged|] eqn:Emf.
      * pose proof (refill_spec (mi_srcs it) e t Hinv1 Hnf1) as Hrf.
        destruct (refill_root None (mi_srcs it) (e :: t)) as [srcs' heap'] eqn:Erf.
        destruct Hrf as (Hinv2 & Hperm2 & Hlen2 & Hlens & Hes2).
        set (it2 := mkmi srcs' heap' (mi_entries it) k merged (mi_finished it) true).
        assert (Hrem2 : forall x, In x (rem srcs' heap') -> bcmp k (fst x) <> Gt).
        { intros x Hx. apply Hmin1. eapply Permutation_in; [exact Hperm2|right; exact Hx]. }
        assert (Hfuel2 : (length (rem srcs' heap') + length heap' < fuel)%nat).
        { pose proof (Permutation_length Hperm2) as L2. pose proof (Permutation_length Hperm1) as L1. cbn [length] in L2, Hlen2.
          rewrite Hlen2. cbn [length]. cbn [length] in Hlen1. unfold entry in *. lia. }
        specialize (IH it2 k merged Hinv2 eq_refl eq_refl eq_refl Hrem2 Hfuel2).
        destruct (next_loop (Some mf) None fuel it2) as [it' ok].
        destruct IH as (vs & HpermR & Hinv' & Hnf' & Hp' & Hk' & Hlen' & Hfin' & Hhl' & Hent' & Hfold' & Hres).
        exists (he_val e :: vs). cbn [it2 mi_srcs mi_heap mi_finished mi_entries] in *. splits; try assumption.
        -- cbn [map app]. eapply Permutation_trans; [|exact Hperm1]. eapply Permutation_trans; [|exact Hperm2].
           rewrite Eke. apply perm_skip. exact HpermR.
        -- congruence.
        -- cbn [length] in Hlen1, Hlen2. lia.
        -- cbn [fold_merge]. rewrite Emf. exact Hfold'.
      * (* the merge function fails *)
        exists []. cbn [mi_srcs mi_heap mi_pending mi_cur_key mi_cur_val mi_finished mi_entries map app].
        split; [exact Hperm1|]. split; [exact Hinv1|]. split; [exact Hnf1|]. split; [first [exact Hp|reflexivity]|]. split; [reflexivity|]. split; [reflexivity|].
        split; [intros H; right; exact H|]. split; [exact Hlen1|]. split; [reflexivity|]. split; [reflexivity|].
        exists (he_val e), e, t. splits; try reflexivity; try assumption.
        -- exact (Hnf1 e (or_introl eq_refl)).
        -- unfold rem. cbn [map concat]. unfold chunk at 1. rewrite (Hnf1 e (or_introl eq_refl)), Eke. left. reflexivity.
    + (* a greater key: the pending entry is complete *)
      exists []. cbn [mi_srcs mi_heap mi_pending mi_cur_key mi_cur_val mi_finished mi_entries map app].
      split; [exact Hperm1|]. split; [exact Hinv1|]. split; [exact Hnf1|]. split; [first [exact Hp|reflexivity]|]. split; [first [exact Hk|reflexivity]|]. split; [reflexivity|].
      split; [intros H; right; exact H|]. split; [exact Hlen1|]. split; [reflexivity|].
      split; [cbn [fold_merge]; rewrite Ha; reflexivity|].
      intros x Hx. pose proof (root_min (mi_srcs it) e t x Hinv1 Hnf1 Hx) as Hle.
      assert (Hke : bcmp k (he_key e) = Lt).
      { pose proof (Hmin1 (he_key e, he_val e)) as H0. cbn [fst] in H0.
        assert (Hin : In (he_key e, he_val e) (rem (mi_srcs it) (e :: t))).
        { unfold rem. cbn [map concat]. unfold chunk at 1. rewrite (Hnf1 e (or_introl eq_refl)). left. reflexivity. }
        specialize (H0 Hin). unfold beq in Ebeq. rewrite Hk in Ebeq. destruct (bcmp k (he_key e)); congruence. }
      eapply bcmp_lt_le_trans; eassumption.
Qed.

(* what the state after a failed call looks like *)
Definition failure_state (it it' : miter) : Prop :=
  exists k first rest v0 others,
    Permutation ((k, first) :: map (pair k) rest ++ (k, v0) :: others) (remaining it) /\
    (forall x, In x others -> bcmp k (fst x) <> Gt) /\
    fold_merge mf k first (rest ++ [v0]) = None /\
    (* exactly the values already folded are consumed *)
    Permutation (remaining it') ((k, v0) :: others) /\
    api_inv (clear it') /\
    map sc_es (mi_srcs it') = map sc_es (mi_srcs it) /\
    (* the C fields: the partial fold is parked in cur_val, the root is the entry that failed *)
    mi_pending it' = true /\ mi_cur_key it' = k /\ mi_finished it' = false /\ mi_entries it' = mi_entries it /\
    fold_merge mf k first rest = Some (mi_cur_val it') /\ mf k (mi_cur_val it') v0 = None /\
    exists e t, mi_heap it' = e :: t /\ he_key e = k /\ he_val e = v0 /\ he_fin e = false.

(* merger_next_step of MergerProofs, with the state after a call that delivers nothing *)
Theorem merger_next_none_step it : api_inv it ->
  match merger_next (Some mf) None it with
  | (it', Some _) => True
  | (it', None) =>
    (remaining it = [] /\ api_inv it' /\ remaining it' = [] /\ mi_srcs it' = mi_srcs it) \/
    (remaining it <> [] /\ failure_state it it')
  end.
Proof.
  intros (Hinv & Hnf & Hp & Hfin & Hbound). unfold merger_next, failure_state, remaining.
  destruct (mi_finished it) eqn:Ef.
  { left. rewrite (Hfin eq_refl). splits; try reflexivity. unfold MergerProofs.api_inv. rewrite (Hfin eq_refl) in *. splits; try assumption. intros _. reflexivity. }
  unfold total_remaining. fold (total_es (mi_srcs it)). cbn [mi_srcs].
  set (N0 := (total_es (mi_srcs it) + 2 * length (mi_srcs it))%nat) in *.
  remember (S N0) as N1 eqn:EN1.
  cbn [next_loop mi_heap mi_srcs mi_pending mi_entries mi_cur_key mi_cur_val mi_finished]. subst N1.
  rewrite (pop_finished_nofin _ _ Hnf).
  destruct (mi_heap it) as [|e t] eqn:Eh.
  - (* no entry left *)
    cbn [negb mi_pending]. left. splits; try reflexivity.
    unfold MergerProofs.api_inv. cbn [mi_srcs mi_heap mi_pending mi_finished]. splits; try assumption; try reflexivity.
  - cbn [negb].
    pose proof (refill_spec (mi_srcs it) e t Hinv Hnf) as Hrf.
    destruct (refill_root None (mi_srcs it) (e :: t)) as [srcs' heap'] eqn:Erf.
    destruct Hrf as (Hinv2 & Hperm2 & Hlen2 & Hlens & Hes2).
    set (it2 := mkmi srcs' heap' (mi_entries it) (he_key e) (he_val e) false true).
    assert (Hmin2 : forall x, In x (rem srcs' heap') -> bcmp (he_key e) (fst x) <> Gt).
    { intros x Hx. apply (root_min (mi_srcs it) e t x Hinv Hnf). eapply Permutation_in; [exact Hperm2|right; exact Hx]. }
    assert (Hfuel2 : (length (rem srcs' heap') + length heap' < S N0)%nat).
    { pose proof (Permutation_length Hperm2) as L2. cbn [length] in L2, Hlen2, Hbound. unfold entry in *. lia. }
    pose proof (loop_pending_strong (S N0) it2 (he_key e) (he_val e) Hinv2 eq_refl eq_refl eq_refl Hmin2 Hfuel2) as Hloop.
    destruct (next_loop (Some mf) None (S N0) it2) as [it' ok].
    destruct Hloop as (vs & HpermR & Hinv' & Hnf' & Hp' & Hk' & Hes' & Hfin' & Hhl' & Hent' & Hfold' & Hres).
    cbn [it2 mi_srcs mi_heap mi_finished mi_entries] in *.
    destruct ok; cbn [negb].
    + rewrite Hp'. exact I.
    + right. split; [apply rem_nonempty, Hnf|].
      destruct Hres as (v0 & e' & t' & Hh' & Hke' & Hve' & Hfe' & Hin & Hfail).
      assert (Hnfin : mi_finished it' = false).
      { destruct (mi_finished it') eqn:Ef'; [|reflexivity]. destruct (Hfin' eq_refl) as [H0|H0]; [rewrite Hh' in H0|]; discriminate. }
      apply in_split in Hin. destruct Hin as (l1 & l2 & Hsplit).
      exists (he_key e), (he_val e), vs, v0, (l1 ++ l2). splits.
      * eapply Permutation_trans; [|exact Hperm2]. apply perm_skip. eapply Permutation_trans; [|exact HpermR].
        apply Permutation_app_head. rewrite Hsplit. apply Permutation_middle.
      * intros x Hx. apply Hmin2. eapply Permutation_in; [exact HpermR|]. apply in_or_app. right. rewrite Hsplit.
        apply in_app_or in Hx. apply in_or_app. destruct Hx as [Hx|Hx]; [left; exact Hx|right; right; exact Hx].
      * exact (fold_merge_snoc mf _ _ _ _ _ Hfold' Hfail).
      * rewrite Hsplit. apply Permutation_sym, Permutation_middle.
      * unfold MergerProofs.api_inv, clear. cbn [mi_srcs mi_heap mi_pending mi_finished]. splits; try assumption; try reflexivity.
        -- intros H. rewrite Hnfin in H. discriminate.
        -- pose proof (Permutation_length HpermR) as L1. pose proof (Permutation_length Hperm2) as L2.
           rewrite app_length, map_length in L1. cbn [length] in L2, Hlen2, Hbound.
           rewrite (total_es_map _ _ (eq_trans Hes' Hes2)).
           assert (Hls : length (mi_srcs it') = length (mi_srcs it)).
           { rewrite <- (map_length sc_es (mi_srcs it')), <- (map_length sc_es (mi_srcs it)), Hes', Hes2. reflexivity. }
           rewrite Hls. unfold entry in *. lia.
      * congruence.
      * exact Hp'.
      * exact Hk'.
      * exact Hnfin.
      * exact Hent'.
      * exact Hfold'.
      * exact Hfail.
      * exists e', t'. splits; assumption.
Qed.
End Fail.

(* ---- closed over the array heap ------------------------------------------------------------------ *)
Section ClosedFail.
Variable mf : bytes -> bytes -> bytes -> option bytes.

Lemma api_clear it : api it -> api (clear it).
Proof. intros (Hinv & Hnf & Hp & Hfin & Hbound). unfold api, api_inv, clear. cbn [mi_srcs mi_heap mi_pending mi_finished]. splits; try assumption. reflexivity. Qed.

(* everything known about a call that delivers nothing *)
Theorem merger_next_none_closed it it' : api it -> merger_next (Some mf) None it = (it', None) ->
  (remaining it = [] /\ api it' /\ remaining it' = [] /\ mi_srcs it' = mi_srcs it) \/
  (remaining it <> [] /\ failure_state mf hk it it').
Proof.
  intros Hapi Hnext. pose proof (merger_next_none_step mf hk K_push K_pop K_replace K_min K_mark it Hapi) as Hstep.
  rewrite Hnext in Hstep. exact Hstep.
Qed.

(* the main theorem: the failure disjunct of merger_next_closed, with the state after it *)
Theorem merger_next_failure_state it it' : api it ->
  merger_next (Some mf) None it = (it', None) -> remaining it <> [] ->
  exists k first rest v0 others,
    Permutation ((k, first) :: map (pair k) rest ++ (k, v0) :: others) (remaining it) /\
    (forall x, In x others -> bcmp k (fst x) <> Gt) /\
    fold_merge mf k first (rest ++ [v0]) = None /\
    Permutation (remaining it') ((k, v0) :: others) /\
    api (clear it') /\
    map sc_es (mi_srcs it') = map sc_es (mi_srcs it) /\
    mi_pending it' = true /\ mi_cur_key it' = k /\ mi_finished it' = false /\ mi_entries it' = mi_entries it /\
    fold_merge mf k first rest = Some (mi_cur_val it') /\ mf k (mi_cur_val it') v0 = None /\
    exists e t, mi_heap it' = e :: t /\ he_key e = k /\ he_val e = v0 /\ he_fin e = false.
Proof.
  intros Hapi Hnext Hne. destruct (merger_next_none_closed it it' Hapi Hnext) as [(Hnil & _)|(_ & Hfs)]; [contradiction|exact Hfs].
Qed.

(* the call after the failure behaves as a call from the state `clear it'`, which is a state `api`:
   merger_next_closed applies to it *)
Corollary merger_next_after_failure it it' : api it ->
  merger_next (Some mf) None it = (it', None) -> remaining it <> [] ->
  merger_next (Some mf) None it' = merger_next (Some mf) None (clear it') /\ api (clear it') /\
  remaining (clear it') = remaining it'.
Proof.
  intros Hapi Hnext Hne.
  destruct (merger_next_failure_state it it' Hapi Hnext Hne) as (k & first & rest & v0 & others & _ & _ & _ & _ & Hapi' & _ & _ & _ & Hnf & _).
  split; [apply merger_next_ignores_pending, Hnf|]. split; [exact Hapi'|reflexivity].
Qed.

(* ---- 3. any number of calls, failures included ------------------------------------------------------ *)
(* the invariant between calls: `api` once pending / cur_key / cur_val are disregarded *)
Definition apic (it : miter) : Prop := api (clear it).

Lemma api_apic it : api it -> apic it.
Proof. exact (api_clear it). Qed.

(* one call from a state between calls: what is delivered is a fold over values that leave the
   remaining multiset; when nothing is delivered, the values [lost] leave it *)
Lemma merger_next_any it : apic it ->
  match merger_next (Some mf) None it with
  | (it', r) =>
    apic it' /\ map sc_es (mi_srcs it') = map sc_es (mi_srcs it) /\
    match r with
    | Some (k, v) =>
      exists first rest,
        Permutation ((k, first) :: map (pair k) rest ++ remaining it') (remaining it) /\
        fold_merge mf k first rest = Some v /\
        (forall x, In x (remaining it') -> bcmp k (fst x) = Lt)
    | None => exists lost, Permutation (lost ++ remaining it') (remaining it)
    end
  end.
Proof.
  intros Hapi. rewrite merger_next_clear_eq. destruct (mi_finished it) eqn:Ef.
  { split; [exact Hapi|]. split; [reflexivity|]. exists []. reflexivity. }
  unfold apic in Hapi. pose proof (merger_next_closed mf (clear it) Hapi) as Hstep.
  destruct (merger_next (Some mf) None (clear it)) as [it' [[k v]|]] eqn:En.
  - destruct Hstep as (first & rest & Hperm & Hfold & Hlt & Hapi' & Hes).
    split; [apply api_apic, Hapi'|]. split; [exact Hes|]. exists first, rest. splits; assumption.
  - destruct (merger_next_none_closed (clear it) it' Hapi En) as [(Hnil & Hapi' & Hnil' & Hsrcs)|(_ & Hfs)].
    + split; [apply api_apic, Hapi'|]. split; [rewrite Hsrcs; reflexivity|]. exists [].
      rewrite remaining_clear in Hnil. rewrite Hnil, Hnil'. reflexivity.
    + destruct Hfs as (k & first & rest & v0 & others & Hperm & _ & _ & Hperm' & Hapi' & Hes & _).
      split; [exact Hapi'|]. split; [exact Hes|]. exists ((k, first) :: map (pair k) rest).
      rewrite remaining_clear in Hperm. eapply Permutation_trans; [|exact Hperm].
      apply (Permutation_app_head ((k, first) :: map (pair k) rest)). exact Hperm'.
Qed.

(* n calls of next(), whatever they return; and the state after them *)
Fixpoint mruns (n : nat) (it : miter) : list (option entry) :=
  match n with
  | O => []
  | S m => let '(it', r) := merger_next (Some mf) None it in r :: mruns m it'
  end.
Fixpoint mrun_end (n : nat) (it : miter) : miter :=
  match n with
  | O => it
  | S m => mrun_end m (fst (merger_next (Some mf) None it))
  end.

(* the entries delivered *)
Definition somes (l : list (option entry)) : list entry :=
  flat_map (fun o => match o with Some e => [e] | None => [] end) l.
(* a group: a key with the values folded for one delivered entry *)
Definition gentries (g : bytes * list bytes) : list entry := map (pair (fst g)) (snd g).
Definition group_ok (e : entry) (g : bytes * list bytes) : Prop :=
  fst g = fst e /\ exists first rest, snd g = first :: rest /\ fold_merge mf (fst e) first rest = Some (snd e).

(* the strong form: the delivered entries are folds over pairwise disjoint groups of entries of the
   sources; together with the entries lost in failed calls and what remains at the end, they make up
   exactly what remained at the start (each value used at most once) *)
Theorem merger_runs_exact n : forall it, apic it ->
  exists groups lost,
    Forall2 group_ok (somes (mruns n it)) groups /\
    Permutation (concat (map gentries groups) ++ lost ++ remaining (mrun_end n it)) (remaining it) /\
    apic (mrun_end n it) /\ map sc_es (mi_srcs (mrun_end n it)) = map sc_es (mi_srcs it).
Proof.
  induction n as [|n IH]; intros it Hapi.
  - exists [], []. cbn [mruns mrun_end somes flat_map map concat app]. splits; [constructor|reflexivity|exact Hapi|reflexivity].
  - cbn [mruns mrun_end]. pose proof (merger_next_any it Hapi) as Hstep.
    destruct (merger_next (Some mf) None it) as [it' r]. cbn [fst].
    destruct Hstep as (Hapi' & Hes & Hr).
    destruct (IH it' Hapi') as (groups & lost & HF & HP & Hend & Hes').
    destruct r as [[k v]|].
    + destruct Hr as (first & rest & Hperm & Hfold & _).
      exists ((k, first :: rest) :: groups), lost. splits.
      * cbn [somes flat_map app]. constructor; [|exact HF]. split; [reflexivity|]. exists first, rest. split; [reflexivity|exact Hfold].
      * cbn [map concat gentries fst snd]. rewrite <- app_assoc. eapply Permutation_trans; [|exact Hperm].
        apply (Permutation_app_head ((k, first) :: map (pair k) rest)). exact HP.
      * exact Hend.
      * congruence.
    + destruct Hr as (lost0 & Hperm). exists groups, (lost0 ++ lost). splits.
      * cbn [somes flat_map app]. exact HF.
      * eapply Permutation_trans; [|exact Hperm]. rewrite <- app_assoc.
        eapply Permutation_trans; [apply Permutation_app_swap_app|]. apply Permutation_app_head. exact HP.
      * exact Hend.
      * congruence.
Qed.

Lemma Forall2_In_l {A B} (R : A -> B -> Prop) : forall l l' x, Forall2 R l l' -> In x l -> exists y, In y l' /\ R x y.
Proof.
  induction 1 as [|a b l l' Hab _ IH]; intros Hin; [contradiction|].
  destruct Hin as [<-|Hin]; [exists b; split; [left; reflexivity|exact Hab]|].
  destruct (IH Hin) as (y & Hy & HR). exists y. split; [right; exact Hy|exact HR].
Qed.

Lemma In_somes l e : In (Some e) l -> In e (somes l).
Proof. intros H. unfold somes. apply in_flat_map. exists (Some e). split; [exact H|left; reflexivity]. Qed.

(* the corollary: whatever is delivered, before or after any number of failures, has a key held by the
   sources and a value that is a fold of values the sources hold for that key *)
Theorem merger_after_failure_sound n it : api it ->
  forall k v, In (Some (k, v)) (mruns n it) ->
  exists first rest, (forall x, In x (first :: rest) -> In (k, x) (remaining it)) /\ fold_merge mf k first rest = Some v.
Proof.
  intros Hapi k v Hin. destruct (merger_runs_exact n it (api_apic it Hapi)) as (groups & lost & HF & HP & _).
  destruct (Forall2_In_l _ _ _ _ HF (In_somes _ _ Hin)) as ([gk gvs] & Hg & (Egk & first & rest & Egv & Hfold)).
  cbn [fst snd] in Egk, Egv, Hfold. subst gk gvs. exists first, rest. split; [|exact Hfold].
  intros x Hx. eapply Permutation_in; [exact HP|]. apply in_or_app. left.
  apply in_concat. exists (gentries (k, first :: rest)). split; [apply in_map, Hg|].
  unfold gentries. cbn [fst snd]. apply in_map, Hx.
Qed.
End ClosedFail.

(* ---- an example: the failure is reached, and the calls after it go on ------------------------------- *)
(* fails when the second operand is [2]; otherwise concatenates (to make the fold visible) *)
Definition mf_ex (_ a b : bytes) : option bytes :=
  match b with
  | [2] => None
  | _ => Some (a ++ [124] ++ b)
  end.
Definition srcs_ex : list (list entry) := [[([97], [1])]; [([97], [2]); ([98], [7])]; [([97], [3])]].

Lemma ssorted_short (es : list entry) :
  match es with
  | [] => True
  | [_] => True
  | [a; b] => bcmp (fst a) (fst b) = Lt
  | _ => False
  end -> ssorted es.
Proof.
  intros H i j a b Hij Hi Hj. destruct es as [|x [|y [|z es]]]; try contradiction.
  - destruct i; discriminate.
  - destruct i as [|i]; [|destruct i; discriminate]. destruct j as [|j]; [lia|destruct j; discriminate].
  - destruct i as [|[|i]]; [| |destruct i; discriminate].
    + destruct j as [|[|j]]; [lia| |destruct j; discriminate]. cbn in Hi, Hj. inversion Hi; inversion Hj; subst. exact H.
    + destruct j as [|[|j]]; [lia|lia|destruct j; discriminate].
Qed.

Example merger_after_failure_example :
  exists it it1,
    merger_iter_make None (map (fun es => mksc es 0 true BAll false) srcs_ex) false = Some it /\
    (* the hypotheses of merger_next_failure_state hold *)
    api it /\ remaining it <> [] /\ merger_next (Some mf_ex) None it = (it1, None) /\
    (* three sources hold the key [97]; the first call folds [1] and [3], then fails on [2] *)
    remaining it = [([97], [1]); ([97], [2]); ([98], [7]); ([97], [3])] /\
    mi_pending it1 = true /\ mi_cur_key it1 = [97] /\ mi_cur_val it1 = [1; 124; 3] /\
    remaining it1 = [([97], [2]); ([98], [7])] /\
    (* the call after the failure delivers the remaining value of the key, the iteration goes on *)
    mruns mf_ex 4 it = [None; Some ([97], [2]); Some ([98], [7]); None].
Proof.
  assert (Hfresh : Forall fresh (map (fun es => mksc es 0 true BAll false) srcs_ex)).
  { unfold srcs_ex. cbn [map]. repeat constructor; cbn [sc_es]; apply ssorted_short; try exact I. reflexivity. }
  destruct (merger_iter_make_spec mf_ex hk K_nil K_push K_pop K_replace K_min K_mark _ Hfresh) as (it & Hmk & Hapi & _ & _).
  exists it, (fst (merger_next (Some mf_ex) None it)). split; [exact Hmk|]. split; [exact Hapi|].
  vm_compute in Hmk. inversion Hmk; subst it. clear Hmk Hapi Hfresh. vm_compute. repeat split. discriminate.
Qed.
