(* C09 at the 4 GiB restart-width switch: the statement Properties_C09.C09_statement (keys and values
   shorter than 4 GiB, nothing assumed about block_size) is FALSE in the model, whatever the
   compressor and decompressor are.
   Configuration: no compression, restart interval 1, block_size = 2^32 + 49.
   Adds: ("a", 2^32-40 zero bytes), then "b".."i" with empty values - nine strictly increasing keys.
   The entry region of the single data block grows to 2^32-4 bytes after eight adds (restart array
   still 4-byte wide: estimate 2^32+32, plus 16 for the next entry < block_size, so no cut) and to 2^32
   bytes with the ninth, which switches the restart array to 8-byte offsets: the block is written with
   2^32 + 76 >= block_size bytes and nine entries.  The decoder, if it accepts the file at all, returns
   that block (raw length 2^32+76), and the validator's size clause - "a block with more than one entry
   is smaller than block_size" - answers E_SIZE.  The 4 GiB value is never computed with: the run of
   the writer is symbolic in the value. *)
From Coq Require Import NArith ZArith List Lia ZifyBool ZifyN ZifyNat.
From Mtbl Require Import gen.Consts model.Bytes model.Codec model.Order model.Block model.Crc model.Writer
  spec.Leb128 spec.Parse model.Reader
  proofs.BytesLemmas proofs.CodecProofs proofs.OrderProofs proofs.WriterProofs proofs.MetaProofs
  proofs.BlockProofs proofs.BlockRT proofs.TableRT proofs.ParseProofs proofs.ParseTable.
Local Open Scope N_scope.

(* the statement as written in props/Properties_C09.v (sizes: only |key|, |value| < 2^32) *)
Definition C09_statement (compress_default : N -> bytes -> res bytes) (compress_level : N -> Z -> bytes -> res bytes)
  (decompress : N -> bytes -> res bytes) : Prop :=
  forall o off0 ops w rs, 1 <= wo_interval o ->
    Forall (fun kv => wf_bytes (fst kv) /\ wf_bytes (snd kv) /\ len (fst kv) < 2 ^ 32 /\ len (snd kv) < 2 ^ 32) ops ->
    writer_session compress_default compress_level o off0 ops = Ok (w, rs) ->
    exists t, parse_table decompress off0 (writer_bytes w) = inr t /\
      wf_validate off0 (mkexpect (wo_block_size o) (wo_interval o) (wo_comp o)) t = 0 /\
      table_entries t = accepted None ops.

Ltac Zify.zify_post_hook ::= Z.div_mod_to_equations.
Ltac splits := repeat match goal with |- _ /\ _ => split end.

Definition VL : N := 4294967256.     (* 2^32 - 40: length of the first value *)
Definition BS : N := 4294967345.     (* 2^32 + 49: block_size *)
Definition sw_o : wopts := mkwopts 0 DEFAULT_COMPRESSION_LEVEL BS 1.
Definition sw_ops (v : bytes) : list entry :=
  ([97], v) :: map (fun c => ([c], [])) [98; 99; 100; 101; 102; 103; 104; 105].

Section Switch.
Variable compress_default : N -> bytes -> res bytes.
Variable compress_level : N -> Z -> bytes -> res bytes.
Local Notation writer_add := (Writer.writer_add compress_default compress_level).
Local Notation writer_adds := (Writer.writer_adds compress_default compress_level).
Local Notation writer_finish := (Writer.writer_finish compress_default compress_level).

(* an add that does not cut the block *)
Lemma add_nocut w k v d : w_closed w = false ->
  (0 <? m_count_entries (w_m w)) && negb (match bcmp k (w_last_key w) with Gt => true | _ => false end) = false ->
  (wo_block_size (w_opt w) <=? bb_estimate (w_data w) + 15 + len k + len v) = false ->
  bb_add (w_data w) k v = Ok d ->
  writer_add w k v =
  Ok (mkwriter (w_opt w)
        (mkmeta (m_index_block_offset (w_m w)) (m_data_block_size (w_m w)) (m_compression_algorithm (w_m w))
                (m_count_entries (w_m w) + 1) (m_count_data_blocks (w_m w)) (m_bytes_data_blocks (w_m w))
                (m_bytes_index_block (w_m w)) (m_bytes_keys (w_m w) + len k) (m_bytes_values (w_m w) + len v))
        d (w_index w) k (w_last_offset w) (w_pending_offset w) false (w_out w), true).
Proof.
  intros Hc Hg Hcut Ha. unfold Writer.writer_add. rewrite Hc.
  unfold WRITER_GATE_IS_STRICT, WRITER_CUT_IS_GE, WRITER_ENTRY_OVERHEAD. cbn [negb]. rewrite Hg, Hcut, Ha, ?Hc. reflexivity.
Qed.

(* the writer after the big entry and j small ones, the last key being [c] *)
Definition st (w : writer) (j c : N) : Prop :=
  exists buf rs ce ck cv,
    w = mkwriter sw_o (mkmeta 0 BS 0 ce 0 0 0 ck cv) (mkbb 1 buf [c] rs false 1) (bb_init 1) [c] 0 0 false [] /\
    len buf = VL + 8 + 4 * j /\ N.of_nat (length rs) = 1 + j /\ wf_bytes buf /\
    ce = 1 + j /\ ck = 1 + j /\ cv = VL.

Lemma ee_small c : entry_encode 0 [c] [] = [0; 1; 0; c].
Proof. reflexivity. Qed.

Lemma first_add v : wf_bytes v -> len v = VL ->
  exists w, writer_add (writer_init sw_o 0) [97] v = Ok (w, true) /\ st w 0 97.
Proof.
  intros Hwf Hlen.
  assert (Ha : bb_add (w_data (writer_init sw_o 0)) [97] v = Ok (mkbb 1 ([] ++ entry_encode 0 [97] v) [97] [0] false 1)) by reflexivity.
  assert (Hcut : (wo_block_size (w_opt (writer_init sw_o 0)) <=? bb_estimate (w_data (writer_init sw_o 0)) + 15 + len [97] + len v) = false).
  { cbn [writer_init w_opt w_data wo_block_size sw_o]. replace (bb_estimate (bb_init (wo_interval sw_o))) with 8 by reflexivity. rewrite Hlen.
    change (len [97]) with 1. unfold BS, VL. lia. }
  rewrite (add_nocut (writer_init sw_o 0) [97] v _ eq_refl eq_refl Hcut Ha).
  eexists. split; [reflexivity|]. unfold st.
  exists ([] ++ entry_encode 0 [97] v), [0], (0 + 1), (0 + len [97]), (0 + len v).
  splits; try reflexivity.
  - cbn [app]. unfold entry_encode. rewrite !len_app, Hlen. change (len [97] - 0) with 1. change (drop 0 [97]) with [97].
    change (len (varint_encode32 0)) with 1. change (len (varint_encode32 1)) with 1. change (len [97]) with 1.
    replace (len (varint_encode32 VL)) with 5 by (vm_compute; reflexivity). unfold VL. lia.
  - cbn [app]. apply entry_encode_wf; [repeat constructor; unfold wf_byte; lia|exact Hwf].
  - rewrite Hlen. reflexivity.
Qed.

Lemma step w j c c' : st w j c -> c < c' -> c' < 256 -> j < 8 ->
  exists w', writer_add w [c'] [] = Ok (w', true) /\ st w' (j + 1) c'.
Proof.
  intros (buf & rs & ce & ck & cv & -> & Hbuf & Hrs & Hwf & -> & -> & ->) Hc Hc' Hj.
  set (w := mkwriter _ _ _ _ _ _ _ _ _).
  assert (Ha : bb_add (w_data w) [c'] [] = Ok (mkbb 1 (buf ++ entry_encode 0 [c'] []) [c'] (rs ++ [len buf]) false 1)) by reflexivity.
  assert (Hg : (0 <? m_count_entries (w_m w)) && negb (match bcmp [c'] (w_last_key w) with Gt => true | _ => false end) = false).
  { cbn [w w_last_key bcmp]. rewrite (proj2 (N.compare_gt_iff c' c) Hc). apply Bool.andb_false_r. }
  assert (Hcut : (wo_block_size (w_opt w) <=? bb_estimate (w_data w) + 15 + len [c'] + len []) = false).
  { cbn [w w_opt w_data wo_block_size sw_o]. unfold bb_estimate, nrestarts. cbn [bb_buf bb_restarts]. rewrite Hbuf, Hrs.
    change (len [c']) with 1. change (len []) with 0. unfold UINT32_MAX, BS, VL.
    replace (4294967295 <? 4294967256 + 8 + 4 * j) with false by lia. lia. }
  rewrite (add_nocut w [c'] [] _ eq_refl Hg Hcut Ha).
  eexists. split; [reflexivity|]. unfold st.
  exists (buf ++ entry_encode 0 [c'] []), (rs ++ [len buf]), (1 + j + 1), (1 + j + len [c']), (VL + len []).
  cbn [w w_opt w_m w_index w_last_offset w_pending_offset w_out m_index_block_offset m_data_block_size
       m_compression_algorithm m_count_entries m_count_data_blocks m_bytes_data_blocks m_bytes_index_block m_bytes_keys m_bytes_values].
  splits; try reflexivity.
  - rewrite ee_small, len_app, Hbuf. change (len [0; 1; 0; c']) with 4. lia.
  - rewrite app_length. cbn [length]. lia.
  - apply wf_app; [exact Hwf|]. rewrite ee_small. repeat constructor; unfold wf_byte; lia.
  - lia.
  - change (len [c']) with 1. lia.
Qed.

Lemma adds_switch v : wf_bytes v -> len v = VL ->
  exists w, writer_adds (writer_init sw_o 0) (sw_ops v) = Ok (w, [true; true; true; true; true; true; true; true; true]) /\ st w 8 105.
Proof.
  intros Hwf Hlen. destruct (first_add v Hwf Hlen) as (w0 & E0 & S0).
  destruct (step w0 0 97 98 S0 ltac:(lia) ltac:(lia) ltac:(lia)) as (w1 & E1 & S1).
  destruct (step w1 1 98 99 S1 ltac:(lia) ltac:(lia) ltac:(lia)) as (w2 & E2 & S2).
  destruct (step w2 2 99 100 S2 ltac:(lia) ltac:(lia) ltac:(lia)) as (w3 & E3 & S3).
  destruct (step w3 3 100 101 S3 ltac:(lia) ltac:(lia) ltac:(lia)) as (w4 & E4 & S4).
  destruct (step w4 4 101 102 S4 ltac:(lia) ltac:(lia) ltac:(lia)) as (w5 & E5 & S5).
  destruct (step w5 5 102 103 S5 ltac:(lia) ltac:(lia) ltac:(lia)) as (w6 & E6 & S6).
  destruct (step w6 6 103 104 S6 ltac:(lia) ltac:(lia) ltac:(lia)) as (w7 & E7 & S7).
  destruct (step w7 7 104 105 S7 ltac:(lia) ltac:(lia) ltac:(lia)) as (w8 & E8 & S8).
  exists w8. split; [|exact S8].
  unfold sw_ops. cbn [map Writer.writer_adds]. rewrite E0, E1, E2, E3, E4, E5, E6, E7, E8. reflexivity.
Qed.

Definition one_blk (raw : bytes) : list dblk := [mkd [] [] raw raw [] 0].

Lemma finish_switch w : st w 8 105 ->
  exists w' (raw idx : bytes), writer_finish w = Ok w' /\
    writer_bytes w' = frames_of (one_blk raw) ++ frame idx ++ metadata_write (w_m w') /\
    len raw = 4294967372 /\ wf_bytes raw /\ wf_bytes idx /\ len idx < 2 ^ 64 /\ meta_small (w_m w') /\
    m_index_block_offset (w_m w') = 0 + len (frames_of (one_blk raw)) /\
    m_bytes_data_blocks (w_m w') = len (frames_of (one_blk raw)) /\
    m_compression_algorithm (w_m w') = 0.
Proof.
  intros (buf & rs & ce & ck & cv & -> & Hbuf & Hrs & Hwf & -> & -> & ->).
  set (data := mkbb 1 buf [105] rs false 1).
  set (idxb := mkbb 1 ([] ++ entry_encode 0 [105] (varint_encode64 0)) [105] [0] false 1).
  assert (Hidx : bb_add (bb_init 1) [105] (varint_encode64 0) = Ok idxb) by reflexivity.
  assert (Hne : bb_empty data = false).
  { unfold bb_empty, data. cbn [bb_buf]. rewrite Hbuf. reflexivity. }
  assert (Hraw : len (bb_finish data) = 4294967372).
  { unfold bb_finish, nrestarts, data. cbn [bb_buf bb_restarts]. rewrite Hbuf, Hrs.
    replace (UINT32_MAX <? VL + 8 + 4 * 8) with true by reflexivity.
    rewrite !len_app, len_fixed32, len_concat_map, Hbuf.
    assert (E : forall l : list N, fold_right (fun x s => len (fixed_encode64 x) + s) 0 l = 8 * N.of_nat (length l)).
    { induction l as [|a l IH]; [reflexivity|]. cbn [fold_right length]. rewrite IH, len_fixed64. lia. }
    rewrite E, Hrs. reflexivity. }
  assert (Hidxlen : len (bb_finish idxb) = 13) by reflexivity.
  eexists. exists (bb_finish data), (bb_finish idxb). split.
  { unfold Writer.writer_finish, Writer.writer_flush.
    cbn [w_closed w_data w_opt w_m w_index w_last_key w_last_offset w_pending_offset w_out]. fold data. rewrite Hne.
    unfold Writer.compress_block. cbn [wo_comp sw_o]. change (0 =? COMP_NONE) with true. cbv iota.
    unfold write_data_block. cbn [w_closed w_data w_opt w_m w_index w_last_key w_last_offset w_pending_offset w_out].
    rewrite Hidx. reflexivity. }
  cbn [w_m w_out w_index w_closed w_data w_opt w_last_key w_last_offset w_pending_offset
       m_index_block_offset m_data_block_size m_compression_algorithm m_count_entries m_count_data_blocks
       m_bytes_data_blocks m_bytes_index_block m_bytes_keys m_bytes_values].
  set (raw := bb_finish data) in *. set (idx := bb_finish idxb) in *.
  assert (Hwfraw : wf_bytes raw) by (apply bb_finish_wf; exact Hwf).
  assert (Hwfidx : wf_bytes idx).
  { apply bb_finish_wf. cbn [idxb bb_buf app]. apply entry_encode_wf; [repeat constructor; unfold wf_byte; lia|apply varint_encode64_wf]. }
  clearbody raw idx.
  assert (Hfr : frames_of (one_blk raw) = frame raw) by (unfold frames_of, one_blk; cbn [map concat d_stored]; apply app_nil_r).
  assert (Hbw : block_written raw <= 4294967386).
  { unfold block_written. pose proof (varint_encode64_len (len raw)). lia. }
  assert (Hbwi : block_written idx <= 27).
  { unfold block_written. pose proof (varint_encode64_len (len idx)). lia. }
  splits.
  - unfold writer_bytes, writer_chunks. cbn [w_out]. rewrite Hfr.
    cbn [block_chunks rev app concat]. rewrite !app_nil_r. unfold frame. rewrite <- !app_assoc. reflexivity.
  - exact Hraw.
  - exact Hwfraw.
  - exact Hwfidx.
  - rewrite Hidxlen. reflexivity.
  - unfold meta_small. cbn [m_index_block_offset m_data_block_size m_compression_algorithm m_count_entries m_count_data_blocks
       m_bytes_data_blocks m_bytes_index_block m_bytes_keys m_bytes_values].
    change (2 ^ 64) with 18446744073709551616. unfold BS, VL. splits; lia.
  - rewrite Hfr, frame_len. reflexivity.
  - rewrite Hfr, frame_len. reflexivity.
  - reflexivity.
Qed.
End Switch.

Lemma parse_block_raw_len raw b : parse_block raw = Some b -> ab_raw_len b = len raw.
Proof.
  unfold parse_block. intros H.
  repeat match type of H with
         | (if ?c then _ else _) = _ => destruct c; try discriminate
         | match ?x with _ => _ end = _ => destruct x; try discriminate
         end.
  inversion H. reflexivity.
Qed.

Lemma frame_wf s : wf_bytes s -> wf_bytes (frame s).
Proof. intros H. unfold frame. apply wf_app; [apply varint_encode64_wf|apply wf_app; [apply fixed_encode32_wf|exact H]]. Qed.

(* the statement of Properties_C09 does not hold, for any compressor / decompressor *)
Theorem C09_statement_false : forall compress_default compress_level decompress,
  ~ C09_statement compress_default compress_level decompress.
Proof.
  intros cd cl dc H.
  set (v := repeat 0 (N.to_nat VL)).
  assert (Hwfv : wf_bytes v) by apply wf_repeat0.
  assert (Hlen : len v = VL) by (unfold v; rewrite len_repeat; apply N2Nat.id).
  clearbody v.
  destruct (adds_switch cd cl v Hwfv Hlen) as (w & Ea & S).
  destruct (finish_switch cd cl w S) as (w' & raw & idx & Ef & Hbytes & Hraw & Hwr & Hwi & Hil & Hms & Hibo & Hbd & Halg).
  assert (Hsess : writer_session cd cl sw_o 0 (sw_ops v) = Ok (w', [true; true; true; true; true; true; true; true; true]))
    by (unfold writer_session; rewrite Ea, Ef; reflexivity).
  assert (Hops : Forall (fun kv => wf_bytes (fst kv) /\ wf_bytes (snd kv) /\ len (fst kv) < 2 ^ 32 /\ len (snd kv) < 2 ^ 32) (sw_ops v)).
  { unfold sw_ops. cbn [map]. constructor.
    - cbn [fst snd]. splits; [repeat constructor; unfold wf_byte; lia|exact Hwfv|reflexivity|rewrite Hlen; reflexivity].
    - repeat (constructor; [cbn [fst snd]; splits; [repeat constructor; unfold wf_byte; lia|constructor|reflexivity|reflexivity]|]).
      constructor. }
  destruct (H sw_o 0 (sw_ops v) w' _ ltac:(cbn; lia) Hops Hsess) as (t & Hp & Hv0 & Hent).
  assert (Hwf' : wf_bytes (writer_bytes w')).
  { rewrite Hbytes. apply wf_app; [|apply wf_app; [apply frame_wf, Hwi|apply metadata_write_wf]].
    unfold frames_of, one_blk. cbn [map concat d_stored]. rewrite app_nil_r. apply frame_wf, Hwr. }
  assert (Hoffs : offs_ok 0 (one_blk raw)) by (split; [reflexivity|exact I]).
  pose proof (parse_table_prefix dc 0 (writer_bytes w') (w_m w') (one_blk raw) idx Hbytes Hwf' Hms Hoffs Hibo Hbd Hil) as Hpt.
  rewrite Hp in Hpt. destruct (parse_block idx) as [ib|]; [|discriminate].
  rewrite Halg in Hpt. cbn [one_blk map blk_frame d_off d_stored parse_blocks] in Hpt. unfold unstore in Hpt.
  change (0 =? 0) with true in Hpt. cbv iota in Hpt.
  destruct (parse_block raw) as [b|] eqn:Epb; [|discriminate]. inversion Hpt as [Ht]. clear Hpt.
  pose proof (parse_block_raw_len raw b Epb) as Hrl.
  rewrite Ht in Hent. unfold table_entries in Hent. cbn [at_blocks map concat fst snd] in Hent. rewrite app_nil_r in Hent.
  apply (f_equal (@length entry)) in Hent. unfold block_pairs in Hent. rewrite map_length in Hent.
  change (length (accepted None (sw_ops v))) with 9%nat in Hent.
  apply wf_validate_components in Hv0. destruct Hv0 as (_ & _ & _ & _ & _ & Hsz & _).
  rewrite Ht in Hsz. unfold chk_sizes in Hsz. cbn [at_blocks check_sizes ex_block_size] in Hsz.
  rewrite Hent, Hrl, Hraw in Hsz. vm_compute in Hsz. discriminate.
Qed.
Print Assumptions C09_statement_false.
