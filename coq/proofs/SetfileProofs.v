(* what a setfile text means (model/Setfile.v): one name per line, the last newline optional *)
From Coq Require Import NArith List Lia Sorting.Sorted.
From Mtbl Require Import model.Bytes model.Order model.Setfile proofs.OrderProofs.
Import ListNotations.
Local Open Scope N_scope.

(* a name as a caller writes it: not empty, no newline, no NUL *)
Definition wf_name (n : bytes) : Prop := n <> [] /\ ~ In 10 n /\ ~ In 0 n.
(* the path the fileset uses for it *)
Definition full_name (setdir n : bytes) : bytes :=
  match n with c :: _ => if c =? 47 then n else setdir ++ [47] ++ n | [] => setdir ++ [47] end.
Definition text_of (names : list bytes) : bytes := concat (map (fun n => n ++ [10]) names).

Lemma split_lines_line : forall n cur rest, ~ In 10 n ->
  split_lines cur (n ++ 10 :: rest) = (rev cur ++ n ++ [10]) :: split_lines [] rest.
Proof.
  induction n as [|c n IH]; intros cur rest H.
  - cbn [app split_lines]. rewrite N.eqb_refl. cbn [rev]. reflexivity.
  - cbn [app split_lines]. destruct (c =? 10) eqn:E; [apply N.eqb_eq in E; subst; exfalso; apply H; left; reflexivity|].
    rewrite IH by (intros Hi; apply H; right; exact Hi). cbn [rev]. rewrite <- app_assoc. reflexivity.
Qed.

Lemma split_lines_last : forall n cur, ~ In 10 n -> (n <> [] \/ cur <> []) ->
  split_lines cur n = [rev cur ++ n].
Proof.
  induction n as [|c n IH]; intros cur H Hne.
  - cbn [split_lines]. destruct cur as [|x cur]; [destruct Hne; congruence|]. rewrite app_nil_r. reflexivity.
  - cbn [split_lines]. destruct (c =? 10) eqn:E; [apply N.eqb_eq in E; subst; exfalso; apply H; left; reflexivity|].
    rewrite IH; [cbn [rev]; rewrite <- app_assoc; reflexivity|intros Hi; apply H; right; exact Hi|right; discriminate].
Qed.

Lemma cstr_id : forall l, ~ In 0 l -> cstr l = l.
Proof.
  induction l as [|c l IH]; intros H; [reflexivity|]. cbn [cstr].
  destruct (c =? 0) eqn:E; [apply N.eqb_eq in E; subst; exfalso; apply H; left; reflexivity|].
  rewrite IH; [reflexivity|intros Hi; apply H; right; exact Hi].
Qed.

Lemma rstrip_nl_with l : rstrip_nl (l ++ [10]) = l.
Proof. unfold rstrip_nl. rewrite rev_app_distr. cbn [rev app]. rewrite N.eqb_refl. apply rev_involutive. Qed.

Lemma rstrip_nl_without l n : n <> [] -> ~ In 10 n -> rstrip_nl (l ++ n) = l ++ n.
Proof.
  intros Hne H. unfold rstrip_nl. rewrite rev_app_distr.
  destruct (rev n) as [|c r] eqn:Er.
  - apply (f_equal (@rev N)) in Er. rewrite rev_involutive in Er. cbn in Er. congruence.
  - cbn [app]. destruct (c =? 10) eqn:E; [|reflexivity].
    apply N.eqb_eq in E; subst. exfalso. apply H. apply in_rev. rewrite Er. left. reflexivity.
Qed.

Lemma not_in_app (x : N) l1 l2 : ~ In x l1 -> ~ In x l2 -> ~ In x (l1 ++ l2).
Proof. intros H1 H2 Hi. apply in_app_or in Hi. destruct Hi; auto. Qed.

Lemma pre_no_nul setdir (c : N) : ~ In 0 setdir -> ~ In 0 (setdir ++ [47]).
Proof. intros H. apply not_in_app; [exact H|]. intros [E|[]]. discriminate. Qed.

(* one line, with or without its newline *)
Lemma setfile_name_line setdir n : ~ In 0 setdir -> wf_name n ->
  setfile_name setdir (n ++ [10]) = full_name setdir n /\ setfile_name setdir n = full_name setdir n.
Proof.
  intros Hd (Hne & H10 & H0).
  destruct n as [|c n]; [congruence|].
  assert (Hc0 : ~ In 0 ((c :: n) ++ [10])) by (apply not_in_app; [exact H0|intros [E|[]]; discriminate]).
  unfold setfile_name, full_name. cbn [app].
  change (c :: n ++ [10]) with ((c :: n) ++ [10]).
  rewrite (cstr_id _ Hc0), (cstr_id _ H0), (cstr_id _ Hd).
  destruct (c =? 47) eqn:E.
  - cbn [app]. change (c :: n ++ [10]) with ((c :: n) ++ [10]).
    rewrite (rstrip_nl_with (c :: n)).
    pose proof (rstrip_nl_without [] (c :: n) Hne H10) as Hw. cbn [app] in Hw. rewrite Hw.
    rewrite (cstr_id _ H0). split; reflexivity.
  - rewrite app_assoc. rewrite (rstrip_nl_with ((setdir ++ [47]) ++ c :: n)).
    rewrite (rstrip_nl_without (setdir ++ [47]) (c :: n) Hne H10).
    rewrite cstr_id; [rewrite <- app_assoc; split; reflexivity|].
    apply not_in_app; [apply (pre_no_nul setdir c Hd)|exact H0].
Qed.

(* the whole text: every line newline-terminated *)
Theorem setfile_names_text setdir names : ~ In 0 setdir -> Forall wf_name names ->
  setfile_names setdir (text_of names) = map (full_name setdir) names.
Proof.
  intros Hd H. unfold setfile_names, text_of. induction H as [|n names Hn Hns IH]; [reflexivity|].
  cbn [map concat]. rewrite <- app_assoc. cbn [app].
  rewrite split_lines_line by (apply Hn). cbn [rev app map]. rewrite IH.
  rewrite (proj1 (setfile_name_line setdir n Hd Hn)). reflexivity.
Qed.

(* ... and the same names when the last line has no newline *)
Theorem setfile_names_text_no_final_newline setdir names last : ~ In 0 setdir -> Forall wf_name names -> wf_name last ->
  setfile_names setdir (text_of names ++ last) = map (full_name setdir) (names ++ [last]).
Proof.
  intros Hd H Hl. unfold setfile_names, text_of. induction H as [|n names Hn Hns IH].
  - cbn [map concat app]. rewrite split_lines_last; [|apply Hl|left; apply Hl]. cbn [rev app map].
    rewrite (proj2 (setfile_name_line setdir last Hd Hl)). reflexivity.
  - cbn [map concat]. rewrite <- !app_assoc. cbn [app].
    rewrite split_lines_line by (apply Hn). cbn [rev app map]. rewrite IH.
    rewrite (proj1 (setfile_name_line setdir n Hd Hn)). reflexivity.
Qed.

(* ---- the entries kept: sorted, each path once, exactly the existing names ------------------------------------ *)
Definition blt_rel (a b : bytes) : Prop := bcmp a b = Lt.

Lemma insert_uniq_in x l y : In y (insert_uniq x l) <-> y = x \/ In y l.
Proof.
  induction l as [|z l IH]; cbn [insert_uniq].
  - cbn. split; [intros [H|[]]; left; congruence|intros [H|[]]; left; congruence].
  - destruct (bcmp x z) eqn:E.
    + apply bcmp_eq in E. subst z. cbn. split; [intros H; right; exact H|intros [H|H]; [left; congruence|exact H]].
    + cbn. split; [intros [H|H]; [left; congruence|right; exact H]|intros [H|H]; [left; congruence|right; exact H]].
    + cbn [In]. rewrite IH. split; [intros [H|[H|H]]; auto|intros [H|[H|H]]; auto].
Qed.

Lemma insert_uniq_sorted x l : StronglySorted blt_rel l -> StronglySorted blt_rel (insert_uniq x l).
Proof.
  induction l as [|z l IH]; intros H; cbn [insert_uniq].
  - constructor; constructor.
  - inversion H as [|? ? Hs Hf]; subst. destruct (bcmp x z) eqn:E.
    + exact H.
    + constructor; [exact H|]. constructor; [exact E|].
      apply Forall_forall. intros w Hw. rewrite Forall_forall in Hf. exact (bcmp_lt_trans _ _ _ E (Hf w Hw)).
    + constructor; [apply IH; exact Hs|]. apply Forall_forall. intros w Hw. apply insert_uniq_in in Hw.
      destruct Hw as [->|Hw]; [apply bcmp_lt_gt; exact E|rewrite Forall_forall in Hf; exact (Hf w Hw)].
Qed.

Lemma sort_uniq_in l y : In y (sort_uniq l) <-> In y l.
Proof.
  induction l as [|x l IH]; [reflexivity|]. cbn [sort_uniq fold_right]. fold (sort_uniq l).
  rewrite insert_uniq_in, IH. cbn. split; intros [H|H]; auto.
Qed.

Lemma sort_uniq_sorted l : StronglySorted blt_rel (sort_uniq l).
Proof.
  induction l as [|x l IH]; [constructor|]. cbn [sort_uniq fold_right]. fold (sort_uniq l). apply insert_uniq_sorted, IH.
Qed.

Lemma sorted_nodup l : StronglySorted blt_rel l -> NoDup l.
Proof.
  induction 1 as [|x l Hs IH Hf]; constructor; [|exact IH].
  intros Hi. rewrite Forall_forall in Hf. specialize (Hf x Hi). unfold blt_rel in Hf. rewrite bcmp_refl in Hf. discriminate.
Qed.

(* whatever the text: the entries are strictly ascending (hence each path once - what the theorems on model/Fileset.v
   assume of the setfile lines), and they are exactly the names of the text whose path exists *)
Theorem loaded_names_spec path_exists setdir text :
  StronglySorted blt_rel (loaded_names path_exists setdir text) /\
  NoDup (loaded_names path_exists setdir text) /\
  (forall p, In p (loaded_names path_exists setdir text) <-> In p (setfile_names setdir text) /\ path_exists p = true).
Proof.
  unfold loaded_names. split; [apply sort_uniq_sorted|]. split; [apply sorted_nodup, sort_uniq_sorted|].
  intros p. rewrite sort_uniq_in, filter_In. reflexivity.
Qed.
