(* C12: which bytes the checksum tests cover *)
From Coq Require Import NArith ZArith List Lia ZifyBool ZifyN ZifyNat.
From Mtbl Require Import gen.Consts model.Bytes model.Codec model.Crc model.Writer spec.Leb128 spec.Parse
  model.Reader model.Verify proofs.BytesLemmas proofs.CodecProofs proofs.WriterProofs.
Local Open Scope N_scope.
Ltac Zify.zify_post_hook ::= Z.div_mod_to_equations.

(* a frame whose checksum field holds an arbitrary value c (damaged or not) *)
Definition fr (c : N) (stored : bytes) : bytes := leb128 (len stored) ++ le_encode 4 c ++ stored.

Lemma drop_drop a b (l : bytes) : drop a (drop b l) = drop (b + a) l.
Proof. unfold drop. rewrite skipn_skipn'. f_equal. lia. Qed.

Lemma slice_app_mid (pre mid post : bytes) : slice (pre ++ mid ++ post) (len pre) (len mid) = Some mid.
Proof.
  unfold slice. rewrite !len_app. replace (len pre + len mid <=? len pre + (len mid + len post)) with true by lia.
  f_equal. unfold len. rewrite !Nat2N.id. rewrite skipn_app, skipn_all, Nat.sub_diag. cbn [skipn app].
  rewrite firstn_app, firstn_all, Nat.sub_diag. cbn. apply app_nil_r.
Qed.

Section Reader.
Variable decompress : N -> bytes -> res bytes.

(* T12b (reader): a verify_checksums reader asked for the block at [off] stops on the
   assertion whenever the checksum field differs from the CRC-32C of the stored bytes -
   whatever operation asked for the block (every path of the reader model obtains
   blocks through get_block only) *)
Lemma get_block_crc_mismatch r pre c stored post :
  r_verify r = true -> r_version r = FORMAT_V2 -> r_file r = pre ++ fr c stored ++ post ->
  len stored < 2 ^ 64 -> c < 2 ^ 32 -> c <> crc32c_ref stored ->
  get_block decompress r (len pre) = Abort.
Proof.
  intros Hv Hver Hf Hs Hc Hne. unfold get_block. rewrite Hv, Hver, Hf.
  rewrite !len_app. replace (len pre <? len pre + (len (fr c stored) + len post)) with true
    by (unfold fr; rewrite !len_app, len_le_encode; pose proof (leb128_nonempty (len stored)); destruct (leb128 (len stored)); [congruence|rewrite len_cons; lia]).
  cbn [negb]. unfold FORMAT_V2, FORMAT_V1. change (1 =? 0) with false. cbv iota.
  rewrite (drop_app_len pre _ (len pre) eq_refl). unfold fr. rewrite <- !app_assoc.
  rewrite (varint_decode64_leb (len stored)) by exact Hs.
  (* the stored bytes *)
  set (hdr := leb128 (len stored)).
  replace (pre ++ hdr ++ le_encode 4 c ++ stored ++ post) with ((pre ++ hdr ++ le_encode 4 c) ++ stored ++ post)
    by (rewrite <- !app_assoc; reflexivity).
  replace (len pre + len hdr + 4) with (len (pre ++ hdr ++ le_encode 4 c)) by (rewrite !len_app, len_le_encode; lia).
  rewrite slice_app_mid.
  (* the checksum field *)
  replace ((pre ++ hdr ++ le_encode 4 c) ++ stored ++ post) with ((pre ++ hdr) ++ le_encode 4 c ++ stored ++ post)
    by (rewrite <- !app_assoc; reflexivity).
  rewrite (drop_app_len (pre ++ hdr) _ (len pre + len hdr)) by (rewrite len_app; reflexivity).
  unfold fixed_decode32. rewrite le_decode_encode. change (256 ^ N.of_nat 4) with 4294967296.
  change (2 ^ 32) with 4294967296 in Hc. rewrite N.mod_small by exact Hc.
  replace (c =? crc32c_ref stored) with false by lia. reflexivity.
Qed.
End Reader.

(* T12b (mtbl_verify): on a run of frames with arbitrary checksum fields, the block loop
   says OK exactly when every field equals the CRC-32C of its stored bytes *)
Fixpoint all_match (items : list (N * bytes)) : bool :=
  match items with
  | [] => true
  | (c, s) :: tl => (c =? crc32c_ref s) && all_match tl
  end.
Definition frames (items : list (N * bytes)) : bytes := concat (map (fun it => fr (fst it) (snd it)) items).

Lemma verify_blocks_frames : forall items pre post consumed bdb fuel,
  Forall (fun it => fst it < 2 ^ 32 /\ len (snd it) < 2 ^ 64) items ->
  consumed + len (frames items) <= bdb -> (length items < fuel)%nat ->
  verify_blocks fuel FORMAT_V2 (pre ++ frames items ++ post) (len pre) consumed bdb (N.of_nat (length items))
  = if all_match items then VOk else VFailed.
Proof.
  induction items as [|[c s] items IH]; intros pre post consumed bdb fuel Hall Hb Hf;
    (destruct fuel as [|fuel]; [cbn in Hf; lia|]); cbn [verify_blocks length all_match].
  - reflexivity.
  - inversion Hall as [|? ? [Hc Hs] Hrest]; subst. cbn [fst snd] in Hc, Hs.
    replace (N.of_nat (S (length items)) =? 0) with false by lia.
    unfold FORMAT_V2, FORMAT_V1. change (1 =? 0) with false. cbv iota.
    unfold frames. cbn [map concat fst snd]. fold (frames items).
    rewrite (drop_app_len pre _ (len pre) eq_refl). unfold fr at 1. rewrite <- !app_assoc.
    rewrite (varint_decode64_leb (len s)) by exact Hs.
    set (hdr := leb128 (len s)).
    assert (Hsz : len (fr c s) = len hdr + 4 + len s) by (unfold fr; rewrite !len_app, len_le_encode; fold hdr; lia).
    unfold frames in Hb. cbn [map concat fst snd] in Hb. fold (frames items) in Hb. rewrite len_app, Hsz in Hb.
    replace (bdb <? consumed + len hdr + 4 + len s) with false by lia.
    unfold fr. fold hdr. rewrite <- !app_assoc.
    replace (pre ++ hdr ++ le_encode 4 c ++ s ++ frames items ++ post)
      with ((pre ++ hdr) ++ le_encode 4 c ++ s ++ frames items ++ post) by (rewrite <- !app_assoc; reflexivity).
    rewrite (drop_app_len (pre ++ hdr) _ (len pre + len hdr)) by (rewrite len_app; reflexivity).
    unfold fixed_decode32. rewrite le_decode_encode. change (256 ^ N.of_nat 4) with 4294967296.
    change (2 ^ 32) with 4294967296 in Hc. rewrite N.mod_small by exact Hc.
    replace ((pre ++ hdr) ++ le_encode 4 c ++ s ++ frames items ++ post)
      with ((pre ++ hdr ++ le_encode 4 c) ++ s ++ frames items ++ post) by (rewrite <- !app_assoc; reflexivity).
    replace (len pre + len hdr + 4) with (len (pre ++ hdr ++ le_encode 4 c)) by (rewrite !len_app, len_le_encode; lia).
    rewrite slice_app_mid.
    destruct (c =? crc32c_ref s) eqn:E; cbn [andb]; [|reflexivity].
    replace ((pre ++ hdr ++ le_encode 4 c) ++ s ++ frames items ++ post)
      with ((pre ++ hdr ++ le_encode 4 c ++ s) ++ frames items ++ post) by (rewrite <- !app_assoc; reflexivity).
    try (replace (len (pre ++ hdr ++ le_encode 4 c) + len s) with (len (pre ++ hdr ++ le_encode 4 c ++ s))
      by (rewrite !len_app; lia)).
    try (replace (N.of_nat (S (length items)) - 1) with (N.of_nat (length items)) by lia).
    apply IH; [exact Hrest| |cbn in Hf; lia]. rewrite ?len_app, ?len_le_encode in *. lia.
Qed.
