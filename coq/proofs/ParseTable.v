(* C09 through the independent decoder, part 2: the table.
   The ghost structure of the written file (proofs/TableRT.v) is what spec/Parse.v's parse_table
   re-derives from the bytes alone, and every component check of wf_validate returns 0 on it. *)
From Coq Require Import NArith ZArith List Lia ZifyBool ZifyN ZifyNat.
From Mtbl Require Import gen.Consts model.Bytes model.Codec model.Order model.Block model.Crc model.Writer
  spec.Leb128 spec.Parse model.Reader
  proofs.BytesLemmas proofs.CodecProofs proofs.OrderProofs proofs.WriterProofs proofs.MetaProofs
  proofs.BlockProofs proofs.BlockRT proofs.TableRT proofs.ParseProofs.
Local Open Scope N_scope.
Ltac Zify.zify_post_hook ::= Z.div_mod_to_equations.
Ltac splits := repeat match goal with |- _ /\ _ => split end.

(* ---- the whole session: structure and statistics -------------------------------------------- *)
Section Session.
Variable compress_default : N -> bytes -> res bytes.
Variable compress_level : N -> Z -> bytes -> res bytes.
Variable o : wopts.
Variable off0 : N.
Local Notation writer_flush := (Writer.writer_flush compress_default compress_level).
Local Notation writer_finish := (Writer.writer_finish compress_default compress_level).
Local Notation writer_adds := (Writer.writer_adds compress_default compress_level).
Local Notation tinv := (tinv compress_default compress_level o off0).
Local Notation tcore := (tcore compress_default compress_level o off0).
Local Notation dblk_ok := (dblk_ok compress_default compress_level o).

(* finish_inv of TableRT with the trailer counters kept *)
Lemma finish_full w ds ps ridx w' : tinv w ds ps ridx -> writer_finish w = Ok w' ->
  exists ds' ib ips iridx,
    writer_bytes w' = frames_of ds' ++ frame (bb_finish ib) ++ metadata_write (w_m w') /\
    Forall dblk_ok ds' /\ offs_ok off0 ds' /\ fences_ok (wo_block_size o) ds' None /\
    bbinv ib ips iridx /\ bb_interval ib = wo_interval o /\ Forall2 idx_entry ips ds' /\
    m_index_block_offset (w_m w') = off0 + len (frames_of ds') /\
    m_compression_algorithm (w_m w') = wo_comp o /\
    m_bytes_index_block (w_m w') = len (frame (bb_finish ib)) /\
    m_count_data_blocks (w_m w') = N.of_nat (length ds') /\
    m_bytes_data_blocks (w_m w') = len (frames_of ds') /\
    m_data_block_size (w_m w') = wo_block_size o /\
    m_count_entries (w_m w') = m_count_entries (w_m w) /\
    m_bytes_keys (w_m w') = m_bytes_keys (w_m w) /\ m_bytes_values (w_m w') = m_bytes_values (w_m w) /\
    all_entries ds' [] = all_entries ds ps.
Proof.
  intros [Hcore Hlast Hfresh Hlkwf Hlklen Hsize Hs1inv] H. unfold Writer.writer_finish in H.
  destruct (writer_flush w) as [w1| | |] eqn:Ef; try discriminate.
  destruct (flush_keeps _ _ _ _ Ef) as (_ & K1 & K2 & K3).
  assert (Hw1 : exists ds', tcore w1 ds' [] [0%nat] None /\ all_entries ds' [] = all_entries ds ps).
  { destruct ps as [|p0 ps0] eqn:Eps.
    - destruct (Hfresh eq_refl) as (-> & _ & ->). unfold Writer.writer_flush in Ef.
      rewrite (tc_open _ _ _ _ _ _ _ _ _ Hcore), (bb_is_empty _ _ (tc_data _ _ _ _ _ _ _ _ _ Hcore)) in Ef. inversion Ef; subst w1.
      exists []. split; [exact Hcore|reflexivity].
    - assert (Hne : p0 :: ps0 <> []) by discriminate. rewrite <- Eps in *. destruct (Hlast Hne) as [Hl _].
      destruct (flush_core compress_default compress_level o off0 w ds ps ridx w1 Hcore Hne) as (d & Hc1 & Hdps & _); try assumption.
      { rewrite Hl, bcmp_refl. discriminate. }
      exists (ds ++ [d]). split; [exact Hc1|]. unfold all_entries. rewrite map_app, concat_app. cbn [map concat]. rewrite Hdps, !app_nil_r. reflexivity. }
  destruct Hw1 as (ds' & [Hc Hopt Hout Hdata (ips & iridx & Hidx & Hrel) Hblocks Hoffs Hfences Hsorted Hint] & Hall).
  inversion H; subst w'; clear H.
  exists ds', (w_index w1), ips, iridx.
  destruct Hout as [Hb Hcnt Hd Hp Hbs Halg]. unfold frames_of.
  cbn [w_m m_index_block_offset m_compression_algorithm m_bytes_index_block m_count_data_blocks m_bytes_data_blocks
       m_data_block_size m_count_entries m_bytes_keys m_bytes_values].
  splits; try assumption; try exact (proj2 Hint).
  - unfold writer_bytes, writer_chunks in *. cbn [w_out]. cbn [rev]. rewrite !concat_app. cbn [concat].
    rewrite !app_nil_r, <- !app_assoc, Hb. unfold frame. rewrite <- !app_assoc. reflexivity.
  - rewrite frame_len. reflexivity.
  - rewrite Hcnt, map_length. reflexivity.
Qed.

(* what is known about the file of a successful session *)
Theorem session_structure ops w' rs :
  1 <= wo_interval o -> Forall (entry_fits o) ops ->
  writer_session compress_default compress_level o off0 ops = Ok (w', rs) ->
  exists ds ib ips iridx,
    writer_bytes w' = frames_of ds ++ frame (bb_finish ib) ++ metadata_write (w_m w') /\
    Forall dblk_ok ds /\ offs_ok off0 ds /\ fences_ok (wo_block_size o) ds None /\
    bbinv ib ips iridx /\ bb_interval ib = wo_interval o /\ Forall2 idx_entry ips ds /\
    m_index_block_offset (w_m w') = off0 + len (frames_of ds) /\
    m_compression_algorithm (w_m w') = wo_comp o /\
    m_bytes_index_block (w_m w') = len (frame (bb_finish ib)) /\
    m_count_data_blocks (w_m w') = N.of_nat (length ds) /\
    m_bytes_data_blocks (w_m w') = len (frames_of ds) /\
    m_data_block_size (w_m w') = wo_block_size o /\
    m_count_entries (w_m w') = N.of_nat (length (kept ops rs)) /\
    m_bytes_keys (w_m w') = sum_keys (kept ops rs) /\ m_bytes_values (w_m w') = sum_vals (kept ops rs) /\
    all_entries ds [] = kept ops rs /\ kept ops rs = accepted None ops /\ rs = accept_spec None ops.
Proof.
  intros Hint Hfit Hsess. unfold writer_session in Hsess.
  destruct (writer_adds (writer_init o off0) ops) as [[w rs0]| | |] eqn:Eadds; try discriminate.
  destruct (writer_finish w) as [wf| | |] eqn:Efin; try discriminate.
  inversion Hsess; subst wf rs0; clear Hsess.
  pose proof (tinv_init compress_default compress_level o off0 Hint) as Hinv0.
  destruct (adds_inv _ _ _ _ _ _ _ _ _ _ _ Hinv0 Hfit Eadds) as (ds1 & ps1 & ridx1 & Hinv1 & Hent1).
  destruct (adds_facts compress_default compress_level ops (writer_init o off0) w rs eq_refl Eadds) as (Hrs & Hk & _ & F1 & F2 & F3).
  change (wlast (writer_init o off0)) with (@None bytes) in Hrs, Hk.
  cbn [writer_init w_m m_count_entries m_bytes_keys m_bytes_values] in F1, F2, F3.
  destruct (finish_full _ _ _ _ _ Hinv1 Efin)
    as (ds & ib & ips & iridx & G1 & G2 & G3 & G4 & G5 & G6 & G7 & G8 & G9 & G10 & G11 & G12 & G13 & G14 & G15 & G16 & G17).
  unfold all_entries in Hent1 at 2. cbn [map concat app] in Hent1. rewrite Hent1 in G17.
  exists ds, ib, ips, iridx. splits; try assumption; lia.
Qed.
End Session.

(* ---- the table the decoder must find ---------------------------------------------------------- *)
Definition blk_of (d : dblk) : N * ablock * N := (d_off d, d_ab d, len (frame (d_stored d))).
Definition iab_of (ips : list pentry) (iridx : list nat) (idx : bytes) : ablock :=
  mkab ips (map (offset_of ips) iridx) (len idx) false.
Definition table_of (m : meta) (ds : list dblk) (ips : list pentry) (iridx : list nat) (idx : bytes) : atable :=
  mkat (tr_of m) (map blk_of ds) (iab_of ips iridx idx) (len (frame idx)).

Lemma frames_len_ge : forall ds, (length ds <= length (frames_of ds))%nat.
Proof.
  induction ds as [|d ds IH]; [cbn; lia|]. unfold frames_of in *. cbn [map concat length]. rewrite app_length.
  pose proof (frame_pos (d_stored d)) as H. unfold len in H. lia.
Qed.

Lemma frames_of_cons d ds : frames_of (d :: ds) = frame (d_stored d) ++ frames_of ds.
Proof. reflexivity. Qed.

Lemma frames_wf : forall ds, wf_bytes (frames_of ds) -> Forall (fun d => wf_bytes (d_stored d)) ds.
Proof.
  induction ds as [|d ds IH]; intros H; [constructor|]. rewrite frames_of_cons in H. apply Forall_app in H. destruct H as [H1 H2].
  constructor; [|apply IH, H2]. unfold frame in H1. apply Forall_app in H1. destruct H1 as [_ H1].
  apply Forall_app in H1. exact (proj2 H1).
Qed.

Lemma frames_stored_le : forall ds d, In d ds -> len (frame (d_stored d)) <= len (frames_of ds).
Proof.
  induction ds as [|x ds IH]; intros d Hd; [destruct Hd|]. rewrite frames_of_cons, len_app. destruct Hd as [->|Hd]; [lia|].
  specialize (IH d Hd). lia.
Qed.

Lemma offs_le : forall ds off d, offs_ok off ds -> In d ds -> d_off d <= off + len (frames_of ds).
Proof.
  induction ds as [|x ds IH]; intros off d Ho Hd; [destruct Hd|]. destruct Ho as [H1 H2]. rewrite frames_of_cons, len_app.
  destruct Hd as [->|Hd]; [lia|]. specialize (IH _ d H2 Hd). lia.
Qed.

(* the decoder on ANY file of the shape frames ++ index frame ++ trailer: what is left to decide is
   whether the blocks decode (no assumption on how the blocks were built) *)
Theorem parse_table_prefix decompress off0 (f : bytes) m ds idx :
  f = frames_of ds ++ frame idx ++ metadata_write m ->
  wf_bytes f -> meta_small m -> offs_ok off0 ds ->
  m_index_block_offset m = off0 + len (frames_of ds) ->
  m_bytes_data_blocks m = len (frames_of ds) ->
  len idx < 2 ^ 64 ->
  parse_table decompress off0 f =
  match parse_block idx with
  | None => inl E_BLOCK
  | Some ib => match parse_blocks decompress (m_compression_algorithm m) (map blk_frame ds) with
               | None => inl E_BLOCK
               | Some bl => inr (mkat (tr_of m) bl ib (len (frame idx)))
               end
  end.
Proof.
  intros Hf Hwf Hms Hoffs Hibo Hbd Hidxlen.
  set (F := frames_of ds) in *. set (M := metadata_write m) in *.
  assert (HM : len M = 512) by apply metadata_write_len.
  assert (Hn : len f = len F + len (frame idx) + 512) by (rewrite Hf, !len_app, HM; lia).
  pose proof Hms as (Hs0 & _ & _ & _ & _ & Hs5 & _).
  assert (Hwf3 : wf_bytes F /\ wf_bytes (frame idx)).
  { rewrite Hf in Hwf. apply Forall_app in Hwf. destruct Hwf as [H1 H2]. apply Forall_app in H2. split; [exact H1|exact (proj1 H2)]. }
  destruct Hwf3 as [HwfF Hwfi].
  assert (Hwfidx : wf_bytes idx).
  { unfold frame in Hwfi. apply Forall_app in Hwfi. destruct Hwfi as [_ H1]. apply Forall_app in H1. exact (proj2 H1). }
  unfold parse_table. rewrite Hn.
  replace (len F + len (frame idx) + 512 <? 512) with false by lia.
  replace (len F + len (frame idx) + 512 - 512) with (len F + len (frame idx)) by lia.
  assert (Hdrop : drop (len F + len (frame idx)) f = M).
  { rewrite Hf, app_assoc. apply drop_app_len. rewrite len_app. reflexivity. }
  rewrite Hdrop. unfold M at 1. rewrite (parse_trailer_write m Hms).
  cbn [tr_index_block_offset tr_of tr_compression_algorithm]. rewrite Hibo.
  replace ((off0 + len F <? off0) || (len F + len (frame idx) <? off0 + len F - off0)) with false by lia.
  replace (off0 + len F - off0) with (len F) by lia.
  replace (take (len F) f) with F by (rewrite Hf; symmetry; apply take_app_len; reflexivity).
  assert (Hfr : parse_frames (length f) off0 F = Some (map blk_frame ds)).
  { apply parse_frames_frames; [exact Hoffs| |].
    - pose proof (frames_len_ge ds). fold F in H. rewrite Hf, app_length. lia.
    - pose proof (frames_wf ds HwfF) as Hw. apply Forall_forall. intros d Hd. rewrite Forall_forall in Hw. split; [|apply Hw, Hd].
      pose proof (frames_stored_le ds d Hd) as Hle. fold F in Hle. unfold frame in Hle. rewrite !len_app in Hle.
      rewrite <- Hbd in Hle. lia. }
  rewrite Hfr.
  replace (len F + len (frame idx) - len F) with (len (frame idx)) by lia.
  replace (drop (len F) f) with (frame idx ++ M) by (rewrite Hf; symmetry; apply drop_app_len; reflexivity).
  rewrite (take_app_len (frame idx) M _ eq_refl).
  rewrite <- (app_nil_r (frame idx)) at 1. rewrite (parse_frame_frame idx [] Hidxlen Hwfidx).
  change (len [] =? 0) with true. cbn [negb]. reflexivity.
Qed.

Section Decode.
Variable compress_default : N -> bytes -> res bytes.
Variable compress_level : N -> Z -> bytes -> res bytes.
Variable decompress : N -> bytes -> res bytes.
Hypothesis Hrt_default : forall a raw c, compress_default a raw = Ok c -> decompress a c = Ok raw.
Hypothesis Hrt_level : forall a l raw c, compress_level a l raw = Ok c -> decompress a c = Ok raw.
Variable o : wopts.
Local Notation dblk_ok := (dblk_ok compress_default compress_level o).

Lemma parse_block_dblk d : dblk_ok d -> parse_block (d_raw d) = Some (d_ab d).
Proof.
  intros (_ & _ & _ & _ & _ & _ & (b & Hb & Hraw & _) & Hsz & _). unfold d_ab. rewrite Hraw in *.
  apply parse_block_finish; assumption.
Qed.

Lemma unstore_dblk d : dblk_ok d -> unstore decompress (wo_comp o) (d_stored d) = Some (d_raw d).
Proof.
  intros (_ & _ & _ & _ & Hc & _).
  pose proof (decompress_block compress_default compress_level decompress Hrt_default Hrt_level o _ _ Hc) as H.
  unfold unstore. unfold COMP_NONE in H. destruct (wo_comp o =? 0).
  - inversion H. reflexivity.
  - rewrite H. reflexivity.
Qed.

Lemma parse_blocks_ds : forall ds, Forall dblk_ok ds ->
  parse_blocks decompress (wo_comp o) (map blk_frame ds) = Some (map blk_of ds).
Proof.
  induction ds as [|d ds IH]; intros H; [reflexivity|]. cbn [map]. unfold blk_frame at 1. cbn [parse_blocks].
  rewrite (unstore_dblk d (Forall_inv H)), (parse_block_dblk d (Forall_inv H)), (IH (Forall_inv_tail H)). reflexivity.
Qed.

(* Tier 1: the decoder accepts the file and finds the ghost structure *)
Theorem parse_table_structure off0 (f : bytes) m ds ib ips iridx :
  f = frames_of ds ++ frame (bb_finish ib) ++ metadata_write m ->
  wf_bytes f -> meta_small m ->
  Forall dblk_ok ds -> offs_ok off0 ds -> bbinv ib ips iridx ->
  m_index_block_offset m = off0 + len (frames_of ds) ->
  m_compression_algorithm m = wo_comp o ->
  m_bytes_data_blocks m = len (frames_of ds) ->
  len (frame (bb_finish ib)) < 2 ^ 32 ->
  parse_table decompress off0 f = inr (table_of m ds ips iridx (bb_finish ib)).
Proof.
  intros Hf Hwf Hms Hblocks Hoffs Hib Hibo Halg Hbd Hisz.
  assert (Hisz' : len (bb_finish ib) < 2 ^ 32) by (unfold frame in Hisz; rewrite !len_app in Hisz; lia).
  rewrite (parse_table_prefix decompress off0 f m ds (bb_finish ib) Hf Hwf Hms Hoffs Hibo Hbd)
    by (change (2 ^ 32) with 4294967296 in Hisz'; change (2 ^ 64) with 18446744073709551616; lia).
  rewrite (parse_block_finish ib ips iridx Hib Hisz'), Halg, (parse_blocks_ds ds Hblocks). reflexivity.
Qed.
End Decode.

(* ---- the validator, check by check -------------------------------------------------------------- *)
(* wf_validate is the conjunction of these component checks *)
Definition chk_version (t : atable) : bool := tr_version (at_trailer t) =? 1.
Definition chk_blocks (I : N) (t : atable) : N :=
  fold_left (fun acc bl => if acc =? 0 then check_block I (snd (fst bl)) else acc) (at_blocks t) 0.
Definition chk_index_block (I : N) (t : atable) : N :=
  match ab_entries (at_index t), at_blocks t with
  | [], [] => if list_eqb (ab_restarts (at_index t)) [0] then 0 else E_CADENCE
  | _, _ => check_block I (at_index t)
  end.
Definition chk_order (t : atable) : bool := strictly_increasing (map fst (table_entries t)).
Definition chk_index (t : atable) : N := check_index (ab_entries (at_index t)) (at_blocks t).
Definition chk_sizes (bs : N) (t : atable) : N := check_sizes bs (at_blocks t).
Definition chk_stats (off0 : N) (x : expect) (t : atable) : bool :=
  let tr := at_trailer t in let blocks := at_blocks t in let es := table_entries t in
  (tr_count_entries tr =? N.of_nat (length es))
  && (tr_count_data_blocks tr =? N.of_nat (length blocks))
  && (tr_bytes_data_blocks tr =? sumN (map snd blocks))
  && (tr_index_block_offset tr =? off0 + sumN (map snd blocks))
  && (tr_bytes_index_block tr =? at_index_framed t)
  && (tr_bytes_keys tr =? sumN (map (fun e => len (fst e)) es))
  && (tr_bytes_values tr =? sumN (map (fun e => len (snd e)) es))
  && (tr_data_block_size tr =? ex_block_size x)
  && (tr_compression_algorithm tr =? ex_comp x).

Lemma wf_validate_split off0 x t :
  chk_version t = true -> chk_blocks (ex_interval x) t = 0 -> chk_index_block (ex_interval x) t = 0 ->
  chk_order t = true -> chk_index t = 0 -> chk_sizes (ex_block_size x) t = 0 -> chk_stats off0 x t = true ->
  wf_validate off0 x t = 0.
Proof.
  unfold chk_version, chk_blocks, chk_index_block, chk_order, chk_index, chk_sizes, chk_stats, wf_validate.
  cbv zeta. intros -> -> -> -> -> -> ->. reflexivity.
Qed.
(* and conversely: a table that passes satisfies every component check *)
Lemma wf_validate_components off0 x t : wf_validate off0 x t = 0 ->
  chk_version t = true /\ chk_blocks (ex_interval x) t = 0 /\ chk_index_block (ex_interval x) t = 0 /\
  chk_order t = true /\ chk_index t = 0 /\ chk_sizes (ex_block_size x) t = 0 /\ chk_stats off0 x t = true.
Proof.
  unfold chk_version, chk_blocks, chk_index_block, chk_order, chk_index, chk_sizes, chk_stats, wf_validate. cbv zeta.
  destruct (tr_version (at_trailer t) =? 1); cbn [negb]; [|discriminate].
  match goal with |- context [negb (?c =? 0)] => destruct (c =? 0) eqn:E1; cbn [negb]; [apply N.eqb_eq in E1; rewrite E1|intros H; rewrite H in E1; discriminate] end.
  match goal with |- context [negb (?c =? 0)] => destruct (c =? 0) eqn:E2; cbn [negb]; [apply N.eqb_eq in E2; rewrite E2|intros H; rewrite H in E2; discriminate] end.
  destruct (strictly_increasing (map fst (table_entries t))); cbn [negb]; [|discriminate].
  match goal with |- context [negb (?c =? 0)] => destruct (c =? 0) eqn:E3; cbn [negb]; [apply N.eqb_eq in E3; rewrite E3|intros H; rewrite H in E3; discriminate] end.
  match goal with |- context [negb (?c =? 0)] => destruct (c =? 0) eqn:E4; cbn [negb]; [apply N.eqb_eq in E4; rewrite E4|intros H; rewrite H in E4; discriminate] end.
  match goal with |- context [if negb ?c then _ else _] => destruct c; cbn [negb]; [|discriminate] end.
  intros _. splits; reflexivity.
Qed.

Lemma fold_check_zero {A} (g : A -> N) : forall l, Forall (fun a => g a = 0) l ->
  fold_left (fun acc a => if acc =? 0 then g a else acc) l 0 = 0.
Proof.
  induction l as [|a l IH]; intros H; [reflexivity|]. cbn [fold_left]. change (0 =? 0) with true. cbv iota.
  rewrite (Forall_inv H). apply IH, (Forall_inv_tail H).
Qed.

Lemma last_key_dab d : last_key (d_ab d) = lastkey (d_ps d).
Proof. reflexivity. Qed.
Lemma first_key_dab d : first_key (d_ab d) = firstkey (d_ps d).
Proof. unfold first_key, firstkey, d_ab. cbn [ab_entries]. destruct (d_ps d); reflexivity. Qed.
Lemma block_pairs_dab d : block_pairs (d_ab d) = map ent_of (d_ps d).
Proof. reflexivity. Qed.

Lemma table_entries_of_ds m ds ips iridx idx : table_entries (table_of m ds ips iridx idx) = all_entries ds [].
Proof.
  unfold table_entries, table_of, all_entries. cbn [at_blocks map]. rewrite app_nil_r, map_map. reflexivity.
Qed.

Lemma sum_blocks : forall ds, sumN (map snd (map blk_of ds)) = len (frames_of ds).
Proof.
  induction ds as [|d ds IH]; [reflexivity|]. cbn [map sumN snd blk_of]. rewrite frames_of_cons, len_app, <- IH. reflexivity.
Qed.

(* accepted entries have strictly increasing keys *)
Lemma accepted_increasing : forall ops last,
  strictly_increasing (map fst (accepted last ops)) = true /\
  (forall l, last = Some l -> match accepted last ops with kv :: _ => bcmp l (fst kv) = Lt | [] => True end).
Proof.
  induction ops as [|[k v] ops IH]; intros last; [split; [reflexivity|intros; exact I]|].
  cbn [accepted].
  destruct (match last with None => true | Some l => match bcmp k l with Gt => true | _ => false end end) eqn:Eok.
  - destruct (IH (Some k)) as [H1 H2]. specialize (H2 k eq_refl). split.
    + cbn [map fst]. destruct (accepted (Some k) ops) as [|[k2 v2] rest] eqn:Ea; [reflexivity|].
      cbn [map fst] in *. cbn [strictly_increasing]. unfold blt. rewrite H2. cbn [andb]. exact H1.
    + intros l ->. cbn [fst]. apply bcmp_lt_gt. destruct (bcmp k l); try discriminate. reflexivity.
  - apply IH.
Qed.

Section Checks.
Variable compress_default : N -> bytes -> res bytes.
Variable compress_level : N -> Z -> bytes -> res bytes.
Variable o : wopts.
Local Notation dblk_ok := (dblk_ok compress_default compress_level o).

Lemma check_block_dblk d : dblk_ok d -> check_block (wo_interval o) (d_ab d) = 0.
Proof.
  intros (Hne & _ & _ & _ & _ & _ & (b & Hb & _ & Hi) & _). rewrite <- Hi. unfold d_ab. apply check_block_bb; assumption.
Qed.

Lemma check_index_ds bs : forall ips ds, Forall2 idx_entry ips ds -> Forall dblk_ok ds -> fences_ok bs ds None ->
  Forall (fun d => d_off d < 2 ^ 64) ds -> check_index ips (map blk_of ds) = 0.
Proof.
  induction 1 as [|p d ips ds [Hk Hv] Hrel IH]; intros Hok Hf Hoff; [reflexivity|].
  pose proof (Forall_inv Hok) as (_ & _ & _ & _ & _ & Hsep & _).
  cbn [map]. unfold blk_of at 1. cbn [check_index]. rewrite Hv, <- (app_nil_r (varint_encode64 _)).
  rewrite get_varint64_enc by exact (Forall_inv Hoff). rewrite N.eqb_refl. cbn [negb].
  rewrite last_key_dab, Hk. unfold ble. destruct (bcmp (lastkey (d_ps d)) (d_sep d)) eqn:E; try congruence; cbn [negb].
  - destruct ds as [|d' ds'].
    + inversion Hrel; subst. reflexivity.
    + cbn [map]. unfold blk_of at 1. rewrite first_key_dab. destruct Hf as [[Hl _] Hf]. unfold first_kv in Hl. cbn [fst] in Hl.
      unfold blt. fold (firstkey (d_ps d')) in Hl. rewrite Hl. cbn [negb].
      apply (IH (Forall_inv_tail Hok) Hf (Forall_inv_tail Hoff)).
  - destruct ds as [|d' ds'].
    + inversion Hrel; subst. reflexivity.
    + cbn [map]. unfold blk_of at 1. rewrite first_key_dab. destruct Hf as [[Hl _] Hf]. unfold first_kv in Hl. cbn [fst] in Hl.
      unfold blt. fold (firstkey (d_ps d')) in Hl. rewrite Hl. cbn [negb].
      apply (IH (Forall_inv_tail Hok) Hf (Forall_inv_tail Hoff)).
Qed.

Lemma check_sizes_ds : forall ds, Forall dblk_ok ds -> fences_ok (wo_block_size o) ds None ->
  check_sizes (wo_block_size o) (map blk_of ds) = 0.
Proof.
  induction ds as [|d ds IH]; intros Hok Hf; [reflexivity|].
  pose proof (Forall_inv Hok) as (_ & _ & _ & _ & _ & _ & _ & _ & Hs1).
  assert (E1 : (1 <? N.of_nat (length (d_ps d))) && negb (len (d_raw d) <? wo_block_size o) = false).
  { destruct (1 <? N.of_nat (length (d_ps d))) eqn:E; [|reflexivity]. cbn [andb]. specialize (Hs1 ltac:(lia)). lia. }
  destruct ds as [|d' ds'].
  - change (check_sizes (wo_block_size o) (map blk_of [d])) with
      (if (1 <? N.of_nat (length (d_ps d))) && negb (len (d_raw d) <? wo_block_size o) then E_SIZE else 0).
    rewrite E1. reflexivity.
  - change (check_sizes (wo_block_size o) (map blk_of (d :: d' :: ds'))) with
      (if (1 <? N.of_nat (length (d_ps d))) && negb (len (d_raw d) <? wo_block_size o) then E_SIZE
       else match d_ps d' with
            | e :: _ => if len (d_raw d) + entry_cost e <? wo_block_size o then E_CUT
                        else check_sizes (wo_block_size o) (map blk_of (d' :: ds'))
            | [] => E_EMPTY_BLOCK
            end).
    rewrite E1.
    pose proof (Forall_inv (Forall_inv_tail Hok)) as (Hne' & _).
    destruct Hf as [[_ Hcut] Hf]. unfold first_kv in Hcut. cbn [fst snd] in Hcut.
    destruct (d_ps d') as [|e es'] eqn:Eps; [congruence|].
    cbn [nth] in Hcut. unfold entry_cost.
    replace (len (d_raw d) + (15 + len (pe_key e) + len (pe_val e)) <? wo_block_size o) with false by lia.
    apply (IH (Forall_inv_tail Hok) Hf).
Qed.
End Checks.

(* ---- the theorem ------------------------------------------------------------------------------------ *)
Section Full.
Variable compress_default : N -> bytes -> res bytes.
Variable compress_level : N -> Z -> bytes -> res bytes.
Variable decompress : N -> bytes -> res bytes.
(* the outside world: decompression inverts compression, and compressed blocks are strings of bytes *)
Hypothesis Hrt_default : forall a raw c, compress_default a raw = Ok c -> decompress a c = Ok raw.
Hypothesis Hrt_level : forall a l raw c, compress_level a l raw = Ok c -> decompress a c = Ok raw.
Hypothesis Hwf_default : forall a raw c, wf_bytes raw -> compress_default a raw = Ok c -> wf_bytes c.
Hypothesis Hwf_level : forall a l raw c, wf_bytes raw -> compress_level a l raw = Ok c -> wf_bytes c.

(* sizes fit the integer widths of the format (cf. Properties_C01.fits) *)
Definition fits09 (o : wopts) (ops : list entry) (w' : writer) : Prop :=
  Forall (fun kv => entry_fits o kv /\ wf_bytes (snd kv)) ops /\
  meta_small (w_m w') /\ m_bytes_index_block (w_m w') < 2 ^ 32.

(* the structure the decoder finds: one decoded block per written block, at its offset, with its
   framed size; the index block; the trailer = the writer's statistics *)
Definition decodes_to (o : wopts) (off0 : N) (w' : writer) (t : atable) : Prop :=
  exists ds ib ips iridx,
    t = table_of (w_m w') ds ips iridx (bb_finish ib) /\
    writer_bytes w' = frames_of ds ++ frame (bb_finish ib) ++ metadata_write (w_m w') /\
    Forall (dblk_ok compress_default compress_level o) ds /\ offs_ok off0 ds /\
    fences_ok (wo_block_size o) ds None /\
    bbinv ib ips iridx /\ bb_interval ib = wo_interval o /\ Forall2 idx_entry ips ds.

Theorem written_file_decodes o off0 ops w' rs :
  1 <= wo_interval o ->
  writer_session compress_default compress_level o off0 ops = Ok (w', rs) ->
  fits09 o ops w' ->
  exists t,
    (* Tier 1 *) parse_table decompress off0 (writer_bytes w') = inr t /\ decodes_to o off0 w' t /\
    (* Tier 2 *) table_entries t = kept ops rs /\ kept ops rs = accepted None ops /\ rs = accept_spec None ops /\
    (* Tier 3 *) wf_validate off0 (mkexpect (wo_block_size o) (wo_interval o) (wo_comp o)) t = 0.
Proof.
  intros Hint Hsess (Hfit & Hms & Hisz).
  assert (Hfit1 : Forall (entry_fits o) ops) by (eapply Forall_impl; [|exact Hfit]; intros a [H _]; exact H).
  assert (Hfit2 : Forall (fun kv => wf_bytes (fst kv) /\ wf_bytes (snd kv)) ops).
  { eapply Forall_impl; [|exact Hfit]. intros a [(H & _) H2]. split; assumption. }
  destruct (session_structure compress_default compress_level o off0 ops w' rs Hint Hfit1 Hsess)
    as (ds & ib & ips & iridx & Hbytes & Hblocks & Hoffs & Hfences & Hib & Hibi & Hrel & Hibo & Halg & Hibytes &
        Hcnt & Hbd & Hbs & Hce & Hbk & Hbv & Hent & Hacc & Hrs).
  pose proof (session_bytes_wf compress_default compress_level Hwf_default Hwf_level o off0 ops w' rs Hfit2 Hsess) as Hwf.
  set (m := w_m w') in *. set (idx := bb_finish ib) in *.
  assert (Hisz' : len (frame idx) < 2 ^ 32) by (rewrite <- Hibytes; exact Hisz).
  exists (table_of m ds ips iridx idx). splits.
  - exact (parse_table_structure compress_default compress_level decompress Hrt_default Hrt_level o off0 _ m ds ib ips iridx
             Hbytes Hwf Hms Hblocks Hoffs Hib Hibo Halg Hbd Hisz').
  - exists ds, ib, ips, iridx. splits; try assumption; reflexivity.
  - rewrite table_entries_of_ds. exact Hent.
  - exact Hacc.
  - exact Hrs.
  - pose proof Hms as (Hs0 & _).
    apply wf_validate_split.
    + reflexivity.
    + unfold chk_blocks. cbn [at_blocks table_of ex_interval].
      apply (fold_check_zero (fun bl : N * ablock * N => check_block (wo_interval o) (snd (fst bl)))).
      apply Forall_forall. intros bl Hbl. apply in_map_iff in Hbl. destruct Hbl as (d & <- & Hd). cbn [blk_of fst snd].
      rewrite Forall_forall in Hblocks. apply (check_block_dblk compress_default compress_level o d (Hblocks d Hd)).
    + unfold chk_index_block. cbn [at_blocks at_index table_of iab_of ab_entries ab_restarts ex_interval].
      destruct ips as [|p0 ips0] eqn:Eips.
      * inversion Hrel; subst ds. cbn [map]. rewrite (bbinv_nil_ridx _ _ Hib). reflexivity.
      * rewrite <- Eips in *. assert (Hne : ips <> []) by (rewrite Eips; discriminate).
        replace (match ips with [] => match map blk_of ds with [] => if list_eqb (map (offset_of ips) iridx) [0] then 0 else E_CADENCE
                                                     | _ :: _ => check_block (wo_interval o) (mkab ips (map (offset_of ips) iridx) (len idx) false) end
                 | _ :: _ => check_block (wo_interval o) (mkab ips (map (offset_of ips) iridx) (len idx) false) end)
          with (check_block (wo_interval o) (mkab ips (map (offset_of ips) iridx) (len idx) false)) by (rewrite Eips; reflexivity).
        rewrite <- Hibi. apply check_block_bb; assumption.
    + unfold chk_order. rewrite table_entries_of_ds, Hent, Hacc. apply accepted_increasing.
    + unfold chk_index. cbn [at_blocks at_index table_of iab_of ab_entries].
      apply (check_index_ds compress_default compress_level o (wo_block_size o)); try assumption.
      apply Forall_forall. intros d Hd. pose proof (offs_le ds off0 d Hoffs Hd). lia.
    + unfold chk_sizes. cbn [at_blocks table_of ex_block_size].
      apply (check_sizes_ds compress_default compress_level o); assumption.
    + unfold chk_stats. cbv zeta. rewrite table_entries_of_ds, Hent.
      cbn [at_trailer at_blocks at_index_framed table_of tr_of tr_count_entries tr_count_data_blocks tr_bytes_data_blocks
           tr_index_block_offset tr_bytes_index_block tr_bytes_keys tr_bytes_values tr_data_block_size tr_compression_algorithm
           ex_block_size ex_comp].
      rewrite sum_blocks, map_length.
      rewrite Hce, Hcnt, Hbd, Hibo, Hibytes, Hbk, Hbv, Hbs, Halg. unfold sum_keys, sum_vals.
      rewrite !N.eqb_refl. reflexivity.
Qed.
End Full.
Print Assumptions written_file_decodes.
