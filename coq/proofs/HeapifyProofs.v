(* libmy/heap.c, heap_heapify (model/Heap.v: heapify): for every total preorder the bottom-up
   construction "for (i = size/2; i-- > 0;) siftdown(i)" returns a permutation of the array that
   is in heap order.  Complements proofs/HeapProofs.v (push / pop / replace), whose siftdown lemma
   is about a hole below an otherwise ordered array; here the part of the array above the
   position being sifted is not yet ordered, so the invariant is "ordered from position k on". *)
From Coq Require Import List Arith Lia Permutation ZArith ZifyNat.
From Mtbl Require Import model.Heap proofs.HeapProofs.
Import ListNotations.
Ltac Zify.zify_post_hook ::= Z.div_mod_to_equations.

Section Heapify.
Variable A : Type.
Variable cmp : A -> A -> comparison.
Variable dflt : A.
Local Notation le := (le A cmp).
Hypothesis le_trans : forall a b c, le a b -> le b c -> le a c.
Hypothesis le_total : forall a b, le a b \/ le b a.

Local Notation get := (get A dflt).
Local Notation set_nth := (set_nth A).
Local Notation le_c := (le_c A cmp).
Local Notation hok := (hok A cmp dflt).

(* every edge whose upper end is at position k or later is in order *)
Definition hfrom (k : nat) (l : list A) : Prop :=
  forall i, 0 < i < length l -> k <= parent i -> le (get l (parent i)) (get l i).

Lemma hfrom_0 l : hfrom 0 l <-> hok l.
Proof. split; [intros H i Hi; apply H; [exact Hi|lia]|intros H i Hi _; apply H, Hi]. Qed.

(* [l] with a hole at [pos] >= k that [item] is to fill *)
Definition hole_from (k : nat) (l : list A) (pos : nat) (item : A) : Prop :=
  pos < length l /\ k <= pos /\
  (forall i, 0 < i < length l -> k <= parent i -> i <> pos -> parent i <> pos -> le (get l (parent i)) (get l i)) /\
  (0 < pos -> k <= parent pos -> forall c, c < length l -> 0 < c -> parent c = pos -> le (get l (parent pos)) (get l c)) /\
  (0 < pos -> k <= parent pos -> le (get l (parent pos)) item).

Lemma fill_from_ok k l pos item : hole_from k l pos item ->
  (forall c, c < length l -> 0 < c -> parent c = pos -> le item (get l c)) -> hfrom k (set_nth l pos item).
Proof.
  intros (Hpos & Hk & H1 & H2 & H3) Hch i Hi Hki. rewrite (set_nth_length A) in Hi.
  destruct (Nat.eq_dec i pos) as [->|Hne].
  - rewrite (get_set_same A cmp dflt le_trans le_total) by exact Hpos. rewrite (get_set_other A dflt) by (unfold parent; lia). apply H3; [lia|exact Hki].
  - rewrite (get_set_other A dflt l pos i) by congruence. destruct (Nat.eq_dec (parent i) pos) as [E|E].
    + rewrite E, (get_set_same A cmp dflt le_trans le_total) by exact Hpos. apply Hch; [lia|lia|exact E].
    + rewrite (get_set_other A dflt) by congruence. apply H1; [lia|exact Hki|exact Hne|exact E].
Qed.

Lemma le_refl a : le a a.
Proof. destruct (le_total a a); assumption. Qed.

Lemma siftdown_loop_from k : forall fuel l pos item, hole_from k l pos item -> length l - pos <= fuel ->
  hfrom k (siftdown_loop A cmp dflt fuel l pos item) /\ Permutation (siftdown_loop A cmp dflt fuel l pos item) (set_nth l pos item).
Proof.
  induction fuel as [|fuel IH]; intros l pos item Hh Hf; [destruct Hh as (Hpos & _); lia|].
  pose proof Hh as (Hpos & Hk & H1 & H2 & H3). cbn [siftdown_loop].
  destruct (2 * pos + 1 <? length l) eqn:Ec.
  2:{ apply Nat.ltb_ge in Ec. split; [|reflexivity]. apply fill_from_ok; [exact Hh|]. intros c Hc H0 Hp. unfold parent in Hp. lia. }
  apply Nat.ltb_lt in Ec.
  set (cp := 2 * pos + 1) in *. set (rp := cp + 1).
  set (choice := if rp <? length l then if le_c (get l rp) (get l cp) then (rp, get l rp) else (cp, get l cp) else (cp, get l cp)).
  assert (Hchoice : exists cpos, choice = (cpos, get l cpos) /\ (cpos = cp \/ (cpos = rp /\ rp < length l)) /\
                      (forall c, c < length l -> 0 < c -> parent c = pos -> le (get l cpos) (get l c))).
  { unfold choice. destruct (rp <? length l) eqn:Er.
    - apply Nat.ltb_lt in Er. destruct (le_c (get l rp) (get l cp)) eqn:El.
      + exists rp. split; [reflexivity|]. split; [right; split; [reflexivity|exact Er]|].
        intros c Hc H0 Hp. assert (c = cp \/ c = rp) by (unfold parent in Hp; subst cp rp; lia).
        destruct H as [->| ->]; [apply (le_c_true A cmp), El|apply le_refl].
      + exists cp. split; [reflexivity|]. split; [left; reflexivity|].
        intros c Hc H0 Hp. assert (c = cp \/ c = rp) by (unfold parent in Hp; subst cp rp; lia).
        destruct H as [->| ->]; [apply le_refl|apply (le_c_false A cmp le_total), El].
    - apply Nat.ltb_ge in Er. exists cp. split; [reflexivity|]. split; [left; reflexivity|].
      intros c Hc H0 Hp. assert (c = cp) by (unfold parent in Hp; subst cp rp; lia). subst c. apply le_refl. }
  destruct Hchoice as (cpos & -> & Hcp & Hmin).
  assert (Hcl : cpos < length l) by (destruct Hcp as [->|[-> H]]; [exact Ec|exact H]).
  assert (Hcpar : parent cpos = pos) by (unfold parent; subst cp rp; lia).
  assert (Hcgt : pos < cpos) by (subst cp rp; lia).
  destruct (le_c item (get l cpos)) eqn:Eit.
  - split; [|reflexivity]. apply fill_from_ok; [exact Hh|]. intros c Hc H0 Hp.
    eapply le_trans; [apply (le_c_true A cmp), Eit|apply Hmin; assumption].
  - (* move the child up, continue below *)
    set (l1 := set_nth l pos (get l cpos)).
    assert (Hh1 : hole_from k l1 cpos item).
    { unfold hole_from, l1. rewrite (set_nth_length A). split; [exact Hcl|]. split; [lia|]. split; [|split].
      - intros i Hi Hki Hne Hpe. destruct (Nat.eq_dec i pos) as [->|Hip].
        + rewrite (get_set_same A cmp dflt le_trans le_total) by exact Hpos. rewrite (get_set_other A dflt) by (unfold parent; lia).
          apply H2; [lia|exact Hki|exact Hcl|lia|exact Hcpar].
        + rewrite (get_set_other A dflt l pos i) by congruence. destruct (Nat.eq_dec (parent i) pos) as [E|E].
          * rewrite E, (get_set_same A cmp dflt le_trans le_total) by exact Hpos. apply Hmin; [lia|lia|exact E].
          * rewrite (get_set_other A dflt) by congruence. apply H1; [lia|exact Hki|exact Hip|exact E].
      - intros _ _ c Hc H0 Hp. rewrite Hcpar, (get_set_same A cmp dflt le_trans le_total) by exact Hpos.
        rewrite (get_set_other A dflt) by (unfold parent in Hp; lia).
        rewrite <- Hp. apply H1; [lia|rewrite Hp; lia|unfold parent in Hp; lia|rewrite Hp; lia].
      - intros _ _. rewrite Hcpar, (get_set_same A cmp dflt le_trans le_total) by exact Hpos. apply (le_c_false A cmp le_total), Eit. }
    destruct (IH l1 cpos item Hh1 ltac:(unfold l1; rewrite (set_nth_length A); lia)) as [Hok Hperm].
    split; [exact Hok|]. eapply Permutation_trans; [exact Hperm|]. unfold l1. apply (swap_perm A cmp dflt le_trans le_total); [exact Hpos|exact Hcl|lia].
Qed.

(* one step of heap_heapify *)
Lemma siftdown_from k l : k < length l -> hfrom (S k) l ->
  hfrom k (siftdown A cmp dflt l k) /\ Permutation (siftdown A cmp dflt l k) l.
Proof.
  intros Hk H. unfold siftdown. replace (k <? length l) with true by (symmetry; apply Nat.ltb_lt; exact Hk).
  destruct (siftdown_loop_from k (length l) l k (get l k)) as [Hok Hperm].
  - unfold hole_from. split; [exact Hk|]. split; [lia|]. split; [|split].
    + intros i Hi Hki Hne Hp. apply H; [exact Hi|lia].
    + intros H0 Hp. unfold parent in Hp. lia.
    + intros H0 Hp. unfold parent in Hp. lia.
  - lia.
  - split; [exact Hok|]. rewrite (set_nth_same A cmp dflt le_trans le_total) in Hperm by exact Hk. exact Hperm.
Qed.

Lemma heapify_loop_ok : forall i l, i <= length l -> hfrom i l ->
  hok (heapify_loop A cmp dflt i l) /\ Permutation (heapify_loop A cmp dflt i l) l.
Proof.
  induction i as [|k IH]; intros l Hi H; cbn [heapify_loop].
  - split; [apply hfrom_0, H|reflexivity].
  - destruct (siftdown_from k l ltac:(lia) H) as [H1 Hp1].
    destruct (IH (siftdown A cmp dflt l k) ltac:(rewrite (Permutation_length Hp1); lia) H1) as [H2 Hp2].
    split; [exact H2|]. eapply Permutation_trans; [exact Hp2|exact Hp1].
Qed.

Theorem heapify_ok l : hok (heapify A cmp dflt l) /\ Permutation (heapify A cmp dflt l) l.
Proof.
  unfold heapify. apply heapify_loop_ok.
  - apply Nat.div_le_upper_bound; lia.
  - intros i Hi Hp. unfold parent in Hp. lia.
Qed.

(* hence the root of a heapified non-empty array is a least element of it *)
Corollary heapify_root_min l r t y : heapify A cmp dflt l = r :: t -> In y l -> le r y.
Proof.
  intros E Hy. destruct (heapify_ok l) as [Hok Hperm]. rewrite E in *.
  apply (Permutation_in _ (Permutation_sym Hperm)) in Hy. destruct Hy as [<-|Hy]; [apply le_refl|].
  exact (heap_root_min A cmp dflt le_trans le_total r t y Hok Hy).
Qed.
End Heapify.

Print Assumptions heapify_ok.
