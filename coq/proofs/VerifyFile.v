(* C12, file level: mtbl_verify and the verify_checksums reader on whole files.
   Part 1 - files of the shape  pre ++ frames ++ index frame ++ trailer  whose checksum fields are
            arbitrary (intact or damaged): what reader_open, get_block and verify_file do.
   Part 2 - writer side: every byte written is a byte (< 256) when keys, values and compressor
            output are; the trailer's block count / byte count describe the frames.
   Part 3 - T12a (intact written files verify and read back with verify_checksums),
            T12b (one damaged frame: mtbl_verify fails, the verifying reader stops on it). *)
From Coq Require Import NArith ZArith List Lia ZifyBool ZifyN ZifyNat.
From Mtbl Require Import gen.Consts model.Bytes model.Codec model.Order model.Block model.Crc model.Writer
  spec.Leb128 spec.Parse model.Reader model.Verify
  proofs.BytesLemmas proofs.CodecProofs proofs.OrderProofs proofs.WriterProofs proofs.MetaProofs proofs.CrcProofs
  proofs.BlockProofs proofs.LookupProofs proofs.ReaderProofs proofs.BlockRT proofs.VerifyProofs proofs.TableRT.
Local Open Scope N_scope.
Ltac Zify.zify_post_hook ::= Z.div_mod_to_equations.
Local Ltac splits := repeat match goal with |- _ /\ _ => split end.

(* ================= Part 1: frames with arbitrary checksum fields ============================ *)

Lemma crc32c_ref_lt s : wf_bytes s -> crc32c_ref s < 2 ^ 32.
Proof.
  intros Hs. unfold crc32c_ref. change (2 ^ 32) with 4294967296.
  apply lxor_lt32; [apply crc_update_lt32; [reflexivity|exact Hs]|reflexivity].
Qed.

(* the writer's frame is the frame whose field holds the CRC-32C of the stored bytes *)
Lemma frame_fr stored : wf_bytes stored -> len stored < 2 ^ 64 -> frame stored = fr (crc32c_ref stored) stored.
Proof.
  intros Hw Hs. unfold frame, fr. rewrite varint_encode64_spec by exact Hs. f_equal. f_equal.
  unfold fixed_encode32, u32. pose proof (crc32c_ref_lt stored Hw) as H. change (2 ^ 32) with 4294967296 in H.
  rewrite N.mod_small by exact H. reflexivity.
Qed.

Lemma len_fr c s : len (fr c s) = len (leb128 (len s)) + 4 + len s.
Proof. unfold fr. rewrite !len_app, len_le_encode. lia. Qed.
Lemma leb128_len_pos v : 0 < len (leb128 v).
Proof. pose proof (leb128_nonempty v). destruct (leb128 v); [congruence|rewrite len_cons; lia]. Qed.
Lemma leb128_len64 v : v < 2 ^ 64 -> len (leb128 v) <= 10.
Proof.
  intros H. apply (leb128_len_le v 9). change (128 ^ N.of_nat 10) with 1180591620717411303424.
  change (2 ^ 64) with 18446744073709551616 in H. lia.
Qed.

Section Load.
Variable decompress : N -> bytes -> res bytes.

(* loading a frame whose field is [c]: fine without verify_checksums, and with it when c is the CRC *)
Lemma get_block_fr r pre c stored post raw ab :
  r_version r = FORMAT_V2 -> r_file r = pre ++ fr c stored ++ post ->
  len stored < 2 ^ 64 -> c < 2 ^ 32 -> (r_verify r = true -> c = crc32c_ref stored) ->
  (if r_comp r =? COMP_NONE then Ok stored else decompress (r_comp r) stored) = Ok raw ->
  block_init raw = Some ab ->
  get_block decompress r (len pre) = Ok ab.
Proof.
  intros Hver Hf Hs Hc Hcrc Hraw Hinit. unfold get_block. rewrite Hver, Hf.
  rewrite !len_app. pose proof (leb128_len_pos (len stored)) as Hpos.
  replace (len pre <? len pre + (len (fr c stored) + len post)) with true by (rewrite len_fr; lia).
  cbn [negb]. unfold FORMAT_V2, FORMAT_V1. change (1 =? 0) with false. cbv iota.
  rewrite (drop_app_len pre _ (len pre) eq_refl). unfold fr. rewrite <- !app_assoc.
  rewrite (varint_decode64_leb (len stored)) by exact Hs.
  set (hdr := leb128 (len stored)) in *.
  replace (pre ++ hdr ++ le_encode 4 c ++ stored ++ post) with ((pre ++ hdr ++ le_encode 4 c) ++ stored ++ post)
    by (rewrite <- !app_assoc; reflexivity).
  replace (len pre + len hdr + 4) with (len (pre ++ hdr ++ le_encode 4 c)) by (rewrite !len_app, len_le_encode; lia).
  rewrite slice_app_mid.
  replace ((pre ++ hdr ++ le_encode 4 c) ++ stored ++ post) with ((pre ++ hdr) ++ le_encode 4 c ++ stored ++ post)
    by (rewrite <- !app_assoc; reflexivity).
  rewrite (drop_app_len (pre ++ hdr) _ (len pre + len hdr)) by (rewrite len_app; reflexivity).
  unfold fixed_decode32. rewrite le_decode_encode. change (256 ^ N.of_nat 4) with 4294967296.
  change (2 ^ 32) with 4294967296 in Hc. rewrite N.mod_small by exact Hc.
  assert (Hok : (if r_verify r then c =? crc32c_ref stored else true) = true).
  { destruct (r_verify r); [|reflexivity]. rewrite (Hcrc eq_refl). apply N.eqb_refl. }
  rewrite Hok. cbn [negb]. rewrite Hraw, Hinit. reflexivity.
Qed.
End Load.

(* mtbl_reader_init on  pre ++ index frame ++ trailer : the index block's checksum is tested first
   (only with verify_checksums), then block_init's assertion on the restart count *)
Lemma reader_open_fr pre c idx m verify :
  meta_small m -> m_index_block_offset m = len pre -> len (pre ++ fr c idx ++ metadata_write m) < 2 ^ 64 ->
  c < 2 ^ 32 -> 8 <= len idx ->
  fst (reader_open (pre ++ fr c idx ++ metadata_write m) verify) =
  if verify && negb (c =? crc32c_ref idx) then Abort
  else Ok (Some (mkreader (pre ++ fr c idx ++ metadata_write m) FORMAT_V2 (m_compression_algorithm m) verify (block_init idx) m)).
Proof.
  intros Hm Hibo Hlen Hc Hidx. destruct (metadata_roundtrip m Hm) as [Hrt Hml]. unfold MTBL_METADATA_SIZE in Hml.
  set (f := pre ++ fr c idx ++ metadata_write m) in *.
  assert (Hs : len idx < 2 ^ 64) by (unfold f in Hlen; rewrite !len_app, len_fr in Hlen; lia).
  pose proof (leb128_len64 (len idx) Hs) as Hl10. pose proof (leb128_len_pos (len idx)) as Hl1.
  set (hdr := leb128 (len idx)) in *.
  assert (Hfl : len (fr c idx) = len hdr + 4 + len idx) by apply len_fr.
  assert (Hn : len f = len pre + len (fr c idx) + 512) by (unfold f; rewrite !len_app, Hml; lia).
  change (2 ^ 64) with 18446744073709551616 in *.
  unfold reader_open. fold f. rewrite Hn. unfold MTBL_METADATA_SIZE.
  replace (len pre + len (fr c idx) + 512 <? 512) with false by lia.
  replace (len pre + len (fr c idx) + 512 - 512) with (len (pre ++ fr c idx)) by (rewrite len_app; lia).
  replace f with ((pre ++ fr c idx) ++ metadata_write m) at 1 by (unfold f; rewrite <- app_assoc; reflexivity).
  rewrite (drop_app_len (pre ++ fr c idx) _ _ eq_refl). rewrite Hrt.
  unfold FORMAT_V2, FORMAT_V1. change (1 =? 0) with false. cbv iota.
  unfold READER_MIN_BLOCK_V2. rewrite Hibo. unfold u64.
  rewrite (N.mod_small (len pre + 512 + 13)) by lia.
  replace ((len pre + len (fr c idx) + 512 <? len pre + 512 + 13) || (len pre + 512 + 13 <? len pre)) with false by lia.
  unfold f at 1. rewrite (drop_app_len pre _ _ eq_refl). unfold fr at 1. rewrite <- !app_assoc.
  rewrite (varint_decode64_leb (len idx)) by (change (2 ^ 64) with 18446744073709551616; exact Hs). fold hdr.
  cbv iota beta. rewrite len_app.
  replace ((len pre + len (fr c idx) - len pre <? len hdr + 4) || (len pre + len (fr c idx) - len pre - (len hdr + 4) <? len idx)) with false by lia.
  replace f with ((pre ++ hdr ++ le_encode 4 c) ++ idx ++ metadata_write m)
    by (unfold f, fr; fold hdr; rewrite <- !app_assoc; reflexivity).
  replace (len pre + len hdr + 4) with (len (pre ++ hdr ++ le_encode 4 c)) by (rewrite !len_app, len_le_encode; lia).
  rewrite slice_app_mid.
  replace ((pre ++ hdr ++ le_encode 4 c) ++ idx ++ metadata_write m) with ((pre ++ hdr) ++ le_encode 4 c ++ idx ++ metadata_write m)
    by (rewrite <- !app_assoc; reflexivity).
  replace (len (pre ++ hdr ++ le_encode 4 c) - 4) with (len pre + len hdr) by (rewrite !len_app, len_le_encode; lia).
  destruct verify.
  - rewrite (drop_app_len (pre ++ hdr) _ (len pre + len hdr)) by (rewrite len_app; reflexivity).
    unfold fixed_decode32. rewrite le_decode_encode. change (256 ^ N.of_nat 4) with 4294967296.
    change (2 ^ 32) with 4294967296 in Hc. rewrite N.mod_small by exact Hc. cbn [andb].
    replace ((4 <=? len idx) && (len idx <? 8)) with false by lia.
    destruct (c =? crc32c_ref idx); reflexivity.
  - cbn [andb negb]. replace ((4 <=? len idx) && (len idx <? 8)) with false by lia. reflexivity.
Qed.

(* ---- mtbl_verify on  pre ++ data frames ++ index frame ++ trailer -------------------------------- *)
Lemma frames_cons c s items : frames ((c, s) :: items) = fr c s ++ frames items.
Proof. reflexivity. Qed.
Lemma frames_app a b : frames (a ++ b) = frames a ++ frames b.
Proof. unfold frames. rewrite map_app, concat_app. reflexivity. Qed.

Lemma frames_count_le items : N.of_nat (length items) <= len (frames items).
Proof.
  induction items as [|[c s] items IH]; [cbn; lia|]. rewrite frames_cons, len_app, len_fr. cbn [length].
  pose proof (leb128_len_pos (len s)). lia.
Qed.
Lemma frames_item_le items : Forall (fun it => len (snd it) <= len (frames items)) items.
Proof.
  induction items as [|[c s] items IH]; [constructor|]. rewrite frames_cons, len_app, len_fr. constructor.
  - cbn [snd]. lia.
  - eapply Forall_impl; [|exact IH]. cbn beta. intros it H. lia.
Qed.

Lemma verify_file_fr pre items c idx m :
  meta_small m -> m_index_block_offset m = len pre + len (frames items) ->
  m_count_data_blocks m = N.of_nat (length items) -> m_bytes_data_blocks m = len (frames items) ->
  len (pre ++ frames items ++ fr c idx ++ metadata_write m) < 2 ^ 64 -> c < 2 ^ 32 -> 8 <= len idx ->
  Forall (fun it => fst it < 2 ^ 32) items ->
  verify_file (pre ++ frames items ++ fr c idx ++ metadata_write m) =
  if negb (c =? crc32c_ref idx) then VAbort else if all_match items then VOk else VFailed.
Proof.
  intros Hm Hibo Hcnt Hbdb Hlen Hc Hidx Hfld.
  set (f := pre ++ frames items ++ fr c idx ++ metadata_write m) in *.
  assert (Hf : f = (pre ++ frames items) ++ fr c idx ++ metadata_write m) by (unfold f; rewrite <- !app_assoc; reflexivity).
  unfold verify_file. rewrite Hf at 1.
  rewrite (reader_open_fr (pre ++ frames items) c idx m true Hm ltac:(rewrite len_app; exact Hibo) ltac:(rewrite <- Hf; exact Hlen) Hc Hidx).
  cbn [andb]. destruct (c =? crc32c_ref idx); cbn [negb]; [|reflexivity].
  cbn [r_meta r_version]. rewrite Hcnt, Hbdb, Hibo.
  assert (Hlf : len f = len pre + len (frames items) + len (fr c idx) + 512)
    by (unfold f; rewrite !len_app, metadata_write_len; lia).
  destruct (N.eqb_spec (N.of_nat (length items)) 0) as [E0|Hnz].
  { destruct items; [reflexivity|cbn [length] in E0; lia]. }
  rewrite Bool.andb_false_r.
  change (2 ^ 64) with 18446744073709551616 in Hlen.
  replace (u64 (len pre + len (frames items) + 18446744073709551616 - len (frames items))) with (len pre) by (unfold u64; lia).
  unfold f at 1 2.
  replace (take (len pre + len (frames items)) (pre ++ frames items ++ fr c idx ++ metadata_write m)) with (pre ++ frames items).
  2:{ symmetry. rewrite app_assoc. apply take_app_len. rewrite len_app. reflexivity. }
  rewrite (drop_app_len pre _ _ eq_refl).
  pose proof (verify_blocks_frames items [] [] 0 (len (frames items))
                (S (N.to_nat (N.min (N.of_nat (length items)) (len (pre ++ frames items ++ fr c idx ++ metadata_write m)))))) as H.
  cbn [app] in H. rewrite app_nil_r in H. change (len []) with 0 in H. apply H.
  - pose proof (frames_item_le items) as Hle. rewrite Forall_forall in *. intros it Hin. split; [apply Hfld, Hin|].
    specialize (Hle it Hin). cbn beta in Hle. change (2 ^ 64) with 18446744073709551616. lia.
  - lia.
  - fold f. pose proof (frames_count_le items). lia.
Qed.

(* ================= Part 2: the writer ============================================================ *)
(* ---- every value written is a byte ---------------------------------------------------------------- *)
Lemma wf_app (a b : bytes) : wf_bytes a -> wf_bytes b -> wf_bytes (a ++ b).
Proof. intros Ha Hb. apply Forall_app. split; assumption. Qed.
Lemma wf_concat (l : list bytes) : Forall wf_bytes l -> wf_bytes (concat l).
Proof. induction 1; [constructor|cbn [concat]; apply wf_app; assumption]. Qed.
Lemma wf_drop n (l : bytes) : wf_bytes l -> wf_bytes (drop n l).
Proof.
  intros H. unfold drop. rewrite <- (firstn_skipn (N.to_nat n) l) in H. apply Forall_app in H. tauto.
Qed.
Lemma varint_encode64_wf v : wf_bytes (varint_encode64 v).
Proof. rewrite varint_encode64_u64. apply leb128_wf_bytes. Qed.
Lemma varint_encode32_wf v : wf_bytes (varint_encode32 v).
Proof.
  assert (H : u32 v < 2 ^ 32) by (unfold u32; change (2 ^ 32) with 4294967296; lia).
  assert (E : varint_encode32 v = varint_encode32 (u32 v)).
  { unfold varint_encode32. f_equal. unfold u32. rewrite N.mod_mod by lia. reflexivity. }
  rewrite E, (varint_encode32_spec _ H). apply leb128_wf_bytes.
Qed.
Lemma fixed_encode32_wf v : wf_bytes (fixed_encode32 v).
Proof. apply le_encode_wf. Qed.
Lemma fixed_encode64_wf v : wf_bytes (fixed_encode64 v).
Proof. apply le_encode_wf. Qed.
Lemma entry_encode_wf s k v : wf_bytes k -> wf_bytes v -> wf_bytes (entry_encode s k v).
Proof.
  intros Hk Hv. unfold entry_encode. repeat apply wf_app; try apply varint_encode32_wf; [apply wf_drop, Hk|exact Hv].
Qed.
Lemma bb_add_wf b k v b' : wf_bytes (bb_buf b) -> wf_bytes k -> wf_bytes v -> bb_add b k v = Ok b' -> wf_bytes (bb_buf b').
Proof.
  intros Hb Hk Hv H. unfold bb_add in H. destruct (negb (bb_counter b <=? bb_interval b) || bb_finished b); [discriminate|].
  inversion H; subst b'. cbn [bb_buf]. apply wf_app; [exact Hb|apply entry_encode_wf; assumption].
Qed.
Lemma bb_finish_wf b : wf_bytes (bb_buf b) -> wf_bytes (bb_finish b).
Proof.
  intros Hb. unfold bb_finish. apply wf_app; [exact Hb|]. apply wf_app; [|apply fixed_encode32_wf].
  apply wf_concat. apply Forall_forall. intros x Hx. apply in_map_iff in Hx. destruct Hx as (r & <- & _).
  destruct (UINT32_MAX <? len (bb_buf b)); [apply fixed_encode64_wf|apply fixed_encode32_wf].
Qed.
Lemma metadata_write_wf m : wf_bytes (metadata_write m).
Proof.
  unfold metadata_write. apply wf_app; [|apply wf_app; [|apply fixed_encode32_wf]].
  - apply wf_concat. apply Forall_forall. intros x Hx. apply in_map_iff in Hx. destruct Hx as (i & <- & _). apply fixed_encode64_wf.
  - apply Forall_forall. intros x Hx. apply repeat_spec in Hx. subst x. unfold wf_byte. lia.
Qed.

Section WriterWf.
Variable compress_default : N -> bytes -> res bytes.
Variable compress_level : N -> Z -> bytes -> res bytes.
(* assumption about the outside world: the compressors produce bytes *)
Hypothesis compress_default_wf : forall a raw c, compress_default a raw = Ok c -> wf_bytes c.
Hypothesis compress_level_wf : forall a l raw c, compress_level a l raw = Ok c -> wf_bytes c.
Local Notation writer_add := (Writer.writer_add compress_default compress_level).
Local Notation writer_flush := (Writer.writer_flush compress_default compress_level).
Local Notation writer_finish := (Writer.writer_finish compress_default compress_level).
Local Notation writer_adds := (Writer.writer_adds compress_default compress_level).

Definition wfw (w : writer) : Prop :=
  Forall wf_bytes (w_out w) /\ wf_bytes (bb_buf (w_data w)) /\ wf_bytes (bb_buf (w_index w)) /\ wf_bytes (w_last_key w).

Lemma compress_block_wf o raw c : wf_bytes raw -> compress_block compress_default compress_level o raw = Ok c -> wf_bytes c.
Proof.
  intros Hr H. unfold compress_block in H. destruct (wo_comp o =? COMP_NONE); [inversion H; subst; exact Hr|].
  destruct (Z.eqb (wo_level o) DEFAULT_COMPRESSION_LEVEL).
  - destruct (compress_default (wo_comp o) raw) eqn:E; try discriminate. inversion H; subst. eapply compress_default_wf, E.
  - destruct (compress_level (wo_comp o) (wo_level o) raw) eqn:E; try discriminate. inversion H; subst. eapply compress_level_wf, E.
Qed.

Lemma write_data_block_wf w lk stored w' : wfw w -> wf_bytes lk -> wf_bytes stored ->
  write_data_block w lk stored = Ok w' -> wfw w' /\ w_last_key w' = w_last_key w /\ w_data w' = w_data w.
Proof.
  intros (Ho & Hd & Hi & Hl) Hlk Hs H. unfold write_data_block in H.
  destruct (bb_add (w_index w) lk (varint_encode64 (w_pending_offset w))) as [idx| | |] eqn:E; try discriminate.
  inversion H; subst w'; clear H. cbn [w_last_key w_data]. split; [|split; reflexivity].
  unfold wfw. cbn [w_out w_data w_index w_last_key]. splits; try assumption.
  - cbn [block_chunks rev app]. constructor; [exact Hs|]. constructor; [apply fixed_encode32_wf|]. constructor; [apply varint_encode64_wf|exact Ho].
  - eapply bb_add_wf; [exact Hi|exact Hlk|apply varint_encode64_wf|exact E].
Qed.

Lemma writer_flush_wf w w' : wfw w -> writer_flush w = Ok w' -> wfw w'.
Proof.
  intros Hw H. unfold Writer.writer_flush in H. destruct (w_closed w); [discriminate|].
  destruct (bb_empty (w_data w)); [inversion H; subst; exact Hw|].
  destruct (compress_block compress_default compress_level (w_opt w) (bb_finish (w_data w))) as [st| | |] eqn:E; try discriminate.
  destruct Hw as (Ho & Hd & Hi & Hl).
  eapply write_data_block_wf in H; [destruct H as (H & _); exact H| |exact Hl|].
  - unfold wfw. cbn [w_out w_data w_index w_last_key bb_reset bb_buf]. splits; try assumption. constructor.
  - eapply compress_block_wf; [|exact E]. apply bb_finish_wf, Hd.
Qed.

Lemma writer_add_wf w k v w' r : wfw w -> wf_bytes k -> wf_bytes v -> writer_add w k v = Ok (w', r) -> wfw w'.
Proof.
  intros Hw Hk Hv H. unfold Writer.writer_add in H. destruct (w_closed w); [discriminate|].
  match type of H with (if ?c then _ else _) = _ => destruct c end; [inversion H; subst; exact Hw|].
  match type of H with context [if ?c then _ else Ok w] => destruct c end.
  - match type of H with context [if ?c then Abort else _] => destruct c end; [discriminate|].
    match type of H with context [Writer.writer_flush _ _ ?w0] =>
      destruct (Writer.writer_flush compress_default compress_level w0) as [w1| | |] eqn:Ef; try discriminate;
      assert (H0 : wfw w0) end.
    { destruct Hw as (Ho & Hd & Hi & Hl). unfold wfw. cbn [w_out w_data w_index w_last_key]. splits; try assumption.
      apply sep_wf; assumption. }
    pose proof (writer_flush_wf _ _ H0 Ef) as (Ho1 & Hd1 & Hi1 & Hl1).
    destruct (bb_add (w_data w1) k v) as [d| | |] eqn:Ea; try discriminate. inversion H; subst; clear H.
    unfold wfw. cbn [w_out w_data w_index w_last_key]. splits; try assumption. eapply bb_add_wf; [| | |exact Ea]; assumption.
  - destruct Hw as (Ho & Hd & Hi & Hl).
    destruct (bb_add (w_data w) k v) as [d| | |] eqn:Ea; try discriminate. inversion H; subst; clear H.
    unfold wfw. cbn [w_out w_data w_index w_last_key]. splits; try assumption. eapply bb_add_wf; [| | |exact Ea]; assumption.
Qed.

Lemma writer_adds_wf : forall ops w w' rs, wfw w -> Forall (fun kv => wf_bytes (fst kv) /\ wf_bytes (snd kv)) ops ->
  writer_adds w ops = Ok (w', rs) -> wfw w'.
Proof.
  induction ops as [|[k v] ops IH]; intros w w' rs Hw Hops H; cbn [Writer.writer_adds] in H.
  - inversion H; subst; exact Hw.
  - inversion Hops as [|? ? [Hk Hv] Hops']; subst. cbn [fst snd] in *.
    destruct (writer_add w k v) as [[w1 r]| | |] eqn:Ea; try discriminate.
    destruct (writer_adds w1 ops) as [[w2 rs2]| | |] eqn:Er; try discriminate. inversion H; subst.
    eapply IH; [exact (writer_add_wf w k v w1 r Hw Hk Hv Ea)|exact Hops'|exact Er].
Qed.

Lemma writer_finish_wf w w' : wfw w -> writer_finish w = Ok w' -> wf_bytes (writer_bytes w').
Proof.
  intros Hw H. unfold Writer.writer_finish in H.
  destruct (writer_flush w) as [w1| | |] eqn:Ef; try discriminate. inversion H; subst; clear H.
  pose proof (writer_flush_wf _ _ Hw Ef) as (Ho1 & Hd1 & Hi1 & Hl1).
  unfold writer_bytes, writer_chunks. cbn [w_out]. apply wf_concat. apply Forall_rev.
  cbn [block_chunks rev app]. constructor; [apply metadata_write_wf|].
  constructor; [apply bb_finish_wf, Hi1|]. constructor; [apply fixed_encode32_wf|].
  constructor; [apply varint_encode64_wf|exact Ho1].
Qed.

Theorem session_wf o off0 ops w' rs : Forall (fun kv => wf_bytes (fst kv) /\ wf_bytes (snd kv)) ops ->
  writer_session compress_default compress_level o off0 ops = Ok (w', rs) -> wf_bytes (writer_bytes w').
Proof.
  intros Hops H. unfold writer_session in H.
  destruct (writer_adds (writer_init o off0) ops) as [[w rs0]| | |] eqn:Ea; try discriminate.
  destruct (writer_finish w) as [wf| | |] eqn:Ef; try discriminate. inversion H; subst.
  eapply writer_finish_wf; [|exact Ef]. eapply writer_adds_wf; [|exact Hops|exact Ea].
  unfold wfw, writer_init. cbn. splits; constructor.
Qed.
End WriterWf.

(* ---- the structure of the written file, with the trailer's block statistics ------------------------ *)
Section Structure.
Variable compress_default : N -> bytes -> res bytes.
Variable compress_level : N -> Z -> bytes -> res bytes.

(* written_structure of TableRT, extended by count_data_blocks / bytes_data_blocks / compression *)
Theorem written_structure_counts o off0 ops w' rs :
  1 <= wo_interval o -> Forall (entry_fits o) ops ->
  writer_session compress_default compress_level o off0 ops = Ok (w', rs) ->
  exists ds ib ips iridx,
    writer_bytes w' = frames_of ds ++ frame (bb_finish ib) ++ metadata_write (w_m w') /\
    Forall (dblk_ok compress_default compress_level o) ds /\ offs_ok off0 ds /\
    fences_ok (wo_block_size o) ds None /\
    bbinv ib ips iridx /\ bb_interval ib = wo_interval o /\ Forall2 idx_entry ips ds /\
    m_index_block_offset (w_m w') = off0 + len (frames_of ds) /\
    m_bytes_index_block (w_m w') = len (frame (bb_finish ib)) /\
    m_compression_algorithm (w_m w') = wo_comp o /\
    m_count_data_blocks (w_m w') = N.of_nat (length ds) /\
    m_bytes_data_blocks (w_m w') = len (frames_of ds) /\
    all_entries ds [] = kept ops rs.
Proof.
  intros Hint Hfit Hsess. unfold writer_session in Hsess.
  destruct (writer_adds compress_default compress_level (writer_init o off0) ops) as [[w rs0]| | |] eqn:Eadds; try discriminate.
  destruct (writer_finish compress_default compress_level w) as [wf| | |] eqn:Efin; try discriminate.
  inversion Hsess; subst wf rs0; clear Hsess.
  pose proof (tinv_init compress_default compress_level o off0 Hint) as Hinv0.
  destruct (adds_inv _ _ _ _ _ _ _ _ _ _ _ Hinv0 Hfit Eadds) as (ds & ps & ridx & Hinv1 & Hent1).
  unfold all_entries in Hent1 at 2. cbn [map concat app] in Hent1.
  destruct Hinv1 as [Hcore Hlast Hfresh Hlkwf Hlklen Hsize Hs1inv]. unfold Writer.writer_finish in Efin.
  destruct (writer_flush compress_default compress_level w) as [w1| | |] eqn:Ef; try discriminate.
  assert (Hw1 : exists ds', tcore compress_default compress_level o off0 w1 ds' [] [0%nat] None /\ all_entries ds' [] = all_entries ds ps).
  { destruct ps as [|p0 ps0] eqn:Eps.
    - destruct (Hfresh eq_refl) as (-> & _ & ->). unfold Writer.writer_flush in Ef.
      rewrite (tc_open _ _ _ _ _ _ _ _ _ Hcore), (bb_is_empty _ _ (tc_data _ _ _ _ _ _ _ _ _ Hcore)) in Ef. inversion Ef; subst w1.
      exists []. split; [exact Hcore|reflexivity].
    - assert (Hne : p0 :: ps0 <> []) by discriminate. rewrite <- Eps in *. destruct (Hlast Hne) as [Hl _].
      destruct (flush_core compress_default compress_level o off0 w ds ps ridx w1 Hcore Hne) as (d & Hc1 & Hdps & _); try assumption.
      { rewrite Hl, bcmp_refl. discriminate. }
      exists (ds ++ [d]). split; [exact Hc1|]. unfold all_entries. rewrite map_app, concat_app. cbn [map concat]. rewrite Hdps, !app_nil_r. reflexivity. }
  destruct Hw1 as (ds' & [Hc Hopt Hout Hdata (ips & iridx & Hidx & Hrel) Hblocks Hoffs Hfences Hsorted Hintv] & Hall).
  inversion Efin; subst w'; clear Efin.
  exists ds', (w_index w1), ips, iridx.
  destruct Hout as [Hb Hcnt Hd Hp Hbs Halg].
  cbn [w_m m_index_block_offset m_compression_algorithm m_bytes_index_block m_count_data_blocks m_bytes_data_blocks].
  unfold frames_of. rewrite map_length in Hcnt.
  splits; try assumption; try exact (proj2 Hintv).
  - unfold writer_bytes, writer_chunks in *. cbn [w_out]. cbn [rev]. rewrite !concat_app. cbn [concat].
    rewrite !app_nil_r, <- !app_assoc, Hb. unfold frame. rewrite <- !app_assoc. reflexivity.
  - rewrite frame_len. reflexivity.
  - rewrite Hall, Hent1. reflexivity.
Qed.
End Structure.

(* ================= Part 3: written files ========================================================== *)
Definition item_of (d : dblk) : N * bytes := (crc32c_ref (d_stored d), d_stored d).
Definition items_of (ds : list dblk) : list (N * bytes) := map item_of ds.

Lemma frames_of_cons d ds : frames_of (d :: ds) = frame (d_stored d) ++ frames_of ds.
Proof. reflexivity. Qed.
Lemma frame_wf_inv s : wf_bytes (frame s) -> wf_bytes s.
Proof. unfold frame. intros H. apply Forall_app in H as [_ H]. apply Forall_app in H as [_ H]. exact H. Qed.
Lemma frames_of_wf ds : wf_bytes (frames_of ds) -> Forall (fun d => wf_bytes (d_stored d)) ds.
Proof.
  induction ds as [|d ds IH]; intros H; [constructor|]. rewrite frames_of_cons in H. apply Forall_app in H as [H1 H2].
  constructor; [apply frame_wf_inv, H1|apply IH, H2].
Qed.
Lemma frames_of_item_le ds : Forall (fun d => len (d_stored d) <= len (frames_of ds)) ds.
Proof.
  induction ds as [|d ds IH]; [constructor|]. rewrite frames_of_cons, len_app. constructor.
  - unfold frame. rewrite !len_app. lia.
  - eapply Forall_impl; [|exact IH]. cbn beta. intros x H. lia.
Qed.
Lemma frames_of_items ds : Forall (fun d => wf_bytes (d_stored d) /\ len (d_stored d) < 2 ^ 64) ds ->
  frames_of ds = frames (items_of ds).
Proof.
  induction 1 as [|d ds [Hw Hl] _ IH]; [reflexivity|]. rewrite frames_of_cons. unfold items_of. cbn [map].
  unfold item_of at 1. rewrite frames_cons. fold (items_of ds). rewrite <- IH, frame_fr by assumption. reflexivity.
Qed.
Lemma all_match_items ds : all_match (items_of ds) = true.
Proof. induction ds as [|d ds IH]; [reflexivity|]. cbn [items_of map item_of all_match]. rewrite N.eqb_refl. exact IH. Qed.

Lemma bbinv_finish_len8 b ps ridx : bbinv b ps ridx -> 8 <= len (bb_finish b).
Proof.
  intros Hib. unfold bb_finish. rewrite !len_app, len_fixed32.
  assert (0 < nrestarts b) by (unfold nrestarts; rewrite (bi_restarts _ _ _ Hib), map_length; pose proof (bi_ridx_ne _ _ _ Hib); lia).
  destruct (UINT32_MAX <? len (bb_buf b)).
  - pose proof (len_concat_map (fun r => fixed_encode64 r) (bb_restarts b)) as E. rewrite E.
    unfold nrestarts in H. destruct (bb_restarts b); [cbn in H; lia|]. cbn [fold_right]. rewrite len_fixed64. lia.
  - pose proof (len_concat_map (fun r => fixed_encode32 r) (bb_restarts b)) as E. rewrite E.
    unfold nrestarts in H. destruct (bb_restarts b); [cbn in H; lia|]. cbn [fold_right]. rewrite len_fixed32. lia.
Qed.

(* the hypotheses on the add sequence: T01's (entry_fits) plus "values are bytes" *)
Definition ops_ok (o : wopts) (ops : list entry) : Prop :=
  Forall (entry_fits o) ops /\ Forall (fun kv => wf_bytes (snd kv)) ops.

Lemma ops_ok_wf o ops : ops_ok o ops -> Forall (fun kv => wf_bytes (fst kv) /\ wf_bytes (snd kv)) ops.
Proof.
  intros [H1 H2]. rewrite Forall_forall in *. intros kv Hin. split; [exact (proj1 (H1 kv Hin))|exact (H2 kv Hin)].
Qed.

Section Written.
Variable compress_default : N -> bytes -> res bytes.
Variable compress_level : N -> Z -> bytes -> res bytes.
Hypothesis compress_default_wf : forall a raw c, compress_default a raw = Ok c -> wf_bytes c.
Hypothesis compress_level_wf : forall a l raw c, compress_level a l raw = Ok c -> wf_bytes c.

(* the written file as frames with checksum fields, ready for Part 1 *)
Record layout (o : wopts) (prefix : bytes) (ops : list entry) (w' : writer) (rs : list bool)
              (ds : list dblk) (ib : bb) (ips : list pentry) (iridx : list nat) : Prop := {
  ly_bytes : writer_bytes w' = frames_of ds ++ frame (bb_finish ib) ++ metadata_write (w_m w');
  ly_file : prefix ++ writer_bytes w' =
            prefix ++ frames (items_of ds) ++ fr (crc32c_ref (bb_finish ib)) (bb_finish ib) ++ metadata_write (w_m w');
  ly_frames : frames_of ds = frames (items_of ds);
  ly_blocks : Forall (dblk_ok compress_default compress_level o) ds;
  ly_offs : offs_ok (len prefix) ds;
  ly_fences : fences_ok (wo_block_size o) ds None;
  ly_ib : bbinv ib ips iridx;
  ly_ibi : bb_interval ib = wo_interval o;
  ly_rel : Forall2 idx_entry ips ds;
  ly_ibo : m_index_block_offset (w_m w') = len prefix + len (frames (items_of ds));
  ly_ibytes : m_bytes_index_block (w_m w') = len (frame (bb_finish ib));
  ly_alg : m_compression_algorithm (w_m w') = wo_comp o;
  ly_cnt : m_count_data_blocks (w_m w') = N.of_nat (length (items_of ds));
  ly_bdb : m_bytes_data_blocks (w_m w') = len (frames (items_of ds));
  ly_ent : all_entries ds [] = kept ops rs;
  ly_wf : Forall (fun d => wf_bytes (d_stored d) /\ len (d_stored d) < 2 ^ 64) ds;
  ly_idx_wf : wf_bytes (bb_finish ib);
  ly_idx8 : 8 <= len (bb_finish ib);
  ly_idx64 : len (bb_finish ib) < 2 ^ 64;
}.

Theorem written_layout o prefix ops w' rs :
  1 <= wo_interval o -> ops_ok o ops ->
  writer_session compress_default compress_level o (len prefix) ops = Ok (w', rs) ->
  len (prefix ++ writer_bytes w') < 2 ^ 64 ->
  exists ds ib ips iridx, layout o prefix ops w' rs ds ib ips iridx.
Proof.
  intros Hint Hops Hsess Hlen.
  destruct (written_structure_counts compress_default compress_level o (len prefix) ops w' rs Hint (proj1 Hops) Hsess)
    as (ds & ib & ips & iridx & Hbytes & Hblocks & Hoffs & Hfences & Hib & Hibi & Hrel & Hibo & Hibytes & Halg & Hcnt & Hbdb & Hent).
  pose proof (session_wf compress_default compress_level compress_default_wf compress_level_wf o (len prefix) ops w' rs
                (ops_ok_wf o ops Hops) Hsess) as Hwf.
  rewrite Hbytes in Hwf. apply Forall_app in Hwf as [Hwf1 Hwf2]. apply Forall_app in Hwf2 as [Hwf2 _].
  apply frame_wf_inv in Hwf2. apply frames_of_wf in Hwf1.
  rewrite Hbytes, !len_app in Hlen. unfold frame in Hlen at 1. rewrite !len_app in Hlen.
  assert (Hds : Forall (fun d => wf_bytes (d_stored d) /\ len (d_stored d) < 2 ^ 64) ds).
  { pose proof (frames_of_item_le ds) as Hle. rewrite Forall_forall in *. intros d Hin. split; [apply Hwf1, Hin|].
    specialize (Hle d Hin). cbn beta in Hle. lia. }
  assert (Hi64 : len (bb_finish ib) < 2 ^ 64) by lia.
  pose proof (frames_of_items ds Hds) as Hfr.
  exists ds, ib, ips, iridx. constructor; try assumption.
  - rewrite Hbytes, Hfr, frame_fr by assumption. reflexivity.
  - rewrite <- Hfr. exact Hibo.
  - unfold items_of. rewrite map_length. exact Hcnt.
  - rewrite <- Hfr. exact Hbdb.
  - eapply bbinv_finish_len8, Hib.
Qed.

(* ---- T12a (mtbl_verify): every written file passes ------------------------------------------------- *)
Theorem written_verify_ok o prefix ops w' rs :
  1 <= wo_interval o -> ops_ok o ops ->
  writer_session compress_default compress_level o (len prefix) ops = Ok (w', rs) ->
  meta_small (w_m w') -> len (prefix ++ writer_bytes w') < 2 ^ 64 ->
  verify_file (prefix ++ writer_bytes w') = VOk.
Proof.
  intros Hint Hops Hsess Hm Hlen.
  destruct (written_layout o prefix ops w' rs Hint Hops Hsess Hlen) as (ds & ib & ips & iridx & L).
  rewrite (ly_file _ _ _ _ _ _ _ _ _ L) in *.
  rewrite verify_file_fr; try assumption; try (apply L).
  - rewrite N.eqb_refl, all_match_items. reflexivity.
  - apply crc32c_ref_lt, L.
  - apply Forall_forall. intros it Hin. apply in_map_iff in Hin as (d & <- & Hd). cbn [item_of fst].
    apply crc32c_ref_lt. pose proof (ly_wf _ _ _ _ _ _ _ _ _ L) as H. rewrite Forall_forall in H. apply H, Hd.
Qed.
End Written.

(* ---- runs of frames: positions, and replacing one item ------------------------------------------- *)
Definition dummy_it : N * bytes := (0, []).
Definition same_lens (a b : list (N * bytes)) : Prop := Forall2 (fun x y => len (snd x) = len (snd y)) a b.
Definition upd {A} (i : nat) (x : A) (l : list A) : list A := firstn i l ++ x :: skipn (S i) l.

Lemma frames_split_items : forall items j, (j < length items)%nat ->
  frames items = frames (firstn j items) ++ fr (fst (nth j items dummy_it)) (snd (nth j items dummy_it)) ++ frames (skipn (S j) items).
Proof.
  induction items as [|[c s] items IH]; intros j Hj; [cbn in Hj; lia|]. destruct j as [|j].
  - reflexivity.
  - cbn [firstn skipn nth]. rewrite !frames_cons, (IH j) by (cbn in Hj; lia). rewrite <- !app_assoc. reflexivity.
Qed.

Lemma same_lens_firstn : forall a b, same_lens a b -> forall j, len (frames (firstn j a)) = len (frames (firstn j b)).
Proof.
  induction 1 as [|[c s] [c' s'] a b Hxy Hab IH]; intros j; [rewrite !firstn_nil; reflexivity|].
  destruct j as [|j]; [reflexivity|]. cbn [firstn]. rewrite !frames_cons, !len_app, !len_fr, IH. cbn [snd] in Hxy. rewrite Hxy. reflexivity.
Qed.
Lemma same_lens_frames a b : same_lens a b -> len (frames a) = len (frames b).
Proof.
  intros H. pose proof (same_lens_firstn a b H (length a)) as E. rewrite firstn_all in E.
  rewrite (Forall2_length' _ _ _ H), firstn_all in E. exact E.
Qed.
Lemma same_lens_nth a b j : same_lens a b -> len (snd (nth j a dummy_it)) = len (snd (nth j b dummy_it)).
Proof.
  intros H. revert j. induction H as [|x y a b Hxy Hab IH]; intros j; [destruct j; reflexivity|].
  destruct j as [|j]; [exact Hxy|apply IH].
Qed.
Lemma same_lens_refl a : same_lens a a.
Proof. induction a; constructor; [reflexivity|assumption]. Qed.
Lemma same_lens_upd a i x : (i < length a)%nat -> len (snd x) = len (snd (nth i a dummy_it)) -> same_lens a (upd i x a).
Proof.
  revert i. induction a as [|y a IH]; intros i Hi Hx; [cbn in Hi; lia|]. destruct i as [|i].
  - unfold upd. cbn [firstn skipn app]. constructor; [cbn [nth] in Hx; congruence|apply same_lens_refl].
  - unfold upd. cbn [firstn skipn app]. constructor; [reflexivity|]. apply IH; [cbn in Hi; lia|exact Hx].
Qed.
Lemma upd_length {A} i (x : A) l : (i < length l)%nat -> length (upd i x l) = length l.
Proof.
  intros H. unfold upd. rewrite app_length, firstn_length. cbn [length]. rewrite skipn_length. lia.
Qed.
Lemma upd_nth_same {A} i (x d : A) l : (i < length l)%nat -> nth i (upd i x l) d = x.
Proof.
  intros H. unfold upd. rewrite app_nth2 by (rewrite firstn_length; lia). rewrite firstn_length.
  replace (i - Nat.min i (length l))%nat with 0%nat by lia. reflexivity.
Qed.
Lemma upd_nth_other {A} (x d : A) : forall l i j, (i < length l)%nat -> j <> i -> nth j (upd i x l) d = nth j l d.
Proof.
  induction l as [|y l IH]; intros i j Hi Hne; [cbn in Hi; lia|]. destruct i as [|i].
  - unfold upd. cbn [firstn skipn app]. destruct j; [congruence|reflexivity].
  - change (upd (S i) x (y :: l)) with (y :: upd i x l). destruct j as [|j]; [reflexivity|].
    cbn [nth]. apply IH; [cbn in Hi; lia|congruence].
Qed.

Lemma Forall_firstn' {A} (P : A -> Prop) : forall l n, Forall P l -> Forall P (firstn n l).
Proof. induction l as [|x l IH]; intros n H; [rewrite firstn_nil; constructor|]. destruct n; [constructor|]. inversion H; subst. constructor; [assumption|apply IH; assumption]. Qed.
Lemma all_match_app a b : all_match (a ++ b) = all_match a && all_match b.
Proof. induction a as [|[c s] a IH]; [reflexivity|]. cbn [app all_match]. rewrite IH, Bool.andb_assoc. reflexivity. Qed.

(* ---- a written file whose checksum fields and stored bytes are replaced (lengths kept) --------------- *)
Section FileItems.
Variable compress_default : N -> bytes -> res bytes.
Variable compress_level : N -> Z -> bytes -> res bytes.
Variable decompress : N -> bytes -> res bytes.
Hypothesis Hrt_default : forall a raw c, compress_default a raw = Ok c -> decompress a c = Ok raw.
Hypothesis Hrt_level : forall a l raw c, compress_level a l raw = Ok c -> decompress a c = Ok raw.
Variables (o : wopts) (prefix : bytes) (ops : list entry) (w' : writer) (rs : list bool)
          (ds : list dblk) (ib : bb) (ips : list pentry) (iridx : list nat).
Hypothesis L : layout compress_default compress_level o prefix ops w' rs ds ib ips iridx.
Hypothesis Hm : meta_small (w_m w').
Hypothesis Hlen : len (prefix ++ writer_bytes w') < 2 ^ 64.
Variable items : list (N * bytes).
Hypothesis Hsame : same_lens (items_of ds) items.
Hypothesis Hfld : Forall (fun it => fst it < 2 ^ 32) items.
Variables (c : N) (idx : bytes).
Hypothesis Hidxlen : len idx = len (bb_finish ib).
Hypothesis Hc : c < 2 ^ 32.

Definition vfile : bytes := prefix ++ frames items ++ fr c idx ++ metadata_write (w_m w').

Lemma vfile_len : len vfile = len (prefix ++ writer_bytes w').
Proof using L Hsame Hidxlen.
  rewrite (ly_file _ _ _ _ _ _ _ _ _ _ _ L). unfold vfile. rewrite !len_app, !len_fr, Hidxlen, (same_lens_frames _ _ Hsame). reflexivity.
Qed.
Lemma items_length : length items = length ds.
Proof using Hsame. rewrite <- (Forall2_length' _ _ _ Hsame). unfold items_of. apply map_length. Qed.

Lemma vfile_verify :
  verify_file vfile = if negb (c =? crc32c_ref idx) then VAbort else if all_match items then VOk else VFailed.
Proof using L Hm Hlen Hsame Hfld Hidxlen Hc.
  unfold vfile. apply verify_file_fr; try assumption.
  - rewrite <- (same_lens_frames _ _ Hsame). apply L.
  - rewrite items_length. rewrite (ly_cnt _ _ _ _ _ _ _ _ _ _ _ L). unfold items_of. rewrite map_length. reflexivity.
  - rewrite <- (same_lens_frames _ _ Hsame). apply L.
  - fold vfile. rewrite vfile_len. exact Hlen.
  - rewrite Hidxlen. apply L.
Qed.

Lemma vfile_open verify :
  fst (reader_open vfile verify) =
  if verify && negb (c =? crc32c_ref idx) then Abort
  else Ok (Some (mkreader vfile FORMAT_V2 (wo_comp o) verify (block_init idx) (w_m w'))).
Proof using L Hm Hlen Hsame Hidxlen Hc.
  assert (E : vfile = (prefix ++ frames items) ++ fr c idx ++ metadata_write (w_m w')) by (unfold vfile; rewrite <- !app_assoc; reflexivity).
  rewrite E at 1. rewrite (reader_open_fr (prefix ++ frames items) c idx (w_m w') verify Hm).
  - rewrite <- E, (ly_alg _ _ _ _ _ _ _ _ _ _ _ L). reflexivity.
  - rewrite len_app, <- (same_lens_frames _ _ Hsame). apply L.
  - rewrite <- E, vfile_len. exact Hlen.
  - exact Hc.
  - rewrite Hidxlen. apply L.
Qed.

Lemma block_offset j : (j < length ds)%nat -> d_off (nth j ds dummy_d) = len (prefix ++ frames (firstn j items)).
Proof using L Hsame.
  intros Hj. rewrite (offs_nth ds (len prefix) j (ly_offs _ _ _ _ _ _ _ _ _ _ _ L) Hj), len_app.
  rewrite (frames_of_items (firstn j ds)) by (apply Forall_firstn', L).
  unfold items_of. rewrite <- firstn_map. fold (items_of ds). rewrite (same_lens_firstn _ _ Hsame). reflexivity.
Qed.

Lemma vfile_split j : (j < length ds)%nat ->
  vfile = (prefix ++ frames (firstn j items)) ++ fr (fst (nth j items dummy_it)) (snd (nth j items dummy_it)) ++
          (frames (skipn (S j) items) ++ fr c idx ++ metadata_write (w_m w')).
Proof using Hsame.
  intros Hj. unfold vfile. rewrite (frames_split_items items j) at 1 by (rewrite items_length; exact Hj).
  rewrite <- !app_assoc. reflexivity.
Qed.

Lemma item_bounds j : (j < length ds)%nat ->
  fst (nth j items dummy_it) < 2 ^ 32 /\ len (snd (nth j items dummy_it)) < 2 ^ 64.
Proof using L Hsame Hfld.
  intros Hj. split.
  - rewrite Forall_forall in Hfld. apply Hfld, nth_In. rewrite items_length. exact Hj.
  - rewrite <- (same_lens_nth _ _ j Hsame). unfold items_of, dummy_it.
    change (0, @nil N) with (item_of dummy_d). rewrite map_nth. cbn [item_of snd].
    pose proof (ly_wf _ _ _ _ _ _ _ _ _ _ _ L) as H. rewrite Forall_forall in H. apply H, nth_In, Hj.
Qed.

(* an undamaged block loads - with verify_checksums its field must be the CRC *)
Lemma vfile_load r j : r_file r = vfile -> r_version r = FORMAT_V2 -> r_comp r = wo_comp o -> (j < length ds)%nat ->
  snd (nth j items dummy_it) = d_stored (nth j ds dummy_d) ->
  (r_verify r = true -> fst (nth j items dummy_it) = crc32c_ref (d_stored (nth j ds dummy_d))) ->
  get_block decompress r (d_off (nth j ds dummy_d)) = Ok (d_ab (nth j ds dummy_d)).
Proof using Hrt_default Hrt_level L Hsame Hfld.
  intros Hf Hv Hcomp Hj Hs Hcrc. destruct (item_bounds j Hj) as [Hb1 Hb2].
  pose proof (ly_blocks _ _ _ _ _ _ _ _ _ _ _ L) as Hblocks. rewrite Forall_forall in Hblocks.
  destruct (Hblocks _ (nth_In ds dummy_d Hj)) as (_ & _ & Hinit & _ & Hcompr & _).
  rewrite (block_offset j Hj).
  eapply get_block_fr; [exact Hv|rewrite Hf; apply (vfile_split j Hj)|exact Hb2|exact Hb1| | |exact Hinit].
  - intros Hver. rewrite Hs. apply Hcrc, Hver.
  - rewrite Hs, Hcomp. apply (decompress_block compress_default compress_level decompress Hrt_default Hrt_level), Hcompr.
Qed.

(* a block whose field is not the CRC of its stored bytes stops the verifying reader *)
Lemma vfile_stop r j : r_file r = vfile -> r_version r = FORMAT_V2 -> r_verify r = true -> (j < length ds)%nat ->
  fst (nth j items dummy_it) <> crc32c_ref (snd (nth j items dummy_it)) ->
  get_block decompress r (d_off (nth j ds dummy_d)) = Abort.
Proof using L Hsame Hfld.
  intros Hf Hv Hver Hj Hne. destruct (item_bounds j Hj) as [Hb1 Hb2]. rewrite (block_offset j Hj).
  eapply get_block_crc_mismatch; [exact Hver|exact Hv|rewrite Hf; apply (vfile_split j Hj)|exact Hb2|exact Hb1|exact Hne].
Qed.
End FileItems.

(* ---- the table a reader sees, given that every data block loads ------------------------------------ *)
Section LayoutTable.
Variable compress_default : N -> bytes -> res bytes.
Variable compress_level : N -> Z -> bytes -> res bytes.
Variable decompress : N -> bytes -> res bytes.
Variables (o : wopts) (prefix : bytes) (ops : list entry) (w' : writer) (rs : list bool)
          (ds : list dblk) (ib : bb) (ips : list pentry) (iridx : list nat).
Hypothesis L : layout compress_default compress_level o prefix ops w' rs ds ib ips iridx.
Hypothesis Hlen : len (prefix ++ writer_bytes w') < 2 ^ 64.
Hypothesis Hidx32 : len (bb_finish ib) < 2 ^ 32.

Definition iab_of : ablock := mkab ips (map (offset_of ips) iridx) (len (bb_finish ib)) false.

Lemma ioff_block j : (j < length ds)%nat -> ioff iab_of j = d_off (nth j ds dummy_d).
Proof using L Hlen.
  intros Hj. pose proof (ly_rel _ _ _ _ _ _ _ _ _ _ _ L) as Hrel.
  assert (Hlenips : length ips = length ds) by (eapply Forall2_length'; exact Hrel).
  destruct (Forall2_nth _ _ _ dummy_pe dummy_d j Hrel ltac:(clear - Hlenips Hj; lia)) as [_ Hval].
  unfold ioff, entry_at. cbn [iab_of ab_entries]. rewrite Hval, <- (app_nil_r (varint_encode64 _)).
  rewrite varint64_roundtrip; [reflexivity|].
  rewrite (offs_nth ds (len prefix) j (ly_offs _ _ _ _ _ _ _ _ _ _ _ L) Hj).
  rewrite (ly_bytes _ _ _ _ _ _ _ _ _ _ _ L), (frames_split ds j Hj) in Hlen. rewrite !len_app in Hlen. clear - Hlen. lia.
Qed.

Theorem layout_table r : r_index r = block_init (bb_finish ib) ->
  (forall j, (j < length ds)%nat -> get_block decompress r (d_off (nth j ds dummy_d)) = Ok (d_ab (nth j ds dummy_d))) ->
  ds <> [] ->
  table_ok decompress r iab_of iridx (length ds) (Bof ds) (Rof ds) /\
  table_entries_of (length ds) (Bof ds) = kept ops rs.
Proof using L Hlen Hidx32.
  intros Hri Hload Hne.
  pose proof (ly_rel _ _ _ _ _ _ _ _ _ _ _ L) as Hrel. pose proof (ly_ib _ _ _ _ _ _ _ _ _ _ _ L) as Hib.
  pose proof (ly_blocks _ _ _ _ _ _ _ _ _ _ _ L) as Hblocks. pose proof (ly_offs _ _ _ _ _ _ _ _ _ _ _ L) as Hoffs.
  pose proof (ly_fences _ _ _ _ _ _ _ _ _ _ _ L) as Hfences.
  split; [|rewrite entries_of_blocks; apply L].
  assert (Hlenips : length ips = length ds) by (eapply Forall2_length'; exact Hrel).
  assert (Hnelen : (0 < length ds)%nat) by (destruct ds; [congruence|cbn; lia]).
  assert (Hipsne : ips <> []) by (intros E; rewrite E in Hlenips; cbn in Hlenips; lia).
  assert (Hdok : forall i, (i < length ds)%nat -> dblk_ok compress_default compress_level o (nth i ds dummy_d)).
  { intros i Hi. rewrite Forall_forall in Hblocks. apply Hblocks, nth_In, Hi. }
  assert (Hips_sorted : sorted_ps ips).
  { intros i j Hij. destruct (Forall2_nth _ _ _ dummy_pe dummy_d i Hrel ltac:(lia)) as [-> _].
    destruct (Forall2_nth _ _ _ dummy_pe dummy_d j Hrel ltac:(lia)) as [-> _].
    apply (seps_sorted (dblk_ok compress_default compress_level o)) with (bs := wo_block_size o); try assumption; try lia.
    - intros d (H & _). exact H.
    - intros d (_ & H & _). exact H.
    - intros d (_ & _ & _ & _ & _ & H & _). exact H. }
  constructor.
  + rewrite Hri. apply block_init_finish; assumption.
  + apply (finish_wfb ib); assumption.
  + unfold nentries. cbn [iab_of ab_entries]. exact Hlenips.
  + intros i Hi. rewrite (ioff_block i Hi). apply Hload, Hi.
  + intros i Hi. destruct (Hdok i Hi) as (_ & _ & _ & Hwfb & _). exact Hwfb.
  + intros i j Hi Hj E. rewrite (ioff_block i Hi), (ioff_block j Hj) in E.
    destruct (Nat.lt_trichotomy i j) as [Hlt|[->|Hgt]]; [|reflexivity|].
    * pose proof (offs_lt ds _ i j Hoffs ltac:(lia)). lia.
    * pose proof (offs_lt ds _ j i Hoffs ltac:(lia)). lia.
  + intros i Hi. destruct (Hdok i Hi) as (Hne' & _ & _ & _ & _ & Hsep & _).
    destruct (Forall2_nth _ _ _ dummy_pe dummy_d i Hrel ltac:(lia)) as [Hkey _].
    unfold key_at, entry_at, Bof, d_ab, nentries. cbn [iab_of ab_entries]. rewrite Hkey, <- lastkey_nth by exact Hne'. exact Hsep.
  + intros i Hi. destruct (Forall2_nth _ _ _ dummy_pe dummy_d i Hrel ltac:(lia)) as [Hkey _].
    unfold key_at, entry_at, Bof, d_ab. cbn [iab_of ab_entries]. rewrite Hkey. apply (fences_nth_lt _ ds None i Hfences Hi).
Qed.

(* no data block: the index block is the empty block *)
Lemma layout_empty : ds = [] -> kept ops rs = [] /\ block_init (bb_finish ib) = Some (mkab [] [0] 8 false).
Proof using L.
  intros Eds. pose proof (ly_rel _ _ _ _ _ _ _ _ _ _ _ L) as Hrel. pose proof (ly_ib _ _ _ _ _ _ _ _ _ _ _ L) as Hib.
  pose proof (ly_ent _ _ _ _ _ _ _ _ _ _ _ L) as Hent. rewrite Eds in Hrel, Hent. inversion Hrel; subst ips.
  split; [symmetry; exact Hent|]. pose proof (bbinv_nil_ridx _ _ Hib) as E. rewrite E in Hib. apply block_init_finish_empty, Hib.
Qed.
End LayoutTable.

(* open + iterate from the start with a chosen verify_checksums option (read_all of Reader.v fixes false) *)
Definition read_all_v (decompress : N -> bytes -> res bytes) (verify : bool) (fuel : nat) (f : bytes) : res (list entry) :=
  match fst (reader_open f verify) with
  | Ok (Some r) => match reader_iter decompress r with
                   | Ok (Some it) => drain decompress fuel r it
                   | Ok None => Ok []
                   | Fail => Fail | Abort => Abort | Oob => Oob
                   end
  | Ok None => Fail
  | Fail => Fail | Abort => Abort | Oob => Oob
  end.

Lemma read_all_v_false decompress fuel f : read_all_v decompress false fuel f = read_all decompress fuel f.
Proof. reflexivity. Qed.

Lemma items_of_nth ds j : nth j (items_of ds) dummy_it = item_of (nth j ds dummy_d).
Proof. unfold items_of, dummy_it. change (0, @nil N) with (item_of dummy_d). apply map_nth. Qed.

Section Main.
Variable compress_default : N -> bytes -> res bytes.
Variable compress_level : N -> Z -> bytes -> res bytes.
Variable decompress : N -> bytes -> res bytes.
Hypothesis Hrt_default : forall a raw c, compress_default a raw = Ok c -> decompress a c = Ok raw.
Hypothesis Hrt_level : forall a l raw c, compress_level a l raw = Ok c -> decompress a c = Ok raw.

(* T01's domain, plus: values are byte strings *)
Definition fits_v (o : wopts) (prefix : bytes) (ops : list entry) (w' : writer) : Prop :=
  ops_ok o ops /\ meta_small (w_m w') /\ m_bytes_index_block (w_m w') < 2 ^ 32 /\ len (prefix ++ writer_bytes w') < 2 ^ 64.

Section WithLayout.
Variables (o : wopts) (prefix : bytes) (ops : list entry) (w' : writer) (rs : list bool)
          (ds : list dblk) (ib : bb) (ips : list pentry) (iridx : list nat).
Hypothesis L : layout compress_default compress_level o prefix ops w' rs ds ib ips iridx.
Hypothesis Hm : meta_small (w_m w').
Hypothesis Hidxsz : m_bytes_index_block (w_m w') < 2 ^ 32.
Hypothesis Hlen : len (prefix ++ writer_bytes w') < 2 ^ 64.

Local Notation idx := (bb_finish ib).
Local Notation m := (w_m w').
Local Notation vf := (vfile prefix w').

Lemma idx32 : len idx < 2 ^ 32.
Proof using L Hidxsz. rewrite (ly_ibytes _ _ _ _ _ _ _ _ _ _ _ L) in Hidxsz. unfold frame in Hidxsz. rewrite !len_app in Hidxsz. clear - Hidxsz. lia. Qed.

Lemma intact_vfile : prefix ++ writer_bytes w' = vf (items_of ds) (crc32c_ref idx) idx.
Proof using L. apply L. Qed.

Lemma intact_fld : Forall (fun it => fst it < 2 ^ 32) (items_of ds).
Proof using L.
  apply Forall_forall. intros it Hin. apply in_map_iff in Hin as (d & <- & Hd). cbn [item_of fst].
  apply crc32c_ref_lt. pose proof (ly_wf _ _ _ _ _ _ _ _ _ _ _ L) as H. rewrite Forall_forall in H. apply H, Hd.
Qed.

(* the reader - with or without verify_checksums - on the intact file *)
Theorem intact_reader verify :
  let r := mkreader (prefix ++ writer_bytes w') FORMAT_V2 (wo_comp o) verify (block_init idx) m in
  fst (reader_open (prefix ++ writer_bytes w') verify) = Ok (Some r) /\
  (forall j, (j < length ds)%nat -> get_block decompress r (d_off (nth j ds dummy_d)) = Ok (d_ab (nth j ds dummy_d))) /\
  ((ds = [] /\ kept ops rs = [] /\ block_init idx = Some (mkab [] [0] 8 false)) \/
   (table_ok decompress r (iab_of ib ips iridx) iridx (length ds) (Bof ds) (Rof ds) /\
    table_entries_of (length ds) (Bof ds) = kept ops rs)).
Proof using Hrt_default Hrt_level L Hm Hidxsz Hlen.
  intros r. pose proof (crc32c_ref_lt idx (ly_idx_wf _ _ _ _ _ _ _ _ _ _ _ L)) as Hc.
  assert (Hopen : fst (reader_open (prefix ++ writer_bytes w') verify) = Ok (Some r)).
  { unfold r. rewrite intact_vfile.
    rewrite (vfile_open compress_default compress_level o prefix ops w' rs ds ib ips iridx L Hm Hlen (items_of ds)
               (same_lens_refl _) (crc32c_ref idx) idx eq_refl Hc verify).
    rewrite N.eqb_refl. cbn [negb]. rewrite Bool.andb_false_r. reflexivity. }
  assert (Hload : forall j, (j < length ds)%nat -> get_block decompress r (d_off (nth j ds dummy_d)) = Ok (d_ab (nth j ds dummy_d))).
  { intros j Hj.
    apply (vfile_load compress_default compress_level decompress Hrt_default Hrt_level o prefix ops w' rs ds ib ips iridx L
             (items_of ds) (same_lens_refl _) intact_fld (crc32c_ref idx) idx r j); try reflexivity; try exact Hj.
    - unfold r. cbn [r_file]. apply intact_vfile.
    - rewrite items_of_nth. reflexivity.
    - intros _. rewrite items_of_nth. reflexivity. }
  split; [exact Hopen|]. split; [exact Hload|].
  destruct ds as [|d0 ds0] eqn:Eds.
  - left. split; [reflexivity|]. rewrite <- Eds in L. apply (layout_empty compress_default compress_level o prefix ops w' rs ds ib ips iridx L Eds).
  - right. rewrite <- Eds in *.
    apply (layout_table compress_default compress_level decompress o prefix ops w' rs ds ib ips iridx L Hlen idx32 r);
      [reflexivity|exact Hload|rewrite Eds; discriminate].
Qed.
End WithLayout.

(* ---- T12b: one damaged frame ------------------------------------------------------------------------ *)
Section Damage.
Variables (o : wopts) (prefix : bytes) (ops : list entry) (w' : writer) (rs : list bool)
          (ds : list dblk) (ib : bb) (ips : list pentry) (iridx : list nat).
Hypothesis L : layout compress_default compress_level o prefix ops w' rs ds ib ips iridx.
Hypothesis Hm : meta_small (w_m w').
Hypothesis Hlen : len (prefix ++ writer_bytes w') < 2 ^ 64.
Local Notation idx := (bb_finish ib).
Local Notation m := (w_m w').

(* what precedes and follows the frame of data block i *)
Definition pre_of (i : nat) : bytes := prefix ++ frames (firstn i (items_of ds)).
Definition post_of (i : nat) : bytes := frames (skipn (S i) (items_of ds)) ++ fr (crc32c_ref idx) idx ++ metadata_write m.
Definition stored_of (i : nat) : bytes := d_stored (nth i ds dummy_d).
(* what precedes the index frame *)
Definition pre_index : bytes := prefix ++ frames (items_of ds).

Lemma pre_of_len i : (i < length ds)%nat -> len (pre_of i) = d_off (nth i ds dummy_d).
Proof using L.
  intros Hi. symmetry. apply (block_offset compress_default compress_level o prefix ops w' rs ds ib ips iridx L (items_of ds) (same_lens_refl _) i Hi).
Qed.

Lemma intact_split i : (i < length ds)%nat ->
  prefix ++ writer_bytes w' = pre_of i ++ fr (crc32c_ref (stored_of i)) (stored_of i) ++ post_of i.
Proof using L.
  intros Hi. rewrite (ly_file _ _ _ _ _ _ _ _ _ _ _ L). unfold pre_of, post_of, stored_of.
  rewrite (frames_split_items (items_of ds) i) at 1 by (unfold items_of; rewrite map_length; exact Hi).
  rewrite items_of_nth. cbn [item_of fst snd]. rewrite <- !app_assoc. reflexivity.
Qed.

Lemma damaged_vfile i c s' :
  pre_of i ++ fr c s' ++ post_of i = vfile prefix w' (upd i (c, s') (items_of ds)) (crc32c_ref idx) idx.
Proof using Type.
  unfold pre_of, post_of, vfile, upd. rewrite frames_app, frames_cons, <- !app_assoc. reflexivity.
Qed.

Lemma intact_index_split : prefix ++ writer_bytes w' = pre_index ++ fr (crc32c_ref idx) idx ++ metadata_write m.
Proof using L. rewrite (ly_file _ _ _ _ _ _ _ _ _ _ _ L). unfold pre_index. rewrite <- !app_assoc. reflexivity. Qed.

Lemma pre_index_len : len pre_index = m_index_block_offset m.
Proof using L. unfold pre_index. rewrite len_app. symmetry. apply L. Qed.

(* data block i damaged: stored bytes s' of the same length, field c, c is not the CRC of s' *)
Theorem damaged_data i c s' : (i < length ds)%nat -> len s' = len (stored_of i) -> c < 2 ^ 32 -> c <> crc32c_ref s' ->
  let f' := pre_of i ++ fr c s' ++ post_of i in
  len f' = len (prefix ++ writer_bytes w') /\
  verify_file f' = VFailed /\
  let r' := mkreader f' FORMAT_V2 (wo_comp o) true (block_init idx) m in
  fst (reader_open f' true) = Ok (Some r') /\
  get_block decompress r' (d_off (nth i ds dummy_d)) = Abort /\
  (forall j, (j < length ds)%nat -> j <> i -> get_block decompress r' (d_off (nth j ds dummy_d)) = Ok (d_ab (nth j ds dummy_d))).
Proof using Hrt_default Hrt_level L Hm Hlen.
  intros Hi Hs Hc Hne f'.
  assert (Hil : (i < length (items_of ds))%nat) by (unfold items_of; rewrite map_length; exact Hi).
  assert (Hsame : same_lens (items_of ds) (upd i (c, s') (items_of ds))).
  { apply same_lens_upd; [exact Hil|]. rewrite items_of_nth. cbn [item_of snd]. exact Hs. }
  assert (Hfld : Forall (fun it => fst it < 2 ^ 32) (upd i (c, s') (items_of ds))).
  { unfold upd. pose proof (intact_fld o prefix ops w' rs ds ib ips iridx L) as H. apply Forall_app. split; [apply Forall_firstn', H|].
    constructor; [exact Hc|]. rewrite <- (firstn_skipn (S i)) in H. apply Forall_app in H. tauto. }
  pose proof (crc32c_ref_lt idx (ly_idx_wf _ _ _ _ _ _ _ _ _ _ _ L)) as Hci.
  unfold f'. rewrite damaged_vfile.
  split; [apply (vfile_len compress_default compress_level o prefix ops w' rs ds ib ips iridx L _ Hsame _ idx eq_refl)|].
  split.
  { rewrite (vfile_verify compress_default compress_level o prefix ops w' rs ds ib ips iridx L Hm Hlen _ Hsame Hfld _ idx eq_refl Hci).
    rewrite N.eqb_refl. cbn [negb]. unfold upd. rewrite all_match_app. cbn [all_match].
    replace (c =? crc32c_ref s') with false by lia. cbn [andb]. rewrite Bool.andb_false_r. reflexivity. }
  cbv zeta. split.
  { rewrite (vfile_open compress_default compress_level o prefix ops w' rs ds ib ips iridx L Hm Hlen _ Hsame _ idx eq_refl Hci true).
    rewrite N.eqb_refl. reflexivity. }
  split.
  - apply (vfile_stop compress_default compress_level decompress o prefix ops w' rs ds ib ips iridx L _ Hsame Hfld (crc32c_ref idx) idx);
      try reflexivity; try exact Hi.
    rewrite (upd_nth_same i _ dummy_it _ Hil). cbn [fst snd]. exact Hne.
  - intros j Hj Hji.
    apply (vfile_load compress_default compress_level decompress Hrt_default Hrt_level o prefix ops w' rs ds ib ips iridx L _ Hsame Hfld (crc32c_ref idx) idx);
      try reflexivity; try exact Hj.
    + rewrite (upd_nth_other _ dummy_it _ i j Hil Hji), items_of_nth. reflexivity.
    + intros _. rewrite (upd_nth_other _ dummy_it _ i j Hil Hji), items_of_nth. reflexivity.
Qed.

(* the index block damaged *)
Theorem damaged_index c idx' : len idx' = len idx -> c < 2 ^ 32 -> c <> crc32c_ref idx' ->
  let f' := pre_index ++ fr c idx' ++ metadata_write m in
  len f' = len (prefix ++ writer_bytes w') /\
  fst (reader_open f' true) = Abort /\
  verify_file f' = VAbort.
Proof using L Hm Hlen.
  intros Hl Hc Hne f'.
  assert (E : f' = vfile prefix w' (items_of ds) c idx') by (unfold f', pre_index, vfile; rewrite <- !app_assoc; reflexivity).
  rewrite E. split; [apply (vfile_len compress_default compress_level o prefix ops w' rs ds ib ips iridx L _ (same_lens_refl _) _ idx' Hl)|].
  split.
  - rewrite (vfile_open compress_default compress_level o prefix ops w' rs ds ib ips iridx L Hm Hlen _ (same_lens_refl _) _ idx' Hl Hc true).
    replace (c =? crc32c_ref idx') with false by (clear - Hne; lia). reflexivity.
  - rewrite (vfile_verify compress_default compress_level o prefix ops w' rs ds ib ips iridx L Hm Hlen _ (same_lens_refl _)
               (intact_fld o prefix ops w' rs ds ib ips iridx L) _ idx' Hl Hc).
    replace (c =? crc32c_ref idx') with false by (clear - Hne; lia). reflexivity.
Qed.
End Damage.

Section Final.
Hypothesis compress_default_wf : forall a raw c, compress_default a raw = Ok c -> wf_bytes c.
Hypothesis compress_level_wf : forall a l raw c, compress_level a l raw = Ok c -> wf_bytes c.

(* ---- T12a (reader): the round trip of C01 with any verify_checksums setting -------------------------- *)
Theorem written_read_back verify o prefix ops w' rs :
  1 <= wo_interval o ->
  writer_session compress_default compress_level o (len prefix) ops = Ok (w', rs) ->
  fits_v o prefix ops w' ->
  forall fuel, (length (kept ops rs) < fuel)%nat ->
  read_all_v decompress verify fuel (prefix ++ writer_bytes w') = Ok (kept ops rs).
Proof using Hrt_default Hrt_level compress_default_wf compress_level_wf.
  intros Hint Hsess (Hops & Hm & Hidxsz & Hlen) fuel Hfuel.
  destruct (written_layout compress_default compress_level compress_default_wf compress_level_wf o prefix ops w' rs Hint Hops Hsess Hlen)
    as (ds & ib & ips & iridx & L).
  destruct (intact_reader o prefix ops w' rs ds ib ips iridx L Hm Hidxsz Hlen verify) as (Hopen & _ & [(Eds & Hk & Hbi)|(Htab & Hent)]).
  - unfold read_all_v. rewrite Hopen.
    rewrite (empty_table_iter decompress _ (mkab [] [0] 8 false) 0) by (try reflexivity; exact Hbi). rewrite Hk. reflexivity.
  - unfold read_all_v. rewrite Hopen.
    destruct (table_iter_all decompress _ _ _ _ _ _ Htab fuel) as (it & -> & Hdrain).
    + assert (E : length (table_entries_of (length ds) (Bof ds)) = total (length ds) (Bof ds)) by (unfold table_entries_of, Gents, total; apply map_length).
      rewrite Hent in E. lia.
    + rewrite Hdrain, Hent. reflexivity.
Qed.

(* the analogue of written_table_ok: lookups (T02) and every next/seek history (T03c) on a written
   table opened with verify_checksums are those of the sorted list of the accepted entries *)
Theorem written_table_ok_v verify o prefix ops w' rs :
  1 <= wo_interval o ->
  writer_session compress_default compress_level o (len prefix) ops = Ok (w', rs) ->
  fits_v o prefix ops w' ->
  exists r, fst (reader_open (prefix ++ writer_bytes w') verify) = Ok (Some r) /\ r_verify r = verify /\
    ((kept ops rs = [] /\ exists ib r0, r_index r = Some ib /\ ab_entries ib = [] /\ ab_restarts ib = [r0]) \/
     (exists ib iridx ds, table_ok decompress r ib iridx (length ds) (Bof ds) (Rof ds) /\
                          table_entries_of (length ds) (Bof ds) = kept ops rs)).
Proof using Hrt_default Hrt_level compress_default_wf compress_level_wf.
  intros Hint Hsess (Hops & Hm & Hidxsz & Hlen).
  destruct (written_layout compress_default compress_level compress_default_wf compress_level_wf o prefix ops w' rs Hint Hops Hsess Hlen)
    as (ds & ib & ips & iridx & L).
  destruct (intact_reader o prefix ops w' rs ds ib ips iridx L Hm Hidxsz Hlen verify) as (Hopen & _ & [(Eds & Hk & Hbi)|(Htab & Hent)]).
  - eexists. split; [exact Hopen|]. split; [reflexivity|]. left. split; [exact Hk|].
    exists (mkab [] [0] 8 false), 0. cbn [r_index]. split; [exact Hbi|split; reflexivity].
  - eexists. split; [exact Hopen|]. split; [reflexivity|]. right. exists (iab_of ib ips iridx), iridx, ds. split; assumption.
Qed.

End Final.
End Main.

Print Assumptions written_verify_ok.
Print Assumptions written_read_back.
Print Assumptions written_table_ok_v.
Print Assumptions damaged_data.
Print Assumptions damaged_index.
