(* C19: every read made by the model of mtbl_reader_init_fd stays inside the file *)
From Coq Require Import NArith ZArith List Lia ZifyBool ZifyN ZifyNat.
From Mtbl Require Import gen.Consts model.Bytes model.Codec model.Order model.Crc model.Writer
  spec.Leb128 spec.Parse model.Reader proofs.BytesLemmas proofs.CodecProofs.
Local Open Scope N_scope.
Ltac Zify.zify_post_hook ::= Z.div_mod_to_equations.

Lemma len_drop' k (l : bytes) : len (drop k l) = len l - k.
Proof. unfold drop, len. rewrite skipn_length. lia. Qed.
Lemma wf_drop k (l : bytes) : wf_bytes l -> wf_bytes (drop k l).
Proof.
  unfold wf_bytes, drop. intros H. rewrite <- (firstn_skipn (N.to_nat k) l) in H.
  apply Forall_app in H. tauto.
Qed.

Lemma le_decode_S n b l : le_decode (S n) (b :: l) =
  match le_decode n l with Some r => Some (b + 256 * r) | None => None end.
Proof. reflexivity. Qed.
(* little-endian decode of well-formed bytes is bounded *)
Lemma le_decode_bound : forall n l v, wf_bytes l -> le_decode n l = Some v -> v < 256 ^ N.of_nat n.
Proof.
  induction n as [|n IH]; intros l v Hwf H.
  - cbn [le_decode] in H. inversion H; subst. change (256 ^ N.of_nat 0) with 1. lia.
  - destruct l as [|b l]; [discriminate|]. inversion Hwf as [|? ? Hb Hl]; subst. unfold wf_byte in Hb.
    rewrite le_decode_S in H.
    destruct (le_decode n l) as [r|] eqn:E; [|discriminate]. assert (Hv : v = b + 256 * r) by congruence. subst v. clear H.
    specialize (IH l r Hl E). rewrite Nat2N.inj_succ, N.pow_succ_r'.
    set (p := 256 ^ N.of_nat n) in *. lia.
Qed.
Lemma le_decode_some : forall n l, (n <= length l)%nat -> exists v, le_decode n l = Some v.
Proof.
  induction n as [|n IH]; intros l H; cbn [le_decode]; [eexists; reflexivity|].
  destruct l as [|b l]; [cbn in H; lia|]. destruct (IH l) as [v ->]; [cbn in H; lia|]. eexists; reflexivity.
Qed.
Lemma le_decode_none : forall n l, le_decode n l = None -> (length l < n)%nat.
Proof.
  intros n l H. destruct (Nat.lt_ge_cases (length l) n) as [Hlt|Hge]; [exact Hlt|].
  destruct (le_decode_some n l Hge) as [v E]. congruence.
Qed.

(* the varint decoder does not run off a buffer that still holds 10 bytes *)
Lemma varint_decode_loop_no_oob : forall fuel ms shift val n l,
  (fuel <= length l)%nat -> varint_decode_loop fuel ms shift val n l <> Oob.
Proof.
  induction fuel as [|fuel IH]; intros ms shift val n l H; cbn [varint_decode_loop]; [discriminate|].
  destruct (shift <? ms); [|discriminate]. destruct l as [|b l]; [cbn in H; lia|].
  destruct (N.land b VARINT_DEC_CONT =? 0); [discriminate|]. apply IH. cbn in H. lia.
Qed.
(* with max_shift 64 the loop body runs at most 10 times *)
Lemma varint_decode64_no_oob l : (10 <= length l)%nat -> varint_decode64 l <> Oob.
Proof.
  intros H. unfold varint_decode64, VARINT_DEC64_MAX_SHIFT, VARINT_DEC_STEP.
  do 10 (destruct l as [|? l]; [cbn in H; lia|]).
  cbn [varint_decode_loop]. unfold VARINT_DEC_CONT, VARINT_DEC_STEP.
  repeat (match goal with |- context [if ?c then _ else _] => destruct c end; try discriminate).
Qed.
Lemma varint_decode_loop_len : forall fuel ms shift val k l v n,
  varint_decode_loop fuel ms shift val k l = Ok (v, n) ->
  n = 0 \/ (k < n /\ shift + 7 * (n - k - 1) < ms).
Proof.
  induction fuel as [|fuel IH]; intros ms shift val k l v n H; cbn [varint_decode_loop] in H; [discriminate|].
  destruct (shift <? ms) eqn:E; [|inversion H; subst; left; reflexivity].
  destruct l as [|b l]; [discriminate|].
  destruct (N.land b VARINT_DEC_CONT =? 0).
  - inversion H; subst. right. lia.
  - apply IH in H. unfold VARINT_DEC_STEP in H. destruct H as [->|[H1 H2]]; [left; reflexivity|right; lia].
Qed.
Lemma varint_decode64_len l v n : varint_decode64 l = Ok (v, n) -> n <= 10.
Proof.
  unfold varint_decode64, VARINT_DEC64_MAX_SHIFT. intros H. apply varint_decode_loop_len in H. lia.
Qed.

Lemma slice_some (l : bytes) off n : off + n <= len l -> exists s, slice l off n = Some s.
Proof. intros H. unfold slice. replace (off + n <=? len l) with true by lia. eexists; reflexivity. Qed.
Lemma slice_none (l : bytes) off n : slice l off n = None -> len l < off + n.
Proof. unfold slice. destruct (off + n <=? len l) eqn:E; [discriminate|]. intros _. lia. Qed.

Definition in_bounds (f : bytes) (tr : list (N * N)) : Prop :=
  Forall (fun e => fst e + snd e <= len f) tr.

Lemma meta_set_offset m i v :
  m_index_block_offset (meta_set m i v) = if i =? 0 then v else m_index_block_offset m.
Proof.
  destruct i as [|p]; [reflexivity|].
  do 4 (destruct p as [p|p|]; try reflexivity).
Qed.
Lemma mrf_keeps : forall order buf m m', ~ In 0 order ->
  meta_read_fields order buf m = Some m' -> m_index_block_offset m' = m_index_block_offset m.
Proof.
  induction order as [|i order IH]; intros buf m m' Hn H; cbn [meta_read_fields] in H.
  - congruence.
  - destruct (fixed_decode64 buf) as [v|]; [|discriminate].
    apply IH in H; [|intros Hin; apply Hn; right; exact Hin].
    rewrite H, meta_set_offset. destruct (N.eqb_spec i 0) as [->|]; [|reflexivity].
    exfalso. apply Hn. left. reflexivity.
Qed.

Lemma mrf_cons i tl buf m : meta_read_fields (i :: tl) buf m =
  match fixed_decode64 buf with
  | Some v => meta_read_fields tl (drop 8 buf) (meta_set m i v)
  | None => None
  end.
Proof. reflexivity. Qed.

Lemma metadata_read_offset_bound buf ver m : wf_bytes buf ->
  metadata_read buf = Some (ver, m) -> m_index_block_offset m < 2 ^ 64.
Proof.
  intros Hwf H. unfold metadata_read in H.
  destruct (fixed_decode32 _); [|discriminate].
  match type of H with match ?v with _ => _ end = _ => destruct v; [|discriminate] end.
  destruct (meta_read_fields META_READ_ORDER buf meta_zero) as [m1|] eqn:E; [|discriminate].
  assert (m1 = m) by congruence. subst m1. clear H.
  unfold META_READ_ORDER in E. rewrite mrf_cons in E.
  destruct (fixed_decode64 buf) as [v0|] eqn:E0; [|discriminate].
  apply le_decode_bound in E0; [|exact Hwf].
  apply mrf_keeps in E.
  - rewrite E, meta_set_offset. exact E0.
  - cbn. intuition discriminate.
Qed.

(* T19a *)
Theorem reader_open_in_bounds f verify : wf_bytes f ->
  fst (reader_open f verify) <> Oob /\ in_bounds f (snd (reader_open f verify)).
Proof.
  intros Hwf. unfold reader_open, in_bounds, MTBL_METADATA_SIZE, READER_MIN_BLOCK_V1, READER_MIN_BLOCK_V2.
  set (n := len f).
  destruct (n <? 512) eqn:En; [cbn; split; [discriminate|constructor]|].
  assert (H1 : Forall (fun e : N * N => fst e + snd e <= n) [(n - 512, 512)]) by (repeat constructor; cbn; lia).
  destruct (metadata_read (drop (n - 512) f)) as [[ver m]|] eqn:Em; [|cbn; split; [discriminate|exact H1]].
  pose proof (metadata_read_offset_bound _ _ _ (wf_drop _ _ Hwf) Em) as Hibo.
  set (ibo := m_index_block_offset m) in *.
  set (minlen := if ver =? FORMAT_V1 then 16 else 13).
  assert (Hmin : 13 <= minlen <= 16) by (subst minlen; destruct (ver =? FORMAT_V1); lia).
  change (2 ^ 64) with 18446744073709551616 in Hibo.
  destruct ((n <? u64 (ibo + 512 + minlen)) || (u64 (ibo + 512 + minlen) <? ibo)) eqn:Ee;
    [cbn; split; [discriminate|exact H1]|].
  assert (Hfit : ibo + 512 + minlen <= n).
  { unfold u64 in Ee. apply Bool.orb_false_elim in Ee. destruct Ee as [E1 E2].
    destruct (N.lt_ge_cases (ibo + 512 + minlen) 18446744073709551616) as [Hs|Hb].
    - rewrite N.mod_small in E1 by exact Hs. lia.
    - exfalso. lia. }
  assert (Hdroplen : len (drop ibo f) = n - ibo) by (apply len_drop').
  (* the length prefix *)
  destruct (ver =? FORMAT_V1) eqn:Ev.
  - (* V1: fixed32 *)
    destruct (fixed_decode32 (drop ibo f)) as [ilen|] eqn:Ed.
    2:{ exfalso. apply le_decode_none in Ed. unfold len in Hdroplen. subst minlen. lia. }
    cbv beta iota.
    assert (H2 : Forall (fun e : N * N => fst e + snd e <= n) [(ibo, 4)]) by (repeat constructor; cbn; subst minlen; lia).
    destruct ((n - 512 - ibo <? 4 + 4) || (n - 512 - ibo - (4 + 4) <? ilen)) eqn:Ea;
      [cbn [fst snd]; split; [discriminate|apply Forall_app; split; assumption]|].
    apply Bool.orb_false_elim in Ea. destruct Ea as [Ea1 Ea2].
    destruct (slice_some f (ibo + 4 + 4) ilen ltac:(fold n; lia)) as [idata ->].
    assert (H3 : Forall (fun e : N * N => fst e + snd e <= n)
                   (if verify then [(ibo + 4, 4); (ibo + 4 + 4, ilen)] else [])).
    { destruct verify; repeat constructor; cbn; lia. }
    match goal with |- context [if negb ?c then _ else _] => destruct c end; cbn [negb];
      [|cbn [fst snd]; split; [discriminate|repeat (apply Forall_app; split); assumption]].
    assert (H4 : Forall (fun e : N * N => fst e + snd e <= n) (if 8 <=? ilen then [(ibo + 4 + 4 + ilen - 4, 4)] else [])).
    { destruct (8 <=? ilen) eqn:E8; repeat constructor; cbn; lia. }
    destruct ((4 <=? ilen) && (ilen <? 8)); cbn [fst snd];
      (split; [discriminate|repeat (apply Forall_app; split); assumption]).
  - (* V2: varint64 *)
    assert (Hten : (10 <= length (drop ibo f))%nat) by (unfold len in Hdroplen; subst minlen; lia).
    destruct (varint_decode64 (drop ibo f)) as [[ilen ill]| | |] eqn:Ed.
    + pose proof (varint_decode64_len _ _ _ Ed) as Hill.
      cbv beta iota.
      assert (H2 : Forall (fun e : N * N => fst e + snd e <= n) [(ibo, if ill =? 0 then 10 else ill)]).
      { repeat constructor; cbn. destruct (ill =? 0); subst minlen; lia. }
      destruct ((n - 512 - ibo <? ill + 4) || (n - 512 - ibo - (ill + 4) <? ilen)) eqn:Ea;
        [cbn [fst snd]; split; [discriminate|apply Forall_app; split; assumption]|].
      apply Bool.orb_false_elim in Ea. destruct Ea as [Ea1 Ea2].
      destruct (slice_some f (ibo + ill + 4) ilen ltac:(fold n; lia)) as [idata ->].
      assert (H3 : Forall (fun e : N * N => fst e + snd e <= n)
                     (if verify then [(ibo + ill, 4); (ibo + ill + 4, ilen)] else [])).
      { destruct verify; repeat constructor; cbn; lia. }
      match goal with |- context [if negb ?c then _ else _] => destruct c end; cbn [negb];
        [|cbn [fst snd]; split; [discriminate|repeat (apply Forall_app; split); assumption]].
      assert (H4 : Forall (fun e : N * N => fst e + snd e <= n) (if 8 <=? ilen then [(ibo + ill + 4 + ilen - 4, 4)] else [])).
      { destruct (8 <=? ilen) eqn:E8; repeat constructor; cbn; lia. }
      destruct ((4 <=? ilen) && (ilen <? 8)); cbn [fst snd];
        (split; [discriminate|repeat (apply Forall_app; split); assumption]).
    + cbn [fst snd]. split; [discriminate|]. apply Forall_app; split; [exact H1|]. repeat constructor; cbn; subst minlen; lia.
    + cbn [fst snd]. split; [discriminate|]. apply Forall_app; split; [exact H1|]. repeat constructor; cbn; subst minlen; lia.
    + exfalso. exact (varint_decode64_no_oob _ Hten Ed).
Qed.
