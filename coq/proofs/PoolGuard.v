(* The hand-written guard table of threadpool.c and the lockset statement about it (shared by props/Properties_C14.v
   and the race-freedom proofs). *)
From Coq Require Import NArith List Lia.
From Mtbl Require Import model.Bytes model.Pool proofs.PoolSched.
Local Open Scope N_scope.

(* the mutex that guards the shared fields touched by the code at a label *)
Definition guard_of (l : label) : option obj :=
  match l with
  | D1 _ | P1 | H7 _ _ => Some OPoolM          (* pool->head, pool->count *)
  | D5 _ i | P3 i | W1 i | W4o i | H4 _ i => Some (OWm i)   (* thr->rq, cb, arg, running, res *)
  | D7 q _ | F1 q | W4u _ q | H1 q => Some (OQm q)   (* rq->finished, nthreads, head, ptail *)
  | _ => None
  end.

Lemma owner_set_same st m t : owner_of (set_owner st m (Some t)) m = Some t.
Proof.
  unfold owner_of, set_owner. cbn [ps_owner find fst].
  assert (E : obj_eqb m m = true) by (destruct m; cbn; try reflexivity; apply PeanoNat.Nat.eqb_refl).
  rewrite E. reflexivity.
Qed.


(* the full lockset statement on the LTS: whenever a step runs the code at a label whose shared
   fields are guarded by g, the stepping thread owns g while that code runs *)
Definition T14_statement : Prop :=
  forall maxt prog s st stash t wake st' op o stash',
    prun (pool_init maxt prog) [] s = Some (st, stash) ->
    pstep st t wake stash = Some (st', op, o, stash') ->
    forall g, guard_of (t_lab (gett st t)) = Some g ->
      op = KWait \/
      owner_of (match op with KLock | KReacq => set_owner st o (Some t) | _ => st end) g = Some t.
