(* Tier 5, assembly: Inv5 is preserved by every step of a fair schedule; deadlock freedom. *)
From Coq Require Import NArith List Lia ZifyBool ZifyN ZifyNat Bool Arith.
From Mtbl Require Import model.Bytes model.Pool proofs.PoolProofs proofs.PoolBase proofs.PoolSched proofs.PoolInv proofs.PoolLife proofs.PoolStep2 proofs.PoolAbort proofs.PoolDelivery proofs.PoolExact proofs.PoolLive proofs.PoolLive1 proofs.PoolLive2 proofs.PoolLive3.
Import ListNotations.

(* ---------- the dispatched-but-not-yet-signalled worker keeps its queue pointer ---------- *)
Definition invD (st : pstate) : Prop :=
  forall q i, t_lab (gett st 0) = D5s q i -> q_ordered (getq st q) = false -> wk_rq (getw st i) = Some q.

Lemma continue_to_d5s s t l q i : t_lab (snd (continue s t l)) = D5s q i -> l = D5 q i.
Proof.
  destruct l; cbn [continue]; try (unfold caller_next; destruct (ps_prog s) as [|[]]; cbn; discriminate);
    repeat break_match_goal; cbn [snd t_lab pend]; try discriminate.
  all: intros H; inversion H; reflexivity.
Qed.

Lemma continue_rq_noncaller s t l : caller_lab l = false ->
  forall k, wk_rq (getw (fst (continue s t l)) k) = wk_rq (getw s k) \/ l = W3 k.
Proof.
  intros NC k.
  assert (Wupd : forall i0 w', wk_rq w' = wk_rq (getw s i0) -> wk_rq (nth k (upd_nth (ps_workers s) i0 w') dummy_w) = wk_rq (getw s k)).
  { intros i0 w' H. rewrite nth_upd_nth. unfold getw in *. destruct (Nat.eqb_spec k i0) as [->|]; cbn [andb]; [|reflexivity].
    destruct (Nat.ltb i0 (length (ps_workers s))); [assumption|reflexivity]. }
  destruct l; cbn [caller_lab] in NC; try discriminate; cbn [continue]; try (left; reflexivity).
  all: repeat break_match_goal; cbn [fst]; try (left; reflexivity);
       unfold getw at 1; cbn [ps_workers set_workers];
       try (left; apply Wupd; reflexivity).
  all: destruct (Nat.eq_dec k i) as [->|Hne]; [right; reflexivity|left; rewrite nth_upd_nth_other by exact Hne; reflexivity].
Qed.

Lemma cinvD s t l : Inv2 s -> invD s -> (t < length (ps_threads s))%nat -> t_lab (gett s t) = l ->
  (forall i q, l = W3 i -> t_lab (gett s 0) <> D5s q i) ->
  invD (after s t l).
Proof.
  intros I2 D Ht Hl Hx q i H0 Ho.
  destruct (after_gett s t l 0%nat Ht) as [[E0 E]|[[Hne E]|(Hne & Ege & _)]]; [| |lia].
  - (* the caller steps *)
    subst t. rewrite E in H0. pose proof (continue_to_d5s s 0 l q i H0) as El. rewrite El in *. clear El.
    assert (Hone : ttok (ord_of s) (t_lab (gett s 0)) i = 1%nat) by (rewrite Hl; cbn; rewrite Nat.eqb_refl; reflexivity).
    destruct (sole_thread s 0 i I2 Hone) as (Hi & _).
    revert Ho. unfold after. cbn [continue fst snd]. unfold getq, getw. cbn [ps_queues ps_workers set_thread set_workers].
    rewrite nth_upd_nth_same by exact Hi. cbn [wk_rq]. fold (getq s q). intros ->. reflexivity.
  - rewrite E in H0.
    assert (NC : caller_lab l = false).
    { destruct (caller_lab l) eqn:Ec; [|reflexivity]. exfalso. apply Hne. symmetry. apply (tk_caller _ _ _ (i2_threads _ I2 t)). rewrite Hl. exact Ec. }
    destruct (continue_noncaller s t l NC) as (_ & _ & Q & _). cbn zeta in Q.
    destruct (tk_dispatch _ _ _ (i2_threads _ I2 0%nat) q) as [Dq _]; [rewrite H0; reflexivity|].
    assert (Eo : q_ordered (getq (after s t l) q) = q_ordered (getq s q)).
    { destruct (acctfree s l) eqn:AF.
      - destruct (continue_acct s t l AF) as (Qa & _). cbn zeta in Qa. destruct (Qa q) as [Eq _]. unfold qacct in Eq. inversion Eq. reflexivity.
      - clear - NC AF. destruct l; cbn in NC; try discriminate; cbn [acctfree] in AF; try discriminate; unfold after; cbn [continue];
          repeat break_match_goal; try reflexivity; cbn [fst snd]; unfold getq; cbn [ps_queues set_thread set_queues];
          rewrite nth_upd_nth; match goal with |- context [Nat.eqb ?a ?b && _] => destruct (Nat.eqb_spec a b) as [->|]; cbn [andb]; try reflexivity;
            destruct (Nat.ltb _ _); reflexivity end. }
    rewrite Eo in Ho.
    destruct (continue_rq_noncaller s t l NC i) as [Er|Er].
    + change (getw (after s t l) i) with (getw (fst (continue s t l)) i). rewrite Er. apply (D q i H0 Ho).
    + exfalso. exact (Hx i q Er H0).
Qed.

(* the code of a label, all groups together *)
Lemma tail_inv5 s t stash l :
  Inv2 s -> Inv3 s stash -> Inv5 s -> (t < length (ps_threads s))%nat -> t_lab (gett s t) = l ->
  t_done (gett s t) = false -> l <> LDone ->
  (varfree s l = false -> t_op (gett s t) <> KSignal) -> (ps_max s < two64)%N ->
  (t_op (gett s t) = KSignal -> forall x, x <> t -> waiting (gett s x) -> serves (t_lab (gett s t)) (t_lab (gett s x)) = false) ->
  (t = 0%nat -> t_lab (gett s 0) = F3 -> forall x, t_obj (gett s 0) = OThread x -> t_done (gett s x) = true) ->
  (forall i q, l = W3 i -> t_lab (gett s 0) <> D5s q i) ->
  Inv5 (after s t l).
Proof.
  intros I2 K I5 Ht Hl Hd Hld Al Hmax X1 Hjoin Hx.
  destruct (cwake s t stash l I2 K (l_cond _ I5) (l_wake _ I5) Ht Hl Hd Al X1) as [C1 C2].
  apply mk_inv5; [exact C1|exact C2|apply (cacct s t stash l I2 K I5 Ht Hl Hd Hld Hmax)|
                  apply (cinvA s t l I2 (inv5_invA _ I5) Ht Hl Hd Hld Hjoin)|
                  apply (cinvD s t l I2 (l_d5s _ I5) Ht Hl Hx)].
Qed.

(* ---------- steps that do not run the code of a label ---------- *)
Lemma allowed_wait_cond l o : allowed l KWait o = true -> o = lab_cond l /\ lab_worker l = lab_worker l.
Proof.
  destruct l; cbn [allowed lab_cond]; unfold lwr, is_op; cbn [opk_eqb andb orb]; try discriminate; intros H; rewrite ?orb_false_r in H;
    (split; [|reflexivity]); match type of H with obj_eqb ?a ?b = true => destruct (obj_eqb_spec a b); [assumption|discriminate] end.
Qed.

(* cond_wait: the thread blocks *)
Lemma inv5_kwait st t : Inv1 st -> Inv5 st -> (t < length (ps_threads st))%nat ->
  t_op (gett st t) = KWait -> t_blocked (gett st t) = None -> t_done (gett st t) = false ->
  let m := wait_mutex (t_lab (gett st t)) in
  Inv5 (set_thread (set_owner st m None) t (mkt KReacq m (t_lab (gett st t)) (Some (t_obj (gett st t))) m false)).
Proof.
  intros I1 I5 Ht Eop Eb Ed m.
  set (th' := mkt KReacq m (t_lab (gett st t)) (Some (t_obj (gett st t))) m false).
  set (st' := set_thread (set_owner st m None) t th').
  pose proof (shape_allowed _ (i1_shape _ I1 t)) as Al. rewrite Eop in Al.
  destruct (allowed_wait_cond _ _ Al) as [Ec _].
  assert (G : forall x, gett st' x = if Nat.eqb x t then th' else gett st x).
  { intros x. unfold st'. rewrite gett_set_thread. cbn [ps_threads set_owner]. destruct (Nat.eqb_spec x t); cbn [andb]; [|reflexivity].
    destruct (Nat.ltb_spec t (length (ps_threads st))); [reflexivity|lia]. }
  assert (L : forall x, t_lab (gett st' x) = t_lab (gett st x)) by (intros x; rewrite G; destruct (Nat.eqb_spec x t) as [->|]; reflexivity).
  assert (D : forall x, t_done (gett st' x) = t_done (gett st x)) by (intros x; rewrite G; destruct (Nat.eqb_spec x t) as [->|]; [cbn; auto|reflexivity]).
  assert (Wl : t_lab (gett st t) <> F3 /\ t_lab (gett st t) <> P5).
  { destruct (t_lab (gett st t)); cbn [allowed] in Al; unfold lwr, is_op in Al; cbn in Al; try discriminate; split; discriminate. }
  assert (O0 : t_lab (gett st 0) = F3 \/ t_lab (gett st 0) = P5 -> t_obj (gett st' 0) = t_obj (gett st 0)).
  { intros H. rewrite G. destruct (Nat.eqb_spec 0 t) as [<-|]; [|reflexivity]. destruct Wl as [W1 W2]. destruct H; congruence. }
  assert (Sg : forall l, sig_pending st l -> sig_pending st' l).
  { intros l (y & Dy & Oy & By). exists y. rewrite L, D. split; [exact Dy|]. split; [|exact By].
    rewrite G. destruct (Nat.eqb_spec y t) as [->|]; [congruence|exact Oy]. }
  assert (Wt : forall x, waiting (gett st' x) -> waiting (gett st x)).
  { intros x. rewrite G. destruct (Nat.eqb_spec x t) as [->|]; [intros _; right; exact Eop|auto]. }
  assert (Pn : forall q, pendn st' q = pendn st q) by (intros; unfold pendn; rewrite L; reflexivity).
  assert (Sn : forall q, selfn st' q = selfn st q).
  { intros q. unfold selfn. f_equal. apply (sumf_pointwise _ _ _ _ dummy_t dummy_t); try reflexivity.
    intros x. fold (gett st' x). fold (gett st x). rewrite L. reflexivity. }
  assert (Nt : length (ps_threads st') = length (ps_threads st)) by (unfold st'; cbn [ps_threads set_thread set_owner]; apply upd_nth_length).
  constructor.
  - intros x c H. rewrite L. rewrite G in H. destruct (Nat.eqb_spec x t) as [->|]; [|apply (l_cond _ I5); exact H].
    cbn [th' t_blocked] in H. inversion H. subst. exact Ec.
  - intros x W. rewrite L. pose proof (l_wake _ I5 x (Wt x W)) as P.
    destruct (t_lab (gett st x)); cbn [wpred] in *; try exact Logic.I; (destruct P as [P|P]; [left; exact P|right; apply Sg; exact P]).
  - intros q. change (ps_queues st') with (ps_queues st). change (getq st' q) with (getq st q). rewrite Pn, Sn. apply (l_nthreads _ I5).
  - change (ps_count st') with (ps_count st). change (ps_max st') with (ps_max st). change (nondying st') with (nondying st). rewrite L. apply (l_count _ I5).
  - intros q. change (ps_queues st') with (ps_queues st). change (getq st' q) with (getq st q). rewrite L, Pn, Sn. apply (l_drained _ I5).
  - intros q. change (ps_queues st') with (ps_queues st). change (getq st' q) with (getq st q). rewrite L, D. intros Hq Hf.
    destruct (l_joined _ I5 q Hq Hf) as [P|[[P1 P2]|P]]; [auto| |auto]. right. left. split; [exact P1|]. rewrite (O0 (or_introl P1)). exact P2.
  - intros q. change (ps_queues st') with (ps_queues st). change (getq st' q) with (getq st q). rewrite L. apply (l_finishing _ I5).
  - rewrite L. intros H. destruct (l_f3 _ I5 H) as (q & H1 & H2 & H3). exists q. change (getq st' q) with (getq st q).
    rewrite (O0 (or_introl H)). auto.
  - rewrite L. intros H q Hq. change (getq st' q) with (getq st q). rewrite D. apply (l_pphase _ I5 H q Hq).
  - unfold finl. change (ps_queues st') with (ps_queues st). change (ps_prog st') with (ps_prog st). rewrite L. apply (l_prog _ I5).
  - change (ps_prog st') with (ps_prog st). change (ps_count st') with (ps_count st). rewrite L. apply (l_destroy _ I5).
  - rewrite L. intros H. destruct (l_p5 _ I5 H) as (i & H1 & H2 & H3). exists i. change (getw st' i) with (getw st i).
    rewrite (O0 (or_intror H)). auto.
  - intros i. rewrite L. apply (l_p34 _ I5).
  - intros i. rewrite L. apply (l_nodying _ I5).
  - rewrite L. change (ps_count st') with (ps_count st). intros H W. apply (l_p1 _ I5 H). apply Wt. exact W.
  - intros q. change (ps_queues st') with (ps_queues st). change (getq st' q) with (getq st q). rewrite Nt, L. apply (l_handler _ I5).
  - rewrite L. apply (l_caller _ I5).
  - rewrite L. apply (l_done0 _ I5).
  - intros q. rewrite L. apply (l_f1 _ I5).
  - rewrite L. apply (l_p6 _ I5).
  - rewrite L. apply (l_pprog _ I5).
  - intros q i. rewrite L. apply (l_d5s _ I5).
Qed.

Lemma same5_set_thread st t th' : (t < length (ps_threads st))%nat ->
  t_lab th' = t_lab (gett st t) -> t_op th' = t_op (gett st t) -> t_obj th' = t_obj (gett st t) ->
  (t_done (gett st t) = true -> t_done th' = true) ->
  (t_op (gett st t) = KSignal -> t_done th' = t_done (gett st t)) ->
  (forall c, t_blocked th' = Some c -> t_blocked (gett st t) = Some c) ->
  same5 st (set_thread st t th').
Proof.
  intros Ht E1 E2 E3 E4 E5 E6.
  assert (G : forall x, gett (set_thread st t th') x = if Nat.eqb x t then th' else gett st x).
  { intros x. rewrite gett_set_thread. destruct (Nat.eqb_spec x t); cbn [andb]; [|reflexivity].
    destruct (Nat.ltb_spec t (length (ps_threads st))); [reflexivity|lia]. }
  constructor; try reflexivity; try (intros x; rewrite G; destruct (Nat.eqb_spec x t) as [->|]; auto; fail).
  all: try (unfold set_thread; cbn [ps_threads]; apply upd_nth_length).
  all: try (intros x c; rewrite G; destruct (Nat.eqb_spec x t) as [->|]; auto).
Qed.

Lemma inv5_exit st t : Inv1 st -> Inv5 st -> (t < length (ps_threads st))%nat -> t_op (gett st t) = KExit ->
  t_blocked (gett st t) = None ->
  Inv5 (set_thread st t (mkt KExit ONone LDone None ONone true)).
Proof.
  intros I1 I5 Ht Eop Eb. pose proof (shape_allowed _ (i1_shape _ I1 t)) as Al. rewrite Eop in Al.
  destruct (exit_lab _ _ Al) as [El Eo].
  apply (inv5_same5 st); [|exact I5]. apply same5_set_thread; cbn [t_lab t_op t_obj t_done t_blocked]; auto; try congruence; try discriminate.
Qed.

Lemma inv5_spurious st t st' : Inv1 st -> Inv5 st -> pspurious st t = Some st' -> Inv5 st'.
Proof.
  intros I1 I5 E. unfold pspurious in E. destruct (t_blocked (gett st t)) eqn:Eb; [|discriminate]. inversion E; subst; clear E.
  destruct (Nat.lt_ge_cases t (length (ps_threads st))) as [Ht|Ht].
  2:{ rewrite gett_oob in Eb by exact Ht. discriminate. }
  assert (Hb : t_blocked (gett st t) <> None) by congruence.
  pose proof (i1_shape _ I1 t) as S. unfold shape in S. rewrite Eb in S.
  apply andb_prop in S. destruct S as [S S3]. apply andb_prop in S. destruct S as [S1 S2]. apply andb_prop in S3. destruct S3 as [S3 S4].
  assert (Eop : t_op (gett st t) = KReacq) by (destruct (t_op (gett st t)); try discriminate; reflexivity).
  assert (Ed : t_done (gett st t) = false).
  { destruct (t_done (gett st t)); [|reflexivity]. apply andb_prop in S2. destruct S2 as [_ S2]. discriminate. }
  apply (inv5_same5 st); [|exact I5]. apply same5_set_thread; cbn [t_lab t_op t_obj t_done t_blocked]; auto; try congruence; try discriminate.
  all: try (apply (blocked_obj st t I1 Hb)).
Qed.

(* ---------- fairness: after a signal nobody served by it is still waiting ---------- *)
Lemma serves_facts lt lx o : allowed lt KSignal o = true -> serves lt lx = true ->
  o = lab_cond lx /\
  forall th, t_op th = KSignal -> t_lab th = lt -> In (wait_mutex lx) (holds th).
Proof.
  destruct lx; cbn [serves]; try discriminate; destruct lt; try discriminate; cbn [allowed lab_cond wait_mutex]; unfold is_op; cbn [opk_eqb andb];
    intros A S; try (apply Nat.eqb_eq in S; subst);
    match type of A with obj_eqb ?a ?b = true => destruct (obj_eqb_spec a b); [subst|discriminate] end;
    (split; [reflexivity|]); intros th E1 E2; unfold holds; rewrite E1, E2; cbn; auto.
Qed.

Lemma blocked_wait_label st x c : Inv1 st -> t_blocked (gett st x) = Some c ->
  match t_lab (gett st x) with D1 _ | P1 | W1 _ | H1 _ | H4 _ _ => True | _ => False end.
Proof.
  intros I1 Hb. pose proof (i1_shape _ I1 x) as S. unfold shape in S. rewrite Hb in S.
  apply andb_prop in S. destruct S as [S S3]. apply andb_prop in S. destruct S as [S1 _]. apply andb_prop in S3. destruct S3 as [S3 _].
  destruct (t_op (gett st x)); try discriminate.
  destruct (t_lab (gett st x)); cbn [allowed] in S1; unfold lwr, is_op in S1; cbn in S1; try discriminate; exact Logic.I.
Qed.

Lemma fair_no_waiter st t wake stash :
  Inv1 st -> Inv2 st -> Inv3 st stash -> Inv5 st -> wake_ok st t wake -> wake_fair st t wake ->
  enabled st t = true -> t_op (gett st t) = KSignal ->
  forall x, x <> t -> waiting (gett (pre_state st t wake stash) x) -> serves (t_lab (gett st t)) (t_lab (gett st x)) = false.
Proof.
  intros I1 I2 K I5 Wok Wf En Eop x Hne W.
  destruct (serves (t_lab (gett st t)) (t_lab (gett st x))) eqn:Sv; [exfalso|reflexivity].
  destruct (enabled_live _ _ En) as (Ht & Hdt & Hbt).
  pose proof (shape_allowed _ (i1_shape _ I1 t)) as Al. rewrite Eop in Al.
  destruct (serves_facts _ _ _ Al Sv) as [Ec Hm].
  pose proof (Hm (gett st t) Eop eq_refl) as Mt.
  assert (Ot : owner_of st (wait_mutex (t_lab (gett st x))) = Some t) by (apply (i1_own _ I1); exact Mt).
  destruct (pre_state_gett st t wake stash x I1 Wok) as [E|(_ & Ew & Hb & E)]; rewrite E in W.
  2:{ destruct W as [W|W]; cbn in W; congruence. }
  destruct W as [W|W].
  - (* x is blocked on the signalled condition, and was not chosen *)
    destruct (t_blocked (gett st x)) as [c|] eqn:Ebx; [|congruence].
    pose proof (l_cond _ I5 x c Ebx) as Ecx. rewrite <- Ec in Ecx. subst c.
    pose proof (Wf Eop) as F. destruct wake as [u|]; [|exact (F x Ebx)].
    assert (Hux : u <> x).
    { intros ->. destruct (pre_state_gett st t (Some x) stash x I1 Wok) as [E'|(_ & _ & _ & E')].
      - (* wake_step must have woken x *)
        unfold pre_state in E'. rewrite stash_deliver_gett in E'.
        destruct (wake_step_frame (st1_of st t) (t_op (gett st t)) (Some x)) as (_ & _ & Wt).
        assert (E1 : forall y, gett (st1_of st t) y = gett st y) by (intros; unfold st1_of; rewrite Eop; reflexivity).
        unfold wake_step in E'. rewrite Eop in E'. rewrite gett_set_thread in E'. rewrite Nat.eqb_refl in E'. cbn [andb] in E'.
        assert (Hx : (x < length (ps_threads (st1_of st t)))%nat).
        { unfold st1_of. rewrite Eop. destruct (Nat.lt_ge_cases x (length (ps_threads st))) as [|Hge]; [assumption|].
          rewrite gett_oob in Ebx by exact Hge. discriminate. }
        destruct (Nat.ltb_spec x (length (ps_threads (st1_of st t)))); [|lia].
        rewrite E1 in E'. apply (f_equal t_blocked) in E'. cbn in E'. congruence.
      - rewrite E' in E. apply (f_equal t_blocked) in E. cbn in E. congruence. }
    assert (Hut : u <> t) by (intros ->; congruence).
    (* two distinct threads blocked on the same condition *)
    pose proof (l_cond _ I5 u _ F) as Ecu.
    pose proof (blocked_wait_label st u _ I1 F) as Lu. pose proof (blocked_wait_label st x _ I1 Ebx) as Lx.
    destruct (t_lab (gett st x)) eqn:Elx; try destruct Lx; destruct (t_lab (gett st u)) eqn:Elu; try destruct Lu;
      rewrite Ec in Ecu; cbn [lab_cond] in Ecu; try discriminate; inversion Ecu; subst.
    + (* D1 / D1 *) apply Hux. transitivity 0%nat; [|symmetry]; apply (tk_caller _ _ _ (i2_threads _ I2 _)); rewrite ?Elx, ?Elu; reflexivity.
    + apply Hux. transitivity 0%nat; [|symmetry]; apply (tk_caller _ _ _ (i2_threads _ I2 _)); rewrite ?Elx, ?Elu; reflexivity.
    + apply Hux. transitivity 0%nat; [|symmetry]; apply (tk_caller _ _ _ (i2_threads _ I2 _)); rewrite ?Elx, ?Elu; reflexivity.
    + apply Hux. transitivity 0%nat; [|symmetry]; apply (tk_caller _ _ _ (i2_threads _ I2 _)); rewrite ?Elx, ?Elu; reflexivity.
    + (* W1 i / W1 i *)
      destruct (tk_worker _ _ _ (i2_threads _ I2 x) i0) as [_ A1]; [rewrite Elx; reflexivity|].
      destruct (tk_worker _ _ _ (i2_threads _ I2 u) i0) as [_ A2]; [rewrite Elu; reflexivity|]. congruence.
    + (* x = W1 w served by D5s/P3s; u = H4 j w holds the token *)
      assert (Tu : ttok (ord_of st) (t_lab (gett st u)) w = 1%nat) by (rewrite Elu; cbn; rewrite Nat.eqb_refl; reflexivity).
      pose proof (tokens_le1 st w I2) as Le. unfold tokens in Le. pose proof (tok_t_ge2 st u t w Hut) as G2. rewrite Tu in G2.
      pose proof (tok_t_ge st u w) as G1. rewrite Tu in G1.
      destruct (t_lab (gett st t)) eqn:Elt; cbn [serves] in Sv; try discriminate; apply Nat.eqb_eq in Sv; subst.
      * (* D5s q i *)
        assert (Et0 : t = 0%nat) by (apply (tk_caller _ _ _ (i2_threads _ I2 t)); rewrite Elt; reflexivity).
        cbn [ttok] in G2. rewrite Nat.eqb_refl in G2. cbn [andb] in G2. unfold ord_of in G2.
        match type of Elt with _ = D5s ?qq ?ii =>
          destruct (q_ordered (getq st qq)) eqn:Eo; [cbn in G2; lia|];
          assert (Er : wk_rq (getw st ii) = Some qq) by (apply (l_d5s _ I5 qq ii); [rewrite <- Et0 at 1; exact Elt|exact Eo]);
          unfold ftok in Le; rewrite Er in Le; cbn in Le; lia end.
      * (* P3s i *)
        assert (Et0 : t = 0%nat) by (apply (tk_caller _ _ _ (i2_threads _ I2 t)); rewrite Elt; reflexivity).
        match type of Elt with _ = P3s ?ii =>
          destruct (l_p34 _ I5 ii) as [_ Dy]; [rewrite <- Et0 at 1; rewrite Elt; cbn; apply Nat.eqb_refl|];
          unfold ftok in Le; rewrite Dy in Le; cbn in Le; lia end.
    + (* H1 j / H1 j *)
      destruct (k_handler _ _ K x j0) as [_ A1]; [rewrite Elx; reflexivity|].
      destruct (k_handler _ _ K u j0) as [_ A2]; [rewrite Elu; reflexivity|]. congruence.
    + (* x = H4 j i served by W4os i; u = W1 i is the signaller's own thread *)
      destruct (t_lab (gett st t)) eqn:Elt; cbn [serves] in Sv; try discriminate. apply Nat.eqb_eq in Sv. subst.
      match type of Elu with _ = W1 ?ii =>
        destruct (tk_worker _ _ _ (i2_threads _ I2 t) ii) as [_ A1]; [rewrite Elt; reflexivity|];
        destruct (tk_worker _ _ _ (i2_threads _ I2 u) ii) as [_ A2]; [rewrite Elu; reflexivity|]; congruence end.
    + (* H4 / H4: two tokens *)
      assert (Tu : ttok (ord_of st) (t_lab (gett st u)) w0 = 1%nat) by (rewrite Elu; cbn; rewrite Nat.eqb_refl; reflexivity).
      assert (Tx : ttok (ord_of st) (t_lab (gett st x)) w0 = 1%nat) by (rewrite Elx; cbn; rewrite Nat.eqb_refl; reflexivity).
      pose proof (tokens_le1 st w0 I2) as Le. unfold tokens in Le. pose proof (tok_t_ge2 st u x w0 Hux) as G2. lia.
  - (* x is about to wait: it holds the mutex the signaller holds *)
    assert (Mx : In (wait_mutex (t_lab (gett st x))) (holds (gett st x))) by (unfold holds; rewrite W; left; reflexivity).
    assert (Ox : owner_of st (wait_mutex (t_lab (gett st x))) = Some x) by (apply (i1_own _ I1); exact Mx).
    congruence.
Qed.

(* ---------- the delivered log is invisible ---------- *)
Definition set_delivered (st : pstate) (d : list (nat * N)) : pstate :=
  mkp (ps_threads st) (ps_owner st) (ps_idle st) (ps_count st) (ps_max st) (ps_workers st) (ps_queues st)
      (ps_prog st) (ps_njobs st) d (ps_abort st).

Lemma continue_delivered st t l d :
  fst (continue (set_delivered st d) t l) = set_delivered (fst (continue st t l)) d /\
  snd (continue (set_delivered st d) t l) = snd (continue st t l).
Proof.
  destruct l; cbn [continue];
    try (unfold caller_next; cbn [ps_prog set_delivered]; destruct (ps_prog st) as [|[]]; split; reflexivity);
    unfold getw, getq, set_pool, set_abort, set_workers, set_queues, set_delivered;
    cbn [fst snd ps_threads ps_owner ps_idle ps_count ps_max ps_workers ps_queues ps_prog ps_njobs ps_delivered ps_abort];
    repeat (break_match_goal; cbn [fst snd ps_threads ps_owner ps_idle ps_count ps_max ps_workers ps_queues ps_prog ps_njobs ps_delivered ps_abort]);
    (split; [|reflexivity]); try reflexivity;
    repeat match goal with H : ps_idle st = _ |- _ => rewrite H; clear H end; reflexivity.
Qed.

Lemma same5_fields a b :
  ps_threads b = ps_threads a -> ps_idle b = ps_idle a -> ps_count b = ps_count a -> ps_max b = ps_max a ->
  ps_workers b = ps_workers a -> ps_queues b = ps_queues a -> ps_prog b = ps_prog a -> same5 a b.
Proof.
  intros E1 E2 E3 E4 E5 E6 E7.
  assert (G : forall x, gett b x = gett a x) by (intros; unfold gett; rewrite E1; reflexivity).
  constructor; try assumption; try (intros x; rewrite G; auto; fail).
  all: try (rewrite E1; reflexivity).
  all: try (intros x c; rewrite G; auto).
Qed.

Lemma same5_trans a b c : same5 a b -> same5 b c -> same5 a c.
Proof.
  intros S1 S2. constructor.
  - rewrite (s5_len _ _ S2). apply (s5_len _ _ S1).
  - intros x. rewrite (s5_lab _ _ S2). apply (s5_lab _ _ S1).
  - intros x. rewrite (s5_op _ _ S2). apply (s5_op _ _ S1).
  - intros x. rewrite (s5_obj _ _ S2). apply (s5_obj _ _ S1).
  - intros x H. apply (s5_done_mono _ _ S2). apply (s5_done_mono _ _ S1). exact H.
  - intros x H. rewrite (s5_done_sig _ _ S2) by (rewrite (s5_op _ _ S1); exact H). apply (s5_done_sig _ _ S1). exact H.
  - intros x c0 H. apply (s5_blocked _ _ S1). apply (s5_blocked _ _ S2). exact H.
  - rewrite (s5_idle _ _ S2). apply (s5_idle _ _ S1).
  - rewrite (s5_count _ _ S2). apply (s5_count _ _ S1).
  - rewrite (s5_max _ _ S2). apply (s5_max _ _ S1).
  - rewrite (s5_workers _ _ S2). apply (s5_workers _ _ S1).
  - rewrite (s5_queues _ _ S2). apply (s5_queues _ _ S1).
  - rewrite (s5_prog _ _ S2). apply (s5_prog _ _ S1).
Qed.

Lemma stash_deliver_is_set_delivered st t l stash :
  exists d, snd (stash_deliver st t l stash) = set_delivered st d \/ snd (stash_deliver st t l stash) = st.
Proof.
  destruct l; cbn [stash_deliver snd]; try (exists []; right; reflexivity).
  - destruct (wk_running _); [exists []; right; reflexivity|]. destruct (wk_res _); exists []; right; reflexivity.
  - destruct (find _ stash) as [[a r0]|]; [eexists; left; reflexivity|exists []; right; reflexivity].
Qed.

Lemma after_delivered_same5 st t l d : same5 (after st t l) (after (set_delivered st d) t l).
Proof.
  unfold after. destruct (continue_delivered st t l d) as [-> ->]. apply same5_fields; reflexivity.
Qed.

(* ---------- one step of a fair schedule ---------- *)
Lemma pstep_inv5 st t wake stash st' op o stash' :
  Inv1 st -> Inv2 st -> Inv3 st stash -> Inv5 st -> (ps_max st < two64)%N ->
  wake_ok st t wake -> wake_fair st t wake ->
  pstep st t wake stash = Some (st', op, o, stash') -> Inv5 st'.
Proof.
  intros I1 I2 K I5 Hmax Wok Wf E.
  destruct (enabled st t) eqn:En; [|unfold pstep in E; rewrite En in E; discriminate].
  destruct (enabled_live _ _ En) as (Hlt & Hd & Hb).
  pose proof (shape_allowed _ (i1_shape _ I1 t)) as Hal.
  destruct (opk_eqb (t_op (gett st t)) KWait) eqn:Ew.
  { unfold pstep in E. rewrite En in E. cbn [negb] in E.
    destruct (t_op (gett st t)) eqn:Eop; try discriminate. inversion E; subst; clear E.
    apply (inv5_kwait st t I1 I5 Hlt Eop Hb Hd). }
  destruct (opk_eqb (t_op (gett st t)) KExit) eqn:Ee.
  { unfold pstep in E. rewrite En in E. cbn [negb] in E.
    destruct (t_op (gett st t)) eqn:Eop; try discriminate. inversion E; subst; clear E.
    apply (inv5_exit st t I1 I5 Hlt Eop Hb). }
  assert (Hw : t_op (gett st t) <> KWait) by (intros H; rewrite H in Ew; discriminate).
  assert (He : t_op (gett st t) <> KExit) by (intros H; rewrite H in Ee; discriminate).
  rewrite (pstep_general _ _ wake stash En Hw He) in E. inversion E; subst; clear E.
  unfold step_tail.
  set (st2 := wake_step (st1_of st t) (t_op (gett st t)) wake).
  set (pre := snd (stash_deliver st2 t (t_lab (gett st t)) stash)).
  change pre with (pre_state st t wake stash) in *.
  fold (after (pre_state st t wake stash) t (t_lab (gett st t))).
  (* st2 and pre agree with st on everything Inv5 reads *)
  pose proof (pre_state_same5 st t wake stash I1 Wok) as S1.
  destruct (stash_deliver_other_fields st2 t (t_lab (gett st t)) stash) as (F0 & F1 & F2 & F3 & F4 & F5 & F6).
  assert (S2 : same5 (pre_state st t wake stash) st2) by (apply same5_fields; symmetry; assumption).
  pose proof (same5_trans _ _ _ S1 S2) as S.
  assert (Gp : forall x, gett (pre_state st t wake stash) x = gett st2 x) by (intros; apply stash_deliver_gett).
  assert (Gt : gett st2 t = gett st t).
  { rewrite <- Gp. destruct (pre_state_gett st t wake stash t I1 Wok) as [E|(_ & _ & Hbb & _)]; [exact E|congruence]. }
  assert (I5' : Inv5 st2) by (apply (inv5_same5 st); assumption).
  assert (V1 : same_view st (st1_of st t)).
  { unfold st1_of. destruct (t_op (gett st t)); try apply same_view_refl; apply set_owner_view. }
  assert (V2 : same_view (st1_of st t) st2).
  { apply wake_step_view. intros u -> Hop Hu. unfold st1_of in *. rewrite Hop in *.
    apply (blocked_obj st u I1). unfold wake_ok in Wok. apply Wok; assumption. }
  assert (V : same_view st st2) by (eapply same_view_trans; eassumption).
  assert (Sn : ps_njobs st2 = ps_njobs st) by (unfold st2; rewrite (proj1 (wake_step_scalars _ _ _)); apply st1_of_scalars).
  assert (Sd : ps_delivered st2 = ps_delivered st) by (unfold st2; rewrite (proj2 (wake_step_scalars _ _ _)); apply st1_of_scalars).
  assert (I2' : Inv2 st2) by (apply (inv2_view st); assumption).
  assert (K' : Inv3 st2 stash) by (apply (inv3_frame st); [apply frame3_of_view; assumption|exact K]).
  assert (Hlt2 : (t < length (ps_threads st2))%nat) by (rewrite (s5_len _ _ S); exact Hlt).
  assert (Hld : t_lab (gett st t) <> LDone).
  { intros H. rewrite H in Hal. destruct (t_op (gett st t)); cbn in Hal; try discriminate; try congruence. }
  assert (T : Inv5 (after st2 t (t_lab (gett st t)))).
  { apply (tail_inv5 st2 t stash (t_lab (gett st t)) I2' K' I5' Hlt2); rewrite ?Gt; try assumption; try reflexivity.
    - intros VF. apply (changed_not_signal st2 _ _ _ Hal VF).
    - rewrite (s5_max _ _ S). exact Hmax.
    - (* fairness *)
      intros Eop x Hne W. rewrite (s5_lab _ _ S x). rewrite <- Gp in W.
      apply (fair_no_waiter st t wake stash I1 I2 K I5 Wok Wf En Eop x Hne W).
    - (* a join completes only when the joined thread has exited *)
      intros Ht0 Hl x Ho. subst t. rewrite Gt in Hl, Ho.
      apply (s5_done_mono _ _ S). unfold enabled in En. rewrite Hd, Hb in En.
      rewrite Hl in Hal. cbn [allowed] in Hal. apply andb_prop in Hal. destruct Hal as [Ha _].
      destruct (t_op (gett st 0)); try discriminate. rewrite Ho in En. exact En.
    - (* the worker cannot be between its unlock and W3 while the caller still holds its mutex *)
      intros i q Hl H0. rewrite (s5_lab _ _ S 0%nat) in H0.
      rewrite Hl in Hal. cbn [allowed] in Hal. unfold is_op in Hal. apply andb_prop in Hal. destruct Hal as [A1 A2].
      destruct (t_op (gett st t)) eqn:Eop; try discriminate. destruct (obj_eqb_spec (t_obj (gett st t)) (OWm i)) as [Eo|]; [|discriminate].
      assert (Ot : owner_of st (OWm i) = Some t) by (apply (i1_own _ I1); unfold holds; rewrite Eop, Eo; left; reflexivity).
      pose proof (shape_allowed _ (i1_shape _ I1 0%nat)) as Al0. rewrite H0 in Al0. cbn [allowed] in Al0. unfold is_op in Al0.
      apply andb_prop in Al0. destruct Al0 as [B1 _]. destruct (t_op (gett st 0)) eqn:Eop0; try discriminate.
      assert (O0 : owner_of st (OWm i) = Some 0%nat) by (apply (i1_own _ I1); unfold holds; rewrite Eop0, H0; left; reflexivity).
      assert (t = 0%nat) by congruence. subst t. congruence. }
  (* the delivered log does not matter *)
  destruct (stash_deliver_is_set_delivered st2 t (t_lab (gett st t)) stash) as [d [Ed|Ed]].
  - unfold pre_state. fold st2. rewrite Ed. apply (inv5_same5 (after st2 t (t_lab (gett st t)))); [apply after_delivered_same5|exact T].
  - unfold pre_state. fold st2. rewrite Ed. exact T.
Qed.

(* ---------- initial state ---------- *)
Lemma pre_init_gett maxt prog x : x <> 0%nat -> gett (pre_init maxt prog) x = dummy_t.
Proof. intros H. destruct x as [|x]; [congruence|]. unfold gett. cbn [ps_threads pre_init]. destruct x; reflexivity. Qed.

Lemma pre_init_inv5 maxt prog : prog_wf prog = true -> has_destroy prog = true -> Inv5 (pre_init maxt prog).
Proof.
  intros Hp Hd.
  assert (L : forall x, t_lab (gett (pre_init maxt prog) x) = CNext \/ t_lab (gett (pre_init maxt prog) x) = LDone) by apply pre_init_lab.
  assert (Nb : forall x, t_blocked (gett (pre_init maxt prog) x) = None /\ t_op (gett (pre_init maxt prog) x) <> KWait).
  { intros x. destruct (Nat.eq_dec x 0) as [->|Hne]; [split; [reflexivity|discriminate]|]. rewrite (pre_init_gett _ _ _ Hne). split; [reflexivity|discriminate]. }
  assert (L0 : t_lab (gett (pre_init maxt prog) 0) = CNext) by reflexivity.
  constructor; rewrite ?L0; cbn [length ps_queues ps_workers pre_init is_F1sF2 plabel is_P3sP4 caller_lab].
  - intros x c H. destruct (Nb x) as [E _]. congruence.
  - intros x [W|W]; destruct (Nb x) as [E1 E2]; congruence.
  - intros q Hq. lia.
  - split; [reflexivity|]. cbn. lia.
  - intros q Hq. lia.
  - intros q Hq. lia.
  - intros; discriminate.
  - intros; discriminate.
  - intros [H|H]; discriminate.
  - exact Hp.
  - left. exact Hd.
  - intros; discriminate.
  - intros; discriminate.
  - intros i Hi. lia.
  - intros; discriminate.
  - intros q Hq. lia.
  - left. reflexivity.
  - intros; discriminate.
  - intros; discriminate.
  - intros; discriminate.
  - intros; discriminate.
  - intros; discriminate.
Qed.

Lemma pool_init_inv5 maxt prog : prog_wf prog = true -> has_destroy prog = true -> (maxt < two64)%N ->
  Inv5 (pool_init maxt prog).
Proof.
  intros Hp Hd Hm. rewrite pool_init_eq.
  pose proof (prog_wf_weaken _ Hp) as Hw.
  assert (Ht : (0 < length (ps_threads (pre_init maxt prog)))%nat) by (cbn; lia).
  change (set_thread (fst (caller_next (pre_init maxt prog))) 0 (snd (caller_next (pre_init maxt prog))))
    with (after (pre_init maxt prog) 0 CNext).
  apply (tail_inv5 (pre_init maxt prog) 0 [] CNext (pre_init_inv2 maxt prog Hw) (pre_init_inv3 maxt prog) (pre_init_inv5 maxt prog Hp Hd) Ht);
    try reflexivity; try discriminate.
  exact Hm.
Qed.

(* ---------- runs ---------- *)
Lemma pstep_max st t wake stash st' op o stash' : Inv5 st -> pstep st t wake stash = Some (st', op, o, stash') -> ps_max st' = ps_max st.
Proof.
  intros I5 E. destruct (l_count _ I5) as [_ C]. apply (PoolProofs.pstep_cinv st t wake stash st' op o stash'); [exact C|exact E].
Qed.

Lemma pspurious_max st t st' : pspurious st t = Some st' -> ps_max st' = ps_max st.
Proof. unfold pspurious. destruct (t_blocked (gett st t)); [|discriminate]. intros E. inversion E. reflexivity. Qed.

Lemma prun_inv1235 s : forall st0 stash0 st stash,
  Inv1 st0 -> Inv2 st0 -> Inv3 st0 stash0 -> Inv5 st0 -> (ps_max st0 < two64)%N ->
  sched_fair st0 stash0 s -> prun st0 stash0 s = Some (st, stash) ->
  Inv1 st /\ Inv2 st /\ Inv3 st stash /\ Inv5 st /\ ps_max st = ps_max st0.
Proof.
  induction s as [|[t w|t] s IH]; intros st0 stash0 st stash I1 I2 K I5 Hm W E; cbn [prun sched_fair] in *.
  - inversion E; subst. auto.
  - destruct W as (W1 & W2 & W3). destruct (pstep st0 t w stash0) as [[[[st1 op] o] stash1]|] eqn:Es; [|discriminate].
    pose proof (pstep_max _ _ _ _ _ _ _ _ I5 Es) as Em.
    destruct (IH st1 stash1 st stash) as (A1 & A2 & A3 & A4 & A5); try assumption.
    + eapply pstep_inv1; eassumption.
    + eapply pstep_inv2; eassumption.
    + eapply pstep_inv3; eassumption.
    + eapply pstep_inv5; eassumption.
    + rewrite Em. exact Hm.
    + split; [exact A1|split; [exact A2|split; [exact A3|split; [exact A4|congruence]]]].
  - destruct (pspurious st0 t) as [st1|] eqn:Es; [|discriminate].
    pose proof (pspurious_max _ _ _ Es) as Em.
    destruct (IH st1 stash0 st stash) as (A1 & A2 & A3 & A4 & A5); try assumption.
    + eapply pspurious_inv1; eassumption.
    + eapply pspurious_inv2; eassumption.
    + eapply pspurious_inv3; eassumption.
    + eapply inv5_spurious; eassumption.
    + rewrite Em. exact Hm.
    + split; [exact A1|split; [exact A2|split; [exact A3|split; [exact A4|congruence]]]].
Qed.

Lemma pool_init_max maxt prog : ps_max (pool_init maxt prog) = maxt.
Proof. apply pool_init_cinv. Qed.

(* Tier 5: no hang.  For a program that respects the API contract and ends with DestroyPool, a pool of
   1 <= maxt < 2^64 threads and a schedule in which every signal wakes a waiter of that condition
   variable when there is one (spurious wake-ups allowed), a state in which no thread can run is a
   state in which every thread has exited; no assertion has failed. *)
Theorem T13d_fair : forall maxt prog s st stash,
  (1 <= maxt)%N -> (maxt < two64)%N -> prog_wf prog = true -> has_destroy prog = true ->
  sched_fair (pool_init maxt prog) [] s ->
  prun (pool_init maxt prog) [] s = Some (st, stash) ->
  terminal st -> all_done st /\ ps_abort st = false.
Proof.
  intros maxt prog s st stash H1 H2 Hp Hd W E T.
  pose proof (prog_wf_weaken _ Hp) as Hw.
  destruct (prun_inv1235 s (pool_init maxt prog) [] st stash) as (I1 & I2 & K & I5 & Em); try assumption.
  - apply pool_init_inv1.
  - apply pool_init_inv2. exact Hw.
  - apply pool_init_inv3. exact Hw.
  - apply pool_init_inv5; assumption.
  - rewrite pool_init_max. exact H2.
  - split; [|apply (i2_noabort _ I2)].
    apply (stuck_all_done st stash I1 I2 K I5 T). rewrite Em, pool_init_max. exact H1.
Qed.

Print Assumptions T13d_fair.
