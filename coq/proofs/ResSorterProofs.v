(* C18 operational resource model, tier 2 proofs: sorter.c as it is now ([v_current]). *)
From Coq Require Import NArith List Bool Lia ZifyBool ZifyN ZifyNat.
From Mtbl Require Import model.ResCore model.ResT1 model.ResSorter proofs.ResProofCore proofs.ResT1Proofs.
Import ListNotations.
Local Open Scope N_scope.

(* the loop of _mtbl_sorter_write_chunk releases every entry of the batch, on both exits *)
Lemma chunk_loop_subs : forall rem steps,
  subs (fst (chunk_loop v_current rem steps)) (copies rem [HSEntry]).
Proof.
  induction rem as [|r IH]; intros steps k m; [cbn; lia|].
  assert (W : forall t, runT k (fst (let '(e, ok) := chunk_loop v_current r t in (rel HSEntry ++ e, ok))) m
                        = m - cnt k (copies (S r) [HSEntry])).
  { intros t. specialize (IH t k). destruct (chunk_loop v_current r t) as [e ok]. cbn [fst] in *.
    cbn [copies]. rnorm. rewrite IH. lia. }
  cbn [chunk_loop]. destruct steps as [|[| |] t]; try apply W.
  - destruct r as [|r']; [apply W|]. specialize (IH t k). destruct (chunk_loop v_current (S r') t) as [e ok].
    cbn [fst] in *. change (copies (S (S r')) [HSEntry]) with ([HSEntry] ++ copies (S r') [HSEntry]).
    rnorm. rewrite IH. lia.
  - destruct r as [|r']; [apply W|]. cbn [fst v_mergefail_cleanup v_current when].
    assert (H : subs (rel HSEntry) [HSEntry]) by (intros k' a; rsolve).
    apply (subs_times _ _ (S (S r')) H).
Qed.

Lemma chunk_code_sound : forall n steps,
  sound (fp_batch n) (fst (chunk_code v_current n steps))
        (if snd (chunk_code v_current n steps) then fp_reader RTable else []).
Proof.
  intros n steps k m. unfold chunk_code. pose proof (chunk_loop_subs (N.to_nat n) steps k) as H.
  destruct (chunk_loop v_current (N.to_nat n) steps) as [el ok]. cbn [fst] in H.
  unfold fp_batch, ncopies.
  destruct ok; cbn [fst snd v_close_fd v_mergefail_cleanup v_current when];
    unfold writer_init_fd_code, writer_destroy_code, writer_flush_code, handler_destroy_code, reader_init_fd_code;
    cbn [w_mode w_pending has_handler when fp_reader]; rnorm; rewrite H; rnorm; lia.
Qed.

(* run [e1], view the result as a frame [x] plus a part [y], run [e2] on [y] *)
Lemma sound_step : forall a e1 x y e2 c b,
  sound a e1 (x ++ y) -> sound y e2 c -> (forall k, cnt k (x ++ c) = cnt k b) -> sound a (e1 ++ e2) b.
Proof.
  intros a e1 x y e2 c b H1 H2 Hb. eapply sound_trans; [exact H1|].
  eapply sound_equiv; [reflexivity | exact Hb | apply sound_frame, H2].
Qed.
Lemma flat_map_snoc : forall (A B : Type) (f : A -> list B) l x, flat_map f (l ++ [x]) = flat_map f l ++ f x.
Proof. intros. rewrite flat_map_app. cbn [flat_map]. rewrite app_nil_r. reflexivity. Qed.

Ltac sunfold :=
  unfold fp_sorter, fp_batch, fp_handler, add_result, fp_job, handler_destroy_code, handler_init_code;
  cbn [s_mode s_entries s_ok s_failed s_iterating fst snd when fp_reader].

Lemma flush_sound : forall s steps,
  sound (fp_sorter s) (fst (fst (fst (flush_code v_current s steps))))
        (fp_sorter (snd (fst (fst (flush_code v_current s steps))))).
Proof.
  intros [m e o f it] steps. unfold flush_code. cbn [s_mode s_entries s_ok s_failed s_iterating].
  assert (G : forall m', (m' = SPlain \/ m' = SHandler) ->
     sound (fp_sorter (mks m' e o f it))
       (fst (fst (fst (let '(ec, ok) := chunk_code v_current e steps in
                       (((acq HBatch ++ acq HEntryVec) ++ ec, add_result (mks m' e o f it) m' 0 ok), ok, false)))))
       (fp_sorter (snd (fst (fst (let '(ec, ok) := chunk_code v_current e steps in
                       (((acq HBatch ++ acq HEntryVec) ++ ec, add_result (mks m' e o f it) m' 0 ok), ok, false))))))).
  { intros m' Hm. pose proof (chunk_code_sound e steps) as HC.
    destruct (chunk_code v_current e steps) as [ec ok]. cbn [fst snd] in *.
    eapply (sound_step _ _ (fp_sorter (mks m' 0 o f it)) (fp_batch e)); [ | exact HC | ].
    - intros k n. sunfold. destruct Hm as [-> | ->]; rsolve.
    - intros k. sunfold. destruct ok, Hm as [-> | ->]; rsolve. }
  destruct m as [| |jobs]; [apply G; auto | apply G; auto|].
  cbn [fst snd]. intros k n. unfold fp_sorter. cbn [s_mode s_entries s_ok s_failed].
  rewrite flat_map_snoc. change (fp_job (e, steps)) with (fp_batch e). unfold fp_batch, fp_handler. rsolve.
Qed.

Lemma sorter_add_sound : forall s spill,
  sound (fp_sorter s) (fst (fst (sorter_add_code v_current s spill)))
        (fp_sorter (snd (fst (sorter_add_code v_current s spill)))).
Proof.
  intros [m e o f it] spill. unfold sorter_add_code. cbn [s_mode s_entries s_ok s_failed s_iterating].
  destruct it; [apply sound_nil|]. destruct spill as [steps|].
  - pose proof (flush_sound (mks m (e + 1) o f false) steps) as HF.
    destruct (flush_code v_current (mks m (e + 1) o f false) steps) as [[[ef s2] r] d]. cbn [fst snd] in *.
    eapply sound_trans; [|exact HF]. intros k n. sunfold. rsolve.
  - cbn [fst snd]. intros k n. sunfold. rsolve.
Qed.

Lemma sorter_job_sound : forall s,
  sound (fp_sorter s) (fst (sorter_job_code v_current s)) (fp_sorter (snd (sorter_job_code v_current s))).
Proof.
  intros [m e o f it]. unfold sorter_job_code. cbn [s_mode s_entries].
  destruct m as [| |[|j t]]; try apply sound_nil.
  pose proof (chunk_code_sound (fst j) (snd j)) as HC.
  destruct (chunk_code v_current (fst j) (snd j)) as [ec ok]. cbn [fst snd] in *.
  eapply sound_equiv; [ | | apply (sound_frame (fp_sorter (mks (SPool t) e o f it))), HC].
  - intros k. unfold fp_sorter. cbn [s_mode s_entries s_ok flat_map]. change (fp_job j) with (fp_batch (fst j)). rsolve.
  - intros k. unfold fp_sorter, add_result. cbn [s_mode s_entries s_ok s_failed]. destruct ok; cbn [fp_reader]; rsolve.
Qed.

Lemma run_jobs_sound : forall jobs,
  sound (flat_map fp_job jobs) (fst (fst (run_jobs v_current jobs)))
        (ncopies (snd (fst (run_jobs v_current jobs))) (fp_reader RTable)).
Proof.
  induction jobs as [|j t IH]; cbn [run_jobs flat_map]; [apply sound_nil|].
  pose proof (chunk_code_sound (fst j) (snd j)) as HC.
  destruct (chunk_code v_current (fst j) (snd j)) as [ec ok].
  destruct (run_jobs v_current t) as [[et o] f]. cbn [fst snd] in *.
  eapply sound_equiv; [reflexivity | | apply sound_app; [exact HC | exact IH]].
  intros k. destruct ok; rsolve.
Qed.

Lemma sorter_join_sound : forall s,
  sound (fp_sorter s) (fst (sorter_join v_current s)) (fp_sorter (snd (sorter_join v_current s))).
Proof.
  intros [m e o f it]. unfold sorter_join. cbn [s_mode s_entries s_ok s_failed s_iterating].
  destruct m as [| |jobs]; cbn [fst snd].
  - apply sound_nil.
  - intros k n. sunfold. rsolve.
  - pose proof (run_jobs_sound jobs) as HJ. destruct (run_jobs v_current jobs) as [[ej o'] f']. cbn [fst snd] in *.
    unfold handler_destroy_code. cbn [when].
    (* the jobs turn into readers; then the handler goes *)
    eapply sound_trans.
    + eapply sound_equiv; [ | reflexivity | apply (sound_frame (fp_sorter (mks SHandler e o f it))), HJ].
      intros k. unfold fp_sorter, fp_handler. cbn [s_mode s_entries s_ok]. rsolve.
    + intros k n. unfold fp_sorter, fp_handler. cbn [s_mode s_entries s_ok fp_reader]. rsolve.
Qed.
Lemma sorter_join_mode : forall s, s_mode (snd (sorter_join v_current s)) = SPlain.
Proof.
  intros [m e o f it]. unfold sorter_join. cbn [s_mode]. destruct m as [| |jobs]; try reflexivity.
  destruct (run_jobs v_current jobs) as [[ej o'] f']. reflexivity.
Qed.
Lemma sorter_join_entries : forall s, s_entries (snd (sorter_join v_current s)) = s_entries s.
Proof.
  intros [m e o f it]. unfold sorter_join. cbn [s_mode s_entries]. destruct m as [| |jobs]; try reflexivity.
  destruct (run_jobs v_current jobs) as [[ej o'] f']. reflexivity.
Qed.

Lemma sorter_iter_scode_sound : forall s steps,
  sound (fp_sorter s) (fst (fst (fst (sorter_iter_scode v_current s steps))))
        (fp_sorter (snd (fst (fst (sorter_iter_scode v_current s steps))))).
Proof.
  intros s steps. unfold sorter_iter_scode.
  assert (HF : sound (fp_sorter s)
                 (fst (fst (fst (if 0 <? s_entries s then flush_code v_current s steps else ([], s, true, false)))))
                 (fp_sorter (snd (fst (fst (if 0 <? s_entries s then flush_code v_current s steps else ([], s, true, false))))))).
  { destruct (0 <? s_entries s); [apply flush_sound | apply sound_nil]. }
  destruct (if 0 <? s_entries s then flush_code v_current s steps else ([], s, true, false)) as [[[ef s1] ok] d].
  cbn [fst snd] in HF. destruct ok; [|exact HF].
  pose proof (sorter_join_sound s1) as HJ. destruct (sorter_join v_current s1) as [ej s2]. cbn [fst snd] in *.
  eapply sound_trans; [exact HF|]. exact HJ.
Qed.

Lemma chunk_subs_ok : forall n ocs s, In s (chunk_subs n ocs) -> sub_ok s.
Proof.
  induction n as [|m IH]; intros ocs s H; cbn [chunk_subs] in H; [destruct H|].
  destruct H as [<-|H]; [|exact (IH _ _ H)]. unfold sub_ok. cbn [fst snd]. apply reader_iter_adds.
Qed.

Lemma sorter_iter_icode_adds : forall ok n oc,
  adds (fst (sorter_iter_icode v_current ok n oc)) (fp_iter (snd (sorter_iter_icode v_current ok n oc))).
Proof.
  intros ok n oc. unfold sorter_iter_icode. destruct ok.
  - pose proof (merger_iter_adds QIter _ (chunk_subs_ok (N.to_nat n) (oc_subs oc))) as HM.
    destruct (merger_iter_code QIter (chunk_subs (N.to_nat n) (oc_subs oc))) as [em inner]. cbn [fst snd] in *.
    intros k m. cbn [fp_iter]. unfold merger_init_code. rnorm. rewrite HM. rnorm. lia.
  - cbn [fst snd v_iter_free_mopt v_current when fp_iter]. intros k m. rsolve.
Qed.

Lemma reader_destroy_subs : subs (reader_destroy_code RTable) (fp_reader RTable).
Proof. intros k m. cbn [reader_destroy_code fp_reader]. rsolve. Qed.

Lemma sorter_destroy_sound : forall s, sound (fp_sorter s) (sorter_destroy_code v_current s) [].
Proof.
  intros s. unfold sorter_destroy_code.
  pose proof (sorter_join_sound s) as HJ. pose proof (sorter_join_mode s) as HM.
  pose proof (sorter_join_entries s) as HE.
  destruct (sorter_join v_current s) as [ej s1]. cbn [fst snd v_join_first v_current] in *.
  rewrite <- app_assoc. eapply sound_trans; [exact HJ|].
  destruct s1 as [m1 e1 o1 f1 i1]. cbn [s_mode s_entries s_ok] in *. subst m1 e1.
  intros k n. unfold fp_sorter. cbn [s_mode s_entries s_ok]. rnorm.
  rewrite (subs_ntimes _ _ o1 reader_destroy_subs). rnorm. lia.
Qed.
