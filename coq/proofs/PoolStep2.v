(* Tier 2, machinery: Inv2 only looks at a "view" of the state; effect of the elementary
   state updates on tokens and on the per-thread facts. *)
From Coq Require Import NArith List Lia ZifyBool ZifyN ZifyNat Bool Arith.
From Mtbl Require Import model.Bytes model.Pool proofs.PoolBase proofs.PoolSched proofs.PoolInv proofs.PoolLife.
Import ListNotations.

(* ---------- the view ---------- *)
Definition tview (th : thread) : label * obj := (t_lab th, t_obj th).
Record same_view (st st' : pstate) : Prop := {
  sv_threads : map tview (ps_threads st') = map tview (ps_threads st);
  sv_idle : ps_idle st' = ps_idle st;
  sv_workers : ps_workers st' = ps_workers st;
  sv_queues : ps_queues st' = ps_queues st;
  sv_prog : ps_prog st' = ps_prog st;
  sv_abort : ps_abort st' = ps_abort st;
}.

Lemma same_view_refl st : same_view st st.
Proof. constructor; reflexivity. Qed.
Lemma same_view_trans a b c : same_view a b -> same_view b c -> same_view a c.
Proof. intros [] []. constructor; congruence. Qed.

Lemma sv_tview st st' x : same_view st st' -> tview (gett st' x) = tview (gett st x).
Proof.
  intros V. unfold gett. change (tview dummy_t) with (tview dummy_t).
  rewrite <- !(map_nth tview). rewrite (sv_threads _ _ V). reflexivity.
Qed.
Lemma sv_lab st st' x : same_view st st' -> t_lab (gett st' x) = t_lab (gett st x).
Proof. intros V. pose proof (sv_tview st st' x V) as H. unfold tview in H. congruence. Qed.
Lemma sv_obj st st' x : same_view st st' -> t_obj (gett st' x) = t_obj (gett st x).
Proof. intros V. pose proof (sv_tview st st' x V) as H. unfold tview in H. congruence. Qed.
Lemma sv_len st st' : same_view st st' -> length (ps_threads st') = length (ps_threads st).
Proof. intros V. rewrite <- (map_length tview), (sv_threads _ _ V), map_length. reflexivity. Qed.
Lemma sv_getw st st' i : same_view st st' -> getw st' i = getw st i.
Proof. intros V. unfold getw. rewrite (sv_workers _ _ V). reflexivity. Qed.
Lemma sv_getq st st' q : same_view st st' -> getq st' q = getq st q.
Proof. intros V. unfold getq. rewrite (sv_queues _ _ V). reflexivity. Qed.

Lemma sumf_map {A B} (g : A -> B) (f : B -> nat) l : sumf f (map g l) = sumf (fun a => f (g a)) l.
Proof. unfold sumf. rewrite map_map. reflexivity. Qed.

Lemma sv_tok_t st st' i : same_view st st' -> tok_t st' i = tok_t st i.
Proof.
  intros V. unfold tok_t.
  assert (E : forall s ord, sumf (fun th => ttok ord (t_lab th) i) (ps_threads s) =
                             sumf (fun p => ttok ord (fst p) i) (map tview (ps_threads s))).
  { intros s ord. rewrite sumf_map. reflexivity. }
  rewrite !E, (sv_threads _ _ V).
  apply sumf_ext. intros a _. unfold ord_of.
  (* ttok only applies ord to queue numbers *)
  assert (O : forall q, q_ordered (getq st' q) = q_ordered (getq st q)) by (intros q; rewrite (sv_getq _ _ q V); reflexivity).
  destruct (fst a); cbn [ttok]; rewrite ?O; reflexivity.
Qed.

Lemma sv_tokens st st' i : same_view st st' -> tokens st' i = tokens st i.
Proof.
  intros V. unfold tokens. rewrite (sv_tok_t _ _ i V), (sv_getw _ _ i V).
  unfold tok_idle, tok_q. rewrite (sv_idle _ _ V), (sv_queues _ _ V). reflexivity.
Qed.

Lemma sv_lab_flight st st' l : same_view st st' -> lab_flight (ord_of st') l = lab_flight (ord_of st) l.
Proof.
  intros V. unfold ord_of. destruct l; cbn [lab_flight]; rewrite ?(sv_getq _ _ _ V); reflexivity.
Qed.

Lemma sv_thread_ok st st' x th th' : same_view st st' -> tview th' = tview th ->
  thread_ok st x th -> thread_ok st' x th'.
Proof.
  intros V E [A1 A2 A3 A4 A5 A6 A7 A8 A9 A10].
  assert (El : t_lab th' = t_lab th) by (unfold tview in E; congruence).
  assert (Eq : lab_queued th' = lab_queued th) by (unfold lab_queued; unfold tview in E; inversion E; reflexivity).
  constructor; rewrite ?El, ?Eq, ?(sv_workers _ _ V), ?(sv_queues _ _ V), ?(sv_prog _ _ V).
  - intros i. rewrite (sv_getw _ _ _ V). apply A1.
  - intros i. rewrite (sv_getw _ _ _ V), (sv_lab_flight _ _ _ V). apply A2.
  - intros i. rewrite (sv_getw _ _ _ V). apply A3.
  - exact A4.
  - exact A5.
  - intros i q. rewrite (sv_getq _ _ _ V). apply A6.
  - intros j. rewrite (sv_getq _ _ _ V). apply A7.
  - exact A8.
  - intros q. rewrite (sv_getq _ _ _ V). apply A9.
  - exact A10.
Qed.

Lemma inv2_view st st' : same_view st st' -> Inv2 st -> Inv2 st'.
Proof.
  intros V I. constructor.
  - intros i. rewrite (sv_tokens _ _ i V), (sv_workers _ _ V). apply I.
  - intros i. rewrite (sv_idle _ _ V), (sv_getw _ _ _ V). apply I.
  - intros q i. rewrite (sv_getq _ _ _ V), (sv_getw _ _ _ V). apply I.
  - intros i. rewrite (sv_workers _ _ V), (sv_getw _ _ _ V), (sv_len _ _ V), (sv_lab _ _ _ V). apply I.
  - intros i q. rewrite (sv_getw _ _ _ V), (sv_queues _ _ V). apply I.
  - rewrite (sv_queues _ _ V), (sv_prog _ _ V). apply I.
  - intros q. rewrite (sv_getq _ _ _ V), (sv_prog _ _ V). apply I.
  - rewrite (sv_abort _ _ V). apply I.
  - intros x. apply (sv_thread_ok st st' x (gett st x)); [exact V|apply sv_tview; exact V|apply I].
Qed.

(* ---------- components of a step that do not change the view ---------- *)
Lemma map_upd_nth_same {A B} (f : A -> B) l u x d : f x = f (nth u l d) -> map f (upd_nth l u x) = map f l.
Proof.
  unfold upd_nth. revert u. induction l as [|a l IH]; intros [|u] H; cbn [firstn skipn app map nth] in *; try reflexivity.
  - congruence.
  - f_equal. apply IH. exact H.
Qed.

Lemma set_thread_same_view st u tw : tview tw = tview (gett st u) -> same_view st (set_thread st u tw).
Proof.
  intros H. constructor; try reflexivity. unfold set_thread. cbn [ps_threads].
  apply (map_upd_nth_same tview _ u tw dummy_t). exact H.
Qed.

Lemma set_owner_view st m o : same_view st (set_owner st m o).
Proof. constructor; reflexivity. Qed.

Lemma blocked_obj st u : Inv1 st -> t_blocked (gett st u) <> None -> t_wmutex (gett st u) = t_obj (gett st u).
Proof.
  intros I Hb. pose proof (i1_shape _ I u) as Hs. unfold shape in Hs.
  destruct (t_blocked (gett st u)); [|congruence].
  apply andb_prop in Hs. destruct Hs as [_ Hs]. apply andb_prop in Hs. destruct Hs as [_ Hs].
  destruct (obj_eqb_spec (t_wmutex (gett st u)) (t_obj (gett st u))); [assumption|discriminate].
Qed.

Lemma wake_step_view st op wake :
  (forall u, wake = Some u -> op = KSignal -> (u < length (ps_threads st))%nat -> t_wmutex (gett st u) = t_obj (gett st u)) ->
  same_view st (wake_step st op wake).
Proof.
  intros H. unfold wake_step. destruct op; try apply same_view_refl. destruct wake as [u|]; [|apply same_view_refl].
  destruct (Nat.lt_ge_cases u (length (ps_threads st))) as [Hu|Hu].
  - apply set_thread_same_view. unfold tview. cbn [t_lab t_obj]. rewrite (H u eq_refl eq_refl Hu). reflexivity.
  - unfold set_thread. rewrite upd_nth_oob by exact Hu. constructor; reflexivity.
Qed.

Lemma stash_deliver_view st t lab stash : same_view st (snd (stash_deliver st t lab stash)).
Proof.
  destruct lab; cbn [stash_deliver snd]; try apply same_view_refl.
  - destruct (wk_running _); [apply same_view_refl|]. destruct (wk_res _); apply same_view_refl.
  - destruct (find _ stash) as [[a r0]|]; [constructor; reflexivity|apply same_view_refl].
Qed.

Lemma pspurious_view st t st' : Inv1 st -> pspurious st t = Some st' -> same_view st st'.
Proof.
  intros I E. unfold pspurious in E. destruct (t_blocked (gett st t)) eqn:Eb; [|discriminate].
  inversion E; subst. apply set_thread_same_view. unfold tview. cbn [t_lab t_obj].
  rewrite (blocked_obj st t I) by congruence. reflexivity.
Qed.

(* ---------- thread tokens under updates ---------- *)
Definition tokt (ord : nat -> bool) (ths : list thread) (i : nat) : nat := sumf (fun th => ttok ord (t_lab th) i) ths.
Lemma tok_t_eq st i : tok_t st i = tokt (ord_of st) (ps_threads st) i.
Proof. reflexivity. Qed.

Lemma ttok_ext ord ord' l i : (forall q, ord q = ord' q) -> ttok ord l i = ttok ord' l i.
Proof. intros H. destruct l; cbn [ttok]; rewrite ?H; reflexivity. Qed.
Lemma tokt_ext ord ord' ths i : (forall q, ord q = ord' q) -> tokt ord ths i = tokt ord' ths i.
Proof. intros H. unfold tokt. apply sumf_ext. intros a _. apply ttok_ext. exact H. Qed.
Lemma lab_flight_ext ord ord' l : (forall q, ord q = ord' q) -> lab_flight ord l = lab_flight ord' l.
Proof. intros H. destruct l; cbn [lab_flight]; rewrite ?H; reflexivity. Qed.

Lemma tokt_upd ord ths t th' i : (t < length ths)%nat ->
  (tokt ord (upd_nth ths t th') i + ttok ord (t_lab (nth t ths dummy_t)) i = tokt ord ths i + ttok ord (t_lab th') i)%nat.
Proof. intros H. unfold tokt. apply (sumf_upd_nth (fun th => ttok ord (t_lab th) i)). exact H. Qed.
Lemma tokt_app ord ths new i : tokt ord (ths ++ new) i = (tokt ord ths i + tokt ord new i)%nat.
Proof. apply sumf_app. Qed.

(* the data a thread_ok refers to *)
Lemma thread_ok_data st st' x th :
  ps_workers st' = ps_workers st -> ps_queues st' = ps_queues st -> ps_prog st' = ps_prog st ->
  thread_ok st x th -> thread_ok st' x th.
Proof.
  intros Ew Eq Ep [A1 A2 A3 A4 A5 A6 A7 A8 A9 A10].
  assert (Gw : forall i, getw st' i = getw st i) by (intros; unfold getw; rewrite Ew; reflexivity).
  assert (Gq : forall i, getq st' i = getq st i) by (intros; unfold getq; rewrite Eq; reflexivity).
  assert (Go : forall l, lab_flight (ord_of st') l = lab_flight (ord_of st) l).
  { intros l. apply lab_flight_ext. intros q. unfold ord_of. rewrite Gq. reflexivity. }
  constructor; rewrite ?Ew, ?Eq, ?Ep.
  - intros i. rewrite Gw. apply A1.
  - intros i. rewrite Gw, Go. apply A2.
  - intros i. rewrite Gw. apply A3.
  - exact A4.
  - exact A5.
  - intros i q. rewrite Gq. apply A6.
  - intros j. rewrite Gq. apply A7.
  - exact A8.
  - intros q. rewrite Gq. apply A9.
  - exact A10.
Qed.

(* ---------- relabel: only thread t's record changes ---------- *)
Lemma inv2_relabel st t th' :
  Inv2 st -> (t < length (ps_threads st))%nat ->
  (forall i, ttok (ord_of st) (t_lab th') i = ttok (ord_of st) (t_lab (gett st t)) i) ->
  thread_ok st t th' ->
  (forall i, (i < length (ps_workers st))%nat -> wk_tid (getw st i) = t -> wphase_ok i (getw st i) (t_lab th') = true) ->
  Inv2 (set_thread st t th').
Proof.
  intros I Ht Htok Hok Hwp.
  assert (G : forall x, gett (set_thread st t th') x = if Nat.eqb x t then th' else gett st x).
  { intros x. rewrite gett_set_thread. destruct (Nat.eqb_spec x t); cbn [andb]; [|reflexivity].
    destruct (Nat.ltb_spec t (length (ps_threads st))); [reflexivity|lia]. }
  constructor.
  - intros i. change (length (ps_workers (set_thread st t th'))) with (length (ps_workers st)).
    rewrite <- (i2_tokens _ I i). unfold tokens. f_equal. f_equal.
    rewrite !tok_t_eq. change (ord_of (set_thread st t th')) with (ord_of st).
    unfold set_thread. cbn [ps_threads].
    pose proof (tokt_upd (ord_of st) (ps_threads st) t th' i Ht) as E. fold (gett st t) in E.
    rewrite (Htok i) in E. lia.
  - apply (i2_idle _ I).
  - apply (i2_listed _ I).
  - intros i Hi. change (getw (set_thread st t th') i) with (getw st i).
    destruct (i2_wthread _ I i Hi) as [H1 H2]. split.
    + unfold set_thread. cbn [ps_threads]. rewrite upd_nth_length. exact H1.
    + rewrite G. destruct (Nat.eqb_spec (wk_tid (getw st i)) t) as [E|E]; [apply Hwp; assumption|exact H2].
  - apply (i2_rq _ I).
  - apply (i2_prog _ I).
  - apply (i2_finq _ I).
  - apply (i2_noabort _ I).
  - intros x. rewrite G. destruct (Nat.eqb_spec x t) as [->|Hne].
    + apply (thread_ok_data st); try reflexivity. exact Hok.
    + apply (thread_ok_data st); try reflexivity. apply (i2_threads _ I).
Qed.

(* ---------- transport of thread_ok under data updates ---------- *)
Lemma getw_upd st st' i0 w' i : ps_workers st' = upd_nth (ps_workers st) i0 w' -> (i0 < length (ps_workers st))%nat ->
  getw st' i = if Nat.eqb i i0 then w' else getw st i.
Proof.
  intros E H. unfold getw. rewrite E, nth_upd_nth. destruct (Nat.eqb_spec i i0); cbn [andb]; [|reflexivity].
  destruct (Nat.ltb_spec i0 (length (ps_workers st))); [reflexivity|lia].
Qed.
Lemma getq_upd st st' q0 qq' q : ps_queues st' = upd_nth (ps_queues st) q0 qq' -> (q0 < length (ps_queues st))%nat ->
  getq st' q = if Nat.eqb q q0 then qq' else getq st q.
Proof.
  intros E H. unfold getq. rewrite E, nth_upd_nth. destruct (Nat.eqb_spec q q0); cbn [andb]; [|reflexivity].
  destruct (Nat.ltb_spec q0 (length (ps_queues st))); [reflexivity|lia].
Qed.

Lemma thread_ok_upd_worker st st' x th i0 w' :
  ps_workers st' = upd_nth (ps_workers st) i0 w' -> ps_queues st' = ps_queues st -> ps_prog st' = ps_prog st ->
  (i0 < length (ps_workers st))%nat ->
  wk_tid w' = wk_tid (getw st i0) ->
  (lab_free (t_lab th) = Some i0 -> free_w w' = true) ->
  (lab_flight (ord_of st) (t_lab th) = Some i0 -> flight_w w' = true) ->
  thread_ok st x th -> thread_ok st' x th.
Proof.
  intros Ew Eq Ep Hi Htid Hfree Hfl [A1 A2 A3 A4 A5 A6 A7 A8 A9 A10].
  assert (Gw : forall i, getw st' i = if Nat.eqb i i0 then w' else getw st i) by (intros; apply getw_upd; assumption).
  assert (Gq : forall i, getq st' i = getq st i) by (intros; unfold getq; rewrite Eq; reflexivity).
  assert (Go : forall l, lab_flight (ord_of st') l = lab_flight (ord_of st) l).
  { intros l. apply lab_flight_ext. intros q. unfold ord_of. rewrite Gq. reflexivity. }
  assert (Lw : length (ps_workers st') = length (ps_workers st)) by (rewrite Ew; apply upd_nth_length).
  constructor; rewrite ?Lw, ?Eq, ?Ep.
  - intros i H. rewrite Gw. destruct (Nat.eqb_spec i i0) as [->|]; [apply Hfree; exact H|apply A1; exact H].
  - intros i H. rewrite Go in H. rewrite Gw. destruct (Nat.eqb_spec i i0) as [->|]; [apply Hfl; exact H|apply A2; exact H].
  - intros i H. rewrite Gw. destruct (Nat.eqb_spec i i0) as [->|]; [rewrite Htid|]; apply A3; exact H.
  - exact A4.
  - exact A5.
  - intros i q. rewrite Gq. apply A6.
  - intros j. rewrite Gq. apply A7.
  - exact A8.
  - intros q. rewrite Gq. apply A9.
  - exact A10.
Qed.

Lemma thread_ok_upd_queue st st' x th q0 qq' :
  ps_queues st' = upd_nth (ps_queues st) q0 qq' -> ps_workers st' = ps_workers st -> ps_prog st' = ps_prog st ->
  (q0 < length (ps_queues st))%nat ->
  q_ordered qq' = q_ordered (getq st q0) ->
  (forall i, lab_queued th = Some (i, q0) -> In i (q_list qq')) ->
  (t_lab th = H3 q0 None -> q_list qq' = [] /\ q_finished qq' = true /\ q_nthreads qq' = 0%N) ->
  (lab_dispatch (t_lab th) = Some q0 -> q_finished qq' = false) ->
  thread_ok st x th -> thread_ok st' x th.
Proof.
  intros Eq Ew Ep Hq Hord Hqd Hh3 Hdp [A1 A2 A3 A4 A5 A6 A7 A8 A9 A10].
  assert (Gq : forall q, getq st' q = if Nat.eqb q q0 then qq' else getq st q) by (intros; apply getq_upd; assumption).
  assert (Gw : forall i, getw st' i = getw st i) by (intros; unfold getw; rewrite Ew; reflexivity).
  assert (Go : forall l, lab_flight (ord_of st') l = lab_flight (ord_of st) l).
  { intros l. apply lab_flight_ext. intros q. unfold ord_of. rewrite Gq.
    destruct (Nat.eqb_spec q q0) as [->|]; [exact Hord|reflexivity]. }
  assert (Lq : length (ps_queues st') = length (ps_queues st)) by (rewrite Eq; apply upd_nth_length).
  constructor; rewrite ?Lq, ?Ew, ?Ep.
  - intros i. rewrite Gw. apply A1.
  - intros i. rewrite Gw, Go. apply A2.
  - intros i. rewrite Gw. apply A3.
  - exact A4.
  - exact A5.
  - intros i q H. rewrite Gq. destruct (Nat.eqb_spec q q0) as [->|]; [apply Hqd; exact H|apply A6; exact H].
  - intros j H. rewrite Gq. destruct (Nat.eqb_spec j q0) as [->|]; [apply Hh3; exact H|apply A7; exact H].
  - exact A8.
  - intros q H. rewrite Gq. destruct (Nat.eqb_spec q q0) as [->|]; [|apply A9; exact H].
    split; [exact Hq|apply Hdp; exact H].
  - exact A10.
Qed.

(* ---------- a worker's fields change, together with thread t's record ---------- *)
Lemma gett_upd st st' t th' x : ps_threads st' = upd_nth (ps_threads st) t th' -> (t < length (ps_threads st))%nat ->
  gett st' x = if Nat.eqb x t then th' else gett st x.
Proof.
  intros E H. unfold gett. rewrite E, nth_upd_nth. destruct (Nat.eqb_spec x t); cbn [andb]; [|reflexivity].
  destruct (Nat.ltb_spec t (length (ps_threads st))); [reflexivity|lia].
Qed.

Lemma inv2_worker st st' t th' i0 w' :
  Inv2 st -> (t < length (ps_threads st))%nat -> (i0 < length (ps_workers st))%nat ->
  ps_threads st' = upd_nth (ps_threads st) t th' -> ps_idle st' = ps_idle st ->
  ps_workers st' = upd_nth (ps_workers st) i0 w' -> ps_queues st' = ps_queues st ->
  ps_prog st' = ps_prog st -> ps_abort st' = ps_abort st ->
  wk_tid w' = wk_tid (getw st i0) ->
  (ttok (ord_of st) (t_lab th') i0 + ftok w' = ttok (ord_of st) (t_lab (gett st t)) i0 + ftok (getw st i0))%nat ->
  (forall i, i <> i0 -> ttok (ord_of st) (t_lab th') i = ttok (ord_of st) (t_lab (gett st t)) i) ->
  (In i0 (ps_idle st) -> free_w w' = true) ->
  (forall x, x <> t -> lab_free (t_lab (gett st x)) = Some i0 -> free_w w' = true) ->
  (forall x, x <> t -> lab_flight (ord_of st) (t_lab (gett st x)) = Some i0 -> flight_w w' = true) ->
  (forall q, In i0 (q_list (getq st q)) -> flight_w w' = true) ->
  thread_ok st' t th' ->
  wphase_ok i0 w' (t_lab (if Nat.eqb (wk_tid w') t then th' else gett st (wk_tid w'))) = true ->
  (forall i, (i < length (ps_workers st))%nat -> i <> i0 -> wk_tid (getw st i) = t -> wphase_ok i (getw st i) (t_lab th') = true) ->
  (forall q, wk_rq w' = Some q -> (q < length (ps_queues st))%nat) ->
  Inv2 st'.
Proof.
  intros I Ht Hi0 Eth Eid Ew Eq Ep Ea Htid Hbal Hoth Hidle Hfree Hflight Hlist Hok Hwp0 Hwp Hrq.
  assert (G : forall x, gett st' x = if Nat.eqb x t then th' else gett st x) by (intros; apply gett_upd; assumption).
  assert (Gw : forall i, getw st' i = if Nat.eqb i i0 then w' else getw st i) by (intros; apply getw_upd; assumption).
  assert (Gq : forall q, getq st' q = getq st q) by (intros; unfold getq; rewrite Eq; reflexivity).
  assert (Lw : length (ps_workers st') = length (ps_workers st)) by (rewrite Ew; apply upd_nth_length).
  assert (Lt : length (ps_threads st') = length (ps_threads st)) by (rewrite Eth; apply upd_nth_length).
  assert (Eo : forall q, ord_of st' q = ord_of st q) by (intros q; unfold ord_of; rewrite Gq; reflexivity).
  constructor.
  - intros i. rewrite Lw, <- (i2_tokens _ I i). unfold tokens, tok_idle, tok_q. rewrite Eid, Eq.
    rewrite !tok_t_eq, (tokt_ext _ _ _ _ Eo), Eth, Gw.
    pose proof (tokt_upd (ord_of st) (ps_threads st) t th' i Ht) as E. fold (gett st t) in E.
    destruct (Nat.eqb_spec i i0) as [->|Hne]; [lia|]. rewrite (Hoth i Hne) in E. lia.
  - intros i. rewrite Eid, Gw. intros H. destruct (Nat.eqb_spec i i0) as [->|]; [apply Hidle; exact H|apply (i2_idle _ I); exact H].
  - intros q i. rewrite Gq, Gw. intros H.
    destruct (Nat.eqb_spec i i0) as [->|]; [apply (Hlist q); exact H|apply (i2_listed _ I q); exact H].
  - intros i. rewrite Lw, Lt, Gw. intros Hi. destruct (Nat.eqb_spec i i0) as [->|Hne].
    + rewrite Htid. split; [apply (i2_wthread _ I i0 Hi0)|]. rewrite <- Htid, G. exact Hwp0.
    + destruct (i2_wthread _ I i Hi) as [H1 H2]. split; [exact H1|]. rewrite G.
      destruct (Nat.eqb_spec (wk_tid (getw st i)) t) as [E|E]; [apply Hwp; assumption|exact H2].
  - intros i q. rewrite Gw, Eq. destruct (Nat.eqb_spec i i0) as [->|]; [apply Hrq|apply (i2_rq _ I)].
  - rewrite Eq, Ep. apply (i2_prog _ I).
  - intros q. rewrite Gq, Ep. apply (i2_finq _ I).
  - rewrite Ea. apply (i2_noabort _ I).
  - intros x. rewrite G. destruct (Nat.eqb_spec x t) as [->|Hne]; [exact Hok|].
    apply (thread_ok_upd_worker st st' x (gett st x) i0 w' Ew Eq Ep Hi0 Htid).
    + apply Hfree; exact Hne.
    + apply Hflight; exact Hne.
    + apply (i2_threads _ I).
Qed.

(* ---------- a queue changes, together with thread t's record ---------- *)
Lemma inv2_queue st st' t th' q0 qq' :
  Inv2 st -> (t < length (ps_threads st))%nat -> (q0 < length (ps_queues st))%nat ->
  ps_threads st' = upd_nth (ps_threads st) t th' -> ps_idle st' = ps_idle st ->
  ps_workers st' = ps_workers st -> ps_queues st' = upd_nth (ps_queues st) q0 qq' ->
  ps_prog st' = ps_prog st -> ps_abort st' = ps_abort st ->
  q_ordered qq' = q_ordered (getq st q0) ->
  (forall i, ttok (ord_of st) (t_lab th') i + count_occ Nat.eq_dec (q_list qq') i =
             ttok (ord_of st) (t_lab (gett st t)) i + count_occ Nat.eq_dec (q_list (getq st q0)) i)%nat ->
  (forall i, In i (q_list qq') -> flight_w (getw st i) = true) ->
  (forall x i, x <> t -> lab_queued (gett st x) = Some (i, q0) -> In i (q_list qq')) ->
  (forall x, x <> t -> t_lab (gett st x) = H3 q0 None -> q_list qq' = [] /\ q_finished qq' = true /\ q_nthreads qq' = 0%N) ->
  (forall x, x <> t -> lab_dispatch (t_lab (gett st x)) = Some q0 -> q_finished qq' = false) ->
  (q_finished qq' = true -> no_dispatch q0 (ps_prog st) = true) ->
  thread_ok st' t th' ->
  (forall i, (i < length (ps_workers st))%nat -> wk_tid (getw st i) = t -> wphase_ok i (getw st i) (t_lab th') = true) ->
  Inv2 st'.
Proof.
  intros I Ht Hq0 Eth Eid Ew Eq Ep Ea Hord Hbal Hfl Hqd Hh3 Hdp Hfin Hok Hwp.
  assert (G : forall x, gett st' x = if Nat.eqb x t then th' else gett st x) by (intros; apply gett_upd; assumption).
  assert (Gq : forall q, getq st' q = if Nat.eqb q q0 then qq' else getq st q) by (intros; apply getq_upd; assumption).
  assert (Gw : forall i, getw st' i = getw st i) by (intros; unfold getw; rewrite Ew; reflexivity).
  assert (Lq : length (ps_queues st') = length (ps_queues st)) by (rewrite Eq; apply upd_nth_length).
  assert (Lt : length (ps_threads st') = length (ps_threads st)) by (rewrite Eth; apply upd_nth_length).
  assert (Eo : forall q, ord_of st' q = ord_of st q).
  { intros q; unfold ord_of; rewrite Gq. destruct (Nat.eqb_spec q q0) as [->|]; [exact Hord|reflexivity]. }
  constructor.
  - intros i. rewrite Ew, <- (i2_tokens _ I i). unfold tokens, tok_idle, tok_q. rewrite Eid, Eq, Gw.
    rewrite !tok_t_eq, (tokt_ext _ _ _ _ Eo), Eth.
    pose proof (tokt_upd (ord_of st) (ps_threads st) t th' i Ht) as E. fold (gett st t) in E.
    pose proof (sumf_upd_nth (fun qq => count_occ Nat.eq_dec (q_list qq) i) (ps_queues st) q0 qq' dummy_q Hq0) as E2.
    fold (getq st q0) in E2. cbv beta in E2. specialize (Hbal i). lia.
  - intros i. rewrite Eid, Gw. apply (i2_idle _ I).
  - intros q i. rewrite Gq, Gw. destruct (Nat.eqb_spec q q0) as [->|]; [apply Hfl|apply (i2_listed _ I)].
  - intros i. rewrite Ew, Lt, Gw. intros Hi. destruct (i2_wthread _ I i Hi) as [H1 H2]. split; [exact H1|]. rewrite G.
    destruct (Nat.eqb_spec (wk_tid (getw st i)) t) as [E|E]; [apply Hwp; assumption|exact H2].
  - intros i q. rewrite Gw, Lq. apply (i2_rq _ I).
  - rewrite Lq, Ep. apply (i2_prog _ I).
  - intros q. rewrite Gq, Ep. destruct (Nat.eqb_spec q q0) as [->|]; [exact Hfin|apply (i2_finq _ I)].
  - rewrite Ea. apply (i2_noabort _ I).
  - intros x. rewrite G. destruct (Nat.eqb_spec x t) as [->|Hne]; [exact Hok|].
    apply (thread_ok_upd_queue st st' x (gett st x) q0 qq' Eq Ew Ep Hq0 Hord).
    + intros i. apply Hqd; exact Hne.
    + apply Hh3; exact Hne.
    + apply Hdp; exact Hne.
    + apply (i2_threads _ I).
Qed.

(* ---------- the idle list changes, together with thread t's record ---------- *)
Lemma inv2_idle st st' t th' :
  Inv2 st -> (t < length (ps_threads st))%nat ->
  ps_threads st' = upd_nth (ps_threads st) t th' ->
  ps_workers st' = ps_workers st -> ps_queues st' = ps_queues st ->
  ps_prog st' = ps_prog st -> ps_abort st' = ps_abort st ->
  (forall i, ttok (ord_of st) (t_lab th') i + count_occ Nat.eq_dec (ps_idle st') i =
             ttok (ord_of st) (t_lab (gett st t)) i + count_occ Nat.eq_dec (ps_idle st) i)%nat ->
  (forall i, In i (ps_idle st') -> free_w (getw st i) = true) ->
  thread_ok st t th' ->
  (forall i, (i < length (ps_workers st))%nat -> wk_tid (getw st i) = t -> wphase_ok i (getw st i) (t_lab th') = true) ->
  Inv2 st'.
Proof.
  intros I Ht Eth Ew Eq Ep Ea Hbal Hfree Hok Hwp.
  assert (G : forall x, gett st' x = if Nat.eqb x t then th' else gett st x) by (intros; apply gett_upd; assumption).
  assert (Gq : forall q, getq st' q = getq st q) by (intros; unfold getq; rewrite Eq; reflexivity).
  assert (Gw : forall i, getw st' i = getw st i) by (intros; unfold getw; rewrite Ew; reflexivity).
  assert (Lt : length (ps_threads st') = length (ps_threads st)) by (rewrite Eth; apply upd_nth_length).
  assert (Eo : forall q, ord_of st' q = ord_of st q) by (intros q; unfold ord_of; rewrite Gq; reflexivity).
  constructor.
  - intros i. rewrite Ew, <- (i2_tokens _ I i). unfold tokens, tok_idle, tok_q. rewrite Eq, Gw.
    rewrite !tok_t_eq, (tokt_ext _ _ _ _ Eo), Eth.
    pose proof (tokt_upd (ord_of st) (ps_threads st) t th' i Ht) as E. fold (gett st t) in E.
    specialize (Hbal i). lia.
  - intros i. rewrite Gw. apply Hfree.
  - intros q i. rewrite Gq, Gw. apply (i2_listed _ I).
  - intros i. rewrite Ew, Lt, Gw. intros Hi. destruct (i2_wthread _ I i Hi) as [H1 H2]. split; [exact H1|]. rewrite G.
    destruct (Nat.eqb_spec (wk_tid (getw st i)) t) as [E|E]; [apply Hwp; assumption|exact H2].
  - intros i q. rewrite Gw, Eq. apply (i2_rq _ I).
  - rewrite Eq, Ep. apply (i2_prog _ I).
  - intros q. rewrite Gq, Ep. apply (i2_finq _ I).
  - rewrite Ea. apply (i2_noabort _ I).
  - intros x. rewrite G. destruct (Nat.eqb_spec x t) as [->|Hne].
    + apply (thread_ok_data st); assumption.
    + apply (thread_ok_data st); try assumption. apply (i2_threads _ I).
Qed.

(* ---------- the caller fetches a command (no new handler) ---------- *)
Lemma no_dispatch_tl q c r : no_dispatch q (c :: r) = true -> no_dispatch q r = true.
Proof. unfold no_dispatch. cbn [forallb]. intros H. apply andb_prop in H. tauto. Qed.

Lemma thread_ok_prog st st' x th c :
  ps_workers st' = ps_workers st -> ps_queues st' = ps_queues st -> ps_prog st = c :: ps_prog st' ->
  thread_ok st x th -> thread_ok st' x th.
Proof.
  intros Ew Eq Ep [A1 A2 A3 A4 A5 A6 A7 A8 A9 A10].
  assert (Gw : forall i, getw st' i = getw st i) by (intros; unfold getw; rewrite Ew; reflexivity).
  assert (Gq : forall i, getq st' i = getq st i) by (intros; unfold getq; rewrite Eq; reflexivity).
  assert (Go : forall l, lab_flight (ord_of st') l = lab_flight (ord_of st) l).
  { intros l. apply lab_flight_ext. intros q. unfold ord_of. rewrite Gq. reflexivity. }
  constructor; rewrite ?Ew, ?Eq.
  - intros i. rewrite Gw. apply A1.
  - intros i. rewrite Gw, Go. apply A2.
  - intros i. rewrite Gw. apply A3.
  - exact A4.
  - exact A5.
  - intros i q. rewrite Gq. apply A6.
  - intros j. rewrite Gq. apply A7.
  - exact A8.
  - intros q. rewrite Gq. apply A9.
  - intros q H. apply (no_dispatch_tl q c). rewrite <- Ep. apply A10. exact H.
Qed.

Lemma inv2_prog st st' t th' c :
  Inv2 st -> (t < length (ps_threads st))%nat ->
  ps_threads st' = upd_nth (ps_threads st) t th' -> ps_idle st' = ps_idle st ->
  ps_workers st' = ps_workers st -> ps_queues st' = ps_queues st ->
  ps_prog st = c :: ps_prog st' -> ps_abort st' = ps_abort st ->
  (forall i, ttok (ord_of st) (t_lab th') i = ttok (ord_of st) (t_lab (gett st t)) i) ->
  pwf (length (ps_queues st)) (ps_prog st') = true ->
  thread_ok st' t th' ->
  (forall i, (i < length (ps_workers st))%nat -> wk_tid (getw st i) = t -> wphase_ok i (getw st i) (t_lab th') = true) ->
  Inv2 st'.
Proof.
  intros I Ht Eth Eid Ew Eq Ep Ea Htok Hpwf Hok Hwp.
  assert (G : forall x, gett st' x = if Nat.eqb x t then th' else gett st x) by (intros; apply gett_upd; assumption).
  assert (Gq : forall q, getq st' q = getq st q) by (intros; unfold getq; rewrite Eq; reflexivity).
  assert (Gw : forall i, getw st' i = getw st i) by (intros; unfold getw; rewrite Ew; reflexivity).
  assert (Lt : length (ps_threads st') = length (ps_threads st)) by (rewrite Eth; apply upd_nth_length).
  assert (Eo : forall q, ord_of st' q = ord_of st q) by (intros q; unfold ord_of; rewrite Gq; reflexivity).
  constructor.
  - intros i. rewrite Ew, <- (i2_tokens _ I i). unfold tokens, tok_idle, tok_q. rewrite Eid, Eq, Gw.
    rewrite !tok_t_eq, (tokt_ext _ _ _ _ Eo), Eth.
    pose proof (tokt_upd (ord_of st) (ps_threads st) t th' i Ht) as E. fold (gett st t) in E.
    rewrite (Htok i) in E. lia.
  - intros i. rewrite Eid, Gw. apply (i2_idle _ I).
  - intros q i. rewrite Gq, Gw. apply (i2_listed _ I).
  - intros i. rewrite Ew, Lt, Gw. intros Hi. destruct (i2_wthread _ I i Hi) as [H1 H2]. split; [exact H1|]. rewrite G.
    destruct (Nat.eqb_spec (wk_tid (getw st i)) t) as [E|E]; [apply Hwp; assumption|exact H2].
  - intros i q. rewrite Gw, Eq. apply (i2_rq _ I).
  - rewrite Eq. exact Hpwf.
  - intros q. rewrite Gq. intros H. apply (no_dispatch_tl q c). rewrite <- Ep. apply (i2_finq _ I). exact H.
  - rewrite Ea. apply (i2_noabort _ I).
  - intros x. rewrite G. destruct (Nat.eqb_spec x t) as [->|Hne]; [exact Hok|].
    apply (thread_ok_prog st st' x (gett st x) c Ew Eq Ep). apply (i2_threads _ I).
Qed.

(* ---------- a new worker (D3, fresh) ---------- *)
Lemma getw_app st st' w0 i : ps_workers st' = ps_workers st ++ [w0] ->
  getw st' i = if Nat.ltb i (length (ps_workers st)) then getw st i else if Nat.eqb i (length (ps_workers st)) then w0 else dummy_w.
Proof. intros E. unfold getw. rewrite E. apply nth_app_snoc. Qed.

Lemma flight_lt st i : flight_w (getw st i) = true -> (i < length (ps_workers st))%nat.
Proof.
  intros H. destruct (Nat.lt_ge_cases i (length (ps_workers st))) as [|Hge]; [assumption|].
  rewrite (getw_oob _ _ Hge) in H. discriminate.
Qed.

Lemma thread_ok_app_worker st st' x th w0 :
  ps_workers st' = ps_workers st ++ [w0] -> ps_queues st' = ps_queues st -> ps_prog st' = ps_prog st ->
  free_w w0 = true ->
  (forall q i, t_lab th <> D3 q i true) ->
  thread_ok st x th -> thread_ok st' x th.
Proof.
  intros Ew Eq Ep Hf Hn [A1 A2 A3 A4 A5 A6 A7 A8 A9 A10].
  assert (Gw := fun i => getw_app st st' w0 i Ew).
  assert (Gq : forall i, getq st' i = getq st i) by (intros; unfold getq; rewrite Eq; reflexivity).
  assert (Go : forall l, lab_flight (ord_of st') l = lab_flight (ord_of st) l).
  { intros l. apply lab_flight_ext. intros q. unfold ord_of. rewrite Gq. reflexivity. }
  assert (Lw : length (ps_workers st') = S (length (ps_workers st))) by (rewrite Ew, app_length; cbn; lia).
  constructor; rewrite ?Lw, ?Eq, ?Ep.
  - intros i H. rewrite Gw. destruct (Nat.ltb_spec i (length (ps_workers st))); [apply A1; exact H|].
    destruct (Nat.eqb i (length (ps_workers st))); [exact Hf|reflexivity].
  - intros i H. rewrite Go in H. pose proof (A2 i H) as H2. pose proof (flight_lt _ _ H2). rewrite Gw.
    destruct (Nat.ltb_spec i (length (ps_workers st))); [exact H2|lia].
  - intros i H. destruct (A3 i H) as [H1 H2]. rewrite Gw.
    destruct (Nat.ltb_spec i (length (ps_workers st))); [split; [lia|exact H2]|lia].
  - exact A4.
  - exact A5.
  - intros i q. rewrite Gq. apply A6.
  - intros j. rewrite Gq. apply A7.
  - intros q i H. exfalso. exact (Hn q i H).
  - intros q. rewrite Gq. apply A9.
  - exact A10.
Qed.

Lemma wphase_lab i w l : wphase_ok i w l = true -> lab_worker l = Some i \/ l = LDone.
Proof.
  unfold wphase_ok, wloop. destruct (wk_running w), (wk_hasjob w), (wk_res w); try discriminate;
    destruct l; cbn [lab_worker]; rewrite ?andb_false_r, ?orb_false_r; try discriminate;
    intros H; try (right; reflexivity); left;
    repeat match goal with
           | H : _ && _ = true |- _ => apply andb_prop in H; destruct H as [_ H]
           | H : _ || false = true |- _ => rewrite orb_false_r in H
           | H : false || _ = true |- _ => cbn [orb] in H
           end;
    match goal with H : Nat.eqb _ _ = true |- _ => apply Nat.eqb_eq in H; subst; reflexivity end.
Qed.

Lemma gett_app_upd st st' t th' nth x :
  ps_threads st' = upd_nth (ps_threads st ++ [nth]) t th' -> (t < length (ps_threads st))%nat ->
  gett st' x = if Nat.eqb x t then th'
               else if Nat.ltb x (length (ps_threads st)) then gett st x
               else if Nat.eqb x (length (ps_threads st)) then nth else dummy_t.
Proof.
  intros E H. unfold gett. rewrite E, nth_upd_nth, app_length. cbn [length].
  destruct (Nat.eqb_spec x t); cbn [andb].
  - destruct (Nat.ltb_spec t (length (ps_threads st) + 1)); [reflexivity|lia].
  - apply nth_app_snoc.
Qed.

Lemma dummy_thread_ok st x : thread_ok st x dummy_t.
Proof. constructor; cbn; intros; discriminate. Qed.

Lemma inv2_newworker st st' t q th' nth :
  Inv2 st -> (t < length (ps_threads st))%nat ->
  t_lab (gett st t) = D3 q (length (ps_workers st)) true ->
  t_lab th' = D4 q (length (ps_workers st)) -> t_lab nth = W0 (length (ps_workers st)) ->
  ps_threads st' = upd_nth (ps_threads st ++ [nth]) t th' ->
  ps_workers st' = ps_workers st ++ [mkw (length (ps_threads st)) false false 0 None None] ->
  ps_idle st' = ps_idle st -> ps_queues st' = ps_queues st -> ps_prog st' = ps_prog st -> ps_abort st' = ps_abort st ->
  Inv2 st'.
Proof.
  intros I Ht Hold Hnew Hnth Eth Ew Eid Eq Ep Ea.
  set (nw := length (ps_workers st)) in *. set (nt := length (ps_threads st)) in *.
  set (w0 := mkw nt false false 0 None None) in *.
  assert (G := fun x => gett_app_upd st st' t th' nth x Eth Ht). fold nt in G.
  assert (Gw := fun i => getw_app st st' w0 i Ew). fold nw in Gw.
  assert (Gq : forall q, getq st' q = getq st q) by (intros; unfold getq; rewrite Eq; reflexivity).
  assert (Lw : length (ps_workers st') = S nw) by (rewrite Ew, app_length; cbn; lia).
  assert (Lt : length (ps_threads st') = S nt) by (rewrite Eth, upd_nth_length, app_length; cbn; lia).
  assert (Eo : forall q, ord_of st' q = ord_of st q) by (intros q'; unfold ord_of; rewrite Gq; reflexivity).
  pose proof (i2_threads _ I t) as Tt.
  assert (Ht0 : t = 0%nat) by (apply (tk_caller _ _ _ Tt); rewrite Hold; reflexivity).
  assert (Tok : forall i, (tokens st' i + ftok (getw st i) = tokens st i + b2n (Nat.eqb i nw) + ftok (getw st' i))%nat).
  { intros i. unfold tokens, tok_idle, tok_q. rewrite Eid, Eq.
    rewrite !tok_t_eq, (tokt_ext _ _ _ _ Eo), Eth.
    pose proof (tokt_upd (ord_of st) (ps_threads st ++ [nth]) t th' i) as E.
    rewrite app_length in E. specialize (E ltac:(lia)). rewrite app_nth1 in E by exact Ht. fold (gett st t) in E.
    rewrite tokt_app in E. unfold tokt at 3 in E. rewrite sumf_cons, sumf_nil, Hnth, Hold, Hnew in E. cbn [ttok] in E. lia. }
  assert (Lti : forall i, (1 <= tok_idle st i + tok_q st i)%nat -> (i < nw)%nat).
  { intros i H. pose proof (i2_tokens _ I i) as E. fold nw in E. unfold tokens in E.
    destruct (Nat.ltb_spec i nw); [assumption|lia]. }
  constructor.
  - intros i. rewrite Lw. specialize (Tok i). pose proof (i2_tokens _ I i) as E. fold nw in E.
    rewrite Gw in Tok.
    destruct (Nat.ltb_spec i nw); destruct (Nat.ltb_spec i (S nw)); try lia.
    + destruct (Nat.eqb_spec i nw); [lia|]. cbn [b2n] in Tok. lia.
    + assert (i = nw) by lia. subst i. rewrite Nat.eqb_refl in Tok. rewrite (getw_oob st nw) in Tok by (fold nw; lia).
      cbn in Tok. lia.
    + destruct (Nat.eqb_spec i nw); [lia|]. rewrite (getw_oob st i) in Tok by (fold nw; lia). cbn in Tok. lia.
  - intros i. rewrite Eid. intros H. pose proof (Lti i ltac:(pose proof (tok_idle_ge st i H); lia)) as Hl.
    rewrite Gw. destruct (Nat.ltb_spec i nw); [|lia]. apply (i2_idle _ I); exact H.
  - intros q' i. rewrite Gq. intros H. pose proof (i2_listed _ I q' i H) as F. pose proof (flight_lt _ _ F). fold nw in H0.
    rewrite Gw. destruct (Nat.ltb_spec i nw); [exact F|lia].
  - intros i. rewrite Lw, Lt, Gw. intros Hi. destruct (Nat.ltb_spec i nw) as [Hl|Hl].
    + destruct (i2_wthread _ I i Hl) as [H1 H2]. fold nt in H1. split; [lia|]. rewrite G.
      destruct (Nat.eqb_spec (wk_tid (getw st i)) t) as [E|E].
      * exfalso. rewrite E, Hold in H2. apply wphase_lab in H2. destruct H2; discriminate.
      * destruct (Nat.ltb_spec (wk_tid (getw st i)) nt); [exact H2|lia].
    + assert (i = nw) by lia. subst i. rewrite Nat.eqb_refl. cbn [w0 wk_tid]. split; [lia|]. rewrite G.
      destruct (Nat.eqb_spec nt t); [lia|]. destruct (Nat.ltb_spec nt nt); [lia|]. rewrite Nat.eqb_refl, Hnth.
      cbn. rewrite Nat.eqb_refl. reflexivity.
  - intros i q'. rewrite Gw, Eq. destruct (Nat.ltb_spec i nw); [apply (i2_rq _ I)|].
    destruct (Nat.eqb i nw); cbn; discriminate.
  - rewrite Eq, Ep. apply (i2_prog _ I).
  - intros q'. rewrite Gq, Ep. apply (i2_finq _ I).
  - rewrite Ea. apply (i2_noabort _ I).
  - intros x. rewrite G. destruct (Nat.eqb_spec x t) as [->|Hne].
    + constructor; rewrite ?Hnew; cbn [lab_free lab_flight lab_worker caller_lab lab_dispatch]; try (intros; discriminate).
      * intros i H. inversion H; subst i. rewrite Gw. destruct (Nat.ltb_spec nw nw); [lia|]. rewrite Nat.eqb_refl. reflexivity.
      * intros _. exact Ht0.
      * unfold lab_queued. rewrite Hnew. intros; discriminate.
      * intros q' H. inversion H; subst q'. rewrite Eq, Gq. apply (tk_dispatch _ _ _ Tt). rewrite Hold. reflexivity.
    + destruct (Nat.ltb_spec x nt).
      * apply (thread_ok_app_worker st st' x (gett st x) w0 Ew Eq Ep eq_refl).
        -- intros q' i H'. apply Hne. rewrite Ht0. apply (tk_caller _ _ _ (i2_threads _ I x)). rewrite H'. reflexivity.
        -- apply (i2_threads _ I).
      * destruct (Nat.eqb_spec x nt) as [->|]; [|apply dummy_thread_ok].
        constructor; rewrite ?Hnth; cbn [lab_free lab_flight lab_worker caller_lab lab_dispatch]; try (intros; discriminate).
        -- intros i H'. inversion H'; subst i. rewrite Lw, Gw. destruct (Nat.ltb_spec nw nw); [lia|]. rewrite Nat.eqb_refl.
           split; [lia|reflexivity].
        -- unfold lab_queued. rewrite Hnth. intros; discriminate.
Qed.

(* ---------- a new handler (caller_next on NewHandler) ---------- *)
Lemma getq_app st st' q0 q : ps_queues st' = ps_queues st ++ [q0] ->
  getq st' q = if Nat.ltb q (length (ps_queues st)) then getq st q else if Nat.eqb q (length (ps_queues st)) then q0 else dummy_q.
Proof. intros E. unfold getq. rewrite E. apply nth_app_snoc. Qed.

Lemma ttok_ext_lt ord ord' l i n : (forall q, (q < n)%nat -> ord' q = ord q) ->
  (forall q, lab_dispatch l = Some q -> (q < n)%nat) -> ttok ord' l i = ttok ord l i.
Proof.
  intros H D. destruct l; cbn [ttok]; try reflexivity; rewrite (H q); try reflexivity; apply D; reflexivity.
Qed.
Lemma lab_flight_ext_lt ord ord' l n : (forall q, (q < n)%nat -> ord' q = ord q) ->
  (forall q, lab_dispatch l = Some q -> (q < n)%nat) -> lab_flight ord' l = lab_flight ord l.
Proof.
  intros H D. destruct l; cbn [lab_flight]; try reflexivity; rewrite (H q); try reflexivity; apply D; reflexivity.
Qed.

Lemma thread_ok_app_queue st st' x th q0 c :
  ps_queues st' = ps_queues st ++ [q0] -> ps_workers st' = ps_workers st -> ps_prog st = c :: ps_prog st' ->
  q_finished q0 = false -> q_list q0 = [] ->
  thread_ok st x th -> thread_ok st' x th.
Proof.
  intros Eq Ew Ep Hf Hl [A1 A2 A3 A4 A5 A6 A7 A8 A9 A10].
  assert (Gq := fun q => getq_app st st' q0 q Eq).
  assert (Gw : forall i, getw st' i = getw st i) by (intros; unfold getw; rewrite Ew; reflexivity).
  assert (Lq : length (ps_queues st') = S (length (ps_queues st))) by (rewrite Eq, app_length; cbn; lia).
  assert (Go : lab_flight (ord_of st') (t_lab th) = lab_flight (ord_of st) (t_lab th)).
  { apply (lab_flight_ext_lt _ _ _ (length (ps_queues st))).
    - intros q Hq. unfold ord_of. rewrite Gq. destruct (Nat.ltb_spec q (length (ps_queues st))); [reflexivity|lia].
    - intros q H. apply (A9 q H). }
  constructor; rewrite ?Lq, ?Ew.
  - intros i. rewrite Gw. apply A1.
  - intros i. rewrite Gw, Go. apply A2.
  - intros i. rewrite Gw. apply A3.
  - exact A4.
  - intros i q H. specialize (A5 i q H). lia.
  - intros i q H. pose proof (A6 i q H) as H1. pose proof (listed_lt _ _ _ H1). rewrite Gq.
    destruct (Nat.ltb_spec q (length (ps_queues st))); [exact H1|lia].
  - intros j H. destruct (A7 j H) as (H1 & H2 & H3).
    assert (j < length (ps_queues st))%nat.
    { destruct (Nat.lt_ge_cases j (length (ps_queues st))) as [|Hge]; [assumption|]. rewrite (getq_oob _ _ Hge) in H2. discriminate. }
    rewrite Gq. destruct (Nat.ltb_spec j (length (ps_queues st))); [auto|lia].
  - exact A8.
  - intros q H. destruct (A9 q H) as [H1 H2]. rewrite Gq. destruct (Nat.ltb_spec q (length (ps_queues st))); [split; [lia|exact H2]|lia].
  - intros q H. apply (no_dispatch_tl q c). rewrite <- Ep. apply A10. exact H.
Qed.

Lemma sumf_ext_nth {A} (f g : A -> nat) l d : (forall x, (x < length l)%nat -> f (nth x l d) = g (nth x l d)) -> sumf f l = sumf g l.
Proof.
  intros H. apply sumf_ext. intros a Ha. destruct (In_nth l a d Ha) as (x & Hx & <-). apply H. exact Hx.
Qed.

Lemma inv2_newhandler st st' t th' nth ord r :
  Inv2 st -> (t < length (ps_threads st))%nat ->
  caller_lab (t_lab (gett st t)) = true -> (forall i, ttok (ord_of st) (t_lab (gett st t)) i = 0%nat) ->
  t_lab th' = CNext -> t_lab nth = H0 (length (ps_queues st)) ->
  ps_prog st = NewHandler ord :: r -> ps_prog st' = r ->
  ps_threads st' = upd_nth (ps_threads st ++ [nth]) t th' ->
  ps_queues st' = ps_queues st ++ [mkq ord (length (ps_threads st)) false 0 []] ->
  ps_idle st' = ps_idle st -> ps_workers st' = ps_workers st -> ps_abort st' = ps_abort st ->
  Inv2 st'.
Proof.
  intros I Ht Hcl Hold Hnew Hnth Ep Ep' Eth Eq Eid Ew Ea.
  set (nq := length (ps_queues st)) in *. set (nt := length (ps_threads st)) in *.
  set (q0 := mkq ord nt false 0 []) in *.
  assert (Ep2 : ps_prog st = NewHandler ord :: ps_prog st') by (rewrite Ep'; exact Ep).
  assert (G := fun x => gett_app_upd st st' t th' nth x Eth Ht). fold nt in G.
  assert (Gq := fun q => getq_app st st' q0 q Eq). fold nq in Gq.
  assert (Gw : forall i, getw st' i = getw st i) by (intros; unfold getw; rewrite Ew; reflexivity).
  assert (Lq : length (ps_queues st') = S nq) by (rewrite Eq, app_length; cbn; lia).
  assert (Lt : length (ps_threads st') = S nt) by (rewrite Eth, upd_nth_length, app_length; cbn; lia).
  assert (Eo : forall q, (q < nq)%nat -> ord_of st' q = ord_of st q).
  { intros q Hq. unfold ord_of. rewrite Gq. destruct (Nat.ltb_spec q nq); [reflexivity|lia]. }
  pose proof (i2_threads _ I t) as Tt.
  assert (Ht0 : t = 0%nat) by (apply (tk_caller _ _ _ Tt); exact Hcl).
  constructor.
  - intros i. rewrite Ew, <- (i2_tokens _ I i). unfold tokens, tok_idle, tok_q. rewrite Eid, Eq, Gw, sumf_app, sumf_cons, sumf_nil.
    cbn [q0 q_list count_occ]. rewrite !tok_t_eq, Eth.
    assert (E1 : tokt (ord_of st') (ps_threads st) i = tokt (ord_of st) (ps_threads st) i).
    { unfold tokt. apply (sumf_ext_nth _ _ _ dummy_t). intros x Hx.
      apply (ttok_ext_lt _ _ _ _ nq Eo). intros q H. apply (tk_dispatch _ _ _ (i2_threads _ I x) q H). }
    pose proof (tokt_upd (ord_of st') (ps_threads st ++ [nth]) t th' i) as E.
    rewrite app_length in E. specialize (E ltac:(lia)). rewrite app_nth1 in E by exact Ht. fold (gett st t) in E.
    rewrite tokt_app in E. unfold tokt at 3 in E. rewrite sumf_cons, sumf_nil, Hnth, Hnew in E. cbn [ttok] in E.
    assert (E3 : ttok (ord_of st') (t_lab (gett st t)) i = 0%nat).
    { rewrite <- (Hold i). apply (ttok_ext_lt _ _ _ _ nq Eo). intros q H. apply (tk_dispatch _ _ _ Tt q H). }
    lia.
  - intros i. rewrite Eid, Gw. apply (i2_idle _ I).
  - intros q i. rewrite Gq, Gw. destruct (Nat.ltb_spec q nq); [apply (i2_listed _ I)|].
    destruct (Nat.eqb q nq); cbn; tauto.
  - intros i. rewrite Ew, Lt, Gw. intros Hi. destruct (i2_wthread _ I i Hi) as [H1 H2]. fold nt in H1. split; [lia|]. rewrite G.
    destruct (Nat.eqb_spec (wk_tid (getw st i)) t) as [E|E].
    + exfalso. rewrite E in H2. apply wphase_lab in H2. destruct H2 as [H2|H2]; destruct (t_lab (gett st t)); discriminate.
    + destruct (Nat.ltb_spec (wk_tid (getw st i)) nt); [exact H2|lia].
  - intros i q. rewrite Gw, Lq. intros H. pose proof (i2_rq _ I i q H). fold nq in H0. lia.
  - rewrite Lq, Ep'. pose proof (i2_prog _ I) as P. rewrite Ep in P. exact P.
  - intros q. rewrite Gq. intros H. apply (no_dispatch_tl q (NewHandler ord)). rewrite <- Ep2. apply (i2_finq _ I).
    destruct (Nat.ltb_spec q nq); [exact H|]. destruct (Nat.eqb q nq); discriminate.
  - rewrite Ea. apply (i2_noabort _ I).
  - intros x. rewrite G. destruct (Nat.eqb_spec x t) as [->|Hne].
    + constructor; unfold lab_queued; rewrite ?Hnew; cbn [lab_free lab_flight lab_worker caller_lab lab_dispatch]; try (intros; discriminate).
      intros _. exact Ht0.
    + destruct (Nat.ltb_spec x nt).
      * apply (thread_ok_app_queue st st' x (gett st x) q0 (NewHandler ord) Eq Ew Ep2 eq_refl eq_refl). apply (i2_threads _ I).
      * destruct (Nat.eqb_spec x nt) as [->|]; [|apply dummy_thread_ok].
        constructor; unfold lab_queued; rewrite ?Hnth; cbn [lab_free lab_flight lab_worker caller_lab lab_dispatch]; intros; discriminate.
Qed.
