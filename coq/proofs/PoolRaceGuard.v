(* C14, lock-guarded part: the code of a label whose shared fields are guarded by a mutex
   runs with that mutex owned by the stepping thread (T14_statement of
   props/Properties_C14.v, which needs well-formed schedules: it is false otherwise). *)
From Coq Require Import NArith List Lia ZifyBool ZifyN ZifyNat Bool Arith.
From Mtbl Require Import model.Bytes model.Pool proofs.PoolBase proofs.PoolSched proofs.PoolGuard proofs.PoolInv proofs.PoolLife
  proofs.PoolStep2 proofs.PoolAbort proofs.PoolRaceDefs proofs.PoolRaceStep.
Import ListNotations.

(* all the mutexes held while the code of a label runs and that guard fields this code
   touches; extends guard_of: P3 runs under pool->m too, P5 (pool->count--, the loop tests and
   the pop of threadpool_destroy) runs under pool->m *)
Definition guards' (l : label) : list obj :=
  match l with
  | D1 _ | P1 | H7 _ _ | P5 => [OPoolM]
  | P3 i => [OWm i; OPoolM]
  | D5 _ i | W1 i | W4o i | H4 _ i => [OWm i]
  | D7 q _ | F1 q | W4u _ q | H1 q => [OQm q]
  | _ => []
  end.

Lemma guard_of_guards' l g : guard_of l = Some g -> In g (guards' l).
Proof. destruct l; cbn; intros H; inversion H; subst; auto. Qed.
Lemma guards'_guard_of l g : In g (guards' l) -> guard_of l = Some g \/ (l = P5 /\ g = OPoolM) \/ (exists i, l = P3 i /\ g = OPoolM).
Proof.
  destruct l; cbn; intros H; repeat (destruct H as [H|H]); try contradiction; subst; auto.
  right. right. eexists. split; reflexivity.
Qed.

Lemma guards_allowed l op o g : In g (guards' l) -> allowed l op o = true ->
  op = KWait \/ ((op = KLock \/ op = KReacq) /\ (g = o \/ (exists i, l = P3 i /\ g = OPoolM))) \/ (op = KJoin /\ l = P5 /\ g = OPoolM).
Proof.
  destruct l; cbn [guards' In allowed]; try contradiction; intros Hg Ha; unfold lwr, is_op in Ha;
    destruct op; cbn [opk_eqb andb orb] in Ha; try discriminate; rewrite ?orb_false_r in Ha; auto;
    try (match type of Ha with obj_eqb ?a ?b = true => destruct (obj_eqb_spec a b); [subst|discriminate] end);
    repeat (destruct Hg as [Hg|Hg]); try contradiction; subst; auto.
  - right. left. split; [auto|]. right. eexists. split; reflexivity.
Qed.

Lemma pstep_op st t wake stash st' op o stash' :
  pstep st t wake stash = Some (st', op, o, stash') -> enabled st t = true /\ op = t_op (gett st t) /\ o = t_obj (gett st t).
Proof.
  intros E. unfold pstep in E.
  destruct (enabled st t); [|discriminate]. cbn [negb] in E. split; [reflexivity|].
  destruct (t_op (gett st t)) eqn:Eop; try (inversion E; subst; split; reflexivity);
    destruct (stash_deliver _ _ _ _) as [s1 s3]; destruct (continue _ _ _) as [s4 th']; inversion E; subst; split; reflexivity.
Qed.

Lemma guarded_step st t wake stash st' op o stash' :
  Inv1 st -> pstep st t wake stash = Some (st', op, o, stash') ->
  forall g, In g (guards' (t_lab (gett st t))) ->
    op = KWait \/
    owner_of (match op with KLock | KReacq => set_owner st o (Some t) | _ => st end) g = Some t.
Proof.
  intros I E g Hg. destruct (pstep_op _ _ _ _ _ _ _ _ E) as (En & -> & ->).
  pose proof (shape_allowed _ (i1_shape _ I t)) as Ha.
  destruct (guards_allowed _ _ _ _ Hg Ha) as [Hw|[[Hop [Ho|(i & Hl & Hg')]]|(Hop & Hl & Hg')]]; [left; exact Hw| | |]; right.
  - subst g. destruct Hop as [-> | ->]; rewrite owner_of_set_owner, obj_eqb_refl; reflexivity.
  - subst g. rewrite Hl in Ha. cbn [allowed] in Ha. unfold is_op in Ha.
    destruct (t_op (gett st t)) eqn:Eop; cbn [opk_eqb andb] in Ha; try discriminate.
    destruct (obj_eqb_spec (t_obj (gett st t)) (OWm i)) as [Eo|]; [|discriminate].
    rewrite owner_of_set_owner, Eo. cbn [obj_eqb]. apply (i1_own _ I). unfold holds. rewrite Eop, Hl. left. reflexivity.
  - subst g. rewrite Hop. apply (i1_own _ I). unfold holds. rewrite Hop, Hl. left. reflexivity.
Qed.

(* T14_statement with the hypothesis it needs: the schedule is well formed (a signal only
   wakes a thread that is blocked in a cond_wait), for guard_of and for the extended table *)
Theorem T14_guarded : forall maxt prog s st stash t wake st' op o stash',
  sched_wf (pool_init maxt prog) [] s ->
  prun (pool_init maxt prog) [] s = Some (st, stash) ->
  pstep st t wake stash = Some (st', op, o, stash') ->
  forall g, In g (guards' (t_lab (gett st t))) ->
    op = KWait \/
    owner_of (match op with KLock | KReacq => set_owner st o (Some t) | _ => st end) g = Some t.
Proof.
  intros maxt prog s st stash t wake st' op o stash' W E Es g Hg.
  assert (I : Inv1 st) by (apply (T13_locks_consistent maxt prog st stash); exists s; split; assumption).
  eapply guarded_step; eassumption.
Qed.

Definition T14_statement_wf : Prop :=
  forall maxt prog s st stash t wake st' op o stash',
    sched_wf (pool_init maxt prog) [] s ->
    prun (pool_init maxt prog) [] s = Some (st, stash) ->
    pstep st t wake stash = Some (st', op, o, stash') ->
    forall g, guard_of (t_lab (gett st t)) = Some g ->
      op = KWait \/
      owner_of (match op with KLock | KReacq => set_owner st o (Some t) | _ => st end) g = Some t.

Theorem T14_lockset : T14_statement_wf.
Proof.
  intros maxt prog s st stash t wake st' op o stash' W E Es g Hg.
  eapply T14_guarded; try eassumption. apply guard_of_guards'. exact Hg.
Qed.

(* T14_statement as written (all schedules, no sched_wf) is FALSE: an ill-formed schedule lets a
   signal "wake" a thread that is not waiting, which then re-acquires the placeholder ONone
   and runs the code of its label without the guard.  Here the handler thread (pending
   lock of rq->m, label H1 0) is "woken" by the dispatcher's signal of the worker's condition. *)
Definition bad_prog := [NewHandler true; Dispatch 0].
Definition bad_sched := [SRun 1 None; SRun 0 None; SRun 0 None; SRun 0 None; SRun 0 None; SRun 0 None; SRun 0 (Some 1)]%nat.

Theorem T14_statement_needs_sched_wf : ~ T14_statement.
Proof.
  intros H.
  destruct (prun (pool_init 1 bad_prog) [] bad_sched) as [[st stash]|] eqn:E; [|vm_compute in E; discriminate].
  destruct (pstep st 1 None stash) as [[[[st' op] o] stash']|] eqn:Es.
  2:{ vm_compute in E. inversion E; subst. vm_compute in Es. discriminate. }
  specialize (H 1%N bad_prog bad_sched st stash 1%nat None st' op o stash' E Es (OQm 0)).
  vm_compute in E. inversion E; subst; clear E. vm_compute in Es. inversion Es; subst; clear Es.
  specialize (H eq_refl). destruct H as [H|H]; [discriminate|]. vm_compute in H. discriminate.
Qed.

(* that schedule is indeed not well formed *)
Example bad_sched_not_wf : ~ sched_wf (pool_init 1 bad_prog) [] bad_sched.
Proof.
  vm_compute. intros (_ & _ & _ & _ & _ & _ & H & _). apply H; [reflexivity| |reflexivity]. repeat constructor.
Qed.

Print Assumptions T14_guarded.
Print Assumptions T14_lockset.
Print Assumptions T14_statement_needs_sched_wf.
