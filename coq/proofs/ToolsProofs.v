(* mtbl_dump (model/Tools.v): what it keeps, and what it prints for a written table *)
From Coq Require Import NArith ZArith List Lia ZifyBool ZifyN ZifyNat.
From Mtbl Require Import model.Bytes model.Order model.Reader model.Tools.
Local Open Scope N_scope.

Lemma is_prefix_len : forall p k, is_prefix p k = true -> len p <= len k.
Proof.
  unfold len. induction p as [|x p IH]; intros k H; [cbn; lia|].
  destruct k as [|y k]; [discriminate|]. cbn [is_prefix] in H. apply andb_prop in H. destruct H as [_ H].
  specialize (IH k H). cbn [length]. lia.
Qed.

(* the filter of dump(): key begins with the -k prefix, value begins with the -v prefix, both at least as long as
   the -K / -V minimum (the explicit length tests in front of bcmp are implied by "begins with") *)
Lemma dump_keep_spec o e :
  dump_keep o e = true <->
  (forall p, do_key_prefix o = Some p -> is_prefix p (fst e) = true) /\
  (forall p, do_val_prefix o = Some p -> is_prefix p (snd e) = true) /\
  do_key_min o <= len (fst e) /\ do_val_min o <= len (snd e).
Proof.
  unfold dump_keep. split.
  - intros H. apply andb_prop in H. destruct H as [H H3]. apply andb_prop in H. destruct H as [H1 H2].
    split; [|split].
    + intros p E. rewrite E in H1. destruct (is_prefix p (fst e)); [reflexivity|]. rewrite Bool.orb_true_r in H1. discriminate.
    + intros p E. rewrite E in H2. destruct (is_prefix p (snd e)); [reflexivity|]. rewrite Bool.orb_true_r in H2. discriminate.
    + lia.
  - intros (H1 & H2 & H3 & H4). apply andb_true_intro. split; [apply andb_true_intro; split|].
    + destruct (do_key_prefix o) as [p|]; [|reflexivity]. specialize (H1 p eq_refl). pose proof (is_prefix_len _ _ H1). rewrite H1.
      replace (len (fst e) <? len p) with false by lia. reflexivity.
    + destruct (do_val_prefix o) as [p|]; [|reflexivity]. specialize (H2 p eq_refl). pose proof (is_prefix_len _ _ H2). rewrite H2.
      replace (len (snd e) <? len p) with false by lia. reflexivity.
    + replace (len (fst e) <? do_key_min o) with false by lia. replace (len (snd e) <? do_val_min o) with false by lia. reflexivity.
Qed.

Lemma dump_hex_of_read_all decompress o fuel file es :
  read_all decompress fuel file = Ok es -> dump_hex decompress o fuel file = Some (map dump_line_hex (filter (dump_keep o) es)).
Proof. intros H. unfold dump_hex. rewrite H. reflexivity. Qed.

Lemma dump_text_of_read_all decompress o fuel file es :
  read_all decompress fuel file = Ok es -> dump_text decompress o fuel file = Some (map dump_line_text (filter (dump_keep o) es)).
Proof. intros H. unfold dump_text. rewrite H. reflexivity. Qed.

(* without options everything is printed *)
Lemma dump_keep_all e : dump_keep (mkdo None None 0 0) e = true.
Proof. unfold dump_keep. cbn [do_key_prefix do_val_prefix do_key_min do_val_min]. replace (len (fst e) <? 0) with false by lia. replace (len (snd e) <? 0) with false by lia. reflexivity. Qed.
Lemma filter_keep_all (es : list entry) : filter (dump_keep (mkdo None None 0 0)) es = es.
Proof. induction es as [|e es IH]; [reflexivity|]. cbn [filter]. rewrite dump_keep_all, IH. reflexivity. Qed.

(* a printed line determines the entry: lines of different entries differ (length field + separators) is not needed
   for the property; what is: the line is a function of the entry alone *)
