(* C12, double flips, part 2: the zero-input shift of the CRC-32C register has order 2^31 - 1 on
   the orbit of a single bit.  A state c stands for the polynomial sum_t c_t x^(31-t) modulo g;
   [S1] is multiplication by x, U = 2^31 is the unit, [mul] is multiplication modulo g. *)
From Coq Require Import NArith ZArith List Lia Bool ZifyBool ZifyN ZifyNat.
From Mtbl Require Import model.Bytes model.Crc proofs.CrcProofs proofs.CrcBurst proofs.CrcPrime.
Local Open Scope N_scope.
Ltac Zify.zify_post_hook ::= Z.div_mod_to_equations.

Definition U : N := 2147483648.

Definition term (m : nat) (a b : N) : N := if N.testbit a (31 - N.of_nat m) then Sn m b else 0.
Fixpoint msum (n : nat) (a b : N) : N :=
  match n with O => 0 | S k => N.lxor (msum k a b) (term k a b) end.
Definition mul (a b : N) : N := msum 32 a b.

(* x^p by repeated squaring *)
Fixpoint ppow (p : positive) : N :=
  match p with
  | xH => S1 U
  | xO q => let r := ppow q in mul r r
  | xI q => let r := ppow q in S1 (mul r r)
  end.

Lemma S1_0 : S1 0 = 0.
Proof. reflexivity. Qed.
Lemma Sn_S1 m c : Sn m (S1 c) = S1 (Sn m c).
Proof. change (Sn m (S1 c)) with (Sn (1 + m) c). replace (1 + m)%nat with (m + 1)%nat by lia. rewrite Sn_add. reflexivity. Qed.
Lemma Sn_Sn a b c : Sn a (Sn b c) = Sn b (Sn a c).
Proof. rewrite <- (Sn_add b a c), <- (Sn_add a b c). f_equal. lia. Qed.

(* multiplication commutes with the shift of its right argument *)
Lemma term_S1 m a b : term m a (S1 b) = S1 (term m a b).
Proof. unfold term. destruct (N.testbit a _); [apply Sn_S1|reflexivity]. Qed.
Lemma msum_S1 n a b : msum n a (S1 b) = S1 (msum n a b).
Proof. induction n as [|n IH]; [reflexivity|]. cbn [msum]. rewrite IH, term_S1, step_bit_lxor. reflexivity. Qed.
Lemma msum_Sn n k : forall a b, msum n a (Sn k b) = Sn k (msum n a b).
Proof. induction k as [|k IH]; intros a b; cbn [Sn]; [reflexivity|]. rewrite IH, msum_S1. reflexivity. Qed.
Lemma mul_Sn k a b : mul a (Sn k b) = Sn k (mul a b).
Proof. unfold mul. apply msum_Sn. Qed.

(* U is a right unit on 32-bit states *)
Lemma Sn_U m : (m < 32)%nat -> Sn m U = 2 ^ (31 - N.of_nat m).
Proof. intros H. do 32 (destruct m as [|m]; [vm_compute; reflexivity|]). lia. Qed.

Lemma msum_U_bits a n : (n <= 32)%nat -> forall i,
  N.testbit (msum n a U) i = N.testbit a i && (32 - N.of_nat n <=? i) && (i <? 32).
Proof.
  induction n as [|n IH]; intros Hn i.
  - cbn [msum]. rewrite N.bits_0. destruct (N.testbit a i), (i <? 32) eqn:E1, (32 - N.of_nat 0 <=? i) eqn:E2; try reflexivity; lia.
  - cbn [msum]. rewrite N.lxor_spec, IH by lia. unfold term. rewrite Sn_U by lia.
    destruct (N.eq_dec i (31 - N.of_nat n)) as [->|Hne].
    + destruct (N.testbit a (31 - N.of_nat n)); [rewrite N.pow2_bits_true|rewrite N.bits_0];
      destruct (32 - N.of_nat n <=? 31 - N.of_nat n) eqn:E1, (32 - N.of_nat (S n) <=? 31 - N.of_nat n) eqn:E2, (31 - N.of_nat n <? 32) eqn:E3; try reflexivity; lia.
    + assert (Hb : N.testbit (if N.testbit a (31 - N.of_nat n) then 2 ^ (31 - N.of_nat n) else 0) i = false).
      { destruct (N.testbit a (31 - N.of_nat n)); [apply N.pow2_bits_false; lia|apply N.bits_0]. }
      rewrite Hb, xorb_false_r.
      destruct (N.testbit a i), (32 - N.of_nat n <=? i) eqn:E1, (32 - N.of_nat (S n) <=? i) eqn:E2, (i <? 32) eqn:E3; try reflexivity; lia.
Qed.

Lemma high_bits_0 a n i : a < 2 ^ n -> n <= i -> N.testbit a i = false.
Proof.
  intros Ha Hi. destruct (N.eq_dec a 0) as [->|Hne]; [apply N.bits_0|].
  apply N.bits_above_log2. apply N.log2_lt_pow2 in Ha; lia.
Qed.

Lemma mul_U a : a < 4294967296 -> mul a U = a.
Proof.
  intros Ha. apply N.bits_inj_iff. intros i. unfold mul. rewrite msum_U_bits by lia.
  destruct (N.lt_ge_cases i 32) as [Hi|Hi].
  - destruct (N.testbit a i), (32 - N.of_nat 32 <=? i) eqn:E1, (i <? 32) eqn:E2; try reflexivity; lia.
  - rewrite (high_bits_0 a 32 i Ha Hi). reflexivity.
Qed.

(* k shifts = multiplication by x^k *)
Lemma Sn_mul k a : a < 4294967296 -> Sn k a = mul a (Sn k U).
Proof. intros Ha. rewrite mul_Sn, mul_U by exact Ha. reflexivity. Qed.

Lemma U_lt32 : U < 4294967296.
Proof. reflexivity. Qed.

Lemma pw_add a b : Sn (a + b) U = mul (Sn a U) (Sn b U).
Proof. rewrite Sn_add. apply Sn_mul. apply Sn_lt32, U_lt32. Qed.

Lemma ppow_spec : forall p, ppow p = Sn (Pos.to_nat p) U.
Proof.
  induction p as [q IH|q IH|]; cbn [ppow].
  - rewrite IH, <- pw_add, <- Sn_S1. change (Sn (Pos.to_nat q + Pos.to_nat q) (S1 U)) with (Sn (S (Pos.to_nat q + Pos.to_nat q)) U). f_equal. lia.
  - rewrite IH, <- pw_add. f_equal. lia.
  - reflexivity.
Qed.

Lemma ppow_M31 : ppow 2147483647 = U.
Proof. vm_compute. reflexivity. Qed.
Lemma Sn_M31_U : Sn (Pos.to_nat 2147483647) U = U.
Proof. rewrite <- ppow_spec. exact ppow_M31. Qed.

Lemma Sn_iter_fix e k : Sn k e = e -> forall a, Sn (a * k) e = e.
Proof. intros H a. induction a as [|a IH]; [reflexivity|]. cbn [Nat.mul]. rewrite Sn_add, H. exact IH. Qed.

Lemma gcd_M31 k : 0 < k < M31 -> N.gcd k M31 = 1.
Proof.
  intros Hk. set (g := N.gcd k M31).
  destruct (N.gcd_divide_l k M31) as [q Hq]. fold g in Hq.
  pose proof (N.gcd_divide_r k M31) as Hd. fold g in Hd.
  assert (Hg0 : g <> 0) by (intros E; rewrite E in Hq; lia).
  assert (Hgk : g <= k).
  { assert (Hq1 : 1 <= q) by (destruct (N.eq_dec q 0) as [E|]; [rewrite E in Hq; lia|lia]).
    pose proof (N.mul_le_mono_r 1 q g Hq1). lia. }
  destruct (N.eq_dec g 1) as [E|Hne]; [exact E|]. exfalso.
  apply (M31_prime g); [unfold M31 in *; lia|]. apply N.mod_divide; [exact Hg0|exact Hd].
Qed.

(* the order of x is exactly 2^31 - 1 *)
Theorem order_U k : (0 < k)%nat -> N.of_nat k < 2147483647 -> Sn k U <> U.
Proof.
  intros Hk0 HkM H.
  assert (Hg : N.gcd (N.of_nat k) M31 = 1) by (apply gcd_M31; unfold M31; lia).
  destruct (N.gcd_bezout_pos (N.of_nat k) M31 ltac:(lia)) as (a & b & Hab). rewrite Hg in Hab.
  pose proof (Sn_iter_fix U k H (N.to_nat a)) as H1.
  pose proof (Sn_iter_fix U _ Sn_M31_U (N.to_nat b)) as H2.
  assert (E : (N.to_nat a * k = N.to_nat b * Pos.to_nat 2147483647 + 1)%nat).
  { apply Nat2N.inj. rewrite Nat2N.inj_add, !Nat2N.inj_mul, !N2Nat.id, positive_nat_N. unfold M31 in Hab. lia. }
  rewrite E, Sn_add, H2 in H1. cbn [Sn] in H1. revert H1. clear. vm_compute. discriminate.
Qed.

Lemma Sn_inj n a b : a < 4294967296 -> b < 4294967296 -> Sn n a = Sn n b -> a = b.
Proof.
  intros Ha Hb E. apply N.lxor_eq. apply (Sn_inj0 n); [apply lxor_lt32; assumption|].
  rewrite Sn_lxor, E. apply N.lxor_nilpotent.
Qed.

(* the same on the whole orbit of U, in particular on every single-bit state *)
Theorem order_orbit m k : (0 < k)%nat -> N.of_nat k < 2147483647 -> Sn k (Sn m U) <> Sn m U.
Proof.
  intros Hk0 HkM H. apply (order_U k Hk0 HkM). rewrite Sn_Sn in H.
  apply (Sn_inj m); [apply Sn_lt32, U_lt32|apply U_lt32|exact H].
Qed.

Corollary order_bit t k : t < 32 -> (0 < k)%nat -> N.of_nat k < 2147483647 -> Sn k (2 ^ t) <> 2 ^ t.
Proof.
  intros Ht Hk0 HkM. replace (2 ^ t) with (Sn (N.to_nat (31 - t)) U); [apply order_orbit; assumption|].
  rewrite Sn_U by lia. f_equal. lia.
Qed.

Print Assumptions order_U.
Print Assumptions order_bit.
