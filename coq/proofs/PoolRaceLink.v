(* C14: the predecessor table of [inflight] against [continue]: after a step of thread t
   that runs the code of label l, every access of [seg_access l] (evaluated on the state
   the code starts from) is in flight for t in the new state. *)
From Coq Require Import NArith List Lia ZifyBool ZifyN ZifyNat Bool Arith.
From Mtbl Require Import model.Bytes model.Pool proofs.PoolBase proofs.PoolSched proofs.PoolGuard proofs.PoolInv proofs.PoolLife
  proofs.PoolStep2 proofs.PoolAbort proofs.PoolRaceDefs proofs.PoolRaceStep proofs.PoolRaceInv proofs.PoolRace proofs.PoolRaceInvB proofs.PoolRaceGuard proofs.PoolRaceInvE.
Import ListNotations.

(* [inflight] and [seg_access] only look at keys and data *)
Lemma dead_frees_keq a b : keq a b -> dead_frees a = dead_frees b.
Proof.
  intros K. unfold dead_frees. rewrite (keq_workers _ _ K). apply flat_map_ext. intros i.
  rewrite (keq_getw _ _ i K), (keq_done _ _ _ K). reflexivity.
Qed.
Lemma rh_frees_keq a b : keq a b -> rh_frees a = rh_frees b.
Proof.
  intros K. unfold rh_frees. rewrite (keq_queues _ _ K). apply flat_map_ext. intros j.
  rewrite (keq_getq _ _ j K), (keq_done _ _ _ K). reflexivity.
Qed.
Lemma exit_access_keq ext a b t : keq a b -> exit_access ext a t = exit_access ext b t.
Proof.
  intros K. unfold exit_access. rewrite (keq_workers _ _ K), (keq_queues _ _ K). f_equal.
  - apply flat_map_ext. intros i. rewrite (keq_getw _ _ i K). reflexivity.
  - destruct ext; [|reflexivity]. apply flat_map_ext. intros j. rewrite (keq_getq _ _ j K). reflexivity.
Qed.
Lemma inflight_keq cre ext a b t : keq a b -> inflight_gen cre ext a t = inflight_gen cre ext b t.
Proof.
  intros K. unfold inflight_gen.
  rewrite (keq_done _ _ t K), (keq_op _ _ t K), (keq_lab _ _ t K), (keq_obj _ _ t K), (keq_queues _ _ K), (dead_frees_keq _ _ K),
    (exit_access_keq ext _ _ t K), (rh_frees_keq _ _ K).
  destruct (t_done (gett b t)); [reflexivity|].
  destruct (t_op (gett b t)); try reflexivity; destruct (t_lab (gett b t)); try reflexivity; rewrite ?(keq_getq _ _ _ K); reflexivity.
Qed.
Lemma seg_access_keq l a b : keq a b -> seg_access l a = seg_access l b.
Proof.
  intros K. unfold seg_access, next_access.
  rewrite (keq_prog _ _ K), (keq_queues _ _ K), (keq_idle _ _ K), (dead_frees_keq _ _ K), (rh_frees_keq _ _ K).
  destruct (ke_dat _ _ K). pose proof (dat_fields _ _ (ke_dat _ _ K)) as (_ & Hc & Hm & _).
  destruct l; rewrite ?Hc, ?Hm, ?(keq_getq _ _ _ K), ?(keq_getw _ _ _ K); reflexivity.
Qed.

Lemma dead_frees_after st t l : ps_workers (after st t l) = ps_workers st ->
  (forall x, t_done (gett (after st t l) x) = t_done (gett st x)) -> dead_frees (after st t l) = dead_frees st.
Proof.
  intros Ew Hd. unfold dead_frees. rewrite Ew. apply flat_map_ext. intros i.
  unfold getw. rewrite Ew. rewrite Hd. reflexivity.
Qed.

Lemma in_links_intro p l : In p l -> In (W (LNext p)) (links l).
Proof. intros H. unfold links. apply in_map_iff. exists p. split; [reflexivity|exact H]. Qed.

Lemma last_in {A} (l : list A) d : l <> [] -> In (last l d) l.
Proof.
  induction l as [|a l IH]; [congruence|]. intros _. destruct l as [|b l]; [left; reflexivity|].
  right. change (last (a :: b :: l) d) with (last (b :: l) d). apply IH. discriminate.
Qed.

Lemma tail_link_links l i : incl (tail_link l) (links (l ++ [i])).
Proof.
  destruct l as [|a l]; [apply incl_nil_l|]. unfold tail_link. intros x [<-|[]]. apply in_links_intro.
  apply in_or_app. left. apply last_in. discriminate.
Qed.

Ltac solve_in :=
  cbn [In app];
  first [ tauto
        | apply in_or_app; left; solve_in
        | apply in_or_app; right; solve_in ].

Section Link.
Variable st : pstate.
Variable t : nat.
Hypothesis I1 : Inv1 st.
Hypothesis I2 : Inv2 st.
Hypothesis IB : InvB st.
Hypothesis En : enabled st t = true.
Hypothesis Hw : t_op (gett st t) <> KWait.
Hypothesis He : t_op (gett st t) <> KExit.
Let l := t_lab (gett st t).
Let st' := after st t l.
Let Ht : (t < length (ps_threads st))%nat := proj1 (enabled_live _ _ En).
Let Tt := i2_threads st I2 t.

Lemma dead_frees_set s th : t_done th = t_done (gett s t) -> dead_frees (set_thread s t th) = dead_frees s.
Proof.
  intros Hd. unfold dead_frees. change (ps_workers (set_thread s t th)) with (ps_workers s). apply flat_map_ext. intros i.
  change (getw (set_thread s t th) i) with (getw s i). rewrite gett_set_thread.
  destruct (Nat.eqb_spec (wk_tid (getw s i)) t) as [->|]; cbn [andb]; [|reflexivity]. destruct (Nat.ltb _ _); [rewrite Hd|]; reflexivity.
Qed.

Lemma live_t : t_done (gett st t) = false.
Proof. apply (enabled_live _ _ En). Qed.

Ltac destr_cond :=
  cbn [fst snd t_done t_op t_lab t_obj pend dummy_t];
  repeat (match goal with
          | |- context [if ?c then _ else _] =>
            lazymatch c with context [pend] => fail | context [mkt] => fail | context [dummy_t] => fail | _ => destruct c eqn:? end
          | |- context [match ?x with _ => _ end] =>
            lazymatch x with context [pend] => fail | context [mkt] => fail | context [dummy_t] => fail | _ => destruct x eqn:? end
          end; cbn [fst snd t_done t_op t_lab t_obj pend dummy_t]).

Lemma in_exit_worker ext s i : (i < length (ps_workers s))%nat -> wk_tid (getw s i) = t -> In (R (LBox i)) (exit_access ext s t).
Proof.
  intros Hi E. unfold exit_access. apply in_or_app. left. apply in_flat_map. exists i. split; [apply in_seq; lia|].
  rewrite E, Nat.eqb_refl. left. reflexivity.
Qed.
Lemma in_exit_queue s j a : (j < length (ps_queues s))%nat -> q_tid (getq s j) = t -> In a [R (LRh j); R (LQueue j); W (LQueue j); W (LRh j)] ->
  In a (exit_access true s t).
Proof.
  intros Hj E Ha. unfold exit_access. apply in_or_app. right. apply in_flat_map. exists j. split; [apply in_seq; lia|].
  rewrite E, Nat.eqb_refl. exact Ha.
Qed.

Lemma rh_frees_intro s j : (j < length (ps_queues s))%nat -> q_finished (getq s j) = true ->
  t_done (gett s (q_tid (getq s j))) = true -> In (W (LRh j)) (rh_frees s).
Proof.
  intros Hj Hf Hd. unfold rh_frees. apply in_flat_map. exists j. split; [apply in_seq; lia|]. rewrite Hf, Hd. left. reflexivity.
Qed.

Lemma rh_frees_after : incl (rh_frees st) (rh_frees (after st t l)).
Proof.
  intros a Ha. apply in_rh_frees in Ha. destruct Ha as (j & Hj & Hf & Hd & ->).
  pose proof (b_qtid _ IB j Hj) as Hh.
  assert (Hne : q_tid (getq st j) <> t) by (intros E; rewrite E, live_t in Hd; discriminate).
  apply rh_frees_intro.
  - pose proof (after_nqueues_ge st t l). lia.
  - rewrite after_q_finished, Hf. reflexivity.
  - rewrite after_q_tid by exact Hj. rewrite after_gett_old by assumption. exact Hd.
Qed.

Lemma dead_frees_P : (l = P1 \/ l = P5) -> dead_frees st' = dead_frees st.
Proof.
  intros Hl. unfold st', after. rewrite dead_frees_set.
  - destruct Hl as [-> | ->]; cbn [continue]; destr_cond; reflexivity.
  - destruct Hl as [-> | ->]; cbn [continue]; destr_cond; unfold gett; cbn [ps_threads set_pool set_abort]; fold (gett st t);
      rewrite live_t; reflexivity.
Qed.

Lemma link : t_done (gett st' t) = false -> incl (seg_access l st) (inflight st' t).
Proof.
  unfold inflight, inflight_gen, st'. rewrite after_gett_self by exact Ht. intros Hlive.
  assert (RF := rh_frees_after).
  pose proof (shape_allowed _ (i1_shape _ I1 t)) as Ha. fold l in Ha.
  destruct (ex_intro (fun l0 => l = l0) l eq_refl) as [l0 El].
  assert (DP : l = P1 \/ l = P5 -> dead_frees (after st t l) = dead_frees st) by (apply dead_frees_P).
  rewrite El in *. revert Hlive.
  destruct l0; cbn [seg_access continue]; unfold next_access, caller_next, pop_access; cbn [set_pool ps_count ps_idle]; destr_cond;
    intros Hlive; try discriminate Hlive; try congruence;
    rewrite ?DP by auto;
    repeat match goal with
           | |- incl [] _ => apply incl_nil_l
           | |- incl (_ :: _) _ => apply incl_cons
           | |- incl (_ ++ _) _ => apply incl_app
           end; try solve_in;
    try (apply incl_appl, incl_refl);
    try (apply incl_appr; exact RF); try (apply incl_appl; exact RF); try exact RF;
    try (match goal with H : ps_prog st = NewHandler _ :: _ |- _ => rewrite after_nqueues; cbn [is_next]; rewrite H end;
         match goal with |- In _ ([W (LQueue (S ?n - 1)); _] ++ _) => replace (S n - 1)%nat with n by lia end; cbn [In app]; tauto);
    try (match goal with |- In _ (exit_access true (after st t (H3 ?j None)) t) =>
           let Hj := fresh "Hj" in let Ej := fresh "Ej" in
           destruct (b_hid _ IB t j) as [Hj Ej]; [fold l; rewrite El; reflexivity|];
           apply (in_exit_queue _ j); [rewrite after_nqueues; exact Hj|rewrite after_q_tid by exact Hj; exact Ej|cbn [In]; tauto] end).
  - (* D7, ordered *)
    destruct (tk_dispatch _ _ _ Tt q) as [Dq _]; [fold l; rewrite El; reflexivity|].
    apply incl_appr. rewrite after_getq. cbn [is_next]. cbv zeta. unfold upd_q. rewrite Nat.eqb_refl.
    destruct (Nat.ltb_spec q (length (ps_queues st))); [|lia]. cbn [andb q_list].
    match goal with H : q_ordered (getq st q) = true |- _ => rewrite H end. apply tail_link_links.
  - (* W3, told to exit *)
    destruct (tk_worker _ _ _ Tt i) as [Hi Ei]; [fold l; rewrite El; reflexivity|].
    apply in_exit_worker.
    + rewrite after_nworkers. exact Hi.
    + rewrite after_getw. cbv zeta. match goal with H : negb (wk_hasjob (getw st i)) = true |- _ => rewrite H end. exact Ei.
  - (* W4u *)
    pose proof (tk_w4u _ _ _ Tt i q) as Dq. fold l in Dq. specialize (Dq El).
    apply incl_appr. rewrite after_getq. cbn [is_next]. cbv zeta. unfold upd_q. rewrite Nat.eqb_refl.
    destruct (Nat.ltb_spec q (length (ps_queues st))); [|lia]. cbn [andb q_list]. apply tail_link_links.
Qed.
End Link.

(* for an actual step of the LTS *)
Theorem segments_in_flight st t wake stash st' op o stash' :
  Inv1 st -> Inv2 st -> InvB st -> wake_ok st t wake ->
  pstep st t wake stash = Some (st', op, o, stash') -> op <> KWait -> op <> KExit ->
  t_done (gett st' t) = false ->          (* the caller has not just finished its program *)
  incl (seg_access (t_lab (gett st t)) st) (inflight st' t).
Proof.
  intros I1 I2 IB W E Hw He Hl. destruct (pstep_op _ _ _ _ _ _ _ _ E) as (En & -> & ->).
  destruct (pstep_code_keq _ _ _ _ _ _ _ _ I1 W E Hw He) as [_ K].
  unfold inflight. rewrite (inflight_keq true true _ _ t K). apply link; try assumption.
  rewrite <- (keq_done _ _ t K). exact Hl.
Qed.
