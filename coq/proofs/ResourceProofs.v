(* C18: the operational resource model keeps, for every owner and every kind, exactly the
   resources of the owner's current footprint; hence once every object is destroyed nothing
   is live.  The proof is per operation: the events of the code change the live set by the
   change of footprint (a forgotten release on some path makes that lemma false). *)
From Coq Require Import NArith List Bool Lia ZifyBool ZifyN ZifyNat.
From Mtbl Require Import model.ResCore model.ResT1 model.ResSorter model.ResFileset model.Resources
  proofs.ResProofCore proofs.ResT1Proofs proofs.ResSorterProofs proofs.ResFilesetProofs.
Import ListNotations.
Local Open Scope N_scope.

Definition Inv (s : rstate) : Prop :=
  forall id k, cntr (mkres id k) (live s) = cnt k (fp (get id (objs s))).

Lemma get_cons : forall id id' o l, get id' ((id, o) :: l) = if id =? id' then o else get id' l.
Proof. reflexivity. Qed.

Definition upd_ok (s : rstate) (u : upd) : Prop :=
  let '(id, evs, o) := u in sound (fp (get id (objs s))) evs (fp o).

Lemma apply_upd_inv : forall s u, Inv s -> upd_ok s u -> Inv (apply_upd s u).
Proof.
  intros s [[id evs] o] HI Hok id' k. cbn [apply_upd live objs]. rewrite get_cons.
  destruct (N.eqb_spec id id') as [<-|Hne].
  - rewrite cntr_apply_evs_same, HI. specialize (Hok k 0). rewrite !N.add_0_r in Hok. exact Hok.
  - rewrite cntr_apply_evs_other by congruence. apply HI.
Qed.

Fixpoint upds_ok (s : rstate) (us : list upd) : Prop :=
  match us with
  | [] => True
  | u :: t => upd_ok s u /\ upds_ok (apply_upd s u) t
  end.
Lemma fold_upds_inv : forall us s, Inv s -> upds_ok s us -> Inv (fold_left apply_upd us s).
Proof.
  induction us as [|u t IH]; intros s HI Hok; [exact HI|].
  destruct Hok as [H1 H2]. cbn [fold_left]. apply IH; [apply apply_upd_inv; assumption | exact H2].
Qed.

Lemma Inv_init : Inv rinit.
Proof. intros id k. reflexivity. Qed.

(* ---------- pool ---------- *)
Lemma pool_init_sound : forall n, sound [] (pool_init_code n) (fp_pool (mkp n 0)).
Proof.
  intros n k m. unfold pool_init_code, fp_pool. cbn [p_max p_workers].
  destruct (n =? 0); cbn [negb when]; rsolve.
Qed.
Lemma pool_destroy_sound : forall p, sound (fp_pool p) (pool_destroy_code p) [].
Proof.
  intros [mx w] k m. unfold pool_destroy_code, fp_pool. cbn [p_max p_workers].
  destruct (mx =? 0); cbn [negb when]; rnorm; [lia|].
  assert (H : subs (rel KWorker ++ rel HWorkerS) [HWorkerS; KWorker]) by (intros k' a; rsolve).
  rewrite (subs_ntimes _ _ w H). rnorm. lia.
Qed.

Lemma pool_dispatches_sound : forall n p spawn,
  sound (fp_pool p) (fst (pool_dispatches n p spawn)) (fp_pool (snd (pool_dispatches n p spawn))).
Proof.
  induction n as [|c IH]; intros [mx w] spawn; cbn [pool_dispatches]; [apply sound_nil|].
  destruct (pool_spawns (mkp mx w) spawn) eqn:E; [|apply IH].
  specialize (IH (mkp mx (w + 1)) spawn). cbn [p_max p_workers].
  destruct (pool_dispatches c (mkp mx (w + 1)) spawn) as [e p']. cbn [fst snd] in *.
  eapply sound_trans; [|exact IH].
  unfold pool_spawns in E. cbn [p_max p_workers] in E. apply andb_true_iff in E. destruct E as [E _].
  intros k m. unfold pool_spawn_code, fp_pool. cbn [p_max p_workers].
  destruct (N.eqb_spec mx 0); [lia|]. rsolve.
Qed.

(* the pool update stays correct after updates of other objects *)
Lemma pool_upd_ok : forall s s' pool n spawn,
  (forall p ps, pool = Some p -> get p (objs s) = OPool ps -> get p (objs s') = OPool ps) ->
  upds_ok s' (pool_upd s pool n spawn).
Proof.
  intros s s' [p|] n spawn H; cbn [pool_upd upds_ok]; [|exact I].
  destruct (get p (objs s)) as [|ps| | | | | | |] eqn:E; cbn [upds_ok]; try exact I.
  pose proof (pool_dispatches_sound n ps spawn) as HS.
  destruct (pool_dispatches n ps spawn) as [e ps']. cbn [upds_ok upd_ok]. split; [|exact I].
  rewrite (H p ps eq_refl E). exact HS.
Qed.
(* ... in particular after an update of an object that is not a pool *)
Lemma pool_upd_ok_after : forall s id evs o pool n spawn,
  (forall ps, get id (objs s) <> OPool ps) ->
  upds_ok (apply_upd s (id, evs, o)) (pool_upd s pool n spawn).
Proof.
  intros s id evs o pool n spawn Hid. apply pool_upd_ok. intros p ps _ Hp.
  cbn [apply_upd objs]. rewrite get_cons. destruct (N.eqb_spec id p) as [->|]; [|exact Hp].
  exfalso. exact (Hid ps Hp).
Qed.

Lemma writer_adds_sound : forall fulls w,
  sound (fp_writer w) (fst (fst (writer_adds w fulls))) (fp_writer (snd (fst (writer_adds w fulls)))).
Proof.
  induction fulls as [|f t IH]; intros w; cbn [writer_adds]; [apply sound_nil|].
  pose proof (writer_add_sound w false f) as H1.
  destruct (writer_add_code w false f) as [e w']. specialize (IH w').
  destruct (writer_adds w' t) as [[et w''] n]. cbn [fst snd] in *.
  eapply sound_trans; eassumption.
Qed.

Lemma create_ok : forall s id evs o, sound [] evs (fp o) -> upds_ok s (create s id [(id, evs, o)]).
Proof.
  intros s id evs o H. unfold create. destruct (get id (objs s)) eqn:E; cbn [is_dead upds_ok]; try exact I.
  split; [|exact I]. cbn [upd_ok]. rewrite E. exact H.
Qed.

(* a transient iterator inside an operation of another object: created, used, destroyed *)
Lemma sound_with_iter : forall a b ei i e,
  adds ei (fp_iter i) -> sound a e b -> sound a (ei ++ e ++ iter_destroy_code i) b.
Proof.
  intros a b ei i e Hi He k n. rewrite !runT_app, Hi.
  replace (cnt k a + n + cnt k (fp_iter i)) with (cnt k a + (n + cnt k (fp_iter i))) by lia.
  rewrite He, iter_destroy_subs. lia.
Qed.

(* an update stays correct after an update of another object *)
Lemma upd_ok_after : forall s id e o id' e' o',
  id <> id' -> upd_ok s (id', e', o') -> upd_ok (apply_upd s (id, e, o)) (id', e', o').
Proof.
  intros s id e o id' e' o' Hne H. cbn [upd_ok apply_upd objs] in *. rewrite get_cons.
  destruct (N.eqb_spec id id'); [contradiction | exact H].
Qed.
Lemma upds_ok2 : forall s id1 e1 o1 id2 e2 o2,
  id1 <> id2 -> upd_ok s (id1, e1, o1) -> upd_ok s (id2, e2, o2) -> upds_ok s [(id1, e1, o1); (id2, e2, o2)].
Proof.
  intros. cbn [upds_ok]. split; [assumption|]. split; [|exact I]. apply upd_ok_after; assumption.
Qed.
Lemma upds_ok3 : forall s id1 e1 o1 id2 e2 o2 id3 e3 o3,
  id1 <> id2 -> id1 <> id3 -> id2 <> id3 ->
  upd_ok s (id1, e1, o1) -> upd_ok s (id2, e2, o2) -> upd_ok s (id3, e3, o3) ->
  upds_ok s [(id1, e1, o1); (id2, e2, o2); (id3, e3, o3)].
Proof.
  intros. cbn [upds_ok]. split; [assumption|]. split; [apply upd_ok_after; assumption|]. split; [|exact I].
  apply upd_ok_after; [assumption|]. apply upd_ok_after; assumption.
Qed.

(* ---------- every operation ---------- *)
Ltac one_upd := cbn [upds_ok upd_ok]; split; [|exact I].

Lemma decode_ok : forall s op, upds_ok s (decode s op).
Proof.
  intros s op. unfold decode. destruct op; cbn [decode_v].
  - (* RPoolInit *) apply create_ok, pool_init_sound.
  - (* RPoolDestroy *) destruct (get id (objs s)) eqn:E; cbn [upds_ok]; try exact I.
    one_upd. rewrite E. apply pool_destroy_sound.
  - (* RWriterInit *) destruct (mode_of s pool) as [m|]; [|exact I]. apply create_ok.
    pose proof (writer_init_sound open_ok m) as H. destruct open_ok; exact H.
  - (* RWriterInitFd *) destruct (mode_of s pool) as [m|]; [|exact I]. apply create_ok, writer_init_fd_sound.
  - (* RWriterAdd *) destruct (get id (objs s)) eqn:E; cbn [upds_ok]; try exact I.
    pose proof (writer_add_sound w refused full) as H. destruct (writer_add_code w refused full) as [e w'].
    cbn [upds_ok upd_ok]. split; [rewrite E; exact H|].
    apply pool_upd_ok_after. intros ps. rewrite E. discriminate.
  - (* RWriterDestroy *) destruct (get id (objs s)) eqn:E; cbn [upds_ok]; try exact I.
    cbn [upds_ok upd_ok]. split; [rewrite E; apply writer_destroy_sound|].
    apply pool_upd_ok_after. intros ps. rewrite E. discriminate.
  - (* RReaderInit *) apply create_ok. pose proof (reader_init_sound open_ok o) as H. destruct open_ok; exact H.
  - (* RReaderInitFd *) apply create_ok, reader_init_fd_sound.
  - (* RReaderDestroy *) destruct (get id (objs s)) eqn:E; cbn [upds_ok]; try exact I.
    one_upd. rewrite E. apply reader_destroy_sound.
  - (* RMergerInit *) apply create_ok, merger_init_sound.
  - (* RMergerAddSource *) destruct (get id (objs s)) eqn:E; cbn [upds_ok]; try exact I.
    one_upd. rewrite E. apply sound_nil.
  - (* RMergerDestroy *) destruct (get id (objs s)) eqn:E; cbn [upds_ok]; try exact I.
    one_upd. rewrite E. apply merger_destroy_sound.
  - (* RSourceIter *) pose proof (mk_iter_sound (fuel s) (look s) q src oc) as H.
    destruct (mk_iter (fuel s) (look s) q src oc) as [e i]. apply create_ok. exact H.
  - (* RSourceWrite *) destruct (get w (objs s)) as [| |ws pool| | | | | |] eqn:E; cbn [upds_ok]; try exact I.
    pose proof (mk_iter_adds (fuel s) (look s) QIter src oc) as Hi.
    destruct (mk_iter (fuel s) (look s) QIter src oc) as [ei i]. cbn [fst snd] in Hi.
    destruct (is_null i) eqn:En.
    + one_upd. rewrite E. cbn [fp]. rewrite (fp_iter_null _ En) in Hi.
      intros k n. rewrite Hi. cbn [cnt]. lia.
    + pose proof (writer_adds_sound fulls ws) as Ha.
      destruct (writer_adds ws fulls) as [[ea ws'] n]. cbn [fst snd] in Ha.
      cbn [upds_ok upd_ok]. split; [rewrite E; cbn [fp]; apply sound_with_iter; assumption|].
      apply pool_upd_ok_after. intros ps. rewrite E. discriminate.
  - (* RIterNext *) destruct (get it (objs s)) eqn:E; cbn [upds_ok]; try exact I.
    one_upd. rewrite E. apply iter_next_sound.
  - (* RIterDrain *) destruct (get it (objs s)) eqn:E; cbn [upds_ok]; try exact I.
    one_upd. rewrite E. apply iter_drain_sound.
  - (* RIterSeek *) destruct (get it (objs s)) eqn:E; cbn [upds_ok]; try exact I.
    one_upd. rewrite E. apply iter_seek_sound.
  - (* RIterDestroy *) destruct (get it (objs s)) eqn:E; cbn [upds_ok]; try exact I.
    one_upd. rewrite E. apply iter_destroy_sound.
  - (* RSorterInit *) destruct (smode_of s pool) as [m|]; [|exact I]. apply create_ok.
    intros k n. unfold sorter_init_code, sorter_init_st, fp, fp_sorter, fp_handler, handler_init_code.
    cbn [s_mode s_entries s_ok]. destruct m; cbn [s_has_handler when flat_map]; rsolve.
  - (* RSorterAdd *) destruct (get id (objs s)) as [| | | | | |st pool| |] eqn:E; cbn [upds_ok]; try exact I.
    pose proof (sorter_add_sound st spill) as H. destruct (sorter_add_code v_current st spill) as [[e st'] d].
    cbn [upds_ok upd_ok fst snd] in *. split; [rewrite E; exact H|].
    apply pool_upd_ok_after. intros ps. rewrite E. discriminate.
  - (* RSorterJob *) destruct (get id (objs s)) as [| | | | | |st pool| |] eqn:E; cbn [upds_ok]; try exact I.
    pose proof (sorter_job_sound st) as H. destruct (sorter_job_code v_current st) as [e st'].
    one_upd. rewrite E. exact H.
  - (* RSorterIter *) destruct (get id (objs s)) as [| | | | | |st pool| |] eqn:E; cbn [upds_ok]; try exact I.
    destruct (sorter_iter_aborts v_current st steps); [exact I|].
    pose proof (sorter_iter_scode_sound st steps) as HS.
    destruct (sorter_iter_scode v_current st steps) as [[[es st'] ok] d]. cbn [fst snd] in HS.
    pose proof (sorter_iter_icode_adds ok (s_ok st') oc) as HI.
    destruct (sorter_iter_icode v_current ok (s_ok st') oc) as [ei i]. cbn [fst snd] in HI.
    unfold create. destruct (get it (objs s)) eqn:Eit; cbn [is_dead upds_ok]; try exact I.
    assert (Hne : id <> it) by (intros ->; rewrite E in Eit; discriminate).
    cbn [upd_ok]. split; [rewrite E; exact HS|]. split.
    + cbn [apply_upd objs]. rewrite get_cons. destruct (N.eqb_spec id it); [contradiction|].
      rewrite Eit. apply adds_sound, HI.
    + apply pool_upd_ok. intros p ps _ Hp. cbn [apply_upd objs]. rewrite !get_cons.
      destruct (N.eqb_spec it p) as [->|]; [rewrite Eit in Hp; discriminate|].
      destruct (N.eqb_spec id p) as [->|]; [rewrite E in Hp; discriminate|]. exact Hp.
  - (* RSorterDestroy *) destruct (get id (objs s)) as [| | | | | |st pool| |] eqn:E; cbn [upds_ok]; try exact I.
    one_upd. rewrite E. apply sorter_destroy_sound.
  - (* RFilesetInit *)
    destruct (get id (objs s)) eqn:E1; cbn [is_dead andb]; try exact I.
    destruct (get sh (objs s)) eqn:E2; cbn [is_dead andb]; try exact I.
    destruct (N.eqb_spec id sh); cbn [negb]; [exact I|].
    apply upds_ok2; [assumption | | ]; cbn [upd_ok]; [rewrite E1 | rewrite E2].
    + apply fileset_init_hsound.
    + apply fileset_init_ssound.
  - (* RFilesetDup *)
    destruct (get orig (objs s)) as [| | | | | | |f|] eqn:E1; try exact I.
    destruct (get (f_shared f) (objs s)) as [| | | | | | | |sh] eqn:E2; try exact I.
    unfold create. destruct (get id (objs s)) eqn:E3; cbn [is_dead]; try exact I.
    apply upds_ok2; [intros ->; rewrite E2 in E3; discriminate | | ]; cbn [upd_ok]; [rewrite E3 | rewrite E2].
    + apply fileset_init_hsound.
    + apply sound_nil.
  - (* RFilesetReload *)
    destruct (get id (objs s)) as [| | | | | | |f|] eqn:E1; try exact I.
    destruct (get (f_shared f) (objs s)) as [| | | | | | | |sh] eqn:E2; try exact I.
    pose proof (fileset_reload_hsound now f sh p) as Hh. pose proof (fileset_reload_ssound now f sh p) as Hs.
    destruct (fileset_reload_code now f sh p) as [[[eh f'] es] sh']. cbn [fst snd] in *.
    apply upds_ok2; [intros Heq; rewrite <- Heq, E1 in E2; discriminate | | ]; cbn [upd_ok]; [rewrite E1 | rewrite E2]; assumption.
  - (* RFilesetIter *)
    destruct (get id (objs s)) as [| | | | | | |f|] eqn:E1; try exact I.
    destruct (get (f_shared f) (objs s)) as [| | | | | | | |sh] eqn:E2; try exact I.
    pose proof (fileset_reload_hsound false f sh p) as Hh. pose proof (fileset_reload_ssound false f sh p) as Hs.
    destruct (fileset_reload_code false f sh p) as [[[eh f'] es] sh']. cbn [fst snd] in *.
    pose proof (fileset_iter_icode_adds q (sh_entries sh') oc) as Hi.
    destruct (fileset_iter_icode q (sh_entries sh') oc) as [ei i]. cbn [fst snd] in Hi.
    unfold create. destruct (get it (objs s)) eqn:E3; cbn [is_dead]; try exact I.
    apply upds_ok3; try (intros Heq; congruence); cbn [upd_ok].
    + rewrite E1. exact Hh.
    + rewrite E2. exact Hs.
    + rewrite E3. apply adds_sound, Hi.
  - (* RFilesetIterDestroy *)
    destruct (get it (objs s)) as [| | | | |src i| | |] eqn:E0; try exact I. destruct i as [| | | |inner]; try exact I.
    destruct (get src (objs s)) as [| | | | | | |f|] eqn:E1; try exact I.
    destruct (get (f_shared f) (objs s)) as [| | | | | | | |sh] eqn:E2; try exact I.
    set (sh1 := mksh (sh_handles sh) (sh_iters sh - 1) (sh_needed sh) (sh_stamp sh) (sh_entries sh)).
    pose proof (fileset_reload_hsound false f sh1 p) as Hh. pose proof (fileset_reload_ssound false f sh1 p) as Hs.
    destruct (fileset_reload_code false f sh1 p) as [[[eh f'] es] sh']. cbn [fst snd] in *.
    apply upds_ok3; try (intros Heq; congruence); cbn [upd_ok].
    + rewrite E0. apply iter_destroy_sound.
    + rewrite E1. exact Hh.
    + rewrite E2. exact Hs.
  - (* RFilesetDestroy *)
    destruct (get id (objs s)) as [| | | | | | |f|] eqn:E1; try exact I.
    destruct (get (f_shared f) (objs s)) as [| | | | | | | |sh] eqn:E2; try exact I.
    pose proof (fileset_destroy_ssound sh) as Hs.
    destruct (fileset_destroy_scode sh) as [es osh]. cbn [fst snd] in Hs.
    apply upds_ok2; [intros Heq; rewrite Heq, E1 in E2; discriminate | | ]; cbn [upd_ok]; [rewrite E2 | rewrite E1].
    + destruct osh; exact Hs.
    + apply fileset_destroy_hsound.
Qed.

(* ---------- the invariant along every history ---------- *)
Lemma rstep_inv : forall s op, Inv s -> Inv (rstep s op).
Proof. intros s op H. unfold rstep. apply fold_upds_inv; [exact H | apply decode_ok]. Qed.
Lemma rrun_from_inv : forall ops s, Inv s -> Inv (rrun_from s ops).
Proof.
  induction ops as [|op t IH]; intros s H; [exact H|].
  unfold rrun_from in *. cbn [fold_left]. apply IH, rstep_inv, H.
Qed.
Theorem rrun_inv : forall ops, Inv (rrun ops).
Proof. intros. apply rrun_from_inv, Inv_init. Qed.

(* MAIN THEOREM *)
Theorem all_destroyed_clean : forall ops,
  wf_history ops = true -> all_destroyed (rrun ops) -> live (rrun ops) = [].
Proof.
  intros ops _ Hd. apply cntr_zero_nil. intros [id k].
  rewrite (rrun_inv ops id k), (Hd id). reflexivity.
Qed.

(* the executable check of "every object destroyed" implies the hypothesis *)
Lemma get_unknown : forall id l, known id l = false -> get id l = ODead.
Proof.
  induction l as [|[i o] t IH]; cbn [known existsb get fst]; [reflexivity|].
  intros H. apply orb_false_iff in H. destruct H as [H1 H2]. rewrite H1. apply IH, H2.
Qed.
Lemma all_destroyedb_spec : forall s, all_destroyedb s = true -> all_destroyed s.
Proof.
  intros s H id. destruct (known id (objs s)) eqn:K; [|apply get_unknown, K].
  unfold known in K. apply existsb_exists in K. destruct K as [[i o] [Hin Hi]]. cbn [fst] in Hi.
  apply N.eqb_eq in Hi. subst i. unfold all_destroyedb in H. rewrite forallb_forall in H.
  specialize (H _ Hin). cbn [fst] in H. destruct (get id (objs s)); try discriminate. reflexivity.
Qed.

Lemma count_kind_nil : forall k, count_kind k [] = 0.
Proof. reflexivity. Qed.
Corollary all_destroyed_obs : forall ops,
  wf_history ops = true -> all_destroyedb (rrun ops) = true ->
  obs (rrun ops) = (0, 0, 0, 0) /\ heap_live (rrun ops) = 0.
Proof.
  intros ops Hw Hd. pose proof (all_destroyed_clean ops Hw (all_destroyedb_spec _ Hd)) as HL.
  unfold obs, heap_live. rewrite HL. split; reflexivity.
Qed.

Print Assumptions all_destroyed_clean.
Print Assumptions all_destroyed_obs.
