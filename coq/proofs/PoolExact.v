(* Tier 4: exactly once.  In a reachable state where every thread has exited, the jobs
   delivered by each handler are exactly the jobs dispatched to it (as multisets; for an
   ordered handler also in the same order, by Tier 3). *)
From Coq Require Import NArith List Lia ZifyBool ZifyN ZifyNat Bool Arith Sorting.Permutation.
From Mtbl Require Import model.Bytes model.Pool proofs.PoolBase proofs.PoolSched proofs.PoolInv proofs.PoolLife proofs.PoolStep2 proofs.PoolAbort proofs.PoolDelivery.
Import ListNotations.

(* job ids are handed out in program order: the k-th Dispatch of the program gets id k *)
Fixpoint dispatched (p : list cmd) (n : N) (h : nat) : list N :=
  match p with
  | [] => []
  | Dispatch q :: r => (if Nat.eqb q h then [n] else []) ++ dispatched r (n + 1) h
  | _ :: r => dispatched r n h
  end.

(* the dispatch the caller is executing and whose job has no number yet *)
Definition lab_todo (l : label) : list cmd :=
  match l with D1 q | D3 q _ _ | D4 q _ | D5 q _ => [Dispatch q] | _ => [] end.
Definition todo (st : pstate) : list cmd := lab_todo (t_lab (gett st 0)) ++ ps_prog st.

Definition rq_is (w : worker) (h : nat) : bool := match wk_rq w with Some q => Nat.eqb q h | None => false end.
(* jobs travelling with an unordered worker that has not queued itself yet *)
Definition self_w (h : nat) (n : N) (w : worker) : nat := if rq_is w h then cntN (jobs w) n else 0%nat.
Definition self_t (st : pstate) (h : nat) (n : N) (th : thread) : nat :=
  match lab_w4u (t_lab th) with
  | Some (i, q) => if Nat.eqb q h then cntN (jobs (getw st i)) n else 0%nat
  | None => 0%nat
  end.
Definition selfcnt (st : pstate) (h : nat) (n : N) : nat :=
  (sumf (self_w h n) (ps_workers st) + sumf (self_t st h n) (ps_threads st))%nat.

Definition bal (st : pstate) (stash : list (nat * N)) (h : nat) (n : N) : nat :=
  (cntN (delivered_of st h) n + (if q_ordered (getq st h) then cntN (pend_jobs st h) n else 0) +
   cntN (listed_jobs st h) n + cntN (carry st stash h (q_tid (getq st h))) n + selfcnt st h n +
   cntN (dispatched (todo st) (ps_njobs st) h) n)%nat.

Record Inv4 (prog : list cmd) (st : pstate) (stash : list (nat * N)) : Prop := {
  b_bal : forall h n, bal st stash h n = cntN (dispatched prog 0 h) n;
  b_caller : caller_lab (t_lab (gett st 0)) = true \/ t_lab (gett st 0) = LDone;
  b_done : t_lab (gett st 0) = LDone -> ps_prog st = [];
}.

(* ---------- frame ---------- *)
Lemma frame3_delivered st st' h : frame3 st st' -> delivered_of st' h = delivered_of st h.
Proof. intros F. unfold delivered_of. rewrite (f_deliv _ _ F). reflexivity. Qed.
Lemma frame3_pend st st' h : frame3 st st' -> pend_jobs st' h = pend_jobs st h.
Proof.
  intros F. unfold pend_jobs. rewrite (f_pending _ _ F).
  destruct (lab_pending _) as [[q i]|]; [rewrite (f_jobs _ _ F); reflexivity|reflexivity].
Qed.
Lemma frame3_listed st st' h : frame3 st st' -> listed_jobs st' h = listed_jobs st h.
Proof. intros F. unfold listed_jobs. rewrite (f_qlist _ _ F). apply flat_map_ext. intros i. apply (f_jobs _ _ F). Qed.
Lemma frame3_carry st st' stash h : frame3 st st' -> carry st' stash h (q_tid (getq st' h)) = carry st stash h (q_tid (getq st h)).
Proof.
  intros F. unfold carry. rewrite (f_qtid _ _ F), (f_popped _ _ F), (f_stash _ _ F).
  destruct (lab_popped _) as [[j0 i]|]; [rewrite (f_jobs _ _ F); reflexivity|reflexivity].
Qed.

Record frame4 (st st' : pstate) : Prop := {
  f4_3 : frame3 st st';
  f4_todo : forall h, dispatched (todo st') (ps_njobs st') h = dispatched (todo st) (ps_njobs st) h;
  f4_selfw : forall h n, sumf (self_w h n) (ps_workers st') = sumf (self_w h n) (ps_workers st);
  f4_selft : forall h n, sumf (self_t st' h n) (ps_threads st') = sumf (self_t st h n) (ps_threads st);
  f4_caller : caller_lab (t_lab (gett st' 0)) = true \/ t_lab (gett st' 0) = LDone;
  f4_done : t_lab (gett st' 0) = LDone -> ps_prog st' = [];
}.

Lemma inv4_frame prog st st' stash : frame4 st st' -> Inv4 prog st stash -> Inv4 prog st' stash.
Proof.
  intros F B. pose proof (f4_3 _ _ F) as F3. constructor.
  - intros h n. rewrite <- (b_bal _ _ _ B h n). unfold bal, selfcnt.
    rewrite (frame3_delivered _ _ h F3), (frame3_pend _ _ h F3), (frame3_listed _ _ h F3), (frame3_carry _ _ stash h F3),
      (f_qord _ _ F3), (f4_todo _ _ F), (f4_selfw _ _ F), (f4_selft _ _ F). reflexivity.
  - apply (f4_caller _ _ F).
  - apply (f4_done _ _ F).
Qed.

(* ---------- sums compared pointwise ---------- *)
Lemma sumf_seq {A} (f : A -> nat) (l : list A) d : f d = 0%nat -> forall N, (length l <= N)%nat ->
  sumf f l = sumf (fun x => f (nth x l d)) (seq 0 N).
Proof.
  intros Hd. induction l as [|a l IH]; intros N HN.
  - rewrite sumf_nil. clear HN.
    assert (Z : forall k, sumf (fun x => f (nth x (@nil A) d)) (seq k N) = 0%nat).
    { induction N as [|N IHN]; intros k; [reflexivity|]. cbn [seq]. rewrite sumf_cons, IHN. destruct k; cbn; rewrite Hd; reflexivity. }
    symmetry. apply Z.
  - destruct N as [|N]; [cbn in HN; lia|]. cbn [seq]. rewrite !sumf_cons. cbn [nth]. f_equal.
    rewrite <- seq_shift, sumf_map. rewrite (IH N) by (cbn in HN; lia). reflexivity.
Qed.

Lemma sumf_pointwise {A B} (f : A -> nat) (g : B -> nat) l l' d d' :
  (forall x, f (nth x l d) = g (nth x l' d')) -> f d = 0%nat -> g d' = 0%nat -> sumf f l = sumf g l'.
Proof.
  intros H Hf Hg.
  rewrite (sumf_seq f l d Hf (Nat.max (length l) (length l'))) by lia.
  rewrite (sumf_seq g l' d' Hg (Nat.max (length l) (length l'))) by lia.
  apply sumf_ext. intros x _. apply H.
Qed.

(* ---------- more structural facts about [continue] ---------- *)
Lemma continue_prog s t l : caller_lab l = false -> ps_prog (fst (continue s t l)) = ps_prog s.
Proof.
  destruct l; cbn [caller_lab continue]; try discriminate; intros _;
    repeat break_match_goal; reflexivity.
Qed.

Lemma continue_todo s t l h : nonspecial s l = true ->
  dispatched (lab_todo (t_lab (snd (continue s t l))) ++ ps_prog (fst (continue s t l))) (ps_njobs (fst (continue s t l))) h =
  dispatched (lab_todo l ++ ps_prog s) (ps_njobs s) h.
Proof.
  destruct l; cbn [nonspecial continue]; try discriminate; intros NS;
    try (revert NS; unfold caller_next; destruct (ps_prog s) as [|[]] eqn:Ep; intros NS; try discriminate; cbn [fst snd]; rewrite ?Ep; reflexivity);
    repeat break_match_goal; try discriminate; reflexivity.
Qed.

Lemma continue_caller s t l : nonspecial s l = true -> caller_lab l = true ->
  (caller_lab (t_lab (snd (continue s t l))) = true \/ t_lab (snd (continue s t l)) = LDone) /\
  (t_lab (snd (continue s t l)) = LDone -> ps_prog (fst (continue s t l)) = []).
Proof.
  destruct l; cbn [nonspecial continue caller_lab]; try discriminate; intros NS _;
    try (revert NS; unfold caller_next; destruct (ps_prog s) as [|[]] eqn:Ep; intros NS; try discriminate;
         cbn [snd fst t_lab pend caller_lab ps_prog]; (split; [first [left; reflexivity|right; reflexivity]|intros; try discriminate; try reflexivity; try assumption]));
    repeat break_match_goal; try discriminate; cbn [snd fst t_lab pend caller_lab]; (split; [left; reflexivity|discriminate]).
Qed.

Lemma after_labels s t l x : (t < length (ps_threads s))%nat -> nonspecial s l = true ->
  (x = t /\ t_lab (gett (after s t l) x) = t_lab (snd (continue s t l))) \/
  (x <> t /\ t_lab (gett (after s t l) x) = t_lab (gett s x)) \/
  (x <> t /\ (length (ps_threads s) <= x)%nat /\ (exists i, t_lab (gett (after s t l) x) = W0 i) /\ t_lab (gett s x) = LDone).
Proof.
  intros Ht NS. unfold after. pose proof (continue_threads3 s t l NS) as HT. cbn zeta in HT.
  set (s' := fst (continue s t l)) in *. set (th' := snd (continue s t l)) in *.
  rewrite gett_set_thread. destruct (Nat.eqb_spec x t) as [->|Hne]; cbn [andb].
  - left. split; [reflexivity|]. destruct (Nat.ltb_spec t (length (ps_threads s'))); [reflexivity|].
    exfalso. destruct HT as [E|[i E]]; rewrite E in H; [|rewrite app_length in H]; lia.
  - right. unfold gett at 1 3. destruct HT as [E|[i E]]; rewrite E; [left; split; [exact Hne|reflexivity]|].
    rewrite nth_app_snoc. destruct (Nat.ltb_spec x (length (ps_threads s))); [left; split; [exact Hne|reflexivity]|].
    destruct (Nat.eqb_spec x (length (ps_threads s))).
    + right. split; [exact Hne|]. split; [lia|]. split; [exists i; reflexivity|]. fold (gett s x). rewrite gett_oob by lia. reflexivity.
    + left. split; [exact Hne|]. fold (gett s x). rewrite gett_oob by lia. reflexivity.
Qed.

Lemma nonspecial_not_w4u s l : nonspecial s l = true -> lab_w4u l = None.
Proof. destruct l; cbn; try discriminate; reflexivity. Qed.

Lemma after_frame4 prog s t l stash : Inv2 s -> Inv4 prog s stash ->
  (t < length (ps_threads s))%nat -> t_lab (gett s t) = l -> nonspecial s l = true ->
  frame4 s (after s t l).
Proof.
  intros I2 B Ht Hl NS.
  pose proof (after_frame3 s t l Ht Hl NS) as F3.
  pose proof (continue_label3 s t l NS) as (_ & _ & _ & _ & L5). cbn zeta in L5.
  assert (W4 : forall x, lab_w4u (t_lab (gett (after s t l) x)) = lab_w4u (t_lab (gett s x))).
  { intros x. destruct (after_labels s t l x Ht NS) as [[-> E]|[[Hne E]|(Hne & _ & [i E] & E')]]; rewrite E.
    - rewrite Hl, (nonspecial_not_w4u _ _ NS). destruct (t_lab (snd (continue s t l))) eqn:E1; try reflexivity.
      exfalso. exact (L5 _ _ eq_refl).
    - reflexivity.
    - rewrite E'. reflexivity. }
  assert (C0 : t <> 0%nat -> caller_lab l = false).
  { intros Hne. destruct (caller_lab l) eqn:Ec; [|reflexivity]. exfalso. apply Hne.
    apply (tk_caller _ _ _ (i2_threads _ I2 t)). rewrite Hl. exact Ec. }
  assert (P0 : t <> 0%nat -> ps_prog (after s t l) = ps_prog s /\ t_lab (gett (after s t l) 0) = t_lab (gett s 0)).
  { intros Hne. split; [apply (continue_prog s t l (C0 Hne))|].
    destruct (after_labels s t l 0%nat Ht NS) as [[E _]|[[_ E]|(_ & Hge & _)]]; [congruence|exact E|lia]. }
  constructor.
  - exact F3.
  - intros h. rewrite (f_njobs _ _ F3). unfold todo. destruct (Nat.eq_dec t 0) as [->|Hne].
    + destruct (after_labels s 0%nat l 0%nat Ht NS) as [[_ E]|[[Hx _]|(Hx & _)]]; try congruence.
      rewrite E. rewrite Hl.
      pose proof (continue_todo s 0%nat l h NS) as T.
      pose proof (continue_scalars3 s 0%nat l NS) as [En _]. cbn zeta in En. rewrite En in T. exact T.
    + destruct (P0 Hne) as [-> ->]. reflexivity.
  - intros h n.
    pose proof (continue_workers3 s t l NS) as HW. cbn zeta in HW. change (ps_workers (after s t l)) with (ps_workers (fst (continue s t l))).
    destruct HW as [E|[(i0 & w' & E & E1 & E2)|(w0 & E & E1 & E2)]]; rewrite E.
    + reflexivity.
    + destruct (Nat.lt_ge_cases i0 (length (ps_workers s))) as [Hi|Hi]; [|rewrite upd_nth_oob by exact Hi; reflexivity].
      pose proof (sumf_upd_nth (self_w h n) (ps_workers s) i0 w' dummy_w Hi) as S. fold (getw s i0) in S.
      assert (self_w h n w' = self_w h n (getw s i0)) by (unfold self_w, rq_is; rewrite E1, E2; reflexivity). lia.
    + rewrite sumf_app, sumf_cons, sumf_nil. unfold self_w, rq_is. rewrite E2. lia.
  - intros h n. apply (sumf_pointwise _ _ _ _ dummy_t dummy_t); try reflexivity.
    intros x. fold (gett (after s t l) x). fold (gett s x). unfold self_t. rewrite W4.
    destruct (lab_w4u _) as [[i q]|]; [rewrite (f_jobs _ _ F3); reflexivity|reflexivity].
  - destruct (Nat.eq_dec t 0) as [->|Hne].
    + destruct (after_labels s 0%nat l 0%nat Ht NS) as [[_ E]|[[Hx _]|(Hx & _)]]; try congruence. rewrite E.
      destruct (b_caller _ _ _ B) as [Hc|Hc]; rewrite Hl in Hc.
      * apply (continue_caller s 0%nat l NS Hc).
      * rewrite Hc in NS. discriminate.
    + destruct (P0 Hne) as [_ ->]. apply (b_caller _ _ _ B).
  - destruct (Nat.eq_dec t 0) as [->|Hne].
    + destruct (after_labels s 0%nat l 0%nat Ht NS) as [[_ E]|[[Hx _]|(Hx & _)]]; try congruence. rewrite E.
      destruct (b_caller _ _ _ B) as [Hc|Hc]; rewrite Hl in Hc.
      * apply (continue_caller s 0%nat l NS Hc).
      * rewrite Hc in NS. discriminate.
    + destruct (P0 Hne) as [-> ->]. apply (b_done _ _ _ B).
Qed.

(* ---------- helpers for the moving steps ---------- *)
Lemma sumf_change_at {A} (f f' : A -> nat) l t d : (t < length l)%nat ->
  (forall x, x <> t -> f' (nth x l d) = f (nth x l d)) ->
  (sumf f' l + f (nth t l d) = sumf f l + f' (nth t l d))%nat.
Proof.
  revert t. induction l as [|a l IH]; intros t Ht H; cbn [length] in Ht; [lia|].
  destruct t as [|t]; cbn [nth]; rewrite !sumf_cons.
  - assert (E : sumf f' l = sumf f l).
    { apply (sumf_ext_nth _ _ _ d). intros x Hx. apply (H (S x)). lia. }
    lia.
  - pose proof (H 0%nat ltac:(lia)) as H0. cbn [nth] in H0.
    specialize (IH t ltac:(lia) (fun x Hx => H (S x) ltac:(lia))). lia.
Qed.

Lemma selft_upd s st' t th' h n :
  ps_threads st' = upd_nth (ps_threads s) t th' -> (t < length (ps_threads s))%nat ->
  (forall x, x <> t -> self_t st' h n (gett s x) = self_t s h n (gett s x)) ->
  (sumf (self_t st' h n) (ps_threads st') + self_t s h n (gett s t) = sumf (self_t s h n) (ps_threads s) + self_t st' h n th')%nat.
Proof.
  intros E Ht H. rewrite E.
  pose proof (sumf_upd_nth (self_t st' h n) (ps_threads s) t th' dummy_t Ht) as A. fold (gett s t) in A.
  pose proof (sumf_change_at (self_t s h n) (self_t st' h n) (ps_threads s) t dummy_t Ht H) as B'. fold (gett s t) in B'.
  lia.
Qed.

Lemma selfw_upd s st' i w' h n :
  ps_workers st' = upd_nth (ps_workers s) i w' -> (i < length (ps_workers s))%nat ->
  (sumf (self_w h n) (ps_workers st') + self_w h n (getw s i) = sumf (self_w h n) (ps_workers s) + self_w h n w')%nat.
Proof. intros E Hi. rewrite E. apply (sumf_upd_nth (self_w h n) (ps_workers s) i w' dummy_w Hi). Qed.

Lemma lab_w4u_ttok ord l i q : lab_w4u l = Some (i, q) -> ttok ord l i = 1%nat.
Proof. destruct l; cbn; try discriminate. intros H. inversion H; subst. rewrite Nat.eqb_refl. reflexivity. Qed.

Lemma dispatched_cons_dispatch q r n h : dispatched (Dispatch q :: r) n h = (if Nat.eqb q h then [n] else []) ++ dispatched r (n + 1) h.
Proof. reflexivity. Qed.

Section ExactSteps.
Variable prog : list cmd.
Variable s : pstate.
Variable t : nat.
Variable stash : list (nat * N).
Hypothesis I2 : Inv2 s.
Hypothesis K : Inv3 s stash.
Hypothesis B : Inv4 prog s stash.
Hypothesis Ht : (t < length (ps_threads s))%nat.
Let Tt := i2_threads s I2 t.

Lemma exact_D5 q i : t_lab (gett s t) = D5 q i -> Inv4 prog (after s t (D5 q i)) stash.
Proof.
  intros Hlab.
  assert (Hf : free_w (getw s i) = true) by (apply (tk_free _ _ _ Tt); rewrite Hlab; reflexivity).
  destruct (free_fields _ Hf) as (F1 & F2 & F3 & F4).
  assert (Hone : ttok (ord_of s) (t_lab (gett s t)) i = 1%nat) by (rewrite Hlab; cbn; rewrite Nat.eqb_refl; reflexivity).
  destruct (sole_thread s t i I2 Hone) as (Hi & S1 & S2 & S3 & S4).
  assert (Ht0 : t = 0%nat) by (apply (tk_caller _ _ _ Tt); rewrite Hlab; reflexivity).
  unfold after. cbn [continue fst snd].
  set (w' := mkw (wk_tid (getw s i)) true true (ps_njobs s) (wk_res (getw s i)) (if q_ordered (getq s q) then None else Some q)).
  set (th' := pend KSignal (OWc i) (D5s q i)).
  match goal with |- Inv4 _ ?S _ => set (st' := S) end.
  assert (G : forall x, gett st' x = if Nat.eqb x t then th' else gett s x) by (intros; apply (gett_upd s st' t th' x eq_refl Ht)).
  assert (Gw : forall k, getw st' k = if Nat.eqb k i then w' else getw s k) by (intros; apply (getw_upd s st' i w' k eq_refl Hi)).
  assert (Jw : jobs (getw s i) = []) by (unfold jobs; rewrite F2, F3; reflexivity).
  assert (Jw' : jobs w' = [ps_njobs s]) by (unfold jobs, w'; cbn; rewrite F3; reflexivity).
  assert (Lx : forall x, x <> t -> gett st' x = gett s x).
  { intros x Hne. rewrite G. destruct (Nat.eqb_spec x t); [contradiction|reflexivity]. }
  assert (Lt : gett st' t = th') by (rewrite G, Nat.eqb_refl; reflexivity).
  assert (Jx : forall k, k <> i -> jobs (getw st' k) = jobs (getw s k)).
  { intros k Hk. rewrite Gw. destruct (Nat.eqb_spec k i); [contradiction|reflexivity]. }
  constructor.
  - intros h n. rewrite <- (b_bal _ _ _ B h n). unfold bal, selfcnt.
    (* delivered *)
    change (delivered_of st' h) with (delivered_of s h).
    change (getq st' h) with (getq s h).
    (* pending *)
    assert (EP : pend_jobs st' h = if Nat.eqb q h then [ps_njobs s] else []).
    { unfold pend_jobs. rewrite <- Ht0, Lt. cbn [th' t_lab pend lab_pending]. rewrite Gw, Nat.eqb_refl, Jw'. reflexivity. }
    assert (EP0 : pend_jobs s h = []) by (unfold pend_jobs; rewrite <- Ht0, Hlab; reflexivity).
    (* listed *)
    assert (EL : listed_jobs st' h = listed_jobs s h).
    { unfold listed_jobs. change (getq st' h) with (getq s h). apply flat_map_ext_in'. intros k Hk. apply Jx.
      intros ->. exact (S3 h Hk). }
    (* carried *)
    assert (EC : carry st' stash h (q_tid (getq s h)) = carry s stash h (q_tid (getq s h))).
    { unfold carry. set (x := q_tid (getq s h)).
      destruct (Nat.eq_dec x t) as [->|Hne]; [rewrite Lt, Hlab; reflexivity|]. rewrite (Lx x Hne).
      destruct (lab_popped (t_lab (gett s x))) as [[j0 i0]|] eqn:Ep; [|reflexivity].
      rewrite Jx; [reflexivity|]. intros ->.
      pose proof (lab_popped_ttok (ord_of s) _ _ _ Ep) as E1. rewrite (S2 x Hne) in E1. discriminate. }
    (* self, workers *)
    pose proof (selfw_upd s st' i w' h n eq_refl Hi) as ESW.
    assert (E1 : self_w h n (getw s i) = 0%nat) by (unfold self_w, rq_is; rewrite F4; reflexivity).
    assert (E2 : self_w h n w' = if negb (q_ordered (getq s q)) && Nat.eqb q h then cntN [ps_njobs s] n else 0%nat).
    { unfold self_w, rq_is. rewrite Jw'. unfold w'. cbn [wk_rq]. destruct (q_ordered (getq s q)); reflexivity. }
    (* self, threads *)
    assert (EST : sumf (self_t st' h n) (ps_threads st') = sumf (self_t s h n) (ps_threads s)).
    { pose proof (selft_upd s st' t th' h n eq_refl Ht) as E. 
      assert (self_t s h n (gett s t) = 0%nat) by (unfold self_t; rewrite Hlab; reflexivity).
      assert (self_t st' h n th' = 0%nat) by reflexivity.
      assert (forall x, x <> t -> self_t st' h n (gett s x) = self_t s h n (gett s x)).
      { intros x Hne. unfold self_t. destruct (lab_w4u (t_lab (gett s x))) as [[i1 q1]|] eqn:Ew; [|reflexivity].
        rewrite Jx; [reflexivity|]. intros ->.
        pose proof (lab_w4u_ttok (ord_of s) _ _ _ Ew) as E3. rewrite (S2 x Hne) in E3. discriminate. }
      specialize (E H1). lia. }
    (* to do *)
    assert (ET : cntN (dispatched (todo s) (ps_njobs s) h) n =
                 (cntN (if Nat.eqb q h then [ps_njobs s] else []) n + cntN (dispatched (todo st') (ps_njobs st') h) n)%nat).
    { unfold todo. rewrite <- Ht0, Lt, Hlab. cbn [th' t_lab pend lab_todo app]. rewrite dispatched_cons_dispatch, cntN_app. reflexivity. }
    rewrite EP, EP0, EL, EC, EST, ET. rewrite cntN_nil.
    destruct (Nat.eqb_spec q h) as [->|Hne]; rewrite ?andb_true_r, ?andb_false_r in E2.
    + destruct (q_ordered (getq s h)); cbn [negb] in E2; rewrite ?cntN_nil; lia.
    + rewrite ?cntN_nil. destruct (q_ordered (getq s h)); lia.
  - rewrite <- Ht0, Lt. left. reflexivity.
  - rewrite <- Ht0, Lt. discriminate.
Qed.

(* only thread t's record changes, between two labels that are not W4u; jobs unchanged *)
Lemma selft_same (st' : pstate) th' :
  ps_threads st' = upd_nth (ps_threads s) t th' -> (forall k, jobs (getw st' k) = jobs (getw s k)) ->
  lab_w4u (t_lab th') = None -> lab_w4u (t_lab (gett s t)) = None ->
  forall h n, sumf (self_t st' h n) (ps_threads st') = sumf (self_t s h n) (ps_threads s).
Proof.
  intros E J A1 A2 h n. pose proof (selft_upd s st' t th' h n E Ht) as U.
  assert (self_t s h n (gett s t) = 0%nat) by (unfold self_t; rewrite A2; reflexivity).
  assert (self_t st' h n th' = 0%nat) by (unfold self_t; rewrite A1; reflexivity).
  assert (forall x, x <> t -> self_t st' h n (gett s x) = self_t s h n (gett s x)).
  { intros x _. unfold self_t. destruct (lab_w4u (t_lab (gett s x))) as [[i1 q1]|].
    - rewrite J. reflexivity.
    - reflexivity. }
  specialize (U H1). lia.
Qed.

Lemma pend_same4 (st' : pstate) th' :
  (forall x, gett st' x = if Nat.eqb x t then th' else gett s x) -> (forall k, jobs (getw st' k) = jobs (getw s k)) ->
  lab_pending (t_lab th') = lab_pending (t_lab (gett s t)) ->
  forall j, pend_jobs st' j = pend_jobs s j.
Proof.
  intros G J A j. unfold pend_jobs. rewrite G. destruct (Nat.eqb_spec 0 t) as [<-|]; cbv iota.
  - rewrite A. destruct (lab_pending (t_lab (gett s 0))) as [[q i]|]; [rewrite J; reflexivity|reflexivity].
  - destruct (lab_pending (t_lab (gett s 0))) as [[q i]|]; [rewrite J; reflexivity|reflexivity].
Qed.

Lemma carry_same4 (st' : pstate) th' :
  (forall x, gett st' x = if Nat.eqb x t then th' else gett s x) -> (forall k, jobs (getw st' k) = jobs (getw s k)) ->
  lab_popped (t_lab th') = None -> lab_stash (t_lab th') = None ->
  lab_popped (t_lab (gett s t)) = None -> lab_stash (t_lab (gett s t)) = None ->
  forall j x, carry st' stash j x = carry s stash j x.
Proof.
  intros G J A1 A2 A3 A4 j x. unfold carry. rewrite G. destruct (Nat.eqb_spec x t) as [->|]; cbv iota.
  - rewrite A1, A2, A3, A4. reflexivity.
  - destruct (lab_popped (t_lab (gett s x))) as [[j0 i0]|]; [rewrite J; reflexivity|reflexivity].
Qed.

Lemma todo_same (st' : pstate) th' :
  (forall x, gett st' x = if Nat.eqb x t then th' else gett s x) -> ps_prog st' = ps_prog s ->
  lab_todo (t_lab th') = lab_todo (t_lab (gett s t)) -> todo st' = todo s.
Proof.
  intros G E A. unfold todo. rewrite E, G. destruct (Nat.eqb_spec 0 t) as [<-|]; cbv iota; [rewrite A|]; reflexivity.
Qed.

Lemma caller_same (st' : pstate) th' :
  (forall x, gett st' x = if Nat.eqb x t then th' else gett s x) -> ps_prog st' = ps_prog s ->
  (t = 0%nat -> caller_lab (t_lab th') = true) ->
  (caller_lab (t_lab (gett st' 0)) = true \/ t_lab (gett st' 0) = LDone) /\ (t_lab (gett st' 0) = LDone -> ps_prog st' = []).
Proof.
  intros G E A. rewrite G, E. destruct (Nat.eqb_spec 0 t) as [<-|]; cbv iota.
  - specialize (A eq_refl). split; [left; exact A|]. intros H. rewrite H in A. discriminate.
  - split; [apply (b_caller _ _ _ B)|apply (b_done _ _ _ B)].
Qed.

Lemma exact_D7 q i : t_lab (gett s t) = D7 q i -> Inv4 prog (after s t (D7 q i)) stash.
Proof.
  intros Hlab.
  destruct (tk_dispatch _ _ _ Tt q) as [Dq Df]; [rewrite Hlab; reflexivity|].
  assert (Ht0 : t = 0%nat) by (apply (tk_caller _ _ _ Tt); rewrite Hlab; reflexivity).
  unfold after. cbn [continue]. rewrite Df.
  destruct (q_ordered (getq s q)) eqn:Eo; cbn [fst snd].
  - match goal with |- Inv4 _ (set_thread (set_queues s (upd_nth _ q ?Q)) t ?T) _ => set (qq' := Q); set (th' := T) end.
    match goal with |- Inv4 _ ?S _ => set (st' := S) end.
    assert (G : forall x, gett st' x = if Nat.eqb x t then th' else gett s x) by (intros; apply (gett_upd s st' t th' x eq_refl Ht)).
    assert (Gq : forall k, getq st' k = if Nat.eqb k q then qq' else getq s k) by (intros; apply (getq_upd s st' q qq' k eq_refl Dq)).
    assert (J : forall k, jobs (getw st' k) = jobs (getw s k)) by reflexivity.
    destruct (caller_same st' th' G eq_refl) as [C1 C2]; [reflexivity|].
    constructor; [|exact C1|exact C2].
    intros h n. rewrite <- (b_bal _ _ _ B h n). unfold bal, selfcnt.
    change (delivered_of st' h) with (delivered_of s h). change (ps_workers st') with (ps_workers s).
    rewrite (selft_same st' th' eq_refl J) by (rewrite ?Hlab; reflexivity).
    rewrite (todo_same st' th' G eq_refl) by (rewrite ?Hlab; reflexivity).
    change (ps_njobs st') with (ps_njobs s).
    assert (EC : carry st' stash h (q_tid (getq st' h)) = carry s stash h (q_tid (getq s h))).
    { rewrite (carry_same4 st' th' G J) by (rewrite ?Hlab; reflexivity). rewrite Gq. destruct (Nat.eqb_spec h q) as [->|]; reflexivity. }
    assert (EO : q_ordered (getq st' h) = q_ordered (getq s h)).
    { rewrite Gq. destruct (Nat.eqb_spec h q) as [->|]; [symmetry; exact Eo|reflexivity]. }
    rewrite EC, EO.
    assert (EP' : pend_jobs st' h = []) by (unfold pend_jobs; rewrite <- Ht0, G, Nat.eqb_refl; reflexivity).
    assert (EP : pend_jobs s h = if Nat.eqb q h then jobs (getw s i) else []) by (unfold pend_jobs; rewrite <- Ht0, Hlab; reflexivity).
    assert (EL : listed_jobs st' h = listed_jobs s h ++ (if Nat.eqb q h then jobs (getw s i) else [])).
    { unfold listed_jobs. rewrite Gq. destruct (Nat.eqb_spec h q) as [->|Hne].
      - rewrite Nat.eqb_refl. cbn [qq' q_list]. rewrite flat_map_snoc. reflexivity.
      - destruct (Nat.eqb_spec q h); [congruence|]. rewrite app_nil_r. reflexivity. }
    rewrite EP', EP, EL, cntN_app, cntN_nil.
    destruct (Nat.eqb_spec q h) as [->|]; [rewrite Eo|rewrite cntN_nil; destruct (q_ordered (getq s h))]; lia.
  - match goal with |- Inv4 _ (set_thread (set_queues s (upd_nth _ q ?Q)) t ?T) _ => set (qq' := Q); set (th' := T) end.
    match goal with |- Inv4 _ ?S _ => set (st' := S) end.
    assert (G : forall x, gett st' x = if Nat.eqb x t then th' else gett s x) by (intros; apply (gett_upd s st' t th' x eq_refl Ht)).
    assert (Gq : forall k, getq st' k = if Nat.eqb k q then qq' else getq s k) by (intros; apply (getq_upd s st' q qq' k eq_refl Dq)).
    assert (J : forall k, jobs (getw st' k) = jobs (getw s k)) by reflexivity.
    destruct (caller_same st' th' G eq_refl) as [C1 C2]; [reflexivity|].
    constructor; [|exact C1|exact C2].
    intros h n. rewrite <- (b_bal _ _ _ B h n). unfold bal, selfcnt.
    change (delivered_of st' h) with (delivered_of s h). change (ps_workers st') with (ps_workers s).
    rewrite (selft_same st' th' eq_refl J) by (rewrite ?Hlab; reflexivity).
    rewrite (todo_same st' th' G eq_refl) by (rewrite ?Hlab; reflexivity).
    change (ps_njobs st') with (ps_njobs s).
    assert (EC : carry st' stash h (q_tid (getq st' h)) = carry s stash h (q_tid (getq s h))).
    { rewrite (carry_same4 st' th' G J) by (rewrite ?Hlab; reflexivity). rewrite Gq. destruct (Nat.eqb_spec h q) as [->|]; reflexivity. }
    assert (EO : q_ordered (getq st' h) = q_ordered (getq s h)).
    { rewrite Gq. destruct (Nat.eqb_spec h q) as [->|]; [symmetry; exact Eo|reflexivity]. }
    rewrite EC, EO.
    assert (EP' : pend_jobs st' h = []) by (unfold pend_jobs; rewrite <- Ht0, G, Nat.eqb_refl; reflexivity).
    assert (EP : pend_jobs s h = if Nat.eqb q h then jobs (getw s i) else []) by (unfold pend_jobs; rewrite <- Ht0, Hlab; reflexivity).
    assert (EL : listed_jobs st' h = listed_jobs s h).
    { unfold listed_jobs. rewrite Gq. destruct (Nat.eqb_spec h q) as [->|Hne]; reflexivity. }
    rewrite EP', EP, EL, cntN_nil.
    destruct (Nat.eqb_spec q h) as [->|]; [rewrite Eo|rewrite cntN_nil; destruct (q_ordered (getq s h))]; lia.
Qed.

Lemma thread0_not_worker : lab_worker (t_lab (gett s t)) <> None -> t <> 0%nat.
Proof.
  intros H E. subst t. destruct (b_caller _ _ _ B) as [Hc|Hc]; destruct (t_lab (gett s 0)); try discriminate; apply H; reflexivity.
Qed.

(* W3 with a job: the result replaces the job; an unordered worker now travels by its label *)
Lemma exact_W3 i : t_lab (gett s t) = W3 i -> wk_hasjob (getw s i) = true -> Inv4 prog (after s t (W3 i)) stash.
Proof.
  intros Hlab Hj.
  destruct (wthread_self s t i I2) as (W1 & W2 & W3 & W4); [rewrite Hlab; reflexivity|].
  assert (Hn0 : t <> 0%nat) by (apply thread0_not_worker; rewrite Hlab; discriminate).
  rewrite Hlab in W3. unfold after. cbn [continue]. rewrite Hj. cbn [negb].
  revert W3. unfold wphase_ok. cbn [wloop]. rewrite Hj.
  destruct (wk_running (getw s i)) eqn:F1, (wk_res (getw s i)) as [r|] eqn:F3; rewrite ?andb_false_r; cbn [orb]; try discriminate.
  intros _.
  assert (Jw : jobs (getw s i) = [wk_job (getw s i)]) by (unfold jobs; rewrite Hj, F3; reflexivity).
  destruct (wk_rq (getw s i)) as [q|] eqn:F4; cbn [fst snd].
  - set (w' := mkw (wk_tid (getw s i)) false false 0 (Some (wk_job (getw s i))) None).
    set (th' := pend KLock (OQm q) (W4u i q)).
    match goal with |- Inv4 _ ?S _ => set (st' := S) end.
    assert (G : forall x, gett st' x = if Nat.eqb x t then th' else gett s x) by (intros; apply (gett_upd s st' t th' x eq_refl Ht)).
    assert (Gw : forall k, getw st' k = if Nat.eqb k i then w' else getw s k) by (intros; apply (getw_upd s st' i w' k eq_refl W1)).
    assert (J : forall k, jobs (getw st' k) = jobs (getw s k)).
    { intros k. rewrite Gw. destruct (Nat.eqb_spec k i) as [->|]; [rewrite Jw; reflexivity|reflexivity]. }
    destruct (caller_same st' th' G eq_refl) as [C1 C2]; [intros; congruence|].
    constructor; [|exact C1|exact C2].
    intros h n. rewrite <- (b_bal _ _ _ B h n). unfold bal, selfcnt.
    change (delivered_of st' h) with (delivered_of s h). change (getq st' h) with (getq s h).
    rewrite (pend_same4 st' th' G J) by (rewrite ?Hlab; reflexivity).
    rewrite (carry_same4 st' th' G J) by (rewrite ?Hlab; reflexivity).
    rewrite (todo_same st' th' G eq_refl) by (rewrite ?Hlab; reflexivity).
    change (ps_njobs st') with (ps_njobs s).
    assert (EL : listed_jobs st' h = listed_jobs s h).
    { unfold listed_jobs. change (getq st' h) with (getq s h). apply flat_map_ext. intros k. apply J. }
    rewrite EL.
    pose proof (selfw_upd s st' i w' h n eq_refl W1) as ESW.
    assert (E1 : self_w h n (getw s i) = if Nat.eqb q h then cntN [wk_job (getw s i)] n else 0%nat).
    { unfold self_w, rq_is. rewrite F4, Jw. reflexivity. }
    assert (E2 : self_w h n w' = 0%nat) by reflexivity.
    pose proof (selft_upd s st' t th' h n eq_refl Ht) as EST.
    assert (E3 : self_t s h n (gett s t) = 0%nat) by (unfold self_t; rewrite Hlab; reflexivity).
    assert (E4 : self_t st' h n th' = if Nat.eqb q h then cntN [wk_job (getw s i)] n else 0%nat).
    { unfold self_t. cbn [th' t_lab pend lab_w4u]. rewrite J, Jw. reflexivity. }
    assert (E5 : forall x, x <> t -> self_t st' h n (gett s x) = self_t s h n (gett s x)).
    { intros x _. unfold self_t. destruct (lab_w4u (t_lab (gett s x))) as [[i1 q1]|].
      - rewrite J. reflexivity.
      - reflexivity. }
    specialize (EST E5). lia.
  - apply (inv4_frame prog s); [|exact B].
    set (w' := mkw (wk_tid (getw s i)) true false 0 (Some (wk_job (getw s i))) None).
    set (th' := pend KLock (OWm i) (W4o i)).
    match goal with |- frame4 _ ?S => set (st' := S) end.
    assert (G : forall x, gett st' x = if Nat.eqb x t then th' else gett s x) by (intros; apply (gett_upd s st' t th' x eq_refl Ht)).
    assert (Gw : forall k, getw st' k = if Nat.eqb k i then w' else getw s k) by (intros; apply (getw_upd s st' i w' k eq_refl W1)).
    assert (J : forall k, jobs (getw st' k) = jobs (getw s k)).
    { intros k. rewrite Gw. destruct (Nat.eqb_spec k i) as [->|]; [rewrite Jw; reflexivity|reflexivity]. }
    destruct (caller_same st' th' G eq_refl) as [C1 C2]; [intros; congruence|].
    constructor; [| | | |exact C1|exact C2].
    + apply (frame3_worker_thread s t Ht st' th' i w'); try reflexivity; try assumption; rewrite ?Hlab; try reflexivity; try (cbn; intros; discriminate).
      rewrite Jw. reflexivity.
    + intros h. rewrite (todo_same st' th' G eq_refl) by (rewrite ?Hlab; reflexivity). reflexivity.
    + intros h n. pose proof (selfw_upd s st' i w' h n eq_refl W1) as ESW.
      assert (self_w h n (getw s i) = 0%nat) by (unfold self_w, rq_is; rewrite F4; reflexivity).
      assert (self_w h n w' = 0%nat) by reflexivity. lia.
    + apply (selft_same st' th' eq_refl J); rewrite ?Hlab; reflexivity.
Qed.

Lemma exact_W4u i q : t_lab (gett s t) = W4u i q -> Inv4 prog (after s t (W4u i q)) stash.
Proof.
  intros Hlab.
  pose proof (tk_w4u _ _ _ Tt i q Hlab) as Dq.
  assert (Hn0 : t <> 0%nat) by (apply thread0_not_worker; rewrite Hlab; discriminate).
  unfold after. cbn [continue fst snd].
  match goal with |- Inv4 _ (set_thread (set_queues s (upd_nth _ q ?Q)) t ?T) _ => set (qq' := Q); set (th' := T) end.
  match goal with |- Inv4 _ ?S _ => set (st' := S) end.
  assert (G : forall x, gett st' x = if Nat.eqb x t then th' else gett s x) by (intros; apply (gett_upd s st' t th' x eq_refl Ht)).
  assert (Gq : forall k, getq st' k = if Nat.eqb k q then qq' else getq s k) by (intros; apply (getq_upd s st' q qq' k eq_refl Dq)).
  assert (J : forall k, jobs (getw st' k) = jobs (getw s k)) by reflexivity.
  destruct (caller_same st' th' G eq_refl) as [C1 C2]; [intros; congruence|].
  constructor; [|exact C1|exact C2].
  intros h n. rewrite <- (b_bal _ _ _ B h n). unfold bal, selfcnt.
  change (delivered_of st' h) with (delivered_of s h). change (ps_workers st') with (ps_workers s).
  rewrite (pend_same4 st' th' G J) by (rewrite ?Hlab; reflexivity).
  rewrite (todo_same st' th' G eq_refl) by (rewrite ?Hlab; reflexivity).
  change (ps_njobs st') with (ps_njobs s).
  assert (EC : carry st' stash h (q_tid (getq st' h)) = carry s stash h (q_tid (getq s h))).
  { rewrite (carry_same4 st' th' G J) by (rewrite ?Hlab; reflexivity). rewrite Gq. destruct (Nat.eqb_spec h q) as [->|]; reflexivity. }
  assert (EO : q_ordered (getq st' h) = q_ordered (getq s h)).
  { rewrite Gq. destruct (Nat.eqb_spec h q) as [->|]; reflexivity. }
  rewrite EC, EO.
  assert (EL : listed_jobs st' h = listed_jobs s h ++ (if Nat.eqb q h then jobs (getw s i) else [])).
  { unfold listed_jobs. rewrite Gq. destruct (Nat.eqb_spec h q) as [->|Hne].
    - rewrite Nat.eqb_refl. cbn [qq' q_list]. rewrite flat_map_snoc. reflexivity.
    - destruct (Nat.eqb_spec q h); [congruence|]. rewrite app_nil_r. reflexivity. }
  pose proof (selft_upd s st' t th' h n eq_refl Ht) as EST.
  assert (E3 : self_t s h n (gett s t) = if Nat.eqb q h then cntN (jobs (getw s i)) n else 0%nat) by (unfold self_t; rewrite Hlab; reflexivity).
  assert (E4 : self_t st' h n th' = 0%nat) by reflexivity.
  assert (E5 : forall x, x <> t -> self_t st' h n (gett s x) = self_t s h n (gett s x)) by (intros; reflexivity).
  specialize (EST E5). rewrite EL, cntN_app. destruct (Nat.eqb q h); rewrite ?cntN_nil; lia.
Qed.

Lemma exact_H1 j0 i rest : t_lab (gett s t) = H1 j0 -> q_list (getq s j0) = i :: rest -> Inv4 prog (after s t (H1 j0)) stash.
Proof.
  intros Hlab El.
  destruct (k_handler _ _ K t j0) as [Dq Etid]; [rewrite Hlab; reflexivity|].
  unfold after. cbn [continue]. rewrite El. cbn [fst snd].
  match goal with |- Inv4 _ (set_thread (set_queues s (upd_nth _ j0 ?Q)) t ?T) _ => set (qq' := Q); set (th' := T) end.
  match goal with |- Inv4 _ ?S _ => set (st' := S) end.
  assert (G : forall x, gett st' x = if Nat.eqb x t then th' else gett s x) by (intros; apply (gett_upd s st' t th' x eq_refl Ht)).
  assert (Gq : forall k, getq st' k = if Nat.eqb k j0 then qq' else getq s k) by (intros; apply (getq_upd s st' j0 qq' k eq_refl Dq)).
  assert (J : forall k, jobs (getw st' k) = jobs (getw s k)) by reflexivity.
  assert (Hn0 : t <> 0%nat).
  { intros E. destruct (b_caller _ _ _ B) as [Hc|Hc]; rewrite <- E, Hlab in Hc; discriminate. }
  destruct (caller_same st' th' G eq_refl) as [C1 C2]; [intros; congruence|].
  constructor; [|exact C1|exact C2].
  intros h n. rewrite <- (b_bal _ _ _ B h n). unfold bal, selfcnt.
  change (delivered_of st' h) with (delivered_of s h). change (ps_workers st') with (ps_workers s).
  rewrite (pend_same4 st' th' G J) by (rewrite ?Hlab; reflexivity).
  rewrite (todo_same st' th' G eq_refl) by (rewrite ?Hlab; reflexivity).
  rewrite (selft_same st' th' eq_refl J) by (rewrite ?Hlab; reflexivity).
  change (ps_njobs st') with (ps_njobs s).
  assert (EO : q_ordered (getq st' h) = q_ordered (getq s h)).
  { rewrite Gq. destruct (Nat.eqb_spec h j0) as [->|]; reflexivity. }
  rewrite EO.
  assert (ET : q_tid (getq st' h) = q_tid (getq s h)) by (rewrite Gq; destruct (Nat.eqb_spec h j0) as [->|]; reflexivity).
  assert (ECL : (cntN (listed_jobs st' h) n + cntN (carry st' stash h (q_tid (getq st' h))) n =
                 cntN (listed_jobs s h) n + cntN (carry s stash h (q_tid (getq s h))) n)%nat).
  { rewrite ET. unfold carry, listed_jobs. rewrite G, Gq.
    destruct (Nat.eqb_spec h j0) as [->|Hne].
    - rewrite Etid, Nat.eqb_refl, Hlab. cbn [t_lab th' pend lab_popped lab_stash qq' q_list]. rewrite Nat.eqb_refl, El.
      cbn [flat_map]. rewrite cntN_app, cntN_nil. change (getw st' i) with (getw s i).
      change (flat_map (fun i0 : nat => jobs (getw st' i0)) rest) with (flat_map (fun i0 : nat => jobs (getw s i0)) rest). lia.
    - destruct (Nat.eqb_spec (q_tid (getq s h)) t) as [E|E]; [|reflexivity].
      rewrite E, Hlab. cbn [t_lab th' pend lab_popped lab_stash]. destruct (Nat.eqb_spec j0 h); [congruence|]. reflexivity. }
  lia.
Qed.

Lemma exact_H4 j0 i r : t_lab (gett s t) = H4 j0 i -> wk_running (getw s i) = false -> wk_res (getw s i) = Some r ->
  Inv4 prog (after s t (H4 j0 i)) ((t, r) :: stash).
Proof.
  intros Hlab Er F3.
  assert (Hf : flight_w (getw s i) = true) by (apply (tk_flight _ _ _ Tt); rewrite Hlab; reflexivity).
  destruct (flight_notrunning _ Hf Er) as (F2 & _ & F4).
  assert (Hone : ttok (ord_of s) (t_lab (gett s t)) i = 1%nat) by (rewrite Hlab; cbn; rewrite Nat.eqb_refl; reflexivity).
  destruct (sole_thread s t i I2 Hone) as (Hi & S1 & S2 & S3 & S4).
  destruct (k_handler _ _ K t j0) as [Dq Etid]; [rewrite Hlab; reflexivity|].
  assert (Hn0 : t <> 0%nat).
  { intros E. destruct (b_caller _ _ _ B) as [Hc|Hc]; rewrite <- E, Hlab in Hc; discriminate. }
  unfold after. cbn [continue]. rewrite Er, F2, F4. cbn [fst snd].
  set (w' := mkw (wk_tid (getw s i)) false false (wk_job (getw s i)) None None).
  set (th' := pend KUnlock (OWm i) (H6 j0 i)).
  match goal with |- Inv4 _ ?S _ => set (st' := S) end.
  assert (G : forall x, gett st' x = if Nat.eqb x t then th' else gett s x) by (intros; apply (gett_upd s st' t th' x eq_refl Ht)).
  assert (Gw : forall k, getw st' k = if Nat.eqb k i then w' else getw s k) by (intros; apply (getw_upd s st' i w' k eq_refl Hi)).
  assert (Jw : jobs (getw s i) = [r]) by (unfold jobs; rewrite F2, F3; reflexivity).
  assert (Lx : forall x, x <> t -> gett st' x = gett s x).
  { intros x Hne. rewrite G. destruct (Nat.eqb_spec x t); [contradiction|reflexivity]. }
  assert (Lt : gett st' t = th') by (rewrite G, Nat.eqb_refl; reflexivity).
  assert (Jx : forall k, k <> i -> jobs (getw st' k) = jobs (getw s k)).
  { intros k Hk. rewrite Gw. destruct (Nat.eqb_spec k i); [contradiction|reflexivity]. }
  assert (Nk : ~ In t (map fst stash)).
  { intros H. apply in_map_iff in H. destruct H as ([x r'] & E & H). cbn in E. subst x.
    apply (k_stashlab _ _ K t r' H). rewrite Hlab. reflexivity. }
  destruct (caller_same st' th' G eq_refl) as [C1 C2]; [intros; congruence|].
  constructor; [|exact C1|exact C2].
  intros h n. rewrite <- (b_bal _ _ _ B h n). unfold bal, selfcnt.
  change (delivered_of st' h) with (delivered_of s h). change (getq st' h) with (getq s h).
  rewrite (todo_same st' th' G eq_refl) by (rewrite ?Hlab; reflexivity).
  change (ps_njobs st') with (ps_njobs s).
  assert (EL : listed_jobs st' h = listed_jobs s h).
  { unfold listed_jobs. change (getq st' h) with (getq s h). apply flat_map_ext_in'. intros k Hk. apply Jx.
    intros ->. exact (S3 h Hk). }
  assert (EC : carry st' ((t, r) :: stash) h (q_tid (getq s h)) = carry s stash h (q_tid (getq s h))).
  { unfold carry. set (x := q_tid (getq s h)).
    destruct (Nat.eq_dec x t) as [E|Hne].
    - rewrite E, Lt, Hlab. cbn [th' t_lab pend lab_popped lab_stash]. destruct (Nat.eqb j0 h); [|reflexivity].
      rewrite stash_of_cons_same, (stash_of_none _ _ Nk), Jw. reflexivity.
    - rewrite (Lx x Hne). destruct (lab_popped (t_lab (gett s x))) as [[j1 i1]|] eqn:Ep.
      + rewrite Jx; [reflexivity|]. intros ->.
        pose proof (lab_popped_ttok (ord_of s) _ _ _ Ep) as E1. rewrite (S2 x Hne) in E1. discriminate.
      + rewrite stash_of_cons_other by congruence. reflexivity. }
  assert (EP : q_ordered (getq s h) = true -> pend_jobs st' h = pend_jobs s h).
  { intros Ho. unfold pend_jobs. rewrite (Lx 0%nat) by congruence.
    destruct (lab_pending (t_lab (gett s 0))) as [[q i1]|] eqn:Ep; [|reflexivity].
    destruct (Nat.eqb_spec q h) as [->|]; [|reflexivity]. rewrite Jx; [reflexivity|]. intros ->.
    assert (E1 : ttok (ord_of s) (t_lab (gett s 0)) i = 1%nat).
    { destruct (t_lab (gett s 0)); cbn in Ep; try discriminate; inversion Ep; subst; cbn [ttok];
        unfold ord_of; rewrite Ho, Nat.eqb_refl; reflexivity. }
    rewrite (S2 0%nat) in E1 by congruence. discriminate. }
  pose proof (selfw_upd s st' i w' h n eq_refl Hi) as ESW.
  assert (E1 : self_w h n (getw s i) = 0%nat) by (unfold self_w, rq_is; rewrite F4; reflexivity).
  assert (E2 : self_w h n w' = 0%nat) by reflexivity.
  pose proof (selft_upd s st' t th' h n eq_refl Ht) as EST.
  assert (E3 : self_t s h n (gett s t) = 0%nat) by (unfold self_t; rewrite Hlab; reflexivity).
  assert (E4 : self_t st' h n th' = 0%nat) by reflexivity.
  assert (E5 : forall x, x <> t -> self_t st' h n (gett s x) = self_t s h n (gett s x)).
  { intros x Hne. unfold self_t. destruct (lab_w4u (t_lab (gett s x))) as [[i1 q1]|] eqn:Ew; [|reflexivity].
    rewrite Jx; [reflexivity|]. intros ->.
    pose proof (lab_w4u_ttok (ord_of s) _ _ _ Ew) as E6. rewrite (S2 x Hne) in E6. discriminate. }
  specialize (EST E5). rewrite EL, EC.
  destruct (q_ordered (getq s h)) eqn:Eo; [rewrite (EP eq_refl)|]; lia.
Qed.

Lemma exact_H8 j0 r0 (mv : list N) (st3 : pstate) (stash' : list (nat * N)) :
  t_lab (gett s t) = H8 j0 r0 -> stash_of stash t = mv -> stash' = drop_key stash t ->
  ps_threads st3 = ps_threads s -> ps_workers st3 = ps_workers s -> ps_queues st3 = ps_queues s ->
  ps_njobs st3 = ps_njobs s -> ps_prog st3 = ps_prog s -> ps_delivered st3 = ps_delivered s ++ map (pair j0) mv ->
  Inv4 prog (after st3 t (H8 j0 r0)) stash'.
Proof.
  intros Hlab Emv Est Eth Ew Eq En Epr Ed. subst stash'.
  destruct (k_handler _ _ K t j0) as [Dq Etid]; [rewrite Hlab; reflexivity|].
  assert (Hn0 : t <> 0%nat).
  { intros E. destruct (b_caller _ _ _ B) as [Hc|Hc]; rewrite <- E, Hlab in Hc; discriminate. }
  unfold after. cbn [continue fst snd].
  set (th' := pend KLock (OQm j0) (H1 j0)).
  set (st' := set_thread st3 t th').
  assert (G : forall x, gett st' x = if Nat.eqb x t then th' else gett s x).
  { intros x. unfold st'. rewrite gett_set_thread, Eth. destruct (Nat.eqb_spec x t); cbn [andb].
    - destruct (Nat.ltb_spec t (length (ps_threads s))); [reflexivity|lia].
    - unfold gett. rewrite Eth. reflexivity. }
  assert (Gw : forall k, getw st' k = getw s k) by (intros; unfold getw, st'; cbn [ps_workers set_thread]; rewrite Ew; reflexivity).
  assert (Gq : forall k, getq st' k = getq s k) by (intros; unfold getq, st'; cbn [ps_queues set_thread]; rewrite Eq; reflexivity).
  assert (J : forall k, jobs (getw st' k) = jobs (getw s k)) by (intros; rewrite Gw; reflexivity).
  assert (Dl : ps_delivered st' = ps_delivered s ++ map (pair j0) mv) by exact Ed.
  assert (Pr : ps_prog st' = ps_prog s) by exact Epr.
  assert (Lx : forall x, x <> t -> gett st' x = gett s x).
  { intros x Hne. rewrite G. destruct (Nat.eqb_spec x t); [contradiction|reflexivity]. }
  assert (Lt : gett st' t = th') by (rewrite G, Nat.eqb_refl; reflexivity).
  destruct (caller_same st' th' G Pr) as [C1 C2]; [intros; congruence|].
  constructor; [|exact C1|exact C2].
  intros h n. rewrite <- (b_bal _ _ _ B h n). unfold bal, selfcnt.
  rewrite (pend_same4 st' th' G J) by (rewrite ?Hlab; reflexivity).
  rewrite (todo_same st' th' G Pr) by (rewrite ?Hlab; reflexivity).
  assert (ESW : sumf (self_w h n) (ps_workers st') = sumf (self_w h n) (ps_workers s)).
  { change (ps_workers st') with (ps_workers st3). rewrite Ew. reflexivity. }
  assert (EST : sumf (self_t st' h n) (ps_threads st') = sumf (self_t s h n) (ps_threads s)).
  { apply (selft_same st' th'); try assumption; rewrite ?Hlab; try reflexivity.
    unfold st'. cbn [ps_threads set_thread]. rewrite Eth. reflexivity. }
  change (ps_njobs st') with (ps_njobs st3). rewrite En, Gq, ESW, EST.
  assert (EL : listed_jobs st' h = listed_jobs s h).
  { unfold listed_jobs. rewrite Gq. apply flat_map_ext. intros k. apply J. }
  assert (EC : delivered_of st' h ++ carry st' (drop_key stash t) h (q_tid (getq s h)) =
               delivered_of s h ++ carry s stash h (q_tid (getq s h))).
  { unfold delivered_of, carry. rewrite Dl, filter_app, map_app. set (x := q_tid (getq s h)).
    destruct (Nat.eqb_spec j0 h) as [->|Hne].
    - unfold x. rewrite Etid, Lt, Hlab. cbn [th' t_lab pend lab_popped lab_stash]. rewrite Nat.eqb_refl, Emv, app_nil_r. f_equal.
      clear. induction mv as [|a l IH]; cbn; [reflexivity|]. rewrite Nat.eqb_refl. cbn. f_equal. exact IH.
    - assert (E0 : map snd (filter (fun p : nat * N => Nat.eqb (fst p) h) (map (pair j0) mv)) = []).
      { clear - Hne. induction mv as [|a l IH]; cbn; [reflexivity|]. destruct (Nat.eqb_spec j0 h); [contradiction|exact IH]. }
      rewrite E0, app_nil_r. f_equal.
      destruct (Nat.eq_dec x t) as [E|Hx].
      + rewrite E, Lt, Hlab. cbn [th' t_lab pend lab_popped lab_stash]. destruct (Nat.eqb_spec j0 h); [contradiction|reflexivity].
      + rewrite (Lx x Hx). destruct (lab_popped (t_lab (gett s x))) as [[j1 i1]|]; [rewrite J; reflexivity|].
        rewrite stash_of_drop. destruct (Nat.eqb_spec x t); [contradiction|reflexivity]. }
  apply (f_equal (fun l => cntN l n)) in EC. rewrite !cntN_app in EC. rewrite EL. lia.
Qed.

Lemma exact_newhandler ord r : t = 0%nat ->
  ps_prog s = NewHandler ord :: r ->
  lab_popped (t_lab (gett s t)) = None -> lab_stash (t_lab (gett s t)) = None ->
  lab_pending (t_lab (gett s t)) = None -> lab_w4u (t_lab (gett s t)) = None -> lab_todo (t_lab (gett s t)) = [] ->
  Inv4 prog (set_thread (fst (caller_next s)) t (snd (caller_next s))) stash.
Proof.
  intros Ht0 Ep A1 A2 A3 A4 A5. unfold caller_next. rewrite Ep. cbn [fst snd].
  set (nq := length (ps_queues s)). set (nt := length (ps_threads s)).
  set (q0 := mkq ord nt false 0 []). set (th' := pend KCreate (OThread nt) CNext). set (nth := pend KStart ONone (H0 nq)).
  match goal with |- Inv4 _ ?S _ => set (st' := S) end.
  assert (G := fun x => gett_app_upd s st' t th' nth x eq_refl Ht). fold nt in G.
  assert (Gq := fun q => getq_app s st' q0 q eq_refl). fold nq in Gq.
  assert (J : forall k, jobs (getw st' k) = jobs (getw s k)) by reflexivity.
  assert (Lab : forall x, x <> t -> (t_lab (gett st' x) = t_lab (gett s x)) \/ (x = nt /\ t_lab (gett st' x) = H0 nq /\ t_lab (gett s x) = LDone)).
  { intros x Hne. rewrite G. destruct (Nat.eqb_spec x t); [contradiction|].
    destruct (Nat.ltb_spec x nt); [left; reflexivity|]. destruct (Nat.eqb_spec x nt) as [->|].
    - right. split; [reflexivity|]. split; [reflexivity|]. rewrite gett_oob by (fold nt; lia). reflexivity.
    - left. rewrite gett_oob by (fold nt; lia). reflexivity. }
  assert (Lt : t_lab (gett st' t) = CNext) by (rewrite G, Nat.eqb_refl; reflexivity).
  constructor.
  - intros h n. rewrite <- (b_bal _ _ _ B h n). unfold bal, selfcnt.
    change (delivered_of st' h) with (delivered_of s h). change (ps_workers st') with (ps_workers s). change (ps_njobs st') with (ps_njobs s).
    assert (EP : pend_jobs st' h = []) by (unfold pend_jobs; rewrite <- Ht0, Lt; reflexivity).
    assert (EP0 : pend_jobs s h = []) by (unfold pend_jobs; rewrite <- Ht0, A3; reflexivity).
    assert (ECx : forall x, carry st' stash h x = carry s stash h x).
    { intros x. unfold carry. destruct (Nat.eq_dec x t) as [->|Hne]; [rewrite Lt, A1, A2; reflexivity|].
      destruct (Lab x Hne) as [E|(_ & E & E')]; rewrite E; [reflexivity|rewrite E'; reflexivity]. }
    assert (EL : listed_jobs st' h = listed_jobs s h).
    { unfold listed_jobs. rewrite Gq. destruct (Nat.ltb_spec h nq); [reflexivity|].
      rewrite (getq_oob s h) by (fold nq; lia). destruct (Nat.eqb h nq); reflexivity. }
    assert (EC : carry st' stash h (q_tid (getq st' h)) = carry s stash h (q_tid (getq s h))).
    { rewrite ECx. rewrite Gq. destruct (Nat.ltb_spec h nq); [reflexivity|].
      rewrite (getq_oob s h) by (fold nq; lia). cbn [dummy_q q_tid].
      assert (Z : carry s stash h 0 = []) by (unfold carry; rewrite <- Ht0, A1, A2; reflexivity).
      rewrite Z. destruct (Nat.eqb h nq); [|exact Z].
      cbn [q0 q_tid]. unfold carry. rewrite gett_oob by (fold nt; lia). reflexivity. }
    assert (ET : dispatched (todo st') (ps_njobs s) h = dispatched (todo s) (ps_njobs s) h).
    { unfold todo. rewrite <- Ht0, Lt, A5, Ep. reflexivity. }
    assert (EST : sumf (self_t st' h n) (ps_threads st') = sumf (self_t s h n) (ps_threads s)).
    { apply (sumf_pointwise _ _ _ _ dummy_t dummy_t); try reflexivity.
      intros x. fold (gett st' x). fold (gett s x). unfold self_t.
      destruct (Nat.eq_dec x t) as [->|Hne]; [rewrite Lt, A4; reflexivity|].
      destruct (Lab x Hne) as [E|(_ & E & E')]; rewrite E; [reflexivity|rewrite E'; reflexivity]. }
    rewrite EP, EP0, EL, EC, ET, EST.
    destruct (q_ordered (getq st' h)), (q_ordered (getq s h)); rewrite ?cntN_nil; lia.
  - rewrite <- Ht0, Lt. left. reflexivity.
  - rewrite <- Ht0, Lt. discriminate.
Qed.

End ExactSteps.

(* ---------- one step ---------- *)
Lemma inv4_view prog st st' stash : same_view st st' -> ps_njobs st' = ps_njobs st -> ps_delivered st' = ps_delivered st ->
  Inv4 prog st stash -> Inv4 prog st' stash.
Proof.
  intros V En Ed B. apply (inv4_frame prog st); [|exact B]. constructor.
  - apply frame3_of_view; assumption.
  - intros h. unfold todo. rewrite (sv_lab _ _ 0%nat V), (sv_prog _ _ V), En. reflexivity.
  - intros h n. rewrite (sv_workers _ _ V). reflexivity.
  - intros h n. apply (sumf_pointwise _ _ _ _ dummy_t dummy_t); try reflexivity.
    intros x. fold (gett st' x). fold (gett st x). unfold self_t. rewrite (sv_lab _ _ x V).
    destruct (lab_w4u (t_lab (gett st x))) as [[i q]|]; [rewrite (sv_getw _ _ i V); reflexivity|reflexivity].
  - rewrite (sv_lab _ _ 0%nat V). apply (b_caller _ _ _ B).
  - rewrite (sv_lab _ _ 0%nat V), (sv_prog _ _ V). apply (b_done _ _ _ B).
Qed.

Lemma frame_step4 prog s t l stash : Inv2 s -> Inv4 prog s stash -> (t < length (ps_threads s))%nat -> t_lab (gett s t) = l ->
  nonspecial s l = true -> Inv4 prog (after s t l) stash.
Proof. intros I2 B Ht Hl NS. apply (inv4_frame prog s); [apply (after_frame4 prog s t l stash); assumption|exact B]. Qed.

Lemma caller_lab_none4 l : l = CNext \/ l = D8 \/ l = F3 \/ l = P6 ->
  lab_popped l = None /\ lab_stash l = None /\ lab_pending l = None /\ lab_w4u l = None /\ lab_todo l = [] /\ caller_lab l = true.
Proof. intros [->|[->|[->| ->]]]; repeat split. Qed.

Lemma tail_inv4 prog s t stash :
  Inv2 s -> Inv3 s stash -> Inv4 prog s stash -> (t < length (ps_threads s))%nat -> t_lab (gett s t) <> LDone ->
  let l := t_lab (gett s t) in
  let st3 := snd (stash_deliver s t l stash) in
  let stash1 := fst (stash_deliver s t l stash) in
  Inv4 prog (after st3 t l) stash1.
Proof.
  intros I2 K B Ht Hld l st3 stash1. subst st3 stash1.
  assert (Hnext : forall l', l = l' -> (l' = CNext \/ l' = D8 \/ l' = F3 \/ l' = P6) ->
                  continue s t l' = caller_next s -> Inv4 prog (after s t l') stash).
  { intros l' E Hc Hcn. destruct (nonspecial s l') eqn:NS.
    - apply frame_step4; assumption.
    - assert (exists ord r, ps_prog s = NewHandler ord :: r) as (ord & r & Ep).
      { destruct Hc as [->|[->|[->| ->]]]; cbn in NS; destruct (ps_prog s) as [|[]]; try discriminate; eauto. }
      unfold after. rewrite Hcn. destruct (caller_lab_none4 l' Hc) as (A1 & A2 & A3 & A4 & A5 & A6). rewrite <- E in *.
      assert (Ht0 : t = 0%nat) by (apply (tk_caller _ _ _ (i2_threads _ I2 t)); exact A6).
      apply (exact_newhandler prog s t stash B Ht ord r Ht0 Ep A1 A2 A3 A4 A5). }
  destruct l eqn:El; subst l;
    try (rewrite stash_deliver_other by (intros; discriminate); cbn [fst snd]);
    try (apply frame_step4; [assumption|assumption|assumption|assumption|reflexivity]).
  - apply Hnext; auto.
  - apply exact_D5; assumption.
  - apply exact_D7; assumption.
  - apply Hnext; auto.
  - apply Hnext; auto.
  - apply Hnext; auto.
  - destruct (wk_hasjob (getw s i)) eqn:Ej.
    + apply exact_W3; assumption.
    + apply frame_step4; try assumption. cbn. rewrite Ej. reflexivity.
  - apply exact_W4u; assumption.
  - destruct (q_list (getq s j)) as [|i rest] eqn:Elist.
    + apply frame_step4; try assumption. cbn. rewrite Elist. reflexivity.
    + apply (exact_H1 prog s t stash I2 K B Ht j i rest); assumption.
  - (* H4 *)
    cbn [stash_deliver]. destruct (wk_running (getw s w)) eqn:Er; cbn [fst snd].
    + apply frame_step4; assumption.
    + assert (Hf : flight_w (getw s w) = true) by (apply (tk_flight _ _ _ (i2_threads _ I2 t)); rewrite El; reflexivity).
      destruct (flight_notrunning _ Hf Er) as (_ & (r & F3) & _). rewrite F3. cbn [fst snd].
      apply exact_H4; assumption.
  - (* H8 *)
    cbn [stash_deliver]. destruct (find (fun p : nat * N => Nat.eqb (fst p) t) stash) as [[x r0]|] eqn:Ef; cbn [fst snd].
    + destruct (find_key_some stash t x r0 (k_keys _ _ K) Ef) as (_ & _ & E3).
      apply (exact_H8 prog s t stash I2 K B Ht j r [r0]); try reflexivity; try assumption.
    + pose proof (find_key_none stash t Ef) as Hn.
      apply (exact_H8 prog s t stash I2 K B Ht j r []); try reflexivity; try assumption.
      * apply stash_of_none. exact Hn.
      * symmetry. apply drop_key_none. exact Hn.
      * cbn. rewrite app_nil_r. reflexivity.
  - congruence.
Qed.

Lemma frame3_labels st st' : (forall x, t_lab (gett st' x) = t_lab (gett st x)) ->
  ps_workers st' = ps_workers st -> ps_queues st' = ps_queues st -> ps_njobs st' = ps_njobs st ->
  ps_delivered st' = ps_delivered st -> frame3 st st'.
Proof.
  intros L Ew Eq En Ed.
  assert (Gw : forall i, getw st' i = getw st i) by (intros; unfold getw; rewrite Ew; reflexivity).
  assert (Gq : forall i, getq st' i = getq st i) by (intros; unfold getq; rewrite Eq; reflexivity).
  constructor; try assumption; try (intros x; rewrite L; reflexivity); try (intros x; rewrite ?Gw, ?Gq; reflexivity).
  - intros x j. rewrite L. auto.
  - intros x i q. rewrite L. auto.
  - intros i q. rewrite Gw. auto.
  - rewrite Eq. reflexivity.
  - intros n. rewrite Ew. reflexivity.
Qed.

Lemma inv4_labels prog st st' stash : (forall x, t_lab (gett st' x) = t_lab (gett st x)) ->
  ps_workers st' = ps_workers st -> ps_queues st' = ps_queues st -> ps_prog st' = ps_prog st -> ps_njobs st' = ps_njobs st ->
  ps_delivered st' = ps_delivered st -> Inv4 prog st stash -> Inv4 prog st' stash.
Proof.
  intros L Ew Eq Ep En Ed B. apply (inv4_frame prog st); [|exact B]. constructor.
  - apply frame3_labels; assumption.
  - intros h. unfold todo. rewrite L, Ep, En. reflexivity.
  - intros h n. rewrite Ew. reflexivity.
  - intros h n. apply (sumf_pointwise _ _ _ _ dummy_t dummy_t); try reflexivity.
    intros x. fold (gett st' x). fold (gett st x). unfold self_t. rewrite L.
    destruct (lab_w4u (t_lab (gett st x))) as [[i q]|]; [unfold getw; rewrite Ew; reflexivity|reflexivity].
  - rewrite L. apply (b_caller _ _ _ B).
  - rewrite L, Ep. apply (b_done _ _ _ B).
Qed.

Lemma pstep_inv4 prog st t wake stash st' op o stash' :
  Inv1 st -> Inv2 st -> Inv3 st stash -> Inv4 prog st stash -> wake_ok st t wake ->
  pstep st t wake stash = Some (st', op, o, stash') -> Inv4 prog st' stash'.
Proof.
  intros I1 I2 K B W E.
  destruct (enabled st t) eqn:En; [|unfold pstep in E; rewrite En in E; discriminate].
  destruct (enabled_live _ _ En) as (Hlt & Hd & Hb).
  pose proof (shape_allowed _ (i1_shape _ I1 t)) as Hal.
  destruct (opk_eqb (t_op (gett st t)) KWait) eqn:Ew.
  { unfold pstep in E. rewrite En in E. cbn [negb] in E.
    destruct (t_op (gett st t)) eqn:Eop; try discriminate. inversion E; subst; clear E.
    apply (inv4_labels prog st); try reflexivity; [|exact B].
    intros x. rewrite gett_set_thread. destruct (Nat.eqb_spec x t) as [->|]; cbn [andb]; [|reflexivity].
    destruct (Nat.ltb _ _); reflexivity. }
  destruct (opk_eqb (t_op (gett st t)) KExit) eqn:Ee.
  { unfold pstep in E. rewrite En in E. cbn [negb] in E.
    destruct (t_op (gett st t)) eqn:Eop; try discriminate. inversion E; subst; clear E.
    destruct (exit_lab _ _ Hal) as [El Eo].
    apply (inv4_view prog st); try reflexivity; [|exact B].
    apply set_thread_same_view. unfold tview. rewrite El, Eo. reflexivity. }
  assert (Hw : t_op (gett st t) <> KWait) by (intros H; rewrite H in Ew; discriminate).
  assert (He : t_op (gett st t) <> KExit) by (intros H; rewrite H in Ee; discriminate).
  rewrite (pstep_general _ _ wake stash En Hw He) in E. inversion E; subst; clear E.
  unfold step_tail.
  set (st1 := st1_of st t).
  set (st2 := wake_step st1 (t_op (gett st t)) wake).
  assert (V1 : same_view st st1).
  { unfold st1, st1_of. destruct (t_op (gett st t)); try apply same_view_refl; apply set_owner_view. }
  assert (V2 : same_view st1 st2).
  { apply wake_step_view. intros u -> Hop Hu. unfold st1, st1_of in *. rewrite Hop in *.
    apply (blocked_obj st u I1). unfold wake_ok in W. apply W; assumption. }
  assert (V : same_view st st2) by (eapply same_view_trans; eassumption).
  assert (Sn : ps_njobs st2 = ps_njobs st) by (unfold st2; rewrite (proj1 (wake_step_scalars _ _ _)); apply st1_of_scalars).
  assert (Sd : ps_delivered st2 = ps_delivered st) by (unfold st2; rewrite (proj2 (wake_step_scalars _ _ _)); apply st1_of_scalars).
  assert (I2' : Inv2 st2) by (apply (inv2_view st); assumption).
  assert (K' : Inv3 st2 stash) by (apply (inv3_frame st); [apply frame3_of_view; assumption|exact K]).
  assert (B' : Inv4 prog st2 stash) by (apply (inv4_view prog st); assumption).
  assert (El : t_lab (gett st2 t) = t_lab (gett st t)) by (apply sv_lab; exact V).
  assert (Hlt2 : (t < length (ps_threads st2))%nat) by (rewrite (sv_len _ _ V); exact Hlt).
  assert (Hld : t_lab (gett st2 t) <> LDone).
  { rewrite El. intros H. rewrite H in Hal. destruct (t_op (gett st t)); cbn in Hal; try discriminate; try congruence. }
  pose proof (tail_inv4 prog st2 t stash I2' K' B' Hlt2 Hld) as T. cbn zeta in T. rewrite El in T. exact T.
Qed.

Lemma pspurious_inv4 prog st t st' stash : Inv1 st -> Inv4 prog st stash -> pspurious st t = Some st' -> Inv4 prog st' stash.
Proof.
  intros I1 B E. pose proof (pspurious_view st t st' I1 E) as V. apply (inv4_view prog st); [exact V| | |exact B];
    unfold pspurious in E; destruct (t_blocked (gett st t)); inversion E; reflexivity.
Qed.

(* ---------- initial state, reachable states ---------- *)
Lemma pre_init_inv4 maxt prog : Inv4 prog (pre_init maxt prog) [].
Proof.
  constructor.
  - intros h n. unfold bal, selfcnt, delivered_of, pend_jobs, listed_jobs, carry, todo.
    assert (Gq : getq (pre_init maxt prog) h = dummy_q) by (unfold getq; cbn [ps_queues pre_init]; destruct h; reflexivity).
    rewrite Gq. cbn. reflexivity.
  - left. reflexivity.
  - discriminate.
Qed.

Lemma pool_init_inv4 maxt prog : prog_wf_weak prog = true -> Inv4 prog (pool_init maxt prog) [].
Proof.
  intros Hp. rewrite pool_init_eq.
  assert (Ht : (0 < length (ps_threads (pre_init maxt prog)))%nat) by (cbn; lia).
  assert (Hld : t_lab (gett (pre_init maxt prog) 0) <> LDone) by discriminate.
  exact (tail_inv4 prog (pre_init maxt prog) 0 [] (pre_init_inv2 maxt prog Hp) (pre_init_inv3 maxt prog) (pre_init_inv4 maxt prog) Ht Hld).
Qed.

Lemma prun_inv1234 prog s : forall st0 stash0 st stash,
  Inv1 st0 -> Inv2 st0 -> Inv3 st0 stash0 -> Inv4 prog st0 stash0 -> sched_wf st0 stash0 s ->
  prun st0 stash0 s = Some (st, stash) -> Inv1 st /\ Inv2 st /\ Inv3 st stash /\ Inv4 prog st stash.
Proof.
  induction s as [|[t w|t] s IH]; intros st0 stash0 st stash I1 I2 K B W E; cbn [prun sched_wf] in *.
  - inversion E; subst. auto.
  - destruct W as [W1 W2]. destruct (pstep st0 t w stash0) as [[[[st1 op] o] stash1]|] eqn:Es; [|discriminate].
    eapply IH; [| | | |exact W2|exact E].
    + eapply pstep_inv1; eassumption.
    + eapply pstep_inv2; eassumption.
    + eapply pstep_inv3; eassumption.
    + eapply pstep_inv4; eassumption.
  - destruct (pspurious st0 t) as [st1|] eqn:Es; [|discriminate].
    eapply IH; [| | | |exact W|exact E].
    + eapply pspurious_inv1; eassumption.
    + eapply pspurious_inv2; eassumption.
    + eapply pspurious_inv3; eassumption.
    + eapply pspurious_inv4; eassumption.
Qed.

Theorem T13_all_invariants : forall maxt prog st stash, prog_wf_weak prog = true ->
  reachable maxt prog st stash -> Inv1 st /\ Inv2 st /\ Inv3 st stash /\ Inv4 prog st stash.
Proof.
  intros maxt prog st stash Hp (s & W & E).
  eapply prun_inv1234; [apply pool_init_inv1|apply pool_init_inv2; exact Hp|apply pool_init_inv3; exact Hp|
                        apply pool_init_inv4; exact Hp|exact W|exact E].
Qed.

(* ---------- when every thread has exited ---------- *)
Lemma done_label st x : Inv1 st -> all_done st -> t_lab (gett st x) = LDone.
Proof.
  intros I1 A. destruct (Nat.lt_ge_cases x (length (ps_threads st))) as [Hx|Hx]; [|rewrite gett_oob by exact Hx; reflexivity].
  unfold all_done in A. rewrite Forall_forall in A.
  assert (D : t_done (gett st x) = true) by (apply A; unfold gett; apply nth_In; exact Hx).
  pose proof (i1_shape _ I1 x) as S. unfold shape in S. rewrite D in S.
  apply andb_prop in S. destruct S as [S _]. apply andb_prop in S. destruct S as [S1 S2].
  apply andb_prop in S2. destruct S2 as [S2 _]. destruct (t_op (gett st x)); try discriminate.
  apply (exit_lab _ _ S1).
Qed.

Lemma flight_not_done i w : flight_w w = true -> wphase_ok i w LDone = false.
Proof.
  unfold flight_w, wphase_ok. destruct (wk_running w), (wk_hasjob w), (wk_res w), (wk_rq w); cbn; intros; try discriminate; reflexivity.
Qed.

Theorem T13_exactly_once : forall maxt prog s st stash, prog_wf prog = true ->
  sched_wf (pool_init maxt prog) [] s ->
  prun (pool_init maxt prog) [] s = Some (st, stash) ->
  all_done st ->
  forall h, Permutation (map snd (filter (fun p => Nat.eqb (fst p) h) (ps_delivered st))) (dispatched prog 0 h).
Proof.
  intros maxt prog s st stash Hp W E A h.
  destruct (T13_all_invariants maxt prog st stash (prog_wf_weaken _ Hp)) as (I1 & I2 & K & B); [exists s; split; assumption|].
  assert (L : forall x, t_lab (gett st x) = LDone) by (intros x; apply done_label; assumption).
  apply (Permutation_count_occ N.eq_dec). intros n.
  pose proof (b_bal _ _ _ B h n) as Bal. unfold bal, selfcnt in Bal.
  assert (E1 : pend_jobs st h = []) by (unfold pend_jobs; rewrite L; reflexivity).
  assert (E2 : carry st stash h (q_tid (getq st h)) = []) by (unfold carry; rewrite L; reflexivity).
  assert (E3 : listed_jobs st h = []).
  { unfold listed_jobs. destruct (q_list (getq st h)) as [|i rest] eqn:El; [reflexivity|exfalso].
    assert (Hin : In i (q_list (getq st h))) by (rewrite El; left; reflexivity).
    pose proof (i2_listed _ I2 h i Hin) as F. destruct (i2_wthread _ I2 i (flight_lt _ _ F)) as [_ Wp].
    rewrite L, (flight_not_done i _ F) in Wp. discriminate. }
  assert (E4 : sumf (self_w h n) (ps_workers st) = 0%nat).
  { assert (Z : sumf (self_w h n) (ps_workers st) = sumf (fun _ => 0%nat) (ps_workers st)).
    { apply (sumf_ext_nth _ _ _ dummy_w). intros i Hi. fold (getw st i). unfold self_w, rq_is.
      destruct (wk_rq (getw st i)) as [q|] eqn:Er; [|reflexivity]. exfalso.
      destruct (i2_wthread _ I2 i Hi) as [_ Wp]. rewrite L in Wp. revert Wp. unfold wphase_ok. rewrite Er. cbn [wloop].
      destruct (wk_running (getw st i)), (wk_hasjob (getw st i)), (wk_res (getw st i)); cbn; discriminate. }
    rewrite Z. clear. induction (ps_workers st); [reflexivity|]. rewrite sumf_cons. exact IHl. }
  assert (E5 : sumf (self_t st h n) (ps_threads st) = 0%nat).
  { assert (Z : sumf (self_t st h n) (ps_threads st) = sumf (fun _ => 0%nat) (ps_threads st)).
    { apply (sumf_ext_nth _ _ _ dummy_t). intros x Hx. fold (gett st x). unfold self_t. rewrite L. reflexivity. }
    rewrite Z. clear. induction (ps_threads st); [reflexivity|]. rewrite sumf_cons. exact IHl. }
  assert (E6 : dispatched (todo st) (ps_njobs st) h = []).
  { unfold todo. rewrite L, (b_done _ _ _ B (L 0%nat)). reflexivity. }
  rewrite E1, E2, E3, E4, E5, E6, !cntN_nil in Bal. unfold delivered_of, cntN in Bal.
  destruct (q_ordered (getq st h)); lia.
Qed.

Print Assumptions T13_all_invariants.
Print Assumptions T13_exactly_once.
