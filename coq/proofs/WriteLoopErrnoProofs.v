(* the errno-level loop (model/WriteLoopErrno.v) refines to model/WriteLoop.v whatever errno held on entry and whatever
   successful writes do to it *)
From Coq Require Import NArith ZArith List Lia ZifyBool ZifyN ZifyNat.
From Mtbl Require Import model.Bytes model.WriteLoop model.WriteLoopErrno proofs.BytesLemmas proofs.WriteLoopProofs.
Import ListNotations.
Local Open Scope N_scope.

Section Refine.
Variable succ_errno : outcome -> eno -> eno.

Lemma take_all (l : bytes) : take (len l) l = l.
Proof. unfold take, len. rewrite Nat2N.id. apply firstn_all. Qed.
Lemma drop_all (l : bytes) : drop (len l) l = [].
Proof. unfold drop, len. rewrite Nat2N.id. apply skipn_all. Qed.

Lemma write_loop_e_refines : forall os e file buf,
  strip_e (write_loop_e succ_errno os e file buf) = write_loop os file buf.
Proof.
  induction os as [|o os IH]; intros e file buf; destruct buf as [|b buf]; try reflexivity.
  set (l := b :: buf).
  assert (Hl : 1 <= len l) by (subst l; rewrite len_cons; lia).
  cbn [write_loop_e write_loop]. fold l.
  destruct o as [|n| | |]; cbn [sys_write is_intr].
  - (* full *)
    replace (Z.of_N (len l) <? 0)%Z with false by lia. cbn [andb].
    replace (Z.of_N (len l) <=? 0)%Z with false by lia.
    rewrite N2Z.id, take_all, drop_all. destruct os; reflexivity.
  - (* partial *)
    assert (Hk : 1 <= partial_len n (len l)) by (unfold partial_len; lia).
    replace (Z.of_N (partial_len n (len l)) <? 0)%Z with false by lia. cbn [andb].
    replace (Z.of_N (partial_len n (len l)) <=? 0)%Z with false by lia.
    rewrite N2Z.id. apply IH.
  - (* EINTR *)
    change ((-1 <? 0)%Z) with true. cbn [andb]. apply IH.
  - (* zero *)
    change ((0 <? 0)%Z) with false. cbn [andb]. reflexivity.
  - (* hard error *)
    change ((-1 <? 0)%Z) with true. cbn [andb]. reflexivity.
Qed.

Lemma write_all_e_refines os e file buf :
  strip_e (write_all_e succ_errno os e file buf) = write_all os file buf.
Proof. unfold write_all_e, write_all. destruct buf; [reflexivity|]. apply write_loop_e_refines. Qed.

Lemma write_chunks_e_refines : forall chunks os e file,
  strip_e (write_chunks_e succ_errno os e file chunks) = write_chunks os file chunks.
Proof.
  induction chunks as [|c chunks IH]; intros os e file; [reflexivity|].
  cbn [write_chunks_e write_chunks].
  rewrite <- (write_all_e_refines os e file c).
  destruct (write_all_e succ_errno os e file c) as [[[f os'] e']| | |]; cbn [strip_e]; try reflexivity.
  apply IH.
Qed.
End Refine.

(* hence neither the errno left by an earlier call nor what successful writes do to errno can change the outcome *)
Corollary stale_errno_irrelevant g1 g2 e1 e2 os file chunks :
  strip_e (write_chunks_e g1 os e1 file chunks) = strip_e (write_chunks_e g2 os e2 file chunks).
Proof. rewrite !write_chunks_e_refines. reflexivity. Qed.
