From Coq Require Import NArith ZArith List Lia ZifyBool ZifyN.
From Mtbl Require Import model.Bytes.
Local Open Scope N_scope.
Ltac Zify.zify_post_hook ::= Z.div_mod_to_equations.

(* finite sweep: a boolean predicate checked on 0..n-1 by computation holds below n *)
Lemma sweep (n : nat) (P : N -> bool) :
  forallb P (map N.of_nat (seq 0 n)) = true -> forall r, r < N.of_nat n -> P r = true.
Proof.
  intros H r Hr. rewrite forallb_forall in H. apply H.
  apply in_map_iff. exists (N.to_nat r). split; [apply N2Nat.id|].
  apply in_seq. lia.
Qed.

Lemma len_app (a b : bytes) : len (a ++ b) = len a + len b.
Proof. unfold len. rewrite app_length. lia. Qed.
Lemma len_cons (x : N) (a : bytes) : len (x :: a) = len a + 1.
Proof. unfold len. cbn [length]. lia. Qed.
Lemma len_nil : len [] = 0.
Proof. reflexivity. Qed.

Lemma land_ones_low (x n : N) : N.land x (N.ones n) = x mod 2 ^ n.
Proof. apply N.land_ones. Qed.

Lemma land127 x : N.land x 127 = x mod 128.
Proof. change 127 with (N.ones 7). rewrite N.land_ones. reflexivity. Qed.
Lemma land255 x : N.land x 255 = x mod 256.
Proof. change 255 with (N.ones 8). rewrite N.land_ones. reflexivity. Qed.

(* bit 7 test on arbitrary N: depends on x mod 256 only *)
Lemma land128_mod x : N.land x 128 = N.land (x mod 256) 128.
Proof.
  rewrite <- land255. rewrite <- N.land_assoc. reflexivity.
Qed.

Lemma land128_small_b : forallb (fun r => Bool.eqb (N.land r 128 =? 0) (r <? 128)) (map N.of_nat (seq 0 256)) = true.
Proof. vm_compute. reflexivity. Qed.

Lemma land128_zero_iff x : x < 256 -> (N.land x 128 =? 0) = (x <? 128).
Proof.
  intros H. pose proof (sweep 256 _ land128_small_b x H) as E. cbv beta in E.
  apply Bool.eqb_prop in E. exact E.
Qed.

Lemma lor128_small_b : forallb (fun r => N.lor r 128 =? r mod 128 + 128) (map N.of_nat (seq 0 256)) = true.
Proof. vm_compute. reflexivity. Qed.

(* `*(ptr++) = x | B` stored into a uint8_t *)
Lemma lor128_u8 x : u8 (N.lor x 128) = x mod 128 + 128.
Proof.
  unfold u8. rewrite <- land255, N.land_lor_distr_l. rewrite !land255.
  change (128 mod 256) with 128.
  assert (H : x mod 256 < 256) by (apply N.mod_lt; lia).
  pose proof (sweep 256 _ lor128_small_b _ H) as E. cbv beta in E.
  apply N.eqb_eq in E. rewrite E. clear E H.
  lia.
Qed.

Lemma shiftr7 x : N.shiftr x 7 = x / 128.
Proof. rewrite N.shiftr_div_pow2. reflexivity. Qed.
Lemma shiftr_div x k : N.shiftr x k = x / 2 ^ k.
Proof. apply N.shiftr_div_pow2. Qed.
Lemma shiftl_mul x k : N.shiftl x k = x * 2 ^ k.
Proof. apply N.shiftl_mul_pow2. Qed.

(* disjoint or = addition *)
Lemma lor_disjoint_add a b n : a < 2 ^ n -> N.lor a (b * 2 ^ n) = a + b * 2 ^ n.
Proof.
  intros Ha.
  assert (Hz : N.land a (b * 2 ^ n) = 0).
  { apply N.bits_inj_iff. intros i. rewrite N.land_spec, N.bits_0.
    destruct (N.lt_ge_cases i n) as [Hi|Hi].
    - rewrite N.mul_pow2_bits_low by exact Hi. apply andb_false_r.
    - assert (Hb : N.testbit a i = false).
      { destruct (N.eq_dec a 0) as [->|Hne]; [apply N.bits_0|].
        apply N.bits_above_log2. apply N.log2_lt_pow2; [lia|].
        eapply N.lt_le_trans; [exact Ha|]. apply N.pow_le_mono_r; lia. }
      rewrite Hb. reflexivity. }
  rewrite <- N.lxor_lor by exact Hz.
  symmetry. apply N.add_nocarry_lxor. exact Hz.
Qed.

Lemma lor_disjoint_add' a b p n : p = 2 ^ n -> a < p -> N.lor a (b * p) = a + b * p.
Proof. intros -> H. apply lor_disjoint_add, H. Qed.

Lemma drop_app_len (a b : bytes) n : len a = n -> drop n (a ++ b) = b.
Proof.
  intros <-. unfold drop, len. rewrite Nat2N.id. rewrite skipn_app, skipn_all, Nat.sub_diag. reflexivity.
Qed.
Lemma take_app_len (a b : bytes) n : len a = n -> take n (a ++ b) = a.
Proof.
  intros <-. unfold take, len. rewrite Nat2N.id. rewrite firstn_app, firstn_all, Nat.sub_diag. cbn. apply app_nil_r.
Qed.
Lemma len_repeat (x : N) n : len (repeat x n) = N.of_nat n.
Proof. unfold len. rewrite repeat_length. reflexivity. Qed.
Lemma len_concat_map {A} (f : A -> bytes) (l : list A) :
  len (concat (map f l)) = fold_right (fun x s => len (f x) + s) 0 l.
Proof. induction l as [|x l IH]; cbn [map concat fold_right]; [reflexivity|]. rewrite len_app, IH. reflexivity. Qed.

Lemma skipn_skipn' {A} : forall (b a : nat) (l : list A), skipn a (skipn b l) = skipn (b + a) l.
Proof.
  induction b as [|b IH]; intros a l; [reflexivity|].
  destruct l as [|x l]; [cbn; destruct a; reflexivity|]. cbn [skipn Nat.add]. apply IH.
Qed.

Lemma firstn_add' {A} : forall (a b : nat) (l : list A), firstn (a + b) l = firstn a l ++ firstn b (skipn a l).
Proof.
  induction a as [|a IH]; intros b l; [reflexivity|].
  destruct l as [|x l]; [cbn; destruct b; reflexivity|]. cbn [Nat.add firstn skipn app]. f_equal. apply IH.
Qed.
